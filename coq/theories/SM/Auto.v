(* C13: AutonomousStateMachine runs once per enable and never loops.
   Also C01's "the machine stops as soon as it is not inside a must_finish state". *)
From Coq Require Import ZArith List Bool Lia.
From RecordUpdate Require Import RecordSet.
Import ListNotations RecordSetNotations.
From RV Require Import SM.Model SM.Basics SM.Engage SM.Invariants SM.Stop SM.Timing.
Open Scope Z_scope.

Section P.
Variable sh : shape.
Variable body : nat -> name -> Z -> Z -> bool -> list action.
Hypothesis Hwf : wf_shape sh.

(* ------------------------------------------------------------------ *)
(* on_iteration = engage(); execute(); latch := is_executing            *)
Theorem auto_iteration_as_if_engaged fuel m now : auto_on m = true ->
  step sh body fuel m (AOnIteration now) =
  (let '(m1, e1) := step sh body fuel m (Engage None false) in
   let '(m2, e2) := step sh body fuel m1 (Execute now) in
   (m2 <| auto_on := engaged m2 |>, e1 ++ e2)).
Proof. intros H. cbn [step]. rewrite H. reflexivity. Qed.

Theorem auto_off_noop fuel m now : auto_on m = false ->
  step sh body fuel m (AOnIteration now) = (m, []).
Proof. intros H. cbn [step]. rewrite H. reflexivity. Qed.

Theorem auto_disable_stops fuel m : sh_auto sh = true ->
  let m' := fst (step sh body fuel m AOnDisable) in
  snd (step sh body fuel m AOnDisable) = [EvDone] /\
  engaged m' = false /\ auto_on m' = false /\ should m' = false /\ cur m' = None /\ nt_cur m' = None.
Proof.
  intros Ha. cbn [step fst snd]. unfold done. rewrite Ha. cbn. repeat split.
Qed.

(* ------------------------------------------------------------------ *)
(* once done() has been invoked in an iteration of an autonomous machine,
   the iteration ends with the machine stopped: it never cycles back     *)

Definition done_stops (m' : sm) (ev : list event) : Prop := In EvDone ev -> engaged m' = false.

Lemma expire_done_stops m now : sh_auto sh = true ->
  In EvDone (s_ev (expire sh m now)) ->
  engaged (s_m (expire sh m now)) = false /\ s_st (expire sh m now) = None /\ s_done (expire sh m now) = true.
Proof.
  intros Ha. unfold expire. repeat break_match; cbn; try tauto; try (intros [H|[]]; discriminate).
  - exfalso. rewrite done_should, Ha in *. discriminate.
  - intros _. rewrite done_engaged. auto.
Qed.

Lemma select_done_stops x : sh_auto sh = true ->
  (In EvDone (s_ev x) -> engaged (s_m x) = false /\ s_st x = None /\ s_done x = true) ->
  In EvDone (s_ev (select sh x)) -> engaged (s_m (select sh x)) = false.
Proof.
  intros Ha Hx. unfold select. rewrite fallback_engaged.
  unfold fallback, stop_if_engaged.
  destruct (s_st (deactivate sh x)) as [s|] eqn:Est.
  - cbn. rewrite Est. rewrite deactivate_ev, deactivate_m. intros H. destruct (Hx H) as (_ & Hn & _).
    rewrite deactivate_st, Hn in Est. discriminate.
  - destruct (engaged (s_m (deactivate sh x)) && negb (s_done (deactivate sh x))) eqn:Ec;
      cbn [s_m s_st s_ev set]; rewrite ?Est.
    + intros _. apply done_engaged.
    + rewrite deactivate_m, deactivate_done in *.
      destruct (sh_default sh) as [d|]; [destruct (is_some_eq (cur (s_m x)) d)|];
        cbn [s_ev set]; rewrite ?deactivate_ev; rewrite ?in_app_iff; intros H.
      * apply Hx, H.
      * destruct H as [H|[H|[]]]; [apply Hx, H | discriminate].
      * apply Hx, H.
Qed.

Section Step.
Variable nested : sm -> Z -> sm * list event.
Hypothesis nested_done_stops : forall m now, ok (snd (nested m now)) ->
  done_stops (fst (nested m now)) (snd (nested m now)).

Lemma run_actions_done_stops acts : forall m, ok (snd (run_actions sh nested acts m)) ->
  done_stops (fst (run_actions sh nested acts m)) (snd (run_actions sh nested acts m)).
Proof.
  induction acts as [|a r IH]; intros m Hok; cbn [run_actions] in *.
  - intros [].
  - destruct a as [n|n now'|].
    + destruct (is_state sh n); [|intros [H|[]]; discriminate].
      specialize (IH (next_state m n)).
      destruct (run_actions sh nested r (next_state m n)) as [m' e]. cbn [fst snd] in *.
      apply ok_app in Hok. destruct Hok as [Hi Hok]. apply ok_app in Hok. destruct Hok as [Hd Hok].
      apply ok_cons in Hok. destruct Hok as [_ Hok].
      intros H. apply (IH Hok). rewrite !in_app_iff in H.
      destruct H as [H|[H|[H|H]]]; auto; try discriminate.
      * unfold off_if_idle in H. destruct (engaged m); [destruct H | destruct H as [H|[]]; discriminate].
      * unfold off_if_default in H. destruct (is_default sh n); [destruct H as [H|[]]; discriminate | destruct H].
    + destruct (is_state sh n); [|intros [H|[]]; discriminate].
      pose proof (nested_done_stops (next_state m n) now') as Hn.
      destruct (nested (next_state m n) now') as [m1 e1].
      match goal with |- context [run_actions sh nested r ?mm] =>
        pose proof (IH mm) as IH';
        pose proof (run_actions_idle sh nested r mm) as Hidle;
        destruct (run_actions sh nested r mm) as [m2 e2] eqn:Er end.
      cbn [fst snd] in *.
      apply ok_app in Hok. destruct Hok as [Hi Hok]. apply ok_app in Hok. destruct Hok as [Hd Hok].
      apply ok_cons in Hok. destruct Hok as [_ Hok]. apply ok_cons in Hok. destruct Hok as [_ Hok].
      apply ok_app in Hok. destruct Hok as [Hok1 Hok2].
      intros H. rewrite !in_app_iff in H.
      destruct H as [H|[H|H]].
      * unfold off_if_idle in H. destruct (engaged m); [destruct H | destruct H as [H|[]]; discriminate].
      * unfold off_if_default in H. destruct (is_default sh n); [destruct H as [H|[]]; discriminate | destruct H].
      * destruct H as [H|[H|H]]; try discriminate. apply in_app_iff in H. destruct H as [H|H].
        -- (* done() inside the nested iteration: nothing can follow *)
           pose proof (Hn Hok1 H) as He1.
           assert (Hm2 : (m2, e2) = (if engaged m1 then m1 <| should := should (next_state m n) |> else m1, []))
             by (apply Hidle; [rewrite He1; exact He1 | exact Hok2]).
           rewrite He1 in Hm2. injection Hm2 as -> _. exact He1.
        -- apply (IH' Hok2 H).
    + pose proof (run_actions_idle sh nested r (done sh m) (done_engaged sh m)) as Hidle.
      destruct (run_actions sh nested r (done sh m)) as [m' e] eqn:Er. cbn [fst snd] in *.
      apply ok_app in Hok. destruct Hok as [_ Hok]. apply ok_cons in Hok. destruct Hok as [_ Hok].
      intros _. specialize (Hidle Hok). injection Hidle as -> _. apply done_engaged.
Qed.

Lemma exec_step_done_stops m now : sh_auto sh = true ->
  ok (snd (exec_step sh body nested m now)) ->
  done_stops (fst (exec_step sh body nested m now)) (snd (exec_step sh body nested m now)).
Proof.
  intros Ha. unfold exec_step.
  assert (Hbk : forall l, In EvDone ((if now <? clk m then [EvBack] else []) ++ l) -> In EvDone l).
  { intros l H. apply in_app_iff in H. destruct H as [H|H]; [|exact H].
    destruct (now <? clk m); [destruct H as [H|[]]; discriminate | destruct H]. }
  destruct (negb (engaged (m <| clk := now |>)) && negb (should (m <| clk := now |>)) && is_none (sh_default sh)).
  - cbn [fst snd]. intros _ H. specialize (Hbk [] ). rewrite app_nil_r in Hbk. destruct (Hbk H).
  - set (x0 := expire sh (latch (m <| clk := now |>) now) now).
    pose proof (select_done_stops x0 Ha (expire_done_stops _ now Ha)) as Hsel.
    set (x := select sh x0) in *.
    destruct (s_st x) as [s|] eqn:Est.
    + pose proof (enter_bk_frame sh (s_m x) s (s_nss x)) as Hf.
      pose proof (enter_bk_spec sh (s_m x) s (s_nss x)) as Hsp.
      destruct (enter_bk sh (s_m x) s (s_nss x)) as [[m1 init] bk]. cbn in Hf.
      destruct Hf as (_ & Hfe & _).
      match goal with |- context [run_actions sh nested ?a ?mm] =>
        pose proof (run_actions_done_stops a mm) as Hr;
        pose proof (run_actions_idle sh nested a mm) as Hidle;
        destruct (run_actions sh nested a mm) as [m2 e] eqn:Er end.
      cbn [fst snd] in *. intros Hok H. apply Hbk in H.
      apply ok_app in Hok. destruct Hok as [_ Hok]. apply ok_app in Hok. destruct Hok as [_ Hok].
      apply ok_app in Hok. destruct Hok as [_ Hok]. apply ok_cons in Hok. destruct Hok as [_ Hok].
      apply in_app_iff in H. destruct H as [H|H].
      * (* done() during the selection phases: only the default state can follow, and it cannot act *)
        specialize (Hsel H).
        assert (Hm2 : (m2, e) = (m1 <| ncall := S (ncall m1) |>, [])) by (apply Hidle; [cbn; congruence | exact Hok]).
        injection Hm2 as -> _. cbn. congruence.
      * apply in_app_iff in H. destruct H as [H|H].
        -- exfalso. destruct Hsp as (_ & _ & _ & Hwas & Hnew). destruct (ran (sdat (s_m x) s)).
           ++ destruct (Hwas eq_refl) as [_ ->]. destruct H.
           ++ destruct (Hnew eq_refl) as (_ & _ & ->). destruct H as [H|[]]. discriminate.
        -- destruct H as [H|H]; [discriminate|]. cbn. apply (Hr Hok H).
    + destruct (s_done x); cbn [fst snd]; intros _ H; apply Hbk in H.
      * rewrite app_nil_r in H. cbn. apply Hsel, H.
      * cbn. apply done_engaged.
Qed.
End Step.

Theorem exec_done_stops fuel : forall m now, sh_auto sh = true ->
  ok (snd (exec sh body fuel m now)) ->
  In EvDone (snd (exec sh body fuel m now)) -> engaged (fst (exec sh body fuel m now)) = false.
Proof.
  induction fuel as [|f IH]; intros m now Ha; cbn [exec].
  - cbn. intros H. exfalso. eapply not_ok_err, H.
  - intros Hok. apply exec_step_done_stops; auto. intros m' now' Hok'. unfold done_stops. apply IH; auto.
Qed.

(* ------------------------------------------------------------------ *)
(* The same WITHOUT the usage contract: whatever a state function does after
   done() -- more transitions, next_state_now(), done() again -- an autonomous
   machine that has been stopped stays stopped for the rest of the iteration
   (its done() withdraws the request, and next_state_now() restores the request
   only while the machine is still executing). *)
Definition Zst (m : sm) : Prop := engaged m = false /\ should m = false.

Lemma Zst_next_state m n : Zst m -> Zst (next_state m n).
Proof. intros [H1 H2]. split; [rewrite next_state_engaged | rewrite next_state_should]; assumption. Qed.
Lemma Zst_done m : sh_auto sh = true -> Zst (done sh m).
Proof. intros Ha. split; [apply done_engaged | rewrite done_should, Ha; reflexivity]. Qed.

Lemma expire_done_Z m now : sh_auto sh = true ->
  In EvDone (s_ev (expire sh m now)) ->
  Zst (s_m (expire sh m now)) /\ s_st (expire sh m now) = None /\ s_done (expire sh m now) = true.
Proof.
  intros Ha. unfold expire. repeat break_match; cbn; try tauto; try (intros [H|[]]; discriminate).
  - exfalso. rewrite done_should, Ha in *. discriminate.
  - intros _. split; [apply Zst_done, Ha | auto].
Qed.

Lemma select_done_Z x : sh_auto sh = true ->
  (In EvDone (s_ev x) -> Zst (s_m x) /\ s_st x = None /\ s_done x = true) ->
  In EvDone (s_ev (select sh x)) -> Zst (s_m (select sh x)).
Proof.
  intros Ha Hx. unfold select, Zst. rewrite fallback_engaged, fallback_should.
  unfold fallback, stop_if_engaged.
  destruct (s_st (deactivate sh x)) as [s|] eqn:Est.
  - cbn. rewrite Est. rewrite deactivate_ev, deactivate_m. intros H. destruct (Hx H) as (_ & Hn & _).
    rewrite deactivate_st, Hn in Est. discriminate.
  - destruct (engaged (s_m (deactivate sh x)) && negb (s_done (deactivate sh x))) eqn:Ec;
      cbn [s_m s_st s_ev set]; rewrite ?Est.
    + intros _. apply Zst_done, Ha.
    + rewrite deactivate_m, deactivate_done in *.
      destruct (sh_default sh) as [d|]; [destruct (is_some_eq (cur (s_m x)) d)|];
        cbn [s_ev set]; rewrite ?deactivate_ev; rewrite ?in_app_iff; intros H.
      * apply Hx, H.
      * destruct H as [H|[H|[]]]; [apply Hx, H | discriminate].
      * apply Hx, H.
Qed.

Section StepZ.
Variable nested : sm -> Z -> sm * list event.
Hypothesis nested_Z : forall m now, Zst m -> Zst (fst (nested m now)).

Lemma run_actions_Z acts : forall m, sh_auto sh = true -> Zst m -> Zst (fst (run_actions sh nested acts m)).
Proof.
  induction acts as [|a r IH]; intros m Ha HZ; cbn [run_actions]; [exact HZ|].
  destruct a as [n|n now'|].
  - destruct (is_state sh n); [|exact HZ].
    specialize (IH (next_state m n) Ha (Zst_next_state m n HZ)).
    destruct (run_actions sh nested r (next_state m n)). exact IH.
  - destruct (is_state sh n); [|exact HZ].
    pose proof (nested_Z (next_state m n) now' (Zst_next_state m n HZ)) as Hn.
    destruct (nested (next_state m n) now') as [m1 e1]. cbn [fst] in Hn.
    destruct Hn as [Hn1 Hn2]. rewrite Hn1.
    specialize (IH m1 Ha (conj Hn1 Hn2)). destruct (run_actions sh nested r m1). exact IH.
  - specialize (IH (done sh m) Ha (Zst_done m Ha)). destruct (run_actions sh nested r (done sh m)). exact IH.
Qed.

Lemma exec_step_Z m now : sh_auto sh = true -> Zst m -> Zst (fst (exec_step sh body nested m now)).
Proof.
  intros Ha [He Hs]. unfold exec_step.
  destruct (negb (engaged (m <| clk := now |>)) && negb (should (m <| clk := now |>)) && is_none (sh_default sh));
    [split; assumption|].
  set (x := select sh (expire sh (latch (m <| clk := now |>) now) now)).
  assert (Hex : engaged (s_m x) = false) by (apply select_expire_not_engaged; assumption).
  destruct (s_st x) as [s|].
  - pose proof (enter_bk_frame sh (s_m x) s (s_nss x)) as Hf.
    destruct (enter_bk sh (s_m x) s (s_nss x)) as [[m1 init] bk]. cbn in Hf. destruct Hf as (Hfs & Hfe & _).
    assert (Hsx : should (s_m x) = false).
    { destruct (should (s_m x)) eqn:E; auto. unfold x in E. apply select_should_le, expire_should_le in E.
      rewrite latch_should in E. cbn in E. congruence. }
    match goal with |- context [run_actions sh nested ?a ?mm] =>
      pose proof (run_actions_Z a mm Ha) as Hr; destruct (run_actions sh nested a mm) as [m2 e] end.
    cbn [fst] in *. destruct Hr as [R1 R2]; [split; cbn; congruence|]. split; [exact R1 | reflexivity].
  - destruct (s_done x); cbn [fst]; split; cbn; auto using done_engaged.
Qed.

Definition done_stops_any (m' : sm) (ev : list event) : Prop := In EvDone ev -> Zst m'.
Hypothesis nested_dsa : forall m now, done_stops_any (fst (nested m now)) (snd (nested m now)).

Lemma run_actions_dsa acts : forall m, sh_auto sh = true ->
  done_stops_any (fst (run_actions sh nested acts m)) (snd (run_actions sh nested acts m)).
Proof.
  induction acts as [|a r IH]; intros m Ha; cbn [run_actions]; [intros []|].
  destruct a as [n|n now'|].
  - destruct (is_state sh n); [|intros [H|[]]; discriminate].
    specialize (IH (next_state m n) Ha). destruct (run_actions sh nested r (next_state m n)) as [m' e]. cbn [fst snd] in *.
    intros H. apply IH. rewrite !in_app_iff in H. destruct H as [H|[H|[H|H]]]; auto; try discriminate.
    + unfold off_if_idle in H. destruct (engaged m); [destruct H | destruct H as [H|[]]; discriminate].
    + unfold off_if_default in H. destruct (is_default sh n); [destruct H as [H|[]]; discriminate | destruct H].
  - destruct (is_state sh n); [|intros [H|[]]; discriminate].
    pose proof (nested_dsa (next_state m n) now') as Hn.
    destruct (nested (next_state m n) now') as [m1 e1]. cbn [fst snd] in Hn.
    match goal with |- context [run_actions sh nested r ?mm] =>
      pose proof (IH mm Ha) as IH'; pose proof (run_actions_Z r mm Ha) as HZr;
      destruct (run_actions sh nested r mm) as [m2 e2] eqn:Er end.
    cbn [fst snd] in *. intros H. rewrite !in_app_iff in H.
    destruct H as [H|[H|H]].
    + unfold off_if_idle in H. destruct (engaged m); [destruct H | destruct H as [H|[]]; discriminate].
    + unfold off_if_default in H. destruct (is_default sh n); [destruct H as [H|[]]; discriminate | destruct H].
    + destruct H as [H|[H|H]]; try discriminate. apply in_app_iff in H. destruct H as [H|H].
      * destruct (Hn H) as [Z1 Z2]. apply HZr. rewrite Z1. split; assumption.
      * apply IH', H.
  - pose proof (run_actions_Z r (done sh m) Ha (Zst_done m Ha)) as HZ.
    destruct (run_actions sh nested r (done sh m)) as [m' e]. cbn [fst snd]. intros _. exact HZ.
Qed.

Lemma exec_step_dsa m now : sh_auto sh = true ->
  done_stops_any (fst (exec_step sh body nested m now)) (snd (exec_step sh body nested m now)).
Proof.
  intros Ha. unfold exec_step.
  assert (Hbk : forall l, In EvDone ((if now <? clk m then [EvBack] else []) ++ l) -> In EvDone l).
  { intros l H. apply in_app_iff in H. destruct H as [H|H]; [|exact H].
    destruct (now <? clk m); [destruct H as [H|[]]; discriminate | destruct H]. }
  destruct (negb (engaged (m <| clk := now |>)) && negb (should (m <| clk := now |>)) && is_none (sh_default sh)).
  - cbn [fst snd]. intros H. specialize (Hbk []). rewrite app_nil_r in Hbk. destruct (Hbk H).
  - set (x0 := expire sh (latch (m <| clk := now |>) now) now).
    pose proof (select_done_Z x0 Ha (expire_done_Z _ now Ha)) as Hsel.
    set (x := select sh x0) in *.
    destruct (s_st x) as [s|] eqn:Est.
    + pose proof (enter_bk_frame sh (s_m x) s (s_nss x)) as Hf.
      pose proof (enter_bk_spec sh (s_m x) s (s_nss x)) as Hsp.
      destruct (enter_bk sh (s_m x) s (s_nss x)) as [[m1 init] bk]. cbn in Hf.
      destruct Hf as (Hfs & Hfe & _).
      match goal with |- context [run_actions sh nested ?a ?mm] =>
        pose proof (run_actions_dsa a mm Ha) as Hr;
        pose proof (run_actions_Z a mm Ha) as HZr;
        destruct (run_actions sh nested a mm) as [m2 e] eqn:Er end.
      cbn [fst snd] in *. intros H. apply Hbk in H.
      assert (Hfin : Zst m2 -> Zst (m2 <| should := false |>)) by (intros [Z1 _]; split; [exact Z1 | reflexivity]).
      apply in_app_iff in H. destruct H as [H|H].
      * apply Hfin, HZr. destruct (Hsel H) as [Z1 Z2]. split; cbn; congruence.
      * apply in_app_iff in H. destruct H as [H|H].
        -- exfalso. destruct Hsp as (_ & _ & _ & Hwas & Hnew). destruct (ran (sdat (s_m x) s)).
           ++ destruct (Hwas eq_refl) as [_ ->]. destruct H.
           ++ destruct (Hnew eq_refl) as (_ & _ & ->). destruct H as [H|[]]. discriminate.
        -- destruct H as [H|H]; [discriminate|]. apply Hfin, Hr, H.
    + destruct (s_done x) eqn:Esd; cbn [fst snd]; intros H; apply Hbk in H.
      * rewrite app_nil_r in H. destruct (Hsel H) as [Z1 Z2]. split; [exact Z1 | reflexivity].
      * split; [cbn; apply done_engaged | reflexivity].
Qed.
End StepZ.

Lemma exec_Z fuel : forall m now, sh_auto sh = true -> Zst m -> Zst (fst (exec sh body fuel m now)).
Proof.
  induction fuel as [|f IH]; intros m now Ha HZ; cbn [exec]; [exact HZ|].
  apply exec_step_Z; auto.
Qed.

(* for EVERY user code (no contract): once done() is invoked in an iteration of an
   autonomous machine, the iteration ends with the machine stopped and unrequested *)
Theorem exec_done_stops_any fuel : forall m now, sh_auto sh = true ->
  In EvDone (snd (exec sh body fuel m now)) ->
  engaged (fst (exec sh body fuel m now)) = false /\ should (fst (exec sh body fuel m now)) = false.
Proof.
  induction fuel as [|f IH]; intros m now Ha; cbn [exec].
  - cbn. intros [H|[]]. discriminate.
  - apply exec_step_dsa; auto.
    + intros m' now' HZ. apply exec_Z; assumption.
    + intros m' now'. unfold done_stops_any, Zst. apply IH, Ha.
Qed.

Theorem auto_done_latches_off_any fuel m now : sh_auto sh = true -> auto_on m = true ->
  In EvDone (snd (step sh body fuel m (AOnIteration now))) ->
  let m' := fst (step sh body fuel m (AOnIteration now)) in
  auto_on m' = false /\ engaged m' = false.
Proof.
  intros Ha Hon. cbn [step]. rewrite Hon.
  assert (He1 : ~ In EvDone (snd (engage sh m None false))).
  { unfold engage. repeat break_match; cbn; intros H; repeat (destruct H as [H|H]; try discriminate); auto. }
  destruct (engage sh m None false) as [m1 e1]. cbn [snd] in He1.
  pose proof (exec_done_stops_any fuel m1 now Ha) as Hx.
  destruct (exec sh body fuel m1 now) as [m2 e2]. cbn [fst snd] in *.
  intros H. apply in_app_iff in H. destruct H as [H|H]; [contradiction|].
  destruct (Hx H) as [Z1 _]. cbn. auto.
Qed.

(* the latch follows is_executing, so: done() anywhere in an on_iteration => latch off *)
Theorem auto_done_latches_off fuel m now : sh_auto sh = true -> auto_on m = true ->
  ok (snd (step sh body fuel m (AOnIteration now))) ->
  In EvDone (snd (step sh body fuel m (AOnIteration now))) ->
  let m' := fst (step sh body fuel m (AOnIteration now)) in
  auto_on m' = false /\ engaged m' = false.
Proof.
  intros Ha Hon. cbn [step]. rewrite Hon.
  assert (He1 : ~ In EvDone (snd (engage sh m None false))).
  { unfold engage. repeat break_match; cbn; intros H; repeat (destruct H as [H|H]; try discriminate); auto. }
  destruct (engage sh m None false) as [m1 e1]. cbn [snd] in He1.
  pose proof (exec_done_stops fuel m1 now Ha) as Hx.
  destruct (exec sh body fuel m1 now) as [m2 e2]. cbn [fst snd] in *.
  intros Hok H. apply ok_app in Hok. destruct Hok as [_ Hok2].
  apply in_app_iff in H. destruct H as [H|H]; [contradiction|].
  specialize (Hx Hok2 H). cbn. auto.
Qed.

(* from then on nothing at all runs until the next on_enable *)
Definition auto_idle_op (o : op) : bool :=
  match o with AOnIteration _ | AOnDisable => true | _ => false end.

Theorem auto_off_until_enable fuel h : forall m, sh_auto sh = true ->
  auto_on m = false -> engaged m = false -> forallb auto_idle_op h = true ->
  let '(m', es) := run sh body fuel m h in
  auto_on m' = false /\ engaged m' = false /\
  Forall (fun e => e = EvDone) (concat es).
Proof.
  induction h as [|o r IH]; intros m Ha Hoff He Hp; cbn [run].
  - repeat split; auto. constructor.
  - cbn [forallb] in Hp. apply andb_true_iff in Hp. destruct Hp as [Ho Hr].
    destruct o; try discriminate; cbn [step].
    + rewrite Hoff. specialize (IH m Ha Hoff He Hr).
      destruct (run sh body fuel m r) as [m2 es]. cbn [concat app]. exact IH.
    + assert (H1 : auto_on (done sh m) = false) by (unfold done; rewrite Ha; reflexivity).
      specialize (IH (done sh m) Ha H1 (done_engaged sh m) Hr).
      destruct (run sh body fuel (done sh m) r) as [m2 es]. cbn [concat].
      destruct IH as (I1 & I2 & I3). repeat split; auto. constructor; [reflexivity | exact I3].
Qed.

(* ... which starts again from the first state with tm at zero *)
Theorem auto_reenable_fresh fuel m now : sh_auto sh = true ->
  engaged m = false -> (cur m = None \/ at_default sh m = true) -> clk m <= now ->
  let m0 := fst (step sh body (S fuel) m AOnEnable) in
  let f := sh_first sh in
  auto_on m0 = true /\
  exists e, snd (step sh body (S fuel) m0 (AOnIteration now)) =
            EvEnter f :: EvBk f (now + 0) (now + (0 + duration_of sh m f)) :: EvCall f 0 0 true true :: e.
Proof.
  intros Ha He Hidle Hclk m0 f. destruct Hwf as (Hw1 & Hw2 & _).
  subst m0. cbn [step fst]. split; [reflexivity|].
  set (m0 := m <| auto_on := true |>).
  replace (auto_on m0) with true by reflexivity.
  destruct (restart_fresh sh body (exec sh body fuel) m0 now None false) as [Heng (m2 & e & Hex)]; auto.
  cbn [exec] in *. fold f in Heng, Hex.
  destruct (engage sh m0 None false) as [m1 e1]. cbn [fst snd] in *. subst e1.
  rewrite Hex. cbn. eexists. reflexivity.
Qed.

(* ------------------------------------------------------------------ *)
(* C01: without engage() the machine stops as soon as it is not inside a
   must_finish state: if no non-default state function was called in the
   iteration, it ends with the machine stopped                          *)
Section Step2.
Variable nested : sm -> Z -> sm * list event.

Definition only_default_calls (t : list event) : Prop :=
  forall s tm stm i eng, In (EvCall s tm stm i eng) t -> is_default sh s = true.

Lemma exec_step_stops m now : Inv sh m -> should m = false ->
  ok (snd (exec_step sh body nested m now)) ->
  only_default_calls (snd (exec_step sh body nested m now)) ->
  engaged (fst (exec_step sh body nested m now)) = false.
Proof.
  intros HI Hs. unfold exec_step.
  destruct (negb (engaged (m <| clk := now |>)) && negb (should (m <| clk := now |>)) && is_none (sh_default sh)) eqn:Eearly.
  - cbn [fst snd]. intros _ _. cbn in Eearly.
    apply andb_true_iff in Eearly. destruct Eearly as [Ee _].
    apply andb_true_iff in Ee. destruct Ee as [Ee _]. apply negb_true_iff in Ee. exact Ee.
  - set (x := select sh (expire sh (latch (m <| clk := now |>) now) now)).
    destruct (s_st x) as [s|] eqn:Est.
    + pose proof (enter_bk_frame sh (s_m x) s (s_nss x)) as Hf.
      destruct (enter_bk sh (s_m x) s (s_nss x)) as [[m1 init] bk]. cbn in Hf.
      destruct Hf as (_ & Hfe & _).
      match goal with |- context [run_actions sh nested ?a ?mm] =>
        pose proof (run_actions_idle sh nested a mm) as Hidle;
        destruct (run_actions sh nested a mm) as [m2 e] eqn:Er end.
      cbn [fst snd]. intros Hok Honly.
      pose proof Hok as Hok0.
      apply ok_app in Hok. destruct Hok as [Hback Hok]. apply back_ok in Hback.
      apply ok_app in Hok. destruct Hok as [Hokx Hok].
      apply ok_app in Hok. destruct Hok as [_ Hok]. apply ok_cons in Hok. destruct Hok as [_ Hok].
      assert (HP : post_select sh now x)
        by (apply (select_post sh), (expire_PE sh); auto; apply (select_ok_expire sh), Hokx).
      unfold post_select in HP. rewrite Est in HP.
      destruct HP as (_ & _ & _ & _ & _ & Hpe & _).
      assert (Hd : is_default sh s = true).
      { eapply Honly. rewrite !in_app_iff. right. right. right. left. reflexivity. }
      assert (Hex : engaged (s_m x) = false).
      { destruct (engaged (s_m x)) eqn:E; auto. destruct (Hpe eq_refl) as [H _]. congruence. }
      assert (Hm2 : (m2, e) = (m1 <| ncall := S (ncall m1) |>, [])) by (apply Hidle; [cbn; congruence | exact Hok]).
      injection Hm2 as -> _. cbn. congruence.
    + intros Hok _.
      assert (Hok' : ok (if now <? clk m then [EvBack] else []) /\ ok (s_ev x)).
      { destruct (s_done x); cbn [fst snd] in Hok; apply ok_app in Hok; destruct Hok as [H1 Hok];
          apply ok_app in Hok; destruct Hok as [H2 _]; auto. }
      destruct Hok' as [Hback Hokx]. apply back_ok in Hback.
      assert (HP : post_select sh now x)
        by (apply (select_post sh), (expire_PE sh); auto; apply (select_ok_expire sh), Hokx).
      unfold post_select in HP. rewrite Est in HP.
      destruct HP as (_ & _ & _ & _ & He & _).
      destruct (s_done x); cbn [fst snd]; cbn; [exact He | apply done_engaged].
Qed.
End Step2.

Theorem exec_stops fuel m now : Inv sh m -> should m = false ->
  ok (snd (exec sh body (S fuel) m now)) ->
  only_default_calls (snd (exec sh body (S fuel) m now)) ->
  engaged (fst (exec sh body (S fuel) m now)) = false /\
  (engaged m = true -> In EvDone (snd (exec sh body (S fuel) m now))).
Proof.
  intros HI Hs Hok Honly. cbn [exec] in *.
  pose proof (exec_step_stops (exec sh body fuel) m now HI Hs Hok Honly) as He.
  split; [exact He|]. intros Hm.
  destruct (exec_step_drop sh body (exec sh body fuel) (exec_drop sh body fuel) m now) as [H|H];
    [exact H | specialize (H Hm); congruence].
Qed.

(* while regular states are running: is_executing and current_state *)
Theorem running_status m : Inv sh m -> engaged m = true ->
  exists s, cur m = Some s /\ nt_cur m = Some s /\ is_default sh s = false.
Proof. intros (Ha & _) He. destruct (Ha He) as (s & H1 & H2 & H3). eauto. Qed.

Theorem stopped_status m : Inv sh m -> engaged m = false -> should m = false ->
  nt_cur m = None /\ (cur m = None \/ at_default sh m = true).
Proof.
  intros (_ & Hb & _) He Hs. destruct (Hb He Hs) as ([Hn|(d & Hd & Hc)] & Hnt); split; auto.
  right. unfold at_default. rewrite Hc, Hd. apply Nat.eqb_refl.
Qed.

End P.
