(* Executable model of magicbot/state_machine.py: StateMachine.engage /
   next_state / next_state_now / done / on_disable / execute and
   AutonomousStateMachine.on_enable / on_iteration / on_disable / done.
   No proofs in this file.

   Time is Z ticks.  User code (state function bodies) is a function
   [body k s tm state_tm initial_call] giving the list of in-state actions of
   the k-th state-function invocation of the run; theorems quantify over all
   such functions, the correspondence instantiates it with a lookup table. *)
From Coq Require Import ZArith List Bool.
From RecordUpdate Require Import RecordSet.
Import ListNotations RecordSetNotations.
Open Scope Z_scope.

Definition name := nat.

Record sdecl := { d_must : bool; d_timed : bool; d_next : option name }.

Record shape := {
  sh_states : list (name * sdecl);
  sh_first : name;
  sh_default : option name;
  sh_inf : Z;          (* 0xFFFFFFFF seconds, in ticks *)
  sh_auto : bool       (* AutonomousStateMachine: done() also withdraws the request *)
}.

Record sdata := { ran : bool; st_start : Z; st_exp : Z }.
#[export] Instance eta_sdata : Settable _ := settable! Build_sdata <ran; st_start; st_exp>.

Record sm := {
  should : bool;             (* __should_engage *)
  engaged : bool;            (* __engaged == is_executing *)
  cur : option name;         (* __state *)
  start : Z;                 (* __start *)
  sdat : name -> sdata;      (* the _StateData objects *)
  dur : name -> Z;           (* value of the <state>_duration tunables *)
  nt_cur : option name;      (* the current_state tunable; None is '' *)
  auto_on : bool;            (* AutonomousStateMachine.__engaged (its latch) *)
  clk : Z;                   (* ghost: last clock reading *)
  ncall : nat                (* ghost: number of state-function invocations so far *)
}.
#[export] Instance eta_sm : Settable _ :=
  settable! Build_sm <should; engaged; cur; start; sdat; dur; nt_cur; auto_on; clk; ncall>.

Inductive action :=
| ANext (s : name)                   (* self.next_state(s) *)
| ANextNow (s : name) (now : Z)      (* self.next_state_now(s); the nested execute() reads the clock as [now] *)
| ADone.                             (* self.done() *)

Inductive event :=
| EvCall (s : name) (tm stm : Z) (init : bool) (eng : bool)
                                     (* a state function was invoked; eng = is_executing at that moment *)
| EvEnter (s : name)                 (* next_state(s) was invoked *)
| EvDone                             (* done() was invoked *)
| EvErr                              (* an exception escapes (KeyError, AttributeError, RecursionError) *)
(* ghost events, not observable on the implementation *)
| EvOff                              (* an in-state action outside the usage contract K *)
| EvBack                             (* the clock went backwards *)
| EvFallback (d : name)              (* the default state took over (it is entered) *)
| EvBk (s : name) (abs_start abs_exp : Z)
                                     (* first-call bookkeeping: absolute entry and expiry instants *)
| EvNow.                             (* a next_state_now() was performed *)

Definition upd {A} (f : name -> A) (k : name) (v : A) : name -> A :=
  fun x => if Nat.eqb x k then v else f x.

Definition lookup (sh : shape) (s : name) : option sdecl :=
  option_map snd (find (fun p => Nat.eqb (fst p) s) (sh_states sh)).

Definition is_some_eq (a : option name) (s : name) : bool :=
  match a with Some x => Nat.eqb x s | None => false end.
Definition is_none {A} (a : option A) : bool := match a with None => true | Some _ => false end.

Section Machine.
Variable sh : shape.

Definition is_state (s : name) : bool := negb (is_none (lookup sh s)).
Definition is_default (s : name) : bool := is_some_eq (sh_default sh) s.
(* @default_state is must_finish=True in the code *)
Definition is_must (s : name) : bool :=
  match lookup sh s with Some d => d_must d | None => false end.
Definition is_regular (s : name) : bool := negb (is_default s) && negb (is_must s).

Definition duration_of (m : sm) (s : name) : Z :=
  match lookup sh s with
  | Some d => if d_timed d then dur m s else sh_inf sh
  | None => sh_inf sh
  end.

(* next_state(): the target has not run yet, current_state names it *)
Definition next_state (m : sm) (s : name) : sm :=
  m <| sdat := upd (sdat m) s (sdat m s <| ran := false |>) |>
    <| cur := Some s |> <| nt_cur := Some s |>.

(* done(); AutonomousStateMachine.done() additionally withdraws the request
   and turns its latch off *)
Definition done (m : sm) : sm :=
  let m := m <| engaged := false |> <| cur := None |> <| nt_cur := None |> in
  if sh_auto sh then m <| should := false |> <| auto_on := false |> else m.

Definition at_default (m : sm) : bool :=
  match cur m, sh_default sh with Some c, Some d => Nat.eqb c d | _, _ => false end.

(* engage(initial_state, force); returns the next_state() invocation it made *)
Definition engage (m : sm) (init : option name) (force : bool) : sm * list event :=
  let m := m <| should := true |> in
  if force || is_none (cur m) || at_default m then
    let s := match init with Some s => s | None => sh_first sh end in
    if is_state s then (next_state m s, (if is_default s then [EvOff] else []) ++ [EvEnter s]) else (m, [EvErr])
  else (m, []).

(* ---- execute(), in phases ------------------------------------------ *)

Record sel := {
  s_m : sm;                (* the machine *)
  s_st : option name;      (* local variable `state` *)
  s_nss : Z;               (* new_state_start *)
  s_tm : Z;                (* tm *)
  s_ev : list event;
  s_done : bool            (* done_called *)
}.
#[export] Instance eta_sel : Settable _ := settable! Build_sel <s_m; s_st; s_nss; s_tm; s_ev; s_done>.

(* start/engaged latch *)
Definition latch (m : sm) (now : Z) : sm :=
  if negb (engaged m) && should m then m <| start := now |> <| engaged := true |> else m.

(* "determine if the time has passed to execute the next state -> intentionally comes first" *)
Definition expire (m : sm) (now : Z) : sel :=
  let tm := now - start m in
  let keep st := {| s_m := m; s_st := st; s_nss := tm; s_tm := tm; s_ev := []; s_done := false |} in
  match cur m with
  | Some s =>
    let d := sdat m s in
    if ran d && (st_exp d <? tm) then
      match lookup sh s with
      | Some dc =>
        if d_timed dc then
          match d_next dc with
          | Some n =>
              if is_state n then
                {| s_m := next_state m n; s_st := Some n; s_nss := st_exp d; s_tm := tm;
                   s_ev := [EvEnter n]; s_done := false |}
              else {| s_m := m; s_st := None; s_nss := st_exp d; s_tm := tm; s_ev := [EvErr]; s_done := false |}
          | None =>
            let m1 := done m in
            if should m1 then
              (* still requested: start over, clock origin moved to the expiry instant *)
              let m2 := next_state (m1 <| start := start m1 + st_exp d |> <| engaged := true |>) (sh_first sh) in
              {| s_m := m2; s_st := Some (sh_first sh); s_nss := 0; s_tm := tm - st_exp d;
                 s_ev := [EvDone; EvEnter (sh_first sh)]; s_done := true |}
            else
              {| s_m := m1; s_st := None; s_nss := st_exp d; s_tm := tm; s_ev := [EvDone]; s_done := true |}
          end
        else (* an untimed state has no next_state attribute: AttributeError *)
          {| s_m := m; s_st := None; s_nss := st_exp d; s_tm := tm; s_ev := [EvErr]; s_done := false |}
      | None => {| s_m := m; s_st := None; s_nss := tm; s_tm := tm; s_ev := [EvErr]; s_done := false |}
      end
    else keep (Some s)
  | None => keep None
  end.

(* "deactivate the current state unless engage was called or must_finish was set" *)
Definition deactivate (x : sel) : sel :=
  match s_st x with
  | Some s => if should (s_m x) || is_must s then x else x <| s_st := None |>
  | None => x
  end.

(* the machine stops here: always through done() *)
Definition stop_if_engaged (x : sel) : sel :=
  match s_st x with
  | None =>
      if engaged (s_m x) && negb (s_done x)
      then x <| s_m := done (s_m x) |> <| s_ev := s_ev x ++ [EvDone] |> <| s_done := true |>
      else x
  | Some _ => x
  end.

(* "if there is no state to execute and there is a default state, do the default state" *)
Definition fallback (x : sel) : sel :=
  match s_st x, sh_default sh with
  | None, Some dflt =>
      let m := s_m x in
      if is_some_eq (cur m) dflt then x <| s_st := Some dflt |>
      else x <| s_m := m <| sdat := upd (sdat m) dflt (sdat m dflt <| ran := false |>) |> <| cur := Some dflt |> |>
             <| s_st := Some dflt |> <| s_ev := s_ev x ++ [EvFallback dflt] |>
  | _, _ => x
  end.

Definition select (x : sel) : sel := fallback (stop_if_engaged (deactivate x)).

(* first-call bookkeeping; returns the machine, initial_call and the ghost event *)
Definition enter_bk (m : sm) (s : name) (nss : Z) : sm * bool * list event :=
  let d := sdat m s in
  if ran d then (m, false, [])
  else
    let e := nss + duration_of m s in
    (m <| sdat := upd (sdat m) s {| ran := true; st_start := nss; st_exp := e |} |>,
     true, [EvBk s (start m + nss) (start m + e)]).

Section Step.
Variable body : nat -> name -> Z -> Z -> bool -> list action.
Variable nested : sm -> Z -> sm * list event.   (* execute(), for next_state_now *)

Definition off_if_idle (m : sm) : list event := if engaged m then [] else [EvOff].
Definition off_if_default (s : name) : list event := if is_default s then [EvOff] else [].

Fixpoint run_actions (acts : list action) (m : sm) : sm * list event :=
  match acts with
  | [] => (m, [])
  | ANext n :: r =>
      if is_state n then
        let '(m', e) := run_actions r (next_state m n) in
        (m', off_if_idle m ++ off_if_default n ++ EvEnter n :: e)
      else (m, [EvErr])
  | ADone :: r =>
      let '(m', e) := run_actions r (done m) in (m', off_if_idle m ++ EvDone :: e)
  | ANextNow n now' :: r =>
      if is_state n then
        let m0 := next_state m n in
        let sv := should m0 in
        let '(m1, e1) := nested m0 now' in
        (* the request survives the nested iteration only while the machine is still executing *)
        let m1 := if engaged m1 then m1 <| should := sv |> else m1 in
        let '(m2, e2) := run_actions r m1 in
        (m2, off_if_idle m ++ off_if_default n ++ EvNow :: EvEnter n :: e1 ++ e2)
      else (m, [EvErr])
  end.

Definition exec_step (m0 : sm) (now : Z) : sm * list event :=
  let back := if now <? clk m0 then [EvBack] else [] in
  let m := m0 <| clk := now |> in
  if negb (engaged m) && negb (should m) && is_none (sh_default sh) then (m, back) else
  let x := select (expire (latch m now) now) in
  let '(m', ev) :=
    match s_st x with
    | Some s =>
        let '(m1, init, bk) := enter_bk (s_m x) s (s_nss x) in
        let stm := s_tm x - st_start (sdat m1 s) in
        let k := ncall m1 in
        let eng := engaged m1 in
        let '(m2, e) := run_actions (body k s (s_tm x) stm init) (m1 <| ncall := S k |>) in
        (m2, bk ++ EvCall s (s_tm x) stm init eng :: e)
    | None => if s_done x then (s_m x, []) else (done (s_m x), [EvDone])
    end in
  (m' <| should := false |>, back ++ s_ev x ++ ev).
End Step.

(* next_state_now re-enters execute(): closed by fuel; exhaustion is RecursionError *)
Fixpoint exec (body : nat -> name -> Z -> Z -> bool -> list action) (fuel : nat)
  : sm -> Z -> sm * list event :=
  match fuel with
  | O => fun m _ => (m, [EvErr])
  | S f => exec_step body (exec body f)
  end.

(* ---- operations of a history --------------------------------------- *)
Inductive op :=
| Engage (init : option name) (force : bool)
| Done
| OnDisable
| Execute (now : Z)
| SetDuration (s : name) (d : Z)       (* a NetworkTables client writes <s>_duration *)
| AOnEnable
| AOnIteration (now : Z)
| AOnDisable.

Definition step (body : nat -> name -> Z -> Z -> bool -> list action) (fuel : nat)
  (m : sm) (o : op) : sm * list event :=
  match o with
  | Engage i f => engage m i f
  | Done | OnDisable | AOnDisable => (done m, [EvDone])
  | Execute now => exec body fuel m now
  | SetDuration s d => (m <| dur := upd (dur m) s d |>, [])
  | AOnEnable => (m <| auto_on := true |>, [])
  | AOnIteration now =>
      if auto_on m then
        let '(m1, e1) := engage m None false in
        let '(m2, e2) := exec body fuel m1 now in
        (m2 <| auto_on := engaged m2 |>, e1 ++ e2)
      else (m, [])
  end.

Fixpoint run (body : nat -> name -> Z -> Z -> bool -> list action) (fuel : nat)
  (m : sm) (h : list op) : sm * list (list event) :=
  match h with
  | [] => (m, [])
  | o :: r =>
      let '(m1, e) := step body fuel m o in
      let '(m2, es) := run body fuel m1 r in
      (m2, e :: es)
  end.

End Machine.

Definition init_sm (durs : name -> Z) : sm :=
  {| should := false; engaged := false; cur := None; start := 0;
     sdat := fun _ => {| ran := false; st_start := 0; st_exp := 4294967295 |};
     dur := durs; nt_cur := None; auto_on := false; clk := 0; ncall := 0 |}.

(* C03: the call adapter  `lambda self, tm, state_tm, initial_call: f(<declared params>)` *)
Inductive param := PTm | PStateTm | PInitial.
Inductive argval := VZ (z : Z) | VB (b : bool).
Definition arg_value (tm stm : Z) (init : bool) (p : param) : argval :=
  match p with PTm => VZ tm | PStateTm => VZ stm | PInitial => VB init end.
Definition adapter (ps : list param) (tm stm : Z) (init : bool) : list argval :=
  map (arg_value tm stm init) ps.

(* ---- helpers for the correspondence (observable projection) --------- *)
Definition observable (e : event) : bool :=
  match e with
  | EvCall _ _ _ _ _ | EvEnter _ | EvDone | EvErr => true
  | _ => false
  end.
