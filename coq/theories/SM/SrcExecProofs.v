(* The statement-by-statement translation of StateMachine.execute() (SM/SrcExec.v, regenerated from the source by
   every check) computes exactly the phased model [exec_step] of SM/Model.v on which C01-C04 and C13 are proved:
   same machine afterwards, same observable events, and an exception in the source is an [EvErr] of the model. *)
From Coq Require Import ZArith List Bool Lia Arith.
From RecordUpdate Require Import RecordSet.
Import ListNotations RecordSetNotations.
From RV Require Import SM.Model SM.SrcExec.
Open Scope Z_scope.
Open Scope bool_scope.

Section Proofs.
Variable sh : shape.
Variable body : nat -> name -> Z -> Z -> bool -> list action.
Variable nested : sm -> Z -> sm * list event.

(* frame ~ sel: same machine and locals, the frame's events are the observable ones of the model's *)
Definition R (f : frame) (x : sel) : Prop :=
  f_m f = s_m x /\ f_state f = s_st x /\ f_nss f = s_nss x /\ f_tm f = s_tm x /\ f_done f = s_done x /\
  f_ev f = filter observable (s_ev x) /\ f_err f = false /\ f_ret f = false.

Ltac crush :=
  repeat match goal with
         | |- context [match ?x with _ => _ end] => destruct x eqn:?; cbn in *; try congruence
         end.

Lemma upd_same : forall A (f : name -> A) k v, upd f k v k = v.
Proof. intros; unfold upd; rewrite Nat.eqb_refl; reflexivity. Qed.

Lemma sm_eta : forall m, Build_sm (should m) (engaged m) (cur m) (start m) (sdat m) (dur m) (nt_cur m) (auto_on m) (clk m) (ncall m) = m.
Proof. destruct m; reflexivity. Qed.

Lemma s7_deactivate : forall now f x, R f x -> R (ref_s7 sh body nested now f) (deactivate sh x).
Proof.
  intros now [m nw tm st dn nss ev er rt] [m' st' nss' tm' ev' dn'] (Hm & Hst & Hn & Ht & Hd & He & Her & Hrt); cbn in *; subst.
  unfold ref_s7, deactivate, R; cbn.
  destruct (should m') eqn:Hs; cbn.
  - destruct st' as [s|]; cbn; rewrite ?Hs; cbn; repeat split; reflexivity.
  - destruct st' as [s|]; cbn; rewrite ?Hs; cbn; [destruct (is_must sh s)|]; cbn; repeat split; reflexivity.
Qed.

Lemma s8_stop : forall now f x, R f x -> R (ref_s8 sh body nested now f) (stop_if_engaged sh x).
Proof.
  intros now [m nw tm st dn nss ev er rt] [m' st' nss' tm' ev' dn'] (Hm & Hst & Hn & Ht & Hd & He & Her & Hrt); cbn in *; subst.
  unfold ref_s8, stop_if_engaged, R; cbn.
  destruct st' as [s|]; cbn; [repeat split; reflexivity|].
  destruct (engaged m'); cbn; [|repeat split; reflexivity].
  destruct dn'; cbn; repeat split; try reflexivity.
  rewrite filter_app; reflexivity.
Qed.

Lemma s9_fallback : forall now f x, R f x -> R (ref_s9 sh body nested now f) (fallback sh x).
Proof.
  intros now [m nw tm st dn nss ev er rt] [m' st' nss' tm' ev' dn'] (Hm & Hst & Hn & Ht & Hd & He & Her & Hrt); cbn in *; subst.
  unfold ref_s9, fallback, R; cbn.
  destruct st' as [s|]; cbn; [repeat split; reflexivity|].
  destruct (sh_default sh) as [d|]; cbn; [|repeat split; reflexivity].
  destruct (is_some_eq (cur m') d); cbn; repeat split; try reflexivity;
    try (destruct m'; reflexivity); rewrite filter_app; cbn; rewrite app_nil_r; reflexivity.
Qed.

Lemma err_select : forall x, In EvErr (s_ev x) -> In EvErr (s_ev (select sh x)).
Proof.
  intros x H. unfold select, fallback, stop_if_engaged, deactivate.
  crush; try assumption; repeat (apply in_or_app; left); assumption.
Qed.

(* statement 6: the expiry test, against [expire] *)
Lemma s6_expire : forall now m, is_state sh (sh_first sh) = true ->
  let f0 := Build_frame m now (now - start m) (cur m) false (now - start m) [] false false in
  let f := ref_s6 sh body nested now f0 in
  (f_err f = false -> R f (expire sh m now)) /\ (f_err f = true -> In EvErr (s_ev (expire sh m now))).
Proof.
  intros now m Hfirst; cbn zeta. unfold ref_s6, expire, R; cbn.
  destruct (cur m) as [s|] eqn:Hc; cbn; [|split; [intros _; repeat split; reflexivity|discriminate]].
  destruct (ran (sdat m s)) eqn:Hr; cbn; [|split; [intros _; repeat split; reflexivity|discriminate]].
  destruct (st_exp (sdat m s) <? now - start m) eqn:Hx; cbn; [|split; [intros _; repeat split; reflexivity|discriminate]].
  destruct (lookup sh s) as [dc|] eqn:Hl; cbn; [|split; [discriminate|intros _; left; reflexivity]].
  destruct (d_timed dc) eqn:Ht; cbn; [|split; [discriminate|intros _; left; reflexivity]].
  destruct (d_next dc) as [n|] eqn:Hn; cbn.
  - destruct (is_state sh n) eqn:Hs; cbn; [|split; [discriminate|intros _; left; reflexivity]].
    split; [intros _; repeat split; reflexivity|discriminate].
  - rewrite Hfirst. unfold done. destruct (sh_auto sh) eqn:Ha; cbn.
    + split; [intros _; repeat split; reflexivity|discriminate].
    + destruct (should m) eqn:Hsh; cbn; (split; [intros _; repeat split; try reflexivity; destruct m; cbn in *; subst; reflexivity|discriminate]).
Qed.

Lemma filter_obs_existsb_err : forall l, existsb is_err l = true -> In EvErr l.
Proof.
  induction l as [|e l IH]; cbn; [discriminate|]. destruct e; cbn; auto.
Qed.

Lemma is_timed_duration : forall m s,
  duration_of sh m s = if is_timed sh s then dur m s else sh_inf sh.
Proof. intros m s; unfold duration_of, is_timed; destruct (lookup sh s) as [d|]; reflexivity. Qed.

(* statements 10 and 11: first-call bookkeeping, the state function, the final reset *)
Lemma s10_s11_call : forall now f x, R f x ->
  let f' := seqf (ref_s11 sh body nested now) (ref_s10 sh body nested now f) in
  let r :=
    match s_st x with
    | Some s =>
        let '(m1, init, bk) := enter_bk sh (s_m x) s (s_nss x) in
        let stm := s_tm x - st_start (sdat m1 s) in
        let k := ncall m1 in
        let eng := engaged m1 in
        let '(m2, e) := run_actions sh nested (body k s (s_tm x) stm init) (m1 <| ncall := S k |>) in
        (m2, bk ++ EvCall s (s_tm x) stm init eng :: e)
    | None => if s_done x then (s_m x, []) else (done sh (s_m x), [EvDone])
    end in
  (f_err f' = false -> f_m f' = fst r <| should := false |> /\ f_ev f' = filter observable (s_ev x ++ snd r)) /\
  (f_err f' = true -> In EvErr (snd r)).
Proof.
  intros now [m nw tm st dn nss ev er rt] [m' st' nss' tm' ev' dn'] (Hm & Hst & Hn & Ht & Hd & He & Her & Hrt); cbn in *; subst.
  match goal with m0 : sm |- _ => destruct m0 as [sh0 en0 cu0 st0 sd0 du0 nt0 au0 ck0 nc0] end.
  unfold ref_s10, ref_s11, seqf; cbn.
  destruct st' as [s|]; cbn.
  - unfold enter_bk. rewrite is_timed_duration. cbn. unfold RecordSet.set; cbn.
    destruct (ran (sd0 s)) eqn:Hr; cbn.
    + match goal with |- context [run_actions sh nested ?a ?b] => destruct (run_actions sh nested a b) as [m2 e] eqn:Hra end; cbn.
      destruct (existsb is_err e) eqn:Herr; cbn.
      * split; [discriminate|]. intros _. right. apply filter_obs_existsb_err; exact Herr.
      * split; [|discriminate]. intros _. split; [destruct m2; reflexivity|].
        rewrite filter_app; cbn. reflexivity.
    + destruct (is_timed sh s) eqn:Hti; cbn; unfold RecordSet.set; cbn; rewrite !upd_same; cbn;
        match goal with |- context [run_actions sh nested ?a ?b] => destruct (run_actions sh nested a b) as [m2 e] eqn:Hra end; cbn;
        (destruct (existsb is_err e) eqn:Herr; cbn;
         [ split; [discriminate|]; intros _; right; right; apply filter_obs_existsb_err; exact Herr
         | split; [|discriminate]; intros _; split; [destruct m2; reflexivity|]; rewrite filter_app; cbn; reflexivity ]).
  - destruct dn'; cbn; (split; [|discriminate]); intros _; (split; [|rewrite ?filter_app; cbn; rewrite ?app_nil_r; reflexivity]).
    + reflexivity.
    + unfold done; destruct (sh_auto sh); reflexivity.
Qed.


Definition call_part (x : sel) : sm * list event :=
  match s_st x with
  | Some s =>
      let '(m1, init, bk) := enter_bk sh (s_m x) s (s_nss x) in
      let stm := s_tm x - st_start (sdat m1 s) in
      let k := ncall m1 in
      let eng := engaged m1 in
      let '(m2, e) := run_actions sh nested (body k s (s_tm x) stm init) (m1 <| ncall := S k |>) in
      (m2, bk ++ EvCall s (s_tm x) stm init eng :: e)
  | None => if s_done x then (s_m x, []) else (done sh (s_m x), [EvDone])
  end.

Lemma exec_step_unfold : forall m0 now,
  exec_step sh body nested m0 now =
  let back := if now <? clk m0 then [EvBack] else [] in
  let m := m0 <| clk := now |> in
  if negb (engaged m) && negb (should m) && is_none (sh_default sh) then (m, back) else
  let x := select sh (expire sh (latch m now) now) in
  let r := call_part x in
  (fst r <| should := false |>, back ++ s_ev x ++ snd r).
Proof.
  intros m0 now. unfold exec_step, call_part. cbn zeta.
  destruct (negb (engaged (m0 <| clk := now |>)) && negb (should (m0 <| clk := now |>)) && is_none (sh_default sh)); [reflexivity|].
  destruct (s_st (select sh (expire sh (latch (m0 <| clk := now |>) now) now))) as [s|]; cbn.
  - destruct (enter_bk sh _ s _) as [[m1 init] bk]; cbn.
    destruct (run_actions sh nested _ _) as [m2 e]; reflexivity.
  - destruct (s_done _); reflexivity.
Qed.

Lemma seqf_go : forall g f, f_err f = false -> f_ret f = false -> seqf g f = g f.
Proof. intros g f H1 H2; unfold seqf; rewrite H1, H2; reflexivity. Qed.
Lemma seqf_ext : forall g h f, (forall f, g f = h f) -> seqf g f = seqf h f.
Proof. intros g h f H; unfold seqf; rewrite H; reflexivity. Qed.
Lemma seqf_err : forall g f, f_err f = true -> seqf g f = f.
Proof. intros g f H1; unfold seqf; rewrite H1; reflexivity. Qed.
Lemma seqf_ret : forall g f, f_ret f = true -> seqf g f = f.
Proof. intros g f H1; unfold seqf; rewrite H1, orb_true_r; reflexivity. Qed.

Lemma filter_back : forall (b : bool), filter observable (if b then [EvBack] else []) = [].
Proof. destruct b; reflexivity. Qed.

(* statements 0-5 on explicit frames *)
Lemma e0 : forall now m a t s d n e r1 r2,
  ref_s0 sh body nested now (Build_frame m a t s d n e r1 r2) = Build_frame (m <| clk := now |>) now t s d n e r1 r2.
Proof. intros; destruct m; reflexivity. Qed.
Lemma e1_ret : forall now m t s d n e er rt,
  negb (engaged m) && negb (should m) && is_none (sh_default sh) = true ->
  ref_s1 sh body nested now (Build_frame m now t s d n e er rt) = Build_frame m now t s d n e er true.
Proof.
  intros now m t s d n e er rt H; destruct m as [sh0 en0 cu0 st0 sd0 du0 nt0 au0 ck0 nc0]; unfold ref_s1; cbn in *.
  destruct en0, sh0; destruct (sh_default sh); try discriminate; reflexivity.
Qed.
Lemma e1_go : forall now m t s d n e er rt,
  negb (engaged m) && negb (should m) && is_none (sh_default sh) = false ->
  ref_s1 sh body nested now (Build_frame m now t s d n e er rt) = Build_frame (latch m now) now t s d n e er rt.
Proof.
  intros now m t s d n e er rt H; destruct m as [sh0 en0 cu0 st0 sd0 du0 nt0 au0 ck0 nc0]; unfold ref_s1, latch; cbn in *.
  destruct en0, sh0; destruct (sh_default sh); try discriminate; reflexivity.
Qed.
Lemma e2 : forall now m a t s d n e r1 r2,
  ref_s2 sh body nested now (Build_frame m a t s d n e r1 r2) = Build_frame m a (a - start m) s d n e r1 r2.
Proof. reflexivity. Qed.
Lemma e3 : forall now m a t s d n e r1 r2,
  ref_s3 sh body nested now (Build_frame m a t s d n e r1 r2) = Build_frame m a t (cur m) d n e r1 r2.
Proof. reflexivity. Qed.
Lemma e4 : forall now m a t s d n e r1 r2,
  ref_s4 sh body nested now (Build_frame m a t s d n e r1 r2) = Build_frame m a t s false n e r1 r2.
Proof. reflexivity. Qed.
Lemma e5 : forall now m a t s d n e r1 r2,
  ref_s5 sh body nested now (Build_frame m a t s d n e r1 r2) = Build_frame m a t s d t e r1 r2.
Proof. reflexivity. Qed.

(* the frame after statements 0-5 *)
Lemma s0_s5 : forall m now,
  let m' := m <| clk := now |> in
  let f5 := seqf (ref_s5 sh body nested now) (seqf (ref_s4 sh body nested now) (seqf (ref_s3 sh body nested now) (seqf (ref_s2 sh body nested now) (seqf (ref_s1 sh body nested now) (seqf (ref_s0 sh body nested now)
              (Build_frame m 0 0 None false 0 [] false false)))))) in
  if negb (engaged m') && negb (should m') && is_none (sh_default sh)
  then f5 = Build_frame m' now 0 None false 0 [] false true
  else f5 = (let ml := latch m' now in Build_frame ml now (now - start ml) (cur ml) false (now - start ml) [] false false).
Proof.
  intros m now; cbv zeta.
  rewrite (seqf_go (ref_s0 sh body nested now)) by reflexivity. rewrite e0.
  rewrite (seqf_go (ref_s1 sh body nested now)) by reflexivity.
  destruct (negb (engaged (m <| clk := now |>)) && negb (should (m <| clk := now |>)) && is_none (sh_default sh)) eqn:H.
  - rewrite e1_ret by exact H. rewrite !seqf_ret by reflexivity. reflexivity.
  - rewrite e1_go by exact H.
    rewrite (seqf_go (ref_s2 sh body nested now)) by reflexivity. rewrite e2.
    rewrite (seqf_go (ref_s3 sh body nested now)) by reflexivity. rewrite e3.
    rewrite (seqf_go (ref_s4 sh body nested now)) by reflexivity. rewrite e4.
    rewrite (seqf_go (ref_s5 sh body nested now)) by reflexivity. rewrite e5. reflexivity.
Qed.

Theorem ref_execute_spec : forall m now, is_state sh (sh_first sh) = true ->
  let f := ref_execute sh body nested m now in
  let r := exec_step sh body nested m now in
  (f_err f = false -> f_m f = fst r /\ f_ev f = filter observable (snd r)) /\
  (f_err f = true -> In EvErr (snd r)).
Proof.
  intros m now Hfirst; cbn zeta. rewrite exec_step_unfold; cbn zeta.
  unfold ref_execute.
  pose proof (s0_s5 m now) as H5; cbn zeta in H5.
  destruct (negb (engaged (m <| clk := now |>)) && negb (should (m <| clk := now |>)) && is_none (sh_default sh)) eqn:Hret.
  - rewrite H5. rewrite !seqf_ret by reflexivity. cbn. split; [|discriminate]. intros _. split; [reflexivity|].
    rewrite filter_back; reflexivity.
  - rewrite H5. clear H5. set (ml := latch (m <| clk := now |>) now).
    pose proof (s6_expire now ml Hfirst) as H6; cbn zeta in H6.
    set (f6 := ref_s6 sh body nested now _) in H6.
    rewrite (seqf_go (ref_s6 sh body nested now)) by reflexivity. fold f6.
    destruct H6 as [H6a H6b].
    destruct (f_err f6) eqn:Herr.
    + rewrite (seqf_err (ref_s7 sh body nested now) f6 Herr), (seqf_err (ref_s8 sh body nested now) f6 Herr), (seqf_err (ref_s9 sh body nested now) f6 Herr),
        (seqf_err (ref_s10 sh body nested now) f6 Herr), (seqf_err (ref_s11 sh body nested now) f6 Herr). rewrite Herr. split; [discriminate|]. intros _.
      cbn. apply in_or_app; right. apply in_or_app; left. apply err_select. apply H6b; reflexivity.
    + specialize (H6a eq_refl).
      pose proof (s9_fallback now _ _ (s8_stop now _ _ (s7_deactivate now _ _ H6a))) as H9.
      assert (Hg : forall g f x, R f x -> seqf g f = g f).
      { intros g f x (_ & _ & _ & _ & _ & _ & He & Hr); apply seqf_go; assumption. }
      rewrite (Hg _ _ _ H6a).
      rewrite (Hg _ _ _ (s7_deactivate now _ _ H6a)).
      rewrite (Hg _ _ _ (s8_stop now _ _ (s7_deactivate now _ _ H6a))).
      rewrite (Hg (ref_s10 sh body nested now) _ _ H9).
      fold (select sh (expire sh ml now)) in H9.
      pose proof (s10_s11_call now _ _ H9) as H10; cbn zeta in H10.
      fold (call_part (select sh (expire sh ml now))) in H10.
      destruct H10 as [H10a H10b]. split.
      * intros He. destruct (H10a He) as [Hm Hev]. cbn [fst snd]. split; [exact Hm|].
        rewrite Hev. rewrite !filter_app, filter_back. reflexivity.
      * intros He. cbn [snd]. apply in_or_app; right. apply in_or_app; right. apply H10b; exact He.
Qed.

End Proofs.
Print Assumptions ref_execute_spec.
