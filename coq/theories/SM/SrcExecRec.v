(* execute() WITH its recursion through next_state_now(): the statement-by-statement translation of the source
   (SM/SrcExec.v), closed over itself by fuel exactly like the model's [exec], computes the model's [exec] on every
   machine, clock reading and user code -- whenever the model's trace has no [EvErr] (no exception: unknown state name,
   expiry of an untimed state, recursion limit), which is what the hypothesis `ok` of the property theorems says. *)
From Coq Require Import ZArith List Bool Lia Arith.
From RecordUpdate Require Import RecordSet.
Import ListNotations RecordSetNotations.
From RV Require Import SM.Model SM.SrcExec SM.SrcExecProofs.
Open Scope Z_scope.
Open Scope bool_scope.

Section Rec.
Variable sh : shape.
Variable body : nat -> name -> Z -> Z -> bool -> list action.
Hypothesis Hfirst : is_state sh (sh_first sh) = true.

(* what a caller of execute() sees: the machine afterwards, the observable events, and the exception if one escapes *)
Definition pack (f : frame) : sm * list event := (f_m f, f_ev f ++ (if f_err f then [EvErr] else [])).

Fixpoint src_exec (fuel : nat) : sm -> Z -> sm * list event :=
  match fuel with
  | O => fun m _ => (m, [EvErr])
  | S n => fun m now => pack (ref_execute sh body (src_exec n) m now)
  end.

(* n1 computes what n2 computes (machine, observable events) wherever n2 raises no exception *)
Definition sim (n1 n2 : sm -> Z -> sm * list event) : Prop :=
  forall m now, ~ In EvErr (snd (n2 m now)) ->
    fst (n1 m now) = fst (n2 m now) /\ filter observable (snd (n1 m now)) = filter observable (snd (n2 m now)).

Lemma not_in_app : forall (a b : list event), ~ In EvErr (a ++ b) -> ~ In EvErr a /\ ~ In EvErr b.
Proof. intros a b H; split; intro H1; apply H; apply in_or_app; auto. Qed.

Lemma not_in_cons : forall e (a : list event), ~ In EvErr (e :: a) -> ~ In EvErr a.
Proof. intros e a H H1; apply H; right; exact H1. Qed.

Lemma run_actions_sim : forall n1 n2, sim n1 n2 -> forall acts m,
  ~ In EvErr (snd (run_actions sh n2 acts m)) ->
  fst (run_actions sh n1 acts m) = fst (run_actions sh n2 acts m) /\
  filter observable (snd (run_actions sh n1 acts m)) = filter observable (snd (run_actions sh n2 acts m)).
Proof.
  intros n1 n2 Hs acts; induction acts as [|a r IH]; intros m H; [split; reflexivity|].
  destruct a as [s|s now'|]; cbn [run_actions] in *.
  - destruct (is_state sh s) eqn:Hst; [|exfalso; apply H; left; reflexivity].
    destruct (run_actions sh n2 r (next_state m s)) as [m2 e2] eqn:E2.
    destruct (run_actions sh n1 r (next_state m s)) as [m1 e1] eqn:E1.
    cbn [fst snd] in *.
    apply not_in_app in H; destruct H as [_ H]. apply not_in_app in H; destruct H as [_ H]. apply not_in_cons in H.
    specialize (IH (next_state m s)). rewrite E1, E2 in IH. cbn [fst snd] in IH. destruct (IH H) as [Hm He].
    split; [exact Hm|]. rewrite !filter_app. cbn [filter observable]. rewrite He. reflexivity.
  - destruct (is_state sh s) eqn:Hst; [|exfalso; apply H; left; reflexivity].
    destruct (n2 (next_state m s) now') as [m2 e2] eqn:N2.
    destruct (n1 (next_state m s) now') as [m1 e1] eqn:N1.
    pose proof (Hs (next_state m s) now') as Hn. rewrite N1, N2 in Hn. cbn [fst snd] in Hn.
    set (k2 := if engaged m2 then m2 <| should := should (next_state m s) |> else m2) in *.
    destruct (run_actions sh n2 r k2) as [m2' e2'] eqn:E2.
    cbn [fst snd] in H.
    apply not_in_app in H; destruct H as [_ H]. apply not_in_app in H; destruct H as [_ H].
    apply not_in_cons in H. apply not_in_cons in H. apply not_in_app in H. destruct H as [Hn2 Hr2].
    destruct (Hn Hn2) as [Hm12 He12]. subst m1. fold k2.
    destruct (run_actions sh n1 r k2) as [m1' e1'] eqn:E1.
    specialize (IH k2). rewrite E1, E2 in IH. cbn [fst snd] in IH. destruct (IH Hr2) as [Hm He].
    cbn [fst snd]. split; [exact Hm|].
    rewrite !filter_app. cbn [filter observable]. rewrite !filter_app. rewrite He12, He. reflexivity.
  - destruct (run_actions sh n2 r (done sh m)) as [m2 e2] eqn:E2.
    destruct (run_actions sh n1 r (done sh m)) as [m1 e1] eqn:E1.
    cbn [fst snd] in *.
    apply not_in_app in H; destruct H as [_ H]. apply not_in_cons in H.
    specialize (IH (done sh m)). rewrite E1, E2 in IH. cbn [fst snd] in IH. destruct (IH H) as [Hm He].
    split; [exact Hm|]. rewrite !filter_app. cbn [filter observable]. rewrite He. reflexivity.
Qed.

Lemma call_part_sim : forall n1 n2, sim n1 n2 -> forall x,
  ~ In EvErr (snd (call_part sh body n2 x)) ->
  fst (call_part sh body n1 x) = fst (call_part sh body n2 x) /\
  filter observable (snd (call_part sh body n1 x)) = filter observable (snd (call_part sh body n2 x)).
Proof.
  intros n1 n2 Hs x H. unfold call_part in *.
  destruct (s_st x) as [s|]; [|split; reflexivity].
  destruct (enter_bk sh (s_m x) s (s_nss x)) as [[m1 init] bk].
  pose proof (run_actions_sim n1 n2 Hs (body (ncall m1) s (s_tm x) (s_tm x - st_start (sdat m1 s)) init) (m1 <| ncall := S (ncall m1) |>)) as Hr.
  destruct (run_actions sh n2 _ _) as [m2 e2]. destruct (run_actions sh n1 _ _) as [m2' e2'].
  cbn [fst snd] in *. apply not_in_app in H; destruct H as [_ H]. apply not_in_cons in H.
  destruct (Hr H) as [Hm He]. split; [exact Hm|]. rewrite !filter_app. cbn [filter observable]. rewrite He. reflexivity.
Qed.

Lemma exec_step_sim : forall n1 n2, sim n1 n2 -> sim (exec_step sh body n1) (exec_step sh body n2).
Proof.
  intros n1 n2 Hs m now H. rewrite !exec_step_unfold in *. cbv zeta in *.
  destruct (negb (engaged (m <| clk := now |>)) && negb (should (m <| clk := now |>)) && is_none (sh_default sh)); [split; reflexivity|].
  cbn [fst snd] in *.
  apply not_in_app in H; destruct H as [_ H]. apply not_in_app in H; destruct H as [_ H].
  destruct (call_part_sim n1 n2 Hs _ H) as [Hm He].
  split; [rewrite Hm; reflexivity|]. rewrite !filter_app, He. reflexivity.
Qed.

Lemma in_err_filter : forall l, In EvErr l -> In EvErr (filter observable l).
Proof. intros l H; apply filter_In; split; [exact H|reflexivity]. Qed.

Lemma filter_obs_idem : forall l, filter observable (filter observable l) = filter observable l.
Proof.
  induction l as [|e l IH]; [reflexivity|]. cbn [filter]. destruct (observable e) eqn:E; cbn [filter]; rewrite ?E, IH; reflexivity.
Qed.

Theorem src_exec_is_exec : forall fuel, sim (src_exec fuel) (exec sh body fuel).
Proof.
  induction fuel as [|n IH]; intros m now H.
  - exfalso; apply H; left; reflexivity.
  - cbn [src_exec exec] in *.
    pose proof (ref_execute_spec sh body (src_exec n) m now Hfirst) as Hspec; cbv zeta in Hspec.
    destruct Hspec as [Hok Herr].
    destruct (exec_step_sim _ _ IH m now H) as [Hm He].
    destruct (f_err (ref_execute sh body (src_exec n) m now)) eqn:Hf.
    + exfalso. apply H. specialize (Herr eq_refl). apply in_err_filter in Herr. rewrite He in Herr.
      apply filter_In in Herr. exact (proj1 Herr).
    + destruct (Hok eq_refl) as [Hm1 He1]. unfold pack. rewrite Hf. cbn [fst snd]. rewrite app_nil_r.
      split; [rewrite Hm1; exact Hm|]. rewrite He1, filter_obs_idem. exact He.
Qed.

(* readable form: without exceptions, execute() as translated returns the model's machine and observable trace *)
Corollary src_exec_run : forall fuel m now, ~ In EvErr (snd (exec sh body fuel m now)) ->
  fst (src_exec fuel m now) = fst (exec sh body fuel m now) /\
  filter observable (snd (src_exec fuel m now)) = filter observable (snd (exec sh body fuel m now)).
Proof. intros fuel m now H; exact (src_exec_is_exec fuel m now H). Qed.

End Rec.
Print Assumptions src_exec_is_exec.
