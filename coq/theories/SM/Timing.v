(* C02/C03: what one iteration does to a timed state -- it holds the state until
   its expiry, hands over at the first iteration past it with the successor's
   clock starting at the expiry instant, restarts a still-requested machine in
   a clock frame moved to the expiry instant, and always runs a freshly entered
   state once. *)
From Coq Require Import ZArith List Bool Lia.
From RecordUpdate Require Import RecordSet.
Import ListNotations RecordSetNotations.
From RV Require Import SM.Model SM.Basics SM.Engage SM.Invariants.
Open Scope Z_scope.

Section P.
Variable sh : shape.
Variable body : nat -> name -> Z -> Z -> bool -> list action.
Variable nested : sm -> Z -> sm * list event.

(* one iteration whose selection phases end in state [s] of machine [mx] *)
Lemma exec_step_call m now x s :
  (negb (engaged m) && negb (should m) && is_none (sh_default sh))%bool = false ->
  clk m <= now ->
  select sh (expire sh (latch (m <| clk := now |>) now) now) = x ->
  s_st x = Some s ->
  exec_step sh body nested m now =
    (let '(m1, init, bk) := enter_bk sh (s_m x) s (s_nss x) in
     let stm := s_tm x - st_start (sdat m1 s) in
     let '(m2, e) := run_actions sh nested (body (ncall m1) s (s_tm x) stm init) (m1 <| ncall := S (ncall m1) |>) in
     (m2 <| should := false |>, s_ev x ++ bk ++ EvCall s (s_tm x) stm init (engaged m1) :: e)).
Proof.
  intros Hearly Hclk Hx Hs. unfold exec_step.
  replace (negb (engaged (m <| clk := now |>)) && negb (should (m <| clk := now |>)) && is_none (sh_default sh))%bool
    with false by (cbn; symmetry; exact Hearly).
  rewrite Hx, Hs.
  destruct (Z.ltb_spec now (clk m)); [lia|].
  destruct (enter_bk sh (s_m x) s (s_nss x)) as [[m1 init] bk].
  match goal with |- context [run_actions sh nested ?a ?mm] => destruct (run_actions sh nested a mm) as [m2 e] end.
  reflexivity.
Qed.

Lemma latch_engaged_id m now : engaged m = true -> latch m now = m.
Proof. intros H. unfold latch. rewrite H. reflexivity. Qed.

Definition requested_or_must (m : sm) (s : name) : Prop := (should m || is_must sh s)%bool = true.

(* T1: the state that has run keeps running until tm exceeds its expiry *)
Theorem holds_until_expiry m now s :
  engaged m = true -> cur m = Some s -> ran (sdat m s) = true ->
  now - start m <= st_exp (sdat m s) -> requested_or_must m s -> clk m <= now ->
  exists m2 e,
    exec_step sh body nested m now =
    (m2, EvCall s (now - start m) (now - start m - st_start (sdat m s)) false true :: e).
Proof.
  intros He Hc Hr Hx Hk Hclk.
  set (mc := m <| clk := now |>).
  assert (Hl : latch mc now = mc) by (apply latch_engaged_id; exact He).
  assert (Hexp : expire sh mc now = keep_sel mc now (Some s))
    by (apply expire_keep; [exact Hc | right; exact Hx]).
  assert (Hsel : select sh (keep_sel mc now (Some s)) = keep_sel mc now (Some s))
    by (apply select_kept; exists s; split; [reflexivity | exact Hk]).
  rewrite (exec_step_call m now (keep_sel mc now (Some s)) s);
    [| rewrite He; reflexivity | exact Hclk | fold mc; rewrite Hl, Hexp; exact Hsel | reflexivity].
  unfold keep_sel. cbn [s_m s_nss s_tm s_ev].
  unfold enter_bk. replace (sdat mc s) with (sdat m s) by reflexivity. rewrite Hr.
  match goal with |- context [run_actions sh nested ?a ?mm] => destruct (run_actions sh nested a mm) as [m2 e] end.
  cbn. rewrite He. eauto.
Qed.

(* T2: on the first iteration with tm > expiry control passes to next_state, whose
   clock starts at the predecessor's expiry (not at this iteration) and whose own
   expiry is that instant plus its duration tunable as it is now *)
Theorem expiry_hands_over m now s dc n :
  engaged m = true -> cur m = Some s -> ran (sdat m s) = true ->
  st_exp (sdat m s) < now - start m ->
  lookup sh s = Some dc -> d_timed dc = true -> d_next dc = Some n -> is_state sh n = true ->
  requested_or_must m n -> clk m <= now ->
  let x := st_exp (sdat m s) in
  exists m2 e,
    exec_step sh body nested m now =
    (m2, EvEnter n :: EvBk n (start m + x) (start m + (x + duration_of sh m n))
         :: EvCall n (now - start m) (now - start m - x) true true :: e).
Proof.
  intros He Hc Hr Hx Hl Ht Hn Hsn Hk Hclk x.
  set (mc := m <| clk := now |>).
  assert (Hlat : latch mc now = mc) by (apply latch_engaged_id; exact He).
  pose proof (expire_next sh mc now s dc n Hc Hr Hx Hl Ht Hn Hsn) as Hexp.
  match type of Hexp with _ = ?r => set (xr := r) in * end.
  assert (Hsel : select sh xr = xr)
    by (apply select_kept; exists n; split; [reflexivity | exact Hk]).
  rewrite (exec_step_call m now xr n);
    [| rewrite He; reflexivity | exact Hclk | fold mc; rewrite Hlat, Hexp; exact Hsel | reflexivity].
  unfold xr. cbn [s_m s_nss s_tm s_ev].
  unfold enter_bk. rewrite next_state_ran.
  match goal with |- context [run_actions sh nested ?a ?mm] => destruct (run_actions sh nested a mm) as [m2 e] end.
  cbn. unfold upd. rewrite Nat.eqb_refl. cbn. rewrite He. eauto.
Qed.

(* T3a: the last timed state expired and the machine is still requested: done(),
   then the first state starts over in a clock frame whose origin is the expiry
   instant: tm restarts at (now - expiry), not at 0 and not at now *)
Theorem expiry_cycles m now s dc :
  sh_auto sh = false -> should m = true ->
  engaged m = true -> cur m = Some s -> ran (sdat m s) = true ->
  st_exp (sdat m s) < now - start m ->
  lookup sh s = Some dc -> d_timed dc = true -> d_next dc = None -> clk m <= now ->
  let x := st_exp (sdat m s) in
  let f := sh_first sh in
  exists m2 e,
    exec_step sh body nested m now =
    (m2, EvDone :: EvEnter f :: EvBk f (start m + x) (start m + x + duration_of sh m f)
         :: EvCall f (now - start m - x) (now - start m - x - 0) true true :: e).
Proof.
  intros Ha Hs He Hc Hr Hx Hl Ht Hn Hclk x f.
  set (mc := m <| clk := now |>).
  assert (Hlat : latch mc now = mc) by (apply latch_engaged_id; exact He).
  pose proof (expire_last sh mc now s dc Hc Hr Hx Hl Ht Hn) as Hexp.
  rewrite done_should_plain in Hexp by exact Ha. replace (should mc) with true in Hexp by (symmetry; exact Hs).
  match type of Hexp with _ = ?r => set (xr := r) in * end.
  assert (Hsel : select sh xr = xr).
  { apply select_kept. exists f. split; [reflexivity|]. unfold xr. cbn.
    rewrite done_should_plain by exact Ha. cbn. rewrite Hs. reflexivity. }
  rewrite (exec_step_call m now xr f);
    [| rewrite He; reflexivity | exact Hclk | fold mc; rewrite Hlat, Hexp; exact Hsel | reflexivity].
  unfold xr. cbn [s_m s_nss s_tm s_ev].
  unfold enter_bk. rewrite next_state_ran.
  match goal with |- context [run_actions sh nested ?a ?mm] => destruct (run_actions sh nested a mm) as [m2 e] end.
  cbn. unfold upd. rewrite Nat.eqb_refl. cbn. rewrite done_start. cbn.
  unfold duration_of, f, x. rewrite ?Z.add_0_r.
  replace (dur (next_state (done sh mc <| start := start m + st_exp (sdat m s) |> <| engaged := true |>) (sh_first sh)))
    with (dur m) by (cbn; rewrite done_dur; reflexivity).
  eauto.
Qed.

(* T3b: ... and when it is no longer requested (or for an AutonomousStateMachine,
   always) the machine finishes through done() *)
Theorem expiry_finishes m now s dc :
  (should m = false \/ sh_auto sh = true) ->
  engaged m = true -> cur m = Some s -> ran (sdat m s) = true ->
  st_exp (sdat m s) < now - start m ->
  lookup sh s = Some dc -> d_timed dc = true -> d_next dc = None -> clk m <= now ->
  exists e, snd (exec_step sh body nested m now) = EvDone :: e.
Proof.
  intros Hs He Hc Hr Hx Hl Ht Hn Hclk.
  set (mc := m <| clk := now |>).
  assert (Hlat : latch mc now = mc) by (apply latch_engaged_id; exact He).
  pose proof (expire_last sh mc now s dc Hc Hr Hx Hl Ht Hn) as Hexp.
  assert (Hsd : should (done sh mc) = false).
  { rewrite done_should. destruct Hs as [Hs| ->]; [|reflexivity]. destruct (sh_auto sh); [reflexivity | exact Hs]. }
  rewrite Hsd in Hexp.
  unfold exec_step. replace (negb (engaged (m <| clk := now |>))) with false by (cbn; rewrite He; reflexivity).
  cbn [andb]. fold mc. rewrite Hlat, Hexp.
  destruct (Z.ltb_spec now (clk m)); [lia|].
  match goal with |- context [select sh ?r] => set (xr := r) end.
  assert (Hev : exists e, s_ev (select sh xr) = EvDone :: e).
  { unfold select, fallback, stop_if_engaged, deactivate, xr. cbn. rewrite done_engaged. cbn.
    repeat break_match; cbn; eauto. }
  destruct Hev as [e0 He0]. rewrite He0.
  repeat break_match; cbn; eauto.
Qed.

(* T4: a state that has just been entered is always run once, with initial_call,
   whatever tm is (also when tm is already past a stale expiry) *)
Theorem entered_runs_once m now s :
  engaged m = true -> cur m = Some s -> ran (sdat m s) = false ->
  requested_or_must m s -> clk m <= now ->
  let tm := now - start m in
  exists m2 e,
    exec_step sh body nested m now =
    (m2, EvBk s (start m + tm) (start m + (tm + duration_of sh m s))
         :: EvCall s tm (tm - tm) true true :: e).
Proof.
  intros He Hc Hr Hk Hclk tm.
  set (mc := m <| clk := now |>).
  assert (Hl : latch mc now = mc) by (apply latch_engaged_id; exact He).
  assert (Hexp : expire sh mc now = keep_sel mc now (Some s))
    by (apply expire_keep; [exact Hc | left; exact Hr]).
  assert (Hsel : select sh (keep_sel mc now (Some s)) = keep_sel mc now (Some s))
    by (apply select_kept; exists s; split; [reflexivity | exact Hk]).
  rewrite (exec_step_call m now (keep_sel mc now (Some s)) s);
    [| rewrite He; reflexivity | exact Hclk | fold mc; rewrite Hl, Hexp; exact Hsel | reflexivity].
  unfold keep_sel. cbn [s_m s_nss s_tm s_ev].
  unfold enter_bk. replace (sdat mc s) with (sdat m s) by reflexivity. rewrite Hr.
  match goal with |- context [run_actions sh nested ?a ?mm] => destruct (run_actions sh nested a mm) as [m2 e] end.
  cbn. unfold upd. rewrite Nat.eqb_refl. cbn. rewrite He. eauto.
Qed.

(* T5: engage() on a stopped machine, then the first iteration: the requested
   initial state (or the first state) is called with tm = 0, state_tm = 0,
   initial_call = True, and the machine is executing *)
Theorem restart_fresh m now init force :
  engaged m = false -> (cur m = None \/ at_default sh m = true) -> clk m <= now ->
  let tgt := match init with Some s => s | None => sh_first sh end in
  is_state sh tgt = true -> is_default sh tgt = false ->
  let m1 := fst (engage sh m init force) in
  snd (engage sh m init force) = [EvEnter tgt] /\
  exists m2 e,
    exec_step sh body nested m1 now =
    (m2, EvBk tgt (now + 0) (now + (0 + duration_of sh m tgt)) :: EvCall tgt 0 0 true true :: e).
Proof.
  intros He Hidle Hclk tgt Hst Hd m1.
  assert (Heng : engage sh m init force = (next_state (m <| should := true |>) tgt, [EvEnter tgt])).
  { unfold engage. fold tgt.
    replace (force || is_none (cur (m <| should := true |>)) || at_default sh (m <| should := true |>))%bool with true.
    - rewrite Hst, Hd. reflexivity.
    - symmetry. destruct Hidle as [Hn|Hn].
      + cbn. rewrite Hn. cbn. rewrite orb_true_r. reflexivity.
      + replace (at_default sh (m <| should := true |>)) with (at_default sh m) by reflexivity.
        rewrite Hn. apply orb_true_r. }
  subst m1. rewrite Heng. cbn [fst snd]. split; [reflexivity|].
  set (m1 := next_state (m <| should := true |>) tgt).
  set (mc := m1 <| clk := now |>).
  set (ml := mc <| start := now |> <| engaged := true |>).
  assert (Hl : latch mc now = ml) by (unfold latch; cbn; rewrite He; reflexivity).
  assert (Hexp : expire sh ml now = keep_sel ml now (Some tgt)).
  { apply expire_keep; [reflexivity|]. left. unfold ml, mc, m1. cbn. unfold upd. rewrite Nat.eqb_refl. reflexivity. }
  assert (Hsel : select sh (keep_sel ml now (Some tgt)) = keep_sel ml now (Some tgt))
    by (apply select_kept; exists tgt; split; reflexivity).
  rewrite (exec_step_call m1 now (keep_sel ml now (Some tgt)) tgt);
    [| cbn; rewrite andb_false_r; reflexivity | exact Hclk | fold mc; rewrite Hl, Hexp; exact Hsel | reflexivity].
  unfold keep_sel. cbn [s_m s_nss s_tm s_ev].
  unfold enter_bk.
  replace (ran (sdat ml tgt)) with false by (unfold ml, mc, m1; cbn; unfold upd; rewrite Nat.eqb_refl; reflexivity).
  match goal with |- context [run_actions sh nested ?a ?mm] => destruct (run_actions sh nested a mm) as [m2 e] end.
  cbn. unfold upd. rewrite Nat.eqb_refl. cbn. rewrite Z.sub_diag. cbn. eauto.
Qed.

(* a NetworkTables write to a duration after the state was entered does not move
   its expiry; a write before entry is what the bookkeeping above reads *)
Lemma set_duration_frame fuel m s d :
  let m' := fst (step sh body fuel m (SetDuration s d)) in
  sdat m' = sdat m /\ cur m' = cur m /\ start m' = start m /\ engaged m' = engaged m
  /\ should m' = should m /\ dur m' s = d /\ (forall x, x <> s -> dur m' x = dur m x).
Proof.
  cbn. repeat split; auto.
  - unfold upd. rewrite Nat.eqb_refl. reflexivity.
  - intros x Hx. unfold upd. destruct (Nat.eqb_spec x s); congruence.
Qed.

End P.
