(* C02/C03: what one iteration does to a timed state -- it holds the state until
   its expiry, hands over at the first iteration past it with the successor's
   clock starting at the expiry instant, restarts a still-requested machine in
   a clock frame moved to the expiry instant, and always runs a freshly entered
   state once. *)
From Coq Require Import ZArith List Bool Lia.
From RecordUpdate Require Import RecordSet.
Import ListNotations RecordSetNotations.
From RV Require Import SM.Model SM.Basics SM.Engage SM.Invariants.
Open Scope Z_scope.

Section P.
Variable sh : shape.
Variable body : nat -> name -> Z -> Z -> bool -> list action.
Variable nested : sm -> Z -> sm * list event.

(* the state function [s] is invoked on machine [mcall] (bookkeeping done), after
   the events [pre]; whatever its body does follows *)
Definition finish_call (mcall : sm) (s : name) (tm stm : Z) (init : bool) (pre : list event)
  : sm * list event :=
  let '(m2, e) := run_actions sh nested (body (ncall mcall) s tm stm init)
                    (mcall <| ncall := S (ncall mcall) |>) in
  (m2 <| should := false |>, pre ++ EvCall s tm stm init (engaged mcall) :: e).

Lemma finish_call_shape mcall s tm stm init pre :
  exists m2 e, finish_call mcall s tm stm init pre = (m2, pre ++ EvCall s tm stm init (engaged mcall) :: e).
Proof.
  unfold finish_call.
  destruct (run_actions sh nested (body (ncall mcall) s tm stm init) (mcall <| ncall := S (ncall mcall) |>)) as [m2 e].
  eauto.
Qed.

(* first-call bookkeeping *)
Definition bk_m (m : sm) (s : name) (nss : Z) : sm :=
  m <| sdat := upd (sdat m) s {| ran := true; st_start := nss; st_exp := nss + duration_of sh m s |} |>.
Definition bk_ev (m : sm) (s : name) (nss : Z) : event :=
  EvBk s (start m + nss) (start m + (nss + duration_of sh m s)).

(* one iteration whose selection phases end in state [s] *)
Lemma exec_step_call m now x s :
  (negb (engaged m) && negb (should m) && is_none (sh_default sh))%bool = false ->
  clk m <= now ->
  select sh (expire sh (latch (m <| clk := now |>) now) now) = x ->
  s_st x = Some s ->
  exec_step sh body nested m now =
    (let '(m1, init, bk) := enter_bk sh (s_m x) s (s_nss x) in
     finish_call m1 s (s_tm x) (s_tm x - st_start (sdat m1 s)) init (s_ev x ++ bk)).
Proof.
  intros Hearly Hclk Hx Hs. unfold exec_step.
  replace (negb (engaged (m <| clk := now |>)) && negb (should (m <| clk := now |>)) && is_none (sh_default sh))%bool
    with false by (cbn; symmetry; exact Hearly).
  rewrite Hx, Hs.
  destruct (Z.ltb_spec now (clk m)); [lia|].
  destruct (enter_bk sh (s_m x) s (s_nss x)) as [[m1 init] bk]. unfold finish_call.
  match goal with |- context [run_actions sh nested ?a ?mm] => destruct (run_actions sh nested a mm) as [m2 e] end.
  cbn [app]. rewrite <- app_assoc. reflexivity.
Qed.

Lemma enter_bk_ran m s nss : ran (sdat m s) = true -> enter_bk sh m s nss = (m, false, []).
Proof. intros H. unfold enter_bk. rewrite H. reflexivity. Qed.
Lemma enter_bk_fresh m s nss : ran (sdat m s) = false ->
  enter_bk sh m s nss = (bk_m m s nss, true, [bk_ev m s nss]).
Proof. intros H. unfold enter_bk. rewrite H. reflexivity. Qed.
Lemma bk_m_start m s nss : st_start (sdat (bk_m m s nss) s) = nss.
Proof. unfold bk_m. cbn. unfold upd. rewrite Nat.eqb_refl. reflexivity. Qed.

Lemma latch_engaged_id m now : engaged m = true -> latch m now = m.
Proof. intros H. unfold latch. rewrite H. reflexivity. Qed.

Definition requested_or_must (m : sm) (s : name) : Prop := (should m || is_must sh s)%bool = true.

(* T1: the state that has run keeps running until tm exceeds its expiry *)
Theorem holds_until_expiry_eq m now s :
  engaged m = true -> cur m = Some s -> ran (sdat m s) = true ->
  now - start m <= st_exp (sdat m s) -> requested_or_must m s -> clk m <= now ->
  exec_step sh body nested m now =
  finish_call (m <| clk := now |>) s (now - start m) (now - start m - st_start (sdat m s)) false [].
Proof.
  intros He Hc Hr Hx Hk Hclk.
  set (mc := m <| clk := now |>).
  assert (Hl : latch mc now = mc) by (apply latch_engaged_id; exact He).
  assert (Hexp : expire sh mc now = keep_sel mc now (Some s))
    by (apply expire_keep; [exact Hc | right; exact Hx]).
  assert (Hsel : select sh (keep_sel mc now (Some s)) = keep_sel mc now (Some s))
    by (apply select_kept; exists s; split; [reflexivity | exact Hk]).
  rewrite (exec_step_call m now (keep_sel mc now (Some s)) s);
    [| rewrite He; reflexivity | exact Hclk | fold mc; rewrite Hl, Hexp; exact Hsel | reflexivity].
  unfold keep_sel. cbn [s_m s_nss s_tm s_ev].
  rewrite (enter_bk_ran mc s) by exact Hr. reflexivity.
Qed.

Theorem holds_until_expiry m now s :
  engaged m = true -> cur m = Some s -> ran (sdat m s) = true ->
  now - start m <= st_exp (sdat m s) -> requested_or_must m s -> clk m <= now ->
  exists m2 e,
    exec_step sh body nested m now =
    (m2, EvCall s (now - start m) (now - start m - st_start (sdat m s)) false true :: e).
Proof.
  intros He Hc Hr Hx Hk Hclk. rewrite (holds_until_expiry_eq m now s) by assumption.
  destruct (finish_call_shape (m <| clk := now |>) s (now - start m) (now - start m - st_start (sdat m s)) false [])
    as (m2 & e & ->). cbn. rewrite He. eauto.
Qed.

(* T2: on the first iteration with tm > expiry control passes to next_state, whose
   clock starts at the predecessor's expiry (not at this iteration) and whose own
   expiry is that instant plus its duration tunable as it is now *)
Theorem expiry_hands_over_eq m now s dc n :
  engaged m = true -> cur m = Some s -> ran (sdat m s) = true ->
  st_exp (sdat m s) < now - start m ->
  lookup sh s = Some dc -> d_timed dc = true -> d_next dc = Some n -> is_state sh n = true ->
  requested_or_must m n -> clk m <= now ->
  let x := st_exp (sdat m s) in
  let mn := next_state (m <| clk := now |>) n in
  exec_step sh body nested m now =
  finish_call (bk_m mn n x) n (now - start m) (now - start m - x) true [EvEnter n; bk_ev mn n x].
Proof.
  intros He Hc Hr Hx Hl Ht Hn Hsn Hk Hclk x mn.
  set (mc := m <| clk := now |>).
  assert (Hlat : latch mc now = mc) by (apply latch_engaged_id; exact He).
  pose proof (expire_next sh mc now s dc n Hc Hr Hx Hl Ht Hn Hsn) as Hexp.
  match type of Hexp with _ = ?r => set (xr := r) in * end.
  assert (Hsel : select sh xr = xr)
    by (apply select_kept; exists n; split; [reflexivity | exact Hk]).
  rewrite (exec_step_call m now xr n);
    [| rewrite He; reflexivity | exact Hclk | fold mc; rewrite Hlat, Hexp; exact Hsel | reflexivity].
  unfold xr. cbn [s_m s_nss s_tm s_ev].
  rewrite enter_bk_fresh by apply next_state_ran.
  fold mn. replace (st_exp (sdat mc s)) with x by reflexivity.
  rewrite bk_m_start. reflexivity.
Qed.

Theorem expiry_hands_over m now s dc n :
  engaged m = true -> cur m = Some s -> ran (sdat m s) = true ->
  st_exp (sdat m s) < now - start m ->
  lookup sh s = Some dc -> d_timed dc = true -> d_next dc = Some n -> is_state sh n = true ->
  requested_or_must m n -> clk m <= now ->
  let x := st_exp (sdat m s) in
  exists m2 e,
    exec_step sh body nested m now =
    (m2, EvEnter n :: EvBk n (start m + x) (start m + (x + duration_of sh m n))
         :: EvCall n (now - start m) (now - start m - x) true true :: e).
Proof.
  intros He Hc Hr Hx Hl Ht Hn Hsn Hk Hclk x.
  rewrite (expiry_hands_over_eq m now s dc n) by assumption. fold x.
  match goal with |- context [finish_call ?a ?b ?c ?d ?e ?f] => destruct (finish_call_shape a b c d e f) as (m2 & e0 & ->) end.
  cbn. rewrite He. eauto.
Qed.

(* T3a: the last timed state expired and the machine is still requested: done(),
   then the first state starts over in a clock frame whose origin is the expiry
   instant: tm restarts at (now - expiry), not at 0 and not at now *)
Theorem expiry_cycles_eq m now s dc :
  sh_auto sh = false -> should m = true ->
  engaged m = true -> cur m = Some s -> ran (sdat m s) = true ->
  st_exp (sdat m s) < now - start m ->
  lookup sh s = Some dc -> d_timed dc = true -> d_next dc = None -> clk m <= now ->
  let x := st_exp (sdat m s) in
  let f := sh_first sh in
  let mn := next_state (done sh (m <| clk := now |>) <| start := start m + x |> <| engaged := true |>) f in
  exec_step sh body nested m now =
  finish_call (bk_m mn f 0) f (now - start m - x) (now - start m - x - 0) true [EvDone; EvEnter f; bk_ev mn f 0].
Proof.
  intros Ha Hs He Hc Hr Hx Hl Ht Hn Hclk x f mn.
  set (mc := m <| clk := now |>).
  assert (Hlat : latch mc now = mc) by (apply latch_engaged_id; exact He).
  pose proof (expire_last sh mc now s dc Hc Hr Hx Hl Ht Hn) as Hexp.
  rewrite done_should_plain in Hexp by exact Ha. replace (should mc) with true in Hexp by (symmetry; exact Hs).
  match type of Hexp with _ = ?r => set (xr := r) in * end.
  assert (Hsel : select sh xr = xr).
  { apply select_kept. exists f. split; [reflexivity|]. unfold xr. cbn.
    rewrite done_should_plain by exact Ha. cbn. rewrite Hs. reflexivity. }
  rewrite (exec_step_call m now xr f);
    [| rewrite He; reflexivity | exact Hclk | fold mc; rewrite Hlat, Hexp; exact Hsel | reflexivity].
  unfold xr. cbn [s_m s_nss s_tm s_ev].
  rewrite enter_bk_fresh by apply next_state_ran.
  rewrite done_start. replace (start mc) with (start m) by reflexivity.
  replace (st_exp (sdat mc s)) with x by reflexivity. fold f. fold mn.
  rewrite bk_m_start. reflexivity.
Qed.

Theorem expiry_cycles m now s dc :
  sh_auto sh = false -> should m = true ->
  engaged m = true -> cur m = Some s -> ran (sdat m s) = true ->
  st_exp (sdat m s) < now - start m ->
  lookup sh s = Some dc -> d_timed dc = true -> d_next dc = None -> clk m <= now ->
  let x := st_exp (sdat m s) in
  let f := sh_first sh in
  exists m2 e,
    exec_step sh body nested m now =
    (m2, EvDone :: EvEnter f :: EvBk f (start m + x) (start m + x + duration_of sh m f)
         :: EvCall f (now - start m - x) (now - start m - x - 0) true true :: e).
Proof.
  intros Ha Hs He Hc Hr Hx Hl Ht Hn Hclk x f.
  rewrite (expiry_cycles_eq m now s dc) by assumption. fold x f.
  match goal with |- context [finish_call ?a ?b ?c ?d ?e ?f] => destruct (finish_call_shape a b c d e f) as (m2 & e0 & ->) end.
  unfold bk_ev, bk_m, duration_of. cbn. rewrite done_dur. cbn. rewrite ?Z.add_0_r. eauto.
Qed.

(* T3b: ... and when it is no longer requested (or for an AutonomousStateMachine,
   always) the machine finishes through done() *)
Theorem expiry_finishes m now s dc :
  (should m = false \/ sh_auto sh = true) ->
  engaged m = true -> cur m = Some s -> ran (sdat m s) = true ->
  st_exp (sdat m s) < now - start m ->
  lookup sh s = Some dc -> d_timed dc = true -> d_next dc = None -> clk m <= now ->
  exists e, snd (exec_step sh body nested m now) = EvDone :: e.
Proof.
  intros Hs He Hc Hr Hx Hl Ht Hn Hclk.
  set (mc := m <| clk := now |>).
  assert (Hlat : latch mc now = mc) by (apply latch_engaged_id; exact He).
  pose proof (expire_last sh mc now s dc Hc Hr Hx Hl Ht Hn) as Hexp.
  assert (Hsd : should (done sh mc) = false).
  { rewrite done_should. destruct Hs as [Hs| ->]; [|reflexivity]. destruct (sh_auto sh); [reflexivity | exact Hs]. }
  rewrite Hsd in Hexp.
  unfold exec_step. replace (negb (engaged (m <| clk := now |>))) with false by (cbn; rewrite He; reflexivity).
  cbn [andb]. fold mc. rewrite Hlat, Hexp.
  destruct (Z.ltb_spec now (clk m)); [lia|].
  match goal with |- context [select sh ?r] => set (xr := r) end.
  assert (Hev : exists e, s_ev (select sh xr) = EvDone :: e).
  { unfold select, fallback, stop_if_engaged, deactivate, xr. cbn. rewrite done_engaged. cbn.
    repeat break_match; cbn; eauto. }
  destruct Hev as [e0 He0]. rewrite He0.
  repeat break_match; cbn; eauto.
Qed.

(* T4: a state that has just been entered is always run once, with initial_call,
   whatever tm is (also when tm is already past a stale expiry) *)
Theorem entered_runs_once_eq m now s :
  engaged m = true -> cur m = Some s -> ran (sdat m s) = false ->
  requested_or_must m s -> clk m <= now ->
  let tm := now - start m in
  let mc := m <| clk := now |> in
  exec_step sh body nested m now = finish_call (bk_m mc s tm) s tm (tm - tm) true [bk_ev mc s tm].
Proof.
  intros He Hc Hr Hk Hclk tm mc.
  assert (Hl : latch mc now = mc) by (apply latch_engaged_id; exact He).
  assert (Hexp : expire sh mc now = keep_sel mc now (Some s))
    by (apply expire_keep; [exact Hc | left; exact Hr]).
  assert (Hsel : select sh (keep_sel mc now (Some s)) = keep_sel mc now (Some s))
    by (apply select_kept; exists s; split; [reflexivity | exact Hk]).
  rewrite (exec_step_call m now (keep_sel mc now (Some s)) s);
    [| rewrite He; reflexivity | exact Hclk | fold mc; rewrite Hl, Hexp; exact Hsel | reflexivity].
  unfold keep_sel. cbn [s_m s_nss s_tm s_ev].
  rewrite (enter_bk_fresh mc s) by exact Hr. replace (start mc) with (start m) by reflexivity. fold tm.
  rewrite bk_m_start. reflexivity.
Qed.

Theorem entered_runs_once m now s :
  engaged m = true -> cur m = Some s -> ran (sdat m s) = false ->
  requested_or_must m s -> clk m <= now ->
  let tm := now - start m in
  exists m2 e,
    exec_step sh body nested m now =
    (m2, EvBk s (start m + tm) (start m + (tm + duration_of sh m s))
         :: EvCall s tm (tm - tm) true true :: e).
Proof.
  intros He Hc Hr Hk Hclk tm. rewrite (entered_runs_once_eq m now s) by assumption. fold tm.
  match goal with |- context [finish_call ?a ?b ?c ?d ?e ?f] => destruct (finish_call_shape a b c d e f) as (m2 & e0 & ->) end.
  cbn. rewrite He. eauto.
Qed.

(* T5: engage() on a stopped machine, then the first iteration: the requested
   initial state (or the first state) is called with tm = 0, state_tm = 0,
   initial_call = True, and the machine is executing *)
Theorem restart_fresh_eq m now init force :
  engaged m = false -> (cur m = None \/ at_default sh m = true) -> clk m <= now ->
  let tgt := match init with Some s => s | None => sh_first sh end in
  is_state sh tgt = true -> is_default sh tgt = false ->
  let ml := next_state (m <| should := true |>) tgt <| clk := now |> <| start := now |> <| engaged := true |> in
  engage sh m init force = (next_state (m <| should := true |>) tgt, [EvEnter tgt]) /\
  exec_step sh body nested (next_state (m <| should := true |>) tgt) now =
  finish_call (bk_m ml tgt 0) tgt 0 0 true [bk_ev ml tgt 0].
Proof.
  intros He Hidle Hclk tgt Hst Hd ml.
  assert (Heng : engage sh m init force = (next_state (m <| should := true |>) tgt, [EvEnter tgt])).
  { unfold engage. fold tgt.
    replace (force || is_none (cur (m <| should := true |>)) || at_default sh (m <| should := true |>))%bool with true.
    - rewrite Hst, Hd. reflexivity.
    - symmetry. destruct Hidle as [Hn|Hn].
      + cbn. rewrite Hn. cbn. rewrite orb_true_r. reflexivity.
      + replace (at_default sh (m <| should := true |>)) with (at_default sh m) by reflexivity.
        rewrite Hn. apply orb_true_r. }
  split; [exact Heng|].
  set (m1 := next_state (m <| should := true |>) tgt).
  set (mc := m1 <| clk := now |>).
  assert (Hl : latch mc now = ml) by (unfold latch; cbn; rewrite He; reflexivity).
  assert (Hexp : expire sh ml now = keep_sel ml now (Some tgt)).
  { apply expire_keep; [reflexivity|]. left. unfold ml, m1. cbn. unfold upd. rewrite Nat.eqb_refl. reflexivity. }
  assert (Hsel : select sh (keep_sel ml now (Some tgt)) = keep_sel ml now (Some tgt))
    by (apply select_kept; exists tgt; split; reflexivity).
  rewrite (exec_step_call m1 now (keep_sel ml now (Some tgt)) tgt);
    [| cbn; rewrite andb_false_r; reflexivity | exact Hclk | fold mc; rewrite Hl, Hexp; exact Hsel | reflexivity].
  unfold keep_sel. cbn [s_m s_nss s_tm s_ev].
  rewrite enter_bk_fresh by (unfold ml, m1; cbn; unfold upd; rewrite Nat.eqb_refl; reflexivity).
  replace (start ml) with now by reflexivity. rewrite Z.sub_diag, bk_m_start. reflexivity.
Qed.

Theorem restart_fresh m now init force :
  engaged m = false -> (cur m = None \/ at_default sh m = true) -> clk m <= now ->
  let tgt := match init with Some s => s | None => sh_first sh end in
  is_state sh tgt = true -> is_default sh tgt = false ->
  let m1 := fst (engage sh m init force) in
  snd (engage sh m init force) = [EvEnter tgt] /\
  exists m2 e,
    exec_step sh body nested m1 now =
    (m2, EvBk tgt (now + 0) (now + (0 + duration_of sh m tgt)) :: EvCall tgt 0 0 true true :: e).
Proof.
  intros He Hidle Hclk tgt Hst Hd m1.
  destruct (restart_fresh_eq m now init force He Hidle Hclk Hst Hd) as [Heng Hex]. fold tgt in Heng, Hex.
  subst m1. rewrite Heng. cbn [fst snd]. split; [reflexivity|]. rewrite Hex.
  match goal with |- context [finish_call ?a ?b ?c ?d ?e ?f] => destruct (finish_call_shape a b c d e f) as (m2 & e0 & ->) end.
  cbn. eauto.
Qed.

(* a NetworkTables write to a duration after the state was entered does not move
   its expiry; a write before entry is what the bookkeeping above reads *)
Lemma set_duration_frame fuel m s d :
  let m' := fst (step sh body fuel m (SetDuration s d)) in
  sdat m' = sdat m /\ cur m' = cur m /\ start m' = start m /\ engaged m' = engaged m
  /\ should m' = should m /\ dur m' s = d /\ (forall x, x <> s -> dur m' x = dur m x).
Proof.
  cbn. repeat split; auto.
  - unfold upd. rewrite Nat.eqb_refl. reflexivity.
  - intros x Hx. unfold upd. destruct (Nat.eqb_spec x s); congruence.
Qed.

End P.
