(* Per-phase characterisation lemmas of SM.Model: later proofs use these and
   never unfold execute() as a whole. *)
From Coq Require Import ZArith List Bool Lia.
From RecordUpdate Require Import RecordSet.
Import ListNotations RecordSetNotations.
From RV Require Import SM.Model.
Open Scope Z_scope.

Ltac break_match :=
  match goal with
  | |- context [match ?x with _ => _ end] => destruct x eqn:?
  end.
Ltac break_hyp H :=
  match type of H with
  | context [match ?x with _ => _ end] => destruct x eqn:?
  end.

(* trace predicates *)
Definition okev (e : event) : Prop :=
  match e with EvErr | EvOff | EvBack => False | _ => True end.
Definition ok (t : list event) : Prop := Forall okev t.

Lemma ok_app a b : ok (a ++ b) <-> ok a /\ ok b.
Proof. unfold ok. apply Forall_app. Qed.
Lemma ok_cons e t : ok (e :: t) <-> okev e /\ ok t.
Proof. unfold ok. split; [intros H; inversion H; auto | intros [? ?]; constructor; auto]. Qed.
Lemma ok_nil : ok []. Proof. constructor. Qed.
Lemma not_ok_err t : ~ ok (EvErr :: t).
Proof. intros H. apply ok_cons in H. destruct H as [[] _]. Qed.
Lemma not_ok_off t : ~ ok (EvOff :: t).
Proof. intros H. apply ok_cons in H. destruct H as [[] _]. Qed.
Lemma not_ok_back t : ~ ok (EvBack :: t).
Proof. intros H. apply ok_cons in H. destruct H as [[] _]. Qed.

Section Facts.
Variable sh : shape.

(* ---- next_state / done ------------------------------------------- *)
Lemma next_state_should m s : should (next_state m s) = should m. Proof. reflexivity. Qed.
Lemma next_state_engaged m s : engaged (next_state m s) = engaged m. Proof. reflexivity. Qed.
Lemma next_state_cur m s : cur (next_state m s) = Some s. Proof. reflexivity. Qed.
Lemma next_state_nt m s : nt_cur (next_state m s) = Some s. Proof. reflexivity. Qed.
Lemma next_state_start m s : start (next_state m s) = start m. Proof. reflexivity. Qed.
Lemma next_state_clk m s : clk (next_state m s) = clk m. Proof. reflexivity. Qed.
Lemma next_state_ran m s : ran (sdat (next_state m s) s) = false.
Proof. unfold next_state, upd; cbn. rewrite Nat.eqb_refl. reflexivity. Qed.
Lemma next_state_sdat_other m s x : x <> s -> sdat (next_state m s) x = sdat m x.
Proof. intros H. unfold next_state, upd; cbn. destruct (Nat.eqb_spec x s); congruence. Qed.

Lemma done_engaged m : engaged (done sh m) = false.
Proof. unfold done. destruct (sh_auto sh); reflexivity. Qed.
Lemma done_cur m : cur (done sh m) = None.
Proof. unfold done. destruct (sh_auto sh); reflexivity. Qed.
Lemma done_nt m : nt_cur (done sh m) = None.
Proof. unfold done. destruct (sh_auto sh); reflexivity. Qed.
Lemma done_start m : start (done sh m) = start m.
Proof. unfold done. destruct (sh_auto sh); reflexivity. Qed.
Lemma done_clk m : clk (done sh m) = clk m.
Proof. unfold done. destruct (sh_auto sh); reflexivity. Qed.
Lemma done_sdat m : sdat (done sh m) = sdat m.
Proof. unfold done. destruct (sh_auto sh); reflexivity. Qed.
Lemma done_dur m : dur (done sh m) = dur m.
Proof. unfold done. destruct (sh_auto sh); reflexivity. Qed.
Lemma done_should m : should (done sh m) = if sh_auto sh then false else should m.
Proof. unfold done. destruct (sh_auto sh); reflexivity. Qed.
Lemma done_should_plain m : sh_auto sh = false -> should (done sh m) = should m.
Proof. intros H. rewrite done_should, H. reflexivity. Qed.
Lemma done_should_le m : should (done sh m) = true -> should m = true.
Proof. rewrite done_should. destruct (sh_auto sh); congruence. Qed.

(* ---- latch --------------------------------------------------------- *)
Lemma latch_should m now : should (latch m now) = should m.
Proof. unfold latch. destruct (negb (engaged m) && should m); reflexivity. Qed.
Lemma latch_cur m now : cur (latch m now) = cur m.
Proof. unfold latch. destruct (negb (engaged m) && should m); reflexivity. Qed.
Lemma latch_nt m now : nt_cur (latch m now) = nt_cur m.
Proof. unfold latch. destruct (negb (engaged m) && should m); reflexivity. Qed.
Lemma latch_sdat m now : sdat (latch m now) = sdat m.
Proof. unfold latch. destruct (negb (engaged m) && should m); reflexivity. Qed.
Lemma latch_clk m now : clk (latch m now) = clk m.
Proof. unfold latch. destruct (negb (engaged m) && should m); reflexivity. Qed.
Lemma latch_engaged m now : engaged (latch m now) = engaged m || should m.
Proof. unfold latch. destruct (engaged m) eqn:E, (should m) eqn:E2; cbn; rewrite ?E; reflexivity. Qed.
Lemma latch_start m now :
  start (latch m now) = if negb (engaged m) && should m then now else start m.
Proof. unfold latch. destruct (negb (engaged m) && should m); reflexivity. Qed.

(* ---- expire -------------------------------------------------------- *)
Lemma expire_should_le m now : should (s_m (expire sh m now)) = true -> should m = true.
Proof.
  unfold expire. repeat break_match; cbn; auto; try (intros H; apply done_should_le in H; exact H).
Qed.
Lemma expire_should_plain m now : sh_auto sh = false -> should (s_m (expire sh m now)) = should m.
Proof.
  intros Ha. unfold expire. repeat break_match; cbn; auto; rewrite ?done_should_plain in *; auto.
Qed.
Lemma expire_clk m now : clk (s_m (expire sh m now)) = clk m.
Proof. unfold expire. repeat break_match; cbn; auto using done_clk. Qed.

(* ---- deactivate / stop_if_engaged / fallback ---------------------- *)
Lemma deactivate_m x : s_m (deactivate sh x) = s_m x.
Proof. unfold deactivate. repeat break_match; reflexivity. Qed.
Lemma deactivate_ev x : s_ev (deactivate sh x) = s_ev x.
Proof. unfold deactivate. repeat break_match; reflexivity. Qed.
Lemma deactivate_tm x : s_tm (deactivate sh x) = s_tm x.
Proof. unfold deactivate. repeat break_match; reflexivity. Qed.
Lemma deactivate_nss x : s_nss (deactivate sh x) = s_nss x.
Proof. unfold deactivate. repeat break_match; reflexivity. Qed.
Lemma deactivate_done x : s_done (deactivate sh x) = s_done x.
Proof. unfold deactivate. repeat break_match; reflexivity. Qed.
Lemma deactivate_st x :
  s_st (deactivate sh x) =
  match s_st x with
  | Some s => if should (s_m x) || is_must sh s then Some s else None
  | None => None
  end.
Proof. unfold deactivate. repeat break_match; cbn; congruence. Qed.

Lemma stop_st x : s_st (stop_if_engaged sh x) = s_st x.
Proof. unfold stop_if_engaged. repeat break_match; cbn; congruence. Qed.
Lemma stop_tm x : s_tm (stop_if_engaged sh x) = s_tm x.
Proof. unfold stop_if_engaged. repeat break_match; reflexivity. Qed.
Lemma stop_nss x : s_nss (stop_if_engaged sh x) = s_nss x.
Proof. unfold stop_if_engaged. repeat break_match; reflexivity. Qed.
Lemma stop_should_le x : should (s_m (stop_if_engaged sh x)) = true -> should (s_m x) = true.
Proof. unfold stop_if_engaged. repeat break_match; cbn; auto using done_should_le. Qed.
Lemma stop_should_plain x : sh_auto sh = false ->
  should (s_m (stop_if_engaged sh x)) = should (s_m x).
Proof. intros. unfold stop_if_engaged. repeat break_match; cbn; auto using done_should_plain. Qed.
Lemma stop_clk x : clk (s_m (stop_if_engaged sh x)) = clk (s_m x).
Proof. unfold stop_if_engaged. repeat break_match; cbn; auto using done_clk. Qed.

Lemma fallback_should x : should (s_m (fallback sh x)) = should (s_m x).
Proof. unfold fallback. repeat break_match; reflexivity. Qed.
Lemma fallback_engaged x : engaged (s_m (fallback sh x)) = engaged (s_m x).
Proof. unfold fallback. repeat break_match; reflexivity. Qed.
Lemma fallback_start x : start (s_m (fallback sh x)) = start (s_m x).
Proof. unfold fallback. repeat break_match; reflexivity. Qed.
Lemma fallback_nt x : nt_cur (s_m (fallback sh x)) = nt_cur (s_m x).
Proof. unfold fallback. repeat break_match; reflexivity. Qed.
Lemma fallback_clk x : clk (s_m (fallback sh x)) = clk (s_m x).
Proof. unfold fallback. repeat break_match; reflexivity. Qed.
Lemma fallback_tm x : s_tm (fallback sh x) = s_tm x.
Proof. unfold fallback. repeat break_match; reflexivity. Qed.
Lemma fallback_nss x : s_nss (fallback sh x) = s_nss x.
Proof. unfold fallback. repeat break_match; reflexivity. Qed.
Lemma fallback_done x : s_done (fallback sh x) = s_done x.
Proof. unfold fallback. repeat break_match; reflexivity. Qed.

Lemma select_should_le x : should (s_m (select sh x)) = true -> should (s_m x) = true.
Proof.
  unfold select. rewrite fallback_should. intros H. apply stop_should_le in H.
  rewrite deactivate_m in H. exact H.
Qed.
Lemma select_should_plain x : sh_auto sh = false -> should (s_m (select sh x)) = should (s_m x).
Proof.
  intros Ha. unfold select. rewrite fallback_should, stop_should_plain, deactivate_m by exact Ha.
  reflexivity.
Qed.
Lemma select_tm x : s_tm (select sh x) = s_tm x.
Proof. unfold select. rewrite fallback_tm, stop_tm, deactivate_tm. reflexivity. Qed.
Lemma select_nss x : s_nss (select sh x) = s_nss x.
Proof. unfold select. rewrite fallback_nss, stop_nss, deactivate_nss. reflexivity. Qed.
Lemma select_clk x : clk (s_m (select sh x)) = clk (s_m x).
Proof. unfold select. rewrite fallback_clk, stop_clk, deactivate_m. reflexivity. Qed.

(* ---- enter_bk ------------------------------------------------------ *)
Lemma enter_bk_frame m s nss :
  let m1 := fst (fst (enter_bk sh m s nss)) in
  should m1 = should m /\ engaged m1 = engaged m /\ cur m1 = cur m /\ start m1 = start m
  /\ nt_cur m1 = nt_cur m /\ clk m1 = clk m /\ ncall m1 = ncall m /\ dur m1 = dur m
  /\ auto_on m1 = auto_on m.
Proof. unfold enter_bk. destruct (ran (sdat m s)); cbn; repeat split. Qed.

Lemma enter_bk_spec m s nss :
  let '(m1, init, bk) := enter_bk sh m s nss in
  init = negb (ran (sdat m s)) /\ ran (sdat m1 s) = true
  /\ (forall x, x <> s -> sdat m1 x = sdat m x)
  /\ (ran (sdat m s) = true -> m1 = m /\ bk = [])
  /\ (ran (sdat m s) = false ->
        st_start (sdat m1 s) = nss /\ st_exp (sdat m1 s) = nss + duration_of sh m s
        /\ bk = [EvBk s (start m + nss) (start m + (nss + duration_of sh m s))]).
Proof.
  unfold enter_bk. destruct (ran (sdat m s)) eqn:E; cbn.
  - repeat split; auto; discriminate.
  - unfold upd. rewrite Nat.eqb_refl. cbn. repeat split; auto; try discriminate.
    intros x Hx. destruct (Nat.eqb_spec x s); congruence.
Qed.

End Facts.
