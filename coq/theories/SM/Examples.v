(* A concrete machine and histories used by the non-vacuity examples of
   Properties/C01..C04, C13.  No proofs of properties here. *)
From Coq Require Import ZArith List Bool.
From RV Require Import SM.Model SM.Basics SM.Check.
Import ListNotations.
Open Scope Z_scope.

(* a(4 ticks, first) -> b(2 ticks, must_finish) -> end ; c plain ; d default *)
Definition ex_shape (auto : bool) : shape :=
  {| sh_states := [ (0%nat, {| d_must := false; d_timed := true; d_next := Some 1%nat |});
                    (1%nat, {| d_must := true;  d_timed := true; d_next := None |});
                    (2%nat, {| d_must := false; d_timed := false; d_next := None |});
                    (3%nat, {| d_must := true;  d_timed := false; d_next := None |}) ];
     sh_first := 0%nat; sh_default := Some 3%nat; sh_inf := 4294967295 * 64; sh_auto := auto |}.
Definition ex_durs : name -> Z := fun s => match s with 0%nat => 4 | 1%nat => 2 | _ => 0 end.
Definition ex_init : sm := init_sm ex_durs.

(* the 3rd invocation jumps to c immediately, the 5th asks for a, the 9th stops *)
Definition ex_body : nat -> name -> Z -> Z -> bool -> list action :=
  fun k _ _ _ _ => match k with
                   | 2%nat => [ANextNow 2%nat 13]
                   | 4%nat => [ANext 0%nat]
                   | 8%nat => [ADone]
                   | _ => [] end.

Definition ex_hist : list op :=
  [ Execute 10; Engage None false; Execute 11; Engage None false; Execute 12;
    Engage None false; Execute 14; Engage None false; Execute 15; Execute 21;
    Execute 22; SetDuration 0%nat 8; Engage (Some 2%nat) false; Execute 30; Engage None false; Execute 31;
    Done; Execute 40; Engage None true; Execute 41 ].

Definition ex_trace := concat (snd (run (ex_shape false) ex_body 8 ex_init ex_hist)).
