(* C02: a continuously engaged machine whose state functions request no
   transition enters each state exactly at the previous state's expiry instant
   -- for every pattern of iteration instants (long pauses, readings landing
   exactly on an expiry), across cycle restarts: the chain never drifts. *)
From Coq Require Import ZArith List Bool Lia.
From RecordUpdate Require Import RecordSet.
Import ListNotations RecordSetNotations.
From RV Require Import SM.Model SM.Basics SM.Engage SM.Invariants SM.Stop SM.Timing SM.Auto.
Open Scope Z_scope.

(* state functions that do nothing *)
Definition body0 : nat -> name -> Z -> Z -> bool -> list action := fun _ _ _ _ _ => [].

(* engage(); execute() at each instant *)
Definition continuous (ts : list Z) : list op :=
  flat_map (fun t => [Engage None false; Execute t]) ts.

(* every state entry (EvBk s entry expiry, absolute instants) starts exactly at
   the expiry of the entry before it *)
Fixpoint chain (last : option Z) (t : list event) : Prop :=
  match t with
  | [] => True
  | EvBk _ a e :: r => (match last with Some x => a = x | None => True end) /\ chain (Some e) r
  | _ :: r => chain last r
  end.
Fixpoint chain_end (last : option Z) (t : list event) : option Z :=
  match t with
  | [] => last
  | EvBk _ _ e :: r => chain_end (Some e) r
  | _ :: r => chain_end last r
  end.

Lemma chain_app l a b : chain l (a ++ b) <-> chain l a /\ chain (chain_end l a) b.
Proof.
  revert l. induction a as [|e a IH]; intros l; cbn [app chain chain_end]; [tauto|].
  destruct e; try apply IH. rewrite IH. tauto.
Qed.
Lemma chain_end_app l a b : chain_end l (a ++ b) = chain_end (chain_end l a) b.
Proof. revert l. induction a as [|e a IH]; intros l; cbn; [reflexivity|]. destruct e; apply IH. Qed.

Fixpoint mono_from (c : Z) (ts : list Z) : Prop :=
  match ts with [] => True | t :: r => c <= t /\ mono_from t r end.

Section P.
Variable sh : shape.
Hypothesis Hwf : wf_shape sh.
Hypothesis Hplain : sh_auto sh = false.

Lemma exec_step_ok_expire nested m now :
  (negb (engaged m) && negb (should m) && is_none (sh_default sh))%bool = false ->
  ok (snd (exec_step sh body0 nested m now)) ->
  ok (s_ev (expire sh (latch (m <| clk := now |>) now) now)).
Proof.
  intros Hearly. unfold exec_step.
  replace (negb (engaged (m <| clk := now |>)) && negb (should (m <| clk := now |>)) && is_none (sh_default sh))%bool
    with false by (cbn; symmetry; exact Hearly).
  set (x := select sh (expire sh (latch (m <| clk := now |>) now) now)).
  intros Hok. apply (select_ok_expire sh). fold x.
  destruct (s_st x) as [s|].
  - destruct (enter_bk sh (s_m x) s (s_nss x)) as [[m1 init] bk].
    match goal with H : context [run_actions sh nested ?a ?mm] |- _ => destruct (run_actions sh nested a mm) as [m2 e] end.
    cbn [snd] in Hok. apply ok_app in Hok. destruct Hok as [_ Hok]. apply ok_app in Hok. tauto.
  - destruct (s_done x); cbn [snd] in Hok; apply ok_app in Hok; destruct Hok as [_ Hok]; apply ok_app in Hok; tauto.
Qed.

Lemma exec_step_ok_expire_engaged nested m now : engaged m = true ->
  ok (snd (exec_step sh body0 nested m now)) ->
  ok (s_ev (expire sh (m <| clk := now |>) now)).
Proof.
  intros He Hok.
  assert (H : ok (s_ev (expire sh (latch (m <| clk := now |>) now) now))).
  { apply exec_step_ok_expire with (nested := nested); [rewrite He; reflexivity | exact Hok]. }
  unfold latch in H. cbn [engaged set] in H. rewrite He in H. exact H.
Qed.

(* the current state has run; [last] is its absolute expiry instant *)
Definition R (m : sm) (last : option Z) : Prop :=
  Inv sh m /\ engaged m = true /\ should m = false /\
  exists s, cur m = Some s /\ ran (sdat m s) = true /\ last = Some (start m + st_exp (sdat m s)).

Lemma finish_call0 nested mcall s tm stm init pre :
  finish_call sh body0 nested mcall s tm stm init pre =
  (mcall <| ncall := S (ncall mcall) |> <| should := false |>, pre ++ [EvCall s tm stm init (engaged mcall)]).
Proof. reflexivity. Qed.

Lemma not_at_default m s : cur m = Some s -> is_default sh s = false -> at_default sh m = false.
Proof.
  intros Hc Hd. unfold at_default. rewrite Hc. unfold is_default, is_some_eq in Hd.
  destruct (sh_default sh) as [d|]; [|reflexivity]. rewrite Nat.eqb_sym. exact Hd.
Qed.

Lemma round fuel m last t : R m last -> clk m <= t ->
  let '(m1, e1) := step sh body0 (S fuel) m (Engage None false) in
  let '(m2, e2) := step sh body0 (S fuel) m1 (Execute t) in
  ok (e1 ++ e2) ->
  R m2 (chain_end last (e1 ++ e2)) /\ chain last (e1 ++ e2) /\ clk m2 = t.
Proof.
  intros (HI & He & Hs & s & Hc & Hr & Hlast) Hclk.
  destruct (running_status sh m HI He) as (s' & Hc' & Hnt & Hds). rewrite Hc in Hc'. injection Hc' as <-.
  cbn [step].
  assert (Heng : engage sh m None false = (m <| should := true |>, [])).
  { unfold engage. cbn. rewrite Hc. cbn.
    replace (at_default sh (m <| should := true |>)) with (at_default sh m) by reflexivity.
    rewrite (not_at_default m s Hc Hds). reflexivity. }
  rewrite Heng. set (m' := m <| should := true |>).
  assert (HI' : Inv sh m').
  { pose proof (engage_inv sh m None false HI) as H. rewrite Heng in H. apply H. constructor. }
  pose proof (exec_inv sh body0 (S fuel) m' t Hwf HI') as Hinv.
  cbn [exec] in *.
  assert (Hearly : (negb (engaged m') && negb (should m') && is_none (sh_default sh))%bool = false)
    by (cbn; rewrite He; reflexivity).
  destruct (exec_step sh body0 (exec sh body0 fuel) m' t) as [m2 e2] eqn:Ex.
  cbn [fst snd app] in *. intros Hok. destruct (Hinv Hok) as (HI2 & _ & _). clear Hinv.
  destruct (Z_le_gt_dec (t - start m) (st_exp (sdat m s))) as [Hle|Hgt].
  - (* the state is held *)
    rewrite (holds_until_expiry_eq sh body0 (exec sh body0 fuel) m' t s) in Ex;
      try assumption; try reflexivity.
    rewrite finish_call0 in Ex. injection Ex as <- <-.
    split; [|split; [exact I | reflexivity]].
    split; [exact HI2|]. split; [exact He|]. split; [reflexivity|].
    exists s. cbn. repeat split; auto.
  - (* it has expired *)
    assert (Hoke : ok (s_ev (expire sh (m' <| clk := t |>) t))).
    { apply (exec_step_ok_expire_engaged (exec sh body0 fuel) m' t He). rewrite Ex. exact Hok. }
    destruct (expire_cases sh (m' <| clk := t |>) t Hoke) as [Hn|[(s0 & Hc0 & Hk)|(s0 & dc & Hc0 & _ & _ & Hlk & Htd & Hnx)]].
    + cbn in Hn. congruence.
    + cbn in Hc0. rewrite Hc in Hc0. injection Hc0 as <-. cbn in Hk. destruct Hk as [Hk|Hk]; [congruence | lia].
    + cbn in Hc0. rewrite Hc in Hc0. injection Hc0 as <-.
      destruct Hnx as [(n & Hn & Hsn)|Hn].
      * rewrite (expiry_hands_over_eq sh body0 (exec sh body0 fuel) m' t s dc n) in Ex;
          try assumption; try reflexivity; try (cbn; lia).
        rewrite finish_call0 in Ex. injection Ex as <- <-.
        split; [|split; [|reflexivity]].
        -- split; [exact HI2|]. split; [exact He|]. split; [reflexivity|].
           exists n. cbn. unfold upd. rewrite Nat.eqb_refl. cbn. repeat split; auto.
        -- cbn. rewrite Hlast. split; [reflexivity | exact I].
      * rewrite (expiry_cycles_eq sh body0 (exec sh body0 fuel) m' t s dc) in Ex;
          try assumption; try reflexivity; try (cbn; lia).
        rewrite finish_call0 in Ex. injection Ex as <- <-.
        split; [|split; [|cbn; rewrite done_clk; reflexivity]].
        -- split; [exact HI2|]. split; [reflexivity|]. split; [reflexivity|].
           exists (sh_first sh). cbn. unfold upd. rewrite Nat.eqb_refl. cbn.
           repeat split; auto.
        -- cbn. rewrite ?done_start. cbn. rewrite Hlast. split; [lia | exact I].
Qed.

(* over any number of iterations *)
Theorem chain_continuous fuel ts : forall m last, R m last -> mono_from (clk m) ts ->
  ok (concat (snd (run sh body0 (S fuel) m (continuous ts)))) ->
  chain last (concat (snd (run sh body0 (S fuel) m (continuous ts)))).
Proof.
  induction ts as [|t r IH]; intros m last HR Hm; [intros _; exact I|].
  destruct Hm as [Hct Hm].
  cbn [continuous flat_map app run].
  pose proof (round fuel m last t HR Hct) as Hround.
  destruct (step sh body0 (S fuel) m (Engage None false)) as [m1 e1].
  destruct (step sh body0 (S fuel) m1 (Execute t)) as [m2 e2].
  specialize (IH m2). fold (continuous r) in *.
  destruct (run sh body0 (S fuel) m2 (continuous r)) as [m3 es]. cbn [fst snd concat] in *.
  intros Hok. rewrite app_assoc in *. apply ok_app in Hok. destruct Hok as [Hok1 Hok2].
  destruct (Hround Hok1) as (HR2 & Hch & Hclk2).
  apply chain_app. split; [exact Hch|].
  apply IH; [exact HR2 | rewrite Hclk2; exact Hm | exact Hok2].
Qed.

(* ... starting from a stopped machine: the first state is entered at the first
   iteration instant, and every later entry chains on the previous expiry *)
Theorem no_drift fuel m t ts :
  Idle sh m -> clk m <= t -> mono_from t ts ->
  ok (concat (snd (run sh body0 (S fuel) m (continuous (t :: ts))))) ->
  exists e rest,
    concat (snd (run sh body0 (S fuel) m (continuous (t :: ts)))) =
      EvEnter (sh_first sh) :: EvBk (sh_first sh) t e :: rest /\
    chain (Some e) rest.
Proof.
  intros (HI & He & Hs) Hclk Hm.
  destruct Hwf as (Hw1 & Hw2 & _).
  destruct (stopped_status sh m HI He Hs) as [Hnt Hidle].
  cbn [continuous flat_map app run].
  destruct (restart_fresh_eq sh body0 (exec sh body0 fuel) m t None false He Hidle Hclk Hw1 Hw2) as [Heng Hex].
  cbn [step]. rewrite Heng. cbn [exec]. rewrite Hex, finish_call0.
  match goal with |- context [run sh body0 (S fuel) ?mm (flat_map ?f ts)] =>
    set (m2 := mm); pose proof (chain_continuous fuel ts m2) as Hch;
    pose proof (exec_inv sh body0 (S fuel) (next_state (m <| should := true |>) (sh_first sh)) t Hwf) as Hinv
  end.
  fold (continuous ts) in *.
  destruct (run sh body0 (S fuel) m2 (continuous ts)) as [m3 es]. cbn [fst snd concat app] in *.
  intros Hok.
  eexists. eexists. split; [unfold bk_ev; cbn; rewrite Z.add_0_r; reflexivity|].
  cbn [chain]. apply Hch.
  - (* R holds after the first iteration *)
    assert (HI1 : Inv sh (next_state (m <| should := true |>) (sh_first sh))).
    { pose proof (engage_inv sh m None false HI) as H. rewrite Heng in H. apply H. repeat constructor. }
    cbn [exec] in Hinv. rewrite Hex, finish_call0 in Hinv. cbn [fst snd] in Hinv.
    pose proof Hok as Hok'. cbn in Hok'. apply ok_cons in Hok'. destruct Hok' as [_ Hok'].
    match type of Hok' with ok (?b :: ?c :: _) =>
      assert (Hok1 : ok ([b] ++ [c]))
        by (apply ok_cons in Hok'; destruct Hok' as [Hb Hok']; apply ok_cons in Hok';
            destruct Hok' as [Hc _]; repeat constructor; assumption) end.
    destruct (Hinv HI1 Hok1) as (HI2 & _ & _).
    split; [exact HI2|]. split; [reflexivity|]. split; [reflexivity|].
    exists (sh_first sh). unfold m2, bk_m. cbn. unfold upd. rewrite Nat.eqb_refl. cbn. repeat split; auto.
  - unfold m2. cbn. exact Hm.
  - cbn in Hok. apply ok_cons in Hok. destruct Hok as [_ Hok]. apply ok_cons in Hok. destruct Hok as [_ Hok].
    apply ok_cons in Hok. destruct Hok as [_ Hok]. exact Hok.
Qed.

End P.
