(* The invariant of a StateMachine used inside the contract K, its
   preservation by execute() (any nesting of next_state_now) and by the
   external operations, and non-negativity of tm / state_tm. *)
From Coq Require Import ZArith List Bool Lia.
From RecordUpdate Require Import RecordSet.
Import ListNotations RecordSetNotations.
From RV Require Import SM.Model SM.Basics SM.Engage.
Open Scope Z_scope.

Ltac splits := repeat match goal with |- _ /\ _ => split end.

Section P.
Variable sh : shape.
Variable body : nat -> name -> Z -> Z -> bool -> list action.

(* the default state is entered by falling back to it, never by a transition *)
Definition wf_shape : Prop :=
  is_state sh (sh_first sh) = true /\ is_default sh (sh_first sh) = false /\
  (forall s d n, lookup sh s = Some d -> d_next d = Some n -> is_default sh n = false) /\
  (forall d dc, sh_default sh = Some d -> lookup sh d = Some dc -> d_timed dc = false).

Definition cur_idle (m : sm) : Prop :=
  cur m = None \/ (exists d, sh_default sh = Some d /\ cur m = Some d).
Definition running (m : sm) : Prop :=
  exists s, cur m = Some s /\ is_default sh s = false /\ nt_cur m = Some s.
Definition stopped (m : sm) : Prop := cur_idle m /\ nt_cur m = None.
Definition timing (m : sm) : Prop :=
  (engaged m = true -> start m <= clk m) /\
  (forall s, cur m = Some s -> ran (sdat m s) = true -> st_start (sdat m s) <= clk m - start m).

(* inside a state function *)
Definition Q (m : sm) : Prop :=
  (engaged m = true -> running m) /\ (engaged m = false -> stopped m) /\ timing m.

(* between operations *)
Definition Inv (m : sm) : Prop :=
  (engaged m = true -> running m) /\
  (engaged m = false -> should m = false -> stopped m) /\
  (engaged m = false -> should m = true ->
     nt_cur m = cur m /\ forall s, cur m = Some s -> ran (sdat m s) = false /\ is_default sh s = false) /\
  timing m.

Lemma Q_Inv m : Q m -> should m = false -> Inv m.
Proof.
  intros (Hr & Hs & Ht) Hf. split; [exact Hr|]. split; [intros He _; apply Hs, He|].
  split; [intros _ H; congruence | exact Ht].
Qed.
Lemma Inv_Q_running m : Inv m -> engaged m = true -> Q m.
Proof. intros (Hr & _ & _ & Ht) He. split; [exact Hr|]. split; [intros H; congruence | exact Ht]. Qed.

Lemma Inv_init durs : Inv (init_sm durs).
Proof.
  unfold Inv, init_sm, stopped, cur_idle, timing; cbn.
  repeat split; try discriminate; auto.
Qed.

Definition nonneg_ev (e : event) : Prop :=
  match e with EvCall _ tm stm _ eng => 0 <= stm /\ (eng = true -> 0 <= tm) | _ => True end.
Definition nonneg (t : list event) : Prop := Forall nonneg_ev t.
Lemma nonneg_app a b : nonneg (a ++ b) <-> nonneg a /\ nonneg b.
Proof. apply Forall_app. Qed.

Lemma is_default_some d s : sh_default sh = Some d -> is_default sh s = true -> s = d.
Proof. unfold is_default. intros ->. cbn. intros H. apply Nat.eqb_eq in H. auto. Qed.
Lemma is_default_refl d : sh_default sh = Some d -> is_default sh d = true.
Proof. unfold is_default. intros ->. cbn. apply Nat.eqb_refl. Qed.
Lemma is_some_eq_true a s : is_some_eq a s = true <-> a = Some s.
Proof.
  unfold is_some_eq. destruct a; split; try discriminate.
  - intros H. apply Nat.eqb_eq in H. congruence.
  - intros [= ->]. apply Nat.eqb_refl.
Qed.

(* ------------------------------------------------------------------ *)
(* expire: exact results (also used by the timing theorems)             *)

Definition keep_sel (m : sm) (now : Z) (st : option name) : sel :=
  {| s_m := m; s_st := st; s_nss := now - start m; s_tm := now - start m; s_ev := []; s_done := false |}.

Lemma expire_none m now : cur m = None -> expire sh m now = keep_sel m now None.
Proof. intros H. unfold expire. rewrite H. reflexivity. Qed.

Lemma expire_keep m now s : cur m = Some s ->
  (ran (sdat m s) = false \/ now - start m <= st_exp (sdat m s)) ->
  expire sh m now = keep_sel m now (Some s).
Proof.
  intros Hc H. unfold expire. rewrite Hc.
  destruct (ran (sdat m s)) eqn:Er; cbn -[Z.sub]; [|reflexivity].
  destruct H as [H|H]; [discriminate|].
  destruct (Z.ltb_spec (st_exp (sdat m s)) (now - start m)); [lia | reflexivity].
Qed.

Lemma expire_next m now s dc n : cur m = Some s -> ran (sdat m s) = true ->
  st_exp (sdat m s) < now - start m -> lookup sh s = Some dc -> d_timed dc = true ->
  d_next dc = Some n -> is_state sh n = true ->
  expire sh m now =
  {| s_m := next_state m n; s_st := Some n; s_nss := st_exp (sdat m s); s_tm := now - start m;
     s_ev := [EvEnter n]; s_done := false |}.
Proof.
  intros Hc Hr Hx Hl Ht Hn Hs. unfold expire. rewrite Hc, Hr.
  apply Z.ltb_lt in Hx. rewrite Hx. cbn -[Z.sub]. rewrite Hl, Ht, Hn, Hs. reflexivity.
Qed.

Lemma expire_last m now s dc : cur m = Some s -> ran (sdat m s) = true ->
  st_exp (sdat m s) < now - start m -> lookup sh s = Some dc -> d_timed dc = true ->
  d_next dc = None ->
  expire sh m now =
  if should (done sh m) then
    {| s_m := next_state (done sh m <| start := start (done sh m) + st_exp (sdat m s) |> <| engaged := true |>) (sh_first sh);
       s_st := Some (sh_first sh); s_nss := 0; s_tm := now - start m - st_exp (sdat m s);
       s_ev := [EvDone; EvEnter (sh_first sh)]; s_done := true |}
  else
    {| s_m := done sh m; s_st := None; s_nss := st_exp (sdat m s); s_tm := now - start m;
       s_ev := [EvDone]; s_done := true |}.
Proof.
  intros Hc Hr Hx Hl Ht Hn. unfold expire. rewrite Hc, Hr.
  apply Z.ltb_lt in Hx. rewrite Hx. cbn -[Z.sub]. rewrite Hl, Ht, Hn. reflexivity.
Qed.

(* every non-error outcome of expire is one of the four above *)
Lemma expire_cases m now : ok (s_ev (expire sh m now)) ->
  (cur m = None) \/
  (exists s, cur m = Some s /\ (ran (sdat m s) = false \/ now - start m <= st_exp (sdat m s))) \/
  (exists s dc, cur m = Some s /\ ran (sdat m s) = true /\ st_exp (sdat m s) < now - start m /\
     lookup sh s = Some dc /\ d_timed dc = true /\
     ((exists n, d_next dc = Some n /\ is_state sh n = true) \/ d_next dc = None)).
Proof.
  unfold expire. destruct (cur m) as [s|]; [|auto]. intros Hok. right.
  destruct (ran (sdat m s)) eqn:Er; [|left; exists s; auto].
  destruct (st_exp (sdat m s) <? now - start m) eqn:Ex;
    [apply Z.ltb_lt in Ex | apply Z.ltb_ge in Ex; left; exists s; auto].
  cbn -[Z.sub] in Hok. right.
  destruct (lookup sh s) as [dc|] eqn:El; [|exfalso; eapply not_ok_err; exact Hok].
  destruct (d_timed dc) eqn:Et; [|exfalso; eapply not_ok_err; exact Hok].
  exists s, dc. split; [reflexivity|]. split; [exact Er|]. split; [exact Ex|].
  split; [exact El|]. split; [exact Et|].
  destruct (d_next dc) as [n|]; [|auto]. left. exists n. split; auto.
  destruct (is_state sh n); auto. exfalso; eapply not_ok_err; exact Hok.
Qed.

(* ------------------------------------------------------------------ *)
(* select: exact characterisation                                      *)

Definition kept (x : sel) : Prop :=
  exists s, s_st x = Some s /\ (should (s_m x) || is_must sh s)%bool = true.
Definition dropped (x : sel) : Prop :=
  s_st x = None \/ exists s, s_st x = Some s /\ (should (s_m x) || is_must sh s)%bool = false.

Lemma kept_or_dropped x : kept x \/ dropped x.
Proof.
  unfold kept, dropped. destruct (s_st x) as [s|]; [|auto].
  destruct (should (s_m x) || is_must sh s)%bool eqn:E; eauto.
Qed.

Lemma select_kept x : kept x -> select sh x = x.
Proof.
  intros (s & Hs & Hk). unfold select.
  assert (Hd : deactivate sh x = x) by (unfold deactivate; rewrite Hs, Hk; reflexivity).
  rewrite Hd. unfold stop_if_engaged. rewrite Hs. unfold fallback. rewrite Hs. reflexivity.
Qed.

Definition stop_m (x : sel) : sm :=
  if engaged (s_m x) && negb (s_done x) then done sh (s_m x) else s_m x.
Definition stop_ev (x : sel) : list event :=
  if engaged (s_m x) && negb (s_done x) then s_ev x ++ [EvDone] else s_ev x.

Lemma select_dropped x : dropped x ->
  let y := select sh x in
  s_tm y = s_tm x /\ s_nss y = s_nss x /\
  match sh_default sh with
  | None => s_st y = None /\ s_m y = stop_m x /\ s_ev y = stop_ev x
  | Some d =>
      s_st y = Some d /\
      if is_some_eq (cur (stop_m x)) d then s_m y = stop_m x /\ s_ev y = stop_ev x
      else s_m y = stop_m x <| sdat := upd (sdat (stop_m x)) d (sdat (stop_m x) d <| ran := false |>) |>
                            <| cur := Some d |>
           /\ s_ev y = stop_ev x ++ [EvFallback d]
  end.
Proof.
  intros Hd y. subst y. rewrite select_tm, select_nss. split; [reflexivity|]. split; [reflexivity|].
  unfold select.
  assert (Hst : s_st (deactivate sh x) = None).
  { rewrite deactivate_st. destruct Hd as [->|(s & -> & ->)]; reflexivity. }
  unfold stop_if_engaged. rewrite Hst, deactivate_m, deactivate_done, deactivate_ev.
  unfold stop_m, stop_ev, fallback.
  destruct (engaged (s_m x) && negb (s_done x)); cbn; rewrite ?Hst;
    destruct (sh_default sh) as [d|]; cbn; rewrite ?deactivate_m, ?deactivate_ev; auto;
    match goal with |- context [is_some_eq ?a d] => destruct (is_some_eq a d) end; cbn; auto;
    repeat split; rewrite ?deactivate_m, ?deactivate_ev; auto.
Qed.


Lemma kept_not_dropped x : kept x -> dropped x -> False.
Proof.
  intros (s & Hs & Hk) [Hd|(s' & Hs' & Hd)]; [congruence|].
  rewrite Hs in Hs'. injection Hs' as <-. congruence.
Qed.

Lemma is_default_true s : is_default sh s = true -> sh_default sh = Some s.
Proof.
  unfold is_default. destruct (sh_default sh) as [d|]; cbn; [|discriminate].
  intros H. apply Nat.eqb_eq in H. congruence.
Qed.

(* ------------------------------------------------------------------ *)
(* after latch + expire                                                *)
Definition PE (now : Z) (x : sel) : Prop :=
  let m := s_m x in
  clk m = now /\ s_tm x = now - start m /\ s_nss x <= s_tm x /\
  (engaged m = true -> start m <= now) /\
  (forall s, s_st x = Some s ->
     cur m = Some s /\ (ran (sdat m s) = true -> st_start (sdat m s) <= s_tm x)) /\
  (engaged m = true ->
     s_st x = cur m /\ nt_cur m = cur m /\ (forall s, cur m = Some s -> is_default sh s = false) /\
     (s_done x = true -> kept x)) /\
  (engaged m = false -> stopped m /\ s_st x = cur m).

Lemma expire_PE m now : wf_shape -> Inv m -> clk m <= now ->
  ok (s_ev (expire sh (latch (m <| clk := now |>) now) now)) ->
  PE now (expire sh (latch (m <| clk := now |>) now) now).
Proof.
  intros (Hw1 & Hw2 & Hw3 & Hw4) (Ha & Hb & Hc & Ht1 & Ht2) Hclk.
  set (mc := m <| clk := now |>).
  assert (Fe : engaged mc = engaged m) by reflexivity.
  assert (Fs : should mc = should m) by reflexivity.
  assert (Fc : cur mc = cur m) by reflexivity.
  assert (Fn : nt_cur mc = nt_cur m) by reflexivity.
  assert (Fst : start mc = start m) by reflexivity.
  assert (Fd : sdat mc = sdat m) by reflexivity.
  assert (Fk : clk mc = now) by reflexivity.
  destruct (engaged m) eqn:Ee.
  - (* E1: executing *)
    destruct (Ha eq_refl) as (s & Hcs & Hds & Hns). specialize (Ht1 eq_refl).
    assert (Hl : latch mc now = mc) by (unfold latch; rewrite Fe; reflexivity).
    rewrite Hl. intros Hok.
    destruct (expire_cases mc now Hok) as [Hn|[(s' & Hc' & Hk)|(s' & dc & Hc' & Hr & Hx & Hlk & Htd & Hnx)]].
    + rewrite Fc in Hn. congruence.
    + rewrite Fc, Hcs in Hc'. injection Hc' as <-.
      rewrite (expire_keep mc now s) by (rewrite ?Fc; auto). unfold PE, keep_sel. cbn -[Z.sub].
      rewrite Ee. split; [reflexivity|]. split; [reflexivity|]. split; [lia|]. split; [intros _; lia|].
      split; [|split].
      * intros s0 [= <-]. split; [exact Hcs|]. intros Hr. specialize (Ht2 s Hcs Hr). lia.
      * intros _. splits; try congruence;
        intros s0 Hs0; rewrite Hcs in Hs0; injection Hs0 as <-; exact Hds.
      * intros H; discriminate.
    + rewrite Fc, Hcs in Hc'. injection Hc' as <-.
      destruct Hnx as [(n & Hn & Hsn)|Hn].
      * rewrite (expire_next mc now s dc n) by auto. unfold PE. cbn -[Z.sub].
        rewrite Ee. rewrite Fd, Fst in *.
        split; [reflexivity|]. split; [reflexivity|]. split; [lia|]. split; [intros _; lia|].
        split; [|split].
        -- intros s0 [= <-]. split; [reflexivity|]. unfold upd. rewrite Nat.eqb_refl. cbn. discriminate.
        -- intros _. splits; try congruence; intros s0 [= <-]; eapply Hw3; eauto.
        -- intros H; discriminate.
      * rewrite (expire_last mc now s dc) by auto.
        destruct (should (done sh mc)) eqn:Esd; unfold PE; cbn -[Z.sub];
          rewrite ?done_engaged, ?done_start, ?done_clk, ?done_cur, ?done_nt, ?done_sdat, ?Fd, ?Fst in *.
        -- split; [reflexivity|]. split; [lia|]. split; [lia|]. split; [intros _; lia|].
           split; [|split].
           ++ intros s0 [= <-]. split; [reflexivity|]. unfold upd. rewrite Nat.eqb_refl. cbn. discriminate.
           ++ intros _. split; [reflexivity|]. split; [reflexivity|]. split.
              ** intros s0 [= <-]. exact Hw2.
              ** intros _. exists (sh_first sh). split; [reflexivity|]. cbn. rewrite Esd. reflexivity.
           ++ intros H; discriminate.
        -- split; [reflexivity|]. split; [reflexivity|]. split; [lia|]. split; [intros H; discriminate|].
           split; [|split].
           ++ intros s0 H. discriminate.
           ++ intros H. discriminate.
           ++ intros _. unfold stopped, cur_idle. rewrite ?done_cur, ?done_nt. auto.
  - destruct (should m) eqn:Es.
    + (* E2: engage() was called on a stopped machine; the clock origin is latched *)
      destruct (Hc eq_refl eq_refl) as (Hnc & Hcf).
      assert (Hl : latch mc now = mc <| start := now |> <| engaged := true |>)
        by (unfold latch; rewrite Fe, Fs; reflexivity).
      rewrite Hl. set (ml := mc <| start := now |> <| engaged := true |>). intros Hok.
      assert (Hk : expire sh ml now = keep_sel ml now (cur m)).
      { destruct (cur m) as [s|] eqn:Hcs.
        - apply expire_keep; [exact Hcs|]. left. destruct (Hcf s eq_refl) as [Hr _]. exact Hr.
        - apply expire_none. exact Hcs. }
      rewrite Hk. unfold PE, keep_sel. cbn -[Z.sub].
      split; [reflexivity|]. split; [reflexivity|]. split; [lia|]. split; [intros _; lia|].
      split; [|split].
      * intros s0 Hs0. split; [exact Hs0|]. destruct (Hcf s0 Hs0) as [Hr _]. congruence.
      * intros _. splits; try congruence;
        intros s0 Hs0; destruct (Hcf s0 Hs0) as [_ Hd]; exact Hd.
      * intros H; discriminate.
    + (* E3: idle *)
      destruct (Hb eq_refl eq_refl) as (Hci & Hnn).
      assert (Hl : latch mc now = mc) by (unfold latch; rewrite Fe, Fs; reflexivity).
      rewrite Hl. intros Hok.
      assert (Hk : expire sh mc now = keep_sel mc now (cur m)).
      { destruct (expire_cases mc now Hok) as [Hn|[(s' & Hc' & Hk)|(s' & dc & Hc' & Hr & Hx & Hlk & Htd & Hnx)]].
        - rewrite <- Fc, Hn. apply expire_none, Hn.
        - rewrite <- Fc, Hc'. apply expire_keep; auto.
        - exfalso. rewrite Fc in Hc'. destruct Hci as [Hci|(d & Hd & Hcd)]; [congruence|].
          rewrite Hcd in Hc'. injection Hc' as <-. rewrite (Hw4 d dc Hd Hlk) in Htd. discriminate. }
      rewrite Hk. unfold PE, keep_sel. cbn -[Z.sub]. rewrite Ee.
      split; [reflexivity|]. split; [reflexivity|]. split; [lia|]. split; [intros H; discriminate|].
      split; [|split].
      * intros s0 Hs0. split; [exact Hs0|]. intros Hr. specialize (Ht2 s0 Hs0 Hr). lia.
      * intros H; discriminate.
      * intros _. split; [|reflexivity]. split; assumption.
Qed.

(* ------------------------------------------------------------------ *)
(* after the selection phases                                          *)
Definition post_select (now : Z) (x : sel) : Prop :=
  let m := s_m x in
  clk m = now /\ s_tm x = now - start m /\ s_nss x <= s_tm x /\
  (engaged m = true -> start m <= now) /\
  match s_st x with
  | Some s =>
      cur m = Some s /\
      (engaged m = true -> is_default sh s = false /\ nt_cur m = Some s) /\
      (engaged m = false -> is_default sh s = true /\ nt_cur m = None) /\
      (ran (sdat m s) = true -> st_start (sdat m s) <= s_tm x)
  | None => engaged m = false /\ cur m = None /\ nt_cur m = None
  end.

Lemma select_post now x : PE now x -> post_select now (select sh x).
Proof.
  intros (Hk & Htm & Hnss & Hst & Hsome & He & Hne).
  destruct (kept_or_dropped x) as [HK|HD].
  - rewrite (select_kept x HK). destruct HK as (s & Hs & _).
    unfold post_select. rewrite Hs. destruct (Hsome s Hs) as [Hc Ht2].
    split; [exact Hk|]. split; [exact Htm|]. split; [exact Hnss|]. split; [exact Hst|].
    split; [exact Hc|]. split; [|split; [|exact Ht2]].
    + intros H. destruct (He H) as (_ & Hn & Hd & _). split; [apply Hd, Hc | congruence].
    + intros H. destruct (Hne H) as ((Hci & Hn) & _). split; [|exact Hn].
      destruct Hci as [Hci|(d & Hd & Hcd)]; [congruence|].
      rewrite Hc in Hcd. injection Hcd as ->. apply is_default_refl, Hd.
  - pose proof (select_dropped x HD) as Hsel. cbn zeta in Hsel.
    destruct Hsel as (Htm' & Hnss' & Hrest).
    (* the machine after the stop: not executing, stopped *)
    assert (Hstop : engaged (stop_m x) = false /\ stopped (stop_m x) /\
                    clk (stop_m x) = clk (s_m x) /\ start (stop_m x) = start (s_m x) /\
                    (forall s, cur (stop_m x) = Some s -> stop_m x = s_m x /\ s_st x = Some s)).
    { unfold stop_m. destruct (engaged (s_m x)) eqn:Ee.
      - destruct (s_done x) eqn:Esd; cbn.
        + exfalso. destruct (He eq_refl) as (_ & _ & _ & Hkept).
          eapply kept_not_dropped; [apply Hkept; reflexivity | exact HD].
        + rewrite done_engaged, done_clk, done_start. unfold stopped, cur_idle.
          rewrite done_cur, done_nt. splits; auto. intros s H; discriminate.
      - cbn. destruct (Hne eq_refl) as (Hs & Hsc). splits; auto.
        intros s H. split; [reflexivity | congruence]. }
    destruct Hstop as (Hse & (Hsci & Hsn) & Hsk & Hss & Hscur).
    unfold post_select. rewrite Htm', Hnss'.
    destruct (sh_default sh) as [d|] eqn:Hd.
    + destruct Hrest as (Hy & Hrest). rewrite Hy.
      destruct (is_some_eq (cur (stop_m x)) d) eqn:Eq.
      * destruct Hrest as (-> & _). apply is_some_eq_true in Eq.
        destruct (Hscur d Eq) as [Hsame Hsx]. rewrite Hsk, Hss.
        split; [exact Hk|]. split; [exact Htm|]. split; [exact Hnss|].
        split; [intros H; congruence|]. split; [exact Eq|].
        split; [intros H; congruence|].
        split; [intros _; split; [apply is_default_refl, Hd | exact Hsn]|].
        rewrite Hsame. apply (Hsome d Hsx).
      * destruct Hrest as (-> & _). cbn -[Z.sub]. rewrite Hsk, Hss.
        split; [exact Hk|]. split; [exact Htm|]. split; [exact Hnss|].
        split; [intros H; congruence|]. split; [reflexivity|].
        split; [intros H; congruence|].
        split; [intros _; split; [apply is_default_refl, Hd | exact Hsn]|].
        unfold upd. rewrite Nat.eqb_refl. cbn. discriminate.
    + destruct Hrest as (-> & -> & _). rewrite Hsk, Hss.
      split; [exact Hk|]. split; [exact Htm|]. split; [exact Hnss|].
      split; [intros H; congruence|]. split; [exact Hse|]. split; [|exact Hsn].
      destruct Hsci as [Hn|(d & Hd' & _)]; [exact Hn | congruence].
Qed.

(* ------------------------------------------------------------------ *)
(* the body of a state function                                        *)
Section Step.
Variable nested : sm -> Z -> sm * list event.
Hypothesis nested_inv : forall m now, Inv m -> ok (snd (nested m now)) ->
  Inv (fst (nested m now)) /\ should (fst (nested m now)) = false /\ nonneg (snd (nested m now)).

Lemma off_idle_ok m : ok (off_if_idle m) -> engaged m = true.
Proof. unfold off_if_idle. destruct (engaged m); auto. intros H. exfalso. eapply not_ok_off, H. Qed.
Lemma off_default_ok s : ok (off_if_default sh s) -> is_default sh s = false.
Proof. unfold off_if_default. destruct (is_default sh s); auto. intros H. exfalso. eapply not_ok_off, H. Qed.
Lemma off_idle_nonneg m : nonneg (off_if_idle m).
Proof. unfold off_if_idle. destruct (engaged m); repeat constructor. Qed.
Lemma off_default_nonneg s : nonneg (off_if_default sh s).
Proof. unfold off_if_default. destruct (is_default sh s); repeat constructor. Qed.

Lemma Q_next_state m n : Q m -> engaged m = true -> is_default sh n = false -> Q (next_state m n).
Proof.
  intros (Hr & Hs & Ht1 & Ht2) He Hd. unfold Q, running, stopped, timing.
  rewrite next_state_engaged, next_state_cur, next_state_nt, next_state_start, next_state_clk.
  split; [intros _; exists n; auto|]. split; [intros H; congruence|].
  split; [exact Ht1|]. intros s [= <-]. rewrite next_state_ran. discriminate.
Qed.

Lemma Q_done m : Q m -> Q (done sh m).
Proof.
  intros (Hr & Hs & Ht1 & Ht2). unfold Q, running, stopped, timing, cur_idle.
  rewrite done_engaged, done_cur, done_nt.
  split; [intros H; discriminate|]. split; [intros _; auto|].
  split; [intros H; discriminate | intros s H; discriminate].
Qed.

Lemma Inv_next_state m n : Q m -> engaged m = true -> is_default sh n = false -> Inv (next_state m n).
Proof.
  intros HQ He Hd. pose proof (Q_next_state m n HQ He Hd) as (Hr & Hs & Ht).
  unfold Inv.
  split; [exact Hr|]. rewrite next_state_engaged, He.
  split; [intros H; discriminate|]. split; [intros H; discriminate | exact Ht].
Qed.

Lemma Q_restore m b : Inv m -> should m = false -> Q (m <| should := b |>).
Proof.
  intros (Ha & Hb & Hc & Ht) Hs. unfold Q. split; [exact Ha|]. split; [|exact Ht].
  intros He. apply Hb; assumption.
Qed.

Lemma Inv_Q m : Inv m -> should m = false -> Q m.
Proof.
  intros (Ha & Hb & Hc & Ht) Hs. unfold Q. split; [exact Ha|]. split; [|exact Ht].
  intros He. apply Hb; assumption.
Qed.

Lemma run_actions_Q acts : forall m, Q m -> ok (snd (run_actions sh nested acts m)) ->
  Q (fst (run_actions sh nested acts m)) /\ nonneg (snd (run_actions sh nested acts m)).
Proof.
  induction acts as [|a r IH]; intros m HQ Hok; cbn [run_actions] in *.
  - split; [exact HQ | constructor].
  - destruct a as [n|n now'|].
    + destruct (is_state sh n); [|exfalso; eapply not_ok_err; exact Hok].
      specialize (IH (next_state m n)).
      destruct (run_actions sh nested r (next_state m n)) as [m' e]. cbn in *.
      apply ok_app in Hok. destruct Hok as [Hi Hok]. apply ok_app in Hok. destruct Hok as [Hd Hok].
      apply ok_cons in Hok. destruct Hok as [_ Hok].
      destruct (IH (Q_next_state m n HQ (off_idle_ok m Hi) (off_default_ok n Hd)) Hok) as [HQ' Hnn].
      split; [exact HQ'|].
      apply nonneg_app; split; [apply off_idle_nonneg|].
      apply nonneg_app; split; [apply off_default_nonneg|]. constructor; [exact I | exact Hnn].
    + destruct (is_state sh n); [|exfalso; eapply not_ok_err; exact Hok].
      pose proof (nested_inv (next_state m n) now') as Hn.
      destruct (nested (next_state m n) now') as [m1 e1].
      set (m1r := if engaged m1 then m1 <| should := should (next_state m n) |> else m1) in *.
      specialize (IH m1r). destruct (run_actions sh nested r m1r) as [m2 e2].
      cbn in *.
      apply ok_app in Hok. destruct Hok as [Hi Hok]. apply ok_app in Hok. destruct Hok as [Hd Hok].
      apply ok_cons in Hok. destruct Hok as [_ Hok]. apply ok_cons in Hok. destruct Hok as [_ Hok].
      apply ok_app in Hok. destruct Hok as [Hok1 Hok2].
      destruct (Hn (Inv_next_state m n HQ (off_idle_ok m Hi) (off_default_ok n Hd)) Hok1) as (HI1 & Hs1 & Hnn1).
      assert (HQr : Q m1r) by (unfold m1r; destruct (engaged m1); [apply Q_restore | apply Inv_Q]; assumption).
      destruct (IH HQr Hok2) as [HQ' Hnn2].
      split; [exact HQ'|].
      apply nonneg_app; split; [apply off_idle_nonneg|].
      apply nonneg_app; split; [apply off_default_nonneg|].
      constructor; [exact I|]. constructor; [exact I|]. apply nonneg_app; split; assumption.
    + specialize (IH (done sh m)).
      destruct (run_actions sh nested r (done sh m)) as [m' e]. cbn in *.
      apply ok_app in Hok. destruct Hok as [Hi Hok]. apply ok_cons in Hok. destruct Hok as [_ Hok].
      destruct (IH (Q_done m HQ) Hok) as [HQ' Hnn]. split; [exact HQ'|].
      apply nonneg_app; split; [apply off_idle_nonneg|]. constructor; [exact I | exact Hnn].
Qed.

Lemma back_ok m now : ok (if now <? clk m then [EvBack] else []) -> clk m <= now.
Proof.
  destruct (Z.ltb_spec now (clk m)) as [Hlt|Hge]; [|lia]. intros Hb. exfalso. eapply not_ok_back, Hb.
Qed.

Lemma nocall_nonneg t : Forall (nocall_ev) t -> nonneg t.
Proof. apply Forall_impl. intros []; cbn; tauto. Qed.

Lemma select_ok_expire x : ok (s_ev (select sh x)) -> ok (s_ev x).
Proof.
  intros Hokx. unfold select, fallback, stop_if_engaged in Hokx.
  repeat break_hyp Hokx; cbn in Hokx; rewrite ?deactivate_ev in Hokx;
    repeat (apply ok_app in Hokx; destruct Hokx as [Hokx _]); exact Hokx.
Qed.

Lemma exec_step_inv m now : wf_shape -> Inv m -> ok (snd (exec_step sh body nested m now)) ->
  Inv (fst (exec_step sh body nested m now)) /\ nonneg (snd (exec_step sh body nested m now)).
Proof.
  intros Hwf HI. unfold exec_step.
  assert (Hbn : nonneg (if now <? clk m then [EvBack] else [])) by (destruct (now <? clk m); repeat constructor).
  destruct (negb (engaged (m <| clk := now |>)) && negb (should (m <| clk := now |>)) && is_none (sh_default sh)) eqn:Eearly.
  - (* early return: nothing but the clock reading changes *)
    cbn [fst snd]. intros Hok. split; [|exact Hbn]. apply back_ok in Hok.
    cbn in Eearly. apply andb_true_iff in Eearly. destruct Eearly as [Ee _].
    apply andb_true_iff in Ee. destruct Ee as [Ee Es].
    apply negb_true_iff in Ee. apply negb_true_iff in Es.
    destruct HI as (Ha & Hb & Hc & Ht1 & Ht2). unfold Inv, running, stopped, timing, cur_idle in *. cbn.
    split; [intros H; congruence|]. split; [intros _ _; apply Hb; assumption|].
    split; [intros _ H; congruence|]. split; [intros H; congruence|].
    intros s Hs Hr. specialize (Ht2 s Hs Hr). lia.
  - set (x := select sh (expire sh (latch (m <| clk := now |>) now) now)).
    assert (Hxn : nonneg (s_ev x)) by (apply nocall_nonneg, select_nocall, expire_nocall).
    destruct (s_st x) as [s|] eqn:Est.
    + pose proof (enter_bk_frame sh (s_m x) s (s_nss x)) as Hf.
      pose proof (enter_bk_spec sh (s_m x) s (s_nss x)) as Hsp.
      destruct (enter_bk sh (s_m x) s (s_nss x)) as [[m1 init] bk]. cbn in Hf.
      destruct Hf as (Hfs & Hfe & Hfc & Hfst & Hfn & Hfk & _).
      match goal with |- context [run_actions sh nested ?a ?mm] =>
        pose proof (run_actions_Q a mm) as Hr;
        destruct (run_actions sh nested a mm) as [m2 e] end.
      cbn [fst snd] in *. intros Hok.
      apply ok_app in Hok. destruct Hok as [Hback Hok]. apply back_ok in Hback.
      apply ok_app in Hok. destruct Hok as [Hokx Hok].
      apply ok_app in Hok. destruct Hok as [_ Hok]. apply ok_cons in Hok. destruct Hok as [_ Hok].
      assert (HP : post_select now x)
        by (apply select_post, expire_PE; auto; apply select_ok_expire, Hokx).
      unfold post_select in HP. rewrite Est in HP.
      destruct HP as (Hk & Htm & Hnss & Hst & HP).
      destruct HP as (Hc & Hpe & Hpn & Hpt).
      destruct Hsp as (_ & Hran1 & Hoth & Hwas & Hnew).
      assert (Hstm : st_start (sdat m1 s) <= s_tm x).
      { destruct (ran (sdat (s_m x) s)) eqn:Er.
        - destruct (Hwas eq_refl) as [-> _]. apply Hpt. reflexivity.
        - destruct (Hnew eq_refl) as (-> & _). exact Hnss. }
      (* Q holds when the state function starts *)
      assert (HQ1 : Q (m1 <| ncall := S (ncall m1) |>)).
      { unfold Q, running, stopped, timing, cur_idle. cbn.
        rewrite Hfe, Hfc, Hfn, Hfst, Hfk, Hc.
        split; [intros He; exists s; destruct (Hpe He); auto|].
        split; [intros He; destruct (Hpn He) as [Hd Hn]; split;
                [right; exists s; split; [apply is_default_true, Hd | reflexivity] | exact Hn]|].
        split; [intros He; rewrite Hk; apply Hst, He|].
        intros s0 [= <-] _. rewrite Hk, <- Htm. exact Hstm. }
      destruct (Hr HQ1 Hok) as [HQ2 Hnn2].
      split.
      * apply Q_Inv; [|reflexivity]. exact HQ2.
      * apply nonneg_app; split; [exact Hbn|].
        apply nonneg_app; split; [exact Hxn|].
        apply nonneg_app; split.
        { destruct (ran (sdat (s_m x) s)).
          - destruct (Hwas eq_refl) as [_ ->]. constructor.
          - destruct (Hnew eq_refl) as (_ & _ & ->). repeat constructor. }
        constructor; [|exact Hnn2]. cbn. split; [lia|].
        intros He. rewrite Hfe in He. specialize (Hst He). lia.
    + intros Hok.
      assert (Hok' : ok (if now <? clk m then [EvBack] else []) /\ ok (s_ev x)).
      { destruct (s_done x); cbn [fst snd] in Hok; apply ok_app in Hok; destruct Hok as [H1 Hok];
          apply ok_app in Hok; destruct Hok as [H2 _]; auto. }
      destruct Hok' as [Hback Hokx]. apply back_ok in Hback.
      assert (HP : post_select now x)
        by (apply select_post, expire_PE; auto; apply select_ok_expire, Hokx).
      unfold post_select in HP. rewrite Est in HP.
      destruct HP as (Hk & Htm & Hnss & Hst & HP).
      destruct HP as (He & Hc & Hn).
      assert (HQ : forall mm, engaged mm = false -> cur mm = None -> nt_cur mm = None -> Inv (mm <| should := false |>)).
      { intros mm H1 H2 H3. unfold Inv, running, stopped, timing, cur_idle. cbn. rewrite H1, H2, H3.
        split; [intros H; discriminate|]. split; [intros _ _; auto|].
        split; [intros _ H; discriminate|]. split; [intros H; discriminate | intros s0 H; discriminate]. }
      destruct (s_done x); cbn [fst snd].
      * split; [apply HQ; assumption|].
        apply nonneg_app; split; [exact Hbn|]. apply nonneg_app; split; [exact Hxn | constructor].
      * split; [apply HQ; [apply done_engaged | apply done_cur | apply done_nt]|].
        apply nonneg_app; split; [exact Hbn|]. apply nonneg_app; split; [exact Hxn | repeat constructor].
Qed.
End Step.

Theorem exec_inv fuel : forall m now, wf_shape -> Inv m -> ok (snd (exec sh body fuel m now)) ->
  Inv (fst (exec sh body fuel m now)) /\ should (fst (exec sh body fuel m now)) = false
  /\ nonneg (snd (exec sh body fuel m now)).
Proof.
  induction fuel as [|f IH]; intros m now Hwf HI; cbn [exec].
  - cbn. intros H. exfalso. eapply not_ok_err, H.
  - intros Hok. destruct (exec_step_inv (exec sh body f) (fun m now => IH m now Hwf) m now Hwf HI Hok) as [H1 H2].
    split; [exact H1|]. split; [apply exec_step_should | exact H2].
Qed.

End P.
