(* C01/C04: the invariant over whole histories; stopping always goes through
   done(); a stopped machine runs nothing but its default state until engage();
   restart is fresh. *)
From Coq Require Import ZArith List Bool Lia.
From RecordUpdate Require Import RecordSet.
Import ListNotations RecordSetNotations.
From RV Require Import SM.Model SM.Basics SM.Engage SM.Invariants.
Open Scope Z_scope.

Section P.
Variable sh : shape.
Variable body : nat -> name -> Z -> Z -> bool -> list action.
Hypothesis Hwf : wf_shape sh.

Notation Inv := (Inv sh).

(* ------------------------------------------------------------------ *)
(* external operations preserve the invariant                          *)

Lemma engage_inv m i f : Inv m -> ok (snd (engage sh m i f)) -> Inv (fst (engage sh m i f)).
Proof.
  intros (Ha & Hb & Hc & Ht1 & Ht2). unfold engage.
  set (m' := m <| should := true |>).
  destruct (f || is_none (cur m') || at_default sh m') eqn:Econd.
  - set (s := match i with Some s => s | None => sh_first sh end).
    destruct (is_state sh s) eqn:Es; cbn [fst snd]; [|intros H; exfalso; eapply not_ok_err, H].
    intros Hok. apply ok_app in Hok. destruct Hok as [Hoff _].
    assert (Hd : is_default sh s = false).
    { destruct (is_default sh s); auto. exfalso. eapply not_ok_off, Hoff. }
    unfold Invariants.Inv, running, stopped, timing.
    rewrite next_state_engaged, next_state_cur, next_state_nt, next_state_start, next_state_clk, next_state_should.
    cbn [engaged should m' set].
    split; [intros _; exists s; auto|]. split; [intros _ H; discriminate|].
    split; [intros _ _; split; [reflexivity|]; intros s0 [= <-]; split; [apply next_state_ran | exact Hd]|].
    split; [exact Ht1|]. intros s0 [= <-]. rewrite next_state_ran. discriminate.
  - cbn [fst snd]. intros _.
    apply orb_false_iff in Econd. destruct Econd as [Econd Ead].
    apply orb_false_iff in Econd. destruct Econd as [_ Enone].
    unfold Invariants.Inv. cbn.
    split; [exact Ha|]. split; [intros _ H; discriminate|].
    split; [|split; [exact Ht1 | exact Ht2]].
    intros He _. destruct (should m) eqn:Esm.
    + apply Hc; auto.
    + exfalso. destruct (Hb He eq_refl) as ([Hn|(d & Hd & Hcd)] & _).
      * cbn in Enone. rewrite Hn in Enone. discriminate.
      * unfold at_default in Ead. cbn in Ead. rewrite Hcd, Hd, Nat.eqb_refl in Ead. discriminate.
Qed.

Lemma done_inv m : Inv m -> Inv (done sh m).
Proof.
  intros _. unfold Invariants.Inv, running, stopped, timing, cur_idle.
  rewrite done_engaged, done_cur, done_nt.
  split; [intros H; discriminate|]. split; [intros _ _; auto|].
  split; [intros _ _; split; [reflexivity | intros s H; discriminate]|].
  split; [intros H; discriminate | intros s H; discriminate].
Qed.

Lemma Inv_frame m m' : Inv m ->
  engaged m' = engaged m -> should m' = should m -> cur m' = cur m -> nt_cur m' = nt_cur m ->
  start m' = start m -> clk m' = clk m -> sdat m' = sdat m -> Inv m'.
Proof.
  intros HI E1 E2 E3 E4 E5 E6 E7. unfold Invariants.Inv, running, stopped, timing, cur_idle in *.
  rewrite E1, E2, E3, E4, E5, E6, E7. exact HI.
Qed.

Definition trace_of (es : list (list event)) : list event := concat es.

Lemma step_inv fuel m o : Inv m -> ok (snd (step sh body fuel m o)) ->
  Inv (fst (step sh body fuel m o)) /\ nonneg (snd (step sh body fuel m o)).
Proof.
  intros HI. destruct o; cbn [step].
  - intros Hok. split; [apply engage_inv; assumption|].
    unfold engage. repeat break_match; cbn; repeat constructor.
  - intros _. split; [apply done_inv, HI | repeat constructor].
  - intros _. split; [apply done_inv, HI | repeat constructor].
  - intros Hok. destruct (exec_inv sh body fuel m now Hwf HI Hok) as (H1 & _ & H3). auto.
  - intros _. split; [|constructor]. cbn. eapply Inv_frame; [exact HI|..]; reflexivity.
  - intros _. split; [|constructor]. cbn. eapply Inv_frame; [exact HI|..]; reflexivity.
  - destruct (auto_on m); [|intros _; split; [exact HI | constructor]].
    pose proof (engage_inv m None false HI) as He.
    assert (Hen : nonneg (snd (engage sh m None false))).
    { unfold engage. repeat break_match; cbn; repeat constructor. }
    destruct (engage sh m None false) as [m1 e1]. cbn [fst snd] in *.
    pose proof (exec_inv sh body fuel m1 now Hwf) as Hx.
    destruct (exec sh body fuel m1 now) as [m2 e2]. cbn [fst snd] in *.
    intros Hok. apply ok_app in Hok. destruct Hok as [Hok1 Hok2].
    destruct (Hx (He Hok1) Hok2) as (H1 & _ & H3).
    split; [|apply nonneg_app; split; assumption].
    eapply Inv_frame; [exact H1|..]; reflexivity.
  - intros _. split; [apply done_inv, HI | repeat constructor].
Qed.

(* every reachable state of every history inside the contract satisfies Inv,
   and tm / state_tm are never negative *)
Theorem run_inv fuel h : forall m, Inv m -> ok (trace_of (snd (run sh body fuel m h))) ->
  Inv (fst (run sh body fuel m h)) /\ nonneg (trace_of (snd (run sh body fuel m h))).
Proof.
  induction h as [|o r IH]; intros m HI; cbn [run].
  - intros _. split; [exact HI | constructor].
  - pose proof (step_inv fuel m o HI) as Hs.
    destruct (step sh body fuel m o) as [m1 e]. cbn [fst snd] in Hs.
    specialize (IH m1). destruct (run sh body fuel m1 r) as [m2 es]. cbn [fst snd trace_of concat] in *.
    intros Hok. apply ok_app in Hok. destruct Hok as [Hok1 Hok2].
    destruct (Hs Hok1) as [HI1 Hn1]. destruct (IH HI1 Hok2) as [HI2 Hn2].
    split; [exact HI2 | apply nonneg_app; split; assumption].
Qed.

(* ------------------------------------------------------------------ *)
(* stopping always goes through done()                                 *)

Definition drop_claim (m m' : sm) (ev : list event) : Prop :=
  In EvDone ev \/ (engaged m = true -> engaged m' = true).

Lemma drop_trans m1 m2 m3 e1 e2 :
  drop_claim m1 m2 e1 -> drop_claim m2 m3 e2 -> drop_claim m1 m3 (e1 ++ e2).
Proof.
  intros [H1|H1] [H2|H2]; unfold drop_claim; rewrite ?in_app_iff; auto.
Qed.
Lemma drop_refl m m' : engaged m' = engaged m -> drop_claim m m' [].
Proof. intros H. right. congruence. Qed.
Lemma drop_ev m m' ev ev' : drop_claim m m' ev -> (forall e, In e ev -> In e ev') -> drop_claim m m' ev'.
Proof. intros [H|H] Hs; [left; auto | right; auto]. Qed.

Lemma expire_drop m now : drop_claim m (s_m (expire sh m now)) (s_ev (expire sh m now)).
Proof.
  unfold expire, drop_claim. repeat break_match; cbn; auto.
Qed.

Lemma select_drop x : drop_claim (s_m x) (s_m (select sh x)) (s_ev (select sh x)) /\
  (forall e, In e (s_ev x) -> In e (s_ev (select sh x))).
Proof.
  unfold select, fallback, stop_if_engaged, drop_claim.
  repeat break_match; cbn; rewrite ?deactivate_m, ?deactivate_ev;
    (split; [|intros e; rewrite ?in_app_iff; auto]); rewrite ?in_app_iff; cbn; auto.
Qed.

Section Step.
Variable nested : sm -> Z -> sm * list event.
Hypothesis nested_drop : forall m now, drop_claim m (fst (nested m now)) (snd (nested m now)).

Lemma run_actions_drop acts : forall m,
  drop_claim m (fst (run_actions sh nested acts m)) (snd (run_actions sh nested acts m)).
Proof.
  induction acts as [|a r IH]; intros m; cbn [run_actions].
  - right. auto.
  - destruct a as [n|n now'|].
    + destruct (is_state sh n); [|right; auto].
      specialize (IH (next_state m n)).
      destruct (run_actions sh nested r (next_state m n)) as [m' e]. cbn [fst snd] in *.
      destruct IH as [H|H]; [left | right; exact H].
      rewrite !in_app_iff. right. right. right. exact H.
    + destruct (is_state sh n); [|right; auto].
      pose proof (nested_drop (next_state m n) now') as Hn.
      destruct (nested (next_state m n) now') as [m1 e1].
      match goal with |- context [run_actions sh nested r ?mm] =>
        specialize (IH mm); destruct (run_actions sh nested r mm) as [m2 e2] end.
      cbn [fst snd] in *.
      destruct Hn as [Hn|Hn]; [left; rewrite !in_app_iff; right; right; right; right; rewrite in_app_iff; auto|].
      destruct IH as [H|H]; [left; rewrite !in_app_iff; right; right; right; right; rewrite in_app_iff; auto|].
      right. intros He. apply H. specialize (Hn He). rewrite Hn. cbn. exact Hn.
    + specialize (IH (done sh m)).
      destruct (run_actions sh nested r (done sh m)) as [m' e]. cbn [fst snd].
      left. rewrite in_app_iff. right. left. reflexivity.
Qed.

Lemma exec_step_drop m now :
  drop_claim m (fst (exec_step sh body nested m now)) (snd (exec_step sh body nested m now)).
Proof.
  unfold exec_step.
  destruct (negb (engaged (m <| clk := now |>)) && negb (should (m <| clk := now |>)) && is_none (sh_default sh)).
  - right. auto.
  - set (m0 := latch (m <| clk := now |>) now).
    assert (H0 : drop_claim m m0 []).
    { right. unfold m0. rewrite latch_engaged. cbn. intros ->. reflexivity. }
    pose proof (expire_drop m0 now) as H1.
    set (x0 := expire sh m0 now) in *.
    destruct (select_drop x0) as [H2 Hsub].
    set (x := select sh x0) in *.
    assert (H012 : drop_claim m (s_m x) (s_ev x)).
    { pose proof (drop_trans _ _ _ _ _ H0 (drop_trans _ _ _ _ _ H1 H2)) as H. cbn in H.
      eapply drop_ev; [exact H|]. intros e. rewrite in_app_iff. intros [Hi|Hi]; auto. }
    destruct (s_st x) as [s|].
    + pose proof (enter_bk_frame sh (s_m x) s (s_nss x)) as Hf.
      destruct (enter_bk sh (s_m x) s (s_nss x)) as [[m1 init] bk]. cbn in Hf.
      destruct Hf as (_ & Hfe & _).
      match goal with |- context [run_actions sh nested ?a ?mm] =>
        pose proof (run_actions_drop a mm) as Hr;
        destruct (run_actions sh nested a mm) as [m2 e] end.
      cbn [fst snd] in *.
      assert (H3 : drop_claim (s_m x) m2 e).
      { destruct Hr as [Hr|Hr]; [left; exact Hr | right]. intros He. apply Hr. cbn. congruence. }
      pose proof (drop_trans _ _ _ _ _ H012 H3) as H.
      destruct H as [H|H]; [left | right; exact H].
      rewrite !in_app_iff in *. destruct H as [H|H]; auto. right. right. right. right. exact H.
    + destruct (s_done x); cbn [fst snd].
      * destruct H012 as [H|H]; [left; rewrite !in_app_iff; auto | right; exact H].
      * left. rewrite !in_app_iff. right. right. left. reflexivity.
Qed.
End Step.

Lemma exec_drop fuel : forall m now,
  drop_claim m (fst (exec sh body fuel m now)) (snd (exec sh body fuel m now)).
Proof.
  induction fuel as [|f IH]; intros m now; cbn [exec].
  - right. auto.
  - apply exec_step_drop. exact IH.
Qed.

(* whichever operation makes is_executing go from True to False, done() was invoked *)
Theorem stop_calls_done fuel m o :
  engaged m = true -> engaged (fst (step sh body fuel m o)) = false ->
  In EvDone (snd (step sh body fuel m o)).
Proof.
  intros He Hf. destruct o; cbn [step] in *.
  - exfalso. unfold engage in Hf. repeat break_hyp Hf; cbn in Hf; congruence.
  - left. reflexivity.
  - left. reflexivity.
  - destruct (exec_drop fuel m now) as [H|H]; [exact H | specialize (H He); congruence].
  - cbn in Hf. congruence.
  - cbn in Hf. congruence.
  - destruct (auto_on m); [|cbn in Hf; congruence].
    assert (He1 : engaged (fst (engage sh m None false)) = true).
    { unfold engage. repeat break_match; cbn; auto. }
    destruct (engage sh m None false) as [m1 e1]. cbn [fst] in He1.
    pose proof (exec_drop fuel m1 now) as Hd.
    destruct (exec sh body fuel m1 now) as [m2 e2]. cbn [fst snd] in *.
    rewrite in_app_iff. right. cbn in Hf. destruct Hd as [H|H]; [exact H | specialize (H He1); congruence].
  - left. reflexivity.
Qed.

(* ------------------------------------------------------------------ *)
(* a stopped machine                                                   *)

Definition Idle (m : sm) : Prop := Inv m /\ engaged m = false /\ should m = false.

Lemma run_actions_idle nested acts m : engaged m = false ->
  ok (snd (run_actions sh nested acts m)) -> run_actions sh nested acts m = (m, []).
Proof.
  intros He. destruct acts as [|a r]; [reflexivity|]. cbn [run_actions].
  assert (Hoff : off_if_idle m = [EvOff]) by (unfold off_if_idle; rewrite He; reflexivity).
  destruct a as [n|n now'|].
  - destruct (is_state sh n); [|intros H; exfalso; eapply not_ok_err, H].
    destruct (run_actions sh nested r (next_state m n)). cbn. rewrite Hoff.
    intros H. exfalso. eapply not_ok_off, H.
  - destruct (is_state sh n); [|intros H; exfalso; eapply not_ok_err, H].
    destruct (nested (next_state m n) now').
    match goal with |- context [run_actions sh nested r ?mm] => destruct (run_actions sh nested r mm) end.
    cbn. rewrite Hoff. intros H. exfalso. eapply not_ok_off, H.
  - destruct (run_actions sh nested r (done sh m)). cbn. rewrite Hoff.
    intros H. exfalso. eapply not_ok_off, H.
Qed.

Definition default_call_ev (e : event) : Prop :=
  match e with EvCall s _ _ _ eng => is_default sh s = true /\ eng = false | _ => True end.

(* engaged can only be raised by the latch (needs the request) or by the
   restart of a requested machine *)
Lemma select_expire_not_engaged_gen mc now : engaged mc = false -> should mc = false ->
  engaged (s_m (select sh (expire sh (latch mc now) now))) = false.
Proof.
  intros He Hs.
  assert (Hl : latch mc now = mc) by (unfold latch; rewrite He, Hs; reflexivity).
  rewrite Hl.
  assert (H1 : engaged (s_m (expire sh mc now)) = false).
  { unfold expire. repeat break_match; cbn; auto using done_engaged.
    exfalso. rewrite done_should in *. destruct (sh_auto sh); cbn in *; congruence. }
  unfold select, fallback, stop_if_engaged.
  repeat break_match; cbn; rewrite ?deactivate_m; auto using done_engaged.
Qed.
Lemma select_expire_not_engaged m now : engaged m = false -> should m = false ->
  engaged (s_m (select sh (expire sh (latch (m <| clk := now |>) now) now))) = false.
Proof. intros He Hs. apply select_expire_not_engaged_gen; cbn; assumption. Qed.

Lemma exec_step_idle nested m now : Idle m -> ok (snd (exec_step sh body nested m now)) ->
  Idle (fst (exec_step sh body nested m now)) /\
  Forall default_call_ev (snd (exec_step sh body nested m now)).
Proof.
  intros (HI & He & Hs) Hok.
  assert (Hnn : forall m' now', Invariants.Inv sh m' -> ok (snd ((fun m _ => (m, [EvErr])) m' now')) ->
     Invariants.Inv sh (fst ((fun (m : sm) (_ : Z) => (m, [EvErr])) m' now')) /\
     should (fst ((fun (m : sm) (_ : Z) => (m, [EvErr])) m' now')) = false /\
     nonneg (snd ((fun (m : sm) (_ : Z) => (m, [EvErr])) m' now'))).
  { intros m' now' _ H. exfalso. eapply not_ok_err, H. }
  revert Hok. unfold exec_step.
  assert (Hbd : Forall default_call_ev (if now <? clk m then [EvBack] else []))
    by (destruct (now <? clk m); repeat constructor).
  destruct (negb (engaged (m <| clk := now |>)) && negb (should (m <| clk := now |>)) && is_none (sh_default sh)) eqn:Eearly.
  - cbn [fst snd]. intros Hok. split; [|exact Hbd]. apply back_ok in Hok.
    split; [|split; [exact He | exact Hs]].
    destruct HI as (Ha & Hb & Hc & Ht1 & Ht2). unfold Invariants.Inv, running, stopped, timing, cur_idle in *. cbn.
    split; [intros H; congruence|]. split; [intros _ _; apply Hb; assumption|].
    split; [intros _ H; congruence|]. split; [intros H; congruence|].
    intros s Hcs Hr. specialize (Ht2 s Hcs Hr). lia.
  - set (x := select sh (expire sh (latch (m <| clk := now |>) now) now)).
    assert (Hex : engaged (s_m x) = false) by (apply select_expire_not_engaged; assumption).
    assert (Hxd : Forall default_call_ev (s_ev x)).
    { eapply Forall_impl; [|apply select_nocall, expire_nocall]. intros []; cbn; tauto. }
    destruct (s_st x) as [s|] eqn:Est.
    + pose proof (enter_bk_frame sh (s_m x) s (s_nss x)) as Hf.
      pose proof (enter_bk_spec sh (s_m x) s (s_nss x)) as Hsp.
      destruct (enter_bk sh (s_m x) s (s_nss x)) as [[m1 init] bk] eqn:Ebk. cbn in Hf.
      destruct Hf as (Hfs & Hfe & Hfc & Hfst & Hfn & Hfk & _).
      match goal with |- context [run_actions sh nested ?a ?mm] =>
        pose proof (run_actions_idle nested a mm) as Hr;
        destruct (run_actions sh nested a mm) as [m2 e] eqn:Era end.
      cbn [fst snd]. intros Hok.
      pose proof Hok as Hok0.
      apply ok_app in Hok. destruct Hok as [Hback Hok]. apply back_ok in Hback.
      apply ok_app in Hok. destruct Hok as [Hokx Hok].
      apply ok_app in Hok. destruct Hok as [_ Hok]. apply ok_cons in Hok. destruct Hok as [_ Hok].
      assert (Hm2 : (m2, e) = (m1 <| ncall := S (ncall m1) |>, [])).
      { apply Hr; [cbn; congruence | exact Hok]. }
      injection Hm2 as -> ->.
      assert (HP : post_select sh now x)
        by (apply (select_post sh), (expire_PE sh); auto; apply (select_ok_expire sh), Hokx).
      unfold post_select in HP. rewrite Est in HP.
      destruct HP as (Hk & Htm & Hnss & Hst & Hc & Hpe & Hpn & Hpt).
      destruct (Hpn Hex) as [Hds Hnt].
      split.
      * (* still idle; reuse the general invariant theorem for Inv *)
        pose proof (exec_step_inv sh body (fun m _ => (m, [EvErr])) Hnn m now Hwf HI) as Hgen.
        split; [|split].
        -- (* Inv: recompute directly *)
           destruct Hsp as (_ & Hran1 & Hoth & Hwas & Hnew).
           assert (Hstm : st_start (sdat m1 s) <= s_tm x).
           { destruct (ran (sdat (s_m x) s)) eqn:Er.
             - destruct (Hwas eq_refl) as [-> _]. apply Hpt. reflexivity.
             - destruct (Hnew eq_refl) as (-> & _). exact Hnss. }
           unfold Invariants.Inv, running, stopped, timing, cur_idle. cbn.
           rewrite Hfe, Hfc, Hfn, Hfst, Hfk, Hc, Hex, Hnt.
           split; [intros H; discriminate|].
           split; [intros _ _; split; [right; exists s; split; [apply is_default_true, Hds | reflexivity] | reflexivity]|].
           split; [intros _ H; discriminate|]. split; [intros H; discriminate|].
           intros s0 [= <-] _. rewrite Hk, <- Htm. exact Hstm.
        -- cbn. congruence.
        -- reflexivity.
      * apply Forall_app; split; [exact Hbd|]. apply Forall_app; split; [exact Hxd|].
        apply Forall_app; split.
        { destruct Hsp as (_ & _ & _ & Hwas & Hnew). destruct (ran (sdat (s_m x) s)).
          - destruct (Hwas eq_refl) as [_ ->]. constructor.
          - destruct (Hnew eq_refl) as (_ & _ & ->). repeat constructor. }
        constructor; [|constructor]. cbn. split; [exact Hds | congruence].
    + intros Hok.
      assert (Hok' : ok (if now <? clk m then [EvBack] else []) /\ ok (s_ev x)).
      { destruct (s_done x); cbn [fst snd] in Hok; apply ok_app in Hok; destruct Hok as [H1 Hok];
          apply ok_app in Hok; destruct Hok as [H2 _]; auto. }
      destruct Hok' as [Hback Hokx]. apply back_ok in Hback.
      assert (HP : post_select sh now x)
        by (apply (select_post sh), (expire_PE sh); auto; apply (select_ok_expire sh), Hokx).
      unfold post_select in HP. rewrite Est in HP.
      destruct HP as (Hk & Htm & Hnss & Hst & He' & Hc & Hn).
      assert (HQ : forall mm, engaged mm = false -> cur mm = None -> nt_cur mm = None -> Idle (mm <| should := false |>)).
      { intros mm H1 H2 H3. split; [|split; [exact H1 | reflexivity]].
        unfold Invariants.Inv, running, stopped, timing, cur_idle. cbn. rewrite H1, H2, H3.
        split; [intros H; discriminate|]. split; [intros _ _; auto|].
        split; [intros _ H; discriminate|]. split; [intros H; discriminate | intros s0 H; discriminate]. }
      destruct (s_done x); cbn [fst snd].
      * split; [apply HQ; assumption|].
        apply Forall_app; split; [exact Hbd|]. apply Forall_app; split; [exact Hxd | constructor].
      * split; [apply HQ; [apply done_engaged | apply done_cur | apply done_nt]|].
        apply Forall_app; split; [exact Hbd|]. apply Forall_app; split; [exact Hxd | repeat constructor].
Qed.

Theorem exec_idle fuel m now : Idle m -> ok (snd (exec sh body (S fuel) m now)) ->
  Idle (fst (exec sh body (S fuel) m now)) /\ Forall default_call_ev (snd (exec sh body (S fuel) m now)).
Proof. cbn [exec]. apply exec_step_idle. Qed.

(* operations other than engage() (and the autonomous wrappers) *)
Definition no_engage_op (o : op) : bool :=
  match o with Done | OnDisable | Execute _ | SetDuration _ _ => true | _ => false end.

(* ... until engage() is called again: for EVERY continuation without engage() *)
Theorem idle_until_engage fuel h : forall m, Idle m -> forallb no_engage_op h = true ->
  ok (trace_of (snd (run sh body (S fuel) m h))) ->
  Idle (fst (run sh body (S fuel) m h)) /\
  Forall default_call_ev (trace_of (snd (run sh body (S fuel) m h))).
Proof.
  induction h as [|o r IH]; intros m HI Hp; cbn [run].
  - intros _. split; [exact HI | constructor].
  - cbn [forallb] in Hp. apply andb_true_iff in Hp. destruct Hp as [Ho Hr].
    assert (Hs : ok (snd (step sh body (S fuel) m o)) ->
                 Idle (fst (step sh body (S fuel) m o)) /\ Forall default_call_ev (snd (step sh body (S fuel) m o))).
    { destruct o; try discriminate; cbn [step].
      - intros _. destruct HI as (HI & He & Hs). split; [|repeat constructor].
        split; [apply done_inv, HI|]. split; [apply done_engaged|]. cbn [fst].
        rewrite done_should, Hs. destruct (sh_auto sh); reflexivity.
      - intros _. destruct HI as (HI & He & Hs). split; [|repeat constructor].
        split; [apply done_inv, HI|]. split; [apply done_engaged|]. cbn [fst].
        rewrite done_should, Hs. destruct (sh_auto sh); reflexivity.
      - apply exec_idle, HI.
      - intros _. destruct HI as (HI & He & Hs). split; [|constructor].
        split; [eapply Inv_frame; [exact HI|..]; reflexivity|]. split; [exact He | exact Hs]. }
    destruct (step sh body (S fuel) m o) as [m1 e]. cbn [fst snd] in Hs.
    specialize (IH m1). destruct (run sh body (S fuel) m1 r) as [m2 es]. cbn [fst snd trace_of concat] in *.
    intros Hok. apply ok_app in Hok. destruct Hok as [Hok1 Hok2].
    destruct (Hs Hok1) as [HI1 Hd1]. destruct (IH HI1 Hr Hok2) as [HI2 Hd2].
    split; [exact HI2 | apply Forall_app; split; assumption].
Qed.

End P.
