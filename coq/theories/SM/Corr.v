(* Correspondence harness, Coq side: runs the model on a generated case and
   compares with the observations recorded on the implementation.
   No proofs in this file. *)
From Coq Require Import ZArith List Bool.
From RV Require Import SM.Model.
Import ListNotations.
Open Scope Z_scope.

(* what a test subclass can observe *)
Inductive oev :=
| OCall (s : name) (tm stm : option Z) (init : option bool) (eng : bool)
    (* values received by the declared parameters only *)
| OEnter (s : name)
| ODone
| OErr.

Record case := {
  c_shape : shape;
  c_durs : list (name * Z);
  c_scripts : list (list action);           (* actions of the k-th state-function invocation *)
  c_hist : list op;
  c_obs : list (list oev * bool * option name)  (* per op: events, is_executing, current_state *)
}.

Definition durs_of (l : list (name * Z)) : name -> Z :=
  fun s => match find (fun p => Nat.eqb (fst p) s) l with Some p => snd p | None => 0 end.

Definition body_of (scripts : list (list action)) : nat -> name -> Z -> Z -> bool -> list action :=
  fun k _ _ _ _ => nth k scripts [].

Definition optZ_ok (o : option Z) (z : Z) : bool := match o with Some x => Z.eqb x z | None => true end.
Definition optb_ok (o : option bool) (b : bool) : bool := match o with Some x => Bool.eqb x b | None => true end.

(* tm of a default-state call outside an engagement is left open by the property (C03) *)
Definition match_ev (sh : shape) (o : oev) (e : event) : bool :=
  match o, e with
  | OCall s otm ostm oinit oeng, EvCall s' tm stm init eng =>
      Nat.eqb s s' && Bool.eqb oeng eng
      && (if is_default sh s && negb eng then true else optZ_ok otm tm)
      && optZ_ok ostm stm && optb_ok oinit init
  | OEnter s, EvEnter s' => Nat.eqb s s'
  | ODone, EvDone => true
  | OErr, EvErr => true
  | _, _ => false
  end.

Fixpoint match_evs (sh : shape) (os : list oev) (es : list event) : bool :=
  match os, es with
  | [], [] => true
  | o :: os', e :: es' => match_ev sh o e && match_evs sh os' es'
  | _, _ => false
  end.

Definition opt_name_eqb (a b : option name) : bool :=
  match a, b with Some x, Some y => Nat.eqb x y | None, None => true | _, _ => false end.

Definition fuel0 : nat := 48.

(* step through the history, comparing after every operation *)
Fixpoint check_run (sh : shape) (body : nat -> name -> Z -> Z -> bool -> list action)
  (m : sm) (h : list op) (obs : list (list oev * bool * option name)) : bool :=
  match h, obs with
  | [], [] => true
  | o :: h', (oe, oexec, ocur) :: obs' =>
      let '(m1, es) := step sh body fuel0 m o in
      match_evs sh oe (filter observable es)
      && Bool.eqb oexec (engaged m1) && opt_name_eqb ocur (nt_cur m1)
      && (* an exception ends the history on both sides *)
         (if existsb (fun e => match e with EvErr => true | _ => false end) es then true
          else check_run sh body m1 h' obs')
  | _, _ => false
  end.

Definition check_case (c : case) : bool :=
  check_run (c_shape c) (body_of (c_scripts c)) (init_sm (durs_of (c_durs c))) (c_hist c) (c_obs c).

Fixpoint bad_from (i : nat) (l : list case) : list nat :=
  match l with
  | [] => []
  | c :: r => if check_case c then bad_from (S i) r else i :: bad_from (S i) r
  end.
Definition bad_indices (l : list case) : list nat := bad_from 0 l.

(* the model's own trace, for reports *)
Definition model_trace (c : case) : list (list event) :=
  snd (run (c_shape c) (body_of (c_scripts c)) fuel0 (init_sm (durs_of (c_durs c))) (c_hist c)).
