(* Boolean versions of the side conditions (usage contract, well-formed shape),
   with soundness lemmas, so that concrete instances can be discharged by
   vm_compute; and In-style readings of the Forall-style results. *)
From Coq Require Import ZArith List Bool Lia.
From RecordUpdate Require Import RecordSet.
Import ListNotations RecordSetNotations.
From RV Require Import SM.Model SM.Basics SM.Engage SM.Invariants SM.Stop.
Open Scope Z_scope.

Definition okevb (e : event) : bool :=
  match e with EvErr | EvOff | EvBack => false | _ => true end.
Definition okb (t : list event) : bool := forallb okevb t.

Lemma okb_ok t : okb t = true -> ok t.
Proof.
  unfold okb, ok. rewrite forallb_forall, Forall_forall. intros H e Hin.
  specialize (H e Hin). destruct e; cbn in *; auto; discriminate.
Qed.

Definition wf_shapeb (sh : shape) : bool :=
  is_state sh (sh_first sh) && negb (is_default sh (sh_first sh))
  && forallb (fun p => match d_next (snd p) with Some n => negb (is_default sh n) | None => true end) (sh_states sh)
  && match sh_default sh with
     | Some d => match lookup sh d with Some dc => negb (d_timed dc) | None => true end
     | None => true
     end.

Lemma lookup_in sh s d : lookup sh s = Some d -> exists s', In (s', d) (sh_states sh).
Proof.
  unfold lookup. destruct (find _ _) as [[s' d']|] eqn:E; cbn; [|discriminate].
  intros [= <-]. apply find_some in E. exists s'. tauto.
Qed.

Lemma wf_shapeb_sound sh : wf_shapeb sh = true -> wf_shape sh.
Proof.
  unfold wf_shapeb, wf_shape. rewrite !andb_true_iff. intros [[[H1 H2] H3] H4].
  split; [exact H1|]. split; [apply negb_true_iff, H2|]. split.
  - intros s d n Hl Hn. destruct (lookup_in sh s d Hl) as [s' Hin].
    rewrite forallb_forall in H3. specialize (H3 _ Hin). cbn in H3. rewrite Hn in H3.
    apply negb_true_iff, H3.
  - intros d dc Hd Hl. rewrite Hd, Hl in H4. apply negb_true_iff, H4.
Qed.

(* In-style readings *)
Lemma quiet_in sh t : quiet sh t ->
  forall s tm stm i e, In (EvCall s tm stm i e) t -> is_regular sh s = false.
Proof. unfold quiet. rewrite Forall_forall. intros H s tm stm i e Hin. exact (H _ Hin). Qed.

Lemma nonneg_in t : nonneg t ->
  forall s tm stm i e, In (EvCall s tm stm i e) t -> 0 <= stm /\ (e = true -> 0 <= tm).
Proof. unfold nonneg. rewrite Forall_forall. intros H s tm stm i e Hin. exact (H _ Hin). Qed.

Lemma default_calls_in sh t : Forall (default_call_ev sh) t ->
  forall s tm stm i e, In (EvCall s tm stm i e) t -> is_default sh s = true /\ e = false.
Proof. rewrite Forall_forall. intros H s tm stm i e Hin. exact (H _ Hin). Qed.

(* done() / on_disable(): the machine is stopped at once *)
Lemma done_stops_now sh m :
  engaged (done sh m) = false /\ cur (done sh m) = None /\ nt_cur (done sh m) = None.
Proof. rewrite done_engaged, done_cur, done_nt. auto. Qed.
