(* C03: the call adapter, and initial_call = "first call since the state was
   entered", for every history (no usage contract needed). *)
From Coq Require Import ZArith List Bool Lia.
From RecordUpdate Require Import RecordSet.
Import ListNotations RecordSetNotations.
From RV Require Import SM.Model SM.Basics.
Open Scope Z_scope.

(* ---- the adapter ---------------------------------------------------- *)
Lemma adapter_nth ps tm stm init i p :
  nth_error ps i = Some p ->
  nth_error (adapter ps tm stm init) i = Some (arg_value tm stm init p).
Proof. intros H. unfold adapter. rewrite nth_error_map, H. reflexivity. Qed.

Lemma adapter_length ps tm stm init : length (adapter ps tm stm init) = length ps.
Proof. apply map_length. Qed.

(* all 16 duplicate-free ordered subsets of the three optional parameters *)
Definition all_param_orders : list (list param) :=
  [ []; [PTm]; [PStateTm]; [PInitial];
    [PTm; PStateTm]; [PTm; PInitial]; [PStateTm; PTm]; [PStateTm; PInitial];
    [PInitial; PTm]; [PInitial; PStateTm];
    [PTm; PStateTm; PInitial]; [PTm; PInitial; PStateTm]; [PStateTm; PTm; PInitial];
    [PStateTm; PInitial; PTm]; [PInitial; PTm; PStateTm]; [PInitial; PStateTm; PTm] ].

(* ---- initial_call --------------------------------------------------- *)
(* the reference: per state, "entered since its last call" *)
Definition pending := name -> bool.

Definition ref_step (r : pending) (e : event) : option pending :=
  match e with
  | EvEnter s => Some (upd r s true)            (* next_state(s): by engage, a body, expiry, restart *)
  | EvFallback s => Some (upd r s true)         (* the default state takes over *)
  | EvCall s _ _ init _ => if Bool.eqb init (r s) then Some (upd r s false) else None
  | _ => Some r
  end.

Fixpoint ref_run (r : pending) (t : list event) : option pending :=
  match t with
  | [] => Some r
  | e :: t' => match ref_step r e with Some r' => ref_run r' t' | None => None end
  end.

(* [accepts r t r']: every call in t has initial_call = "pending", ending in r' *)
Definition accepts (r : pending) (t : list event) (r' : pending) : Prop := ref_run r t = Some r'.

Lemma accepts_app r a b r1 r2 : accepts r a r1 -> accepts r1 b r2 -> accepts r (a ++ b) r2.
Proof.
  revert r. induction a as [|e a IH]; intros r; cbn.
  - intros [= ->]. auto.
  - unfold accepts in *. cbn. destruct (ref_step r e); [apply IH | discriminate].
Qed.
Lemma accepts_nil r : accepts r [] r. Proof. reflexivity. Qed.

Definition agree (r : pending) (m : sm) : Prop := forall s, r s = negb (ran (sdat m s)).

Lemma agree_ext r m m' : agree r m -> sdat m' = sdat m -> agree r m'.
Proof. intros H E s. rewrite E. apply H. Qed.

Section P.
Variable sh : shape.
Variable body : nat -> name -> Z -> Z -> bool -> list action.

Lemma agree_next_state r m n : agree r m -> agree (upd r n true) (next_state m n).
Proof.
  intros H s. unfold next_state, upd. cbn. destruct (Nat.eqb s n); [reflexivity | apply H].
Qed.
Lemma agree_done r m : agree r m -> agree r (done sh m).
Proof. intros H. eapply agree_ext; [exact H | apply done_sdat]. Qed.

Lemma engage_accepts r m i f : agree r m ->
  exists r', accepts r (snd (engage sh m i f)) r' /\ agree r' (fst (engage sh m i f)).
Proof.
  intros H. unfold engage.
  destruct (f || is_none (cur (m <| should := true |>)) || at_default sh (m <| should := true |>));
    [|exists r; split; [reflexivity | intros s; apply H]].
  set (s := match i with Some s => s | None => sh_first sh end).
  destruct (is_state sh s); [|exists r; split; [reflexivity | intros s0; apply H]].
  cbn [fst snd]. exists (upd r s true).
  split; [destruct (is_default sh s); reflexivity | apply agree_next_state; intros s0; apply H].
Qed.

Lemma expire_accepts r m now : agree r m ->
  exists r', accepts r (s_ev (expire sh m now)) r' /\ agree r' (s_m (expire sh m now)).
Proof.
  intros H. unfold expire. repeat break_match; cbn [s_ev s_m];
    try (exists r; split; [reflexivity | first [exact H | apply agree_done, H]]).
  - eexists. split; [reflexivity|]. apply agree_next_state, H.
  - eexists. split; [reflexivity|]. apply agree_next_state.
    intros s0. cbn. rewrite done_sdat. apply H.
Qed.

Lemma stop_accepts r0 r x : agree r (s_m x) -> accepts r0 (s_ev x) r ->
  accepts r0 (s_ev (stop_if_engaged sh x)) r /\ agree r (s_m (stop_if_engaged sh x)).
Proof.
  intros H Ha. unfold stop_if_engaged. destruct (s_st x); [auto|].
  destruct (engaged (s_m x) && negb (s_done x)); [|auto]. cbn [s_ev s_m set].
  split; [eapply accepts_app; [exact Ha | reflexivity] | apply agree_done, H].
Qed.

Lemma fallback_accepts r0 r x : agree r (s_m x) -> accepts r0 (s_ev x) r ->
  exists r', accepts r0 (s_ev (fallback sh x)) r' /\ agree r' (s_m (fallback sh x)).
Proof.
  intros H Ha. unfold fallback. destruct (s_st x); [eauto|].
  destruct (sh_default sh) as [d|]; [|eauto].
  destruct (is_some_eq (cur (s_m x)) d); cbn [s_ev s_m set]; [eauto|].
  exists (upd r d true). split; [eapply accepts_app; [exact Ha | reflexivity]|].
  intros s0. cbn. unfold upd. destruct (Nat.eqb s0 d); [reflexivity | apply H].
Qed.

Lemma select_accepts r0 r x : agree r (s_m x) -> accepts r0 (s_ev x) r ->
  exists r', accepts r0 (s_ev (select sh x)) r' /\ agree r' (s_m (select sh x)).
Proof.
  intros H Ha. unfold select.
  assert (H1 : agree r (s_m (deactivate sh x))) by (rewrite deactivate_m; exact H).
  assert (Ha1 : accepts r0 (s_ev (deactivate sh x)) r) by (rewrite deactivate_ev; exact Ha).
  destruct (stop_accepts r0 r _ H1 Ha1) as [Ha2 H2].
  eapply fallback_accepts; eassumption.
Qed.

Section Step.
Variable nested : sm -> Z -> sm * list event.
Hypothesis nested_accepts : forall r m now, agree r m ->
  exists r', accepts r (snd (nested m now)) r' /\ agree r' (fst (nested m now)).

Lemma off_idle_accepts r m : accepts r (off_if_idle m) r.
Proof. unfold off_if_idle. destruct (engaged m); reflexivity. Qed.
Lemma off_default_accepts r s : accepts r (off_if_default sh s) r.
Proof. unfold off_if_default. destruct (is_default sh s); reflexivity. Qed.

Lemma run_actions_accepts acts : forall r m, agree r m ->
  exists r', accepts r (snd (run_actions sh nested acts m)) r' /\ agree r' (fst (run_actions sh nested acts m)).
Proof.
  induction acts as [|a rest IH]; intros r m H; cbn [run_actions].
  - exists r. split; [reflexivity | exact H].
  - destruct a as [n|n now'|].
    + destruct (is_state sh n); [|exists r; split; [reflexivity | exact H]].
      destruct (IH _ _ (agree_next_state r m n H)) as (r' & Ha & Hg).
      destruct (run_actions sh nested rest (next_state m n)) as [m' e]. cbn [fst snd] in *.
      exists r'. split; [|exact Hg].
      eapply accepts_app; [apply off_idle_accepts|].
      eapply accepts_app; [apply off_default_accepts|]. exact Ha.
    + destruct (is_state sh n); [|exists r; split; [reflexivity | exact H]].
      destruct (nested_accepts _ _ now' (agree_next_state r m n H)) as (r1 & Ha1 & Hg1).
      destruct (nested (next_state m n) now') as [m1 e1]. cbn [fst snd] in *.
      set (m1r := if engaged m1 then m1 <| should := should (next_state m n) |> else m1).
      assert (Hg1' : agree r1 m1r) by (unfold m1r; destruct (engaged m1); intros s; apply Hg1).
      destruct (IH _ _ Hg1') as (r2 & Ha2 & Hg2).
      destruct (run_actions sh nested rest m1r) as [m2 e2].
      cbn [fst snd] in *. exists r2. split; [|exact Hg2].
      eapply accepts_app; [apply off_idle_accepts|].
      eapply accepts_app; [apply off_default_accepts|].
      change (EvNow :: EvEnter n :: e1 ++ e2) with ([EvNow; EvEnter n] ++ e1 ++ e2).
      eapply accepts_app; [reflexivity|]. eapply accepts_app; eassumption.
    + destruct (IH _ _ (agree_done r m H)) as (r' & Ha & Hg).
      destruct (run_actions sh nested rest (done sh m)) as [m' e]. cbn [fst snd] in *.
      exists r'. split; [|exact Hg].
      eapply accepts_app; [apply off_idle_accepts|]. exact Ha.
Qed.

Lemma exec_step_accepts r m now : agree r m ->
  exists r', accepts r (snd (exec_step sh body nested m now)) r' /\
             agree r' (fst (exec_step sh body nested m now)).
Proof.
  intros H. unfold exec_step.
  assert (Hb : accepts r (if now <? clk m then [EvBack] else []) r) by (destruct (now <? clk m); reflexivity).
  destruct (negb (engaged (m <| clk := now |>)) && negb (should (m <| clk := now |>)) && is_none (sh_default sh)).
  - exists r. split; [exact Hb | intros s; apply H].
  - assert (H0 : agree r (latch (m <| clk := now |>) now)).
    { intros s. rewrite latch_sdat. apply H. }
    destruct (expire_accepts r _ now H0) as (r1 & Ha1 & Hg1).
    destruct (select_accepts r r1 _ Hg1 Ha1) as (r2 & Ha2 & Hg2).
    set (x := select sh (expire sh (latch (m <| clk := now |>) now) now)) in *.
    destruct (s_st x) as [s|].
    + pose proof (enter_bk_spec sh (s_m x) s (s_nss x)) as Hsp.
      destruct (enter_bk sh (s_m x) s (s_nss x)) as [[m1 init] bk].
      destruct Hsp as (Hinit & Hran1 & Hoth & Hwas & Hnew).
      assert (Hg3 : agree (upd r2 s false) (m1 <| ncall := S (ncall m1) |>)).
      { intros s0. cbn. unfold upd. destruct (Nat.eqb_spec s0 s) as [->|Hne].
        - rewrite Hran1. reflexivity.
        - rewrite Hoth by exact Hne. apply Hg2. }
      destruct (run_actions_accepts (body (ncall m1) s (s_tm x) (s_tm x - st_start (sdat m1 s)) init) _ _ Hg3)
        as (r4 & Ha4 & Hg4).
      match goal with |- context [run_actions sh nested ?a ?mm] =>
        destruct (run_actions sh nested a mm) as [m2 e] end.
      cbn [fst snd] in *. exists r4. split; [|intros s0; apply Hg4].
      eapply accepts_app; [exact Hb|]. eapply accepts_app; [exact Ha2|].
      assert (Hbk : accepts r2 bk r2).
      { destruct (ran (sdat (s_m x) s)).
        - destruct (Hwas eq_refl) as [_ ->]. reflexivity.
        - destruct (Hnew eq_refl) as (_ & _ & ->). reflexivity. }
      eapply accepts_app; [exact Hbk|].
      unfold accepts. cbn [ref_run ref_step].
      rewrite Hinit, (Hg2 s), Bool.eqb_reflx. exact Ha4.
    + destruct (s_done x); cbn [fst snd].
      * exists r2. split; [|intros s0; apply Hg2].
        eapply accepts_app; [exact Hb|]. rewrite app_nil_r. exact Ha2.
      * exists r2. split; [|intros s0; cbn; rewrite done_sdat; apply Hg2].
        eapply accepts_app; [exact Hb|]. eapply accepts_app; [exact Ha2 | reflexivity].
Qed.
End Step.

Lemma exec_accepts fuel : forall r m now, agree r m ->
  exists r', accepts r (snd (exec sh body fuel m now)) r' /\ agree r' (fst (exec sh body fuel m now)).
Proof.
  induction fuel as [|f IH]; intros r m now H; cbn [exec].
  - exists r. split; [reflexivity | exact H].
  - apply exec_step_accepts; assumption.
Qed.

Lemma step_accepts fuel r m o : agree r m ->
  exists r', accepts r (snd (step sh body fuel m o)) r' /\ agree r' (fst (step sh body fuel m o)).
Proof.
  intros H. destruct o; cbn [step].
  - apply engage_accepts, H.
  - exists r. split; [reflexivity | apply agree_done, H].
  - exists r. split; [reflexivity | apply agree_done, H].
  - apply exec_accepts, H.
  - exists r. split; [reflexivity | intros s0; apply H].
  - exists r. split; [reflexivity | intros s0; apply H].
  - destruct (auto_on m); [|exists r; split; [reflexivity | exact H]].
    destruct (engage_accepts r m None false H) as (r1 & Ha1 & Hg1).
    destruct (engage sh m None false) as [m1 e1]. cbn [fst snd] in *.
    destruct (exec_accepts fuel r1 m1 now Hg1) as (r2 & Ha2 & Hg2).
    destruct (exec sh body fuel m1 now) as [m2 e2]. cbn [fst snd] in *.
    exists r2. split; [eapply accepts_app; eassumption | intros s0; apply Hg2].
  - exists r. split; [reflexivity | apply agree_done, H].
Qed.

(* over whole histories: every initial_call ever passed is "first call since the
   state was entered" *)
Theorem run_accepts fuel h : forall r m, agree r m ->
  exists r', accepts r (concat (snd (run sh body fuel m h))) r' /\ agree r' (fst (run sh body fuel m h)).
Proof.
  induction h as [|o rest IH]; intros r m H; cbn [run].
  - exists r. split; [reflexivity | exact H].
  - destruct (step_accepts fuel r m o H) as (r1 & Ha1 & Hg1).
    destruct (step sh body fuel m o) as [m1 e]. cbn [fst snd] in *.
    destruct (IH r1 m1 Hg1) as (r2 & Ha2 & Hg2).
    destruct (run sh body fuel m1 rest) as [m2 es]. cbn [fst snd concat] in *.
    exists r2. split; [eapply accepts_app; eassumption | exact Hg2].
Qed.

Lemma agree_init durs : agree (fun _ => true) (init_sm durs).
Proof. intros s. reflexivity. Qed.

End P.
