(* Model of robotpy_ext/common_drivers/units.py, xl_max_sonar_ez.py and
   pressure_sensors.py over exact rationals.  No proofs in this file.

   Numbers are Q (equality is Qeq, written ==).  Float arithmetic is idealised
   as exact; a float literal of the source (0.3048, 0.000147, 0.0049, 0.00001,
   0.004, 0.1) is read as the decimal fraction that is written there. *)
From Coq Require Import QArith List Bool PeanoNat.
Import ListNotations.
Open Scope Q_scope.

(* ------------------------------------------------------------------ *)
(* Outcomes of a Python call *)

Inductive exn :=
| ZeroDivisionError
| NoSuchUnit.            (* model only: a unit id that is not in the table *)

Inductive outcome (A : Type) :=
| Val (a : A)
| Raise (e : exn)
| Loops.                 (* `while current_unit.base_unit is not None` never ends *)
Arguments Val {A} a.
Arguments Raise {A} e.
Arguments Loops {A}.

(* ------------------------------------------------------------------ *)
(* units.convert, generically in the kind of value that is pushed through
   the conversion callables (numbers, or a log of the applications).

   A unit is given by its chain: the units met by following `base_unit`
   from the unit itself up to, and excluding, the ultimate base unit (whose
   `base_unit is None`).  The base unit is the empty chain. *)

(* units.py:24-29 -- value := unit_to_base(value) for the source unit, then
   for its base unit, ... *)
Definition fold_up {L V : Type} (up : L -> V -> V) (ch : list L) (v : V) : V :=
  fold_left (fun acc l => up l acc) ch v.

(* units.py:32-41 -- unit_chain is the target's chain in the same order;
   `for unit in reversed(unit_chain): value = unit.base_to_unit(value)` *)
Definition unfold_down {L V : Type} (down : L -> V -> V) (ch : list L) (v : V) : V :=
  fold_left (fun acc l => down l acc) (rev ch) v.

Definition convert_with {L V : Type} (up down : L -> V -> V)
           (src dst : list L) (v : V) : V :=
  unfold_down down dst (fold_up up src v).

(* the two callables of a Unit *)
Record link := { to_base : Q -> Q;       (* unit_to_base *)
                 from_base : Q -> Q }.   (* base_to_unit *)

Definition convert (src dst : list link) (x : Q) : Q :=
  convert_with to_base from_base src dst x.

(* ------------------------------------------------------------------ *)
(* Units as objects with a `base_unit` pointer: a table, entry i = (parent,
   payload); parent None = ultimate base unit (its callables are never used
   by convert).  [chain] is the `while` loop; the code has no cycle check and
   no "same root" check, neither has the model.  A chain longer than the
   table repeats a unit, i.e. the Python loop does not terminate. *)

Fixpoint chain {P : Type} (tbl : list (option nat * P)) (fuel u : nat)
  : outcome (list (nat * P)) :=
  match fuel with
  | O => Loops
  | S f =>
      match nth_error tbl u with
      | None => Raise NoSuchUnit
      | Some (None, _) => Val []
      | Some (Some p, pl) =>
          match chain tbl f p with
          | Val r => Val ((u, pl) :: r)
          | Raise e => Raise e
          | Loops => Loops
          end
      end
  end.

Definition chain_of {P : Type} (tbl : list (option nat * P)) (u : nat) :=
  chain tbl (S (length tbl)) u.

(* the ultimate base unit of u (not used by convert; used to SAY "same root") *)
Fixpoint root {P : Type} (tbl : list (option nat * P)) (fuel u : nat) : outcome nat :=
  match fuel with
  | O => Loops
  | S f =>
      match nth_error tbl u with
      | None => Raise NoSuchUnit
      | Some (None, _) => Val u
      | Some (Some p, _) => root tbl f p
      end
  end.
Definition root_of {P : Type} (tbl : list (option nat * P)) (u : nat) :=
  root tbl (S (length tbl)) u.

(* convert(source_unit, target_unit, value): the source loop runs first *)
Definition convert_tbl (tbl : list (option nat * link)) (src dst : nat) (x : Q)
  : outcome Q :=
  match chain_of tbl src with
  | Val cs =>
      match chain_of tbl dst with
      | Val cd => Val (convert (map snd cs) (map snd cd) x)
      | Raise e => Raise e
      | Loops => Loops
      end
  | Raise e => Raise e
  | Loops => Loops
  end.

(* the same function run on a log: which callable of which unit is applied,
   in which order (true = unit_to_base, false = base_to_unit) *)
Definition log_up (u : nat) (log : list (nat * bool)) := log ++ [(u, true)].
Definition log_down (u : nat) (log : list (nat * bool)) := log ++ [(u, false)].

Definition trace_tbl {P : Type} (tbl : list (option nat * P)) (src dst : nat)
  : outcome (list (nat * bool)) :=
  match chain_of tbl src with
  | Val cs =>
      match chain_of tbl dst with
      | Val cd => Val (convert_with log_up log_down (map fst cs) (map fst cd) [])
      | Raise e => Raise e
      | Loops => Loops
      end
  | Raise e => Raise e
  | Loops => Loops
  end.

(* ------------------------------------------------------------------ *)
(* Kinds of links *)

(* x |-> x * kt  and  x |-> x * kf : what the regenerated unit table holds
   (kt = unit_to_base(1), kf = base_to_unit(1)) *)
Definition lin_link (kt kf : Q) : link :=
  {| to_base := fun x => x * kt; from_base := fun x => x * kf |}.

(* x |-> k * x  and its inverse  x |-> x / k *)
Definition scale_link (k : Q) : link :=
  {| to_base := fun x => k * x; from_base := fun x => x / k |}.

(* x |-> a * x + b  and its inverse (user-defined units of the symbolic
   correspondence, e.g. temperature scales) *)
Definition affine_link (a b : Q) : link :=
  {| to_base := fun x => a * x + b; from_base := fun y => (y - b) / a |}.

Definition ltable := list (option nat * (Q * Q)).
Definition link_table (T : ltable) : list (option nat * link) :=
  map (fun e => (fst e, lin_link (fst (snd e)) (snd (snd e)))) T.

Definition atable := list (option nat * (Q * Q)).
Definition affine_table (T : atable) : list (option nat * link) :=
  map (fun e => (fst e, affine_link (fst (snd e)) (snd (snd e)))) T.

(* ------------------------------------------------------------------ *)
(* The built-in units.  Ids are fixed by the harness when it regenerates the
   table from the module: *)
Definition u_meter : nat := 0.
Definition u_centimeter : nat := 1.
Definition u_foot : nat := 2.
Definition u_inch : nat := 3.
Definition builtin_units : list nat := [u_meter; u_centimeter; u_foot; u_inch].

(* What the property says the table must mean: 100 cm per metre, 0.3048 m per
   foot, 12 inches per foot -- the length of one unit in metres. *)
Definition metres_per (u : nat) : Q :=
  nth u [1; 1 # 100; 3048 # 10000; (3048 # 10000) / 12] 0.

(* decidable check of a regenerated table against that meaning: every
   built-in unit has a finite chain whose two factors are mutually inverse
   link by link and whose product of unit_to_base factors is metres_per *)
Definition lchain_inverse (ch : list (nat * (Q * Q))) : bool :=
  forallb (fun e => Qeq_bool (fst (snd e) * snd (snd e)) 1) ch.
Definition lchain_factor (ch : list (nat * (Q * Q))) : Q :=
  fold_left (fun acc e => acc * fst (snd e)) ch 1.
Definition unit_ok (T : ltable) (u : nat) : bool :=
  match chain_of T u with
  | Val ch => lchain_inverse ch && Qeq_bool (lchain_factor ch) (metres_per u)
  | _ => false
  end.
Definition units_ok (T : ltable) : bool := forallb (unit_ok T) builtin_units.

(* every entry of the table (also units added by somebody later) is a pair of
   mutually inverse factors *)
Definition table_inverse (T : ltable) : bool :=
  forallb (fun e => match fst e with
                    | None => true
                    | Some _ => Qeq_bool (fst (snd e) * snd (snd e)) 1
                    end) T.

(* ------------------------------------------------------------------ *)
(* The literals of the sensor drivers.  Like the unit table they are
   REGENERATED on every run (work/C18/Gen_sensors.v, read from the source of
   the two files with Python's ast); the functions below take them as a
   record, [doc_consts] holds the documented values and [consts_ok] is the
   decidable check that a regenerated record means the same. *)

Record sconsts := {
  (* MaxSonarEZPulseWidth.get():  convert(units.<c_pw_unit>, out, period / c_pw_div) *)
  c_pw_unit : nat;  c_pw_div : Q;
  (* MaxSonarEZAnalog.get():      convert(units.<c_an_unit>, out, voltage / c_an_div) *)
  c_an_unit : nat;  c_an_div : Q;
  (* pressure:  v = max(volts, c_floor);  c_scale * (v / Vcc) - c_offset;
     except ZeroDivisionError: return c_zero *)
  c_scale : Q;  c_offset : Q;  c_floor : Q;  c_zero : Q;
  (* calibrate: Vo = max(volts, c_cal_floor);  Vn = Vo / (c_cal_slope * p + c_cal_off) *)
  c_cal_floor : Q;  c_cal_slope : Q;  c_cal_off : Q }.

Definition us147 : Q := 147 # 1000000.     (* 0.000147 s per inch *)
Definition mv4_9 : Q := 49 # 10000.        (* 0.0049 V per centimetre *)
Definition v_floor : Q := 1 # 100000.      (* 0.00001 V *)

Definition doc_consts : sconsts :=
  {| c_pw_unit := u_inch;        c_pw_div := us147;
     c_an_unit := u_centimeter;  c_an_div := mv4_9;
     c_scale := 250;  c_offset := 25;  c_floor := v_floor;  c_zero := 0;
     c_cal_floor := v_floor;  c_cal_slope := 4 # 1000;  c_cal_off := 1 # 10 |}.

Definition consts_ok (K : sconsts) : bool :=
  Nat.eqb (c_pw_unit K) u_inch && Qeq_bool (c_pw_div K) us147 &&
  Nat.eqb (c_an_unit K) u_centimeter && Qeq_bool (c_an_div K) mv4_9 &&
  Qeq_bool (c_scale K) 250 && Qeq_bool (c_offset K) 25 &&
  Qeq_bool (c_floor K) v_floor && Qeq_bool (c_zero K) 0 &&
  Qeq_bool (c_cal_floor K) v_floor &&
  Qeq_bool (c_cal_slope K) (4 # 1000) && Qeq_bool (c_cal_off K) (1 # 10).

(* ------------------------------------------------------------------ *)
(* xl_max_sonar_ez.py *)

(* MaxSonarEZPulseWidth.get():
     inches = self.counter.getPeriod() / 0.000147
     return units.convert(units.inch, self.output_units, inches) *)
Definition sonar_pw (K : sconsts) (tbl : list (option nat * link)) (out : nat) (period : Q)
  : outcome Q :=
  convert_tbl tbl (c_pw_unit K) out (period / c_pw_div K).

(* MaxSonarEZAnalog.get():
     centimeters = self.analog.getVoltage() / 0.0049
     return units.convert(units.centimeter, self.output_units, centimeters) *)
Definition sonar_an (K : sconsts) (tbl : list (option nat * link)) (out : nat) (v : Q)
  : outcome Q :=
  convert_tbl tbl (c_an_unit K) out (v / c_an_div K).

(* ------------------------------------------------------------------ *)
(* pressure_sensors.py *)

Definition Qltb (a b : Q) : bool := negb (Qle_bool b a).

(* Python max(a, b): b only if b > a *)
Definition pymax (a b : Q) : Q := if Qltb a b then b else a.

(* Python a / b *)
Definition pydiv (a b : Q) : outcome Q :=
  if Qeq_bool b 0 then Raise ZeroDivisionError else Val (a / b).

Record sensor := { voltage_in : Q;           (* self.voltage_in: constructor argument, assignable later *)
                   vn : option Q }.          (* self.Vn, absent until calibrate() *)

Definition new_sensor (vcc : Q) : sensor := {| voltage_in := vcc; vn := None |}.

(* getattr(self, "Vn", self.voltage_in) *)
Definition supply (s : sensor) : Q :=
  match vn s with Some n => n | None => voltage_in s end.

(* the body of the try: *)
Definition pressure_try (K : sconsts) (s : sensor) (volts : Q) : outcome Q :=
  let v := pymax volts (c_floor K) in
  match pydiv v (supply s) with
  | Val q => Val (c_scale K * q - c_offset K)
  | Raise e => Raise e
  | Loops => Loops
  end.

(* REVAnalogPressureSensor.pressure, [volts] = sensor.getAverageVoltage() *)
Definition pressure (K : sconsts) (s : sensor) (volts : Q) : outcome Q :=
  match pressure_try K s volts with
  | Raise ZeroDivisionError => Val (c_zero K)    (* except ZeroDivisionError: return 0 *)
  | r => r
  end.

(* REVAnalogPressureSensor.calibrate(known_pressure); no try here *)
Definition calibrate (K : sconsts) (s : sensor) (volts p : Q) : outcome sensor :=
  let vo := pymax volts (c_cal_floor K) in
  match pydiv vo (c_cal_slope K * p + c_cal_off K) with
  | Val n => Val {| voltage_in := voltage_in s; vn := Some n |}
  | Raise e => Raise e
  | Loops => Loops
  end.

(* ------------------------------------------------------------------ *)
(* One sensor object over its lifetime: the calls made on it, in order.
   The object's state is [sensor] (voltage_in, and Vn once calibrate() has
   assigned it); there is no other attribute.

   `pressure` (a property getter) assigns nothing: the state after a read is
   the state before it, and every read looks Vn / voltage_in up afresh
   (`getattr(self, "Vn", self.voltage_in)` is evaluated on each call).
   `calibrate` assigns self.Vn as its last action: if the division raises,
   nothing has been assigned.

   `voltage_in` is a plain public instance attribute (the constructor
   argument "supply voltage to sensor"): user code may assign it at any time
   (`sensor.voltage_in = <measured 5 V rail>`, or a sensor built with a
   placeholder and told its supply later).  The assignment replaces
   voltage_in, touches nothing else (Vn stays as it is), returns nothing and
   cannot raise. *)

Inductive sop :=
| OpRead (volts : Q)               (* s.pressure      while the input reads [volts] *)
| OpCalibrate (volts p : Q)        (* s.calibrate(p)  while the input reads [volts] *)
| OpSetSupply (vcc : Q).           (* s.voltage_in = vcc *)

Inductive sobs :=
| ObsRead (r : outcome Q)          (* what the getter returned / raised *)
| ObsCalibrate (r : outcome unit)  (* calibrate returned None / raised *)
| ObsSet.                          (* the attribute assignment was carried out *)

(* s.voltage_in = vcc *)
Definition set_supply (s : sensor) (vcc : Q) : sensor :=
  {| voltage_in := vcc; vn := vn s |}.

Definition step_state (K : sconsts) (s : sensor) (o : sop) : sensor :=
  match o with
  | OpRead _ => s
  | OpCalibrate volts p =>
      match calibrate K s volts p with
      | Val s' => s'
      | _ => s
      end
  | OpSetSupply vcc => set_supply s vcc
  end.

Definition step_obs (K : sconsts) (s : sensor) (o : sop) : sobs :=
  match o with
  | OpRead volts => ObsRead (pressure K s volts)
  | OpCalibrate volts p =>
      ObsCalibrate (match calibrate K s volts p with
                    | Val _ => Val tt
                    | Raise e => Raise e
                    | Loops => Loops
                    end)
  | OpSetSupply _ => ObsSet
  end.

(* the object after the calls [ops] *)
Definition final_state (K : sconsts) (s : sensor) (ops : list sop) : sensor :=
  fold_left (step_state K) ops s.

(* what each of the calls [ops] returned *)
Fixpoint observations (K : sconsts) (s : sensor) (ops : list sop) : list sobs :=
  match ops with
  | [] => []
  | o :: r => step_obs K s o :: observations K (step_state K s o) r
  end.

(* ------------------------------------------------------------------ *)
(* Re-entrant unit definitions: a user-defined Unit whose callables are
   themselves written with units.convert, e.g.

     yard = Unit(meter, base_to_unit = lambda m: convert(meter, inch, m) / 36,
                        unit_to_base = lambda y: convert(inch, meter, y * 36))

   and further units hung below it (fathom below yard, ...).  While the outer
   convert() is in the middle of one of its loops, the callable starts ANOTHER
   activation of convert().  In the code every activation has its own locals
   (`current_unit`, `current_value`, `unit_chain = []`); in the model every
   activation is an application of the same function [convert_with] to its own
   arguments [src] / [dst], so the nested call cannot touch the chain the outer
   call is walking.

   [via_link s d k]: the two callables above, for the units (chains) s, d that
   the lambdas captured:  to_base y = convert(d, s, y * k),
                          from_base m = convert(s, d, m) / k. *)
Definition via_link (s d : list link) (k : Q) : link :=
  {| to_base := fun y => convert d s (y * k);
     from_base := fun m => convert s d m / k |}.

(* The same with a log of EVERY callable application, the nested ones
   included, in the order in which the callables are entered (what the symbolic
   correspondence observes on the real code): the value pushed through the
   callables is (number, log so far). *)
Definition lval := (Q * list (nat * bool))%type.
Record llink := { l_up : lval -> lval;        (* unit_to_base *)
                  l_down : lval -> lval }.    (* base_to_unit *)

Definition lconvert (src dst : list llink) (v : lval) : lval :=
  convert_with l_up l_down src dst v.

(* unit number u with plain callables: note the application, apply *)
Definition logged (u : nat) (l : link) : llink :=
  {| l_up := fun v => (to_base l (fst v), snd v ++ [(u, true)]);
     l_down := fun v => (from_base l (fst v), snd v ++ [(u, false)]) |}.

(* unit number u whose callables call convert(): note the application, then
   the nested activation appends its own applications *)
Definition lvia (u : nat) (s d : list llink) (k : Q) : llink :=
  {| l_up := fun v => lconvert d s (fst v * k, snd v ++ [(u, true)]);
     l_down := fun v => let r := lconvert s d (fst v, snd v ++ [(u, false)]) in
                        (fst r / k, snd r) |}.

(* How a user's module defines its units, in order: unit i is created with
   base_unit = an EARLIER unit (or None) and with callables that are either
   plain arithmetic (x |-> a x + b and its inverse) or call convert() on two
   EARLIER units s, d.  (A Python definition can only mention objects that
   exist already; a reference to a later unit is [Raise NoSuchUnit].) *)
Inductive uspec :=
| UAffine (a b : Q)
| UVia (s d : nat) (k : Q).

Record built := { b_link : link;       (* the callables on numbers *)
                  b_llink : llink }.   (* the same callables, logging *)

Definition plain (u : nat) (l : link) : built :=
  {| b_link := l; b_llink := logged u l |}.

Definition links (ch : list (nat * built)) : list link := map b_link (map snd ch).
Definition llinks (ch : list (nat * built)) : list llink := map b_llink (map snd ch).

Definition parent_defined (n : nat) (p : option nat) : bool :=
  match p with None => true | Some q => Nat.ltb q n end.

(* the Unit(...) call that creates unit number [length tbl] *)
Definition build_entry (tbl : list (option nat * built)) (e : option nat * uspec)
  : outcome (option nat * built) :=
  let u := length tbl in
  if parent_defined u (fst e) then
    match snd e with
    | UAffine a b => Val (fst e, plain u (affine_link a b))
    | UVia s d k =>
        match chain_of tbl s with
        | Val cs =>
            match chain_of tbl d with
            | Val cd => Val (fst e, {| b_link := via_link (links cs) (links cd) k;
                                       b_llink := lvia u (llinks cs) (llinks cd) k |})
            | Raise x => Raise x
            | Loops => Loops
            end
        | Raise x => Raise x
        | Loops => Loops
        end
    end
  else Raise NoSuchUnit.

Fixpoint build_from (tbl : list (option nat * built)) (spec : list (option nat * uspec))
  : outcome (list (option nat * built)) :=
  match spec with
  | [] => Val tbl
  | e :: r =>
      match build_entry tbl e with
      | Val x => build_from (tbl ++ [x]) r
      | Raise x => Raise x
      | Loops => Loops
      end
  end.

Definition build_units (spec : list (option nat * uspec)) := build_from [] spec.

Definition pure_table (tbl : list (option nat * built)) : list (option nat * link) :=
  map (fun e => (fst e, b_link (snd e))) tbl.

(* convert(a, b, x) on such units: the number ... *)
Definition convert_built (tbl : list (option nat * built)) (a b : nat) (x : Q) : outcome Q :=
  convert_tbl (pure_table tbl) a b x.

(* ... and the number together with the complete log *)
Definition trace_built (tbl : list (option nat * built)) (a b : nat) (x : Q) : outcome lval :=
  match chain_of tbl a with
  | Val ca =>
      match chain_of tbl b with
      | Val cb => Val (lconvert (llinks ca) (llinks cb) (x, []))
      | Raise e => Raise e
      | Loops => Loops
      end
  | Raise e => Raise e
  | Loops => Loops
  end.

(* decidable side conditions on a definition list: every non-root unit's
   callables are invertible as written (a <> 0, k <> 0) ... *)
Definition entry_ok (e : option nat * uspec) : bool :=
  match fst e with
  | None => true
  | Some _ => match snd e with
              | UAffine a _ => negb (Qeq_bool a 0)
              | UVia _ _ k => negb (Qeq_bool k 0)
              end
  end.
Definition spec_ok (spec : list (option nat * uspec)) : bool := forallb entry_ok spec.

(* ... and, for linearity, no offsets *)
Definition entry_linear (e : option nat * uspec) : bool :=
  match fst e with
  | None => true
  | Some _ => match snd e with
              | UAffine a b => negb (Qeq_bool a 0) && Qeq_bool b 0
              | UVia _ _ k => negb (Qeq_bool k 0)
              end
  end.
Definition spec_linear (spec : list (option nat * uspec)) : bool := forallb entry_linear spec.
