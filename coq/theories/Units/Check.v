(* Comparison functions used by the generated correspondence files
   (work/C18/cases_*.v): the model of Units/Model.v evaluated by vm_compute
   against observations of the implementation.  No proofs in this file. *)
From Coq Require Import QArith Qabs List Bool PeanoNat.
From RV Require Import Units.Model.
Import ListNotations.
Open Scope Q_scope.

Definition tol : Q := 1 # 1000000000000.          (* 1e-12 *)

(* a binary float m * 2^e as an exact rational (how the generated files pass
   the implementation's doubles: short literals) *)
Definition fl (m e : Z) : Q :=
  match e with
  | Z0 => m # 1
  | Zpos p => (m * Z.pow 2 e) # 1
  | Zneg p => m # (Pos.pow 2 p)
  end.

(* |impl - model| <= tol * (|model| + slack).  slack = 0 for pure scalings
   (relative error); 25 for the pressure formula, whose two terms 250 V/Vcc
   and 25 cancel (error relative to the size of the terms). *)
Definition close (slack impl model : Q) : bool :=
  Qle_bool (Qabs (impl - model)) (tol * (Qabs model + slack)).

(* an implementation observation is [Some float-as-exact-rational] or None
   (exception, inf, nan, not a number) *)
Definition close_out (slack : Q) (impl : option Q) (model : outcome Q) : bool :=
  match impl, model with
  | Some i, Val m => close slack i m
  | _, _ => false
  end.

Fixpoint bad_from {A : Type} (ok : A -> bool) (i : nat) (l : list A) : list nat :=
  match l with
  | [] => []
  | c :: r => if ok c then bad_from ok (S i) r else i :: bad_from ok (S i) r
  end.
Definition bad {A : Type} (ok : A -> bool) (l : list A) : list nat := bad_from ok 0 l.

(* convert(a, b, x) = r *)
Definition conv_case := (nat * nat * Q * option Q)%type.
Definition conv_ok (tbl : list (option nat * link)) (c : conv_case) : bool :=
  let '(a, b, x, r) := c in close_out 0 r (convert_tbl tbl a b x).

(* convert(b, c, convert(a, b, x)) = r *)
Definition triple_case := (nat * nat * nat * Q * option Q)%type.
Definition triple_ok (tbl : list (option nat * link)) (c : triple_case) : bool :=
  let '(a, b, c0, x, r) := c in
  match convert_tbl tbl a b x with
  | Val y => close_out 0 r (convert_tbl tbl b c0 y)
  | _ => false
  end.

(* (pulse-width driver?, output unit, counter period | analog voltage, get()) *)
Definition sonar_case := (bool * nat * Q * option Q)%type.
Definition sonar_ok (K : sconsts) (tbl : list (option nat * link)) (c : sonar_case) : bool :=
  let '(pw, out, x, r) := c in
  close_out 0 r (if pw then sonar_pw K tbl out x else sonar_an K tbl out x).

(* (voltage_in, optional calibrate(p) at voltage vc, voltage v, .pressure) *)
Definition pressure_case := (Q * option (Q * Q) * Q * option Q)%type.
Definition pressure_ok (K : sconsts) (c : pressure_case) : bool :=
  let '(vcc, cal, v, r) := c in
  let s0 := new_sensor vcc in
  match (match cal with
         | None => Val s0
         | Some (vc, p) => calibrate K s0 vc p
         end) with
  | Val s => close_out 25 r (pressure K s v)
  | _ => false
  end.

(* user-defined forests of exact affine units: the log of callable
   applications and the exact result of the real convert() *)
Fixpoint log_eqb (a b : list (nat * bool)) : bool :=
  match a, b with
  | [], [] => true
  | (u, d) :: a', (u', d') :: b' => Nat.eqb u u' && Bool.eqb d d' && log_eqb a' b'
  | _, _ => false
  end.

Definition forest_case :=
  (atable * nat * nat * Q * option (list (nat * bool) * Q))%type.
Definition forest_ok (c : forest_case) : bool :=
  let '(T, a, b, x, r) := c in
  match r, trace_tbl T a b, convert_tbl (affine_table T) a b x with
  | Some (log, y), Val mlog, Val my => log_eqb log mlog && Qeq_bool y my
  | _, _, _ => false
  end.

(* regenerated probes: unit id, and triples (x, unit_to_base(x), base_to_unit(x))
   obtained by applying the unit's callables to exact numbers; they must lie
   on the lines through the origin with the table's two factors *)
Definition probes_ok (T : ltable) (probes : list (nat * list (Q * Q * Q))) : bool :=
  forallb (fun up =>
    match nth_error T (fst up) with
    | Some (Some _, (kt, kf)) =>
        forallb (fun p => let '(x, t, f) := p in
                          Qeq_bool t (x * kt) && Qeq_bool f (x * kf)) (snd up)
    | _ => false
    end) probes.

(* one sensor object, a sequence of calls and what each returned:
   (voltage_in, [call + observation]) *)
Inductive hstep :=
| HRead (v : Q) (r : option Q)          (* .pressure at v V -> Some float | None (raised, inf, nan) *)
| HCal (v p : Q) (r : option bool)      (* .calibrate(p) at v V: Some false = returned, Some true =
                                           raised ZeroDivisionError, None = anything else *)
| HSet (vcc : Q) (r : bool).            (* .voltage_in = vcc: true = carried out, false = raised *)

Definition hstep_op (h : hstep) : sop :=
  match h with HRead v _ => OpRead v | HCal v p _ => OpCalibrate v p | HSet vcc _ => OpSetSupply vcc end.

Definition hstep_ok (h : hstep) (o : sobs) : bool :=
  match h, o with
  | HRead _ r, ObsRead m => close_out 25 r m
  | HCal _ _ (Some false), ObsCalibrate (Val _) => true
  | HCal _ _ (Some true), ObsCalibrate (Raise ZeroDivisionError) => true
  | HSet _ true, ObsSet => true
  | _, _ => false
  end.

Fixpoint all2 {A B : Type} (f : A -> B -> bool) (a : list A) (b : list B) : bool :=
  match a, b with
  | [], [] => true
  | x :: a', y :: b' => f x y && all2 f a' b'
  | _, _ => false
  end.

Definition history_case := (Q * list hstep)%type.
Definition history_ok (K : sconsts) (c : history_case) : bool :=
  let '(vcc, hs) := c in
  all2 hstep_ok hs (observations K (new_sensor vcc) (map hstep_op hs)).

(* user-defined units whose callables may themselves call convert()
   (re-entrant definitions): the definition list, convert(a, b, x), and what
   the real code did: the log of EVERY callable application (nested
   activations included) and the exact result *)
Definition reent_case :=
  (list (option nat * uspec) * nat * nat * Q * option (list (nat * bool) * Q))%type.
Definition reent_ok (c : reent_case) : bool :=
  let '(spec, a, b, x, r) := c in
  match build_units spec with
  | Val tbl =>
      match r, trace_built tbl a b x, convert_built tbl a b x with
      | Some (log, y), Val (ty, mlog), Val my =>
          log_eqb log mlog && Qeq_bool y my && Qeq_bool y ty
      | _, _, _ => false
      end
  | _ => false
  end.
