(* Proofs about Units/Model.v.  Generic part: any chains (any depth) of
   user-defined links; concrete part: any regenerated table that passes the
   decidable check [units_ok]; sonar and pressure formulas. *)
From Coq Require Import QArith Qfield Lqa Lia List Bool Morphisms Setoid.
From RV Require Import Units.Model.
Import ListNotations.
Open Scope Q_scope.

(* ------------------------------------------------------------------ *)
(* Hypotheses on user-defined links *)

(* the callables are functions of the VALUE of their argument (Q represents
   one number by many fractions; every Python callable on exact numbers is
   proper in this sense) *)
Definition link_proper (l : link) : Prop :=
  Proper (Qeq ==> Qeq) (to_base l) /\ Proper (Qeq ==> Qeq) (from_base l).

(* the two callables are mutually inverse *)
Definition link_inverse (l : link) : Prop :=
  link_proper l /\
  (forall x, from_base l (to_base l x) == x) /\
  (forall x, to_base l (from_base l x) == x).

(* the two callables are linear maps *)
Definition link_linear (l : link) : Prop :=
  link_proper l /\
  (forall x y, to_base l (x + y) == to_base l x + to_base l y) /\
  (forall c x, to_base l (c * x) == c * to_base l x) /\
  (forall x y, from_base l (x + y) == from_base l x + from_base l y) /\
  (forall c x, from_base l (c * x) == c * from_base l x).

(* x |-> k x and x |-> x / k for some k <> 0 *)
Definition link_scaling (l : link) : Prop :=
  exists k, ~ k == 0 /\ (forall x, to_base l x == k * x) /\ (forall x, from_base l x == x / k).

Lemma scaling_proper l : link_scaling l -> link_proper l.
Proof.
  intros (k & Hk & Ht & Hf). split; intros x y E.
  - rewrite (Ht x), (Ht y), E. reflexivity.
  - rewrite (Hf x), (Hf y), E. reflexivity.
Qed.

Lemma scaling_inverse l : link_scaling l -> link_inverse l.
Proof.
  intros H. split; [exact (scaling_proper l H)|].
  destruct H as (k & Hk & Ht & Hf). split; intro x.
  - rewrite Hf, Ht. field. exact Hk.
  - rewrite Ht, Hf. field. exact Hk.
Qed.

Lemma scaling_linear l : link_scaling l -> link_linear l.
Proof.
  intros H. split; [exact (scaling_proper l H)|].
  destruct H as (k & Hk & Ht & Hf). repeat split; intros.
  - rewrite !Ht. ring.
  - rewrite !Ht. ring.
  - rewrite !Hf. field. exact Hk.
  - rewrite !Hf. field. exact Hk.
Qed.

Lemma scale_link_scaling k : ~ k == 0 -> link_scaling (scale_link k).
Proof. intros Hk. exists k. repeat split; try exact Hk; intros; reflexivity. Qed.

Lemma lin_link_proper kt kf : link_proper (lin_link kt kf).
Proof. split; intros x y E; simpl; rewrite E; reflexivity. Qed.

Lemma lin_link_scaling kt kf : kt * kf == 1 -> link_scaling (lin_link kt kf).
Proof.
  intros H. assert (Hk : ~ kt == 0).
  { intro E. rewrite E in H. revert H. rewrite Qmult_0_l. discriminate. }
  exists kt. split; [exact Hk|]. split; intros x; simpl.
  - ring.
  - assert (E : kf == / kt).
    { setoid_replace kf with (kt * kf * / kt) by (field; exact Hk).
      rewrite H. ring. }
    rewrite E. reflexivity.
Qed.

Lemma affine_link_inverse a b : ~ a == 0 -> link_inverse (affine_link a b).
Proof.
  intros Ha. split; [split; intros x y E; simpl; rewrite E; reflexivity|].
  split; intro x; simpl; field; exact Ha.
Qed.

(* ------------------------------------------------------------------ *)
(* The two loops *)

Lemma fold_up_cons {L V} (up : L -> V -> V) l ch v :
  fold_up up (l :: ch) v = fold_up up ch (up l v).
Proof. reflexivity. Qed.

Lemma unfold_down_cons {L V} (down : L -> V -> V) l ch v :
  unfold_down down (l :: ch) v = down l (unfold_down down ch v).
Proof. unfold unfold_down. simpl. rewrite fold_left_app. reflexivity. Qed.

Lemma unfold_down_nil {L V} (down : L -> V -> V) v : unfold_down down [] v = v.
Proof. reflexivity. Qed.

Definition up_q (ch : list link) (x : Q) : Q := fold_up to_base ch x.
Definition down_q (ch : list link) (x : Q) : Q := unfold_down from_base ch x.

Lemma convert_unfold a b x : convert a b x = down_q b (up_q a x).
Proof. reflexivity. Qed.

Lemma up_q_cons l ch x : up_q (l :: ch) x = up_q ch (to_base l x).
Proof. reflexivity. Qed.
Lemma down_q_cons l ch x : down_q (l :: ch) x = from_base l (down_q ch x).
Proof. apply unfold_down_cons. Qed.

Lemma up_q_proper ch : Forall link_proper ch ->
  forall x y, x == y -> up_q ch x == up_q ch y.
Proof.
  induction 1 as [|l r Hl Hr IH]; intros x y E; [exact E|].
  rewrite !up_q_cons. apply IH. apply (proj1 Hl). exact E.
Qed.

Lemma down_q_proper ch : Forall link_proper ch ->
  forall x y, x == y -> down_q ch x == down_q ch y.
Proof.
  induction 1 as [|l r Hl Hr IH]; intros x y E; [exact E|].
  rewrite !down_q_cons. apply (proj2 Hl). apply IH. exact E.
Qed.

Lemma inverse_proper_all ch : Forall link_inverse ch -> Forall link_proper ch.
Proof. intro H. eapply Forall_impl; [|exact H]. intros l Hl. exact (proj1 Hl). Qed.
Lemma linear_proper_all ch : Forall link_linear ch -> Forall link_proper ch.
Proof. intro H. eapply Forall_impl; [|exact H]. intros l Hl. exact (proj1 Hl). Qed.

Lemma down_up ch : Forall link_inverse ch -> forall x, down_q ch (up_q ch x) == x.
Proof.
  induction 1 as [|l r Hl Hr IH]; intro x; [reflexivity|].
  rewrite up_q_cons, down_q_cons.
  destruct Hl as ((_ & Pf) & Hft & _).
  rewrite <- (Hft x) at 2. apply Pf. apply IH.
Qed.

Lemma up_down ch : Forall link_inverse ch -> forall y, up_q ch (down_q ch y) == y.
Proof.
  induction 1 as [|l r Hl Hr IH]; intro y; [reflexivity|].
  rewrite down_q_cons, up_q_cons.
  destruct Hl as (_ & _ & Htf).
  rewrite <- (IH y) at 2.
  apply up_q_proper; [exact (inverse_proper_all r Hr)|]. apply Htf.
Qed.

(* --- the generic theorems, for chains of any length ---------------- *)

Theorem same_unit : forall u x, Forall link_inverse u -> convert u u x == x.
Proof. intros u x H. rewrite convert_unfold. apply down_up. exact H. Qed.

Theorem there_and_back : forall a b x,
  Forall link_inverse a -> Forall link_inverse b ->
  convert b a (convert a b x) == x.
Proof.
  intros a b x Ha Hb. rewrite !convert_unfold.
  rewrite <- (down_up a Ha x) at 2.
  apply down_q_proper; [exact (inverse_proper_all a Ha)|].
  apply up_down. exact Hb.
Qed.

Theorem composition : forall a b c x,
  Forall link_inverse b -> Forall link_proper c ->
  convert b c (convert a b x) == convert a c x.
Proof.
  intros a b c x Hb Hc. rewrite !convert_unfold.
  apply down_q_proper; [exact Hc|]. apply up_down. exact Hb.
Qed.

Theorem convert_proper : forall a b x y,
  Forall link_proper a -> Forall link_proper b -> x == y ->
  convert a b x == convert a b y.
Proof.
  intros a b x y Ha Hb E. rewrite !convert_unfold.
  apply down_q_proper; [exact Hb|]. apply up_q_proper; [exact Ha|]. exact E.
Qed.

Lemma up_q_add ch : Forall link_linear ch ->
  forall x y, up_q ch (x + y) == up_q ch x + up_q ch y.
Proof.
  induction 1 as [|l r Hl Hr IH]; intros x y; [reflexivity|].
  rewrite !up_q_cons, <- IH.
  apply up_q_proper; [exact (linear_proper_all r Hr)|]. apply Hl.
Qed.
Lemma up_q_scale ch : Forall link_linear ch ->
  forall c x, up_q ch (c * x) == c * up_q ch x.
Proof.
  induction 1 as [|l r Hl Hr IH]; intros c x; [reflexivity|].
  rewrite !up_q_cons, <- IH.
  apply up_q_proper; [exact (linear_proper_all r Hr)|]. apply Hl.
Qed.
Lemma down_q_add ch : Forall link_linear ch ->
  forall x y, down_q ch (x + y) == down_q ch x + down_q ch y.
Proof.
  induction 1 as [|l r Hl Hr IH]; intros x y; [reflexivity|].
  rewrite !down_q_cons.
  destruct Hl as ((_ & Pf) & _ & _ & Hadd & _).
  rewrite <- Hadd. apply Pf. apply IH.
Qed.
Lemma down_q_scale ch : Forall link_linear ch ->
  forall c x, down_q ch (c * x) == c * down_q ch x.
Proof.
  induction 1 as [|l r Hl Hr IH]; intros c x; [reflexivity|].
  rewrite !down_q_cons.
  destruct Hl as ((_ & Pf) & _ & _ & _ & Hsc).
  rewrite <- Hsc. apply Pf. apply IH.
Qed.

Theorem linear : forall a b,
  Forall link_linear a -> Forall link_linear b ->
  (forall x y, convert a b (x + y) == convert a b x + convert a b y) /\
  (forall c x, convert a b (c * x) == c * convert a b x).
Proof.
  intros a b Ha Hb. split; intros; rewrite !convert_unfold.
  - rewrite <- down_q_add by exact Hb.
    apply down_q_proper; [exact (linear_proper_all b Hb)|]. apply up_q_add. exact Ha.
  - rewrite <- down_q_scale by exact Hb.
    apply down_q_proper; [exact (linear_proper_all b Hb)|]. apply up_q_scale. exact Ha.
Qed.

(* ------------------------------------------------------------------ *)
(* Tables *)

Lemma chain_entries {P} (tbl : list (option nat * P)) (Q0 : P -> Prop) :
  Forall (fun e => fst e <> None -> Q0 (snd e)) tbl ->
  forall fuel u ch, chain tbl fuel u = Val ch -> Forall Q0 (map snd ch).
Proof.
  intros HT. induction fuel as [|f IH]; intros u ch H; [discriminate|].
  simpl in H. destruct (nth_error tbl u) as [[[p|] pl]|] eqn:E; try discriminate.
  - destruct (chain tbl f p) as [r| |] eqn:Ec; try discriminate.
    injection H as <-. simpl. constructor.
    + rewrite Forall_forall in HT. apply (HT (Some p, pl)).
      * eapply nth_error_In. exact E.
      * discriminate.
    + eapply IH. exact Ec.
  - injection H as <-. constructor.
Qed.

Lemma chain_map {P R} (f : P -> R) (tbl : list (option nat * P)) :
  forall fuel u,
  chain (map (fun e => (fst e, f (snd e))) tbl) fuel u =
  match chain tbl fuel u with
  | Val ch => Val (map (fun e => (fst e, f (snd e))) ch)
  | Raise e => Raise e
  | Loops => Loops
  end.
Proof.
  induction fuel as [|n IH]; intro u; [reflexivity|].
  simpl. rewrite nth_error_map.
  destruct (nth_error tbl u) as [[[p|] pl]|]; simpl; try reflexivity.
  rewrite IH. destruct (chain tbl n p); reflexivity.
Qed.

Lemma chain_of_map {P R} (f : P -> R) (tbl : list (option nat * P)) u :
  chain_of (map (fun e => (fst e, f (snd e))) tbl) u =
  match chain_of tbl u with
  | Val ch => Val (map (fun e => (fst e, f (snd e))) ch)
  | Raise e => Raise e
  | Loops => Loops
  end.
Proof. unfold chain_of. rewrite map_length. apply chain_map. Qed.

Definition table_links_inverse (tbl : list (option nat * link)) : Prop :=
  Forall (fun e => fst e <> None -> link_inverse (snd e)) tbl.
Definition table_links_linear (tbl : list (option nat * link)) : Prop :=
  Forall (fun e => fst e <> None -> link_linear (snd e)) tbl.

Lemma convert_tbl_val tbl a b x y :
  convert_tbl tbl a b x = Val y ->
  exists ca cb, chain_of tbl a = Val ca /\ chain_of tbl b = Val cb /\
                y = convert (map snd ca) (map snd cb) x.
Proof.
  unfold convert_tbl. destruct (chain_of tbl a) as [ca| |]; try discriminate.
  destruct (chain_of tbl b) as [cb| |]; try discriminate.
  intro H. injection H as <-. exists ca, cb. auto.
Qed.

Lemma convert_tbl_of_chains tbl a b x ca cb :
  chain_of tbl a = Val ca -> chain_of tbl b = Val cb ->
  convert_tbl tbl a b x = Val (convert (map snd ca) (map snd cb) x).
Proof. intros Ha Hb. unfold convert_tbl. rewrite Ha, Hb. reflexivity. Qed.

(* termination depends on the two units only, never on the value *)
Lemma convert_tbl_terminates tbl a b x y x' :
  convert_tbl tbl a b x = Val y -> exists y', convert_tbl tbl a b x' = Val y'.
Proof.
  intro H. destruct (convert_tbl_val _ _ _ _ _ H) as (ca & cb & Ha & Hb & _).
  eexists. apply convert_tbl_of_chains; eassumption.
Qed.

Theorem tbl_same_unit : forall tbl u x y,
  table_links_inverse tbl -> convert_tbl tbl u u x = Val y -> y == x.
Proof.
  intros tbl u x y HT H.
  destruct (convert_tbl_val _ _ _ _ _ H) as (ca & cb & Ha & Hb & ->).
  rewrite Ha in Hb. injection Hb as <-.
  apply same_unit. eapply chain_entries; [exact HT|exact Ha].
Qed.

Theorem tbl_there_and_back : forall tbl a b x y,
  table_links_inverse tbl -> convert_tbl tbl a b x = Val y ->
  exists z, convert_tbl tbl b a y = Val z /\ z == x.
Proof.
  intros tbl a b x y HT H.
  destruct (convert_tbl_val _ _ _ _ _ H) as (ca & cb & Ha & Hb & ->).
  eexists. split; [apply convert_tbl_of_chains; eassumption|].
  apply there_and_back; eapply chain_entries; try exact HT; eassumption.
Qed.

Theorem tbl_composition : forall tbl a b c x y z,
  table_links_inverse tbl ->
  convert_tbl tbl a b x = Val y -> convert_tbl tbl b c y = Val z ->
  exists w, convert_tbl tbl a c x = Val w /\ z == w.
Proof.
  intros tbl a b c x y z HT H1 H2.
  destruct (convert_tbl_val _ _ _ _ _ H1) as (ca & cb & Ha & Hb & ->).
  destruct (convert_tbl_val _ _ _ _ _ H2) as (cb' & cc & Hb' & Hc & ->).
  rewrite Hb in Hb'. injection Hb' as <-.
  eexists. split; [apply convert_tbl_of_chains; eassumption|].
  apply composition.
  - eapply chain_entries; [exact HT|exact Hb].
  - apply inverse_proper_all. eapply chain_entries; [exact HT|exact Hc].
Qed.

Theorem tbl_linear : forall tbl a b x1 x2 c y1 y2,
  table_links_linear tbl ->
  convert_tbl tbl a b x1 = Val y1 -> convert_tbl tbl a b x2 = Val y2 ->
  (exists s, convert_tbl tbl a b (x1 + x2) = Val s /\ s == y1 + y2) /\
  (exists m, convert_tbl tbl a b (c * x1) = Val m /\ m == c * y1).
Proof.
  intros tbl a b x1 x2 c y1 y2 HT H1 H2.
  destruct (convert_tbl_val _ _ _ _ _ H1) as (ca & cb & Ha & Hb & ->).
  destruct (convert_tbl_val _ _ _ _ _ H2) as (ca' & cb' & Ha' & Hb' & ->).
  rewrite Ha in Ha'. injection Ha' as <-. rewrite Hb in Hb'. injection Hb' as <-.
  assert (La : Forall link_linear (map snd ca)) by (eapply chain_entries; [exact HT|exact Ha]).
  assert (Lb : Forall link_linear (map snd cb)) by (eapply chain_entries; [exact HT|exact Hb]).
  destruct (linear _ _ La Lb) as (Hadd & Hsc).
  split; eexists; (split; [apply convert_tbl_of_chains; eassumption|]).
  - apply Hadd.
  - apply Hsc.
Qed.

(* the log of applications: up the source chain in order, then down the
   target chain from the root end *)
Lemma trace_shape {L} (src dst : list L) (up down : L -> list (L * bool) -> list (L * bool)) :
  (forall l log, up l log = log ++ [(l, true)]) ->
  (forall l log, down l log = log ++ [(l, false)]) ->
  forall log0,
  convert_with up down src dst log0 =
  log0 ++ map (fun l => (l, true)) src ++ map (fun l => (l, false)) (rev dst).
Proof.
  intros Hup Hdown log0. unfold convert_with, unfold_down, fold_up.
  assert (U : forall ch log, fold_left (fun acc l => up l acc) ch log
                             = log ++ map (fun l => (l, true)) ch).
  { induction ch as [|l r IH]; intro log; simpl; [symmetry; apply app_nil_r|].
    rewrite IH, Hup, <- app_assoc. reflexivity. }
  assert (D : forall ch log, fold_left (fun acc l => down l acc) ch log
                             = log ++ map (fun l => (l, false)) ch).
  { induction ch as [|l r IH]; intro log; simpl; [symmetry; apply app_nil_r|].
    rewrite IH, Hdown, <- app_assoc. reflexivity. }
  rewrite D, U, <- app_assoc. reflexivity.
Qed.

Theorem trace_tbl_shape {P} (tbl : list (option nat * P)) a b ca cb :
  chain_of tbl a = Val ca -> chain_of tbl b = Val cb ->
  trace_tbl tbl a b =
  Val (map (fun u => (u, true)) (map fst ca) ++ map (fun u => (u, false)) (rev (map fst cb))).
Proof.
  intros Ha Hb. unfold trace_tbl. rewrite Ha, Hb. f_equal.
  apply (trace_shape (map fst ca) (map fst cb) log_up log_down); reflexivity.
Qed.

(* ------------------------------------------------------------------ *)
(* Regenerated (linear) tables *)

Definition lins (ch : list (nat * (Q * Q))) : list link :=
  map snd (map (fun e => (fst e, lin_link (fst (snd e)) (snd (snd e)))) ch).

Lemma lins_cons e r : lins (e :: r) = lin_link (fst (snd e)) (snd (snd e)) :: lins r.
Proof. reflexivity. Qed.

Lemma fold_factor ch : forall x,
  fold_left (fun acc (e : nat * (Q * Q)) => acc * fst (snd e)) ch x == x * lchain_factor ch.
Proof.
  unfold lchain_factor. induction ch as [|e r IH]; intro x; simpl.
  - ring.
  - rewrite (IH (x * fst (snd e))), (IH (1 * fst (snd e))). ring.
Qed.

Lemma lchain_factor_cons e r :
  lchain_factor (e :: r) == fst (snd e) * lchain_factor r.
Proof. unfold lchain_factor at 1. cbn [fold_left]. rewrite fold_factor. ring. Qed.

Lemma up_lins ch : forall x, up_q (lins ch) x == x * lchain_factor ch.
Proof.
  induction ch as [|e r IH]; intro x.
  - unfold lchain_factor. simpl. ring.
  - rewrite lins_cons, up_q_cons, IH, lchain_factor_cons. simpl. ring.
Qed.

Lemma down_lins ch : lchain_inverse ch = true ->
  forall y, down_q (lins ch) y * lchain_factor ch == y.
Proof.
  induction ch as [|e r IH]; intros H y.
  - change (y * 1 == y). ring.
  - simpl in H. apply andb_true_iff in H. destruct H as (He & Hr).
    apply Qeq_bool_iff in He.
    rewrite lins_cons, down_q_cons, lchain_factor_cons. simpl.
    setoid_replace (down_q (lins r) y * snd (snd e) * (fst (snd e) * lchain_factor r))
      with ((down_q (lins r) y * lchain_factor r) * (fst (snd e) * snd (snd e))) by ring.
    rewrite He, (IH Hr y). ring.
Qed.

Lemma lchain_inverse_scaling ch : lchain_inverse ch = true -> Forall link_scaling (lins ch).
Proof.
  induction ch as [|e r IH]; intro H; [constructor|].
  simpl in H. apply andb_true_iff in H. destruct H as (He & Hr).
  rewrite lins_cons. constructor; [|exact (IH Hr)].
  apply lin_link_scaling. apply Qeq_bool_iff. exact He.
Qed.

Lemma metres_per_nonzero u : In u builtin_units -> ~ metres_per u == 0.
Proof.
  intros [<-|[<-|[<-|[<-|[]]]]]; vm_compute; discriminate.
Qed.

Lemma unit_ok_inv T u : unit_ok T u = true ->
  exists ch, chain_of T u = Val ch /\ lchain_inverse ch = true /\
             lchain_factor ch == metres_per u.
Proof.
  unfold unit_ok. destruct (chain_of T u) as [ch| |]; try discriminate.
  intro H. apply andb_true_iff in H. destruct H as (H1 & H2).
  exists ch. repeat split; [exact H1|]. apply Qeq_bool_iff. exact H2.
Qed.

Lemma chain_of_link_table T u ch : chain_of T u = Val ch ->
  chain_of (link_table T) u = Val (map (fun e => (fst e, lin_link (fst (snd e)) (snd (snd e)))) ch).
Proof.
  intro H. unfold link_table.
  rewrite (chain_of_map (fun p => lin_link (fst p) (snd p)) T u), H. reflexivity.
Qed.

(* every conversion between built-in units multiplies by the ratio of the
   units' lengths *)
Theorem builtin_factor : forall T a b x,
  units_ok T = true -> In a builtin_units -> In b builtin_units ->
  exists y, convert_tbl (link_table T) a b x = Val y /\
            y == x * metres_per a / metres_per b.
Proof.
  intros T a b x HT Ia Ib.
  unfold units_ok in HT. rewrite forallb_forall in HT.
  destruct (unit_ok_inv T a (HT a Ia)) as (ca & Ha & _ & Fa).
  destruct (unit_ok_inv T b (HT b Ib)) as (cb & Hb & Ib' & Fb).
  eexists. split.
  - apply convert_tbl_of_chains; apply chain_of_link_table; eassumption.
  - fold (lins ca). fold (lins cb). rewrite convert_unfold.
    pose proof (down_lins cb Ib' (up_q (lins ca) x)) as D.
    pose proof (metres_per_nonzero b Ib) as Nb.
    set (y := down_q (lins cb) (up_q (lins ca) x)) in *.
    assert (D' : y * metres_per b == x * metres_per a).
    { rewrite <- Fb, D, up_lins, Fa. reflexivity. }
    setoid_replace y with (y * metres_per b / metres_per b) by (field; exact Nb).
    rewrite D'. reflexivity.
Qed.

(* and the built-in chains satisfy the hypotheses of the generic theorems *)
Theorem builtin_chains_scaling : forall T u,
  units_ok T = true -> In u builtin_units ->
  exists ch, chain_of (link_table T) u = Val ch /\ Forall link_scaling (map snd ch).
Proof.
  intros T u HT Iu. unfold units_ok in HT. rewrite forallb_forall in HT.
  destruct (unit_ok_inv T u (HT u Iu)) as (ch & Hc & Hi & _).
  eexists. split; [apply chain_of_link_table; exact Hc|].
  apply lchain_inverse_scaling. exact Hi.
Qed.

Lemma table_inverse_links T : table_inverse T = true ->
  Forall (fun e => fst e <> None -> link_scaling (snd e)) (link_table T).
Proof.
  unfold table_inverse, link_table. rewrite forallb_forall, Forall_forall.
  intros H e He. apply in_map_iff in He. destruct He as (e0 & <- & He0).
  simpl. intro Hp. specialize (H e0 He0).
  destruct (fst e0); [|congruence].
  apply lin_link_scaling. apply Qeq_bool_iff. exact H.
Qed.

Theorem table_inverse_inverse T : table_inverse T = true ->
  table_links_inverse (link_table T).
Proof.
  intro H. eapply Forall_impl; [|exact (table_inverse_links T H)].
  intros e He Hp. apply scaling_inverse. exact (He Hp).
Qed.

Theorem table_inverse_linear T : table_inverse T = true ->
  table_links_linear (link_table T).
Proof.
  intro H. eapply Forall_impl; [|exact (table_inverse_links T H)].
  intros e He Hp. apply scaling_linear. exact (He Hp).
Qed.

Lemma in_builtin_0 : In u_meter builtin_units. Proof. simpl; auto. Qed.
Lemma in_builtin_1 : In u_centimeter builtin_units. Proof. simpl; auto. Qed.
Lemma in_builtin_2 : In u_foot builtin_units. Proof. simpl; auto. Qed.
Lemma in_builtin_3 : In u_inch builtin_units. Proof. simpl; auto. Qed.

Theorem constants : forall T, units_ok T = true ->
  (exists y, convert_tbl (link_table T) u_meter u_centimeter 1 = Val y /\ y == 100) /\
  (exists y, convert_tbl (link_table T) u_foot u_meter 1 = Val y /\ y == 3048 # 10000) /\
  (exists y, convert_tbl (link_table T) u_foot u_inch 1 = Val y /\ y == 12).
Proof.
  intros T HT. repeat split.
  - destruct (builtin_factor T u_meter u_centimeter 1 HT in_builtin_0 in_builtin_1) as (y & H & E).
    exists y. split; [exact H|]. rewrite E. vm_compute. reflexivity.
  - destruct (builtin_factor T u_foot u_meter 1 HT in_builtin_2 in_builtin_0) as (y & H & E).
    exists y. split; [exact H|]. rewrite E. vm_compute. reflexivity.
  - destruct (builtin_factor T u_foot u_inch 1 HT in_builtin_2 in_builtin_3) as (y & H & E).
    exists y. split; [exact H|]. rewrite E. vm_compute. reflexivity.
Qed.

(* ------------------------------------------------------------------ *)
(* Regenerated sensor constants *)

Lemma consts_ok_inv K : consts_ok K = true ->
  c_pw_unit K = u_inch /\ c_pw_div K == us147 /\
  c_an_unit K = u_centimeter /\ c_an_div K == mv4_9 /\
  c_scale K == 250 /\ c_offset K == 25 /\ c_floor K == v_floor /\ c_zero K == 0 /\
  c_cal_floor K == v_floor /\ c_cal_slope K == 4 # 1000 /\ c_cal_off K == 1 # 10.
Proof.
  unfold consts_ok. rewrite !andb_true_iff, !Nat.eqb_eq, !Qeq_bool_iff. tauto.
Qed.

Lemma v_floor_pos : 0 < v_floor. Proof. reflexivity. Qed.

Theorem consts_ok_floor_pos K : consts_ok K = true -> 0 < c_floor K /\ 0 < c_cal_floor K.
Proof.
  intro H. destruct (consts_ok_inv K H) as (_ & _ & _ & _ & _ & _ & Hf & _ & Hcf & _).
  rewrite Hf, Hcf. split; exact v_floor_pos.
Qed.

(* ------------------------------------------------------------------ *)
(* Sonar *)

Theorem sonar_pw_scale : forall T K out period,
  units_ok T = true -> consts_ok K = true -> In out builtin_units ->
  exists y, sonar_pw K (link_table T) out period = Val y /\
            y == (period / us147) * metres_per u_inch / metres_per out.
Proof.
  intros T K out period HT HK Io. unfold sonar_pw.
  destruct (consts_ok_inv K HK) as (Hu & Hd & _). rewrite Hu.
  destruct (builtin_factor T u_inch out (period / c_pw_div K) HT in_builtin_3 Io) as (y & H & E).
  exists y. split; [exact H|]. rewrite E, Hd. reflexivity.
Qed.

Theorem sonar_an_scale : forall T K out v,
  units_ok T = true -> consts_ok K = true -> In out builtin_units ->
  exists y, sonar_an K (link_table T) out v = Val y /\
            y == (v / mv4_9) * metres_per u_centimeter / metres_per out.
Proof.
  intros T K out v HT HK Io. unfold sonar_an.
  destruct (consts_ok_inv K HK) as (_ & _ & Hu & Hd & _). rewrite Hu.
  destruct (builtin_factor T u_centimeter out (v / c_an_div K) HT in_builtin_1 Io) as (y & H & E).
  exists y. split; [exact H|]. rewrite E, Hd. reflexivity.
Qed.

Lemma mul_div_cancel a m : ~ m == 0 -> a * m / m == a.
Proof. intro H. field. exact H. Qed.

Theorem sonar_pw_inches : forall T K period, units_ok T = true -> consts_ok K = true ->
  exists y, sonar_pw K (link_table T) u_inch period = Val y /\ y == period / (147 # 1000000).
Proof.
  intros T K period HT HK.
  destruct (sonar_pw_scale T K u_inch period HT HK in_builtin_3) as (y & H & E).
  exists y. split; [exact H|]. rewrite E.
  apply (mul_div_cancel (period / us147)). exact (metres_per_nonzero _ in_builtin_3).
Qed.

Theorem sonar_an_centimetres : forall T K v, units_ok T = true -> consts_ok K = true ->
  exists y, sonar_an K (link_table T) u_centimeter v = Val y /\ y == v / (49 # 10000).
Proof.
  intros T K v HT HK.
  destruct (sonar_an_scale T K u_centimeter v HT HK in_builtin_1) as (y & H & E).
  exists y. split; [exact H|]. rewrite E.
  apply (mul_div_cancel (v / mv4_9)). exact (metres_per_nonzero _ in_builtin_1).
Qed.

(* ------------------------------------------------------------------ *)
(* Pressure *)

Lemma pymax_ge a b : b <= a -> pymax a b = a.
Proof.
  intro H. unfold pymax, Qltb. apply Qle_bool_iff in H. rewrite H. reflexivity.
Qed.

Lemma pymax_lt a b : a < b -> pymax a b = b.
Proof.
  intro H. unfold pymax, Qltb. destruct (Qle_bool b a) eqn:E; [|reflexivity].
  apply Qle_bool_iff in E. exfalso. lra.
Qed.

Lemma pymax_bound a b : b <= pymax a b /\ a <= pymax a b.
Proof.
  destruct (Qlt_le_dec a b) as [H|H].
  - rewrite (pymax_lt a b H). lra.
  - rewrite (pymax_ge a b H). lra.
Qed.

(* the floor may be any fraction with the documented value *)
Lemma pymax_floor_eq a b b' : b == b' -> pymax a b == pymax a b'.
Proof.
  intro E. destruct (Qlt_le_dec a b) as [H|H].
  - rewrite (pymax_lt a b H), (pymax_lt a b') by lra. exact E.
  - rewrite (pymax_ge a b H), (pymax_ge a b') by lra. reflexivity.
Qed.

Lemma pymax_floor_pos v : 0 < pymax v v_floor.
Proof. pose proof (pymax_bound v v_floor). pose proof v_floor_pos. lra. Qed.

Lemma pydiv_nonzero a b : ~ b == 0 -> pydiv a b = Val (a / b).
Proof.
  intro H. unfold pydiv. destruct (Qeq_bool b 0) eqn:E; [|reflexivity].
  apply Qeq_bool_iff in E. contradiction.
Qed.

Lemma pydiv_zero a b : b == 0 -> pydiv a b = Raise ZeroDivisionError.
Proof. intro H. unfold pydiv. apply Qeq_bool_iff in H. rewrite H. reflexivity. Qed.

(* ------------------------------------------------------------------ *)
(* One sensor object over a sequence of calls (reads and calibrations) *)

Definition is_read (o : sop) : Prop :=
  match o with OpRead _ => True | OpCalibrate _ _ => False | OpSetSupply _ => False end.

(* a call that is not calibrate(): a read, or an assignment of voltage_in *)
Definition no_calibrate (o : sop) : Prop :=
  match o with OpRead _ => True | OpCalibrate _ _ => False | OpSetSupply _ => True end.

(* what an observation must look like if no read ever raises *)
Definition read_returns (o : sobs) : Prop :=
  match o with ObsRead r => exists y, r = Val y | ObsCalibrate _ => True | ObsSet => True end.

(* the attribute voltage_in after the calls [ops], [vcc] being its value before
   them: the last value assigned to it, if any *)
Fixpoint last_supply (vcc : Q) (ops : list sop) : Q :=
  match ops with
  | [] => vcc
  | OpRead _ :: r => last_supply vcc r
  | OpCalibrate _ _ :: r => last_supply vcc r
  | OpSetSupply x :: r => last_supply x r
  end.

(* the calibration in force after the calls [ops]: the last calibrate(p) with
   p <> -25 (calibrate(-25) raises and assigns nothing), as (voltage, p) *)
Fixpoint last_cal_from (acc : option (Q * Q)) (ops : list sop) : option (Q * Q) :=
  match ops with
  | [] => acc
  | OpRead _ :: r => last_cal_from acc r
  | OpSetSupply _ :: r => last_cal_from acc r
  | OpCalibrate v p :: r =>
      last_cal_from (if Qeq_bool p (-25) then acc else Some (v, p)) r
  end.
Definition last_cal (ops : list sop) : option (Q * Q) := last_cal_from None ops.

Lemma final_state_cons K s o r :
  final_state K s (o :: r) = final_state K (step_state K s o) r.
Proof. reflexivity. Qed.

Lemma final_state_app K s a b :
  final_state K s (a ++ b) = final_state K (final_state K s a) b.
Proof. unfold final_state. apply fold_left_app. Qed.

Lemma observations_app K s a b :
  observations K s (a ++ b) = observations K s a ++ observations K (final_state K s a) b.
Proof.
  revert s. induction a as [|o a IH]; intro s; [reflexivity|].
  simpl. rewrite IH. reflexivity.
Qed.

(* reads never change the object *)
Theorem reads_keep_state K s ops : Forall is_read ops -> final_state K s ops = s.
Proof.
  induction 1 as [|o r Ho _ IH]; [reflexivity|].
  destruct o; [exact IH | destruct Ho | destruct Ho].
Qed.

Lemma is_read_no_calibrate o : is_read o -> no_calibrate o.
Proof. destruct o; simpl; tauto. Qed.

Lemma reads_no_calibrate ops : Forall is_read ops -> Forall no_calibrate ops.
Proof. intro H. eapply Forall_impl; [|exact H]. exact is_read_no_calibrate. Qed.

(* calibrate() never touches voltage_in, and leaves Vn assigned *)
Lemma calibrate_result K s v p s' : calibrate K s v p = Val s' ->
  voltage_in s' = voltage_in s /\ exists n, vn s' = Some n.
Proof.
  unfold calibrate. destruct (pydiv _ _) as [n|e|]; try discriminate.
  intro H. injection H as <-. split; [reflexivity|]. exists n. reflexivity.
Qed.

Lemma step_voltage_in K s o : voltage_in (step_state K s o) = last_supply (voltage_in s) [o].
Proof.
  destruct o as [v|v p|x]; simpl; try reflexivity.
  destruct (calibrate K s v p) as [s'|e|] eqn:E; try reflexivity.
  exact (proj1 (calibrate_result K s v p s' E)).
Qed.

(* voltage_in is, after ANY calls, the last value assigned to it: neither a
   read nor calibrate() (returning or raising) changes it *)
Theorem final_voltage_in K : forall ops s,
  voltage_in (final_state K s ops) = last_supply (voltage_in s) ops.
Proof.
  induction ops as [|o r IH]; intro s; [reflexivity|].
  rewrite final_state_cons, IH, step_voltage_in. destruct o; reflexivity.
Qed.

(* only calibrate() assigns Vn *)
Theorem no_calibrate_keeps_vn K : forall ops s,
  Forall no_calibrate ops -> vn (final_state K s ops) = vn s.
Proof.
  induction ops as [|o r IH]; intros s H; [reflexivity|].
  inversion H as [|? ? Ho Hr]; subst.
  rewrite final_state_cons, (IH _ Hr).
  destruct o; [reflexivity | destruct Ho | reflexivity].
Qed.

(* the object after reads and assignments of voltage_in *)
Theorem no_calibrate_state K s ops : Forall no_calibrate ops ->
  final_state K s ops = {| voltage_in := last_supply (voltage_in s) ops; vn := vn s |}.
Proof.
  intro H.
  pose proof (final_voltage_in K ops s) as A.
  pose proof (no_calibrate_keeps_vn K ops s H) as B.
  destruct (final_state K s ops) as [a b]. simpl in A, B. subst. reflexivity.
Qed.

(* the getter depends on the object only through getattr(self, "Vn", self.voltage_in) *)
Lemma pressure_supply K s s' v : supply s = supply s' -> pressure K s v = pressure K s' v.
Proof. intro E. unfold pressure, pressure_try. rewrite E. reflexivity. Qed.

(* s.voltage_in = vcc: nothing is returned or raised; Vn stays; an
   uncalibrated sensor divides by the new value from the next read on, a
   calibrated one reads as before *)
Theorem step_set_supply K : forall s vcc,
  step_obs K s (OpSetSupply vcc) = ObsSet /\
  voltage_in (step_state K s (OpSetSupply vcc)) = vcc /\
  vn (step_state K s (OpSetSupply vcc)) = vn s /\
  (vn s = None -> supply (step_state K s (OpSetSupply vcc)) = vcc) /\
  (vn s <> None -> forall v, pressure K (step_state K s (OpSetSupply vcc)) v = pressure K s v).
Proof.
  intros s vcc. repeat split.
  - intro E. unfold supply. simpl. rewrite E. reflexivity.
  - intros E v. apply pressure_supply. unfold supply. simpl.
    destruct (vn s); [reflexivity|contradiction].
Qed.

Section Pressure.
Variable K : sconsts.
Hypothesis HK : consts_ok K = true.

Let Hscale : c_scale K == 250. Proof. exact (proj1 (proj2 (proj2 (proj2 (proj2 (consts_ok_inv K HK)))))). Qed.
Let Hoffset : c_offset K == 25.
Proof. exact (proj1 (proj2 (proj2 (proj2 (proj2 (proj2 (consts_ok_inv K HK))))))). Qed.
Let Hfloor : c_floor K == v_floor.
Proof. exact (proj1 (proj2 (proj2 (proj2 (proj2 (proj2 (proj2 (consts_ok_inv K HK)))))))). Qed.
Let Hzero : c_zero K == 0.
Proof. exact (proj1 (proj2 (proj2 (proj2 (proj2 (proj2 (proj2 (proj2 (consts_ok_inv K HK))))))))). Qed.
Let Hcfloor : c_cal_floor K == v_floor.
Proof. exact (proj1 (proj2 (proj2 (proj2 (proj2 (proj2 (proj2 (proj2 (proj2 (consts_ok_inv K HK)))))))))). Qed.
Let Hslope : c_cal_slope K == 4 # 1000.
Proof. exact (proj1 (proj2 (proj2 (proj2 (proj2 (proj2 (proj2 (proj2 (proj2 (proj2 (consts_ok_inv K HK))))))))))). Qed.
Let Hcoff : c_cal_off K == 1 # 10.
Proof. exact (proj2 (proj2 (proj2 (proj2 (proj2 (proj2 (proj2 (proj2 (proj2 (proj2 (consts_ok_inv K HK))))))))))). Qed.

Theorem pressure_formula : forall s v,
  v_floor <= v -> ~ supply s == 0 ->
  exists y, pressure K s v = Val y /\ y == 250 * (v / supply s) - 25.
Proof.
  intros s v Hv Hs. unfold pressure, pressure_try.
  assert (Hv' : c_floor K <= v) by (rewrite Hfloor; exact Hv).
  rewrite (pymax_ge v _ Hv'), (pydiv_nonzero _ _ Hs).
  eexists. split; [reflexivity|]. rewrite Hscale, Hoffset. reflexivity.
Qed.

Theorem pressure_below_floor : forall s v,
  v <= v_floor -> ~ supply s == 0 ->
  exists y, pressure K s v = Val y /\ y == 250 * (v_floor / supply s) - 25.
Proof.
  intros s v Hv Hs. unfold pressure, pressure_try.
  rewrite (pydiv_nonzero _ _ Hs). eexists. split; [reflexivity|].
  rewrite Hscale, Hoffset, (pymax_floor_eq v _ _ Hfloor).
  destruct (Qlt_le_dec v v_floor) as [H|H].
  - rewrite (pymax_lt _ _ H). reflexivity.
  - rewrite (pymax_ge _ _ H). assert (E : v == v_floor) by lra. rewrite E. reflexivity.
Qed.

Theorem pressure_total : forall s v,
  exists y, pressure K s v = Val y /\
    (supply s == 0 -> y == 0) /\
    (~ supply s == 0 -> y == 250 * (pymax v v_floor / supply s) - 25).
Proof.
  intros s v. unfold pressure, pressure_try.
  destruct (Qeq_dec (supply s) 0) as [E|E].
  - rewrite (pydiv_zero _ _ E). eexists. split; [reflexivity|]. split; [intros _; exact Hzero|tauto].
  - rewrite (pydiv_nonzero _ _ E). eexists. split; [reflexivity|]. split; [tauto|].
    intros _. rewrite Hscale, Hoffset, (pymax_floor_eq v _ _ Hfloor). reflexivity.
Qed.

(* the `except` branch is taken exactly when the supply voltage is zero *)
Theorem pressure_zero_branch : forall s v,
  pressure_try K s v = Raise ZeroDivisionError <-> supply s == 0.
Proof.
  intros s v. unfold pressure_try. split.
  - destruct (Qeq_dec (supply s) 0) as [E|E]; [tauto|].
    rewrite (pydiv_nonzero _ _ E). discriminate.
  - intro E. rewrite (pydiv_zero _ _ E). reflexivity.
Qed.

Lemma calib_den p : ~ p == -25 -> ~ (4 # 1000) * p + (1 # 10) == 0.
Proof. intros H E. apply H. lra. Qed.

Lemma cal_algebra m' m p : 0 < m -> ~ p == -25 ->
  250 * (m' / (m / ((4 # 1000) * p + (1 # 10)))) - 25 == (p + 25) * (m' / m) - 25.
Proof.
  intros Hm Hp. pose proof (calib_den p Hp) as Hd.
  field; repeat split; solve [exact Hd | lra].
Qed.

Lemma div_nonzero a b : ~ a == 0 -> ~ b == 0 -> ~ a / b == 0.
Proof.
  intros Ha Hb E. apply Ha.
  setoid_replace a with (a / b * b) by (field; exact Hb). rewrite E. ring.
Qed.

(* after calibrate(p) at voltage v: the state, and the reading at any v' *)
Theorem calibrated_general : forall s v p v',
  ~ p == -25 ->
  exists s' y,
    calibrate K s v p = Val s' /\ voltage_in s' = voltage_in s /\
    ~ supply s' == 0 /\
    pressure K s' v' = Val y /\
    y == (p + 25) * (pymax v' v_floor / pymax v v_floor) - 25.
Proof.
  intros s v p v' Hp.
  assert (Hd : ~ c_cal_slope K * p + c_cal_off K == 0).
  { rewrite Hslope, Hcoff. exact (calib_den p Hp). }
  pose proof (pymax_floor_pos v) as Hv.
  assert (Evo : pymax v (c_cal_floor K) == pymax v v_floor) by exact (pymax_floor_eq v _ _ Hcfloor).
  assert (Hvo : ~ pymax v (c_cal_floor K) == 0) by (rewrite Evo; lra).
  unfold calibrate. rewrite (pydiv_nonzero _ _ Hd).
  eexists. eexists. split; [reflexivity|]. split; [reflexivity|].
  pose proof (div_nonzero _ _ Hvo Hd) as Hn.
  split; [exact Hn|].
  unfold pressure, pressure_try, supply. simpl.
  rewrite (pydiv_nonzero _ _ Hn). split; [reflexivity|].
  rewrite Hscale, Hoffset, (pymax_floor_eq v' _ _ Hfloor), Evo, Hslope, Hcoff.
  apply cal_algebra; [exact Hv|exact Hp].
Qed.

Theorem calibrated : forall s v p,
  0 <= p ->
  exists s' y,
    calibrate K s v p = Val s' /\ voltage_in s' = voltage_in s /\
    pressure K s' v = Val y /\ y == p.
Proof.
  intros s v p Hp.
  assert (Hp' : ~ p == -25) by lra.
  destruct (calibrated_general s v p v Hp') as (s' & y & Hc & Hvi & _ & Hy & E).
  exists s', y. repeat split; try assumption.
  rewrite E. pose proof (pymax_floor_pos v) as Hv. field. lra.
Qed.

Theorem calibrate_raises : forall s v p,
  p == -25 -> calibrate K s v p = Raise ZeroDivisionError.
Proof.
  intros s v p Hp. unfold calibrate. rewrite pydiv_zero; [reflexivity|].
  rewrite Hslope, Hcoff. lra.
Qed.

(* ---- sequences of calls on one object ---- *)

Lemma step_calibrate_ok s v p s' : calibrate K s v p = Val s' ->
  step_state K s (OpCalibrate v p) = s' /\ step_obs K s (OpCalibrate v p) = ObsCalibrate (Val tt).
Proof. intro H. unfold step_state, step_obs. rewrite H. split; reflexivity. Qed.

Theorem step_calibrate_returns : forall s v p, ~ p == -25 ->
  step_obs K s (OpCalibrate v p) = ObsCalibrate (Val tt).
Proof.
  intros s v p Hp. destruct (calibrated_general s v p v Hp) as (s' & _ & Hc & _).
  exact (proj2 (step_calibrate_ok s v p s' Hc)).
Qed.

Theorem step_calibrate_fails : forall s v p, p == -25 ->
  step_state K s (OpCalibrate v p) = s /\
    step_obs K s (OpCalibrate v p) = ObsCalibrate (Raise ZeroDivisionError).
Proof.
  intros s v p Hp. unfold step_state, step_obs. rewrite (calibrate_raises s v p Hp).
  split; reflexivity.
Qed.

(* the object after  pre ; calibrate(p) at v ; reads and assignments of
   voltage_in : the getter divides by the Vn of that calibration *)
Lemma state_after_calibrate s0 pre v p mid s' : Forall no_calibrate mid ->
  calibrate K (final_state K s0 pre) v p = Val s' ->
  supply (final_state K s0 (pre ++ OpCalibrate v p :: mid)) = supply s'.
Proof.
  intros Hm Hc. rewrite final_state_app, final_state_cons.
  rewrite (proj1 (step_calibrate_ok _ v p s' Hc)).
  destruct (calibrate_result K _ v p s' Hc) as (_ & n & Hn).
  unfold supply. rewrite (no_calibrate_keeps_vn K mid s' Hm), Hn. reflexivity.
Qed.

Lemma observations_last s0 ops v :
  observations K s0 (ops ++ [OpRead v]) =
  observations K s0 ops ++ [ObsRead (pressure K (final_state K s0 ops) v)].
Proof. rewrite observations_app. reflexivity. Qed.

(* whatever was done with the object before (reads, calibrations, failed
   calibrations, assignments of voltage_in), and however many reads at whatever
   voltages and assignments of voltage_in follow the calibration: at the
   calibration voltage the sensor reports p *)
Theorem history_calibrated : forall s0 pre v p mid,
  0 <= p -> Forall no_calibrate mid ->
  exists obs y,
    observations K s0 (pre ++ OpCalibrate v p :: mid ++ [OpRead v]) = obs ++ [ObsRead (Val y)] /\
    y == p.
Proof.
  intros s0 pre v p mid Hp Hm.
  destruct (calibrated (final_state K s0 pre) v p Hp) as (s' & y & Hc & _ & Hy & E).
  exists (observations K s0 (pre ++ OpCalibrate v p :: mid)), y. split; [|exact E].
  rewrite app_comm_cons, app_assoc, observations_last.
  rewrite (pressure_supply K _ s' v (state_after_calibrate s0 pre v p mid s' Hm Hc)), Hy. reflexivity.
Qed.

(* ... and at any other voltage v' (p <> -25) *)
Theorem history_calibrated_general : forall s0 pre v p mid v',
  ~ p == -25 -> Forall no_calibrate mid ->
  exists obs y,
    observations K s0 (pre ++ OpCalibrate v p :: mid ++ [OpRead v']) = obs ++ [ObsRead (Val y)] /\
    y == (p + 25) * (pymax v' v_floor / pymax v v_floor) - 25.
Proof.
  intros s0 pre v p mid v' Hp Hm.
  destruct (calibrated_general (final_state K s0 pre) v p v' Hp) as (s' & y & Hc & _ & _ & Hy & E).
  exists (observations K s0 (pre ++ OpCalibrate v p :: mid)), y. split; [|exact E].
  rewrite app_comm_cons, app_assoc, observations_last.
  rewrite (pressure_supply K _ s' v' (state_after_calibrate s0 pre v p mid s' Hm Hc)), Hy. reflexivity.
Qed.

(* reads do not influence later reads: after any number of reads the sensor
   reports what it would have reported at once *)
Theorem history_reads_transparent : forall s reads v,
  Forall is_read reads ->
  observations K s (reads ++ [OpRead v]) = observations K s reads ++ [ObsRead (pressure K s v)].
Proof.
  intros s reads v Hr. rewrite observations_last, (reads_keep_state K s reads Hr). reflexivity.
Qed.

Theorem history_uncalibrated : forall vcc reads v,
  Forall is_read reads -> v_floor <= v -> ~ vcc == 0 ->
  exists obs y,
    observations K (new_sensor vcc) (reads ++ [OpRead v]) = obs ++ [ObsRead (Val y)] /\
    y == 250 * (v / vcc) - 25.
Proof.
  intros vcc reads v Hr Hv Hs.
  destruct (pressure_formula (new_sensor vcc) v Hv Hs) as (y & Hy & E).
  exists (observations K (new_sensor vcc) reads), y. split; [|exact E].
  rewrite (history_reads_transparent _ reads v Hr), Hy. reflexivity.
Qed.

(* an uncalibrated sensor divides by the voltage_in it has NOW: built with
   vcc0, then any reads and any assignments of voltage_in (the measured supply
   rail; or a placeholder / 0 at construction and the real value later), a read
   at v reports 250 v / Vcc - 25 for the LAST value Vcc given to voltage_in *)
Theorem history_supply_tracked : forall vcc0 ops v,
  Forall no_calibrate ops -> v_floor <= v -> ~ last_supply vcc0 ops == 0 ->
  exists obs y,
    observations K (new_sensor vcc0) (ops ++ [OpRead v]) = obs ++ [ObsRead (Val y)] /\
    y == 250 * (v / last_supply vcc0 ops) - 25.
Proof.
  intros vcc0 ops v H Hv Hs.
  destruct (pressure_formula (new_sensor (last_supply vcc0 ops)) v Hv Hs) as (y & Hy & E).
  exists (observations K (new_sensor vcc0) ops), y. split; [|exact E].
  rewrite observations_last, (no_calibrate_state K (new_sensor vcc0) ops H).
  simpl. unfold new_sensor in Hy. rewrite Hy. reflexivity.
Qed.

(* ... for every voltage and every value of voltage_in: never raises; 0 exactly
   while voltage_in is 0 *)
Theorem history_supply_total : forall vcc0 ops v,
  Forall no_calibrate ops ->
  exists obs y,
    observations K (new_sensor vcc0) (ops ++ [OpRead v]) = obs ++ [ObsRead (Val y)] /\
    (last_supply vcc0 ops == 0 -> y == 0) /\
    (~ last_supply vcc0 ops == 0 -> y == 250 * (pymax v v_floor / last_supply vcc0 ops) - 25).
Proof.
  intros vcc0 ops v H.
  destruct (pressure_total (new_sensor (last_supply vcc0 ops)) v) as (y & Hy & Hz & Hn).
  exists (observations K (new_sensor vcc0) ops), y. split; [|split; [exact Hz|exact Hn]].
  rewrite observations_last, (no_calibrate_state K (new_sensor vcc0) ops H).
  simpl. unfold new_sensor in Hy. rewrite Hy. reflexivity.
Qed.

(* no read of any history raises *)
Theorem history_reads_never_raise : forall ops s0,
  Forall read_returns (observations K s0 ops).
Proof.
  induction ops as [|o r IH]; intro s0; [constructor|].
  simpl. constructor; [|apply IH].
  destruct o as [v|v p|x]; simpl; [|exact I|exact I].
  destruct (pressure_total s0 v) as (y & Hy & _). exists y. exact Hy.
Qed.

(* complete description of the object after ANY sequence of calls *)
Definition reads_as (s0 s : sensor) (c : option (Q * Q)) : Prop :=
  match c with
  | None => vn s = vn s0
  | Some (vc, p) =>
      (exists n, vn s = Some n) /\
      forall v, exists y, pressure K s v = Val y /\
    y == (p + 25) * (pymax v v_floor / pymax vc v_floor) - 25
  end.

Lemma reads_as_step s0 : forall ops s acc,
  reads_as s0 s acc -> reads_as s0 (final_state K s ops) (last_cal_from acc ops).
Proof.
  induction ops as [|o r IH]; intros s acc H; [exact H|].
  rewrite final_state_cons. destruct o as [v|v p|x]; simpl last_cal_from.
  - apply IH. exact H.
  - apply IH. destruct (Qeq_bool p (-25)) eqn:E.
    + apply Qeq_bool_iff in E. rewrite (proj1 (step_calibrate_fails s v p E)). exact H.
    + assert (Hp : ~ p == -25) by (intro Hq; apply Qeq_bool_iff in Hq; congruence).
      destruct (calibrated_general s v p 0 Hp) as (s' & _ & Hc & _).
      rewrite (proj1 (step_calibrate_ok s v p s' Hc)).
      split; [exact (proj2 (calibrate_result K s v p s' Hc))|]. intro v'.
      destruct (calibrated_general s v p v' Hp) as (s'' & y & Hc' & _ & _ & Hy & Ey).
      rewrite Hc in Hc'. injection Hc' as <-. exists y. split; [exact Hy|exact Ey].
  - apply IH. destruct (step_set_supply K s x) as (_ & _ & Hvn & _ & Hcal).
    destruct acc as [[vc p]|]; unfold reads_as in H |- *.
    + destruct H as ((n & Hn) & Hr). split; [exists n; rewrite Hvn; exact Hn|].
      intro v. rewrite (Hcal ltac:(rewrite Hn; discriminate) v). exact (Hr v).
    + rewrite Hvn. exact H.
Qed.

(* voltage_in is the last value assigned to it; Vn is untouched while no
   calibrate(p <> -25) was called; else the object reads, at every voltage and
   whatever voltage_in is by now, as the last such calibration says *)
Theorem history_spec : forall s0 ops,
  voltage_in (final_state K s0 ops) = last_supply (voltage_in s0) ops /\
  reads_as s0 (final_state K s0 ops) (last_cal ops).
Proof.
  intros s0 ops. split; [apply final_voltage_in|]. apply reads_as_step. reflexivity.
Qed.

End Pressure.

(* ------------------------------------------------------------------ *)
(* Re-entrant unit definitions (callables that call convert()) *)

Lemma via_link_proper s d k :
  Forall link_proper s -> Forall link_proper d -> link_proper (via_link s d k).
Proof.
  intros Hs Hd. split; intros x y E; simpl.
  - apply convert_proper; [exact Hd|exact Hs|]. rewrite E. reflexivity.
  - rewrite (convert_proper s d x y Hs Hd E). reflexivity.
Qed.

(* a unit defined through convert() on units with mutually inverse callables
   has mutually inverse callables itself *)
Theorem via_link_inverse s d k :
  Forall link_inverse s -> Forall link_inverse d -> ~ k == 0 ->
  link_inverse (via_link s d k).
Proof.
  intros Hs Hd Hk.
  pose proof (inverse_proper_all s Hs) as Ps. pose proof (inverse_proper_all d Hd) as Pd.
  split; [exact (via_link_proper s d k Ps Pd)|]. split; intro x; simpl.
  - rewrite (there_and_back d s (x * k) Hd Hs). field. exact Hk.
  - transitivity (convert d s (convert s d x)).
    + apply convert_proper; [exact Pd|exact Ps|]. field. exact Hk.
    + apply there_and_back; assumption.
Qed.

Theorem via_link_linear s d k :
  Forall link_linear s -> Forall link_linear d -> ~ k == 0 ->
  link_linear (via_link s d k).
Proof.
  intros Hs Hd Hk.
  pose proof (linear_proper_all s Hs) as Ps. pose proof (linear_proper_all d Hd) as Pd.
  destruct (linear d s Hd Hs) as (Ads & Sds). destruct (linear s d Hs Hd) as (Asd & Ssd).
  split; [exact (via_link_proper s d k Ps Pd)|]. repeat split; intros; simpl.
  - rewrite <- Ads. apply convert_proper; [exact Pd|exact Ps|]. ring.
  - rewrite <- Sds. apply convert_proper; [exact Pd|exact Ps|]. ring.
  - rewrite Asd. field. exact Hk.
  - rewrite Ssd. field. exact Hk.
Qed.

Lemma affine_link_linear a : ~ a == 0 -> link_linear (affine_link a 0).
Proof.
  intro Ha. split; [split; intros x y E; simpl; rewrite E; reflexivity|].
  repeat split; intros; simpl; try ring; field; exact Ha.
Qed.

(* --- invariants of the definition list ----------------------------- *)

Lemma build_from_invariant (I : option nat * built -> Prop) (OK : option nat * uspec -> Prop) :
  (forall tbl e x, Forall I tbl -> OK e -> build_entry tbl e = Val x -> I x) ->
  forall spec tbl0 tbl, Forall I tbl0 -> Forall OK spec ->
  build_from tbl0 spec = Val tbl -> Forall I tbl.
Proof.
  intros Hstep. induction spec as [|e r IH]; intros tbl0 tbl H0 Hok H; simpl in H.
  - injection H as <-. exact H0.
  - inversion Hok as [|e' r' He Hr]; subst.
    destruct (build_entry tbl0 e) as [x| |] eqn:E; try discriminate.
    apply (IH (tbl0 ++ [x]) tbl); [|exact Hr|exact H].
    apply Forall_app. split; [exact H0|]. constructor; [|constructor].
    eapply Hstep; eassumption.
Qed.

Lemma build_units_invariant (I : option nat * built -> Prop) (OK : option nat * uspec -> Prop) :
  (forall tbl e x, Forall I tbl -> OK e -> build_entry tbl e = Val x -> I x) ->
  forall spec tbl, Forall OK spec -> build_units spec = Val tbl -> Forall I tbl.
Proof.
  intros Hstep spec tbl Hok H. eapply build_from_invariant; [exact Hstep|constructor|exact Hok|exact H].
Qed.

Lemma chain_links_have (R : link -> Prop) tbl u ch :
  Forall (fun e : option nat * built => fst e <> None -> R (b_link (snd e))) tbl ->
  chain_of tbl u = Val ch -> Forall R (links ch).
Proof.
  intros HT H. unfold links. apply Forall_map.
  eapply (chain_entries tbl (fun b => R (b_link b))); [exact HT|exact H].
Qed.

Lemma negb_Qeq_bool a : negb (Qeq_bool a 0) = true -> ~ a == 0.
Proof.
  intros H E. apply Qeq_bool_iff in E. rewrite E in H. discriminate.
Qed.

Lemma build_entry_inverse tbl e x :
  Forall (fun e : option nat * built => fst e <> None -> link_inverse (b_link (snd e))) tbl ->
  entry_ok e = true -> build_entry tbl e = Val x ->
  fst x <> None -> link_inverse (b_link (snd x)).
Proof.
  intros HT Hok H. unfold build_entry in H.
  destruct (parent_defined (length tbl) (fst e)); [|discriminate].
  unfold entry_ok in Hok. destruct e as [p sp]. simpl in *.
  destruct sp as [a b|s d k].
  - injection H as <-. simpl. intro Hp. destruct p; [|congruence].
    apply affine_link_inverse. apply negb_Qeq_bool. exact Hok.
  - destruct (chain_of tbl s) as [cs| |] eqn:Es; try discriminate.
    destruct (chain_of tbl d) as [cd| |] eqn:Ed; try discriminate.
    injection H as <-. simpl. intro Hp. destruct p; [|congruence].
    apply via_link_inverse.
    + eapply chain_links_have; [exact HT|exact Es].
    + eapply chain_links_have; [exact HT|exact Ed].
    + apply negb_Qeq_bool. exact Hok.
Qed.

Lemma build_entry_linear tbl e x :
  Forall (fun e : option nat * built => fst e <> None -> link_linear (b_link (snd e))) tbl ->
  entry_linear e = true -> build_entry tbl e = Val x ->
  fst x <> None -> link_linear (b_link (snd x)).
Proof.
  intros HT Hok H. unfold build_entry in H.
  destruct (parent_defined (length tbl) (fst e)); [|discriminate].
  unfold entry_linear in Hok. destruct e as [p sp]. simpl in *.
  destruct sp as [a b|s d k].
  - injection H as <-. simpl. intro Hp. destruct p; [|congruence].
    apply andb_true_iff in Hok. destruct Hok as (Ha & Hb).
    apply Qeq_bool_iff in Hb. apply negb_Qeq_bool in Ha.
    pose proof (affine_link_linear a Ha) as (P0 & L1 & L2 & L3 & L4).
    split; [split; intros x y E; simpl; rewrite E; reflexivity|].
    repeat split; intros; simpl in *.
    + rewrite Hb. rewrite (L1 x y). reflexivity.
    + rewrite Hb. rewrite (L2 c x). reflexivity.
    + rewrite Hb. rewrite (L3 x y). reflexivity.
    + rewrite Hb. rewrite (L4 c x). reflexivity.
  - destruct (chain_of tbl s) as [cs| |] eqn:Es; try discriminate.
    destruct (chain_of tbl d) as [cd| |] eqn:Ed; try discriminate.
    injection H as <-. simpl. intro Hp. destruct p; [|congruence].
    apply via_link_linear.
    + eapply chain_links_have; [exact HT|exact Es].
    + eapply chain_links_have; [exact HT|exact Ed].
    + apply negb_Qeq_bool. exact Hok.
Qed.

Lemma forallb_Forall {A} (f : A -> bool) l : forallb f l = true -> Forall (fun x => f x = true) l.
Proof. intro H. apply Forall_forall. apply forallb_forall. exact H. Qed.

(* every unit of a definition list with invertible arithmetic -- at any depth
   of chaining and of nesting of convert() calls -- has mutually inverse
   callables: the generic theorems apply to such tables *)
Theorem built_inverse : forall spec tbl,
  spec_ok spec = true -> build_units spec = Val tbl ->
  table_links_inverse (pure_table tbl).
Proof.
  intros spec tbl Hok H. unfold table_links_inverse, pure_table. apply Forall_map. simpl.
  eapply (build_units_invariant
            (fun e => fst e <> None -> link_inverse (b_link (snd e)))
            (fun e => entry_ok e = true)); [|apply forallb_Forall; exact Hok|exact H].
  intros t e x HT He Hb. exact (build_entry_inverse t e x HT He Hb).
Qed.

Theorem built_linear : forall spec tbl,
  spec_linear spec = true -> build_units spec = Val tbl ->
  table_links_linear (pure_table tbl).
Proof.
  intros spec tbl Hok H. unfold table_links_linear, pure_table. apply Forall_map. simpl.
  eapply (build_units_invariant
            (fun e => fst e <> None -> link_linear (b_link (snd e)))
            (fun e => entry_linear e = true)); [|apply forallb_Forall; exact Hok|exact H].
  intros t e x HT He Hb. exact (build_entry_linear t e x HT He Hb).
Qed.

(* --- consistency of convert() on such units ------------------------ *)

Theorem built_consistent : forall spec tbl,
  spec_ok spec = true -> build_units spec = Val tbl ->
  (forall u x y, convert_built tbl u u x = Val y -> y == x) /\
  (forall a b x y, convert_built tbl a b x = Val y ->
     exists z, convert_built tbl b a y = Val z /\ z == x) /\
  (forall a b c x y z, convert_built tbl a b x = Val y -> convert_built tbl b c y = Val z ->
     exists w, convert_built tbl a c x = Val w /\ z == w).
Proof.
  intros spec tbl Hok H. pose proof (built_inverse spec tbl Hok H) as HT.
  unfold convert_built. repeat split.
  - intros u x y. apply tbl_same_unit. exact HT.
  - intros a b x y. apply tbl_there_and_back. exact HT.
  - intros a b c x y z. apply tbl_composition. exact HT.
Qed.

Theorem built_convert_linear : forall spec tbl a b x1 x2 c y1 y2,
  spec_linear spec = true -> build_units spec = Val tbl ->
  convert_built tbl a b x1 = Val y1 -> convert_built tbl a b x2 = Val y2 ->
  (exists s, convert_built tbl a b (x1 + x2) = Val s /\ s == y1 + y2) /\
  (exists m, convert_built tbl a b (c * x1) = Val m /\ m == c * y1).
Proof.
  intros spec tbl a b x1 x2 c y1 y2 Hok H. unfold convert_built.
  apply tbl_linear. exact (built_linear spec tbl Hok H).
Qed.

(* --- units are defined in order: every loop of convert() ends ------- *)

Definition backward (tbl : list (option nat * built)) : Prop :=
  forall i p pl, nth_error tbl i = Some (Some p, pl) -> (p < i)%nat.

Lemma build_entry_parent tbl e x :
  build_entry tbl e = Val x -> forall p, fst x = Some p -> (p < length tbl)%nat.
Proof.
  unfold build_entry. destruct (parent_defined (length tbl) (fst e)) eqn:Ep; [|discriminate].
  assert (F : fst x = fst e -> forall p, fst x = Some p -> (p < length tbl)%nat).
  { intros E p Hp. rewrite E in Hp. rewrite Hp in Ep. simpl in Ep.
    apply Nat.ltb_lt. exact Ep. }
  destruct (snd e) as [a b|s d k].
  - intro H. injection H as <-. apply F. reflexivity.
  - destruct (chain_of tbl s) as [cs| |]; try discriminate.
    destruct (chain_of tbl d) as [cd| |]; try discriminate.
    intro H. injection H as <-. apply F. reflexivity.
Qed.

Lemma build_from_backward : forall spec tbl0 tbl,
  backward tbl0 -> build_from tbl0 spec = Val tbl -> backward tbl.
Proof.
  induction spec as [|e r IH]; intros tbl0 tbl H0 H; simpl in H.
  - injection H as <-. exact H0.
  - destruct (build_entry tbl0 e) as [x| |] eqn:E; try discriminate.
    apply (IH (tbl0 ++ [x]) tbl); [|exact H].
    intros i p pl Hn. destruct (Nat.lt_ge_cases i (length tbl0)) as [Hi|Hi].
    + rewrite nth_error_app1 in Hn by exact Hi. eapply H0. exact Hn.
    + rewrite nth_error_app2 in Hn by exact Hi.
      destruct (i - length tbl0)%nat as [|j] eqn:Ej.
      * simpl in Hn. injection Hn as Hx.
        assert (Hp : (p < length tbl0)%nat).
        { apply (build_entry_parent tbl0 e x E). rewrite Hx. reflexivity. }
        lia.
      * simpl in Hn. destruct j; discriminate.
Qed.

Lemma backward_chain {P} (tbl : list (option nat * P)) :
  (forall i p pl, nth_error tbl i = Some (Some p, pl) -> (p < i)%nat) ->
  forall fuel u, (u < fuel)%nat -> (u < length tbl)%nat -> exists ch, chain tbl fuel u = Val ch.
Proof.
  intros HB. induction fuel as [|f IH]; intros u Hf Hu; [lia|].
  simpl. destruct (nth_error tbl u) as [[[p|] pl]|] eqn:E.
  - pose proof (HB u p pl E) as Hp.
    destruct (IH p) as (r & Hr); [lia|lia|]. rewrite Hr. eexists. reflexivity.
  - eexists. reflexivity.
  - apply nth_error_None in E. lia.
Qed.

Theorem built_chains_finite : forall spec tbl u,
  build_units spec = Val tbl -> (u < length tbl)%nat ->
  exists ch, chain_of tbl u = Val ch.
Proof.
  intros spec tbl u H Hu. unfold chain_of. apply backward_chain; [|lia|exact Hu].
  apply (build_from_backward spec [] tbl); [|exact H].
  intros i p pl Hn. destruct i; discriminate.
Qed.

Lemma chain_of_pure tbl u :
  chain_of (pure_table tbl) u =
  match chain_of tbl u with
  | Val ch => Val (map (fun e => (fst e, b_link (snd e))) ch)
  | Raise e => Raise e
  | Loops => Loops
  end.
Proof. unfold pure_table. apply (chain_of_map b_link tbl u). Qed.

Lemma links_pure ch : map snd (map (fun e : nat * built => (fst e, b_link (snd e))) ch) = links ch.
Proof. unfold links. rewrite !map_map. reflexivity. Qed.

Theorem built_convert_returns : forall spec tbl a b x,
  build_units spec = Val tbl -> (a < length tbl)%nat -> (b < length tbl)%nat ->
  exists y, convert_built tbl a b x = Val y.
Proof.
  intros spec tbl a b x H Ha Hb.
  destruct (built_chains_finite spec tbl a H Ha) as (ca & Ea).
  destruct (built_chains_finite spec tbl b H Hb) as (cb & Eb).
  unfold convert_built, convert_tbl. rewrite !chain_of_pure, Ea, Eb. eexists. reflexivity.
Qed.

(* --- the logging callables compute the same numbers ----------------- *)

Definition erases (b : built) : Prop :=
  forall v, fst (l_up (b_llink b) v) = to_base (b_link b) (fst v) /\
            fst (l_down (b_llink b) v) = from_base (b_link b) (fst v).

Lemma fold_fst (f : llink -> lval -> lval) (g : link -> Q -> Q) bs :
  Forall (fun b => forall v, fst (f (b_llink b) v) = g (b_link b) (fst v)) bs ->
  forall v, fst (fold_left (fun acc l => f l acc) (map b_llink bs) v) =
            fold_left (fun acc l => g l acc) (map b_link bs) (fst v).
Proof.
  induction 1 as [|b r Hb Hr IH]; intro v; simpl; [reflexivity|].
  rewrite IH, Hb. reflexivity.
Qed.

Lemma lconvert_fst bs bd : Forall erases bs -> Forall erases bd ->
  forall v, fst (lconvert (map b_llink bs) (map b_llink bd) v) =
            convert (map b_link bs) (map b_link bd) (fst v).
Proof.
  intros Hs Hd v. unfold lconvert, convert, convert_with, unfold_down, fold_up.
  rewrite <- !map_rev.
  etransitivity.
  - apply (fold_fst l_down from_base (rev bd)).
    apply Forall_rev. eapply Forall_impl; [|exact Hd]. intros b Hb w. apply Hb.
  - f_equal. apply (fold_fst l_up to_base bs).
    eapply Forall_impl; [|exact Hs]. intros b Hb w. apply Hb.
Qed.

Lemma chain_built_have (R : built -> Prop) tbl u ch :
  Forall (fun e : option nat * built => R (snd e)) tbl ->
  chain_of tbl u = Val ch -> Forall R (map snd ch).
Proof.
  intros HT H. eapply (chain_entries tbl R); [|exact H].
  eapply Forall_impl; [|exact HT]. intros e He _. exact He.
Qed.

Lemma build_entry_erases tbl e x :
  Forall (fun e : option nat * built => erases (snd e)) tbl ->
  build_entry tbl e = Val x -> erases (snd x).
Proof.
  intros HT H. unfold build_entry in H.
  destruct (parent_defined (length tbl) (fst e)); [|discriminate].
  destruct (snd e) as [a b|s d k].
  - injection H as <-. intro v. split; reflexivity.
  - destruct (chain_of tbl s) as [cs| |] eqn:Es; try discriminate.
    destruct (chain_of tbl d) as [cd| |] eqn:Ed; try discriminate.
    injection H as <-.
    pose proof (chain_built_have erases tbl s cs HT Es) as Hs.
    pose proof (chain_built_have erases tbl d cd HT Ed) as Hd.
    intro v. split; simpl; unfold llinks, links.
    + rewrite (lconvert_fst _ _ Hd Hs). reflexivity.
    + rewrite (lconvert_fst _ _ Hs Hd). reflexivity.
Qed.

Lemma built_erases spec tbl :
  build_units spec = Val tbl -> Forall (fun e : option nat * built => erases (snd e)) tbl.
Proof.
  intro H. eapply (build_units_invariant (fun e => erases (snd e)) (fun _ => True));
    [|apply Forall_forall; intros; exact I|exact H].
  intros t e x HT _ Hb. exact (build_entry_erases t e x HT Hb).
Qed.

(* the number that the logging run returns is the number of the plain run *)
Theorem built_trace_value : forall spec tbl a b x,
  build_units spec = Val tbl ->
  match trace_built tbl a b x, convert_built tbl a b x with
  | Val r, Val y => fst r = y
  | Raise e, Raise e' => e = e'
  | Loops, Loops => True
  | _, _ => False
  end.
Proof.
  intros spec tbl a b x H. pose proof (built_erases spec tbl H) as HE.
  unfold trace_built, convert_built, convert_tbl. rewrite !chain_of_pure.
  destruct (chain_of tbl a) as [ca|ea|] eqn:Ea; [|reflexivity|exact I].
  destruct (chain_of tbl b) as [cb|eb|] eqn:Eb; [|reflexivity|exact I].
  rewrite !links_pure. unfold llinks, links.
  apply (lconvert_fst (map snd ca) (map snd cb)).
  - exact (chain_built_have erases tbl a ca HE Ea).
  - exact (chain_built_have erases tbl b cb HE Eb).
Qed.

(* --- the complete log ------------------------------------------------ *)

(* what one application of a callable appends to the log (it does not depend
   on the number or on the log so far, see [uniform]) *)
Definition up_log (ll : llink) : list (nat * bool) := snd (l_up ll (0, [])).
Definition down_log (ll : llink) : list (nat * bool) := snd (l_down ll (0, [])).

Definition uniform (ll : llink) : Prop :=
  forall v, snd (l_up ll v) = snd v ++ up_log ll /\ snd (l_down ll v) = snd v ++ down_log ll.

Lemma fold_snd (f : llink -> lval -> lval) (flog : llink -> list (nat * bool)) ls :
  Forall (fun l => forall v, snd (f l v) = snd v ++ flog l) ls ->
  forall v, snd (fold_left (fun acc l => f l acc) ls v) = snd v ++ concat (map flog ls).
Proof.
  induction 1 as [|l r Hl Hr IH]; intro v; simpl; [symmetry; apply app_nil_r|].
  rewrite IH, Hl, <- app_assoc. reflexivity.
Qed.

(* convert() appends: the callables' logs up the source chain in order, then
   down the target chain from the root end -- each callable's log in one
   piece, nested activations included *)
Theorem lconvert_log ls ld : Forall uniform ls -> Forall uniform ld ->
  forall v, snd (lconvert ls ld v) =
            snd v ++ concat (map up_log ls) ++ concat (map down_log (rev ld)).
Proof.
  intros Hs Hd v. unfold lconvert, convert_with, unfold_down, fold_up.
  rewrite (fold_snd l_down down_log (rev ld)).
  - rewrite (fold_snd l_up up_log ls).
    + rewrite <- app_assoc. reflexivity.
    + eapply Forall_impl; [|exact Hs]. intros l Hl w. apply Hl.
  - apply Forall_rev. eapply Forall_impl; [|exact Hd]. intros l Hl w. apply Hl.
Qed.

Theorem logged_log u l :
  uniform (logged u l) /\ up_log (logged u l) = [(u, true)] /\ down_log (logged u l) = [(u, false)].
Proof. split; [intro v; split; reflexivity|split; reflexivity]. Qed.

Theorem lvia_log u s d k : Forall uniform s -> Forall uniform d ->
  uniform (lvia u s d k) /\
  up_log (lvia u s d k) = (u, true) :: concat (map up_log d) ++ concat (map down_log (rev s)) /\
  down_log (lvia u s d k) = (u, false) :: concat (map up_log s) ++ concat (map down_log (rev d)).
Proof.
  intros Hs Hd.
  assert (U : up_log (lvia u s d k) = (u, true) :: concat (map up_log d) ++ concat (map down_log (rev s))).
  { unfold up_log at 1. simpl. rewrite (lconvert_log d s Hd Hs). reflexivity. }
  assert (D : down_log (lvia u s d k) = (u, false) :: concat (map up_log s) ++ concat (map down_log (rev d))).
  { unfold down_log at 1. simpl. rewrite (lconvert_log s d Hs Hd). reflexivity. }
  split; [|split; assumption].
  intro v. rewrite U, D. split; simpl.
  - rewrite (lconvert_log d s Hd Hs). simpl. rewrite <- app_assoc. reflexivity.
  - rewrite (lconvert_log s d Hs Hd). simpl. rewrite <- app_assoc. reflexivity.
Qed.

Lemma build_entry_uniform tbl e x :
  Forall (fun e : option nat * built => uniform (b_llink (snd e))) tbl ->
  build_entry tbl e = Val x -> uniform (b_llink (snd x)).
Proof.
  intros HT H. unfold build_entry in H.
  destruct (parent_defined (length tbl) (fst e)); [|discriminate].
  destruct (snd e) as [a b|s d k].
  - injection H as <-. apply logged_log.
  - destruct (chain_of tbl s) as [cs| |] eqn:Es; try discriminate.
    destruct (chain_of tbl d) as [cd| |] eqn:Ed; try discriminate.
    injection H as <-. simpl. apply lvia_log; unfold llinks; apply Forall_map.
    + exact (chain_built_have (fun b => uniform (b_llink b)) tbl s cs HT Es).
    + exact (chain_built_have (fun b => uniform (b_llink b)) tbl d cd HT Ed).
Qed.

Lemma built_uniform spec tbl :
  build_units spec = Val tbl -> Forall (fun e : option nat * built => uniform (b_llink (snd e))) tbl.
Proof.
  intro H. eapply (build_units_invariant (fun e => uniform (b_llink (snd e))) (fun _ => True));
    [|apply Forall_forall; intros; exact I|exact H].
  intros t e x HT _ Hb. exact (build_entry_uniform t e x HT Hb).
Qed.

(* the log of convert(a, b, x) on a definition list, for every x *)
Theorem built_trace_log : forall spec tbl a b x ca cb,
  build_units spec = Val tbl -> chain_of tbl a = Val ca -> chain_of tbl b = Val cb ->
  exists r, trace_built tbl a b x = Val r /\
            snd r = concat (map up_log (llinks ca)) ++ concat (map down_log (rev (llinks cb))).
Proof.
  intros spec tbl a b x ca cb H Ea Eb. pose proof (built_uniform spec tbl H) as HU.
  unfold trace_built. rewrite Ea, Eb. eexists. split; [reflexivity|].
  rewrite lconvert_log; [reflexivity| |]; unfold llinks; apply Forall_map.
  - exact (chain_built_have (fun b => uniform (b_llink b)) tbl a ca HU Ea).
  - exact (chain_built_have (fun b => uniform (b_llink b)) tbl b cb HU Eb).
Qed.
