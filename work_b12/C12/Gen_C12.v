From Coq Require Import List String Bool.
From RV Require Import Defs.Model Defs.Spec Defs.Proofs Properties.C12.
From W Require Import Gen_reserved.
Import ListNotations.
Open Scope string_scope.
Definition probe (n : string) (k : deco) : decl :=
  {| d_fname := n; d_params := [{| p_name := "self"; p_kind := PosOrKw |}]; d_doc := None; d_deco := k |}.
Definition rejected_name (n : string) (k : deco) : bool :=
  match construct gen_reserved (probe n k) with Err EInvalidStateName => true | _ => false end.
Lemma gen_reserved_all_rejected :
  forallb (fun n => forallb (rejected_name n) [DState false false; DTimed false false; DDefault]) gen_reserved = true.
Proof. vm_compute. reflexivity. Qed.
Definition impl_name_reject_iff := C12_name_reject_iff gen_reserved.
Definition impl_define_ok_iff := C12_define_ok_iff gen_reserved.
Lemma impl_reserved_rejected : forall n d, In n gen_reserved -> d_fname d = n ->
  construct gen_reserved d = Err EInvalidStateName.
Proof. intros n d H E. apply (proj2 (C12_name_reject_iff gen_reserved d)). rewrite E. exact H. Qed.
Print Assumptions impl_reserved_rejected.
(* the two attributes instantiation sets on the class are reserved names of today's StateMachine, so
   histories over the classes of any accepted module are judged class by class *)
Lemma gen_reserved_has_published : In "state_names" gen_reserved /\ In "state_descriptions" gen_reserved.
Proof. split; apply mem_In; vm_compute; reflexivity. Qed.
Definition impl_history cs ds nt h k mro cname :=
  C12_history_module gen_reserved cs ds nt h k mro cname
    (proj1 gen_reserved_has_published) (proj2 gen_reserved_has_published).
Check (impl_history : forall cs ds nt h k mro cname, define_all gen_reserved cs = Ok ds ->
  nth_error h k = Some (EInst mro cname) ->
  nth_error (run_history {| w_dicts := ds; w_nt := nt |} h) k = Some (class_outcome ds mro)).
Print Assumptions impl_history.
