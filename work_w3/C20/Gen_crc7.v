From Coq Require Import NArith List.
From RV Require Import CRC.Model.
Definition gen_crc7 (T : list N) (data : list N) : N :=
  fold_left (fun csum d => nth (N.to_nat (N.lxor d csum)) T 0%N) data 0%N.
Lemma fold_ext (f g : N -> N -> N) : (forall a b, f a b = g a b) -> forall l a, fold_left f l a = fold_left g l a.
Proof. intros H l; induction l as [|x l IH]; intros a; cbn; [reflexivity | rewrite H; apply IH]. Qed.
Lemma src_crc7 : forall T data, gen_crc7 T data = crc_table T data.
Proof. intros T data; unfold gen_crc7, crc_table; apply fold_ext; intros a b;
  first [reflexivity | rewrite N.lxor_comm; reflexivity]. Qed.
