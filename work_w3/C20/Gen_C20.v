From Coq Require Import NArith List.
From RV Require Import CRC.Model CRC.Proofs Properties.C20.
From W Require Import Gen_table.
Lemma gen_table_ok : table_ok gen_table = true.
Proof. vm_compute. reflexivity. Qed.
Definition impl_table_equals_bitwise := C20_table_equals_bitwise gen_table gen_table_ok.
Definition impl_no_index_error := C20_no_index_error gen_table gen_table_ok.
Definition impl_seven_bits := C20_seven_bits gen_table gen_table_ok.
Definition impl_linear := C20_linear gen_table gen_table_ok.
Definition impl_single_bit := C20_single_bit gen_table gen_table_ok.
Definition impl_double_bit := C20_double_bit gen_table gen_table_ok.
Definition impl_burst7 := C20_burst7 gen_table gen_table_ok.
Print Assumptions impl_burst7.
