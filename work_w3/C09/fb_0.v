From Coq Require Import String List Bool ZArith NArith.
From RV Require Import Tunable.Model Tunable.Compare.
Import ListNotations.
Open Scope string_scope.
Definition s0 : string := "components"%string.
Definition s1 : string := "fb0"%string.
Definition s2 : string := "get_x"%string.
Definition s3 : string := "/components/fb0/x"%string.
Definition s4 : string := "double[]"%string.
Definition s5 : string := "fb1"%string.
Definition s6 : string := "k"%string.
Definition s7 : string := "/components/fb1/k"%string.
Definition s8 : string := "boolean"%string.
Definition s9 : string := "fb2"%string.
Definition s10 : string := ""%string.
Definition s11 : string := "/components/fb2/"%string.
Definition s12 : string := "int"%string.
Definition s13 : string := "robot"%string.
Definition s14 : string := "get_k"%string.
Definition s15 : string := "/robot/get_k"%string.
Definition s16 : string := "fb4"%string.
Definition s17 : string := "sub/k"%string.
Definition s18 : string := "Z9"%string.
Definition s19 : string := "/components/fb4/sub/k"%string.
Definition s20 : string := "string"%string.
Definition s21 : string := "autonomous"%string.
Definition s22 : string := "fb5"%string.
Definition s23 : string := "getx"%string.
Definition s24 : string := "fb6"%string.
Definition s25 : string := "/components/fb6/k"%string.
Definition s26 : string := "fb7"%string.
Definition s27 : string := "Translation3d"%string.
Definition s28 : string := "/components/fb7/"%string.
Definition s29 : string := "struct:Translation3d"%string.
Definition s30 : string := "fb8"%string.
Definition s31 : string := "/components/fb8/get_k"%string.
Definition s32 : string := "fb9"%string.
Definition s33 : string := "/components/fb9/sub/k"%string.
Definition s34 : string := "robotfb10"%string.
Definition s35 : string := "x"%string.
Definition s36 : string := "/robotfb10/x"%string.
Definition s37 : string := "double"%string.
Definition s38 : string := "fb11"%string.
Definition s39 : string := "/components/fb11/k"%string.
Definition s40 : string := "raw"%string.
Definition s41 : string := "fb12"%string.
Definition s42 : string := "/autonomous/fb12/"%string.
Definition s43 : string := "fb13"%string.
Definition s44 : string := "0"%string.
Definition s45 : string := "/components/fb13/get_k"%string.
Definition s46 : string := "fb14"%string.
Definition s47 : string := "/components/fb14/sub/k"%string.
Definition s48 : string := "boolean[]"%string.
Definition s49 : string := "fb15"%string.
Definition s50 : string := "get_"%string.
Definition s51 : string := "/components/fb15/"%string.
Definition s52 : string := "fb16"%string.
Definition s53 : string := "/components/fb16/k"%string.
Definition s54 : string := "robotfb17"%string.
Definition s55 : string := "/robotfb17/"%string.
Definition s56 : string := "fb18"%string.
Definition s57 : string := "/components/fb18/get_k"%string.
Definition s58 : string := "fb19"%string.
Definition s59 : string := "/autonomous/fb19/sub/k"%string.
Definition s60 : string := "fb20"%string.
Definition s61 : string := "_private"%string.
Definition s62 : string := "/components/fb20/_private"%string.
Definition s63 : string := "int[]"%string.
Definition s64 : string := "fb21"%string.
Definition s65 : string := "/components/fb21/k"%string.
Definition s66 : string := "fb22"%string.
Definition s67 : string := "/components/fb22/"%string.
Definition s68 : string := "fb23"%string.
Definition s69 : string := "/components/fb23/get_k"%string.
Definition s70 : string := "robotfb24"%string.
Definition s71 : string := "/robotfb24/sub/k"%string.
Definition s72 : string := "fb25"%string.
Definition s73 : string := "get_get_y"%string.
Definition s74 : string := "/components/fb25/get_y"%string.
Definition s75 : string := "fb26"%string.
Definition s76 : string := "/autonomous/fb26/k"%string.
Definition s77 : string := "fb27"%string.
Definition s78 : string := "/components/fb27/"%string.
Definition s79 : string := "fb28"%string.
Definition s80 : string := "/components/fb28/get_k"%string.
Definition s81 : string := "fb29"%string.
Definition s82 : string := "/components/fb29/sub/k"%string.
Definition s83 : string := "fb30"%string.
Definition s84 : string := "_get_z"%string.
Definition s85 : string := "/components/fb30/_get_z"%string.
Definition s86 : string := "robotfb31"%string.
Definition s87 : string := "/robotfb31/k"%string.
Definition s88 : string := "fb32"%string.
Definition s89 : string := "/components/fb32/"%string.
Definition s90 : string := "fb33"%string.
Definition s91 : string := "/autonomous/fb33/get_k"%string.
Definition s92 : string := "fb34"%string.
Definition s93 : string := "/components/fb34/sub/k"%string.
Definition s94 : string := "fb35"%string.
Definition s95 : string := "Get_q"%string.
Definition s96 : string := "a"%string.
Definition s97 : string := "/components/fb35/Get_q"%string.
Definition s98 : string := "string[]"%string.
Definition s99 : string := "fb36"%string.
Definition s100 : string := "/components/fb36/k"%string.
Definition s101 : string := "fb37"%string.
Definition s102 : string := "q""uote"%string.
Definition s103 : string := "/components/fb37/"%string.
Definition s104 : string := "robotfb38"%string.
Definition s105 : string := "ab"%string.
Definition s106 : string := "/robotfb38/get_k"%string.
Definition s107 : string := "fb39"%string.
Definition s108 : string := "/components/fb39/sub/k"%string.
Definition s109 : string := "fb40"%string.
Definition s110 : string := "get_a_b"%string.
Definition s111 : string := "a/b"%string.
Definition s112 : string := "/autonomous/fb40/a_b"%string.
Definition s113 : string := "fb41"%string.
Definition s114 : string := "/components/fb41/k"%string.
Definition s115 : string := "fb42"%string.
Definition s116 : string := "/components/fb42/"%string.
Definition s117 : string := "fb43"%string.
Definition s118 : string := "/components/fb43/get_k"%string.
Definition s119 : string := "fb44"%string.
Definition s120 : string := "/components/fb44/sub/k"%string.
Definition s121 : string := "robotfb45"%string.
Definition s122 : string := "target_get_x"%string.
Definition s123 : string := "/robotfb45/target_get_x"%string.
Definition s124 : string := "fb46"%string.
Definition s125 : string := "/components/fb46/k"%string.
Definition s126 : string := "fb47"%string.
Definition s127 : string := "/autonomous/fb47/"%string.
Definition s128 : string := "fb48"%string.
Definition s129 : string := "/components/fb48/get_k"%string.
Definition s130 : string := "fb49"%string.
Definition s131 : string := "Translation2d"%string.
Definition s132 : string := "/components/fb49/sub/k"%string.
Definition s133 : string := "struct:Translation2d[]"%string.
Definition s134 : string := "fb50"%string.
Definition s135 : string := "get"%string.
Definition s136 : string := "/components/fb50/get"%string.
Definition s137 : string := "fb51"%string.
Definition s138 : string := "/components/fb51/k"%string.
Definition s139 : string := "robotfb52"%string.
Definition s140 : string := "/robotfb52/"%string.
Definition s141 : string := "fb53"%string.
Definition s142 : string := "/components/fb53/get_k"%string.
Definition s143 : string := "fb54"%string.
Definition s144 : string := "/autonomous/fb54/sub/k"%string.
Definition s145 : string := "fb55"%string.
Definition s146 : string := "get_get_"%string.
Definition s147 : string := "/components/fb55/get_"%string.
Definition s148 : string := "fb56"%string.
Definition s149 : string := "/components/fb56/k"%string.
Definition s150 : string := "struct:Translation3d[]"%string.
Definition s151 : string := "fb57"%string.
Definition s152 : string := "/components/fb57/"%string.
Definition s153 : string := "fb58"%string.
Definition s154 : string := "/components/fb58/get_k"%string.
Definition s155 : string := "robotfb59"%string.
Definition s156 : string := "/robotfb59/sub/k"%string.
Definition s157 : string := "fb60"%string.
Definition s158 : string := "/components/fb60/k"%string.
Definition s159 : string := "fb61"%string.
Definition s160 : string := "/autonomous/fb61/sub/k"%string.
Definition s161 : string := "fb62"%string.
Definition s162 : string := "/components/fb62/get_k"%string.
Definition s163 : string := "fb63"%string.
Definition s164 : string := "/components/fb63/get_k"%string.
Definition s165 : string := "fb64"%string.
Definition s166 : string := "/components/fb64/k"%string.
Definition s167 : string := "fb65"%string.
Definition s168 : string := "robotfb66"%string.
Definition s169 : string := "/robotfb66/"%string.
Definition s170 : string := "struct:Translation2d"%string.
Definition s171 : string := "fb67"%string.
Definition s172 : string := "/components/fb67/k"%string.
Definition s173 : string := "fb68"%string.
Definition s174 : string := "/autonomous/fb68/get_k"%string.
Definition s175 : string := "fb69"%string.
Definition s176 : string := "/components/fb69/get_k"%string.
Definition s177 : string := "fb70"%string.
Definition s178 : string := "/components/fb70/get"%string.
Definition s179 : string := "fb71"%string.
Definition s180 : string := "/components/fb71/k"%string.
Definition s181 : string := "fb72"%string.
Definition s182 : string := "/components/fb72/k"%string.
Definition s183 : string := "robotfb73"%string.
Definition s184 : string := "/robotfb73/sub/k"%string.
Definition s185 : string := "fb74"%string.
Definition s186 : string := "/components/fb74/sub/k"%string.
Definition s187 : string := "fb75"%string.
Definition s188 : string := "/autonomous/fb75/"%string.
Definition s189 : string := "fb76"%string.
Definition s190 : string := "/components/fb76/get_k"%string.
Definition s191 : string := "fb77"%string.
Definition s192 : string := "/components/fb77/"%string.
Definition s193 : string := "fb78"%string.
Definition s194 : string := "/components/fb78/"%string.
Definition s195 : string := "fb79"%string.
Definition s196 : string := "/components/fb79/getx"%string.
Definition s197 : string := "robotfb80"%string.
Definition s198 : string := "/robotfb80/target_get_x"%string.
Definition s199 : string := "fb81"%string.
Definition s200 : string := "/components/fb81/get"%string.
Definition s201 : string := "fb82"%string.
Definition s202 : string := "/autonomous/fb82/sub/k"%string.
Definition s203 : string := "fb83"%string.
Definition s204 : string := "/components/fb83/get_k"%string.
Definition s205 : string := "fb84"%string.
Definition s206 : string := "/components/fb84/getx"%string.
Definition s207 : string := "fb85"%string.
Definition s208 : string := "/components/fb85/get_k"%string.
Definition s209 : string := "fb86"%string.
Definition s210 : string := "/components/fb86/"%string.
Definition s211 : string := "robotfb87"%string.
Definition s212 : string := "/robotfb87/sub/k"%string.
Definition s213 : string := "fb88"%string.
Definition s214 : string := "/components/fb88/get_k"%string.
Definition s215 : string := "fb89"%string.
Definition s216 : string := "/autonomous/fb89/sub/k"%string.
Definition s217 : string := "fb90"%string.
Definition s218 : string := "/components/fb90/get_k"%string.
Definition s219 : string := "fb91"%string.
Definition s220 : string := "/components/fb91/"%string.
Definition s221 : string := "fb92"%string.
Definition s222 : string := "/components/fb92/get_k"%string.
Definition s223 : string := "fb93"%string.
Definition s224 : string := "/components/fb93/k"%string.
Definition s225 : string := "robotfb94"%string.
Definition s226 : string := "/robotfb94/getx"%string.
Definition s227 : string := "fb95"%string.
Definition s228 : string := "x y"%string.
Definition s229 : string := "/components/fb95/k"%string.
Definition s230 : string := "fb96"%string.
Definition s231 : string := "/autonomous/fb96/get_k"%string.
Definition s232 : string := "fb97"%string.
Definition s233 : string := "/components/fb97/get_k"%string.
Definition s234 : string := "fb98"%string.
Definition s235 : string := "/components/fb98/get_k"%string.
Definition s236 : string := "fb99"%string.
Definition s237 : string := "/components/fb99/get_k"%string.
Definition s238 : string := "fb100"%string.
Definition s239 : string := "/components/fb100/sub/k"%string.
Definition s240 : string := "robotfb101"%string.
Definition s241 : string := "/robotfb101/get_k"%string.
Definition s242 : string := "fb102"%string.
Definition s243 : string := "/components/fb102/sub/k"%string.
Definition s244 : string := "fb103"%string.
Definition s245 : string := "/autonomous/fb103/k"%string.
Definition s246 : string := "fb104"%string.
Definition s247 : string := "/components/fb104/_get_z"%string.
Definition s248 : string := "fb105"%string.
Definition s249 : string := "/components/fb105/"%string.
Definition s250 : string := "fb106"%string.
Definition s251 : string := "/components/fb106/sub/k"%string.
Definition s252 : string := "fb107"%string.
Definition s253 : string := "/components/fb107/_private"%string.
Definition s254 : string := "robotfb108"%string.
Definition s255 : string := "/robotfb108/sub/k"%string.
Definition s256 : string := "fb109"%string.
Definition s257 : string := "/components/fb109/get_k"%string.
Definition s258 : string := "fb110"%string.
Definition s259 : string := "/autonomous/fb110/get_k"%string.
Definition s260 : string := "fb111"%string.
Definition s261 : string := "/components/fb111/x"%string.
Definition s262 : string := "fb112"%string.
Definition s263 : string := "/components/fb112/get_y"%string.
Definition s264 : string := "fb113"%string.
Definition s265 : string := "/components/fb113/"%string.
Definition s266 : string := "fb114"%string.
Definition s267 : string := "/components/fb114/"%string.
Definition s268 : string := "robotfb115"%string.
Definition s269 : string := "/robotfb115/sub/k"%string.
Definition s270 : string := "fb116"%string.
Definition s271 : string := "/components/fb116/get_y"%string.
Definition s272 : string := "fb117"%string.
Definition s273 : string := "/autonomous/fb117/"%string.
Definition s274 : string := "fb118"%string.
Definition s275 : string := "/components/fb118/k"%string.
Definition s276 : string := "fb119"%string.
Definition s277 : string := "/components/fb119/k"%string.
Definition s278 : string := "fb120"%string.
Definition s279 : string := "/components/fb120/x"%string.
Definition s280 : string := "fb121"%string.
Definition s281 : string := "/components/fb121/sub/k"%string.
Definition s282 : string := "robotfb122"%string.
Definition s283 : string := "/robotfb122/"%string.
Definition s284 : string := "fb123"%string.
Definition s285 : string := "/components/fb123/k"%string.
Definition s286 : string := "fb124"%string.
Definition s287 : string := "/autonomous/fb124/k"%string.
Definition s288 : string := "fb125"%string.
Definition s289 : string := "/components/fb125/get_k"%string.
Definition s290 : string := "fb126"%string.
Definition s291 : string := "/components/fb126/"%string.
Definition s292 : string := "fb127"%string.
Definition s293 : string := "/components/fb127/sub/k"%string.
Definition s294 : string := "fb128"%string.
Definition s295 : string := "/components/fb128/sub/k"%string.
Definition s296 : string := "robotfb129"%string.
Definition s297 : string := "/robotfb129/get_"%string.
Definition s298 : string := "fb130"%string.
Definition s299 : string := "/components/fb130/k"%string.
Definition s300 : string := "fb131"%string.
Definition s301 : string := "/autonomous/fb131/a_b"%string.
Definition s302 : string := "fb132"%string.
Definition s303 : string := "/components/fb132/k"%string.
Definition s304 : string := "fb133"%string.
Definition s305 : string := "/components/fb133/_get_z"%string.
Definition s306 : string := "fb134"%string.
Definition s307 : string := "/components/fb134/"%string.
Definition s308 : string := "fb135"%string.
Definition s309 : string := "/components/fb135/sub/k"%string.
Definition s310 : string := "robotfb136"%string.
Definition s311 : string := "/robotfb136/get_y"%string.
Definition s312 : string := "fb137"%string.
Definition s313 : string := "/components/fb137/"%string.
Definition s314 : string := "fb138"%string.
Definition s315 : string := "/autonomous/fb138/"%string.
Definition s316 : string := "fb139"%string.
Definition s317 : string := "/components/fb139/k"%string.
Definition s318 : string := "fb140"%string.
Definition s319 : string := "/components/fb140/"%string.
Definition s320 : string := "fb141"%string.
Definition s321 : string := "/components/fb141/k"%string.
Definition s322 : string := "fb142"%string.
Definition s323 : string := "/components/fb142/k"%string.
Definition s324 : string := "robotfb143"%string.
Definition s325 : string := "/robotfb143/get_k"%string.
Definition s326 : string := "fb144"%string.
Definition s327 : string := "/components/fb144/a_b"%string.
Definition s328 : string := "fb145"%string.
Definition s329 : string := "/autonomous/fb145/"%string.
Definition s330 : string := "fb146"%string.
Definition s331 : string := "/components/fb146/k"%string.
Definition s332 : string := "fb147"%string.
Definition s333 : string := "/components/fb147/Get_q"%string.
Definition s334 : string := "fb148"%string.
Definition s335 : string := "/components/fb148/"%string.
Definition s336 : string := "fb149"%string.
Definition s337 : string := "/components/fb149/sub/k"%string.
Definition s338 : string := "robotfb150"%string.
Definition s339 : string := "/robotfb150/get_k"%string.
Definition s340 : string := "fb151"%string.
Definition s341 : string := "/components/fb151/"%string.
Definition s342 : string := "fb152"%string.
Definition s343 : string := "/autonomous/fb152/get_k"%string.
Definition s344 : string := "fb153"%string.
Definition s345 : string := "/components/fb153/"%string.
Definition s346 : string := "fb154"%string.
Definition s347 : string := "/components/fb154/sub/k"%string.
Definition s348 : string := "fb155"%string.
Definition s349 : string := "/components/fb155/"%string.
Definition s350 : string := "fb156"%string.
Definition s351 : string := "/components/fb156/get_k"%string.
Definition s352 : string := "robotfb157"%string.
Definition s353 : string := "/robotfb157/"%string.
Definition s354 : string := "fb158"%string.
Definition s355 : string := "/components/fb158/a_b"%string.
Definition s356 : string := "fb159"%string.
Definition s357 : string := "/autonomous/fb159/sub/k"%string.
Definition s358 : string := "fb160"%string.
Definition s359 : string := "/components/fb160/sub/k"%string.
Definition s360 : string := "fb161"%string.
Definition s361 : string := "/components/fb161/k"%string.
Definition s362 : string := "fb162"%string.
Definition s363 : string := "/components/fb162/"%string.
Definition s364 : string := "fb163"%string.
Definition s365 : string := "/components/fb163/get_k"%string.
Definition s366 : string := "robotfb164"%string.
Definition s367 : string := "/robotfb164/get_k"%string.
Definition s368 : string := "fb165"%string.
Definition s369 : string := "/components/fb165/"%string.
Definition s370 : string := "fb166"%string.
Definition s371 : string := "/autonomous/fb166/get_k"%string.
Definition s372 : string := "fb167"%string.
Definition s373 : string := "/components/fb167/k"%string.
Definition s374 : string := "fb168"%string.
Definition s375 : string := "/components/fb168/get_k"%string.
Definition s376 : string := "fb169"%string.
Definition s377 : string := "/components/fb169/sub/k"%string.
Definition s378 : string := "fb170"%string.
Definition s379 : string := "/components/fb170/k"%string.
Definition s380 : string := "robotfb171"%string.
Definition s381 : string := "/robotfb171/"%string.
Definition s382 : string := "fb172"%string.
Definition s383 : string := "/components/fb172/k"%string.
Definition s384 : string := "fb173"%string.
Definition s385 : string := "/autonomous/fb173/get_k"%string.
Definition s386 : string := "fb174"%string.
Definition s387 : string := "/components/fb174/"%string.
Definition s388 : string := "fb175"%string.
Definition s389 : string := "/components/fb175/sub/k"%string.
Definition s390 : string := "fb176"%string.
Definition s391 : string := "/components/fb176/sub/k"%string.
Definition s392 : string := "fb177"%string.
Definition s393 : string := "/components/fb177/get_k"%string.
Definition s394 : string := "robotfb178"%string.
Definition s395 : string := "/robotfb178/sub/k"%string.
Definition s396 : string := "fb179"%string.
Definition s397 : string := "/components/fb179/get_k"%string.
Definition s398 : string := "fb180"%string.
Definition s399 : string := "/autonomous/fb180/k"%string.
Definition s400 : string := "fb181"%string.
Definition s401 : string := "/components/fb181/k"%string.
Definition s402 : string := "fb182"%string.
Definition s403 : string := "/components/fb182/"%string.
Definition s404 : string := "fb183"%string.
Definition s405 : string := "/components/fb183/k"%string.
Definition s406 : string := "fb184"%string.
Definition s407 : string := "/components/fb184/sub/k"%string.
Definition s408 : string := "robotfb185"%string.
Definition s409 : string := "/robotfb185/"%string.
Definition s410 : string := "fb186"%string.
Definition s411 : string := "/components/fb186/Get_q"%string.
Definition s412 : string := "fb187"%string.
Definition s413 : string := "/autonomous/fb187/get"%string.
Definition s414 : string := "fb188"%string.
Definition s415 : string := "/components/fb188/sub/k"%string.
Definition s416 : string := "fb189"%string.
Definition s417 : string := "/components/fb189/k"%string.
Definition s418 : string := "fb190"%string.
Definition s419 : string := "/components/fb190/get_k"%string.
Definition s420 : string := "fb191"%string.
Definition s421 : string := "/components/fb191/"%string.
Definition s422 : string := "robotfb192"%string.
Definition s423 : string := "/robotfb192/k"%string.
Definition s424 : string := "fb193"%string.
Definition s425 : string := "/components/fb193/sub/k"%string.
Definition s426 : string := "fb194"%string.
Definition s427 : string := "/autonomous/fb194/get_k"%string.
Definition s428 : string := "fb195"%string.
Definition s429 : string := "/components/fb195/get_k"%string.
Definition s430 : string := "fb196"%string.
Definition s431 : string := "/components/fb196/get_k"%string.
Definition s432 : string := "fb197"%string.
Definition s433 : string := "/components/fb197/sub/k"%string.
Definition s434 : string := "fb198"%string.
Definition s435 : string := "/components/fb198/get_y"%string.
Definition s436 : string := "robotfb199"%string.
Definition s437 : string := "/robotfb199/k"%string.
Definition s438 : string := "fb200"%string.
Definition s439 : string := "/components/fb200/k"%string.
Definition s440 : string := "fb201"%string.
Definition s441 : string := "/autonomous/fb201/"%string.
Definition s442 : string := "fb202"%string.
Definition s443 : string := "/components/fb202/k"%string.
Definition s444 : string := "fb203"%string.
Definition s445 : string := "/components/fb203/getx"%string.
Definition s446 : string := "fb204"%string.
Definition s447 : string := "/components/fb204/x"%string.
Definition s448 : string := "fb205"%string.
Definition s449 : string := "/components/fb205/sub/k"%string.
Definition s450 : string := "robotfb206"%string.
Definition s451 : string := "/robotfb206/sub/k"%string.
Definition s452 : string := "fb207"%string.
Definition s453 : string := "/components/fb207/get_k"%string.
Definition s454 : string := "fb208"%string.
Definition s455 : string := "/autonomous/fb208/"%string.
Definition s456 : string := "fb209"%string.
Definition s457 : string := "/components/fb209/get_k"%string.
Definition s458 : string := "fb210"%string.
Definition s459 : string := "/components/fb210/k"%string.
Definition s460 : string := "fb211"%string.
Definition s461 : string := "/components/fb211/get_k"%string.
Definition s462 : string := "fb212"%string.
Definition s463 : string := "/components/fb212/a_b"%string.
Definition s464 : string := "robotfb213"%string.
Definition s465 : string := "/robotfb213/get_k"%string.
Definition s466 : string := "fb214"%string.
Definition s467 : string := "/components/fb214/sub/k"%string.
Definition s468 : string := "fb215"%string.
Definition s469 : string := "/autonomous/fb215/k"%string.
Definition s470 : string := "fb216"%string.
Definition s471 : string := "/components/fb216/"%string.
Definition s472 : string := "fb217"%string.
Definition s473 : string := "/components/fb217/sub/k"%string.
Definition s474 : string := "fb218"%string.
Definition s475 : string := "/components/fb218/get_k"%string.
Definition s476 : string := "fb219"%string.
Definition s477 : string := "/components/fb219/target_get_x"%string.
Definition s478 : string := "robotfb220"%string.
Definition s479 : string := "/robotfb220/get_k"%string.
Definition s480 : string := "fb221"%string.
Definition s481 : string := "/components/fb221/k"%string.
Definition s482 : string := "fb222"%string.
Definition s483 : string := "/autonomous/fb222/sub/k"%string.
Definition s484 : string := "fb223"%string.
Definition s485 : string := "/components/fb223/get"%string.
Definition s486 : string := "fb224"%string.
Definition s487 : string := "/components/fb224/sub/k"%string.
Definition s488 : string := "fb225"%string.
Definition s489 : string := "/components/fb225/"%string.
Definition s490 : string := "fb226"%string.
Definition s491 : string := "/components/fb226/sub/k"%string.
Definition s492 : string := "robotfb227"%string.
Definition s493 : string := "/robotfb227/"%string.
Definition s494 : string := "fb228"%string.
Definition s495 : string := "/components/fb228/k"%string.
Definition s496 : string := "fb229"%string.
Definition s497 : string := "/autonomous/fb229/"%string.
Definition s498 : string := "fb230"%string.
Definition s499 : string := "/components/fb230/k"%string.
Definition s500 : string := "fb231"%string.
Definition s501 : string := "/components/fb231/sub/k"%string.
Definition s502 : string := "fb232"%string.
Definition s503 : string := "/components/fb232/get_y"%string.
Definition s504 : string := "fb233"%string.
Definition s505 : string := "/components/fb233/sub/k"%string.
Definition s506 : string := "robotfb234"%string.
Definition s507 : string := "/robotfb234/_private"%string.
Definition s508 : string := "fb235"%string.
Definition s509 : string := "/components/fb235/get_k"%string.
Definition s510 : string := "fb236"%string.
Definition s511 : string := "/autonomous/fb236/"%string.
Definition s512 : string := "fb237"%string.
Definition s513 : string := "/components/fb237/"%string.
Definition s514 : string := "fb238"%string.
Definition s515 : string := "/components/fb238/k"%string.
Definition s516 : string := "fb239"%string.
Definition s517 : string := "/components/fb239/"%string.
Definition s518 : string := "fb240"%string.
Definition s519 : string := "/components/fb240/sub/k"%string.
Definition s520 : string := "robotfb241"%string.
Definition s521 : string := "/robotfb241/"%string.
Definition s522 : string := "fb242"%string.
Definition s523 : string := "/components/fb242/get_k"%string.
Definition s524 : string := "fb243"%string.
Definition s525 : string := "/autonomous/fb243/"%string.
Definition s526 : string := "fb244"%string.
Definition s527 : string := "/components/fb244/a_b"%string.
Definition s528 : string := "fb245"%string.
Definition s529 : string := "/components/fb245/get_k"%string.
Definition s530 : string := "fb246"%string.
Definition s531 : string := "/components/fb246/get_k"%string.
Definition s532 : string := "fb247"%string.
Definition s533 : string := "/components/fb247/sub/k"%string.
Definition s534 : string := "robotfb248"%string.
Definition s535 : string := "/robotfb248/k"%string.
Definition s536 : string := "fb249"%string.
Definition s537 : string := "/components/fb249/sub/k"%string.
Definition s538 : string := "fb250"%string.
Definition s539 : string := "/autonomous/fb250/a_b"%string.
Definition s540 : string := "fb251"%string.
Definition s541 : string := "/components/fb251/sub/k"%string.
Definition s542 : string := "fb252"%string.
Definition s543 : string := "/components/fb252/k"%string.
Definition s544 : string := "fb253"%string.
Definition s545 : string := "/components/fb253/k"%string.
Definition s546 : string := "fb254"%string.
Definition s547 : string := "/components/fb254/get_k"%string.
Definition s548 : string := "robotfb255"%string.
Definition s549 : string := "/robotfb255/"%string.
Definition s550 : string := "fb256"%string.
Definition s551 : string := "/components/fb256/get_"%string.
Definition s552 : string := "fb257"%string.
Definition s553 : string := "/autonomous/fb257/get_k"%string.
Definition s554 : string := "fb258"%string.
Definition s555 : string := "/components/fb258/k"%string.
Definition s556 : string := "fb259"%string.
Definition s557 : string := "/components/fb259/sub/k"%string.
Definition s558 : string := "fb260"%string.
Definition s559 : string := "/components/fb260/_private"%string.
Definition s560 : string := "fb261"%string.
Definition s561 : string := "/components/fb261/k"%string.
Definition s562 : string := "robotfb262"%string.
Definition s563 : string := "/robotfb262/get_k"%string.
Definition s564 : string := "fb263"%string.
Definition s565 : string := "/components/fb263/get_k"%string.
Definition s566 : string := "fb264"%string.
Definition s567 : string := "/autonomous/fb264/"%string.
Definition s568 : string := "fb265"%string.
Definition s569 : string := "/components/fb265/"%string.
Definition s570 : string := "fb266"%string.
Definition s571 : string := "/components/fb266/k"%string.
Definition s572 : string := "fb267"%string.
Definition s573 : string := "/components/fb267/sub/k"%string.
Definition s574 : string := "fb268"%string.
Definition s575 : string := "/components/fb268/sub/k"%string.
Definition s576 : string := "robotfb269"%string.
Definition s577 : string := "/robotfb269/"%string.
Definition s578 : string := "fb270"%string.
Definition s579 : string := "/components/fb270/"%string.
Definition s580 : string := "fb271"%string.
Definition s581 : string := "/autonomous/fb271/_get_z"%string.
Definition s582 : string := "fb272"%string.
Definition s583 : string := "/components/fb272/get_k"%string.
Definition s584 : string := "fb273"%string.
Definition s585 : string := "/components/fb273/"%string.
Definition s586 : string := "fb274"%string.
Definition s587 : string := "/components/fb274/k"%string.
Definition s588 : string := "fb275"%string.
Definition s589 : string := "/components/fb275/sub/k"%string.
Definition s590 : string := "robotfb276"%string.
Definition s591 : string := "/robotfb276/k"%string.
Definition s592 : string := "fb277"%string.
Definition s593 : string := "/components/fb277/sub/k"%string.
Definition s594 : string := "fb278"%string.
Definition s595 : string := "/autonomous/fb278/"%string.
Definition s596 : string := "fb279"%string.
Definition s597 : string := "/components/fb279/get"%string.
Definition s598 : string := "fb280"%string.
Definition s599 : string := "/components/fb280/get_y"%string.
Definition s600 : string := "fb281"%string.
Definition s601 : string := "/components/fb281/"%string.
Definition s602 : string := "fb282"%string.
Definition s603 : string := "/components/fb282/"%string.
Definition s604 : string := "robotfb283"%string.
Definition s605 : string := "/robotfb283/target_get_x"%string.
Definition s606 : string := "fb284"%string.
Definition s607 : string := "/components/fb284/k"%string.
Definition s608 : string := "fb285"%string.
Definition s609 : string := "/autonomous/fb285/a_b"%string.
Definition s610 : string := "fb286"%string.
Definition s611 : string := "/components/fb286/k"%string.
Definition s612 : string := "fb287"%string.
Definition s613 : string := "/components/fb287/k"%string.
Definition s614 : string := "fb288"%string.
Definition s615 : string := "/components/fb288/"%string.
Definition s616 : string := "fb289"%string.
Definition s617 : string := "/components/fb289/sub/k"%string.
Definition s618 : string := "robotfb290"%string.
Definition s619 : string := "/robotfb290/sub/k"%string.
Definition s620 : string := "fb291"%string.
Definition s621 : string := "/components/fb291/sub/k"%string.
Definition s622 : string := "fb292"%string.
Definition s623 : string := "/autonomous/fb292/"%string.
Definition s624 : string := "fb293"%string.
Definition s625 : string := "/components/fb293/"%string.
Definition s626 : string := "fb294"%string.
Definition s627 : string := "/components/fb294/k"%string.
Definition s628 : string := "fb295"%string.
Definition s629 : string := "/components/fb295/get_k"%string.
Definition s630 : string := "fb296"%string.
Definition s631 : string := "/components/fb296/get_k"%string.
Definition s632 : string := "robotfb297"%string.
Definition s633 : string := "/robotfb297/get"%string.
Definition rows : list bool :=
 [(fb_match (Some s0) s1 None s2 (Some (TGen OSeq [(ABase BFloat)])) (VList [(SFloat 1%Z)]) (FTopic s3 (Some s4) (Some s4)));
 (fb_match (Some s0) s5 (Some s6) s2 (Some (TBase BBool)) (VScalar (SBool true)) (FTopic s7 (Some s8) (Some s8)));
 (fb_match (Some s0) s9 (Some s10) s2 (Some (TBase BInt)) (VScalar (SInt 2%Z)) (FTopic s11 (Some s12) (Some s12)));
 (fb_match None s13 (Some s14) s2 (Some (TGen OSeq [(ABase BFloat)])) (VList [(SFloat (-3)%Z); (SFloat (-3)%Z); (SFloat 0%Z)]) (FTopic s15 (Some s4) (Some s4)));
 (fb_match (Some s0) s16 (Some s17) s2 (Some (TBase BStr)) (VScalar (SStr s18)) (FTopic s19 (Some s20) (Some s20)));
 (fb_match (Some s21) s22 None s23 (Some (TBase BBytes)) (VScalar (SBytes [196%N])) FRaise);
 (fb_match (Some s0) s24 (Some s6) s23 (Some (TBase BInt)) (VScalar (SInt 1%Z)) (FTopic s25 (Some s12) (Some s12)));
 (fb_match (Some s0) s26 (Some s10) s23 (Some (TBase (BStruct "Translation3d"))) (VScalar (SStruct s27 [(-32)%Z; 0%Z; (-32)%Z])) (FTopic s28 (Some s29) (Some s29)));
 (fb_match (Some s0) s30 (Some s14) s23 (Some (TBase BOther)) (VScalar (SBool true)) (FTopic s31 None (Some s8)));
 (fb_match (Some s0) s32 (Some s17) s23 (Some (TGen OSeq [(ABase BFloat)])) (VList [(SFloat 96%Z)]) (FTopic s33 (Some s4) (Some s4)));
 (fb_match None s34 None s35 (Some (TBare OTuple)) (VScalar (SInt 0%Z)) (FTopic s36 None (Some s37)));
 (fb_match (Some s0) s38 (Some s6) s35 (Some (TBare OSeq)) (VScalar (SBytes [184%N])) (FTopic s39 None (Some s40)));
 (fb_match (Some s21) s41 (Some s10) s35 (Some (TGen OSeq [(ABase BFloat)])) (VList [(SFloat (-3)%Z); (SFloat (-3)%Z); (SFloat 1%Z)]) (FTopic s42 (Some s4) (Some s4)));
 (fb_match (Some s0) s43 (Some s14) s35 (Some (TGen OList [])) (VScalar (SStr s44)) (FTopic s45 None (Some s20)));
 (fb_match (Some s0) s46 (Some s17) s35 (Some (TGen OList [(ABase BBool)])) (VList [(SBool true)]) (FTopic s47 (Some s48) (Some s48)));
 (fb_match (Some s0) s49 None s50 (Some (TGen OSeq [(ABase BFloat)])) (VList [(SFloat (-3)%Z)]) (FTopic s51 (Some s4) (Some s4)));
 (fb_match (Some s0) s52 (Some s6) s50 (Some (TGen OTuple [(ABase BBool)])) (VList [(SBool true)]) (FTopic s53 (Some s48) (Some s48)));
 (fb_match None s54 (Some s10) s50 (Some (TGen OTuple [(ABase BBool); AEllipsis])) (VList [(SBool false); (SBool true); (SBool true)]) (FTopic s55 (Some s48) (Some s48)));
 (fb_match (Some s0) s56 (Some s14) s50 (Some (TGen OSeq [(ABase BFloat)])) (VList [(SFloat 64%Z)]) (FTopic s57 (Some s4) (Some s4)));
 (fb_match (Some s21) s58 (Some s17) s50 (Some (TGen OTuple [(ABase BBool); (ABase BBool); (ABase BBool)])) (VList [(SBool false)]) (FTopic s59 (Some s48) (Some s48)));
 (fb_match (Some s0) s60 None s61 (Some (TGen OTuple [AEllipsis; (ABase BBool)])) (VList [(SInt 9007199254740993%Z)]) (FTopic s62 None (Some s63)));
 (fb_match (Some s0) s64 (Some s6) s61 None (VList [(SFloat 64%Z)]) (FTopic s65 None (Some s4)));
 (fb_match (Some s0) s66 (Some s10) s61 (Some (TGen OSeq [(ABase BInt)])) (VList [(SInt 0%Z); (SInt 2%Z)]) (FTopic s67 (Some s63) (Some s63)));
 (fb_match (Some s0) s68 (Some s14) s61 (Some (TGen OTuple [(ABase BInt)])) (VList [(SInt 255%Z); (SInt (-957)%Z)]) (FTopic s69 (Some s63) (Some s63)));
 (fb_match None s70 (Some s17) s61 (Some (TGen OSeq [(ABase BFloat)])) (VList [(SFloat 1%Z)]) (FTopic s71 (Some s4) (Some s4)));
 (fb_match (Some s0) s72 None s73 (Some (TGen OTuple [(ABase BInt); (ABase BInt)])) (VList [(SInt (-1)%Z)]) (FTopic s74 (Some s63) (Some s63)));
 (fb_match (Some s21) s75 (Some s6) s73 (Some (TGen OTuple [(ABase BInt); (ABase BInt); (ABase BInt)])) (VList [(SInt (-659)%Z)]) (FTopic s76 (Some s63) (Some s63)));
 (fb_match (Some s0) s77 (Some s10) s73 None (VList [(SBool false)]) (FTopic s78 None (Some s48)));
 (fb_match (Some s0) s79 (Some s14) s73 (Some (TGen OList [(ABase BFloat)])) (VList [(SFloat 1%Z)]) (FTopic s80 (Some s4) (Some s4)));
 (fb_match (Some s0) s81 (Some s17) s73 (Some (TGen OSeq [(ABase BFloat)])) (VList [(SFloat 0%Z)]) (FTopic s82 (Some s4) (Some s4)));
 (fb_match (Some s0) s83 None s84 (Some (TBase BInt)) (VScalar (SInt 1%Z)) (FTopic s85 (Some s12) (Some s12)));
 (fb_match None s86 (Some s6) s84 (Some (TGen OTuple [(ABase BFloat); AEllipsis])) (VList []) (FTopic s87 (Some s4) (Some s4)));
 (fb_match (Some s0) s88 (Some s10) s84 (Some (TGen OTuple [(ABase BFloat); (ABase BFloat)])) (VList [(SFloat 64%Z); (SFloat (-3)%Z)]) (FTopic s89 (Some s4) (Some s4)));
 (fb_match (Some s21) s90 (Some s14) s84 (Some (TBase BInt)) (VScalar (SInt 0%Z)) (FTopic s91 (Some s12) (Some s12)));
 (fb_match (Some s0) s92 (Some s17) s84 (Some (TGen OTuple [AEllipsis; (ABase BFloat)])) (VList [(SFloat 1073741824%Z)]) (FTopic s93 None (Some s4)));
 (fb_match (Some s0) s94 None s95 (Some (TGen OList [(ABase BStr)])) (VList [(SStr s96)]) (FTopic s97 (Some s98) (Some s98)));
 (fb_match (Some s0) s99 (Some s6) s95 (Some (TBase BInt)) (VScalar (SInt 255%Z)) (FTopic s100 (Some s12) (Some s12)));
 (fb_match (Some s0) s101 (Some s10) s95 (Some (TGen OTuple [(ABase BStr)])) (VList [(SStr s44); (SStr s96); (SStr s102)]) (FTopic s103 (Some s98) (Some s98)));
 (fb_match None s104 (Some s14) s95 (Some (TGen OTuple [(ABase BStr); AEllipsis])) (VList [(SStr s105); (SStr s44); (SStr s18)]) (FTopic s106 (Some s98) (Some s98)));
 (fb_match (Some s0) s107 (Some s17) s95 (Some (TBase BInt)) (VScalar (SInt 9007199254740993%Z)) (FTopic s108 (Some s12) (Some s12)));
 (fb_match (Some s21) s109 None s110 (Some (TGen OTuple [(ABase BStr); (ABase BStr); (ABase BStr)])) (VList [(SStr s102); (SStr s96); (SStr s111)]) (FTopic s112 (Some s98) (Some s98)));
 (fb_match (Some s0) s113 (Some s6) s110 (Some (TGen OTuple [AEllipsis; (ABase BStr)])) (VScalar (SFloat 96%Z)) (FTopic s114 None (Some s37)));
 (fb_match (Some s0) s115 (Some s10) s110 (Some (TGen OSeq [(ABase BFloat)])) (VList []) (FTopic s116 (Some s4) (Some s4)));
 (fb_match (Some s0) s117 (Some s14) s110 (Some (TGen OSeq [(ABase BBytes)])) (VList [(SFloat 1073741824%Z)]) (FTopic s118 None (Some s4)));
 (fb_match (Some s0) s119 (Some s17) s110 (Some (TGen OTuple [(ABase BBytes)])) (VScalar (SBytes [217%N; 83%N])) (FTopic s120 None (Some s40)));
 (fb_match None s121 None s122 (Some (TBase BInt)) (VScalar (SInt 255%Z)) (FTopic s123 (Some s12) (Some s12)));
 (fb_match (Some s0) s124 (Some s6) s122 (Some (TGen OTuple [(ABase BBytes); (ABase BBytes)])) (VScalar (SFloat (-5150)%Z)) (FTopic s125 None (Some s37)));
 (fb_match (Some s21) s126 (Some s10) s122 (Some (TGen OTuple [(ABase BBytes); (ABase BBytes); (ABase BBytes)])) (VScalar (SFloat 0%Z)) (FTopic s127 None (Some s37)));
 (fb_match (Some s0) s128 (Some s14) s122 (Some (TGen OSeq [(ABase BFloat)])) (VList []) (FTopic s129 (Some s4) (Some s4)));
 (fb_match (Some s0) s130 (Some s17) s122 (Some (TGen OList [(ABase (BStruct "Translation2d"))])) (VList [(SStruct s131 [640%Z; 640%Z])]) (FTopic s132 (Some s133) (Some s133)));
 (fb_match (Some s0) s134 None s135 (Some (TGen OSeq [(ABase (BStruct "Translation2d"))])) (VList [(SStruct s131 [64%Z; 0%Z]); (SStruct s131 [(-32)%Z; 64%Z]); (SStruct s131 [129%Z; (-32)%Z])]) (FTopic s136 (Some s133) (Some s133)));
 (fb_match (Some s0) s137 (Some s6) s135 None (VList [(SStr s105); (SStr s96)]) (FTopic s138 None (Some s98)));
 (fb_match None s139 (Some s10) s135 (Some (TGen OTuple [(ABase (BStruct "Translation2d")); AEllipsis])) (VList [(SStruct s131 [0%Z; 0%Z])]) (FTopic s140 (Some s133) (Some s133)));
 (fb_match (Some s0) s141 (Some s14) s135 (Some (TGen OTuple [(ABase (BStruct "Translation2d")); (ABase (BStruct "Translation2d"))])) (VList [(SStruct s131 [(-430)%Z; 0%Z]); (SStruct s131 [64%Z; 640%Z])]) (FTopic s142 (Some s133) (Some s133)));
 (fb_match (Some s21) s143 (Some s17) s135 (Some (TGen OSeq [(ABase BFloat)])) (VList [(SFloat 96%Z)]) (FTopic s144 (Some s4) (Some s4)));
 (fb_match (Some s0) s145 None s146 (Some (TGen OTuple [AEllipsis; (ABase (BStruct "Translation2d"))])) (VScalar (SFloat 64%Z)) (FTopic s147 None (Some s37)));
 (fb_match (Some s0) s148 (Some s6) s146 (Some (TGen OList [(ABase (BStruct "Translation3d"))])) (VList [(SStruct s27 [64%Z; 64%Z; (-32)%Z]); (SStruct s27 [640%Z; 64%Z; (-285)%Z])]) (FTopic s149 (Some s150) (Some s150)));
 (fb_match (Some s0) s151 (Some s10) s146 (Some (TGen OSeq [(ABase BFloat)])) (VList [(SFloat 1073741824%Z)]) (FTopic s152 (Some s4) (Some s4)));
 (fb_match (Some s0) s153 (Some s14) s146 (Some (TGen OTuple [(ABase (BStruct "Translation3d"))])) (VList [(SStruct s27 [64%Z; 64%Z; (-32)%Z])]) (FTopic s154 (Some s150) (Some s150)));
 (fb_match None s155 (Some s17) s146 (Some (TGen OTuple [(ABase (BStruct "Translation3d")); AEllipsis])) (VList [(SStruct s27 [412%Z; (-32)%Z; 0%Z]); (SStruct s27 [640%Z; 640%Z; 0%Z])]) (FTopic s156 (Some s150) (Some s150)));
 (fb_match (Some s0) s157 (Some s6) s61 None (VScalar (SStr s105)) (FTopic s158 None (Some s20)));
 (fb_match (Some s21) s159 (Some s17) s23 (Some (TBase BBool)) (VScalar (SBool true)) (FTopic s160 (Some s8) (Some s8)));
 (fb_match (Some s0) s161 (Some s14) s135 (Some (TBase BInt)) (VScalar (SInt 747%Z)) (FTopic s162 (Some s12) (Some s12)));
 (fb_match (Some s0) s163 (Some s14) s135 (Some (TBase BFloat)) (VScalar (SFloat (-5586)%Z)) (FTopic s164 (Some s37) (Some s37)));
 (fb_match (Some s0) s165 (Some s6) s2 (Some (TBase BStr)) (VScalar (SStr s105)) (FTopic s166 (Some s20) (Some s20)));
 (fb_match (Some s0) s167 (Some s10) s135 (Some (TBase BBytes)) (VScalar (SBytes [])) FRaise);
 (fb_match None s168 (Some s10) s23 (Some (TBase (BStruct "Translation2d"))) (VScalar (SStruct s131 [(-4)%Z; 0%Z])) (FTopic s169 (Some s170) (Some s170)));
 (fb_match (Some s0) s171 (Some s6) s122 (Some (TBase (BStruct "Translation3d"))) (VScalar (SStruct s27 [(-286)%Z; (-32)%Z; 0%Z])) (FTopic s172 (Some s29) (Some s29)));
 (fb_match (Some s21) s173 (Some s14) s73 (Some (TBase BOther)) (VList [(SInt (-1099511627776)%Z)]) (FTopic s174 None (Some s63)));
 (fb_match (Some s0) s175 (Some s14) s35 (Some (TBare OList)) (VScalar (SBool false)) (FTopic s176 None (Some s8)));
 (fb_match (Some s0) s177 None s135 (Some (TBare OTuple)) (VScalar (SBool false)) (FTopic s178 None (Some s8)));
 (fb_match (Some s0) s179 (Some s6) s146 (Some (TBare OSeq)) (VScalar (SFloat 0%Z)) (FTopic s180 None (Some s37)));
 (fb_match (Some s0) s181 (Some s6) s95 (Some (TGen OTuple [])) (VScalar (SStr s105)) (FTopic s182 None (Some s20)));
 (fb_match None s183 (Some s17) s61 (Some (TGen OList [])) (VList [(SStr s96); (SStr s50); (SStr s105)]) (FTopic s184 None (Some s98)));
 (fb_match (Some s0) s185 (Some s17) s84 (Some (TGen OList [(ABase BBool)])) (VList [(SBool false); (SBool true); (SBool false)]) (FTopic s186 (Some s48) (Some s48)));
 (fb_match (Some s21) s187 (Some s10) s95 (Some (TGen OSeq [(ABase BBool)])) (VList [(SBool true)]) (FTopic s188 (Some s48) (Some s48)));
 (fb_match (Some s0) s189 (Some s14) s23 (Some (TGen OTuple [(ABase BBool)])) (VList [(SBool false)]) (FTopic s190 (Some s48) (Some s48)));
 (fb_match (Some s0) s191 (Some s10) s146 (Some (TGen OTuple [(ABase BBool); AEllipsis])) (VList [(SBool true); (SBool false)]) (FTopic s192 (Some s48) (Some s48)));
 (fb_match (Some s0) s193 (Some s10) s146 (Some (TGen OTuple [(ABase BBool); (ABase BBool)])) (VList [(SBool false)]) (FTopic s194 (Some s48) (Some s48)));
 (fb_match (Some s0) s195 None s23 (Some (TGen OTuple [(ABase BBool); (ABase BBool); (ABase BBool)])) (VList [(SBool false)]) (FTopic s196 (Some s48) (Some s48)));
 (fb_match None s197 None s122 (Some (TGen OTuple [AEllipsis; (ABase BBool)])) (VList [(SInt 286%Z); (SInt 255%Z); (SInt (-1099511627776)%Z)]) (FTopic s198 None (Some s63)));
 (fb_match (Some s0) s199 None s135 (Some (TGen OList [(ABase BInt)])) (VList [(SInt 7%Z); (SInt (-1099511627776)%Z); (SInt (-1099511627776)%Z)]) (FTopic s200 (Some s63) (Some s63)));
 (fb_match (Some s21) s201 (Some s17) s50 (Some (TGen OSeq [(ABase BInt)])) (VList [(SInt (-1)%Z)]) (FTopic s202 (Some s63) (Some s63)));
 (fb_match (Some s0) s203 (Some s14) s50 (Some (TGen OTuple [(ABase BInt)])) (VList [(SInt (-1099511627776)%Z); (SInt 2%Z)]) (FTopic s204 (Some s63) (Some s63)));
 (fb_match (Some s0) s205 None s23 (Some (TGen OTuple [(ABase BInt); AEllipsis])) (VList [(SInt 960%Z)]) (FTopic s206 (Some s63) (Some s63)));
 (fb_match (Some s0) s207 (Some s14) s122 (Some (TGen OTuple [(ABase BInt); (ABase BInt)])) (VList [(SInt 0%Z)]) (FTopic s208 (Some s63) (Some s63)));
 (fb_match (Some s0) s209 (Some s10) s35 (Some (TGen OTuple [(ABase BInt); (ABase BInt); (ABase BInt)])) (VList [(SInt 7%Z); (SInt 255%Z)]) (FTopic s210 (Some s63) (Some s63)));
 (fb_match None s211 (Some s17) s95 (Some (TGen OTuple [AEllipsis; (ABase BInt)])) (VList [(SInt (-1)%Z); (SInt 9007199254740993%Z); (SInt (-184)%Z)]) (FTopic s212 None (Some s63)));
 (fb_match (Some s0) s213 (Some s14) s84 (Some (TGen OList [(ABase BFloat)])) (VList [(SFloat 1835%Z)]) (FTopic s214 (Some s4) (Some s4)));
 (fb_match (Some s21) s215 (Some s17) s84 (Some (TGen OSeq [(ABase BFloat)])) (VList [(SFloat 0%Z)]) (FTopic s216 (Some s4) (Some s4)));
 (fb_match (Some s0) s217 (Some s14) s110 (Some (TGen OTuple [(ABase BFloat)])) (VList []) (FTopic s218 (Some s4) (Some s4)));
 (fb_match (Some s0) s219 (Some s10) s23 (Some (TGen OTuple [(ABase BFloat); AEllipsis])) (VList [(SFloat 64%Z); (SFloat (-3)%Z)]) (FTopic s220 (Some s4) (Some s4)));
 (fb_match (Some s0) s221 (Some s14) s61 (Some (TGen OTuple [(ABase BFloat); (ABase BFloat)])) (VList [(SFloat (-64)%Z)]) (FTopic s222 (Some s4) (Some s4)));
 (fb_match (Some s0) s223 (Some s6) s2 (Some (TGen OTuple [(ABase BFloat); (ABase BFloat); (ABase BFloat)])) (VList [(SFloat 1%Z); (SFloat (-5951)%Z)]) (FTopic s224 (Some s4) (Some s4)));
 (fb_match None s225 None s23 (Some (TGen OTuple [AEllipsis; (ABase BFloat)])) (VScalar (SStr s44)) (FTopic s226 None (Some s20)));
 (fb_match (Some s0) s227 (Some s6) s23 (Some (TGen OList [(ABase BStr)])) (VList [(SStr s228); (SStr s50)]) (FTopic s229 (Some s98) (Some s98)));
 (fb_match (Some s21) s230 (Some s14) s135 (Some (TGen OSeq [(ABase BStr)])) (VList [(SStr s105); (SStr s228); (SStr s102)]) (FTopic s231 (Some s98) (Some s98)));
 (fb_match (Some s0) s232 (Some s14) s50 (Some (TGen OTuple [(ABase BStr)])) (VList [(SStr s105); (SStr s96); (SStr s105)]) (FTopic s233 (Some s98) (Some s98)));
 (fb_match (Some s0) s234 (Some s14) s61 (Some (TGen OTuple [(ABase BStr); AEllipsis])) (VList []) (FTopic s235 (Some s98) (Some s98)));
 (fb_match (Some s0) s236 (Some s14) s110 (Some (TGen OTuple [(ABase BStr); (ABase BStr)])) (VList [(SStr s10); (SStr s228)]) (FTopic s237 (Some s98) (Some s98)));
 (fb_match (Some s0) s238 (Some s17) s50 (Some (TGen OTuple [(ABase BStr); (ABase BStr); (ABase BStr)])) (VList [(SStr s50); (SStr s228); (SStr s228)]) (FTopic s239 (Some s98) (Some s98)));
 (fb_match None s240 (Some s14) s135 (Some (TGen OTuple [AEllipsis; (ABase BStr)])) (VScalar (SInt 423%Z)) (FTopic s241 None (Some s37)));
 (fb_match (Some s0) s242 (Some s17) s95 (Some (TGen OList [(ABase BBytes)])) (VList [(SInt 7%Z)]) (FTopic s243 None (Some s63)));
 (fb_match (Some s21) s244 (Some s6) s2 (Some (TGen OSeq [(ABase BBytes)])) (VScalar (SFloat 64%Z)) (FTopic s245 None (Some s37)));
 (fb_match (Some s0) s246 None s84 (Some (TGen OTuple [(ABase BBytes)])) (VScalar (SBytes [249%N; 125%N])) (FTopic s247 None (Some s40)));
 (fb_match (Some s0) s248 (Some s10) s35 (Some (TGen OTuple [(ABase BBytes); AEllipsis])) (VList [(SBool true)]) (FTopic s249 None (Some s48)));
 (fb_match (Some s0) s250 (Some s17) s122 (Some (TGen OTuple [(ABase BBytes); (ABase BBytes)])) (VList [(SBool false); (SBool true)]) (FTopic s251 None (Some s48)));
 (fb_match (Some s0) s252 None s61 (Some (TGen OTuple [(ABase BBytes); (ABase BBytes); (ABase BBytes)])) (VScalar (SBytes [2%N; 129%N; 6%N; 17%N])) (FTopic s253 None (Some s40)));
 (fb_match None s254 (Some s17) s84 (Some (TGen OTuple [AEllipsis; (ABase BBytes)])) (VList [(SStr s96)]) (FTopic s255 None (Some s98)));
 (fb_match (Some s0) s256 (Some s14) s23 (Some (TGen OList [(ABase (BStruct "Translation2d"))])) (VList [(SStruct s131 [0%Z; (-32)%Z])]) (FTopic s257 (Some s133) (Some s133)));
 (fb_match (Some s21) s258 (Some s14) s122 (Some (TGen OSeq [(ABase (BStruct "Translation2d"))])) (VList [(SStruct s131 [(-32)%Z; 640%Z]); (SStruct s131 [640%Z; 64%Z]); (SStruct s131 [0%Z; 64%Z])]) (FTopic s259 (Some s133) (Some s133)));
 (fb_match (Some s0) s260 None s2 (Some (TGen OTuple [(ABase (BStruct "Translation2d"))])) (VList [(SStruct s131 [640%Z; 640%Z])]) (FTopic s261 (Some s133) (Some s133)));
 (fb_match (Some s0) s262 None s73 (Some (TGen OTuple [(ABase (BStruct "Translation2d")); AEllipsis])) (VList [(SStruct s131 [630%Z; 655%Z]); (SStruct s131 [(-32)%Z; (-32)%Z]); (SStruct s131 [0%Z; (-32)%Z])]) (FTopic s263 (Some s133) (Some s133)));
 (fb_match (Some s0) s264 (Some s10) s122 (Some (TGen OTuple [(ABase (BStruct "Translation2d")); (ABase (BStruct "Translation2d"))])) (VList [(SStruct s131 [0%Z; 640%Z]); (SStruct s131 [64%Z; 640%Z])]) (FTopic s265 (Some s133) (Some s133)));
 (fb_match (Some s0) s266 (Some s10) s122 (Some (TGen OTuple [(ABase (BStruct "Translation2d")); (ABase (BStruct "Translation2d")); (ABase (BStruct "Translation2d"))])) (VList [(SStruct s131 [640%Z; (-32)%Z])]) (FTopic s267 (Some s133) (Some s133)));
 (fb_match None s268 (Some s17) s122 (Some (TGen OTuple [AEllipsis; (ABase (BStruct "Translation2d"))])) (VList [(SFloat (-64)%Z)]) (FTopic s269 None (Some s4)));
 (fb_match (Some s0) s270 None s73 (Some (TGen OList [(ABase (BStruct "Translation3d"))])) (VList [(SStruct s27 [(-32)%Z; 64%Z; 64%Z])]) (FTopic s271 (Some s150) (Some s150)));
 (fb_match (Some s21) s272 (Some s10) s35 (Some (TGen OSeq [(ABase (BStruct "Translation3d"))])) (VList [(SStruct s27 [0%Z; 64%Z; (-32)%Z]); (SStruct s27 [64%Z; (-32)%Z; (-32)%Z]); (SStruct s27 [0%Z; 618%Z; 0%Z])]) (FTopic s273 (Some s150) (Some s150)));
 (fb_match (Some s0) s274 (Some s6) s50 (Some (TGen OTuple [(ABase (BStruct "Translation3d"))])) (VList [(SStruct s27 [0%Z; 64%Z; 640%Z]); (SStruct s27 [0%Z; (-32)%Z; 0%Z]); (SStruct s27 [64%Z; (-32)%Z; (-32)%Z])]) (FTopic s275 (Some s150) (Some s150)));
 (fb_match (Some s0) s276 (Some s6) s2 (Some (TGen OTuple [(ABase (BStruct "Translation3d")); AEllipsis])) (VList [(SStruct s27 [(-32)%Z; 64%Z; (-218)%Z])]) (FTopic s277 (Some s150) (Some s150)));
 (fb_match (Some s0) s278 None s2 (Some (TGen OTuple [(ABase (BStruct "Translation3d")); (ABase (BStruct "Translation3d"))])) (VList [(SStruct s27 [(-32)%Z; 64%Z; 640%Z])]) (FTopic s279 (Some s150) (Some s150)));
 (fb_match (Some s0) s280 (Some s17) s110 (Some (TGen OTuple [(ABase (BStruct "Translation3d")); (ABase (BStruct "Translation3d")); (ABase (BStruct "Translation3d"))])) (VList [(SStruct s27 [(-32)%Z; 64%Z; (-32)%Z]); (SStruct s27 [280%Z; (-32)%Z; 0%Z]); (SStruct s27 [(-565)%Z; 64%Z; 347%Z])]) (FTopic s281 (Some s150) (Some s150)));
 (fb_match None s282 (Some s10) s23 (Some (TGen OTuple [AEllipsis; (ABase (BStruct "Translation3d"))])) (VScalar (SInt (-730)%Z)) (FTopic s283 None (Some s37)));
 (fb_match (Some s0) s284 (Some s6) s110 (Some (TGen OList [(ABase BOther)])) (VScalar (SFloat 0%Z)) (FTopic s285 None (Some s37)));
 (fb_match (Some s21) s286 (Some s6) s135 (Some (TGen OSeq [(ABase BOther)])) (VScalar (SInt 1%Z)) (FTopic s287 None (Some s37)));
 (fb_match (Some s0) s288 (Some s14) s146 (Some (TGen OTuple [(ABase BOther)])) (VScalar (SInt 2%Z)) (FTopic s289 None (Some s37)));
 (fb_match (Some s0) s290 (Some s10) s122 (Some (TGen OTuple [(ABase BOther); AEllipsis])) (VScalar (SInt 1%Z)) (FTopic s291 None (Some s37)));
 (fb_match (Some s0) s292 (Some s17) s50 (Some (TGen OTuple [(ABase BOther); (ABase BOther)])) (VScalar (SInt (-1099511627776)%Z)) (FTopic s293 None (Some s37)));
 (fb_match (Some s0) s294 (Some s17) s50 (Some (TGen OTuple [(ABase BOther); (ABase BOther); (ABase BOther)])) (VList [(SInt (-1)%Z); (SInt 2%Z)]) (FTopic s295 None (Some s63)));
 (fb_match None s296 None s146 (Some (TGen OTuple [AEllipsis; (ABase BOther)])) (VScalar (SInt 255%Z)) (FTopic s297 None (Some s37)));
 (fb_match (Some s0) s298 (Some s6) s84 (Some (TGen OTuple [(ABase BBool); (ABase BInt)])) (VScalar (SBytes [])) (FTopic s299 None (Some s40)));
 (fb_match (Some s21) s300 None s110 (Some (TGen OList [(ABase BBool); (ABase BInt)])) (VList [(SBool false)]) (FTopic s301 (Some s48) (Some s48)));
 (fb_match (Some s0) s302 (Some s6) s146 (Some (TGen OTuple [(ABase BBool); (ABase BInt); AEllipsis])) (VScalar (SFloat 1%Z)) (FTopic s303 None (Some s37)));
 (fb_match (Some s0) s304 None s84 (Some (TGen OTuple [(ABase BBool); (ABase BFloat)])) (VList [(SStr s228); (SStr s228)]) (FTopic s305 None (Some s98)));
 (fb_match (Some s0) s306 (Some s10) s135 (Some (TGen OList [(ABase BBool); (ABase BFloat)])) (VList []) (FTopic s307 (Some s48) (Some s48)));
 (fb_match (Some s0) s308 (Some s17) s73 (Some (TGen OTuple [(ABase BBool); (ABase BFloat); AEllipsis])) (VScalar (SStr s228)) (FTopic s309 None (Some s20)));
 (fb_match None s310 None s73 (Some (TGen OTuple [(ABase BBool); (ABase BStr)])) (VList [(SInt 358%Z); (SInt 2%Z); (SInt 7%Z)]) (FTopic s311 None (Some s63)));
 (fb_match (Some s0) s312 (Some s10) s122 (Some (TGen OList [(ABase BBool); (ABase BStr)])) (VList []) (FTopic s313 (Some s48) (Some s48)));
 (fb_match (Some s21) s314 (Some s10) s23 (Some (TGen OTuple [(ABase BBool); (ABase BStr); AEllipsis])) (VScalar (SStr s18)) (FTopic s315 None (Some s20)));
 (fb_match (Some s0) s316 (Some s6) s95 (Some (TGen OTuple [(ABase BBool); (ABase BBytes)])) (VScalar (SInt 0%Z)) (FTopic s317 None (Some s37)));
 (fb_match (Some s0) s318 (Some s10) s122 (Some (TGen OList [(ABase BBool); (ABase BBytes)])) (VList [(SBool true)]) (FTopic s319 (Some s48) (Some s48)));
 (fb_match (Some s0) s320 (Some s6) s50 (Some (TGen OTuple [(ABase BBool); (ABase BBytes); AEllipsis])) (VScalar (SInt 255%Z)) (FTopic s321 None (Some s37)));
 (fb_match (Some s0) s322 (Some s6) s135 (Some (TGen OTuple [(ABase BBool); (ABase (BStruct "Translation2d"))])) (VScalar (SBytes [16%N; 173%N])) (FTopic s323 None (Some s40)));
 (fb_match None s324 (Some s14) s110 (Some (TGen OList [(ABase BBool); (ABase (BStruct "Translation2d"))])) (VList [(SBool true)]) (FTopic s325 (Some s48) (Some s48)));
 (fb_match (Some s0) s326 None s110 (Some (TGen OTuple [(ABase BBool); (ABase (BStruct "Translation2d")); AEllipsis])) (VScalar (SFloat (-64)%Z)) (FTopic s327 None (Some s37)));
 (fb_match (Some s21) s328 (Some s10) s73 (Some (TGen OTuple [(ABase BBool); (ABase (BStruct "Translation3d"))])) (VList [(SBool true); (SBool false); (SBool false)]) (FTopic s329 None (Some s48)));
 (fb_match (Some s0) s330 (Some s6) s95 (Some (TGen OList [(ABase BBool); (ABase (BStruct "Translation3d"))])) (VList []) (FTopic s331 (Some s48) (Some s48)));
 (fb_match (Some s0) s332 None s95 (Some (TGen OTuple [(ABase BBool); (ABase (BStruct "Translation3d")); AEllipsis])) (VList [(SInt 1%Z)]) (FTopic s333 None (Some s63)));
 (fb_match (Some s0) s334 (Some s10) s95 (Some (TGen OTuple [(ABase BBool); (ABase BOther)])) (VScalar (SStr s96)) (FTopic s335 None (Some s20)));
 (fb_match (Some s0) s336 (Some s17) s84 (Some (TGen OList [(ABase BBool); (ABase BOther)])) (VList [(SBool false); (SBool true)]) (FTopic s337 (Some s48) (Some s48)));
 (fb_match None s338 (Some s14) s95 (Some (TGen OTuple [(ABase BBool); (ABase BOther); AEllipsis])) (VList [(SStr s44); (SStr s228); (SStr s18)]) (FTopic s339 None (Some s98)));
 (fb_match (Some s0) s340 None s50 (Some (TGen OTuple [(ABase BInt); (ABase BBool)])) (VScalar (SBytes [209%N; 76%N])) (FTopic s341 None (Some s40)));
 (fb_match (Some s21) s342 (Some s14) s84 (Some (TGen OList [(ABase BInt); (ABase BBool)])) (VList [(SInt (-1099511627776)%Z); (SInt 2%Z)]) (FTopic s343 (Some s63) (Some s63)));
 (fb_match (Some s0) s344 (Some s10) s95 (Some (TGen OTuple [(ABase BInt); (ABase BBool); AEllipsis])) (VList [(SInt 0%Z)]) (FTopic s345 None (Some s63)));
 (fb_match (Some s0) s346 (Some s17) s84 (Some (TGen OTuple [(ABase BInt); (ABase BFloat)])) (VList [(SFloat 1%Z)]) (FTopic s347 None (Some s4)));
 (fb_match (Some s0) s348 (Some s10) s35 (Some (TGen OList [(ABase BInt); (ABase BFloat)])) (VList [(SInt 7%Z)]) (FTopic s349 (Some s63) (Some s63)));
 (fb_match (Some s0) s350 (Some s14) s23 (Some (TGen OTuple [(ABase BInt); (ABase BFloat); AEllipsis])) (VScalar (SFloat 96%Z)) (FTopic s351 None (Some s37)));
 (fb_match None s352 (Some s10) s2 (Some (TGen OTuple [(ABase BInt); (ABase BStr)])) (VScalar (SStr s105)) (FTopic s353 None (Some s20)));
 (fb_match (Some s0) s354 None s110 (Some (TGen OList [(ABase BInt); (ABase BStr)])) (VList [(SInt (-1)%Z)]) (FTopic s355 (Some s63) (Some s63)));
 (fb_match (Some s21) s356 (Some s17) s2 (Some (TGen OTuple [(ABase BInt); (ABase BStr); AEllipsis])) (VScalar (SFloat 1073741824%Z)) (FTopic s357 None (Some s37)));
 (fb_match (Some s0) s358 (Some s17) s73 (Some (TGen OTuple [(ABase BInt); (ABase BBytes)])) (VList [(SInt (-1)%Z)]) (FTopic s359 None (Some s63)));
 (fb_match (Some s0) s360 (Some s6) s146 (Some (TGen OList [(ABase BInt); (ABase BBytes)])) (VList [(SInt 9007199254740993%Z)]) (FTopic s361 (Some s63) (Some s63)));
 (fb_match (Some s0) s362 (Some s10) s135 (Some (TGen OTuple [(ABase BInt); (ABase BBytes); AEllipsis])) (VList [(SInt 7%Z)]) (FTopic s363 None (Some s63)));
 (fb_match (Some s0) s364 (Some s14) s110 (Some (TGen OTuple [(ABase BInt); (ABase (BStruct "Translation2d"))])) (VList [(SStr s228); (SStr s228)]) (FTopic s365 None (Some s98)));
 (fb_match None s366 (Some s14) s23 (Some (TGen OList [(ABase BInt); (ABase (BStruct "Translation2d"))])) (VList []) (FTopic s367 (Some s63) (Some s63)));
 (fb_match (Some s0) s368 (Some s10) s23 (Some (TGen OTuple [(ABase BInt); (ABase (BStruct "Translation2d")); AEllipsis])) (VScalar (SInt 1%Z)) (FTopic s369 None (Some s37)));
 (fb_match (Some s21) s370 (Some s14) s2 (Some (TGen OTuple [(ABase BInt); (ABase (BStruct "Translation3d"))])) (VScalar (SBool true)) (FTopic s371 None (Some s8)));
 (fb_match (Some s0) s372 (Some s6) s122 (Some (TGen OList [(ABase BInt); (ABase (BStruct "Translation3d"))])) (VList [(SInt 0%Z)]) (FTopic s373 (Some s63) (Some s63)));
 (fb_match (Some s0) s374 (Some s14) s50 (Some (TGen OTuple [(ABase BInt); (ABase (BStruct "Translation3d")); AEllipsis])) (VScalar (SBytes [])) (FTopic s375 None (Some s40)));
 (fb_match (Some s0) s376 (Some s17) s23 (Some (TGen OTuple [(ABase BInt); (ABase BOther)])) (VScalar (SBool true)) (FTopic s377 None (Some s8)));
 (fb_match (Some s0) s378 (Some s6) s95 (Some (TGen OList [(ABase BInt); (ABase BOther)])) (VList [(SInt (-1)%Z)]) (FTopic s379 (Some s63) (Some s63)));
 (fb_match None s380 (Some s10) s122 (Some (TGen OTuple [(ABase BInt); (ABase BOther); AEllipsis])) (VScalar (SStr s102)) (FTopic s381 None (Some s20)));
 (fb_match (Some s0) s382 (Some s6) s35 (Some (TGen OTuple [(ABase BFloat); (ABase BBool)])) (VScalar (SInt 315%Z)) (FTopic s383 None (Some s37)));
 (fb_match (Some s21) s384 (Some s14) s2 (Some (TGen OList [(ABase BFloat); (ABase BBool)])) (VList [(SFloat (-64)%Z); (SFloat (-3)%Z); (SFloat 0%Z)]) (FTopic s385 (Some s4) (Some s4)));
 (fb_match (Some s0) s386 (Some s10) s73 (Some (TGen OTuple [(ABase BFloat); (ABase BBool); AEllipsis])) (VScalar (SFloat (-64)%Z)) (FTopic s387 None (Some s37)));
 (fb_match (Some s0) s388 (Some s17) s84 (Some (TGen OTuple [(ABase BFloat); (ABase BInt)])) (VList [(SFloat 64%Z)]) (FTopic s389 None (Some s4)));
 (fb_match (Some s0) s390 (Some s17) s50 (Some (TGen OList [(ABase BFloat); (ABase BInt)])) (VList [(SFloat (-64)%Z)]) (FTopic s391 (Some s4) (Some s4)));
 (fb_match (Some s0) s392 (Some s14) s2 (Some (TGen OTuple [(ABase BFloat); (ABase BInt); AEllipsis])) (VList [(SFloat 96%Z)]) (FTopic s393 None (Some s4)));
 (fb_match None s394 (Some s17) s23 (Some (TGen OTuple [(ABase BFloat); (ABase BStr)])) (VList [(SStr s228)]) (FTopic s395 None (Some s98)));
 (fb_match (Some s0) s396 (Some s14) s146 (Some (TGen OList [(ABase BFloat); (ABase BStr)])) (VList [(SFloat 1%Z)]) (FTopic s397 (Some s4) (Some s4)));
 (fb_match (Some s21) s398 (Some s6) s122 (Some (TGen OTuple [(ABase BFloat); (ABase BStr); AEllipsis])) (VList [(SInt 9007199254740993%Z)]) (FTopic s399 None (Some s63)));
 (fb_match (Some s0) s400 (Some s6) s35 (Some (TGen OTuple [(ABase BFloat); (ABase BBytes)])) (VScalar (SBool false)) (FTopic s401 None (Some s8)));
 (fb_match (Some s0) s402 (Some s10) s35 (Some (TGen OList [(ABase BFloat); (ABase BBytes)])) (VList [(SFloat 4843%Z)]) (FTopic s403 (Some s4) (Some s4)));
 (fb_match (Some s0) s404 (Some s6) s146 (Some (TGen OTuple [(ABase BFloat); (ABase BBytes); AEllipsis])) (VScalar (SBool false)) (FTopic s405 None (Some s8)));
 (fb_match (Some s0) s406 (Some s17) s110 (Some (TGen OTuple [(ABase BFloat); (ABase (BStruct "Translation2d"))])) (VList [(SInt 255%Z); (SInt 9007199254740993%Z); (SInt 9007199254740993%Z)]) (FTopic s407 None (Some s63)));
 (fb_match None s408 (Some s10) s35 (Some (TGen OList [(ABase BFloat); (ABase (BStruct "Translation2d"))])) (VList []) (FTopic s409 (Some s4) (Some s4)));
 (fb_match (Some s0) s410 None s95 (Some (TGen OTuple [(ABase BFloat); (ABase (BStruct "Translation2d")); AEllipsis])) (VScalar (SInt (-1099511627776)%Z)) (FTopic s411 None (Some s37)));
 (fb_match (Some s21) s412 None s135 (Some (TGen OTuple [(ABase BFloat); (ABase (BStruct "Translation3d"))])) (VScalar (SInt 7%Z)) (FTopic s413 None (Some s37)));
 (fb_match (Some s0) s414 (Some s17) s2 (Some (TGen OList [(ABase BFloat); (ABase (BStruct "Translation3d"))])) (VList [(SFloat 96%Z)]) (FTopic s415 (Some s4) (Some s4)));
 (fb_match (Some s0) s416 (Some s6) s50 (Some (TGen OTuple [(ABase BFloat); (ABase (BStruct "Translation3d")); AEllipsis])) (VScalar (SStr s102)) (FTopic s417 None (Some s20)));
 (fb_match (Some s0) s418 (Some s14) s95 (Some (TGen OTuple [(ABase BFloat); (ABase BOther)])) (VList [(SBool false); (SBool true)]) (FTopic s419 None (Some s48)));
 (fb_match (Some s0) s420 (Some s10) s110 (Some (TGen OList [(ABase BFloat); (ABase BOther)])) (VList [(SFloat 96%Z)]) (FTopic s421 (Some s4) (Some s4)));
 (fb_match None s422 (Some s6) s50 (Some (TGen OTuple [(ABase BFloat); (ABase BOther); AEllipsis])) (VScalar (SFloat 96%Z)) (FTopic s423 None (Some s37)));
 (fb_match (Some s0) s424 (Some s17) s23 (Some (TGen OTuple [(ABase BStr); (ABase BBool)])) (VScalar (SBool true)) (FTopic s425 None (Some s8)));
 (fb_match (Some s21) s426 (Some s14) s146 (Some (TGen OList [(ABase BStr); (ABase BBool)])) (VList [(SStr s96); (SStr s111); (SStr s96)]) (FTopic s427 (Some s98) (Some s98)));
 (fb_match (Some s0) s428 (Some s14) s73 (Some (TGen OTuple [(ABase BStr); (ABase BBool); AEllipsis])) (VList [(SFloat 1%Z); (SFloat 1073741824%Z); (SFloat (-64)%Z)]) (FTopic s429 None (Some s4)));
 (fb_match (Some s0) s430 (Some s14) s2 (Some (TGen OTuple [(ABase BStr); (ABase BInt)])) (VScalar (SFloat (-64)%Z)) (FTopic s431 None (Some s37)));
 (fb_match (Some s0) s432 (Some s17) s50 (Some (TGen OList [(ABase BStr); (ABase BInt)])) (VList []) (FTopic s433 (Some s98) (Some s98)));
 (fb_match (Some s0) s434 None s73 (Some (TGen OTuple [(ABase BStr); (ABase BInt); AEllipsis])) (VScalar (SStr s228)) (FTopic s435 None (Some s20)));
 (fb_match None s436 (Some s6) s135 (Some (TGen OTuple [(ABase BStr); (ABase BFloat)])) (VList [(SStr s228)]) (FTopic s437 None (Some s98)));
 (fb_match (Some s0) s438 (Some s6) s50 (Some (TGen OList [(ABase BStr); (ABase BFloat)])) (VList [(SStr s96)]) (FTopic s439 (Some s98) (Some s98)));
 (fb_match (Some s21) s440 (Some s10) s2 (Some (TGen OTuple [(ABase BStr); (ABase BFloat); AEllipsis])) (VScalar (SBool false)) (FTopic s441 None (Some s8)));
 (fb_match (Some s0) s442 (Some s6) s84 (Some (TGen OTuple [(ABase BStr); (ABase BBytes)])) (VList [(SBool false)]) (FTopic s443 None (Some s48)));
 (fb_match (Some s0) s444 None s23 (Some (TGen OList [(ABase BStr); (ABase BBytes)])) (VList [(SStr s96); (SStr s96)]) (FTopic s445 (Some s98) (Some s98)));
 (fb_match (Some s0) s446 None s35 (Some (TGen OTuple [(ABase BStr); (ABase BBytes); AEllipsis])) (VScalar (SBytes [161%N; 104%N; 170%N; 249%N])) (FTopic s447 None (Some s40)));
 (fb_match (Some s0) s448 (Some s17) s84 (Some (TGen OTuple [(ABase BStr); (ABase (BStruct "Translation2d"))])) (VScalar (SStr s105)) (FTopic s449 None (Some s20)));
 (fb_match None s450 (Some s17) s146 (Some (TGen OList [(ABase BStr); (ABase (BStruct "Translation2d"))])) (VList []) (FTopic s451 (Some s98) (Some s98)));
 (fb_match (Some s0) s452 (Some s14) s50 (Some (TGen OTuple [(ABase BStr); (ABase (BStruct "Translation2d")); AEllipsis])) (VScalar (SInt 255%Z)) (FTopic s453 None (Some s37)));
 (fb_match (Some s21) s454 None s50 (Some (TGen OTuple [(ABase BStr); (ABase (BStruct "Translation3d"))])) (VScalar (SFloat 1073741824%Z)) (FTopic s455 None (Some s37)));
 (fb_match (Some s0) s456 (Some s14) s122 (Some (TGen OList [(ABase BStr); (ABase (BStruct "Translation3d"))])) (VList [(SStr s111)]) (FTopic s457 (Some s98) (Some s98)));
 (fb_match (Some s0) s458 (Some s6) s35 (Some (TGen OTuple [(ABase BStr); (ABase (BStruct "Translation3d")); AEllipsis])) (VList [(SFloat 1073741824%Z); (SFloat 0%Z); (SFloat (-5972)%Z)]) (FTopic s459 None (Some s4)));
 (fb_match (Some s0) s460 (Some s14) s50 (Some (TGen OTuple [(ABase BStr); (ABase BOther)])) (VList [(SInt (-1099511627776)%Z)]) (FTopic s461 None (Some s63)));
 (fb_match (Some s0) s462 None s110 (Some (TGen OList [(ABase BStr); (ABase BOther)])) (VList [(SStr s102); (SStr s111); (SStr s50)]) (FTopic s463 (Some s98) (Some s98)));
 (fb_match None s464 (Some s14) s84 (Some (TGen OTuple [(ABase BStr); (ABase BOther); AEllipsis])) (VList [(SInt 9007199254740993%Z); (SInt 7%Z)]) (FTopic s465 None (Some s63)));
 (fb_match (Some s0) s466 (Some s17) s135 (Some (TGen OTuple [(ABase BBytes); (ABase BBool)])) (VScalar (SFloat 1176%Z)) (FTopic s467 None (Some s37)));
 (fb_match (Some s21) s468 (Some s6) s2 (Some (TGen OList [(ABase BBytes); (ABase BBool)])) (VScalar (SBool false)) (FTopic s469 None (Some s8)));
 (fb_match (Some s0) s470 (Some s10) s61 (Some (TGen OTuple [(ABase BBytes); (ABase BBool); AEllipsis])) (VScalar (SBool true)) (FTopic s471 None (Some s8)));
 (fb_match (Some s0) s472 (Some s17) s135 (Some (TGen OTuple [(ABase BBytes); (ABase BInt)])) (VList [(SInt 2%Z)]) (FTopic s473 None (Some s63)));
 (fb_match (Some s0) s474 (Some s14) s61 (Some (TGen OList [(ABase BBytes); (ABase BInt)])) (VScalar (SInt (-1)%Z)) (FTopic s475 None (Some s37)));
 (fb_match (Some s0) s476 None s122 (Some (TGen OTuple [(ABase BBytes); (ABase BInt); AEllipsis])) (VList [(SInt (-1)%Z)]) (FTopic s477 None (Some s63)));
 (fb_match None s478 (Some s14) s73 (Some (TGen OTuple [(ABase BBytes); (ABase BFloat)])) (VList [(SStr s228)]) (FTopic s479 None (Some s98)));
 (fb_match (Some s0) s480 (Some s6) s35 (Some (TGen OList [(ABase BBytes); (ABase BFloat)])) (VList [(SFloat (-64)%Z); (SFloat (-3337)%Z); (SFloat 1%Z)]) (FTopic s481 None (Some s4)));
 (fb_match (Some s21) s482 (Some s17) s122 (Some (TGen OTuple [(ABase BBytes); (ABase BFloat); AEllipsis])) (VScalar (SBool true)) (FTopic s483 None (Some s8)));
 (fb_match (Some s0) s484 None s135 (Some (TGen OTuple [(ABase BBytes); (ABase BStr)])) (VScalar (SBool true)) (FTopic s485 None (Some s8)));
 (fb_match (Some s0) s486 (Some s17) s95 (Some (TGen OList [(ABase BBytes); (ABase BStr)])) (VList [(SInt (-28)%Z)]) (FTopic s487 None (Some s63)));
 (fb_match (Some s0) s488 (Some s10) s50 (Some (TGen OTuple [(ABase BBytes); (ABase BStr); AEllipsis])) (VScalar (SFloat 1073741824%Z)) (FTopic s489 None (Some s37)));
 (fb_match (Some s0) s490 (Some s17) s35 (Some (TGen OTuple [(ABase BBytes); (ABase (BStruct "Translation2d"))])) (VList [(SBool false)]) (FTopic s491 None (Some s48)));
 (fb_match None s492 (Some s10) s95 (Some (TGen OList [(ABase BBytes); (ABase (BStruct "Translation2d"))])) (VList [(SInt 98%Z)]) (FTopic s493 None (Some s63)));
 (fb_match (Some s0) s494 (Some s6) s35 (Some (TGen OTuple [(ABase BBytes); (ABase (BStruct "Translation2d")); AEllipsis])) (VList [(SBool false)]) (FTopic s495 None (Some s48)));
 (fb_match (Some s21) s496 (Some s10) s95 (Some (TGen OTuple [(ABase BBytes); (ABase (BStruct "Translation3d"))])) (VList [(SBool true); (SBool false); (SBool true)]) (FTopic s497 None (Some s48)));
 (fb_match (Some s0) s498 (Some s6) s110 (Some (TGen OList [(ABase BBytes); (ABase (BStruct "Translation3d"))])) (VList [(SStr s111); (SStr s228); (SStr s228)]) (FTopic s499 None (Some s98)));
 (fb_match (Some s0) s500 (Some s17) s146 (Some (TGen OTuple [(ABase BBytes); (ABase (BStruct "Translation3d")); AEllipsis])) (VList [(SFloat 762%Z); (SFloat 3768%Z); (SFloat 1%Z)]) (FTopic s501 None (Some s4)));
 (fb_match (Some s0) s502 None s73 (Some (TGen OTuple [(ABase BBytes); (ABase BOther)])) (VList [(SBool true); (SBool false); (SBool false)]) (FTopic s503 None (Some s48)));
 (fb_match (Some s0) s504 (Some s17) s110 (Some (TGen OList [(ABase BBytes); (ABase BOther)])) (VList [(SInt 2%Z)]) (FTopic s505 None (Some s63)));
 (fb_match None s506 None s61 (Some (TGen OTuple [(ABase BBytes); (ABase BOther); AEllipsis])) (VScalar (SFloat (-64)%Z)) (FTopic s507 None (Some s37)));
 (fb_match (Some s0) s508 (Some s14) s110 (Some (TGen OTuple [(ABase (BStruct "Translation2d")); (ABase BBool)])) (VList [(SFloat 0%Z); (SFloat (-3)%Z); (SFloat (-765)%Z)]) (FTopic s509 None (Some s4)));
 (fb_match (Some s21) s510 (Some s10) s61 (Some (TGen OList [(ABase (BStruct "Translation2d")); (ABase BBool)])) (VList [(SStruct s131 [64%Z; (-824)%Z])]) (FTopic s511 (Some s133) (Some s133)));
 (fb_match (Some s0) s512 (Some s10) s50 (Some (TGen OTuple [(ABase (BStruct "Translation2d")); (ABase BBool); AEllipsis])) (VScalar (SFloat (-3)%Z)) (FTopic s513 None (Some s37)));
 (fb_match (Some s0) s514 (Some s6) s135 (Some (TGen OTuple [(ABase (BStruct "Translation2d")); (ABase BInt)])) (VList [(SStr s10); (SStr s50)]) (FTopic s515 None (Some s98)));
 (fb_match (Some s0) s516 (Some s10) s35 (Some (TGen OList [(ABase (BStruct "Translation2d")); (ABase BInt)])) (VList [(SStruct s131 [0%Z; (-32)%Z])]) (FTopic s517 (Some s133) (Some s133)));
 (fb_match (Some s0) s518 (Some s17) s73 (Some (TGen OTuple [(ABase (BStruct "Translation2d")); (ABase BInt); AEllipsis])) (VList [(SFloat (-3)%Z); (SFloat 96%Z)]) (FTopic s519 None (Some s4)));
 (fb_match None s520 (Some s10) s35 (Some (TGen OTuple [(ABase (BStruct "Translation2d")); (ABase BFloat)])) (VList [(SStr s228)]) (FTopic s521 None (Some s98)));
 (fb_match (Some s0) s522 (Some s14) s146 (Some (TGen OList [(ABase (BStruct "Translation2d")); (ABase BFloat)])) (VList [(SStruct s131 [407%Z; 64%Z])]) (FTopic s523 (Some s133) (Some s133)));
 (fb_match (Some s21) s524 (Some s10) s135 (Some (TGen OTuple [(ABase (BStruct "Translation2d")); (ABase BFloat); AEllipsis])) (VScalar (SBytes [73%N; 244%N; 113%N; 108%N])) (FTopic s525 None (Some s40)));
 (fb_match (Some s0) s526 None s110 (Some (TGen OTuple [(ABase (BStruct "Translation2d")); (ABase BStr)])) (VScalar (SBool true)) (FTopic s527 None (Some s8)));
 (fb_match (Some s0) s528 (Some s14) s135 (Some (TGen OList [(ABase (BStruct "Translation2d")); (ABase BStr)])) (VList [(SStruct s131 [(-566)%Z; 0%Z])]) (FTopic s529 (Some s133) (Some s133)));
 (fb_match (Some s0) s530 (Some s14) s35 (Some (TGen OTuple [(ABase (BStruct "Translation2d")); (ABase BStr); AEllipsis])) (VList [(SFloat (-3)%Z)]) (FTopic s531 None (Some s4)));
 (fb_match (Some s0) s532 (Some s17) s2 (Some (TGen OTuple [(ABase (BStruct "Translation2d")); (ABase BBytes)])) (VList [(SFloat (-5285)%Z); (SFloat 96%Z); (SFloat 96%Z)]) (FTopic s533 None (Some s4)));
 (fb_match None s534 (Some s6) s61 (Some (TGen OList [(ABase (BStruct "Translation2d")); (ABase BBytes)])) (VList [(SStruct s131 [(-32)%Z; 64%Z])]) (FTopic s535 (Some s133) (Some s133)));
 (fb_match (Some s0) s536 (Some s17) s146 (Some (TGen OTuple [(ABase (BStruct "Translation2d")); (ABase BBytes); AEllipsis])) (VScalar (SBytes [])) (FTopic s537 None (Some s40)));
 (fb_match (Some s21) s538 None s110 (Some (TGen OTuple [(ABase (BStruct "Translation2d")); (ABase (BStruct "Translation3d"))])) (VList [(SBool false)]) (FTopic s539 None (Some s48)));
 (fb_match (Some s0) s540 (Some s17) s95 (Some (TGen OList [(ABase (BStruct "Translation2d")); (ABase (BStruct "Translation3d"))])) (VList [(SStruct s131 [64%Z; 0%Z]); (SStruct s131 [0%Z; 640%Z])]) (FTopic s541 (Some s133) (Some s133)));
 (fb_match (Some s0) s542 (Some s6) s110 (Some (TGen OTuple [(ABase (BStruct "Translation2d")); (ABase (BStruct "Translation3d")); AEllipsis])) (VList [(SStr s44)]) (FTopic s543 None (Some s98)));
 (fb_match (Some s0) s544 (Some s6) s61 (Some (TGen OTuple [(ABase (BStruct "Translation2d")); (ABase BOther)])) (VList [(SInt 1%Z)]) (FTopic s545 None (Some s63)));
 (fb_match (Some s0) s546 (Some s14) s135 (Some (TGen OList [(ABase (BStruct "Translation2d")); (ABase BOther)])) (VList [(SStruct s131 [(-32)%Z; (-32)%Z])]) (FTopic s547 (Some s133) (Some s133)));
 (fb_match None s548 (Some s10) s2 (Some (TGen OTuple [(ABase (BStruct "Translation2d")); (ABase BOther); AEllipsis])) (VScalar (SFloat 1%Z)) (FTopic s549 None (Some s37)));
 (fb_match (Some s0) s550 None s146 (Some (TGen OTuple [(ABase (BStruct "Translation3d")); (ABase BBool)])) (VScalar (SFloat 1073741824%Z)) (FTopic s551 None (Some s37)));
 (fb_match (Some s21) s552 (Some s14) s146 (Some (TGen OList [(ABase (BStruct "Translation3d")); (ABase BBool)])) (VList [(SStruct s27 [519%Z; (-193)%Z; 0%Z]); (SStruct s27 [640%Z; 640%Z; (-32)%Z])]) (FTopic s553 (Some s150) (Some s150)));
 (fb_match (Some s0) s554 (Some s6) s50 (Some (TGen OTuple [(ABase (BStruct "Translation3d")); (ABase BBool); AEllipsis])) (VList [(SStr s105); (SStr s96)]) (FTopic s555 None (Some s98)));
 (fb_match (Some s0) s556 (Some s17) s110 (Some (TGen OTuple [(ABase (BStruct "Translation3d")); (ABase BInt)])) (VScalar (SInt (-1)%Z)) (FTopic s557 None (Some s37)));
 (fb_match (Some s0) s558 None s61 (Some (TGen OList [(ABase (BStruct "Translation3d")); (ABase BInt)])) (VList [(SStruct s27 [0%Z; 0%Z; 640%Z])]) (FTopic s559 (Some s150) (Some s150)));
 (fb_match (Some s0) s560 (Some s6) s135 (Some (TGen OTuple [(ABase (BStruct "Translation3d")); (ABase BInt); AEllipsis])) (VList [(SInt 2%Z)]) (FTopic s561 None (Some s63)));
 (fb_match None s562 (Some s14) s122 (Some (TGen OTuple [(ABase (BStruct "Translation3d")); (ABase BFloat)])) (VScalar (SFloat (-3)%Z)) (FTopic s563 None (Some s37)));
 (fb_match (Some s0) s564 (Some s14) s61 (Some (TGen OList [(ABase (BStruct "Translation3d")); (ABase BFloat)])) (VList [(SStruct s27 [(-32)%Z; 640%Z; 0%Z]); (SStruct s27 [64%Z; 0%Z; 64%Z])]) (FTopic s565 (Some s150) (Some s150)));
 (fb_match (Some s21) s566 None s50 (Some (TGen OTuple [(ABase (BStruct "Translation3d")); (ABase BFloat); AEllipsis])) (VList [(SFloat 0%Z)]) (FTopic s567 None (Some s4)));
 (fb_match (Some s0) s568 (Some s10) s84 (Some (TGen OTuple [(ABase (BStruct "Translation3d")); (ABase BStr)])) (VList [(SBool true)]) (FTopic s569 None (Some s48)));
 (fb_match (Some s0) s570 (Some s6) s110 (Some (TGen OList [(ABase (BStruct "Translation3d")); (ABase BStr)])) (VList [(SStruct s27 [(-32)%Z; (-32)%Z; (-32)%Z])]) (FTopic s571 (Some s150) (Some s150)));
 (fb_match (Some s0) s572 (Some s17) s61 (Some (TGen OTuple [(ABase (BStruct "Translation3d")); (ABase BStr); AEllipsis])) (VScalar (SStr s105)) (FTopic s573 None (Some s20)));
 (fb_match (Some s0) s574 (Some s17) s2 (Some (TGen OTuple [(ABase (BStruct "Translation3d")); (ABase BBytes)])) (VScalar (SStr s44)) (FTopic s575 None (Some s20)));
 (fb_match None s576 (Some s10) s35 (Some (TGen OList [(ABase (BStruct "Translation3d")); (ABase BBytes)])) (VList [(SStruct s27 [0%Z; 64%Z; 0%Z])]) (FTopic s577 (Some s150) (Some s150)));
 (fb_match (Some s0) s578 (Some s10) s23 (Some (TGen OTuple [(ABase (BStruct "Translation3d")); (ABase BBytes); AEllipsis])) (VList [(SInt 7%Z); (SInt (-1)%Z)]) (FTopic s579 None (Some s63)));
 (fb_match (Some s21) s580 None s84 (Some (TGen OTuple [(ABase (BStruct "Translation3d")); (ABase (BStruct "Translation2d"))])) (VList [(SInt 9007199254740993%Z); (SInt 255%Z); (SInt 0%Z)]) (FTopic s581 None (Some s63)));
 (fb_match (Some s0) s582 (Some s14) s84 (Some (TGen OList [(ABase (BStruct "Translation3d")); (ABase (BStruct "Translation2d"))])) (VList [(SStruct s27 [(-32)%Z; 0%Z; (-32)%Z]); (SStruct s27 [(-204)%Z; 640%Z; 640%Z])]) (FTopic s583 (Some s150) (Some s150)));
 (fb_match (Some s0) s584 (Some s10) s61 (Some (TGen OTuple [(ABase (BStruct "Translation3d")); (ABase (BStruct "Translation2d")); AEllipsis])) (VScalar (SInt 2%Z)) (FTopic s585 None (Some s37)));
 (fb_match (Some s0) s586 (Some s6) s61 (Some (TGen OTuple [(ABase (BStruct "Translation3d")); (ABase BOther)])) (VScalar (SFloat 0%Z)) (FTopic s587 None (Some s37)));
 (fb_match (Some s0) s588 (Some s17) s122 (Some (TGen OList [(ABase (BStruct "Translation3d")); (ABase BOther)])) (VList [(SStruct s27 [640%Z; 64%Z; 64%Z])]) (FTopic s589 (Some s150) (Some s150)));
 (fb_match None s590 (Some s6) s23 (Some (TGen OTuple [(ABase (BStruct "Translation3d")); (ABase BOther); AEllipsis])) (VScalar (SFloat (-64)%Z)) (FTopic s591 None (Some s37)));
 (fb_match (Some s0) s592 (Some s17) s84 (Some (TGen OTuple [(ABase BOther); (ABase BBool)])) (VScalar (SBool true)) (FTopic s593 None (Some s8)));
 (fb_match (Some s21) s594 (Some s10) s84 (Some (TGen OList [(ABase BOther); (ABase BBool)])) (VScalar (SBool true)) (FTopic s595 None (Some s8)));
 (fb_match (Some s0) s596 None s135 (Some (TGen OTuple [(ABase BOther); (ABase BBool); AEllipsis])) (VScalar (SBool true)) (FTopic s597 None (Some s8)));
 (fb_match (Some s0) s598 None s73 (Some (TGen OTuple [(ABase BOther); (ABase BInt)])) (VScalar (SBytes [188%N])) (FTopic s599 None (Some s40)));
 (fb_match (Some s0) s600 None s50 (Some (TGen OList [(ABase BOther); (ABase BInt)])) (VList [(SInt 1%Z)]) (FTopic s601 None (Some s63)));
 (fb_match (Some s0) s602 (Some s10) s2 (Some (TGen OTuple [(ABase BOther); (ABase BInt); AEllipsis])) (VScalar (SBool true)) (FTopic s603 None (Some s8)));
 (fb_match None s604 None s122 (Some (TGen OTuple [(ABase BOther); (ABase BFloat)])) (VScalar (SInt 2%Z)) (FTopic s605 None (Some s37)));
 (fb_match (Some s0) s606 (Some s6) s23 (Some (TGen OList [(ABase BOther); (ABase BFloat)])) (VList [(SBool true)]) (FTopic s607 None (Some s48)));
 (fb_match (Some s21) s608 None s110 (Some (TGen OTuple [(ABase BOther); (ABase BFloat); AEllipsis])) (VScalar (SFloat 64%Z)) (FTopic s609 None (Some s37)));
 (fb_match (Some s0) s610 (Some s6) s110 (Some (TGen OTuple [(ABase BOther); (ABase BStr)])) (VList [(SFloat 2999%Z)]) (FTopic s611 None (Some s4)));
 (fb_match (Some s0) s612 (Some s6) s35 (Some (TGen OList [(ABase BOther); (ABase BStr)])) (VList [(SStr s102); (SStr s50); (SStr s111)]) (FTopic s613 None (Some s98)));
 (fb_match (Some s0) s614 (Some s10) s84 (Some (TGen OTuple [(ABase BOther); (ABase BStr); AEllipsis])) (VList [(SInt 255%Z)]) (FTopic s615 None (Some s63)));
 (fb_match (Some s0) s616 (Some s17) s73 (Some (TGen OTuple [(ABase BOther); (ABase BBytes)])) (VScalar (SInt 319%Z)) (FTopic s617 None (Some s37)));
 (fb_match None s618 (Some s17) s23 (Some (TGen OList [(ABase BOther); (ABase BBytes)])) (VList [(SBool true); (SBool false)]) (FTopic s619 None (Some s48)));
 (fb_match (Some s0) s620 (Some s17) s61 (Some (TGen OTuple [(ABase BOther); (ABase BBytes); AEllipsis])) (VList [(SBool false)]) (FTopic s621 None (Some s48)));
 (fb_match (Some s21) s622 (Some s10) s50 (Some (TGen OTuple [(ABase BOther); (ABase (BStruct "Translation2d"))])) (VList [(SFloat 28%Z); (SFloat (-64)%Z)]) (FTopic s623 None (Some s4)));
 (fb_match (Some s0) s624 (Some s10) s23 (Some (TGen OList [(ABase BOther); (ABase (BStruct "Translation2d"))])) (VScalar (SBool true)) (FTopic s625 None (Some s8)));
 (fb_match (Some s0) s626 (Some s6) s122 (Some (TGen OTuple [(ABase BOther); (ABase (BStruct "Translation2d")); AEllipsis])) (VList [(SInt 1%Z)]) (FTopic s627 None (Some s63)));
 (fb_match (Some s0) s628 (Some s14) s122 (Some (TGen OTuple [(ABase BOther); (ABase (BStruct "Translation3d"))])) (VScalar (SInt 0%Z)) (FTopic s629 None (Some s37)));
 (fb_match (Some s0) s630 (Some s14) s146 (Some (TGen OList [(ABase BOther); (ABase (BStruct "Translation3d"))])) (VList [(SStr s10); (SStr s105)]) (FTopic s631 None (Some s98)));
 (fb_match None s632 None s135 (Some (TGen OTuple [(ABase BOther); (ABase (BStruct "Translation3d")); AEllipsis])) (VList [(SInt 0%Z)]) (FTopic s633 None (Some s63)))].
Eval vm_compute in (bad_from (fun b : bool => b) 0 rows).
