From Coq Require Import String List Bool ZArith NArith.
From RV Require Import Tunable.Model Tunable.Compare.
Import ListNotations.
Open Scope string_scope.
Definition s0 : string := "components"%string.
Definition s1 : string := "fb0"%string.
Definition s2 : string := "get_x"%string.
Definition s3 : string := "x y"%string.
Definition s4 : string := "/components/fb0/x"%string.
Definition s5 : string := "string"%string.
Definition s6 : string := "fb1"%string.
Definition s7 : string := "k"%string.
Definition s8 : string := "/components/fb1/k"%string.
Definition s9 : string := "boolean"%string.
Definition s10 : string := "fb2"%string.
Definition s11 : string := ""%string.
Definition s12 : string := "/components/fb2/"%string.
Definition s13 : string := "int"%string.
Definition s14 : string := "robot"%string.
Definition s15 : string := "get_k"%string.
Definition s16 : string := "/robot/get_k"%string.
Definition s17 : string := "double[]"%string.
Definition s18 : string := "fb4"%string.
Definition s19 : string := "sub/k"%string.
Definition s20 : string := "/components/fb4/sub/k"%string.
Definition s21 : string := "autonomous"%string.
Definition s22 : string := "fb5"%string.
Definition s23 : string := "getx"%string.
Definition s24 : string := "fb6"%string.
Definition s25 : string := "/components/fb6/k"%string.
Definition s26 : string := "fb7"%string.
Definition s27 : string := "Translation3d"%string.
Definition s28 : string := "/components/fb7/"%string.
Definition s29 : string := "struct:Translation3d"%string.
Definition s30 : string := "fb8"%string.
Definition s31 : string := "/components/fb8/get_k"%string.
Definition s32 : string := "int[]"%string.
Definition s33 : string := "fb9"%string.
Definition s34 : string := "/components/fb9/sub/k"%string.
Definition s35 : string := "robotfb10"%string.
Definition s36 : string := "x"%string.
Definition s37 : string := "a"%string.
Definition s38 : string := "/robotfb10/x"%string.
Definition s39 : string := "fb11"%string.
Definition s40 : string := "/components/fb11/k"%string.
Definition s41 : string := "double"%string.
Definition s42 : string := "fb12"%string.
Definition s43 : string := "/autonomous/fb12/"%string.
Definition s44 : string := "fb13"%string.
Definition s45 : string := "/components/fb13/get_k"%string.
Definition s46 : string := "fb14"%string.
Definition s47 : string := "/components/fb14/sub/k"%string.
Definition s48 : string := "boolean[]"%string.
Definition s49 : string := "fb15"%string.
Definition s50 : string := "get_"%string.
Definition s51 : string := "/components/fb15/"%string.
Definition s52 : string := "fb16"%string.
Definition s53 : string := "/components/fb16/k"%string.
Definition s54 : string := "robotfb17"%string.
Definition s55 : string := "/robotfb17/"%string.
Definition s56 : string := "fb18"%string.
Definition s57 : string := "/components/fb18/get_k"%string.
Definition s58 : string := "fb19"%string.
Definition s59 : string := "/autonomous/fb19/sub/k"%string.
Definition s60 : string := "fb20"%string.
Definition s61 : string := "_private"%string.
Definition s62 : string := "/components/fb20/_private"%string.
Definition s63 : string := "fb21"%string.
Definition s64 : string := "ab"%string.
Definition s65 : string := "/components/fb21/k"%string.
Definition s66 : string := "fb22"%string.
Definition s67 : string := "/components/fb22/"%string.
Definition s68 : string := "fb23"%string.
Definition s69 : string := "/components/fb23/get_k"%string.
Definition s70 : string := "robotfb24"%string.
Definition s71 : string := "/robotfb24/sub/k"%string.
Definition s72 : string := "fb25"%string.
Definition s73 : string := "get_get_y"%string.
Definition s74 : string := "/components/fb25/get_y"%string.
Definition s75 : string := "fb26"%string.
Definition s76 : string := "/autonomous/fb26/k"%string.
Definition s77 : string := "fb27"%string.
Definition s78 : string := "/components/fb27/"%string.
Definition s79 : string := "fb28"%string.
Definition s80 : string := "/components/fb28/get_k"%string.
Definition s81 : string := "fb29"%string.
Definition s82 : string := "/components/fb29/sub/k"%string.
Definition s83 : string := "fb30"%string.
Definition s84 : string := "_get_z"%string.
Definition s85 : string := "/components/fb30/_get_z"%string.
Definition s86 : string := "robotfb31"%string.
Definition s87 : string := "/robotfb31/k"%string.
Definition s88 : string := "fb32"%string.
Definition s89 : string := "/components/fb32/"%string.
Definition s90 : string := "fb33"%string.
Definition s91 : string := "/autonomous/fb33/get_k"%string.
Definition s92 : string := "fb34"%string.
Definition s93 : string := "/components/fb34/sub/k"%string.
Definition s94 : string := "fb35"%string.
Definition s95 : string := "Get_q"%string.
Definition s96 : string := "/components/fb35/Get_q"%string.
Definition s97 : string := "string[]"%string.
Definition s98 : string := "fb36"%string.
Definition s99 : string := "/components/fb36/k"%string.
Definition s100 : string := "fb37"%string.
Definition s101 : string := "/components/fb37/"%string.
Definition s102 : string := "robotfb38"%string.
Definition s103 : string := "/robotfb38/get_k"%string.
Definition s104 : string := "fb39"%string.
Definition s105 : string := "/components/fb39/sub/k"%string.
Definition s106 : string := "fb40"%string.
Definition s107 : string := "get_a_b"%string.
Definition s108 : string := "/autonomous/fb40/a_b"%string.
Definition s109 : string := "fb41"%string.
Definition s110 : string := "/components/fb41/k"%string.
Definition s111 : string := "fb42"%string.
Definition s112 : string := "/components/fb42/"%string.
Definition s113 : string := "fb43"%string.
Definition s114 : string := "/components/fb43/get_k"%string.
Definition s115 : string := "raw"%string.
Definition s116 : string := "fb44"%string.
Definition s117 : string := "0"%string.
Definition s118 : string := "/components/fb44/sub/k"%string.
Definition s119 : string := "robotfb45"%string.
Definition s120 : string := "target_get_x"%string.
Definition s121 : string := "/robotfb45/target_get_x"%string.
Definition s122 : string := "fb46"%string.
Definition s123 : string := "/components/fb46/k"%string.
Definition s124 : string := "fb47"%string.
Definition s125 : string := "/autonomous/fb47/"%string.
Definition s126 : string := "fb48"%string.
Definition s127 : string := "/components/fb48/get_k"%string.
Definition s128 : string := "fb49"%string.
Definition s129 : string := "Translation2d"%string.
Definition s130 : string := "/components/fb49/sub/k"%string.
Definition s131 : string := "struct:Translation2d[]"%string.
Definition s132 : string := "fb50"%string.
Definition s133 : string := "get"%string.
Definition s134 : string := "/components/fb50/get"%string.
Definition s135 : string := "fb51"%string.
Definition s136 : string := "/components/fb51/k"%string.
Definition s137 : string := "robotfb52"%string.
Definition s138 : string := "/robotfb52/"%string.
Definition s139 : string := "fb53"%string.
Definition s140 : string := "/components/fb53/get_k"%string.
Definition s141 : string := "fb54"%string.
Definition s142 : string := "/autonomous/fb54/sub/k"%string.
Definition s143 : string := "fb55"%string.
Definition s144 : string := "get_get_"%string.
Definition s145 : string := "/components/fb55/get_"%string.
Definition s146 : string := "fb56"%string.
Definition s147 : string := "/components/fb56/k"%string.
Definition s148 : string := "struct:Translation3d[]"%string.
Definition s149 : string := "fb57"%string.
Definition s150 : string := "/components/fb57/"%string.
Definition s151 : string := "fb58"%string.
Definition s152 : string := "/components/fb58/get_k"%string.
Definition s153 : string := "robotfb59"%string.
Definition s154 : string := "/robotfb59/sub/k"%string.
Definition s155 : string := "fb60"%string.
Definition s156 : string := "/components/fb60/get_k"%string.
Definition s157 : string := "fb61"%string.
Definition s158 : string := "/autonomous/fb61/"%string.
Definition s159 : string := "fb62"%string.
Definition s160 : string := "/components/fb62/get_"%string.
Definition s161 : string := "fb63"%string.
Definition s162 : string := "/components/fb63/get_k"%string.
Definition s163 : string := "fb64"%string.
Definition s164 : string := "/components/fb64/x"%string.
Definition s165 : string := "fb65"%string.
Definition s166 : string := "robotfb66"%string.
Definition s167 : string := "/robotfb66/target_get_x"%string.
Definition s168 : string := "struct:Translation2d"%string.
Definition s169 : string := "fb67"%string.
Definition s170 : string := "/components/fb67/"%string.
Definition s171 : string := "fb68"%string.
Definition s172 : string := "/autonomous/fb68/k"%string.
Definition s173 : string := "fb69"%string.
Definition s174 : string := "/components/fb69/k"%string.
Definition s175 : string := "fb70"%string.
Definition s176 : string := "a/b"%string.
Definition s177 : string := "/components/fb70/k"%string.
Definition s178 : string := "fb71"%string.
Definition s179 : string := "/components/fb71/get_k"%string.
Definition s180 : string := "fb72"%string.
Definition s181 : string := "/components/fb72/x"%string.
Definition s182 : string := "robotfb73"%string.
Definition s183 : string := "/robotfb73/sub/k"%string.
Definition s184 : string := "fb74"%string.
Definition s185 : string := "/components/fb74/"%string.
Definition s186 : string := "fb75"%string.
Definition s187 : string := "/autonomous/fb75/getx"%string.
Definition s188 : string := "fb76"%string.
Definition s189 : string := "/components/fb76/sub/k"%string.
Definition s190 : string := "fb77"%string.
Definition s191 : string := "/components/fb77/get_y"%string.
Definition s192 : string := "fb78"%string.
Definition s193 : string := "/components/fb78/sub/k"%string.
Definition s194 : string := "fb79"%string.
Definition s195 : string := "/components/fb79/sub/k"%string.
Definition s196 : string := "robotfb80"%string.
Definition s197 : string := "/robotfb80/get_k"%string.
Definition s198 : string := "fb81"%string.
Definition s199 : string := "/components/fb81/"%string.
Definition s200 : string := "fb82"%string.
Definition s201 : string := "/autonomous/fb82/x"%string.
Definition s202 : string := "fb83"%string.
Definition s203 : string := "/components/fb83/get_k"%string.
Definition s204 : string := "fb84"%string.
Definition s205 : string := "/components/fb84/x"%string.
Definition s206 : string := "fb85"%string.
Definition s207 : string := "/components/fb85/sub/k"%string.
Definition s208 : string := "fb86"%string.
Definition s209 : string := "/components/fb86/"%string.
Definition s210 : string := "robotfb87"%string.
Definition s211 : string := "/robotfb87/a_b"%string.
Definition s212 : string := "fb88"%string.
Definition s213 : string := "/components/fb88/target_get_x"%string.
Definition s214 : string := "fb89"%string.
Definition s215 : string := "/autonomous/fb89/get_y"%string.
Definition s216 : string := "fb90"%string.
Definition s217 : string := "/components/fb90/Get_q"%string.
Definition s218 : string := "fb91"%string.
Definition s219 : string := "/components/fb91/sub/k"%string.
Definition s220 : string := "fb92"%string.
Definition s221 : string := "/components/fb92/k"%string.
Definition s222 : string := "fb93"%string.
Definition s223 : string := "/components/fb93/"%string.
Definition s224 : string := "robotfb94"%string.
Definition s225 : string := "/robotfb94/k"%string.
Definition s226 : string := "fb95"%string.
Definition s227 : string := "/components/fb95/get_k"%string.
Definition s228 : string := "fb96"%string.
Definition s229 : string := "q""uote"%string.
Definition s230 : string := "Z9"%string.
Definition s231 : string := "/autonomous/fb96/get_k"%string.
Definition s232 : string := "fb97"%string.
Definition s233 : string := "/components/fb97/"%string.
Definition s234 : string := "fb98"%string.
Definition s235 : string := "/components/fb98/get_k"%string.
Definition s236 : string := "fb99"%string.
Definition s237 : string := "/components/fb99/"%string.
Definition s238 : string := "fb100"%string.
Definition s239 : string := "/components/fb100/k"%string.
Definition s240 : string := "robotfb101"%string.
Definition s241 : string := "/robotfb101/get"%string.
Definition s242 : string := "fb102"%string.
Definition s243 : string := "/components/fb102/get_k"%string.
Definition s244 : string := "fb103"%string.
Definition s245 : string := "/autonomous/fb103/get_k"%string.
Definition s246 : string := "fb104"%string.
Definition s247 : string := "/components/fb104/sub/k"%string.
Definition s248 : string := "fb105"%string.
Definition s249 : string := "/components/fb105/sub/k"%string.
Definition s250 : string := "fb106"%string.
Definition s251 : string := "/components/fb106/sub/k"%string.
Definition s252 : string := "fb107"%string.
Definition s253 : string := "/components/fb107/k"%string.
Definition s254 : string := "robotfb108"%string.
Definition s255 : string := "/robotfb108/get_k"%string.
Definition s256 : string := "fb109"%string.
Definition s257 : string := "/components/fb109/get_k"%string.
Definition s258 : string := "fb110"%string.
Definition s259 : string := "/autonomous/fb110/get_k"%string.
Definition s260 : string := "fb111"%string.
Definition s261 : string := "/components/fb111/k"%string.
Definition s262 : string := "fb112"%string.
Definition s263 : string := "/components/fb112/get_k"%string.
Definition s264 : string := "fb113"%string.
Definition s265 : string := "/components/fb113/"%string.
Definition s266 : string := "fb114"%string.
Definition s267 : string := "/components/fb114/k"%string.
Definition s268 : string := "robotfb115"%string.
Definition s269 : string := "/robotfb115/get_k"%string.
Definition s270 : string := "fb116"%string.
Definition s271 : string := "/components/fb116/k"%string.
Definition s272 : string := "fb117"%string.
Definition s273 : string := "/autonomous/fb117/get_k"%string.
Definition s274 : string := "fb118"%string.
Definition s275 : string := "/components/fb118/"%string.
Definition s276 : string := "fb119"%string.
Definition s277 : string := "/components/fb119/"%string.
Definition s278 : string := "fb120"%string.
Definition s279 : string := "/components/fb120/sub/k"%string.
Definition s280 : string := "fb121"%string.
Definition s281 : string := "/components/fb121/"%string.
Definition s282 : string := "robotfb122"%string.
Definition s283 : string := "/robotfb122/get_"%string.
Definition s284 : string := "fb123"%string.
Definition s285 : string := "/components/fb123/k"%string.
Definition s286 : string := "fb124"%string.
Definition s287 : string := "/autonomous/fb124/k"%string.
Definition s288 : string := "fb125"%string.
Definition s289 : string := "/components/fb125/get_y"%string.
Definition s290 : string := "fb126"%string.
Definition s291 : string := "/components/fb126/get"%string.
Definition s292 : string := "fb127"%string.
Definition s293 : string := "/components/fb127/get_k"%string.
Definition s294 : string := "fb128"%string.
Definition s295 : string := "/components/fb128/get_k"%string.
Definition s296 : string := "robotfb129"%string.
Definition s297 : string := "/robotfb129/get_k"%string.
Definition s298 : string := "fb130"%string.
Definition s299 : string := "/components/fb130/sub/k"%string.
Definition s300 : string := "fb131"%string.
Definition s301 : string := "/autonomous/fb131/k"%string.
Definition s302 : string := "fb132"%string.
Definition s303 : string := "/components/fb132/get"%string.
Definition s304 : string := "fb133"%string.
Definition s305 : string := "/components/fb133/"%string.
Definition s306 : string := "fb134"%string.
Definition s307 : string := "/components/fb134/get_k"%string.
Definition s308 : string := "fb135"%string.
Definition s309 : string := "/components/fb135/x"%string.
Definition s310 : string := "robotfb136"%string.
Definition s311 : string := "/robotfb136/"%string.
Definition s312 : string := "fb137"%string.
Definition s313 : string := "/components/fb137/sub/k"%string.
Definition s314 : string := "fb138"%string.
Definition s315 : string := "/autonomous/fb138/sub/k"%string.
Definition s316 : string := "fb139"%string.
Definition s317 : string := "/components/fb139/k"%string.
Definition s318 : string := "fb140"%string.
Definition s319 : string := "/components/fb140/get_k"%string.
Definition s320 : string := "fb141"%string.
Definition s321 : string := "/components/fb141/"%string.
Definition s322 : string := "fb142"%string.
Definition s323 : string := "/components/fb142/get_k"%string.
Definition s324 : string := "robotfb143"%string.
Definition s325 : string := "/robotfb143/k"%string.
Definition s326 : string := "fb144"%string.
Definition s327 : string := "/components/fb144/get_k"%string.
Definition s328 : string := "fb145"%string.
Definition s329 : string := "/autonomous/fb145/get_y"%string.
Definition s330 : string := "fb146"%string.
Definition s331 : string := "/components/fb146/Get_q"%string.
Definition s332 : string := "fb147"%string.
Definition s333 : string := "/components/fb147/k"%string.
Definition s334 : string := "fb148"%string.
Definition s335 : string := "/components/fb148/a_b"%string.
Definition s336 : string := "fb149"%string.
Definition s337 : string := "/components/fb149/"%string.
Definition s338 : string := "robotfb150"%string.
Definition s339 : string := "/robotfb150/k"%string.
Definition s340 : string := "fb151"%string.
Definition s341 : string := "/components/fb151/a_b"%string.
Definition s342 : string := "fb152"%string.
Definition s343 : string := "/autonomous/fb152/sub/k"%string.
Definition s344 : string := "fb153"%string.
Definition s345 : string := "/components/fb153/get_k"%string.
Definition s346 : string := "fb154"%string.
Definition s347 : string := "/components/fb154/get_k"%string.
Definition s348 : string := "fb155"%string.
Definition s349 : string := "/components/fb155/"%string.
Definition s350 : string := "fb156"%string.
Definition s351 : string := "/components/fb156/sub/k"%string.
Definition s352 : string := "robotfb157"%string.
Definition s353 : string := "/robotfb157/"%string.
Definition s354 : string := "fb158"%string.
Definition s355 : string := "/components/fb158/sub/k"%string.
Definition s356 : string := "fb159"%string.
Definition s357 : string := "/autonomous/fb159/sub/k"%string.
Definition s358 : string := "fb160"%string.
Definition s359 : string := "/components/fb160/"%string.
Definition s360 : string := "fb161"%string.
Definition s361 : string := "/components/fb161/k"%string.
Definition s362 : string := "fb162"%string.
Definition s363 : string := "/components/fb162/getx"%string.
Definition s364 : string := "fb163"%string.
Definition s365 : string := "/components/fb163/"%string.
Definition s366 : string := "robotfb164"%string.
Definition s367 : string := "/robotfb164/get_k"%string.
Definition s368 : string := "fb165"%string.
Definition s369 : string := "/components/fb165/target_get_x"%string.
Definition s370 : string := "fb166"%string.
Definition s371 : string := "/autonomous/fb166/k"%string.
Definition s372 : string := "fb167"%string.
Definition s373 : string := "/components/fb167/get_k"%string.
Definition s374 : string := "fb168"%string.
Definition s375 : string := "/components/fb168/a_b"%string.
Definition s376 : string := "fb169"%string.
Definition s377 : string := "/components/fb169/sub/k"%string.
Definition s378 : string := "fb170"%string.
Definition s379 : string := "/components/fb170/k"%string.
Definition s380 : string := "robotfb171"%string.
Definition s381 : string := "/robotfb171/sub/k"%string.
Definition s382 : string := "fb172"%string.
Definition s383 : string := "/components/fb172/sub/k"%string.
Definition s384 : string := "fb173"%string.
Definition s385 : string := "/autonomous/fb173/get"%string.
Definition s386 : string := "fb174"%string.
Definition s387 : string := "/components/fb174/sub/k"%string.
Definition s388 : string := "fb175"%string.
Definition s389 : string := "/components/fb175/get_"%string.
Definition s390 : string := "fb176"%string.
Definition s391 : string := "/components/fb176/sub/k"%string.
Definition s392 : string := "fb177"%string.
Definition s393 : string := "/components/fb177/Get_q"%string.
Definition s394 : string := "robotfb178"%string.
Definition s395 : string := "/robotfb178/sub/k"%string.
Definition s396 : string := "fb179"%string.
Definition s397 : string := "/components/fb179/k"%string.
Definition s398 : string := "fb180"%string.
Definition s399 : string := "/autonomous/fb180/get_k"%string.
Definition s400 : string := "fb181"%string.
Definition s401 : string := "/components/fb181/"%string.
Definition s402 : string := "fb182"%string.
Definition s403 : string := "/components/fb182/sub/k"%string.
Definition s404 : string := "fb183"%string.
Definition s405 : string := "/components/fb183/target_get_x"%string.
Definition s406 : string := "fb184"%string.
Definition s407 : string := "/components/fb184/_private"%string.
Definition s408 : string := "robotfb185"%string.
Definition s409 : string := "/robotfb185/get_k"%string.
Definition s410 : string := "fb186"%string.
Definition s411 : string := "/components/fb186/k"%string.
Definition s412 : string := "fb187"%string.
Definition s413 : string := "/autonomous/fb187/get_k"%string.
Definition s414 : string := "fb188"%string.
Definition s415 : string := "/components/fb188/"%string.
Definition s416 : string := "fb189"%string.
Definition s417 : string := "/components/fb189/sub/k"%string.
Definition s418 : string := "fb190"%string.
Definition s419 : string := "/components/fb190/k"%string.
Definition s420 : string := "fb191"%string.
Definition s421 : string := "/components/fb191/sub/k"%string.
Definition s422 : string := "robotfb192"%string.
Definition s423 : string := "/robotfb192/sub/k"%string.
Definition s424 : string := "fb193"%string.
Definition s425 : string := "/components/fb193/k"%string.
Definition s426 : string := "fb194"%string.
Definition s427 : string := "/autonomous/fb194/target_get_x"%string.
Definition s428 : string := "fb195"%string.
Definition s429 : string := "/components/fb195/sub/k"%string.
Definition s430 : string := "fb196"%string.
Definition s431 : string := "/components/fb196/sub/k"%string.
Definition s432 : string := "fb197"%string.
Definition s433 : string := "/components/fb197/k"%string.
Definition s434 : string := "fb198"%string.
Definition s435 : string := "/components/fb198/k"%string.
Definition s436 : string := "robotfb199"%string.
Definition s437 : string := "/robotfb199/get"%string.
Definition s438 : string := "fb200"%string.
Definition s439 : string := "/components/fb200/get_k"%string.
Definition s440 : string := "fb201"%string.
Definition s441 : string := "/autonomous/fb201/get"%string.
Definition s442 : string := "fb202"%string.
Definition s443 : string := "/components/fb202/"%string.
Definition s444 : string := "fb203"%string.
Definition s445 : string := "/components/fb203/sub/k"%string.
Definition s446 : string := "fb204"%string.
Definition s447 : string := "/components/fb204/sub/k"%string.
Definition s448 : string := "fb205"%string.
Definition s449 : string := "/components/fb205/k"%string.
Definition s450 : string := "robotfb206"%string.
Definition s451 : string := "/robotfb206/k"%string.
Definition s452 : string := "fb207"%string.
Definition s453 : string := "/components/fb207/"%string.
Definition s454 : string := "fb208"%string.
Definition s455 : string := "/autonomous/fb208/get_k"%string.
Definition s456 : string := "fb209"%string.
Definition s457 : string := "/components/fb209/sub/k"%string.
Definition s458 : string := "fb210"%string.
Definition s459 : string := "/components/fb210/sub/k"%string.
Definition s460 : string := "fb211"%string.
Definition s461 : string := "/components/fb211/k"%string.
Definition s462 : string := "fb212"%string.
Definition s463 : string := "/components/fb212/target_get_x"%string.
Definition s464 : string := "robotfb213"%string.
Definition s465 : string := "/robotfb213/k"%string.
Definition s466 : string := "fb214"%string.
Definition s467 : string := "/components/fb214/"%string.
Definition s468 : string := "fb215"%string.
Definition s469 : string := "/autonomous/fb215/"%string.
Definition s470 : string := "fb216"%string.
Definition s471 : string := "/components/fb216/"%string.
Definition s472 : string := "fb217"%string.
Definition s473 : string := "/components/fb217/sub/k"%string.
Definition s474 : string := "fb218"%string.
Definition s475 : string := "/components/fb218/k"%string.
Definition s476 : string := "fb219"%string.
Definition s477 : string := "/components/fb219/"%string.
Definition s478 : string := "robotfb220"%string.
Definition s479 : string := "/robotfb220/sub/k"%string.
Definition s480 : string := "fb221"%string.
Definition s481 : string := "/components/fb221/k"%string.
Definition s482 : string := "fb222"%string.
Definition s483 : string := "/autonomous/fb222/"%string.
Definition s484 : string := "fb223"%string.
Definition s485 : string := "/components/fb223/"%string.
Definition s486 : string := "fb224"%string.
Definition s487 : string := "/components/fb224/"%string.
Definition s488 : string := "fb225"%string.
Definition s489 : string := "/components/fb225/"%string.
Definition s490 : string := "fb226"%string.
Definition s491 : string := "/components/fb226/"%string.
Definition s492 : string := "robotfb227"%string.
Definition s493 : string := "/robotfb227/get_k"%string.
Definition s494 : string := "fb228"%string.
Definition s495 : string := "/components/fb228/get_k"%string.
Definition s496 : string := "fb229"%string.
Definition s497 : string := "/autonomous/fb229/sub/k"%string.
Definition s498 : string := "fb230"%string.
Definition s499 : string := "/components/fb230/sub/k"%string.
Definition s500 : string := "fb231"%string.
Definition s501 : string := "/components/fb231/k"%string.
Definition s502 : string := "fb232"%string.
Definition s503 : string := "/components/fb232/k"%string.
Definition s504 : string := "fb233"%string.
Definition s505 : string := "/components/fb233/k"%string.
Definition s506 : string := "robotfb234"%string.
Definition s507 : string := "/robotfb234/sub/k"%string.
Definition s508 : string := "fb235"%string.
Definition s509 : string := "/components/fb235/get_k"%string.
Definition s510 : string := "fb236"%string.
Definition s511 : string := "/autonomous/fb236/target_get_x"%string.
Definition s512 : string := "fb237"%string.
Definition s513 : string := "/components/fb237/k"%string.
Definition s514 : string := "fb238"%string.
Definition s515 : string := "/components/fb238/get_y"%string.
Definition s516 : string := "fb239"%string.
Definition s517 : string := "/components/fb239/sub/k"%string.
Definition s518 : string := "fb240"%string.
Definition s519 : string := "/components/fb240/getx"%string.
Definition s520 : string := "robotfb241"%string.
Definition s521 : string := "/robotfb241/sub/k"%string.
Definition s522 : string := "fb242"%string.
Definition s523 : string := "/components/fb242/getx"%string.
Definition s524 : string := "fb243"%string.
Definition s525 : string := "/autonomous/fb243/"%string.
Definition s526 : string := "fb244"%string.
Definition s527 : string := "/components/fb244/target_get_x"%string.
Definition s528 : string := "fb245"%string.
Definition s529 : string := "/components/fb245/get_k"%string.
Definition s530 : string := "fb246"%string.
Definition s531 : string := "/components/fb246/k"%string.
Definition s532 : string := "fb247"%string.
Definition s533 : string := "/components/fb247/k"%string.
Definition s534 : string := "robotfb248"%string.
Definition s535 : string := "/robotfb248/sub/k"%string.
Definition s536 : string := "fb249"%string.
Definition s537 : string := "/components/fb249/Get_q"%string.
Definition s538 : string := "fb250"%string.
Definition s539 : string := "/autonomous/fb250/get_k"%string.
Definition s540 : string := "fb251"%string.
Definition s541 : string := "/components/fb251/k"%string.
Definition s542 : string := "fb252"%string.
Definition s543 : string := "/components/fb252/"%string.
Definition s544 : string := "fb253"%string.
Definition s545 : string := "/components/fb253/x"%string.
Definition s546 : string := "fb254"%string.
Definition s547 : string := "/components/fb254/sub/k"%string.
Definition s548 : string := "robotfb255"%string.
Definition s549 : string := "/robotfb255/get"%string.
Definition s550 : string := "fb256"%string.
Definition s551 : string := "/components/fb256/get_k"%string.
Definition s552 : string := "fb257"%string.
Definition s553 : string := "/autonomous/fb257/get_k"%string.
Definition s554 : string := "fb258"%string.
Definition s555 : string := "/components/fb258/k"%string.
Definition s556 : string := "fb259"%string.
Definition s557 : string := "/components/fb259/"%string.
Definition s558 : string := "fb260"%string.
Definition s559 : string := "/components/fb260/"%string.
Definition s560 : string := "fb261"%string.
Definition s561 : string := "/components/fb261/_private"%string.
Definition s562 : string := "robotfb262"%string.
Definition s563 : string := "/robotfb262/get_y"%string.
Definition s564 : string := "fb263"%string.
Definition s565 : string := "/components/fb263/"%string.
Definition s566 : string := "fb264"%string.
Definition s567 : string := "/autonomous/fb264/get_k"%string.
Definition s568 : string := "fb265"%string.
Definition s569 : string := "/components/fb265/get_k"%string.
Definition s570 : string := "fb266"%string.
Definition s571 : string := "/components/fb266/sub/k"%string.
Definition s572 : string := "fb267"%string.
Definition s573 : string := "/components/fb267/sub/k"%string.
Definition s574 : string := "fb268"%string.
Definition s575 : string := "/components/fb268/k"%string.
Definition s576 : string := "robotfb269"%string.
Definition s577 : string := "/robotfb269/target_get_x"%string.
Definition s578 : string := "fb270"%string.
Definition s579 : string := "/components/fb270/sub/k"%string.
Definition s580 : string := "fb271"%string.
Definition s581 : string := "/autonomous/fb271/sub/k"%string.
Definition s582 : string := "fb272"%string.
Definition s583 : string := "/components/fb272/get_k"%string.
Definition s584 : string := "fb273"%string.
Definition s585 : string := "/components/fb273/k"%string.
Definition s586 : string := "fb274"%string.
Definition s587 : string := "/components/fb274/get_y"%string.
Definition s588 : string := "fb275"%string.
Definition s589 : string := "/components/fb275/_private"%string.
Definition s590 : string := "robotfb276"%string.
Definition s591 : string := "/robotfb276/get_k"%string.
Definition s592 : string := "fb277"%string.
Definition s593 : string := "/components/fb277/sub/k"%string.
Definition s594 : string := "fb278"%string.
Definition s595 : string := "/autonomous/fb278/sub/k"%string.
Definition s596 : string := "fb279"%string.
Definition s597 : string := "/components/fb279/k"%string.
Definition s598 : string := "fb280"%string.
Definition s599 : string := "/components/fb280/get_k"%string.
Definition s600 : string := "fb281"%string.
Definition s601 : string := "/components/fb281/get_k"%string.
Definition s602 : string := "fb282"%string.
Definition s603 : string := "/components/fb282/sub/k"%string.
Definition s604 : string := "robotfb283"%string.
Definition s605 : string := "/robotfb283/sub/k"%string.
Definition s606 : string := "fb284"%string.
Definition s607 : string := "/components/fb284/Get_q"%string.
Definition s608 : string := "fb285"%string.
Definition s609 : string := "/autonomous/fb285/a_b"%string.
Definition s610 : string := "fb286"%string.
Definition s611 : string := "/components/fb286/sub/k"%string.
Definition s612 : string := "fb287"%string.
Definition s613 : string := "/components/fb287/k"%string.
Definition s614 : string := "fb288"%string.
Definition s615 : string := "/components/fb288/get"%string.
Definition s616 : string := "fb289"%string.
Definition s617 : string := "/components/fb289/get_k"%string.
Definition s618 : string := "robotfb290"%string.
Definition s619 : string := "/robotfb290/k"%string.
Definition s620 : string := "fb291"%string.
Definition s621 : string := "/components/fb291/sub/k"%string.
Definition s622 : string := "fb292"%string.
Definition s623 : string := "/autonomous/fb292/"%string.
Definition s624 : string := "fb293"%string.
Definition s625 : string := "/components/fb293/get_k"%string.
Definition s626 : string := "fb294"%string.
Definition s627 : string := "/components/fb294/get_k"%string.
Definition s628 : string := "fb295"%string.
Definition s629 : string := "/components/fb295/"%string.
Definition s630 : string := "fb296"%string.
Definition s631 : string := "/components/fb296/get_k"%string.
Definition s632 : string := "robotfb297"%string.
Definition s633 : string := "/robotfb297/get_k"%string.
Definition rows : list bool :=
 [(fb_match (Some s0) s1 None s2 None (VScalar (SStr s3)) (FTopic s4 None (Some s5)));
 (fb_match (Some s0) s6 (Some s7) s2 (Some (TBase BBool)) (VScalar (SBool true)) (FTopic s8 (Some s9) (Some s9)));
 (fb_match (Some s0) s10 (Some s11) s2 (Some (TBase BInt)) (VScalar (SInt 1%Z)) (FTopic s12 (Some s13) (Some s13)));
 (fb_match None s14 (Some s15) s2 (Some (TGen OSeq [(ABase BFloat)])) (VList [(SFloat 1073741824%Z)]) (FTopic s16 (Some s17) (Some s17)));
 (fb_match (Some s0) s18 (Some s19) s2 (Some (TBase BStr)) (VScalar (SStr s11)) (FTopic s20 (Some s5) (Some s5)));
 (fb_match (Some s21) s22 None s23 (Some (TBase BBytes)) (VScalar (SBytes [])) FRaise);
 (fb_match (Some s0) s24 (Some s7) s23 (Some (TGen OSeq [(ABase BFloat)])) (VList [(SFloat (-3)%Z)]) (FTopic s25 (Some s17) (Some s17)));
 (fb_match (Some s0) s26 (Some s11) s23 (Some (TBase (BStruct "Translation3d"))) (VScalar (SStruct s27 [0%Z; 0%Z; (-861)%Z])) (FTopic s28 (Some s29) (Some s29)));
 (fb_match (Some s0) s30 (Some s15) s23 (Some (TBase BOther)) (VList [(SInt 0%Z); (SInt 1%Z)]) (FTopic s31 None (Some s32)));
 (fb_match (Some s0) s33 (Some s19) s23 (Some (TBase BInt)) (VScalar (SInt (-1099511627776)%Z)) (FTopic s34 (Some s13) (Some s13)));
 (fb_match None s35 None s36 (Some (TBare OTuple)) (VScalar (SStr s37)) (FTopic s38 None (Some s5)));
 (fb_match (Some s0) s39 (Some s7) s36 (Some (TBare OSeq)) (VScalar (SFloat 2851%Z)) (FTopic s40 None (Some s41)));
 (fb_match (Some s21) s42 (Some s11) s36 None (VScalar (SFloat 0%Z)) (FTopic s43 None (Some s41)));
 (fb_match (Some s0) s44 (Some s15) s36 (Some (TGen OList [])) (VScalar (SInt 255%Z)) (FTopic s45 None (Some s41)));
 (fb_match (Some s0) s46 (Some s19) s36 (Some (TGen OList [(ABase BBool)])) (VList [(SBool false); (SBool false)]) (FTopic s47 (Some s48) (Some s48)));
 (fb_match (Some s0) s49 None s50 None (VScalar (SFloat 96%Z)) (FTopic s51 None (Some s41)));
 (fb_match (Some s0) s52 (Some s7) s50 (Some (TGen OTuple [(ABase BBool)])) (VList [(SBool true)]) (FTopic s53 (Some s48) (Some s48)));
 (fb_match None s54 (Some s11) s50 (Some (TGen OTuple [(ABase BBool); AEllipsis])) (VList [(SBool false); (SBool false)]) (FTopic s55 (Some s48) (Some s48)));
 (fb_match (Some s0) s56 (Some s15) s50 None (VList [(SBool false); (SBool true)]) (FTopic s57 None (Some s48)));
 (fb_match (Some s21) s58 (Some s19) s50 (Some (TGen OTuple [(ABase BBool); (ABase BBool); (ABase BBool)])) (VList [(SBool false)]) (FTopic s59 (Some s48) (Some s48)));
 (fb_match (Some s0) s60 None s61 (Some (TGen OTuple [AEllipsis; (ABase BBool)])) (VScalar (SBool false)) (FTopic s62 None (Some s9)));
 (fb_match (Some s0) s63 (Some s7) s61 None (VScalar (SStr s64)) (FTopic s65 None (Some s5)));
 (fb_match (Some s0) s66 (Some s11) s61 (Some (TGen OSeq [(ABase BInt)])) (VList [(SInt 0%Z)]) (FTopic s67 (Some s32) (Some s32)));
 (fb_match (Some s0) s68 (Some s15) s61 (Some (TGen OTuple [(ABase BInt)])) (VList [(SInt (-1)%Z); (SInt 7%Z)]) (FTopic s69 (Some s32) (Some s32)));
 (fb_match None s70 (Some s19) s61 (Some (TGen OSeq [(ABase BFloat)])) (VList []) (FTopic s71 (Some s17) (Some s17)));
 (fb_match (Some s0) s72 None s73 (Some (TGen OTuple [(ABase BInt); (ABase BInt)])) (VList [(SInt 7%Z); (SInt 9007199254740993%Z)]) (FTopic s74 (Some s32) (Some s32)));
 (fb_match (Some s21) s75 (Some s7) s73 (Some (TGen OTuple [(ABase BInt); (ABase BInt); (ABase BInt)])) (VList [(SInt 255%Z)]) (FTopic s76 (Some s32) (Some s32)));
 (fb_match (Some s0) s77 (Some s11) s73 (Some (TBase BInt)) (VScalar (SInt (-1)%Z)) (FTopic s78 (Some s13) (Some s13)));
 (fb_match (Some s0) s79 (Some s15) s73 (Some (TGen OList [(ABase BFloat)])) (VList [(SFloat 0%Z)]) (FTopic s80 (Some s17) (Some s17)));
 (fb_match (Some s0) s81 (Some s19) s73 (Some (TGen OSeq [(ABase BFloat)])) (VList []) (FTopic s82 (Some s17) (Some s17)));
 (fb_match (Some s0) s83 None s84 None (VList [(SFloat 1%Z); (SFloat 64%Z); (SFloat (-64)%Z)]) (FTopic s85 None (Some s17)));
 (fb_match None s86 (Some s7) s84 (Some (TGen OTuple [(ABase BFloat); AEllipsis])) (VList []) (FTopic s87 (Some s17) (Some s17)));
 (fb_match (Some s0) s88 (Some s11) s84 (Some (TGen OTuple [(ABase BFloat); (ABase BFloat)])) (VList [(SFloat (-64)%Z); (SFloat (-64)%Z)]) (FTopic s89 (Some s17) (Some s17)));
 (fb_match (Some s21) s90 (Some s15) s84 (Some (TGen OSeq [(ABase BFloat)])) (VList [(SFloat 1073741824%Z)]) (FTopic s91 (Some s17) (Some s17)));
 (fb_match (Some s0) s92 (Some s19) s84 (Some (TGen OTuple [AEllipsis; (ABase BFloat)])) (VList [(SFloat (-3)%Z)]) (FTopic s93 None (Some s17)));
 (fb_match (Some s0) s94 None s95 (Some (TGen OList [(ABase BStr)])) (VList []) (FTopic s96 (Some s97) (Some s97)));
 (fb_match (Some s0) s98 (Some s7) s95 None (VList [(SInt 7%Z); (SInt 255%Z)]) (FTopic s99 None (Some s32)));
 (fb_match (Some s0) s100 (Some s11) s95 (Some (TGen OTuple [(ABase BStr)])) (VList [(SStr s50)]) (FTopic s101 (Some s97) (Some s97)));
 (fb_match None s102 (Some s15) s95 (Some (TGen OTuple [(ABase BStr); AEllipsis])) (VList [(SStr s3)]) (FTopic s103 (Some s97) (Some s97)));
 (fb_match (Some s0) s104 (Some s19) s95 (Some (TBase BInt)) (VScalar (SInt 7%Z)) (FTopic s105 (Some s13) (Some s13)));
 (fb_match (Some s21) s106 None s107 (Some (TGen OTuple [(ABase BStr); (ABase BStr); (ABase BStr)])) (VList [(SStr s11); (SStr s37)]) (FTopic s108 (Some s97) (Some s97)));
 (fb_match (Some s0) s109 (Some s7) s107 (Some (TGen OTuple [AEllipsis; (ABase BStr)])) (VScalar (SInt 0%Z)) (FTopic s110 None (Some s41)));
 (fb_match (Some s0) s111 (Some s11) s107 (Some (TBase BInt)) (VScalar (SInt 9007199254740993%Z)) (FTopic s112 (Some s13) (Some s13)));
 (fb_match (Some s0) s113 (Some s15) s107 (Some (TGen OSeq [(ABase BBytes)])) (VScalar (SBytes [])) (FTopic s114 None (Some s115)));
 (fb_match (Some s0) s116 (Some s19) s107 (Some (TGen OTuple [(ABase BBytes)])) (VList [(SStr s117); (SStr s50)]) (FTopic s118 None (Some s97)));
 (fb_match None s119 None s120 (Some (TGen OSeq [(ABase BFloat)])) (VList [(SFloat 0%Z); (SFloat (-3)%Z); (SFloat 2376%Z)]) (FTopic s121 (Some s17) (Some s17)));
 (fb_match (Some s0) s122 (Some s7) s120 (Some (TGen OTuple [(ABase BBytes); (ABase BBytes)])) (VList [(SInt (-1)%Z); (SInt 2%Z); (SInt 1%Z)]) (FTopic s123 None (Some s32)));
 (fb_match (Some s21) s124 (Some s11) s120 (Some (TGen OTuple [(ABase BBytes); (ABase BBytes); (ABase BBytes)])) (VList [(SInt 1%Z)]) (FTopic s125 None (Some s32)));
 (fb_match (Some s0) s126 (Some s15) s120 (Some (TBase BInt)) (VScalar (SInt 313%Z)) (FTopic s127 (Some s13) (Some s13)));
 (fb_match (Some s0) s128 (Some s19) s120 (Some (TGen OList [(ABase (BStruct "Translation2d"))])) (VList [(SStruct s129 [0%Z; 64%Z])]) (FTopic s130 (Some s131) (Some s131)));
 (fb_match (Some s0) s132 None s133 (Some (TGen OSeq [(ABase (BStruct "Translation2d"))])) (VList [(SStruct s129 [0%Z; 0%Z])]) (FTopic s134 (Some s131) (Some s131)));
 (fb_match (Some s0) s135 (Some s7) s133 (Some (TGen OSeq [(ABase BFloat)])) (VList [(SFloat 96%Z)]) (FTopic s136 (Some s17) (Some s17)));
 (fb_match None s137 (Some s11) s133 (Some (TGen OTuple [(ABase (BStruct "Translation2d")); AEllipsis])) (VList [(SStruct s129 [702%Z; (-32)%Z]); (SStruct s129 [64%Z; 640%Z]); (SStruct s129 [640%Z; 64%Z])]) (FTopic s138 (Some s131) (Some s131)));
 (fb_match (Some s0) s139 (Some s15) s133 (Some (TGen OTuple [(ABase (BStruct "Translation2d")); (ABase (BStruct "Translation2d"))])) (VList [(SStruct s129 [64%Z; 640%Z])]) (FTopic s140 (Some s131) (Some s131)));
 (fb_match (Some s21) s141 (Some s19) s133 None (VScalar (SBool false)) (FTopic s142 None (Some s9)));
 (fb_match (Some s0) s143 None s144 (Some (TGen OTuple [AEllipsis; (ABase (BStruct "Translation2d"))])) (VScalar (SStr s50)) (FTopic s145 None (Some s5)));
 (fb_match (Some s0) s146 (Some s7) s144 (Some (TGen OList [(ABase (BStruct "Translation3d"))])) (VList [(SStruct s27 [64%Z; 241%Z; 64%Z])]) (FTopic s147 (Some s148) (Some s148)));
 (fb_match (Some s0) s149 (Some s11) s144 None (VScalar (SBool false)) (FTopic s150 None (Some s9)));
 (fb_match (Some s0) s151 (Some s15) s144 (Some (TGen OTuple [(ABase (BStruct "Translation3d"))])) (VList [(SStruct s27 [64%Z; 511%Z; 640%Z]); (SStruct s27 [64%Z; 64%Z; (-32)%Z])]) (FTopic s152 (Some s148) (Some s148)));
 (fb_match None s153 (Some s19) s144 (Some (TGen OTuple [(ABase (BStruct "Translation3d")); AEllipsis])) (VList [(SStruct s27 [(-32)%Z; 0%Z; 64%Z]); (SStruct s27 [64%Z; 144%Z; 640%Z]); (SStruct s27 [0%Z; 0%Z; 640%Z])]) (FTopic s154 (Some s148) (Some s148)));
 (fb_match (Some s0) s155 (Some s15) s73 None (VList [(SFloat 96%Z)]) (FTopic s156 None (Some s17)));
 (fb_match (Some s21) s157 (Some s11) s2 (Some (TBase BBool)) (VScalar (SBool true)) (FTopic s158 (Some s9) (Some s9)));
 (fb_match (Some s0) s159 None s144 (Some (TBase BInt)) (VScalar (SInt 2%Z)) (FTopic s160 (Some s13) (Some s13)));
 (fb_match (Some s0) s161 (Some s15) s133 (Some (TBase BFloat)) (VScalar (SFloat 64%Z)) (FTopic s162 (Some s41) (Some s41)));
 (fb_match (Some s0) s163 None s2 (Some (TBase BStr)) (VScalar (SStr s50)) (FTopic s164 (Some s5) (Some s5)));
 (fb_match (Some s0) s165 (Some s7) s133 (Some (TBase BBytes)) (VScalar (SBytes [188%N; 246%N])) FRaise);
 (fb_match None s166 None s120 (Some (TBase (BStruct "Translation2d"))) (VScalar (SStruct s129 [64%Z; 521%Z])) (FTopic s167 (Some s168) (Some s168)));
 (fb_match (Some s0) s169 (Some s11) s36 (Some (TBase (BStruct "Translation3d"))) (VScalar (SStruct s27 [64%Z; 640%Z; 64%Z])) (FTopic s170 (Some s29) (Some s29)));
 (fb_match (Some s21) s171 (Some s7) s95 (Some (TBase BOther)) (VScalar (SInt (-1)%Z)) (FTopic s172 None (Some s41)));
 (fb_match (Some s0) s173 (Some s7) s36 (Some (TBare OList)) (VScalar (SBool false)) (FTopic s174 None (Some s9)));
 (fb_match (Some s0) s175 (Some s7) s50 (Some (TBare OTuple)) (VScalar (SStr s176)) (FTopic s177 None (Some s5)));
 (fb_match (Some s0) s178 (Some s15) s84 (Some (TBare OSeq)) (VList [(SFloat (-3)%Z)]) (FTopic s179 None (Some s17)));
 (fb_match (Some s0) s180 None s36 (Some (TGen OTuple [])) (VScalar (SBool false)) (FTopic s181 None (Some s9)));
 (fb_match None s182 (Some s19) s36 (Some (TGen OList [])) (VScalar (SBytes [176%N; 254%N; 44%N; 56%N])) (FTopic s183 None (Some s115)));
 (fb_match (Some s0) s184 (Some s11) s61 (Some (TGen OList [(ABase BBool)])) (VList [(SBool false)]) (FTopic s185 (Some s48) (Some s48)));
 (fb_match (Some s21) s186 None s23 (Some (TGen OSeq [(ABase BBool)])) (VList [(SBool true)]) (FTopic s187 (Some s48) (Some s48)));
 (fb_match (Some s0) s188 (Some s19) s61 (Some (TGen OTuple [(ABase BBool)])) (VList [(SBool false)]) (FTopic s189 (Some s48) (Some s48)));
 (fb_match (Some s0) s190 None s73 (Some (TGen OTuple [(ABase BBool); AEllipsis])) (VList []) (FTopic s191 (Some s48) (Some s48)));
 (fb_match (Some s0) s192 (Some s19) s144 (Some (TGen OTuple [(ABase BBool); (ABase BBool)])) (VList []) (FTopic s193 (Some s48) (Some s48)));
 (fb_match (Some s0) s194 (Some s19) s2 (Some (TGen OTuple [(ABase BBool); (ABase BBool); (ABase BBool)])) (VList [(SBool false); (SBool true)]) (FTopic s195 (Some s48) (Some s48)));
 (fb_match None s196 (Some s15) s84 (Some (TGen OTuple [AEllipsis; (ABase BBool)])) (VScalar (SFloat 96%Z)) (FTopic s197 None (Some s41)));
 (fb_match (Some s0) s198 (Some s11) s61 (Some (TGen OList [(ABase BInt)])) (VList [(SInt (-1)%Z)]) (FTopic s199 (Some s32) (Some s32)));
 (fb_match (Some s21) s200 None s2 (Some (TGen OSeq [(ABase BInt)])) (VList [(SInt 9007199254740993%Z)]) (FTopic s201 (Some s32) (Some s32)));
 (fb_match (Some s0) s202 (Some s15) s50 (Some (TGen OTuple [(ABase BInt)])) (VList []) (FTopic s203 (Some s32) (Some s32)));
 (fb_match (Some s0) s204 None s36 (Some (TGen OTuple [(ABase BInt); AEllipsis])) (VList [(SInt 255%Z); (SInt 2%Z)]) (FTopic s205 (Some s32) (Some s32)));
 (fb_match (Some s0) s206 (Some s19) s144 (Some (TGen OTuple [(ABase BInt); (ABase BInt)])) (VList [(SInt (-1)%Z); (SInt 598%Z); (SInt 1%Z)]) (FTopic s207 (Some s32) (Some s32)));
 (fb_match (Some s0) s208 (Some s11) s95 (Some (TGen OTuple [(ABase BInt); (ABase BInt); (ABase BInt)])) (VList [(SInt 454%Z)]) (FTopic s209 (Some s32) (Some s32)));
 (fb_match None s210 None s107 (Some (TGen OTuple [AEllipsis; (ABase BInt)])) (VScalar (SInt (-1)%Z)) (FTopic s211 None (Some s41)));
 (fb_match (Some s0) s212 None s120 (Some (TGen OList [(ABase BFloat)])) (VList [(SFloat (-64)%Z); (SFloat 1%Z); (SFloat 1%Z)]) (FTopic s213 (Some s17) (Some s17)));
 (fb_match (Some s21) s214 None s73 (Some (TGen OSeq [(ABase BFloat)])) (VList [(SFloat 96%Z); (SFloat 0%Z); (SFloat (-64)%Z)]) (FTopic s215 (Some s17) (Some s17)));
 (fb_match (Some s0) s216 None s95 (Some (TGen OTuple [(ABase BFloat)])) (VList [(SFloat 64%Z)]) (FTopic s217 (Some s17) (Some s17)));
 (fb_match (Some s0) s218 (Some s19) s95 (Some (TGen OTuple [(ABase BFloat); AEllipsis])) (VList [(SFloat 0%Z)]) (FTopic s219 (Some s17) (Some s17)));
 (fb_match (Some s0) s220 (Some s7) s133 (Some (TGen OTuple [(ABase BFloat); (ABase BFloat)])) (VList [(SFloat 0%Z)]) (FTopic s221 (Some s17) (Some s17)));
 (fb_match (Some s0) s222 (Some s11) s23 (Some (TGen OTuple [(ABase BFloat); (ABase BFloat); (ABase BFloat)])) (VList [(SFloat 1073741824%Z)]) (FTopic s223 (Some s17) (Some s17)));
 (fb_match None s224 (Some s7) s95 (Some (TGen OTuple [AEllipsis; (ABase BFloat)])) (VScalar (SFloat 0%Z)) (FTopic s225 None (Some s41)));
 (fb_match (Some s0) s226 (Some s15) s144 (Some (TGen OList [(ABase BStr)])) (VList [(SStr s117)]) (FTopic s227 (Some s97) (Some s97)));
 (fb_match (Some s21) s228 (Some s15) s84 (Some (TGen OSeq [(ABase BStr)])) (VList [(SStr s229); (SStr s230)]) (FTopic s231 (Some s97) (Some s97)));
 (fb_match (Some s0) s232 (Some s11) s95 (Some (TGen OTuple [(ABase BStr)])) (VList []) (FTopic s233 (Some s97) (Some s97)));
 (fb_match (Some s0) s234 (Some s15) s95 (Some (TGen OTuple [(ABase BStr); AEllipsis])) (VList [(SStr s176); (SStr s117)]) (FTopic s235 (Some s97) (Some s97)));
 (fb_match (Some s0) s236 (Some s11) s107 (Some (TGen OTuple [(ABase BStr); (ABase BStr)])) (VList []) (FTopic s237 (Some s97) (Some s97)));
 (fb_match (Some s0) s238 (Some s7) s84 (Some (TGen OTuple [(ABase BStr); (ABase BStr); (ABase BStr)])) (VList []) (FTopic s239 (Some s97) (Some s97)));
 (fb_match None s240 None s133 (Some (TGen OTuple [AEllipsis; (ABase BStr)])) (VScalar (SBool false)) (FTopic s241 None (Some s9)));
 (fb_match (Some s0) s242 (Some s15) s36 (Some (TGen OList [(ABase BBytes)])) (VScalar (SFloat 64%Z)) (FTopic s243 None (Some s41)));
 (fb_match (Some s21) s244 (Some s15) s23 (Some (TGen OSeq [(ABase BBytes)])) (VList [(SFloat 96%Z)]) (FTopic s245 None (Some s17)));
 (fb_match (Some s0) s246 (Some s19) s2 (Some (TGen OTuple [(ABase BBytes)])) (VScalar (SInt 255%Z)) (FTopic s247 None (Some s41)));
 (fb_match (Some s0) s248 (Some s19) s61 (Some (TGen OTuple [(ABase BBytes); AEllipsis])) (VScalar (SFloat 0%Z)) (FTopic s249 None (Some s41)));
 (fb_match (Some s0) s250 (Some s19) s73 (Some (TGen OTuple [(ABase BBytes); (ABase BBytes)])) (VScalar (SFloat (-64)%Z)) (FTopic s251 None (Some s41)));
 (fb_match (Some s0) s252 (Some s7) s36 (Some (TGen OTuple [(ABase BBytes); (ABase BBytes); (ABase BBytes)])) (VScalar (SBool false)) (FTopic s253 None (Some s9)));
 (fb_match None s254 (Some s15) s36 (Some (TGen OTuple [AEllipsis; (ABase BBytes)])) (VList [(SBool true); (SBool true); (SBool false)]) (FTopic s255 None (Some s48)));
 (fb_match (Some s0) s256 (Some s15) s120 (Some (TGen OList [(ABase (BStruct "Translation2d"))])) (VList [(SStruct s129 [640%Z; 240%Z])]) (FTopic s257 (Some s131) (Some s131)));
 (fb_match (Some s21) s258 (Some s15) s23 (Some (TGen OSeq [(ABase (BStruct "Translation2d"))])) (VList [(SStruct s129 [640%Z; (-32)%Z]); (SStruct s129 [0%Z; 640%Z]); (SStruct s129 [64%Z; 568%Z])]) (FTopic s259 (Some s131) (Some s131)));
 (fb_match (Some s0) s260 (Some s7) s84 (Some (TGen OTuple [(ABase (BStruct "Translation2d"))])) (VList [(SStruct s129 [0%Z; 0%Z])]) (FTopic s261 (Some s131) (Some s131)));
 (fb_match (Some s0) s262 (Some s15) s50 (Some (TGen OTuple [(ABase (BStruct "Translation2d")); AEllipsis])) (VList [(SStruct s129 [592%Z; (-32)%Z]); (SStruct s129 [(-493)%Z; (-32)%Z]); (SStruct s129 [640%Z; 64%Z])]) (FTopic s263 (Some s131) (Some s131)));
 (fb_match (Some s0) s264 (Some s11) s95 (Some (TGen OTuple [(ABase (BStruct "Translation2d")); (ABase (BStruct "Translation2d"))])) (VList [(SStruct s129 [(-32)%Z; (-32)%Z])]) (FTopic s265 (Some s131) (Some s131)));
 (fb_match (Some s0) s266 (Some s7) s95 (Some (TGen OTuple [(ABase (BStruct "Translation2d")); (ABase (BStruct "Translation2d")); (ABase (BStruct "Translation2d"))])) (VList [(SStruct s129 [0%Z; (-32)%Z])]) (FTopic s267 (Some s131) (Some s131)));
 (fb_match None s268 (Some s15) s107 (Some (TGen OTuple [AEllipsis; (ABase (BStruct "Translation2d"))])) (VScalar (SStr s230)) (FTopic s269 None (Some s5)));
 (fb_match (Some s0) s270 (Some s7) s2 (Some (TGen OList [(ABase (BStruct "Translation3d"))])) (VList [(SStruct s27 [640%Z; (-32)%Z; 64%Z]); (SStruct s27 [64%Z; (-340)%Z; (-32)%Z]); (SStruct s27 [0%Z; 88%Z; 0%Z])]) (FTopic s271 (Some s148) (Some s148)));
 (fb_match (Some s21) s272 (Some s15) s50 (Some (TGen OSeq [(ABase (BStruct "Translation3d"))])) (VList [(SStruct s27 [(-523)%Z; 470%Z; 826%Z]); (SStruct s27 [64%Z; 0%Z; 0%Z]); (SStruct s27 [(-32)%Z; (-32)%Z; 640%Z])]) (FTopic s273 (Some s148) (Some s148)));
 (fb_match (Some s0) s274 (Some s11) s144 (Some (TGen OTuple [(ABase (BStruct "Translation3d"))])) (VList [(SStruct s27 [(-32)%Z; (-427)%Z; 64%Z]); (SStruct s27 [64%Z; (-32)%Z; 0%Z])]) (FTopic s275 (Some s148) (Some s148)));
 (fb_match (Some s0) s276 (Some s11) s84 (Some (TGen OTuple [(ABase (BStruct "Translation3d")); AEllipsis])) (VList [(SStruct s27 [640%Z; 763%Z; (-612)%Z])]) (FTopic s277 (Some s148) (Some s148)));
 (fb_match (Some s0) s278 (Some s19) s2 (Some (TGen OTuple [(ABase (BStruct "Translation3d")); (ABase (BStruct "Translation3d"))])) (VList [(SStruct s27 [64%Z; 640%Z; 64%Z]); (SStruct s27 [640%Z; 662%Z; (-443)%Z]); (SStruct s27 [248%Z; 11%Z; (-32)%Z])]) (FTopic s279 (Some s148) (Some s148)));
 (fb_match (Some s0) s280 (Some s11) s133 (Some (TGen OTuple [(ABase (BStruct "Translation3d")); (ABase (BStruct "Translation3d")); (ABase (BStruct "Translation3d"))])) (VList [(SStruct s27 [(-32)%Z; (-533)%Z; 640%Z])]) (FTopic s281 (Some s148) (Some s148)));
 (fb_match None s282 None s144 (Some (TGen OTuple [AEllipsis; (ABase (BStruct "Translation3d"))])) (VScalar (SInt 1%Z)) (FTopic s283 None (Some s41)));
 (fb_match (Some s0) s284 (Some s7) s23 (Some (TGen OList [(ABase BOther)])) (VList [(SStr s230); (SStr s11)]) (FTopic s285 None (Some s97)));
 (fb_match (Some s21) s286 (Some s7) s73 (Some (TGen OSeq [(ABase BOther)])) (VScalar (SInt (-1)%Z)) (FTopic s287 None (Some s41)));
 (fb_match (Some s0) s288 None s73 (Some (TGen OTuple [(ABase BOther)])) (VScalar (SStr s117)) (FTopic s289 None (Some s5)));
 (fb_match (Some s0) s290 None s133 (Some (TGen OTuple [(ABase BOther); AEllipsis])) (VList [(SBool true)]) (FTopic s291 None (Some s48)));
 (fb_match (Some s0) s292 (Some s15) s144 (Some (TGen OTuple [(ABase BOther); (ABase BOther)])) (VList [(SFloat (-64)%Z); (SFloat (-524)%Z)]) (FTopic s293 None (Some s17)));
 (fb_match (Some s0) s294 (Some s15) s36 (Some (TGen OTuple [(ABase BOther); (ABase BOther); (ABase BOther)])) (VScalar (SBool false)) (FTopic s295 None (Some s9)));
 (fb_match None s296 (Some s15) s50 (Some (TGen OTuple [AEllipsis; (ABase BOther)])) (VList [(SInt 0%Z)]) (FTopic s297 None (Some s32)));
 (fb_match (Some s0) s298 (Some s19) s95 (Some (TGen OTuple [(ABase BBool); (ABase BInt)])) (VList [(SInt (-1)%Z)]) (FTopic s299 None (Some s32)));
 (fb_match (Some s21) s300 (Some s7) s23 (Some (TGen OList [(ABase BBool); (ABase BInt)])) (VList [(SBool false); (SBool false)]) (FTopic s301 (Some s48) (Some s48)));
 (fb_match (Some s0) s302 None s133 (Some (TGen OTuple [(ABase BBool); (ABase BInt); AEllipsis])) (VScalar (SInt 1%Z)) (FTopic s303 None (Some s41)));
 (fb_match (Some s0) s304 (Some s11) s95 (Some (TGen OTuple [(ABase BBool); (ABase BFloat)])) (VScalar (SBytes [])) (FTopic s305 None (Some s115)));
 (fb_match (Some s0) s306 (Some s15) s73 (Some (TGen OList [(ABase BBool); (ABase BFloat)])) (VList []) (FTopic s307 (Some s48) (Some s48)));
 (fb_match (Some s0) s308 None s36 (Some (TGen OTuple [(ABase BBool); (ABase BFloat); AEllipsis])) (VScalar (SInt (-1)%Z)) (FTopic s309 None (Some s41)));
 (fb_match None s310 (Some s11) s61 (Some (TGen OTuple [(ABase BBool); (ABase BStr)])) (VScalar (SStr s64)) (FTopic s311 None (Some s5)));
 (fb_match (Some s0) s312 (Some s19) s144 (Some (TGen OList [(ABase BBool); (ABase BStr)])) (VList [(SBool false); (SBool false); (SBool false)]) (FTopic s313 (Some s48) (Some s48)));
 (fb_match (Some s21) s314 (Some s19) s95 (Some (TGen OTuple [(ABase BBool); (ABase BStr); AEllipsis])) (VScalar (SInt 0%Z)) (FTopic s315 None (Some s41)));
 (fb_match (Some s0) s316 (Some s7) s2 (Some (TGen OTuple [(ABase BBool); (ABase BBytes)])) (VList [(SStr s50)]) (FTopic s317 None (Some s97)));
 (fb_match (Some s0) s318 (Some s15) s23 (Some (TGen OList [(ABase BBool); (ABase BBytes)])) (VList [(SBool true); (SBool true)]) (FTopic s319 (Some s48) (Some s48)));
 (fb_match (Some s0) s320 (Some s11) s36 (Some (TGen OTuple [(ABase BBool); (ABase BBytes); AEllipsis])) (VScalar (SBytes [114%N; 231%N])) (FTopic s321 None (Some s115)));
 (fb_match (Some s0) s322 (Some s15) s95 (Some (TGen OTuple [(ABase BBool); (ABase (BStruct "Translation2d"))])) (VList [(SStr s3)]) (FTopic s323 None (Some s97)));
 (fb_match None s324 (Some s7) s95 (Some (TGen OList [(ABase BBool); (ABase (BStruct "Translation2d"))])) (VList []) (FTopic s325 (Some s48) (Some s48)));
 (fb_match (Some s0) s326 (Some s15) s61 (Some (TGen OTuple [(ABase BBool); (ABase (BStruct "Translation2d")); AEllipsis])) (VScalar (SStr s37)) (FTopic s327 None (Some s5)));
 (fb_match (Some s21) s328 None s73 (Some (TGen OTuple [(ABase BBool); (ABase (BStruct "Translation3d"))])) (VList [(SStr s176); (SStr s50); (SStr s11)]) (FTopic s329 None (Some s97)));
 (fb_match (Some s0) s330 None s95 (Some (TGen OList [(ABase BBool); (ABase (BStruct "Translation3d"))])) (VList [(SBool false)]) (FTopic s331 (Some s48) (Some s48)));
 (fb_match (Some s0) s332 (Some s7) s61 (Some (TGen OTuple [(ABase BBool); (ABase (BStruct "Translation3d")); AEllipsis])) (VScalar (SInt 7%Z)) (FTopic s333 None (Some s41)));
 (fb_match (Some s0) s334 None s107 (Some (TGen OTuple [(ABase BBool); (ABase BOther)])) (VList [(SBool true); (SBool true)]) (FTopic s335 None (Some s48)));
 (fb_match (Some s0) s336 (Some s11) s36 (Some (TGen OList [(ABase BBool); (ABase BOther)])) (VList [(SBool false); (SBool false); (SBool true)]) (FTopic s337 (Some s48) (Some s48)));
 (fb_match None s338 (Some s7) s144 (Some (TGen OTuple [(ABase BBool); (ABase BOther); AEllipsis])) (VScalar (SStr s3)) (FTopic s339 None (Some s5)));
 (fb_match (Some s0) s340 None s107 (Some (TGen OTuple [(ABase BInt); (ABase BBool)])) (VList [(SStr s230)]) (FTopic s341 None (Some s97)));
 (fb_match (Some s21) s342 (Some s19) s61 (Some (TGen OList [(ABase BInt); (ABase BBool)])) (VList [(SInt 2%Z); (SInt 1%Z); (SInt 2%Z)]) (FTopic s343 (Some s32) (Some s32)));
 (fb_match (Some s0) s344 (Some s15) s144 (Some (TGen OTuple [(ABase BInt); (ABase BBool); AEllipsis])) (VScalar (SInt 7%Z)) (FTopic s345 None (Some s41)));
 (fb_match (Some s0) s346 (Some s15) s144 (Some (TGen OTuple [(ABase BInt); (ABase BFloat)])) (VScalar (SFloat 0%Z)) (FTopic s347 None (Some s41)));
 (fb_match (Some s0) s348 (Some s11) s23 (Some (TGen OList [(ABase BInt); (ABase BFloat)])) (VList []) (FTopic s349 (Some s32) (Some s32)));
 (fb_match (Some s0) s350 (Some s19) s95 (Some (TGen OTuple [(ABase BInt); (ABase BFloat); AEllipsis])) (VList [(SStr s3); (SStr s117); (SStr s117)]) (FTopic s351 None (Some s97)));
 (fb_match None s352 None s50 (Some (TGen OTuple [(ABase BInt); (ABase BStr)])) (VList [(SBool true); (SBool true)]) (FTopic s353 None (Some s48)));
 (fb_match (Some s0) s354 (Some s19) s61 (Some (TGen OList [(ABase BInt); (ABase BStr)])) (VList [(SInt 0%Z); (SInt 255%Z)]) (FTopic s355 (Some s32) (Some s32)));
 (fb_match (Some s21) s356 (Some s19) s61 (Some (TGen OTuple [(ABase BInt); (ABase BStr); AEllipsis])) (VScalar (SFloat (-3)%Z)) (FTopic s357 None (Some s41)));
 (fb_match (Some s0) s358 (Some s11) s23 (Some (TGen OTuple [(ABase BInt); (ABase BBytes)])) (VList [(SStr s230)]) (FTopic s359 None (Some s97)));
 (fb_match (Some s0) s360 (Some s7) s95 (Some (TGen OList [(ABase BInt); (ABase BBytes)])) (VList [(SInt 9007199254740993%Z)]) (FTopic s361 (Some s32) (Some s32)));
 (fb_match (Some s0) s362 None s23 (Some (TGen OTuple [(ABase BInt); (ABase BBytes); AEllipsis])) (VScalar (SInt (-1099511627776)%Z)) (FTopic s363 None (Some s41)));
 (fb_match (Some s0) s364 (Some s11) s120 (Some (TGen OTuple [(ABase BInt); (ABase (BStruct "Translation2d"))])) (VList [(SStr s230); (SStr s64); (SStr s117)]) (FTopic s365 None (Some s97)));
 (fb_match None s366 (Some s15) s95 (Some (TGen OList [(ABase BInt); (ABase (BStruct "Translation2d"))])) (VList [(SInt 255%Z)]) (FTopic s367 (Some s32) (Some s32)));
 (fb_match (Some s0) s368 None s120 (Some (TGen OTuple [(ABase BInt); (ABase (BStruct "Translation2d")); AEllipsis])) (VList [(SFloat 96%Z); (SFloat 3973%Z)]) (FTopic s369 None (Some s17)));
 (fb_match (Some s21) s370 (Some s7) s2 (Some (TGen OTuple [(ABase BInt); (ABase (BStruct "Translation3d"))])) (VList [(SFloat (-3)%Z)]) (FTopic s371 None (Some s17)));
 (fb_match (Some s0) s372 (Some s15) s36 (Some (TGen OList [(ABase BInt); (ABase (BStruct "Translation3d"))])) (VList [(SInt 9007199254740993%Z)]) (FTopic s373 (Some s32) (Some s32)));
 (fb_match (Some s0) s374 None s107 (Some (TGen OTuple [(ABase BInt); (ABase (BStruct "Translation3d")); AEllipsis])) (VScalar (SBool false)) (FTopic s375 None (Some s9)));
 (fb_match (Some s0) s376 (Some s19) s95 (Some (TGen OTuple [(ABase BInt); (ABase BOther)])) (VScalar (SStr s64)) (FTopic s377 None (Some s5)));
 (fb_match (Some s0) s378 (Some s7) s84 (Some (TGen OList [(ABase BInt); (ABase BOther)])) (VList [(SInt 2%Z)]) (FTopic s379 (Some s32) (Some s32)));
 (fb_match None s380 (Some s19) s120 (Some (TGen OTuple [(ABase BInt); (ABase BOther); AEllipsis])) (VScalar (SInt 0%Z)) (FTopic s381 None (Some s41)));
 (fb_match (Some s0) s382 (Some s19) s36 (Some (TGen OTuple [(ABase BFloat); (ABase BBool)])) (VScalar (SBool false)) (FTopic s383 None (Some s9)));
 (fb_match (Some s21) s384 None s133 (Some (TGen OList [(ABase BFloat); (ABase BBool)])) (VList []) (FTopic s385 (Some s17) (Some s17)));
 (fb_match (Some s0) s386 (Some s19) s50 (Some (TGen OTuple [(ABase BFloat); (ABase BBool); AEllipsis])) (VScalar (SStr s176)) (FTopic s387 None (Some s5)));
 (fb_match (Some s0) s388 None s144 (Some (TGen OTuple [(ABase BFloat); (ABase BInt)])) (VScalar (SBool true)) (FTopic s389 None (Some s9)));
 (fb_match (Some s0) s390 (Some s19) s107 (Some (TGen OList [(ABase BFloat); (ABase BInt)])) (VList [(SFloat 1073741824%Z)]) (FTopic s391 (Some s17) (Some s17)));
 (fb_match (Some s0) s392 None s95 (Some (TGen OTuple [(ABase BFloat); (ABase BInt); AEllipsis])) (VScalar (SBytes [141%N; 148%N; 238%N; 51%N])) (FTopic s393 None (Some s115)));
 (fb_match None s394 (Some s19) s84 (Some (TGen OTuple [(ABase BFloat); (ABase BStr)])) (VList [(SInt (-1)%Z); (SInt 9007199254740993%Z)]) (FTopic s395 None (Some s32)));
 (fb_match (Some s0) s396 (Some s7) s50 (Some (TGen OList [(ABase BFloat); (ABase BStr)])) (VList [(SFloat (-3)%Z); (SFloat (-3)%Z)]) (FTopic s397 (Some s17) (Some s17)));
 (fb_match (Some s21) s398 (Some s15) s95 (Some (TGen OTuple [(ABase BFloat); (ABase BStr); AEllipsis])) (VScalar (SInt (-1099511627776)%Z)) (FTopic s399 None (Some s41)));
 (fb_match (Some s0) s400 (Some s11) s107 (Some (TGen OTuple [(ABase BFloat); (ABase BBytes)])) (VScalar (SInt 0%Z)) (FTopic s401 None (Some s41)));
 (fb_match (Some s0) s402 (Some s19) s2 (Some (TGen OList [(ABase BFloat); (ABase BBytes)])) (VList [(SFloat (-3)%Z); (SFloat 96%Z)]) (FTopic s403 (Some s17) (Some s17)));
 (fb_match (Some s0) s404 None s120 (Some (TGen OTuple [(ABase BFloat); (ABase BBytes); AEllipsis])) (VScalar (SStr s229)) (FTopic s405 None (Some s5)));
 (fb_match (Some s0) s406 None s61 (Some (TGen OTuple [(ABase BFloat); (ABase (BStruct "Translation2d"))])) (VScalar (SInt (-795)%Z)) (FTopic s407 None (Some s41)));
 (fb_match None s408 (Some s15) s120 (Some (TGen OList [(ABase BFloat); (ABase (BStruct "Translation2d"))])) (VList [(SFloat (-64)%Z)]) (FTopic s409 (Some s17) (Some s17)));
 (fb_match (Some s0) s410 (Some s7) s73 (Some (TGen OTuple [(ABase BFloat); (ABase (BStruct "Translation2d")); AEllipsis])) (VList [(SStr s11)]) (FTopic s411 None (Some s97)));
 (fb_match (Some s21) s412 (Some s15) s50 (Some (TGen OTuple [(ABase BFloat); (ABase (BStruct "Translation3d"))])) (VScalar (SInt 7%Z)) (FTopic s413 None (Some s41)));
 (fb_match (Some s0) s414 (Some s11) s50 (Some (TGen OList [(ABase BFloat); (ABase (BStruct "Translation3d"))])) (VList [(SFloat (-3)%Z); (SFloat (-3)%Z)]) (FTopic s415 (Some s17) (Some s17)));
 (fb_match (Some s0) s416 (Some s19) s144 (Some (TGen OTuple [(ABase BFloat); (ABase (BStruct "Translation3d")); AEllipsis])) (VScalar (SBool true)) (FTopic s417 None (Some s9)));
 (fb_match (Some s0) s418 (Some s7) s36 (Some (TGen OTuple [(ABase BFloat); (ABase BOther)])) (VList [(SStr s11); (SStr s37); (SStr s37)]) (FTopic s419 None (Some s97)));
 (fb_match (Some s0) s420 (Some s19) s107 (Some (TGen OList [(ABase BFloat); (ABase BOther)])) (VList [(SFloat 1073741824%Z); (SFloat 1%Z)]) (FTopic s421 (Some s17) (Some s17)));
 (fb_match None s422 (Some s19) s2 (Some (TGen OTuple [(ABase BFloat); (ABase BOther); AEllipsis])) (VList [(SInt 2%Z); (SInt 7%Z)]) (FTopic s423 None (Some s32)));
 (fb_match (Some s0) s424 (Some s7) s2 (Some (TGen OTuple [(ABase BStr); (ABase BBool)])) (VScalar (SBytes [10%N; 172%N])) (FTopic s425 None (Some s115)));
 (fb_match (Some s21) s426 None s120 (Some (TGen OList [(ABase BStr); (ABase BBool)])) (VList [(SStr s37)]) (FTopic s427 (Some s97) (Some s97)));
 (fb_match (Some s0) s428 (Some s19) s120 (Some (TGen OTuple [(ABase BStr); (ABase BBool); AEllipsis])) (VScalar (SBool false)) (FTopic s429 None (Some s9)));
 (fb_match (Some s0) s430 (Some s19) s84 (Some (TGen OTuple [(ABase BStr); (ABase BInt)])) (VList [(SInt 255%Z); (SInt 2%Z)]) (FTopic s431 None (Some s32)));
 (fb_match (Some s0) s432 (Some s7) s120 (Some (TGen OList [(ABase BStr); (ABase BInt)])) (VList [(SStr s3); (SStr s176); (SStr s64)]) (FTopic s433 (Some s97) (Some s97)));
 (fb_match (Some s0) s434 (Some s7) s120 (Some (TGen OTuple [(ABase BStr); (ABase BInt); AEllipsis])) (VScalar (SFloat (-64)%Z)) (FTopic s435 None (Some s41)));
 (fb_match None s436 None s133 (Some (TGen OTuple [(ABase BStr); (ABase BFloat)])) (VScalar (SFloat (-3)%Z)) (FTopic s437 None (Some s41)));
 (fb_match (Some s0) s438 (Some s15) s23 (Some (TGen OList [(ABase BStr); (ABase BFloat)])) (VList [(SStr s11); (SStr s229)]) (FTopic s439 (Some s97) (Some s97)));
 (fb_match (Some s21) s440 None s133 (Some (TGen OTuple [(ABase BStr); (ABase BFloat); AEllipsis])) (VList [(SFloat 64%Z)]) (FTopic s441 None (Some s17)));
 (fb_match (Some s0) s442 (Some s11) s50 (Some (TGen OTuple [(ABase BStr); (ABase BBytes)])) (VScalar (SInt (-1)%Z)) (FTopic s443 None (Some s41)));
 (fb_match (Some s0) s444 (Some s19) s2 (Some (TGen OList [(ABase BStr); (ABase BBytes)])) (VList [(SStr s117); (SStr s3); (SStr s230)]) (FTopic s445 (Some s97) (Some s97)));
 (fb_match (Some s0) s446 (Some s19) s95 (Some (TGen OTuple [(ABase BStr); (ABase BBytes); AEllipsis])) (VList [(SInt 255%Z); (SInt 2%Z); (SInt 9007199254740993%Z)]) (FTopic s447 None (Some s32)));
 (fb_match (Some s0) s448 (Some s7) s2 (Some (TGen OTuple [(ABase BStr); (ABase (BStruct "Translation2d"))])) (VScalar (SStr s11)) (FTopic s449 None (Some s5)));
 (fb_match None s450 (Some s7) s95 (Some (TGen OList [(ABase BStr); (ABase (BStruct "Translation2d"))])) (VList [(SStr s11)]) (FTopic s451 (Some s97) (Some s97)));
 (fb_match (Some s0) s452 (Some s11) s95 (Some (TGen OTuple [(ABase BStr); (ABase (BStruct "Translation2d")); AEllipsis])) (VScalar (SBytes [83%N; 132%N])) (FTopic s453 None (Some s115)));
 (fb_match (Some s21) s454 (Some s15) s23 (Some (TGen OTuple [(ABase BStr); (ABase (BStruct "Translation3d"))])) (VList [(SInt 1%Z); (SInt (-899)%Z)]) (FTopic s455 None (Some s32)));
 (fb_match (Some s0) s456 (Some s19) s95 (Some (TGen OList [(ABase BStr); (ABase (BStruct "Translation3d"))])) (VList [(SStr s176); (SStr s64); (SStr s117)]) (FTopic s457 (Some s97) (Some s97)));
 (fb_match (Some s0) s458 (Some s19) s50 (Some (TGen OTuple [(ABase BStr); (ABase (BStruct "Translation3d")); AEllipsis])) (VScalar (SStr s229)) (FTopic s459 None (Some s5)));
 (fb_match (Some s0) s460 (Some s7) s84 (Some (TGen OTuple [(ABase BStr); (ABase BOther)])) (VScalar (SBytes [64%N; 236%N])) (FTopic s461 None (Some s115)));
 (fb_match (Some s0) s462 None s120 (Some (TGen OList [(ABase BStr); (ABase BOther)])) (VList [(SStr s11); (SStr s229); (SStr s117)]) (FTopic s463 (Some s97) (Some s97)));
 (fb_match None s464 (Some s7) s2 (Some (TGen OTuple [(ABase BStr); (ABase BOther); AEllipsis])) (VScalar (SBool true)) (FTopic s465 None (Some s9)));
 (fb_match (Some s0) s466 (Some s11) s23 (Some (TGen OTuple [(ABase BBytes); (ABase BBool)])) (VList [(SBool false)]) (FTopic s467 None (Some s48)));
 (fb_match (Some s21) s468 (Some s11) s95 (Some (TGen OList [(ABase BBytes); (ABase BBool)])) (VScalar (SStr s229)) (FTopic s469 None (Some s5)));
 (fb_match (Some s0) s470 (Some s11) s36 (Some (TGen OTuple [(ABase BBytes); (ABase BBool); AEllipsis])) (VScalar (SBool true)) (FTopic s471 None (Some s9)));
 (fb_match (Some s0) s472 (Some s19) s144 (Some (TGen OTuple [(ABase BBytes); (ABase BInt)])) (VScalar (SBool false)) (FTopic s473 None (Some s9)));
 (fb_match (Some s0) s474 (Some s7) s95 (Some (TGen OList [(ABase BBytes); (ABase BInt)])) (VScalar (SBool true)) (FTopic s475 None (Some s9)));
 (fb_match (Some s0) s476 None s50 (Some (TGen OTuple [(ABase BBytes); (ABase BInt); AEllipsis])) (VScalar (SBytes [])) (FTopic s477 None (Some s115)));
 (fb_match None s478 (Some s19) s133 (Some (TGen OTuple [(ABase BBytes); (ABase BFloat)])) (VScalar (SInt (-1099511627776)%Z)) (FTopic s479 None (Some s41)));
 (fb_match (Some s0) s480 (Some s7) s144 (Some (TGen OList [(ABase BBytes); (ABase BFloat)])) (VScalar (SInt 2%Z)) (FTopic s481 None (Some s41)));
 (fb_match (Some s21) s482 (Some s11) s23 (Some (TGen OTuple [(ABase BBytes); (ABase BFloat); AEllipsis])) (VScalar (SStr s11)) (FTopic s483 None (Some s5)));
 (fb_match (Some s0) s484 (Some s11) s95 (Some (TGen OTuple [(ABase BBytes); (ABase BStr)])) (VScalar (SBool true)) (FTopic s485 None (Some s9)));
 (fb_match (Some s0) s486 None s50 (Some (TGen OList [(ABase BBytes); (ABase BStr)])) (VList [(SFloat (-3)%Z); (SFloat 96%Z); (SFloat 1073741824%Z)]) (FTopic s487 None (Some s17)));
 (fb_match (Some s0) s488 (Some s11) s73 (Some (TGen OTuple [(ABase BBytes); (ABase BStr); AEllipsis])) (VScalar (SInt (-658)%Z)) (FTopic s489 None (Some s41)));
 (fb_match (Some s0) s490 (Some s11) s120 (Some (TGen OTuple [(ABase BBytes); (ABase (BStruct "Translation2d"))])) (VList [(SStr s37); (SStr s3)]) (FTopic s491 None (Some s97)));
 (fb_match None s492 (Some s15) s84 (Some (TGen OList [(ABase BBytes); (ABase (BStruct "Translation2d"))])) (VScalar (SInt 400%Z)) (FTopic s493 None (Some s41)));
 (fb_match (Some s0) s494 (Some s15) s50 (Some (TGen OTuple [(ABase BBytes); (ABase (BStruct "Translation2d")); AEllipsis])) (VList [(SFloat (-64)%Z); (SFloat 0%Z); (SFloat 64%Z)]) (FTopic s495 None (Some s17)));
 (fb_match (Some s21) s496 (Some s19) s23 (Some (TGen OTuple [(ABase BBytes); (ABase (BStruct "Translation3d"))])) (VScalar (SInt 2%Z)) (FTopic s497 None (Some s41)));
 (fb_match (Some s0) s498 (Some s19) s120 (Some (TGen OList [(ABase BBytes); (ABase (BStruct "Translation3d"))])) (VScalar (SFloat (-1145)%Z)) (FTopic s499 None (Some s41)));
 (fb_match (Some s0) s500 (Some s7) s50 (Some (TGen OTuple [(ABase BBytes); (ABase (BStruct "Translation3d")); AEllipsis])) (VScalar (SInt (-384)%Z)) (FTopic s501 None (Some s41)));
 (fb_match (Some s0) s502 (Some s7) s61 (Some (TGen OTuple [(ABase BBytes); (ABase BOther)])) (VScalar (SBool false)) (FTopic s503 None (Some s9)));
 (fb_match (Some s0) s504 (Some s7) s2 (Some (TGen OList [(ABase BBytes); (ABase BOther)])) (VScalar (SStr s230)) (FTopic s505 None (Some s5)));
 (fb_match None s506 (Some s19) s120 (Some (TGen OTuple [(ABase BBytes); (ABase BOther); AEllipsis])) (VList [(SStr s3)]) (FTopic s507 None (Some s97)));
 (fb_match (Some s0) s508 (Some s15) s107 (Some (TGen OTuple [(ABase (BStruct "Translation2d")); (ABase BBool)])) (VScalar (SInt 7%Z)) (FTopic s509 None (Some s41)));
 (fb_match (Some s21) s510 None s120 (Some (TGen OList [(ABase (BStruct "Translation2d")); (ABase BBool)])) (VList [(SStruct s129 [(-37)%Z; 640%Z]); (SStruct s129 [(-32)%Z; (-32)%Z]); (SStruct s129 [796%Z; (-713)%Z])]) (FTopic s511 (Some s131) (Some s131)));
 (fb_match (Some s0) s512 (Some s7) s61 (Some (TGen OTuple [(ABase (BStruct "Translation2d")); (ABase BBool); AEllipsis])) (VScalar (SStr s229)) (FTopic s513 None (Some s5)));
 (fb_match (Some s0) s514 None s73 (Some (TGen OTuple [(ABase (BStruct "Translation2d")); (ABase BInt)])) (VScalar (SStr s64)) (FTopic s515 None (Some s5)));
 (fb_match (Some s0) s516 (Some s19) s107 (Some (TGen OList [(ABase (BStruct "Translation2d")); (ABase BInt)])) (VList [(SStruct s129 [(-32)%Z; 64%Z]); (SStruct s129 [0%Z; (-414)%Z])]) (FTopic s517 (Some s131) (Some s131)));
 (fb_match (Some s0) s518 None s23 (Some (TGen OTuple [(ABase (BStruct "Translation2d")); (ABase BInt); AEllipsis])) (VList [(SBool true)]) (FTopic s519 None (Some s48)));
 (fb_match None s520 (Some s19) s23 (Some (TGen OTuple [(ABase (BStruct "Translation2d")); (ABase BFloat)])) (VScalar (SFloat 1073741824%Z)) (FTopic s521 None (Some s41)));
 (fb_match (Some s0) s522 None s23 (Some (TGen OList [(ABase (BStruct "Translation2d")); (ABase BFloat)])) (VList [(SStruct s129 [64%Z; 64%Z]); (SStruct s129 [(-32)%Z; 64%Z]); (SStruct s129 [64%Z; 856%Z])]) (FTopic s523 (Some s131) (Some s131)));
 (fb_match (Some s21) s524 None s50 (Some (TGen OTuple [(ABase (BStruct "Translation2d")); (ABase BFloat); AEllipsis])) (VScalar (SInt 1%Z)) (FTopic s525 None (Some s41)));
 (fb_match (Some s0) s526 None s120 (Some (TGen OTuple [(ABase (BStruct "Translation2d")); (ABase BStr)])) (VList [(SFloat 1073741824%Z); (SFloat 64%Z); (SFloat 0%Z)]) (FTopic s527 None (Some s17)));
 (fb_match (Some s0) s528 (Some s15) s2 (Some (TGen OList [(ABase (BStruct "Translation2d")); (ABase BStr)])) (VList [(SStruct s129 [64%Z; 0%Z]); (SStruct s129 [640%Z; (-160)%Z]); (SStruct s129 [0%Z; (-32)%Z])]) (FTopic s529 (Some s131) (Some s131)));
 (fb_match (Some s0) s530 (Some s7) s50 (Some (TGen OTuple [(ABase (BStruct "Translation2d")); (ABase BStr); AEllipsis])) (VScalar (SInt 255%Z)) (FTopic s531 None (Some s41)));
 (fb_match (Some s0) s532 (Some s7) s120 (Some (TGen OTuple [(ABase (BStruct "Translation2d")); (ABase BBytes)])) (VScalar (SFloat 1%Z)) (FTopic s533 None (Some s41)));
 (fb_match None s534 (Some s19) s95 (Some (TGen OList [(ABase (BStruct "Translation2d")); (ABase BBytes)])) (VList [(SStruct s129 [(-32)%Z; 64%Z]); (SStruct s129 [64%Z; 64%Z])]) (FTopic s535 (Some s131) (Some s131)));
 (fb_match (Some s0) s536 None s95 (Some (TGen OTuple [(ABase (BStruct "Translation2d")); (ABase BBytes); AEllipsis])) (VScalar (SStr s64)) (FTopic s537 None (Some s5)));
 (fb_match (Some s21) s538 (Some s15) s144 (Some (TGen OTuple [(ABase (BStruct "Translation2d")); (ABase (BStruct "Translation3d"))])) (VScalar (SBool true)) (FTopic s539 None (Some s9)));
 (fb_match (Some s0) s540 (Some s7) s2 (Some (TGen OList [(ABase (BStruct "Translation2d")); (ABase (BStruct "Translation3d"))])) (VList [(SStruct s129 [64%Z; (-32)%Z])]) (FTopic s541 (Some s131) (Some s131)));
 (fb_match (Some s0) s542 (Some s11) s61 (Some (TGen OTuple [(ABase (BStruct "Translation2d")); (ABase (BStruct "Translation3d")); AEllipsis])) (VList [(SStr s229)]) (FTopic s543 None (Some s97)));
 (fb_match (Some s0) s544 None s2 (Some (TGen OTuple [(ABase (BStruct "Translation2d")); (ABase BOther)])) (VList [(SFloat 1%Z)]) (FTopic s545 None (Some s17)));
 (fb_match (Some s0) s546 (Some s19) s144 (Some (TGen OList [(ABase (BStruct "Translation2d")); (ABase BOther)])) (VList [(SStruct s129 [(-375)%Z; 64%Z]); (SStruct s129 [640%Z; 64%Z]); (SStruct s129 [(-32)%Z; (-32)%Z])]) (FTopic s547 (Some s131) (Some s131)));
 (fb_match None s548 None s133 (Some (TGen OTuple [(ABase (BStruct "Translation2d")); (ABase BOther); AEllipsis])) (VList [(SInt 268%Z); (SInt 0%Z); (SInt 7%Z)]) (FTopic s549 None (Some s32)));
 (fb_match (Some s0) s550 (Some s15) s50 (Some (TGen OTuple [(ABase (BStruct "Translation3d")); (ABase BBool)])) (VList [(SStr s230)]) (FTopic s551 None (Some s97)));
 (fb_match (Some s21) s552 (Some s15) s50 (Some (TGen OList [(ABase (BStruct "Translation3d")); (ABase BBool)])) (VList [(SStruct s27 [64%Z; (-32)%Z; 64%Z])]) (FTopic s553 (Some s148) (Some s148)));
 (fb_match (Some s0) s554 (Some s7) s144 (Some (TGen OTuple [(ABase (BStruct "Translation3d")); (ABase BBool); AEllipsis])) (VScalar (SFloat (-64)%Z)) (FTopic s555 None (Some s41)));
 (fb_match (Some s0) s556 (Some s11) s144 (Some (TGen OTuple [(ABase (BStruct "Translation3d")); (ABase BInt)])) (VList [(SFloat (-3)%Z); (SFloat (-3)%Z)]) (FTopic s557 None (Some s17)));
 (fb_match (Some s0) s558 (Some s11) s61 (Some (TGen OList [(ABase (BStruct "Translation3d")); (ABase BInt)])) (VList [(SStruct s27 [0%Z; 640%Z; 0%Z])]) (FTopic s559 (Some s148) (Some s148)));
 (fb_match (Some s0) s560 None s61 (Some (TGen OTuple [(ABase (BStruct "Translation3d")); (ABase BInt); AEllipsis])) (VScalar (SFloat 0%Z)) (FTopic s561 None (Some s41)));
 (fb_match None s562 None s73 (Some (TGen OTuple [(ABase (BStruct "Translation3d")); (ABase BFloat)])) (VList [(SInt (-1099511627776)%Z); (SInt (-930)%Z)]) (FTopic s563 None (Some s32)));
 (fb_match (Some s0) s564 (Some s11) s36 (Some (TGen OList [(ABase (BStruct "Translation3d")); (ABase BFloat)])) (VList [(SStruct s27 [0%Z; 640%Z; (-32)%Z]); (SStruct s27 [(-847)%Z; (-616)%Z; 64%Z])]) (FTopic s565 (Some s148) (Some s148)));
 (fb_match (Some s21) s566 (Some s15) s23 (Some (TGen OTuple [(ABase (BStruct "Translation3d")); (ABase BFloat); AEllipsis])) (VScalar (SBool true)) (FTopic s567 None (Some s9)));
 (fb_match (Some s0) s568 (Some s15) s73 (Some (TGen OTuple [(ABase (BStruct "Translation3d")); (ABase BStr)])) (VScalar (SStr s176)) (FTopic s569 None (Some s5)));
 (fb_match (Some s0) s570 (Some s19) s50 (Some (TGen OList [(ABase (BStruct "Translation3d")); (ABase BStr)])) (VList [(SStruct s27 [0%Z; 640%Z; (-32)%Z]); (SStruct s27 [760%Z; 64%Z; 640%Z])]) (FTopic s571 (Some s148) (Some s148)));
 (fb_match (Some s0) s572 (Some s19) s61 (Some (TGen OTuple [(ABase (BStruct "Translation3d")); (ABase BStr); AEllipsis])) (VScalar (SBytes [200%N; 118%N; 68%N; 2%N])) (FTopic s573 None (Some s115)));
 (fb_match (Some s0) s574 (Some s7) s2 (Some (TGen OTuple [(ABase (BStruct "Translation3d")); (ABase BBytes)])) (VScalar (SBytes [224%N; 153%N; 192%N; 201%N])) (FTopic s575 None (Some s115)));
 (fb_match None s576 None s120 (Some (TGen OList [(ABase (BStruct "Translation3d")); (ABase BBytes)])) (VList [(SStruct s27 [0%Z; 640%Z; 0%Z]); (SStruct s27 [(-32)%Z; (-32)%Z; 64%Z])]) (FTopic s577 (Some s148) (Some s148)));
 (fb_match (Some s0) s578 (Some s19) s36 (Some (TGen OTuple [(ABase (BStruct "Translation3d")); (ABase BBytes); AEllipsis])) (VScalar (SBool false)) (FTopic s579 None (Some s9)));
 (fb_match (Some s21) s580 (Some s19) s61 (Some (TGen OTuple [(ABase (BStruct "Translation3d")); (ABase (BStruct "Translation2d"))])) (VList [(SStr s50); (SStr s37)]) (FTopic s581 None (Some s97)));
 (fb_match (Some s0) s582 (Some s15) s144 (Some (TGen OList [(ABase (BStruct "Translation3d")); (ABase (BStruct "Translation2d"))])) (VList [(SStruct s27 [350%Z; 640%Z; 640%Z])]) (FTopic s583 (Some s148) (Some s148)));
 (fb_match (Some s0) s584 (Some s7) s84 (Some (TGen OTuple [(ABase (BStruct "Translation3d")); (ABase (BStruct "Translation2d")); AEllipsis])) (VScalar (SFloat (-3)%Z)) (FTopic s585 None (Some s41)));
 (fb_match (Some s0) s586 None s73 (Some (TGen OTuple [(ABase (BStruct "Translation3d")); (ABase BOther)])) (VList [(SInt 9007199254740993%Z)]) (FTopic s587 None (Some s32)));
 (fb_match (Some s0) s588 None s61 (Some (TGen OList [(ABase (BStruct "Translation3d")); (ABase BOther)])) (VList [(SStruct s27 [(-373)%Z; 0%Z; 640%Z])]) (FTopic s589 (Some s148) (Some s148)));
 (fb_match None s590 (Some s15) s95 (Some (TGen OTuple [(ABase (BStruct "Translation3d")); (ABase BOther); AEllipsis])) (VList [(SStr s11); (SStr s64); (SStr s229)]) (FTopic s591 None (Some s97)));
 (fb_match (Some s0) s592 (Some s19) s61 (Some (TGen OTuple [(ABase BOther); (ABase BBool)])) (VScalar (SInt 9007199254740993%Z)) (FTopic s593 None (Some s41)));
 (fb_match (Some s21) s594 (Some s19) s2 (Some (TGen OList [(ABase BOther); (ABase BBool)])) (VScalar (SBytes [83%N])) (FTopic s595 None (Some s115)));
 (fb_match (Some s0) s596 (Some s7) s23 (Some (TGen OTuple [(ABase BOther); (ABase BBool); AEllipsis])) (VScalar (SInt 1%Z)) (FTopic s597 None (Some s41)));
 (fb_match (Some s0) s598 (Some s15) s107 (Some (TGen OTuple [(ABase BOther); (ABase BInt)])) (VList [(SInt 1%Z)]) (FTopic s599 None (Some s32)));
 (fb_match (Some s0) s600 (Some s15) s144 (Some (TGen OList [(ABase BOther); (ABase BInt)])) (VList [(SBool false); (SBool true)]) (FTopic s601 None (Some s48)));
 (fb_match (Some s0) s602 (Some s19) s144 (Some (TGen OTuple [(ABase BOther); (ABase BInt); AEllipsis])) (VList [(SFloat (-3)%Z)]) (FTopic s603 None (Some s17)));
 (fb_match None s604 (Some s19) s2 (Some (TGen OTuple [(ABase BOther); (ABase BFloat)])) (VScalar (SFloat 1%Z)) (FTopic s605 None (Some s41)));
 (fb_match (Some s0) s606 None s95 (Some (TGen OList [(ABase BOther); (ABase BFloat)])) (VScalar (SBool true)) (FTopic s607 None (Some s9)));
 (fb_match (Some s21) s608 None s107 (Some (TGen OTuple [(ABase BOther); (ABase BFloat); AEllipsis])) (VScalar (SInt 0%Z)) (FTopic s609 None (Some s41)));
 (fb_match (Some s0) s610 (Some s19) s61 (Some (TGen OTuple [(ABase BOther); (ABase BStr)])) (VList [(SFloat 64%Z)]) (FTopic s611 None (Some s17)));
 (fb_match (Some s0) s612 (Some s7) s133 (Some (TGen OList [(ABase BOther); (ABase BStr)])) (VScalar (SBool true)) (FTopic s613 None (Some s9)));
 (fb_match (Some s0) s614 None s133 (Some (TGen OTuple [(ABase BOther); (ABase BStr); AEllipsis])) (VScalar (SBool false)) (FTopic s615 None (Some s9)));
 (fb_match (Some s0) s616 (Some s15) s73 (Some (TGen OTuple [(ABase BOther); (ABase BBytes)])) (VScalar (SInt 7%Z)) (FTopic s617 None (Some s41)));
 (fb_match None s618 (Some s7) s50 (Some (TGen OList [(ABase BOther); (ABase BBytes)])) (VList [(SBool false); (SBool false)]) (FTopic s619 None (Some s48)));
 (fb_match (Some s0) s620 (Some s19) s61 (Some (TGen OTuple [(ABase BOther); (ABase BBytes); AEllipsis])) (VList [(SFloat 0%Z)]) (FTopic s621 None (Some s17)));
 (fb_match (Some s21) s622 (Some s11) s2 (Some (TGen OTuple [(ABase BOther); (ABase (BStruct "Translation2d"))])) (VList [(SInt 0%Z); (SInt 9007199254740993%Z); (SInt 9007199254740993%Z)]) (FTopic s623 None (Some s32)));
 (fb_match (Some s0) s624 (Some s15) s2 (Some (TGen OList [(ABase BOther); (ABase (BStruct "Translation2d"))])) (VScalar (SStr s229)) (FTopic s625 None (Some s5)));
 (fb_match (Some s0) s626 (Some s15) s95 (Some (TGen OTuple [(ABase BOther); (ABase (BStruct "Translation2d")); AEllipsis])) (VList [(SInt 7%Z)]) (FTopic s627 None (Some s32)));
 (fb_match (Some s0) s628 (Some s11) s95 (Some (TGen OTuple [(ABase BOther); (ABase (BStruct "Translation3d"))])) (VScalar (SInt 7%Z)) (FTopic s629 None (Some s41)));
 (fb_match (Some s0) s630 (Some s15) s73 (Some (TGen OList [(ABase BOther); (ABase (BStruct "Translation3d"))])) (VList [(SBool true)]) (FTopic s631 None (Some s48)));
 (fb_match None s632 (Some s15) s120 (Some (TGen OTuple [(ABase BOther); (ABase (BStruct "Translation3d")); AEllipsis])) (VScalar (SStr s37)) (FTopic s633 None (Some s5)))].
Eval vm_compute in (bad_from (fun b : bool => b) 0 rows).
