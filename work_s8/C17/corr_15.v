From Coq Require Import Reals Lra.
From Interval Require Import Tactic.
From RV Require Import IR.Model IR.Proofs.
Open Scope R_scope.
Lemma r_A02_33 : rio_reads A02_c A02_e A02_lo A02_hi floor_volts ctol (Build_rio (Fin (11 / 2)) (Fin (5 / 1)) PInf (Fin (6 / 1)) (Fin (12 / 1)) true true true ((Fin (0 / 1)) :: (Fin (0 / 1)) :: (Fin (0 / 1)) :: (Fin (0 / 1)) :: (Fin (27 / 4)) :: (Fin (45 / 1)) :: nil)) (45 / 2).
Proof. apply (A02_rio_fin _ (11 / 2)); [reflexivity | apply (A02_q_lo 11 2 45 2); [vm_compute; reflexivity | unfold fr, ctol, A02_lo, A02_c, A02_e; interval with (i_prec 80)]]. Qed.
Lemma r_A02_51 : rio_reads A02_c A02_e A02_lo A02_hi floor_volts ctol (Build_rio (Fin (5720628919562405 / 2251799813685248)) (Fin (5 / 1)) (Fin (3715469692580659 / 1125899906842624)) (Fin (6 / 1)) (Fin (12 / 1)) true true true ((Fin (0 / 1)) :: (Fin (0 / 1)) :: (Fin (0 / 1)) :: (Fin (0 / 1)) :: (Fin (0 / 1)) :: (Fin (45 / 1)) :: nil)) (45 / 2).
Proof. apply (A02_rio_fin _ (5720628919562405 / 2251799813685248)); [reflexivity | apply (A02_q_lo 5720628919562405 2251799813685248 45 2); [vm_compute; reflexivity | unfold fr, ctol, A02_lo, A02_c, A02_e; interval with (i_prec 80)]]. Qed.
Lemma r_A02_67 : rio_reads A02_c A02_e A02_lo A02_hi floor_volts ctol (Build_rio (Fin (5 / 2048)) (Fin (5 / 1)) (Fin (5219 / 512)) (Fin (6215 / 1024)) (Fin (185 / 16)) true true true ((Fin (277 / 512)) :: (Fin (219 / 1024)) :: (Fin (3043 / 1024)) :: (Fin (10733 / 64)) :: (Fin (4615 / 1024)) :: (Fin (34609 / 1024)) :: nil)) (145 / 1).
Proof. apply (A02_rio_fin _ (5 / 2048)); [reflexivity | apply (A02_q_hi 5 2048 145 1); [vm_compute; reflexivity | unfold fr, ctol, A02_hi, A02_c, A02_e; interval with (i_prec 80)]]. Qed.
Lemma r_A02_83 : rio_reads A02_c A02_e A02_lo A02_hi floor_volts ctol (Build_rio (Fin (5 / 16)) (Fin (5 / 1)) (Fin (3715469692580659 / 1125899906842624)) (Fin (6 / 1)) (Fin (12 / 1)) true true true ((Fin (0 / 1)) :: (Fin (0 / 1)) :: (Fin (0 / 1)) :: (Fin (0 / 1)) :: (Fin (27 / 4)) :: (Fin (45 / 1)) :: nil)) (145 / 1).
Proof. apply (A02_rio_fin _ (5 / 16)); [reflexivity | apply (A02_q_hi 5 16 145 1); [vm_compute; reflexivity | unfold fr, ctol, A02_hi, A02_c, A02_e; interval with (i_prec 80)]]. Qed.
Lemma r_A02_99 : rio_reads A02_c A02_e A02_lo A02_hi floor_volts ctol (Build_rio (Fin (5 / 8)) (Fin (5 / 1)) (Fin (1 / 1)) (Fin (0 / 1)) (Fin (12 / 1)) true true true ((Fin (1361 / 512)) :: (Fin (249 / 1024)) :: (Fin (873 / 1024)) :: (Fin (7811 / 128)) :: (Fin (2073 / 512)) :: (Fin (20209 / 512)) :: nil)) (7321961239271651 / 70368744177664).
Proof. apply (A02_rio_fin _ (5 / 8)); [reflexivity | apply (A02_q_mid 5 8 7321961239271651 70368744177664); [vm_compute; reflexivity | unfold fr, close, ctol, A02_c, A02_e; interval with (i_prec 80)]]. Qed.
Lemma r_A02_115 : rio_reads A02_c A02_e A02_lo A02_hi floor_volts ctol (Build_rio (Fin (15 / 16)) (Fin (4335 / 1024)) (Fin (12319 / 1024)) (Fin (12127 / 1024)) (Fin (1 / 202402253307310618352495346718917307049556649764142118356901358027430339567995346891960383701437124495187077864316811911389808737385793476867013399940738509921517424276566361364466907742093216341239767678472745068562007483424692698618103355649159556340810056512358769552333414615230502532186327508646006263307707741093494784)) false true true ((Fin (189 / 256)) :: (Fin (303 / 512)) :: (Fin (425 / 512)) :: (Fin (35703 / 512)) :: (Fin (241 / 64)) :: (Fin (87031 / 1024)) :: nil)) (4702575432005091 / 70368744177664).
Proof. apply (A02_rio_fin _ (15 / 16)); [reflexivity | apply (A02_q_mid 15 16 4702575432005091 70368744177664); [vm_compute; reflexivity | unfold fr, close, ctol, A02_c, A02_e; interval with (i_prec 80)]]. Qed.
Lemma r_A02_131 : rio_reads A02_c A02_e A02_lo A02_hi floor_volts ctol (Build_rio (Fin (5 / 4)) (Fin (5 / 1)) (Fin (3715469692580659 / 1125899906842624)) (Fin (6 / 1)) (Fin (12 / 1)) true true true ((Fin (0 / 1)) :: (Fin (0 / 1)) :: (Fin (0 / 1)) :: (Fin (0 / 1)) :: (Fin (27 / 4)) :: (Fin (45 / 1)) :: nil)) (6869619234640985 / 140737488355328).
Proof. apply (A02_rio_fin _ (5 / 4)); [reflexivity | apply (A02_q_mid 5 4 6869619234640985 140737488355328); [vm_compute; reflexivity | unfold fr, close, ctol, A02_c, A02_e; interval with (i_prec 80)]]. Qed.
Lemma r_A02_147 : rio_reads A02_c A02_e A02_lo A02_hi floor_volts ctol (Build_rio (Fin (25 / 16)) (Fin (5 / 1)) (Fin (3571 / 1024)) (Fin (169 / 64)) (Fin (5307 / 512)) true true true ((Fin (455 / 512)) :: (Fin (133 / 512)) :: (Fin (183 / 64)) :: (Fin (91607 / 512)) :: (Fin (461 / 128)) :: (Fin (32123 / 1024)) :: nil)) (5384023312554471 / 140737488355328).
Proof. apply (A02_rio_fin _ (25 / 16)); [reflexivity | apply (A02_q_mid 25 16 5384023312554471 140737488355328); [vm_compute; reflexivity | unfold fr, close, ctol, A02_c, A02_e; interval with (i_prec 80)]]. Qed.
Lemma r_A02_163 : rio_reads A02_c A02_e A02_lo A02_hi floor_volts ctol (Build_rio (Fin (15 / 8)) (Fin (5 / 1)) (Fin (3715469692580659 / 1125899906842624)) (Fin (6 / 1)) (Fin (12 / 1)) true false true ((Fin (961 / 1024)) :: (Fin (1397 / 1024)) :: (Fin (89 / 128)) :: (Fin (8095 / 512)) :: (Fin (69 / 16)) :: (Fin (88505 / 1024)) :: nil)) (1103013987112619 / 35184372088832).
Proof. apply (A02_rio_fin _ (15 / 8)); [reflexivity | apply (A02_q_mid 15 8 1103013987112619 35184372088832); [vm_compute; reflexivity | unfold fr, close, ctol, A02_c, A02_e; interval with (i_prec 80)]]. Qed.
Lemma r_A02_179 : rio_reads A02_c A02_e A02_lo A02_hi floor_volts ctol (Build_rio (Fin (35 / 16)) (Fin (5 / 1)) (Fin (3715469692580659 / 1125899906842624)) (Fin (6 / 1)) (Fin (12 / 1)) true true true ((Fin (0 / 1)) :: (Fin (0 / 1)) :: (Fin (0 / 1)) :: (Fin (0 / 1)) :: (Fin (27 / 4)) :: (Fin (45 / 1)) :: nil)) (1864254160843291 / 70368744177664).
Proof. apply (A02_rio_fin _ (35 / 16)); [reflexivity | apply (A02_q_mid 35 16 1864254160843291 70368744177664); [vm_compute; reflexivity | unfold fr, close, ctol, A02_c, A02_e; interval with (i_prec 80)]]. Qed.
Lemma r_A02_195 : rio_reads A02_c A02_e A02_lo A02_hi floor_volts ctol (Build_rio (Fin (5 / 2)) (Fin ((-12) / 1)) (Fin (12461 / 1024)) NInf (Fin (2825 / 256)) true true true ((Fin (1029 / 1024)) :: (Fin (1845 / 1024)) :: (Fin (97 / 64)) :: (Fin (105473 / 1024)) :: (Fin (6017 / 1024)) :: (Fin ((-11025) / 1024)) :: nil)) (805652797228611 / 35184372088832).
Proof. apply (A02_rio_fin _ (5 / 2)); [reflexivity | apply (A02_q_mid 5 2 805652797228611 35184372088832); [vm_compute; reflexivity | unfold fr, close, ctol, A02_c, A02_e; interval with (i_prec 80)]]. Qed.
Lemma r_A02_211 : rio_reads A02_c A02_e A02_lo A02_hi floor_volts ctol (Build_rio (Fin (725 / 256)) (Fin (5029 / 1024)) (Fin (3145 / 1024)) (Fin ((-1) / 1)) (Fin (10635 / 1024)) true true true ((Fin (2837 / 1024)) :: (Fin (807 / 512)) :: (Fin (577 / 512)) :: (Fin (1241 / 256)) :: (Fin (8017 / 1024)) :: (Fin (31589 / 1024)) :: nil)) (45 / 2).
Proof. apply (A02_rio_fin _ (725 / 256)); [reflexivity | apply (A02_q_lo 725 256 45 2); [vm_compute; reflexivity | unfold fr, ctol, A02_lo, A02_c, A02_e; interval with (i_prec 80)]]. Qed.
Lemma r_A02_227 : rio_reads A02_c A02_e A02_lo A02_hi floor_volts ctol (Build_rio (Fin (805 / 256)) (Fin (5 / 1)) (Fin (3715469692580659 / 1125899906842624)) (Fin (6 / 1)) (Fin (12 / 1)) true true true ((Fin (0 / 1)) :: (Fin (0 / 1)) :: (Fin (0 / 1)) :: (Fin (0 / 1)) :: (Fin (27 / 4)) :: (Fin (45 / 1)) :: nil)) (45 / 2).
Proof. apply (A02_rio_fin _ (805 / 256)); [reflexivity | apply (A02_q_lo 805 256 45 2); [vm_compute; reflexivity | unfold fr, ctol, A02_lo, A02_c, A02_e; interval with (i_prec 80)]]. Qed.
Lemma r_A02_243 : rio_reads A02_c A02_e A02_lo A02_hi floor_volts ctol (Build_rio (Fin (885 / 256)) (Fin (1 / 1)) (Fin (1831 / 512)) (Fin (6721 / 1024)) (Fin (12323 / 1024)) false true true ((Fin (617 / 512)) :: (Fin (1415 / 1024)) :: (Fin (29 / 32)) :: (Fin (15911 / 1024)) :: (Fin (3101 / 1024)) :: (Fin ((-3005) / 256)) :: nil)) (45 / 2).
Proof. apply (A02_rio_fin _ (885 / 256)); [reflexivity | apply (A02_q_lo 885 256 45 2); [vm_compute; reflexivity | unfold fr, ctol, A02_lo, A02_c, A02_e; interval with (i_prec 80)]]. Qed.
Lemma r_A02_259 : rio_reads A02_c A02_e A02_lo A02_hi floor_volts ctol (Build_rio (Fin (965 / 256)) (Fin (2519 / 512)) (Fin (3715469692580659 / 1125899906842624)) (Fin (1651 / 256)) (Fin (9921 / 1024)) true false true ((Fin (145 / 64)) :: (Fin (1101 / 1024)) :: (Fin (27 / 16)) :: (Fin (22807 / 256)) :: (Fin (25 / 8)) :: (Fin ((-5235) / 512)) :: nil)) (45 / 2).
Proof. apply (A02_rio_fin _ (965 / 256)); [reflexivity | apply (A02_q_lo 965 256 45 2); [vm_compute; reflexivity | unfold fr, ctol, A02_lo, A02_c, A02_e; interval with (i_prec 80)]]. Qed.
Lemma r_A02_275 : rio_reads A02_c A02_e A02_lo A02_hi floor_volts ctol (Build_rio (Fin (1045 / 256)) (Fin (5 / 1)) (Fin (3715469692580659 / 1125899906842624)) (Fin (6 / 1)) (Fin (12 / 1)) true true true ((Fin (0 / 1)) :: (Fin (0 / 1)) :: (Fin (0 / 1)) :: (Fin (0 / 1)) :: (Fin (27 / 4)) :: (Fin (45 / 1)) :: nil)) (45 / 2).
Proof. apply (A02_rio_fin _ (1045 / 256)); [reflexivity | apply (A02_q_lo 1045 256 45 2); [vm_compute; reflexivity | unfold fr, ctol, A02_lo, A02_c, A02_e; interval with (i_prec 80)]]. Qed.
Lemma r_A02_291 : rio_reads A02_c A02_e A02_lo A02_hi floor_volts ctol (Build_rio (Fin (1125 / 256)) (Fin (4445 / 1024)) (Fin (4531 / 512)) (Fin (5715 / 1024)) (Fin (12 / 1)) true true false ((Fin (2077 / 1024)) :: (Fin (435 / 512)) :: (Fin (129 / 512)) :: (Fin (19305 / 128)) :: (Fin (777 / 128)) :: (Fin (33025 / 1024)) :: nil)) (45 / 2).
Proof. apply (A02_rio_fin _ (1125 / 256)); [reflexivity | apply (A02_q_lo 1125 256 45 2); [vm_compute; reflexivity | unfold fr, ctol, A02_lo, A02_c, A02_e; interval with (i_prec 80)]]. Qed.
Lemma r_A02_307 : rio_reads A02_c A02_e A02_lo A02_hi floor_volts ctol (Build_rio (Fin (1205 / 256)) (Fin (1239 / 256)) (Fin (359 / 128)) (Fin (8669 / 1024)) (Fin ((-1) / 1)) false true true ((Fin (2485 / 1024)) :: (Fin (1355 / 1024)) :: (Fin (57 / 64)) :: (Fin (18549 / 1024)) :: (Fin (5189 / 1024)) :: (Fin (13561 / 1024)) :: nil)) (45 / 2).
Proof. apply (A02_rio_fin _ (1205 / 256)); [reflexivity | apply (A02_q_lo 1205 256 45 2); [vm_compute; reflexivity | unfold fr, ctol, A02_lo, A02_c, A02_e; interval with (i_prec 80)]]. Qed.
Lemma r_A02_323 : rio_reads A02_c A02_e A02_lo A02_hi floor_volts ctol (Build_rio (Fin (2489915630467119 / 562949953421312)) (Fin (5 / 1)) (Fin (3715469692580659 / 1125899906842624)) (Fin (6 / 1)) (Fin (12 / 1)) true true true ((Fin (0 / 1)) :: (Fin (0 / 1)) :: (Fin (0 / 1)) :: (Fin (0 / 1)) :: (Fin (27 / 4)) :: (Fin (45 / 1)) :: nil)) (45 / 2).
Proof. apply (A02_rio_fin _ (2489915630467119 / 562949953421312)); [reflexivity | apply (A02_q_lo 2489915630467119 562949953421312 45 2); [vm_compute; reflexivity | unfold fr, ctol, A02_lo, A02_c, A02_e; interval with (i_prec 80)]]. Qed.
Lemma r_A02_339 : rio_reads A02_c A02_e A02_lo A02_hi floor_volts ctol (Build_rio (Fin (3120133428271957 / 1125899906842624)) NInf (Fin (3715469692580659 / 1125899906842624)) (Fin (6 / 1)) (Fin (3141 / 256)) true true true ((Fin (1981 / 1024)) :: (Fin (333 / 256)) :: (Fin (3017 / 1024)) :: (Fin (69931 / 1024)) :: (Fin (409 / 64)) :: (Fin (55751 / 1024)) :: nil)) (45 / 2).
Proof. apply (A02_rio_fin _ (3120133428271957 / 1125899906842624)); [reflexivity | apply (A02_q_lo 3120133428271957 1125899906842624 45 2); [vm_compute; reflexivity | unfold fr, ctol, A02_lo, A02_c, A02_e; interval with (i_prec 80)]]. Qed.
Lemma r_A02_355 : rio_reads A02_c A02_e A02_lo A02_hi floor_volts ctol (Build_rio (Fin (900721645814087 / 281474976710656)) (Fin (5 / 1)) (Fin (3707 / 1024)) (Fin (6053 / 1024)) (Fin (14491 / 1024)) true true false ((Fin (141 / 256)) :: (Fin (33 / 1024)) :: (Fin (875 / 512)) :: (Fin (775 / 4)) :: (Fin (3635 / 512)) :: (Fin (18933 / 256)) :: nil)) (45 / 2).
Proof. apply (A02_rio_fin _ (900721645814087 / 281474976710656)); [reflexivity | apply (A02_q_lo 900721645814087 281474976710656 45 2); [vm_compute; reflexivity | unfold fr, ctol, A02_lo, A02_c, A02_e; interval with (i_prec 80)]]. Qed.
Lemma r_A02_371 : rio_reads A02_c A02_e A02_lo A02_hi floor_volts ctol (Build_rio (Fin (1898744575198425 / 4503599627370496)) (Fin (5 / 1)) (Fin (3715469692580659 / 1125899906842624)) (Fin (6 / 1)) (Fin (12 / 1)) true true true ((Fin (0 / 1)) :: (Fin (0 / 1)) :: (Fin (0 / 1)) :: (Fin (0 / 1)) :: (Fin (27 / 4)) :: (Fin (45 / 1)) :: nil)) (145 / 1).
Proof. apply (A02_rio_fin _ (1898744575198425 / 4503599627370496)); [reflexivity | apply (A02_q_hi 1898744575198425 4503599627370496 145 1); [vm_compute; reflexivity | unfold fr, ctol, A02_hi, A02_c, A02_e; interval with (i_prec 80)]]. Qed.
Lemma r_A02_388 : rio_reads A02_c A02_e A02_lo A02_hi floor_volts ctol (Build_rio (Fin (108698681656663 / 1099511627776)) (Fin (1127 / 256)) (Fin ((-1) / 1)) (Fin (6557 / 1024)) (Fin (1395 / 128)) false true false ((Fin (427 / 512)) :: (Fin (647 / 1024)) :: (Fin (1953 / 1024)) :: (Fin (44219 / 1024)) :: (Fin (5971 / 1024)) :: (Fin (47491 / 512)) :: nil)) (45 / 2).
Proof. apply (A02_rio_fin _ (108698681656663 / 1099511627776)); [reflexivity | apply (A02_q_lo 108698681656663 1099511627776 45 2); [vm_compute; reflexivity | unfold fr, ctol, A02_lo, A02_c, A02_e; interval with (i_prec 80)]]. Qed.
Lemma r_A02_407 : rio_reads A02_c A02_e A02_lo A02_hi floor_volts ctol (Build_rio (Fin (2331102289634455 / 281474976710656)) (Fin (5 / 1)) (Fin (3715469692580659 / 1125899906842624)) (Fin (6 / 1)) (Fin (12 / 1)) true true true ((Fin (0 / 1)) :: (Fin (0 / 1)) :: (Fin (0 / 1)) :: (Fin (0 / 1)) :: (Fin (27 / 4)) :: (Fin (45 / 1)) :: nil)) (45 / 2).
Proof. apply (A02_rio_fin _ (2331102289634455 / 281474976710656)); [reflexivity | apply (A02_q_lo 2331102289634455 281474976710656 45 2); [vm_compute; reflexivity | unfold fr, ctol, A02_lo, A02_c, A02_e; interval with (i_prec 80)]]. Qed.
Lemma d_A02_2r : rio_reads A02_c A02_e A02_lo A02_hi floor_volts ctol (Build_rio (Fin (357539307115111 / 140737488355328)) (Fin (2758454771764429 / 562949953421312)) (Fin (3715469692580659 / 1125899906842624)) (Fin (6 / 1)) (Fin (12 / 1)) true true true ((Fin (0 / 1)) :: (Fin (0 / 1)) :: (Fin (0 / 1)) :: (Fin (0 / 1)) :: (Fin (27 / 4)) :: (Fin (45 / 1)) :: nil)) (45 / 2).
Proof. apply (A02_rio_fin _ (357539307115111 / 140737488355328)); [reflexivity | apply (A02_q_lo 357539307115111 140737488355328 45 2); [vm_compute; reflexivity | unfold fr, ctol, A02_lo, A02_c, A02_e; interval with (i_prec 80)]]. Qed.
Lemma d_A02_10r : rio_reads A02_c A02_e A02_lo A02_hi floor_volts ctol (Build_rio (Fin (357539307115111 / 140737488355328)) (Fin ((-1) / 1)) (Fin (3715469692580659 / 1125899906842624)) (Fin (6 / 1)) (Fin (12 / 1)) true true true ((Fin (0 / 1)) :: (Fin (0 / 1)) :: (Fin (0 / 1)) :: (Fin (0 / 1)) :: (Fin (27 / 4)) :: (Fin (45 / 1)) :: nil)) (45 / 2).
Proof. apply (A02_rio_fin _ (357539307115111 / 140737488355328)); [reflexivity | apply (A02_q_lo 357539307115111 140737488355328 45 2); [vm_compute; reflexivity | unfold fr, ctol, A02_lo, A02_c, A02_e; interval with (i_prec 80)]]. Qed.
Lemma d_A02_18r : rio_reads A02_c A02_e A02_lo A02_hi floor_volts ctol (Build_rio (Fin (8308476880671015 / 18014398509481984)) (Fin (5 / 1)) (Fin (3715469692580659 / 1125899906842624)) (Fin (6 / 1)) (Fin (7093169413108531 / 1125899906842624)) true true true ((Fin (0 / 1)) :: (Fin (0 / 1)) :: (Fin (0 / 1)) :: (Fin (0 / 1)) :: (Fin (27 / 4)) :: (Fin (45 / 1)) :: nil)) (145 / 1).
Proof. apply (A02_rio_fin _ (8308476880671015 / 18014398509481984)); [reflexivity | apply (A02_q_hi 8308476880671015 18014398509481984 145 1); [vm_compute; reflexivity | unfold fr, ctol, A02_hi, A02_c, A02_e; interval with (i_prec 80)]]. Qed.
Lemma d_A02_26r : rio_reads A02_c A02_e A02_lo A02_hi floor_volts ctol (Build_rio (Fin (357539307115111 / 140737488355328)) (Fin (5 / 1)) (Fin (3715469692580659 / 1125899906842624)) (Fin (6 / 1)) PInf true true true ((Fin (0 / 1)) :: (Fin (0 / 1)) :: (Fin (0 / 1)) :: (Fin (0 / 1)) :: (Fin (27 / 4)) :: (Fin (45 / 1)) :: nil)) (45 / 2).
Proof. apply (A02_rio_fin _ (357539307115111 / 140737488355328)); [reflexivity | apply (A02_q_lo 357539307115111 140737488355328 45 2); [vm_compute; reflexivity | unfold fr, ctol, A02_lo, A02_c, A02_e; interval with (i_prec 80)]]. Qed.
Lemma d_A02_34r : rio_reads A02_c A02_e A02_lo A02_hi floor_volts ctol (Build_rio (Fin (2330035404855731 / 2251799813685248)) (Fin (5 / 1)) (Fin (3715469692580659 / 1125899906842624)) (Fin (11 / 2)) (Fin (12 / 1)) true true true ((Fin (0 / 1)) :: (Fin (0 / 1)) :: (Fin (0 / 1)) :: (Fin (0 / 1)) :: (Fin (27 / 4)) :: (Fin (45 / 1)) :: nil)) (60 / 1).
Proof. apply (A02_rio_fin _ (2330035404855731 / 2251799813685248)); [reflexivity | apply (A02_q_mid 2330035404855731 2251799813685248 60 1); [vm_compute; reflexivity | unfold fr, close, ctol, A02_c, A02_e; interval with (i_prec 80)]]. Qed.
Lemma d_A02_42r : rio_reads A02_c A02_e A02_lo A02_hi floor_volts ctol (Build_rio (Fin (357539307115111 / 140737488355328)) (Fin (5 / 1)) (Fin (3715469692580659 / 1125899906842624)) (Fin (6 / 1)) (Fin (12 / 1)) true true false ((Fin (0 / 1)) :: (Fin (0 / 1)) :: (Fin (0 / 1)) :: (Fin (0 / 1)) :: (Fin (27 / 4)) :: (Fin (45 / 1)) :: nil)) (45 / 2).
Proof. apply (A02_rio_fin _ (357539307115111 / 140737488355328)); [reflexivity | apply (A02_q_lo 357539307115111 140737488355328 45 2); [vm_compute; reflexivity | unfold fr, ctol, A02_lo, A02_c, A02_e; interval with (i_prec 80)]]. Qed.
Lemma d_A02_50r : rio_reads A02_c A02_e A02_lo A02_hi floor_volts ctol (Build_rio (Fin (178769653393847 / 70368744177664)) (Fin (5 / 1)) (Fin (3715469692580659 / 1125899906842624)) (Fin (6 / 1)) (Fin (12 / 1)) true true true ((Fin (0 / 1)) :: (Fin (0 / 1)) :: (Fin (0 / 1)) :: (Fin (0 / 1)) :: (Fin (25 / 4)) :: (Fin (45 / 1)) :: nil)) (1583296745580737 / 70368744177664).
Proof. apply (A02_rio_fin _ (178769653393847 / 70368744177664)); [reflexivity | apply (A02_q_mid 178769653393847 70368744177664 1583296745580737 70368744177664); [vm_compute; reflexivity | unfold fr, close, ctol, A02_c, A02_e; interval with (i_prec 80)]]. Qed.
Lemma d_A02_59u : close ctol (5380644841798657 / 2251799813685248) (volts_A02 (1692855302603187 / 70368744177664)).
Proof. apply (A02_q_volts_mid 1692855302603187 70368744177664 5380644841798657 2251799813685248); [vm_compute; reflexivity | unfold fr, close, ctol, A02_lo, A02_hi, A02_c, A02_e; interval with (i_prec 80)]. Qed.
Lemma d_A02_72u : close ctol (2307734781178935 / 4503599627370496) (volts_A02 (4547646353728907 / 35184372088832)).
Proof. apply (A02_q_volts_mid 4547646353728907 35184372088832 2307734781178935 4503599627370496); [vm_compute; reflexivity | unfold fr, close, ctol, A02_lo, A02_hi, A02_c, A02_e; interval with (i_prec 80)]. Qed.
Lemma d_A02_84r : rio_reads A02_c A02_e A02_lo A02_hi floor_volts ctol (Build_rio (Fin (2657911355101463 / 4503599627370496)) (Fin (5365 / 1024)) (Fin (3715469692580659 / 1125899906842624)) (Fin (1 / 1)) (Fin (12 / 1)) true false true ((Fin (1631 / 1024)) :: (Fin (827 / 512)) :: (Fin (347 / 128)) :: (Fin (73923 / 1024)) :: (Fin (1477 / 256)) :: (Fin (757 / 512)) :: nil)) (7795024066255357 / 70368744177664).
Proof. apply (A02_rio_fin _ (2657911355101463 / 4503599627370496)); [reflexivity | apply (A02_q_mid 2657911355101463 4503599627370496 7795024066255357 70368744177664); [vm_compute; reflexivity | unfold fr, close, ctol, A02_c, A02_e; interval with (i_prec 80)]]. Qed.
Lemma d_A02_97u : close ctol (357539307115111 / 140737488355328) (volts_A02 (2816911487806553 / 140737488355328)).
Proof. apply (A02_q_volts_lo 2816911487806553 140737488355328 357539307115111 140737488355328); [vm_compute; reflexivity | unfold fr, close, ctol, A02_lo, A02_hi, A02_c, A02_e; interval with (i_prec 80)]. Qed.
Lemma d_A02_110u : close ctol (4890156557959075 / 9007199254740992) (volts_A02 (8538861630681047 / 70368744177664)).
Proof. apply (A02_q_volts_mid 8538861630681047 70368744177664 4890156557959075 9007199254740992); [vm_compute; reflexivity | unfold fr, close, ctol, A02_lo, A02_hi, A02_c, A02_e; interval with (i_prec 80)]. Qed.
Lemma d_A02_123u : close ctol (4815463917299347 / 9007199254740992) (volts_A02 (4341797823383681 / 35184372088832)).
Proof. apply (A02_q_volts_mid 4341797823383681 35184372088832 4815463917299347 9007199254740992); [vm_compute; reflexivity | unfold fr, close, ctol, A02_lo, A02_hi, A02_c, A02_e; interval with (i_prec 80)]. Qed.
Lemma d_A02_136u : close ctol (357539307115111 / 140737488355328) (volts_A02 (1572550515779319 / 140737488355328)).
Proof. apply (A02_q_volts_lo 1572550515779319 140737488355328 357539307115111 140737488355328); [vm_compute; reflexivity | unfold fr, close, ctol, A02_lo, A02_hi, A02_c, A02_e; interval with (i_prec 80)]. Qed.
Lemma d_A02_148r : rio_reads A02_c A02_e A02_lo A02_hi floor_volts ctol (Build_rio (Fin (8308476880671015 / 18014398509481984)) (Fin (317 / 64)) (Fin (37 / 32)) (Fin (6069 / 1024)) (Fin (2995 / 256)) false true true ((Fin (2545 / 1024)) :: (Fin (93 / 512)) :: (Fin (617 / 1024)) :: (Fin (86541 / 1024)) :: (Fin (8945 / 1024)) :: (Fin (64627 / 1024)) :: nil)) (145 / 1).
Proof. apply (A02_rio_fin _ (8308476880671015 / 18014398509481984)); [reflexivity | apply (A02_q_hi 8308476880671015 18014398509481984 145 1); [vm_compute; reflexivity | unfold fr, ctol, A02_hi, A02_c, A02_e; interval with (i_prec 80)]]. Qed.
Lemma d_A02_161u : close ctol (357539307115111 / 140737488355328) (volts_A02 (1517826149896231 / 281474976710656)).
Proof. apply (A02_q_volts_lo 1517826149896231 281474976710656 357539307115111 140737488355328); [vm_compute; reflexivity | unfold fr, close, ctol, A02_lo, A02_hi, A02_c, A02_e; interval with (i_prec 80)]. Qed.
Lemma d_A02_174u : close ctol (2523003190763381 / 1125899906842624) (volts_A02 (907908191928679 / 35184372088832)).
Proof. apply (A02_q_volts_mid 907908191928679 35184372088832 2523003190763381 1125899906842624); [vm_compute; reflexivity | unfold fr, close, ctol, A02_lo, A02_hi, A02_c, A02_e; interval with (i_prec 80)]. Qed.
Lemma d_A02_187u : close ctol (6178350019360347 / 9007199254740992) (volts_A02 (94 / 1)).
Proof. apply (A02_q_volts_mid 94 1 6178350019360347 9007199254740992); [vm_compute; reflexivity | unfold fr, close, ctol, A02_lo, A02_hi, A02_c, A02_e; interval with (i_prec 80)]. Qed.
Lemma d_A02_200u : close ctol (8630979334152237 / 18014398509481984) (volts_A02 (2446964076672651 / 17592186044416)).
Proof. apply (A02_q_volts_mid 2446964076672651 17592186044416 8630979334152237 18014398509481984); [vm_compute; reflexivity | unfold fr, close, ctol, A02_lo, A02_hi, A02_c, A02_e; interval with (i_prec 80)]. Qed.
Lemma d_A02_212r : rio_reads A02_c A02_e A02_lo A02_hi floor_volts ctol (Build_rio (Fin (5013903312258455 / 9007199254740992)) (Fin (4409 / 1024)) (Fin (3715469692580659 / 1125899906842624)) (Fin (6307 / 1024)) (Fin (2187 / 1024)) true false true ((Fin (115 / 128)) :: (Fin (979 / 512)) :: (Fin (475 / 256)) :: (Fin (17 / 128)) :: (Fin (1537 / 256)) :: (Fin (3769 / 64)) :: nil)) (8308991043793959 / 70368744177664).
Proof. apply (A02_rio_fin _ (5013903312258455 / 9007199254740992)); [reflexivity | apply (A02_q_mid 5013903312258455 9007199254740992 8308991043793959 70368744177664); [vm_compute; reflexivity | unfold fr, close, ctol, A02_c, A02_e; interval with (i_prec 80)]]. Qed.
Lemma d_A02_225u : close ctol (2750790825065087 / 4503599627370496) (volts_A02 (7508064846195613 / 70368744177664)).
Proof. apply (A02_q_volts_mid 7508064846195613 70368744177664 2750790825065087 4503599627370496); [vm_compute; reflexivity | unfold fr, close, ctol, A02_lo, A02_hi, A02_c, A02_e; interval with (i_prec 80)]. Qed.
Lemma d_A02_238u : close ctol (8308476880671015 / 18014398509481984) (volts_A02 (5752243969754217 / 35184372088832)).
Proof. apply (A02_q_volts_hi 5752243969754217 35184372088832 8308476880671015 18014398509481984); [vm_compute; reflexivity | unfold fr, close, ctol, A02_lo, A02_hi, A02_c, A02_e; interval with (i_prec 80)]. Qed.
Lemma d_A02_251u : close ctol (6777159523813807 / 9007199254740992) (volts_A02 (1494776786027563 / 17592186044416)).
Proof. apply (A02_q_volts_mid 1494776786027563 17592186044416 6777159523813807 9007199254740992); [vm_compute; reflexivity | unfold fr, close, ctol, A02_lo, A02_hi, A02_c, A02_e; interval with (i_prec 80)]. Qed.
Lemma d_A02_264u : close ctol (357539307115111 / 140737488355328) (volts_A02 (6814141097399637 / 72057594037927936)).
Proof. apply (A02_q_volts_lo 6814141097399637 72057594037927936 357539307115111 140737488355328); [vm_compute; reflexivity | unfold fr, close, ctol, A02_lo, A02_hi, A02_c, A02_e; interval with (i_prec 80)]. Qed.
Lemma d_A02_276r : rio_reads A02_c A02_e A02_lo A02_hi floor_volts ctol (Build_rio (Fin (3158904807908817 / 4503599627370496)) (Fin (2079 / 512)) (Fin (2913 / 256)) (Fin (5902958103587057 / 590295810358705651712)) (Fin (12997 / 1024)) true true true ((Fin (1279 / 512)) :: (Fin (107 / 256)) :: (Fin (1029 / 512)) :: (Fin (137049 / 1024)) :: (Fin (3177 / 512)) :: (Fin (36419 / 512)) :: nil)) (6455379486170655 / 70368744177664).
Proof. apply (A02_rio_fin _ (3158904807908817 / 4503599627370496)); [reflexivity | apply (A02_q_mid 3158904807908817 4503599627370496 6455379486170655 70368744177664); [vm_compute; reflexivity | unfold fr, close, ctol, A02_c, A02_e; interval with (i_prec 80)]]. Qed.
Lemma d_A02_289u : close ctol (357539307115111 / 140737488355328) (volts_A02 (2548914235595229 / 140737488355328)).
Proof. apply (A02_q_volts_lo 2548914235595229 140737488355328 357539307115111 140737488355328); [vm_compute; reflexivity | unfold fr, close, ctol, A02_lo, A02_hi, A02_c, A02_e; interval with (i_prec 80)]. Qed.
Lemma d_A02_302u : close ctol (5236556417753361 / 9007199254740992) (volts_A02 (3961981456196947 / 35184372088832)).
Proof. apply (A02_q_volts_mid 3961981456196947 35184372088832 5236556417753361 9007199254740992); [vm_compute; reflexivity | unfold fr, close, ctol, A02_lo, A02_hi, A02_c, A02_e; interval with (i_prec 80)]. Qed.
Lemma d_A02_315u : close ctol (5707642755750379 / 9007199254740992) (volts_A02 (3606281560372379 / 35184372088832)).
Proof. apply (A02_q_volts_mid 3606281560372379 35184372088832 5707642755750379 9007199254740992); [vm_compute; reflexivity | unfold fr, close, ctol, A02_lo, A02_hi, A02_c, A02_e; interval with (i_prec 80)]. Qed.
Lemma d_A02_328u : close ctol (8371902246227743 / 4503599627370496) (volts_A02 (4453707627531881 / 140737488355328)).
Proof. apply (A02_q_volts_mid 4453707627531881 140737488355328 8371902246227743 4503599627370496); [vm_compute; reflexivity | unfold fr, close, ctol, A02_lo, A02_hi, A02_c, A02_e; interval with (i_prec 80)]. Qed.
Lemma d_A02_340r : rio_reads A02_c A02_e A02_lo A02_hi floor_volts ctol (Build_rio (Fin (3861158167951263 / 4503599627370496)) (Fin (5 / 1)) (Fin (1443 / 512)) (Fin (2483 / 512)) (Fin (11315 / 1024)) true true false ((Fin (291 / 1024)) :: (Fin (963 / 512)) :: (Fin (3025 / 1024)) :: (Fin (127645 / 1024)) :: (Fin (8575 / 1024)) :: (Fin ((-7507) / 1024)) :: nil)) (648082180494933 / 8796093022208).
Proof. apply (A02_rio_fin _ (3861158167951263 / 4503599627370496)); [reflexivity | apply (A02_q_mid 3861158167951263 4503599627370496 648082180494933 8796093022208); [vm_compute; reflexivity | unfold fr, close, ctol, A02_c, A02_e; interval with (i_prec 80)]]. Qed.
Lemma d_A02_353u : close ctol (8181902282431967 / 4503599627370496) (volts_A02 (4566766336187339 / 140737488355328)).
Proof. apply (A02_q_volts_mid 4566766336187339 140737488355328 8181902282431967 4503599627370496); [vm_compute; reflexivity | unfold fr, close, ctol, A02_lo, A02_hi, A02_c, A02_e; interval with (i_prec 80)]. Qed.
Lemma d_A02_366u : close ctol (357539307115111 / 140737488355328) (volts_A02 (194958504446303 / 281474976710656)).
Proof. apply (A02_q_volts_lo 194958504446303 281474976710656 357539307115111 140737488355328); [vm_compute; reflexivity | unfold fr, close, ctol, A02_lo, A02_hi, A02_c, A02_e; interval with (i_prec 80)]. Qed.
Lemma d_A02_379u : close ctol (4635195881329717 / 4503599627370496) (volts_A02 (8493746937057987 / 140737488355328)).
Proof. apply (A02_q_volts_mid 8493746937057987 140737488355328 4635195881329717 4503599627370496); [vm_compute; reflexivity | unfold fr, close, ctol, A02_lo, A02_hi, A02_c, A02_e; interval with (i_prec 80)]. Qed.
Lemma d_A02_392u : close ctol (4356322768554865 / 9007199254740992) (volts_A02 (4843857331943547 / 35184372088832)).
Proof. apply (A02_q_volts_mid 4843857331943547 35184372088832 4356322768554865 9007199254740992); [vm_compute; reflexivity | unfold fr, close, ctol, A02_lo, A02_hi, A02_c, A02_e; interval with (i_prec 80)]. Qed.
Lemma d_A02_404r : rio_reads A02_c A02_e A02_lo A02_hi floor_volts ctol (Build_rio (Fin (5738075732631321 / 4503599627370496)) (Fin (2187 / 512)) PInf (Fin (6 / 1)) (Fin (3043 / 256)) true true true ((Fin (7 / 8)) :: (Fin (3 / 256)) :: (Fin (1395 / 512)) :: (Fin (140635 / 1024)) :: (Fin (8465 / 1024)) :: (Fin (37237 / 512)) :: nil)) (6727797336872083 / 140737488355328).
Proof. apply (A02_rio_fin _ (5738075732631321 / 4503599627370496)); [reflexivity | apply (A02_q_mid 5738075732631321 4503599627370496 6727797336872083 140737488355328); [vm_compute; reflexivity | unfold fr, close, ctol, A02_c, A02_e; interval with (i_prec 80)]]. Qed.
Lemma d_A02_417u : close ctol (7515783967965831 / 4503599627370496) (volts_A02 (1252626974428555 / 35184372088832)).
Proof. apply (A02_q_volts_mid 1252626974428555 35184372088832 7515783967965831 4503599627370496); [vm_compute; reflexivity | unfold fr, close, ctol, A02_lo, A02_hi, A02_c, A02_e; interval with (i_prec 80)]. Qed.
Lemma d_A02_430u : close ctol (981171190385549 / 562949953421312) (volts_A02 (298652474317237 / 8796093022208)).
Proof. apply (A02_q_volts_mid 298652474317237 8796093022208 981171190385549 562949953421312); [vm_compute; reflexivity | unfold fr, close, ctol, A02_lo, A02_hi, A02_c, A02_e; interval with (i_prec 80)]. Qed.
Lemma d_A02_443u : close ctol (92830338049731 / 70368744177664) (volts_A02 (3238543545161275 / 70368744177664)).
Proof. apply (A02_q_volts_mid 3238543545161275 70368744177664 92830338049731 70368744177664); [vm_compute; reflexivity | unfold fr, close, ctol, A02_lo, A02_hi, A02_c, A02_e; interval with (i_prec 80)]. Qed.
Lemma d_A02_456u : close ctol (357539307115111 / 140737488355328) (volts_A02 ((-5065308800661327) / 1125899906842624)).
Proof. apply (A02_q_volts_lo (-5065308800661327) 1125899906842624 357539307115111 140737488355328); [vm_compute; reflexivity | unfold fr, close, ctol, A02_lo, A02_hi, A02_c, A02_e; interval with (i_prec 80)]. Qed.
Lemma d_A02_468r : rio_reads A02_c A02_e A02_lo A02_hi floor_volts ctol (Build_rio (Fin (5606639639729965 / 2251799813685248)) (Fin (5 / 1)) (Fin (1707 / 512)) (Fin (5379 / 1024)) (Fin (11249 / 1024)) true true false ((Fin (105 / 256)) :: (Fin (291 / 256)) :: (Fin (1295 / 1024)) :: (Fin (23695 / 1024)) :: (Fin (7699 / 1024)) :: (Fin (18341 / 256)) :: nil)) (23 / 1).
Proof. apply (A02_rio_fin _ (5606639639729965 / 2251799813685248)); [reflexivity | apply (A02_q_mid 5606639639729965 2251799813685248 23 1); [vm_compute; reflexivity | unfold fr, close, ctol, A02_c, A02_e; interval with (i_prec 80)]]. Qed.
Lemma d_A02_481u : close ctol (8202126413410997 / 9007199254740992) (volts_A02 (1213592124614229 / 17592186044416)).
Proof. apply (A02_q_volts_mid 1213592124614229 17592186044416 8202126413410997 9007199254740992); [vm_compute; reflexivity | unfold fr, close, ctol, A02_lo, A02_hi, A02_c, A02_e; interval with (i_prec 80)]. Qed.
Lemma d_A02_494u : close ctol (4685252010957015 / 9007199254740992) (volts_A02 (8947465774490371 / 70368744177664)).
Proof. apply (A02_q_volts_mid 8947465774490371 70368744177664 4685252010957015 9007199254740992); [vm_compute; reflexivity | unfold fr, close, ctol, A02_lo, A02_hi, A02_c, A02_e; interval with (i_prec 80)]. Qed.
Lemma d_A02_507u : close ctol (2093231124516307 / 4503599627370496) (volts_A02 (632358456848261 / 4398046511104)).
Proof. apply (A02_q_volts_mid 632358456848261 4398046511104 2093231124516307 4503599627370496); [vm_compute; reflexivity | unfold fr, close, ctol, A02_lo, A02_hi, A02_c, A02_e; interval with (i_prec 80)]. Qed.
Lemma d_A02_520u : close ctol (8071594375877171 / 9007199254740992) (volts_A02 (2470079040209305 / 35184372088832)).
Proof. apply (A02_q_volts_mid 2470079040209305 35184372088832 8071594375877171 9007199254740992); [vm_compute; reflexivity | unfold fr, close, ctol, A02_lo, A02_hi, A02_c, A02_e; interval with (i_prec 80)]. Qed.
Lemma d_A02_532r : rio_reads A02_c A02_e A02_lo A02_hi floor_volts ctol (Build_rio (Fin (357539307115111 / 140737488355328)) (Fin (5 / 1)) (Fin (5902958103587057 / 590295810358705651712)) (Fin (837 / 128)) (Fin (3213 / 256)) true true true ((Fin (523 / 1024)) :: (Fin (285 / 512)) :: (Fin (807 / 1024)) :: (Fin (117851 / 1024)) :: (Fin (6205 / 1024)) :: (Fin (76495 / 1024)) :: nil)) (45 / 2).
Proof. apply (A02_rio_fin _ (357539307115111 / 140737488355328)); [reflexivity | apply (A02_q_lo 357539307115111 140737488355328 45 2); [vm_compute; reflexivity | unfold fr, ctol, A02_lo, A02_c, A02_e; interval with (i_prec 80)]]. Qed.
Lemma d_A02_545u : close ctol (4624882383589577 / 9007199254740992) (volts_A02 (1134385039211849 / 8796093022208)).
Proof. apply (A02_q_volts_mid 1134385039211849 8796093022208 4624882383589577 9007199254740992); [vm_compute; reflexivity | unfold fr, close, ctol, A02_lo, A02_hi, A02_c, A02_e; interval with (i_prec 80)]. Qed.
Lemma d_A02_558u : close ctol (5473904523717399 / 4503599627370496) (volts_A02 (1770782088166203 / 35184372088832)).
Proof. apply (A02_q_volts_mid 1770782088166203 35184372088832 5473904523717399 4503599627370496); [vm_compute; reflexivity | unfold fr, close, ctol, A02_lo, A02_hi, A02_c, A02_e; interval with (i_prec 80)]. Qed.
Lemma d_A02_571u : close ctol (602167727250213 / 1125899906842624) (volts_A02 (4339949620652935 / 35184372088832)).
Proof. apply (A02_q_volts_mid 4339949620652935 35184372088832 602167727250213 1125899906842624); [vm_compute; reflexivity | unfold fr, close, ctol, A02_lo, A02_hi, A02_c, A02_e; interval with (i_prec 80)]. Qed.
Lemma d_A02_584u : close ctol (357539307115111 / 140737488355328) (volts_A02 (9 / 1)).
Proof. apply (A02_q_volts_lo 9 1 357539307115111 140737488355328); [vm_compute; reflexivity | unfold fr, close, ctol, A02_lo, A02_hi, A02_c, A02_e; interval with (i_prec 80)]. Qed.
Lemma d_A02_596r : rio_reads A02_c A02_e A02_lo A02_hi floor_volts ctol (Build_rio (Fin (8308476880671015 / 18014398509481984)) (Fin (5 / 1)) (Fin (215 / 64)) (Fin (2907 / 512)) (Fin ((-1) / 1)) true false false ((Fin (269 / 512)) :: (Fin (23 / 16)) :: (Fin (127 / 256)) :: (Fin (139295 / 1024)) :: (Fin (4861 / 1024)) :: (Fin (50253 / 512)) :: nil)) (145 / 1).
Proof. apply (A02_rio_fin _ (8308476880671015 / 18014398509481984)); [reflexivity | apply (A02_q_hi 8308476880671015 18014398509481984 145 1); [vm_compute; reflexivity | unfold fr, ctol, A02_hi, A02_c, A02_e; interval with (i_prec 80)]]. Qed.
Lemma d_A02_609u : close ctol (2557293695681119 / 4503599627370496) (volts_A02 (8130537445001445 / 70368744177664)).
Proof. apply (A02_q_volts_mid 8130537445001445 70368744177664 2557293695681119 4503599627370496); [vm_compute; reflexivity | unfold fr, close, ctol, A02_lo, A02_hi, A02_c, A02_e; interval with (i_prec 80)]. Qed.
Lemma d_A02_622u : close ctol (7454502015178625 / 9007199254740992) (volts_A02 (673549154732013 / 8796093022208)).
Proof. apply (A02_q_volts_mid 673549154732013 8796093022208 7454502015178625 9007199254740992); [vm_compute; reflexivity | unfold fr, close, ctol, A02_lo, A02_hi, A02_c, A02_e; interval with (i_prec 80)]. Qed.
Lemma d_A02_635u : close ctol (8308476880671015 / 18014398509481984) (volts_A02 (5847459889423187 / 35184372088832)).
Proof. apply (A02_q_volts_hi 5847459889423187 35184372088832 8308476880671015 18014398509481984); [vm_compute; reflexivity | unfold fr, close, ctol, A02_lo, A02_hi, A02_c, A02_e; interval with (i_prec 80)]. Qed.
Lemma d_A02_648u : close ctol (5344078696121663 / 2251799813685248) (volts_A02 (3411016121513453 / 140737488355328)).
Proof. apply (A02_q_volts_mid 3411016121513453 140737488355328 5344078696121663 2251799813685248); [vm_compute; reflexivity | unfold fr, close, ctol, A02_lo, A02_hi, A02_c, A02_e; interval with (i_prec 80)]. Qed.
Lemma d_A02_660r : rio_reads A02_c A02_e A02_lo A02_hi floor_volts ctol (Build_rio (Fin (5376659751656007 / 2251799813685248)) (Fin (5395 / 1024)) (Fin (2991 / 1024)) PInf (Fin (10105 / 1024)) true true false ((Fin (1023 / 512)) :: (Fin (17 / 16)) :: (Fin (2489 / 1024)) :: (Fin (42949 / 1024)) :: (Fin (1685 / 512)) :: (Fin (29889 / 1024)) :: nil)) (423556374792887 / 17592186044416).
Proof. apply (A02_rio_fin _ (5376659751656007 / 2251799813685248)); [reflexivity | apply (A02_q_mid 5376659751656007 2251799813685248 423556374792887 17592186044416); [vm_compute; reflexivity | unfold fr, close, ctol, A02_c, A02_e; interval with (i_prec 80)]]. Qed.
Lemma r_A21_432 : rio_reads A21_c A21_e A21_lo A21_hi floor_volts ctol (Build_rio (Fin (5559999489923579 / 4503599627370496)) (Fin (5854679515581645 / 1125899906842624)) (Fin (3715469692580659 / 1125899906842624)) (Fin (6 / 1)) (Fin (12 / 1)) true true true ((Fin (0 / 1)) :: (Fin (0 / 1)) :: (Fin (0 / 1)) :: (Fin (0 / 1)) :: (Fin (27 / 4)) :: (Fin (45 / 1)) :: nil)) (5749786070656609 / 281474976710656).
Proof. apply (A21_rio_fin _ (5559999489923579 / 4503599627370496)); [reflexivity | apply (A21_q_mid 5559999489923579 4503599627370496 5749786070656609 281474976710656); [vm_compute; reflexivity | unfold fr, close, ctol, A21_c, A21_e; interval with (i_prec 80)]]. Qed.
Lemma r_A21_465 : rio_reads A21_c A21_e A21_lo A21_hi floor_volts ctol (Build_rio (Fin (1825943775682925 / 4503599627370496)) (Fin (5 / 1)) (Fin (3715469692580659 / 1125899906842624)) (Fin (5 / 1)) (Fin (12 / 1)) true true true ((Fin (0 / 1)) :: (Fin (0 / 1)) :: (Fin (0 / 1)) :: (Fin (0 / 1)) :: (Fin (27 / 4)) :: (Fin (45 / 1)) :: nil)) (5629499534213119 / 70368744177664).
Proof. apply (A21_rio_fin _ (1825943775682925 / 4503599627370496)); [reflexivity | apply (A21_q_mid 1825943775682925 4503599627370496 5629499534213119 70368744177664); [vm_compute; reflexivity | unfold fr, close, ctol, A21_c, A21_e; interval with (i_prec 80)]]. Qed.
Lemma r_A21_481 : rio_reads A21_c A21_e A21_lo A21_hi floor_volts ctol (Build_rio (Fin (835 / 2048)) (Fin (5 / 1)) (Fin (3715469692580659 / 1125899906842624)) (Fin (6 / 1)) (Fin (12 / 1)) true true true ((Fin (0 / 1)) :: (Fin (0 / 1)) :: (Fin (0 / 1)) :: (Fin (0 / 1)) :: (Fin (13 / 1)) :: (Fin (45 / 1)) :: nil)) (1397757941440939 / 17592186044416).
Proof. apply (A21_rio_fin _ (835 / 2048)); [reflexivity | apply (A21_q_mid 835 2048 1397757941440939 17592186044416); [vm_compute; reflexivity | unfold fr, close, ctol, A21_c, A21_e; interval with (i_prec 80)]]. Qed.
Lemma r_A21_497 : rio_reads A21_c A21_e A21_lo A21_hi floor_volts ctol (Build_rio (Fin (35 / 256)) (Fin (5 / 1)) (Fin (1363 / 512)) (Fin (2495 / 512)) (Fin (1453 / 128)) false true true ((Fin (717 / 1024)) :: (Fin (999 / 1024)) :: (Fin (2099 / 1024)) :: (Fin (3663 / 256)) :: (Fin (6553 / 1024)) :: (Fin (4839 / 128)) :: nil)) (80 / 1).
Proof. apply (A21_rio_fin _ (35 / 256)); [reflexivity | apply (A21_q_hi 35 256 80 1); [vm_compute; reflexivity | unfold fr, ctol, A21_hi, A21_c, A21_e; interval with (i_prec 80)]]. Qed.
Lemma r_A21_513 : rio_reads A21_c A21_e A21_lo A21_hi floor_volts ctol (Build_rio (Fin (115 / 256)) (Fin (5 / 1)) (Fin (3715469692580659 / 1125899906842624)) (Fin (6 / 1)) (Fin (12 / 1)) true true true ((Fin (0 / 1)) :: (Fin (0 / 1)) :: (Fin (0 / 1)) :: (Fin (0 / 1)) :: (Fin (27 / 4)) :: (Fin (45 / 1)) :: nil)) (4964502141289199 / 70368744177664).
Proof. apply (A21_rio_fin _ (115 / 256)); [reflexivity | apply (A21_q_mid 115 256 4964502141289199 70368744177664); [vm_compute; reflexivity | unfold fr, close, ctol, A21_c, A21_e; interval with (i_prec 80)]]. Qed.
Lemma r_A21_529 : rio_reads A21_c A21_e A21_lo A21_hi floor_volts ctol (Build_rio (Fin (195 / 256)) NInf (Fin (3013 / 1024)) (Fin (3131 / 512)) (Fin (2621 / 256)) true false false ((Fin (2385 / 1024)) :: (Fin (205 / 128)) :: (Fin (517 / 1024)) :: (Fin (8275 / 512)) :: (Fin (805 / 128)) :: (Fin ((-3529) / 256)) :: nil)) (5196833667061299 / 140737488355328).
Proof. apply (A21_rio_fin _ (195 / 256)); [reflexivity | apply (A21_q_mid 195 256 5196833667061299 140737488355328); [vm_compute; reflexivity | unfold fr, close, ctol, A21_c, A21_e; interval with (i_prec 80)]]. Qed.
Lemma r_A21_545 : rio_reads A21_c A21_e A21_lo A21_hi floor_volts ctol (Build_rio (Fin (275 / 256)) (Fin (0 / 1)) (Fin (1833 / 512)) (Fin (1 / 1)) (Fin (11637 / 1024)) true false false ((Fin (499 / 512)) :: (Fin (115 / 256)) :: (Fin (2951 / 1024)) :: (Fin (32883 / 512)) :: (Fin (3243 / 512)) :: (Fin (25393 / 256)) :: nil)) (3409568088487379 / 140737488355328).
Proof. apply (A21_rio_fin _ (275 / 256)); [reflexivity | apply (A21_q_mid 275 256 3409568088487379 140737488355328); [vm_compute; reflexivity | unfold fr, close, ctol, A21_c, A21_e; interval with (i_prec 80)]]. Qed.
Lemma r_A21_561 : rio_reads A21_c A21_e A21_lo A21_hi floor_volts ctol (Build_rio (Fin (355 / 256)) (Fin (5 / 1)) (Fin (3715469692580659 / 1125899906842624)) (Fin (6 / 1)) (Fin (12 / 1)) true true true ((Fin (0 / 1)) :: (Fin (0 / 1)) :: (Fin (0 / 1)) :: (Fin (0 / 1)) :: (Fin (27 / 4)) :: (Fin (45 / 1)) :: nil)) (4986218263470045 / 281474976710656).
Proof. apply (A21_rio_fin _ (355 / 256)); [reflexivity | apply (A21_q_mid 355 256 4986218263470045 281474976710656); [vm_compute; reflexivity | unfold fr, close, ctol, A21_c, A21_e; interval with (i_prec 80)]]. Qed.
Lemma r_A21_577 : rio_reads A21_c A21_e A21_lo A21_hi floor_volts ctol (Build_rio (Fin (435 / 256)) (Fin (4659 / 1024)) (Fin (3213 / 1024)) (Fin (1 / 202402253307310618352495346718917307049556649764142118356901358027430339567995346891960383701437124495187077864316811911389808737385793476867013399940738509921517424276566361364466907742093216341239767678472745068562007483424692698618103355649159556340810056512358769552333414615230502532186327508646006263307707741093494784)) (Fin (5902958103587057 / 590295810358705651712)) true true false ((Fin (163 / 1024)) :: (Fin (1777 / 1024)) :: (Fin (593 / 1024)) :: (Fin (88965 / 512)) :: (Fin (131 / 16)) :: (Fin (5791 / 1024)) :: nil)) (485817807774437 / 35184372088832).
Proof. apply (A21_rio_fin _ (435 / 256)); [reflexivity | apply (A21_q_mid 435 256 485817807774437 35184372088832); [vm_compute; reflexivity | unfold fr, close, ctol, A21_c, A21_e; interval with (i_prec 80)]]. Qed.
Lemma r_A21_593 : rio_reads A21_c A21_e A21_lo A21_hi floor_volts ctol (Build_rio (Fin (515 / 256)) (Fin (5211 / 1024)) (Fin (3309 / 1024)) (Fin (8891 / 1024)) (Fin (10631 / 1024)) true false true ((Fin (1673 / 1024)) :: (Fin (675 / 1024)) :: (Fin (1 / 32)) :: (Fin (23843 / 128)) :: (Fin (479 / 128)) :: (Fin (74739 / 1024)) :: nil)) (3159916329023433 / 281474976710656).
Proof. apply (A21_rio_fin _ (515 / 256)); [reflexivity | apply (A21_q_mid 515 256 3159916329023433 281474976710656); [vm_compute; reflexivity | unfold fr, close, ctol, A21_c, A21_e; interval with (i_prec 80)]]. Qed.
Lemma r_A21_609 : rio_reads A21_c A21_e A21_lo A21_hi floor_volts ctol (Build_rio (Fin (595 / 256)) (Fin (5 / 1)) (Fin (3715469692580659 / 1125899906842624)) (Fin (6 / 1)) (Fin (12 / 1)) true true true ((Fin (0 / 1)) :: (Fin (0 / 1)) :: (Fin (0 / 1)) :: (Fin (0 / 1)) :: (Fin (27 / 4)) :: (Fin (45 / 1)) :: nil)) (10 / 1).
Proof. apply (A21_rio_fin _ (595 / 256)); [reflexivity | apply (A21_q_lo 595 256 10 1); [vm_compute; reflexivity | unfold fr, ctol, A21_lo, A21_c, A21_e; interval with (i_prec 80)]]. Qed.
Lemma r_A21_625 : rio_reads A21_c A21_e A21_lo A21_hi floor_volts ctol (Build_rio (Fin (675 / 256)) (Fin (15295 / 1024)) (Fin (229 / 64)) (Fin (100000000000000001097906362944045541740492309677311846336810682903157585404911491537163328978494688899061249669721172515611590283743140088328307009198146046031271664502933027185697489699588559043338384466165001178426897626212945177628091195786707458122783970171784415105291802893207873272974885715430223118336 / 1)) (Fin (14111 / 1024)) true false true ((Fin (2313 / 1024)) :: (Fin (477 / 256)) :: (Fin (265 / 128)) :: (Fin (69787 / 1024)) :: (Fin (3609 / 512)) :: (Fin (8333 / 1024)) :: nil)) (10 / 1).
Proof. apply (A21_rio_fin _ (675 / 256)); [reflexivity | apply (A21_q_lo 675 256 10 1); [vm_compute; reflexivity | unfold fr, ctol, A21_lo, A21_c, A21_e; interval with (i_prec 80)]]. Qed.
Lemma r_A21_641 : rio_reads A21_c A21_e A21_lo A21_hi floor_volts ctol (Build_rio (Fin (755 / 256)) (Fin (5 / 1)) (Fin (1 / 202402253307310618352495346718917307049556649764142118356901358027430339567995346891960383701437124495187077864316811911389808737385793476867013399940738509921517424276566361364466907742093216341239767678472745068562007483424692698618103355649159556340810056512358769552333414615230502532186327508646006263307707741093494784)) (Fin (357 / 64)) (Fin (10511 / 1024)) true true true ((Fin (1327 / 512)) :: (Fin (161 / 1024)) :: (Fin (549 / 1024)) :: (Fin (35589 / 256)) :: (Fin (1029 / 256)) :: (Fin (6109 / 1024)) :: nil)) (10 / 1).
Proof. apply (A21_rio_fin _ (755 / 256)); [reflexivity | apply (A21_q_lo 755 256 10 1); [vm_compute; reflexivity | unfold fr, ctol, A21_lo, A21_c, A21_e; interval with (i_prec 80)]]. Qed.
Lemma r_A21_657 : rio_reads A21_c A21_e A21_lo A21_hi floor_volts ctol (Build_rio (Fin (835 / 256)) (Fin (5 / 1)) (Fin (3715469692580659 / 1125899906842624)) (Fin (6 / 1)) (Fin (12 / 1)) true true true ((Fin (0 / 1)) :: (Fin (0 / 1)) :: (Fin (0 / 1)) :: (Fin (0 / 1)) :: (Fin (27 / 4)) :: (Fin (45 / 1)) :: nil)) (10 / 1).
Proof. apply (A21_rio_fin _ (835 / 256)); [reflexivity | apply (A21_q_lo 835 256 10 1); [vm_compute; reflexivity | unfold fr, ctol, A21_lo, A21_c, A21_e; interval with (i_prec 80)]]. Qed.
Lemma r_A21_673 : rio_reads A21_c A21_e A21_lo A21_hi floor_volts ctol (Build_rio (Fin (915 / 256)) (Fin ((-12) / 1)) (Fin (3715469692580659 / 1125899906842624)) (Fin (5275 / 1024)) (Fin ((-12) / 1)) true true false ((Fin (533 / 1024)) :: (Fin (987 / 512)) :: (Fin (101 / 256)) :: (Fin (142677 / 1024)) :: (Fin (2711 / 512)) :: (Fin ((-17051) / 1024)) :: nil)) (10 / 1).
Proof. apply (A21_rio_fin _ (915 / 256)); [reflexivity | apply (A21_q_lo 915 256 10 1); [vm_compute; reflexivity | unfold fr, ctol, A21_lo, A21_c, A21_e; interval with (i_prec 80)]]. Qed.
Lemma r_A21_689 : rio_reads A21_c A21_e A21_lo A21_hi floor_volts ctol (Build_rio (Fin (995 / 256)) (Fin (2911 / 1024)) (Fin (1813 / 512)) (Fin (2649 / 512)) (Fin (645 / 64)) true false true ((Fin (55 / 256)) :: (Fin (35 / 512)) :: (Fin (469 / 256)) :: (Fin (52539 / 512)) :: (Fin (1891 / 256)) :: (Fin (22615 / 1024)) :: nil)) (10 / 1).
Proof. apply (A21_rio_fin _ (995 / 256)); [reflexivity | apply (A21_q_lo 995 256 10 1); [vm_compute; reflexivity | unfold fr, ctol, A21_lo, A21_c, A21_e; interval with (i_prec 80)]]. Qed.
Lemma r_A21_705 : rio_reads A21_c A21_e A21_lo A21_hi floor_volts ctol (Build_rio (Fin (1075 / 256)) (Fin (5 / 1)) (Fin (3715469692580659 / 1125899906842624)) (Fin (6 / 1)) (Fin (12 / 1)) true true true ((Fin (0 / 1)) :: (Fin (0 / 1)) :: (Fin (0 / 1)) :: (Fin (0 / 1)) :: (Fin (27 / 4)) :: (Fin (45 / 1)) :: nil)) (10 / 1).
Proof. apply (A21_rio_fin _ (1075 / 256)); [reflexivity | apply (A21_q_lo 1075 256 10 1); [vm_compute; reflexivity | unfold fr, ctol, A21_lo, A21_c, A21_e; interval with (i_prec 80)]]. Qed.
Lemma r_A21_721 : rio_reads A21_c A21_e A21_lo A21_hi floor_volts ctol (Build_rio (Fin (1155 / 256)) (Fin (100000000000000001097906362944045541740492309677311846336810682903157585404911491537163328978494688899061249669721172515611590283743140088328307009198146046031271664502933027185697489699588559043338384466165001178426897626212945177628091195786707458122783970171784415105291802893207873272974885715430223118336 / 1)) (Fin (843 / 256)) (Fin (205 / 32)) (Fin (5287 / 1024)) true true false ((Fin (7 / 512)) :: (Fin (171 / 1024)) :: (Fin (563 / 1024)) :: (Fin (34431 / 512)) :: (Fin (1797 / 512)) :: (Fin (42169 / 1024)) :: nil)) (10 / 1).
Proof. apply (A21_rio_fin _ (1155 / 256)); [reflexivity | apply (A21_q_lo 1155 256 10 1); [vm_compute; reflexivity | unfold fr, ctol, A21_lo, A21_c, A21_e; interval with (i_prec 80)]]. Qed.
Lemma r_A21_737 : rio_reads A21_c A21_e A21_lo A21_hi floor_volts ctol (Build_rio (Fin (1235 / 256)) (Fin (5395 / 1024)) (Fin (817 / 512)) (Fin (6 / 1)) (Fin (977 / 512)) true false false ((Fin (369 / 512)) :: (Fin (751 / 1024)) :: (Fin (1057 / 1024)) :: (Fin (186921 / 1024)) :: (Fin (4161 / 1024)) :: (Fin ((-2691) / 1024)) :: nil)) (10 / 1).
Proof. apply (A21_rio_fin _ (1235 / 256)); [reflexivity | apply (A21_q_lo 1235 256 10 1); [vm_compute; reflexivity | unfold fr, ctol, A21_lo, A21_c, A21_e; interval with (i_prec 80)]]. Qed.
Lemma r_A21_753 : rio_reads A21_c A21_e A21_lo A21_hi floor_volts ctol (Build_rio (Fin (135587085823665 / 140737488355328)) (Fin (5 / 1)) (Fin (3715469692580659 / 1125899906842624)) (Fin (6 / 1)) (Fin (12 / 1)) true true true ((Fin (0 / 1)) :: (Fin (0 / 1)) :: (Fin (0 / 1)) :: (Fin (0 / 1)) :: (Fin (27 / 4)) :: (Fin (45 / 1)) :: nil)) (7792912327012281 / 281474976710656).
Proof. apply (A21_rio_fin _ (135587085823665 / 140737488355328)); [reflexivity | apply (A21_q_mid 135587085823665 140737488355328 7792912327012281 281474976710656); [vm_compute; reflexivity | unfold fr, close, ctol, A21_c, A21_e; interval with (i_prec 80)]]. Qed.
Lemma r_A21_769 : rio_reads A21_c A21_e A21_lo A21_hi floor_volts ctol (Build_rio (Fin (7696810525892089 / 2251799813685248)) (Fin ((-12) / 1)) (Fin (429 / 512)) (Fin (5963 / 1024)) (Fin (11581 / 1024)) true false true ((Fin (2449 / 1024)) :: (Fin (455 / 512)) :: (Fin (1227 / 1024)) :: (Fin (96931 / 1024)) :: (Fin (4589 / 512)) :: (Fin (68513 / 1024)) :: nil)) (10 / 1).
Proof. apply (A21_rio_fin _ (7696810525892089 / 2251799813685248)); [reflexivity | apply (A21_q_lo 7696810525892089 2251799813685248 10 1); [vm_compute; reflexivity | unfold fr, ctol, A21_lo, A21_c, A21_e; interval with (i_prec 80)]]. Qed.
Lemma r_A21_785 : rio_reads A21_c A21_e A21_lo A21_hi floor_volts ctol (Build_rio (Fin (4983552765856475 / 2251799813685248)) (Fin (2125 / 512)) (Fin (13 / 4)) (Fin (2973 / 512)) (Fin (813 / 64)) true false true ((Fin (509 / 256)) :: (Fin (1935 / 1024)) :: (Fin (5 / 512)) :: (Fin (168443 / 1024)) :: (Fin (545 / 64)) :: (Fin (5715 / 256)) :: nil)) (10 / 1).
Proof. apply (A21_rio_fin _ (4983552765856475 / 2251799813685248)); [reflexivity | apply (A21_q_lo 4983552765856475 2251799813685248 10 1); [vm_compute; reflexivity | unfold fr, ctol, A21_lo, A21_c, A21_e; interval with (i_prec 80)]]. Qed.
Lemma r_A21_801 : rio_reads A21_c A21_e A21_lo A21_hi floor_volts ctol (Build_rio (Fin (2651525785756301 / 2251799813685248)) (Fin (5 / 1)) (Fin (3715469692580659 / 1125899906842624)) (Fin (6 / 1)) (Fin (12 / 1)) true true true ((Fin (0 / 1)) :: (Fin (0 / 1)) :: (Fin (0 / 1)) :: (Fin (0 / 1)) :: (Fin (27 / 4)) :: (Fin (45 / 1)) :: nil)) (6093188857357955 / 281474976710656).
Proof. apply (A21_rio_fin _ (2651525785756301 / 2251799813685248)); [reflexivity | apply (A21_q_mid 2651525785756301 2251799813685248 6093188857357955 281474976710656); [vm_compute; reflexivity | unfold fr, close, ctol, A21_c, A21_e; interval with (i_prec 80)]]. Qed.
Lemma r_A21_818 : rio_reads A21_c A21_e A21_lo A21_hi floor_volts ctol (Build_rio (Fin (7356267696751687 / 1152921504606846976)) (Fin (1391 / 512)) (Fin (839 / 256)) PInf (Fin (12419 / 1024)) true true true ((Fin (237 / 256)) :: (Fin (55 / 256)) :: (Fin (1159 / 512)) :: (Fin (85023 / 512)) :: (Fin (5315 / 1024)) :: (Fin (55237 / 1024)) :: nil)) (80 / 1).
Proof. apply (A21_rio_fin _ (7356267696751687 / 1152921504606846976)); [reflexivity | apply (A21_q_hi 7356267696751687 1152921504606846976 80 1); [vm_compute; reflexivity | unfold fr, ctol, A21_hi, A21_c, A21_e; interval with (i_prec 80)]]. Qed.
Lemma r_A21_842 : rio_reads A21_c A21_e A21_lo A21_hi floor_volts ctol (Build_rio (Fin (6407475077524019 / 9223372036854775808)) (Fin (2797 / 512)) (Fin (3715469692580659 / 1125899906842624)) (Fin (347 / 64)) (Fin (1611 / 128)) true true true ((Fin (3057 / 1024)) :: (Fin (1353 / 1024)) :: (Fin (551 / 256)) :: (Fin (18349 / 1024)) :: (Fin (1029 / 256)) :: (Fin ((-297) / 128)) :: nil)) (80 / 1).
Proof. apply (A21_rio_fin _ (6407475077524019 / 9223372036854775808)); [reflexivity | apply (A21_q_hi 6407475077524019 9223372036854775808 80 1); [vm_compute; reflexivity | unfold fr, ctol, A21_hi, A21_c, A21_e; interval with (i_prec 80)]]. Qed.
Lemma d_A21_673u : close ctol (2489100355631953 / 1125899906842624) (volts_A21 (5 / 1)).
Proof. apply (A21_q_volts_lo 5 1 2489100355631953 1125899906842624); [vm_compute; reflexivity | unfold fr, close, ctol, A21_lo, A21_hi, A21_c, A21_e; interval with (i_prec 80)]. Qed.
Lemma d_A21_681u : close ctol (7303775102731699 / 18014398509481984) (volts_A21 (80 / 1)).
Proof. apply (A21_q_volts_hi 80 1 7303775102731699 18014398509481984); [vm_compute; reflexivity | unfold fr, close, ctol, A21_lo, A21_hi, A21_c, A21_e; interval with (i_prec 80)]. Qed.
Lemma d_A21_689u : close ctol (2489100355631953 / 1125899906842624) (volts_A21 ((-5) / 1)).
Proof. apply (A21_q_volts_lo (-5) 1 2489100355631953 1125899906842624); [vm_compute; reflexivity | unfold fr, close, ctol, A21_lo, A21_hi, A21_c, A21_e; interval with (i_prec 80)]. Qed.
Lemma d_A21_697u : close ctol (2357699125463541 / 2251799813685248) (volts_A21 (25 / 1)).
Proof. apply (A21_q_volts_mid 25 1 2357699125463541 2251799813685248); [vm_compute; reflexivity | unfold fr, close, ctol, A21_lo, A21_hi, A21_c, A21_e; interval with (i_prec 80)]. Qed.
Lemma d_A21_705u : close ctol (7303775102731699 / 18014398509481984) (volts_A21 (1000000000000000052504760255204420248704468581108159154915854115511802457988908195786371375080447864043704443832883878176942523235360430575644792184786706982848387200926575803737830233794788090059368953234970799945081119038967640880074652742780142494579258788820056842838115669472196386865459400540160 / 1)).
Proof. apply (A21_q_volts_hi 1000000000000000052504760255204420248704468581108159154915854115511802457988908195786371375080447864043704443832883878176942523235360430575644792184786706982848387200926575803737830233794788090059368953234970799945081119038967640880074652742780142494579258788820056842838115669472196386865459400540160 1 7303775102731699 18014398509481984); [vm_compute; reflexivity | unfold fr, close, ctol, A21_lo, A21_hi, A21_c, A21_e; interval with (i_prec 80)]. Qed.
Lemma d_A21_713u : close ctol (7303775102731701 / 18014398509481984) (volts_A21 (5629499534213119 / 70368744177664)).
Proof. apply (A21_q_volts_mid 5629499534213119 70368744177664 7303775102731701 18014398509481984); [vm_compute; reflexivity | unfold fr, close, ctol, A21_lo, A21_hi, A21_c, A21_e; interval with (i_prec 80)]. Qed.
Lemma d_A21_721u : close ctol (2489100355631953 / 1125899906842624) (volts_A21 (10 / 1)).
Proof. apply (A21_q_volts_lo 10 1 2489100355631953 1125899906842624); [vm_compute; reflexivity | unfold fr, close, ctol, A21_lo, A21_hi, A21_c, A21_e; interval with (i_prec 80)]. Qed.
Lemma d_A21_732u : close ctol (8931283793487771 / 9007199254740992) (volts_A21 (3761193550072275 / 140737488355328)).
Proof. apply (A21_q_volts_mid 3761193550072275 140737488355328 8931283793487771 9007199254740992); [vm_compute; reflexivity | unfold fr, close, ctol, A21_lo, A21_hi, A21_c, A21_e; interval with (i_prec 80)]. Qed.
Lemma d_A21_744r : rio_reads A21_c A21_e A21_lo A21_hi floor_volts ctol (Build_rio (Fin (8949663992025193 / 9007199254740992)) (Fin (4447 / 1024)) (Fin (2969 / 1024)) (Fin (1349 / 256)) (Fin (10789 / 1024)) false false true ((Fin (1503 / 512)) :: (Fin (1759 / 1024)) :: (Fin (401 / 512)) :: (Fin (32255 / 512)) :: (Fin (4063 / 512)) :: (Fin (39711 / 1024)) :: nil)) (3751725538760615 / 140737488355328).
Proof. apply (A21_rio_fin _ (8949663992025193 / 9007199254740992)); [reflexivity | apply (A21_q_mid 8949663992025193 9007199254740992 3751725538760615 140737488355328); [vm_compute; reflexivity | unfold fr, close, ctol, A21_c, A21_e; interval with (i_prec 80)]]. Qed.
Lemma d_A21_757u : close ctol (7303775102731699 / 18014398509481984) (volts_A21 (3029693008609445 / 1099511627776)).
Proof. apply (A21_q_volts_hi 3029693008609445 1099511627776 7303775102731699 18014398509481984); [vm_compute; reflexivity | unfold fr, close, ctol, A21_lo, A21_hi, A21_c, A21_e; interval with (i_prec 80)]. Qed.
Lemma d_A21_770u : close ctol (2489100355631953 / 1125899906842624) (volts_A21 (4 / 1)).
Proof. apply (A21_q_volts_lo 4 1 2489100355631953 1125899906842624); [vm_compute; reflexivity | unfold fr, close, ctol, A21_lo, A21_hi, A21_c, A21_e; interval with (i_prec 80)]. Qed.
Lemma d_A21_783u : close ctol (4784742910066651 / 9007199254740992) (volts_A21 (8084244841162551 / 140737488355328)).
Proof. apply (A21_q_volts_mid 8084244841162551 140737488355328 4784742910066651 9007199254740992); [vm_compute; reflexivity | unfold fr, close, ctol, A21_lo, A21_hi, A21_c, A21_e; interval with (i_prec 80)]. Qed.
Lemma d_A21_796u : close ctol (7456171602330719 / 18014398509481984) (volts_A21 (78 / 1)).
Proof. apply (A21_q_volts_mid 78 1 7456171602330719 18014398509481984); [vm_compute; reflexivity | unfold fr, close, ctol, A21_lo, A21_hi, A21_c, A21_e; interval with (i_prec 80)]. Qed.
Lemma d_A21_808r : rio_reads A21_c A21_e A21_lo A21_hi floor_volts ctol (Build_rio (Fin (2145148576251387 / 1125899906842624)) (Fin (5325 / 1024)) PInf (Fin (6 / 1)) (Fin (11367 / 1024)) true true true ((Fin (27 / 32)) :: (Fin (1131 / 1024)) :: (Fin (1249 / 1024)) :: (Fin (133959 / 1024)) :: (Fin (5007 / 1024)) :: (Fin (3749 / 1024)) :: nil)) (12 / 1).
Proof. apply (A21_rio_fin _ (2145148576251387 / 1125899906842624)); [reflexivity | apply (A21_q_mid 2145148576251387 1125899906842624 12 1); [vm_compute; reflexivity | unfold fr, close, ctol, A21_c, A21_e; interval with (i_prec 80)]]. Qed.
Lemma d_A21_821u : close ctol (2489100355631953 / 1125899906842624) (volts_A21 (575606350087047 / 281474976710656)).
Proof. apply (A21_q_volts_lo 575606350087047 281474976710656 2489100355631953 1125899906842624); [vm_compute; reflexivity | unfold fr, close, ctol, A21_lo, A21_hi, A21_c, A21_e; interval with (i_prec 80)]. Qed.
Lemma d_A21_834u : close ctol (2489100355631953 / 1125899906842624) (volts_A21 (1473854617445141 / 1125899906842624)).
Proof. apply (A21_q_volts_lo 1473854617445141 1125899906842624 2489100355631953 1125899906842624); [vm_compute; reflexivity | unfold fr, close, ctol, A21_lo, A21_hi, A21_c, A21_e; interval with (i_prec 80)]. Qed.
Lemma d_A21_847u : close ctol (2420579596699367 / 4503599627370496) (volts_A21 (7968896585450751 / 140737488355328)).
Proof. apply (A21_q_volts_mid 7968896585450751 140737488355328 2420579596699367 4503599627370496); [vm_compute; reflexivity | unfold fr, close, ctol, A21_lo, A21_hi, A21_c, A21_e; interval with (i_prec 80)]. Qed.
Lemma d_A21_860u : close ctol (2143897703883521 / 2251799813685248) (volts_A21 (3953341989104231 / 140737488355328)).
Proof. apply (A21_q_volts_mid 3953341989104231 140737488355328 2143897703883521 2251799813685248); [vm_compute; reflexivity | unfold fr, close, ctol, A21_lo, A21_hi, A21_c, A21_e; interval with (i_prec 80)]. Qed.
Lemma d_A21_872r : rio_reads A21_c A21_e A21_lo A21_hi floor_volts ctol (Build_rio (Fin (2869131057770665 / 4503599627370496)) (Fin (2649 / 512)) (Fin (5017 / 512)) (Fin (6513 / 1024)) (Fin (3141 / 256)) false false true ((Fin (791 / 512)) :: (Fin (1021 / 512)) :: (Fin (183 / 256)) :: (Fin (26701 / 1024)) :: (Fin (3759 / 512)) :: (Fin (32649 / 512)) :: nil)) (6469658578338843 / 140737488355328).
Proof. apply (A21_rio_fin _ (2869131057770665 / 4503599627370496)); [reflexivity | apply (A21_q_mid 2869131057770665 4503599627370496 6469658578338843 140737488355328); [vm_compute; reflexivity | unfold fr, close, ctol, A21_c, A21_e; interval with (i_prec 80)]]. Qed.
Lemma d_A21_885u : close ctol (8041816308229791 / 18014398509481984) (volts_A21 (2501409000213591 / 35184372088832)).
Proof. apply (A21_q_volts_mid 2501409000213591 35184372088832 8041816308229791 18014398509481984); [vm_compute; reflexivity | unfold fr, close, ctol, A21_lo, A21_hi, A21_c, A21_e; interval with (i_prec 80)]. Qed.
Lemma d_A21_898u : close ctol (6781786558334105 / 9007199254740992) (volts_A21 (2635652973187677 / 70368744177664)).
Proof. apply (A21_q_volts_mid 2635652973187677 70368744177664 6781786558334105 9007199254740992); [vm_compute; reflexivity | unfold fr, close, ctol, A21_lo, A21_hi, A21_c, A21_e; interval with (i_prec 80)]. Qed.
Lemma d_A21_911u : close ctol (8178571477265659 / 9007199254740992) (volts_A21 (8379797977063383 / 281474976710656)).
Proof. apply (A21_q_volts_mid 8379797977063383 281474976710656 8178571477265659 9007199254740992); [vm_compute; reflexivity | unfold fr, close, ctol, A21_lo, A21_hi, A21_c, A21_e; interval with (i_prec 80)]. Qed.
Lemma d_A21_924u : close ctol (751839421266397 / 1125899906842624) (volts_A21 (3053503533345017 / 70368744177664)).
Proof. apply (A21_q_volts_mid 3053503533345017 70368744177664 751839421266397 1125899906842624); [vm_compute; reflexivity | unfold fr, close, ctol, A21_lo, A21_hi, A21_c, A21_e; interval with (i_prec 80)]. Qed.
Lemma d_A21_936r : rio_reads A21_c A21_e A21_lo A21_hi floor_volts ctol (Build_rio (Fin (8967246323234431 / 4503599627370496)) (Fin (547 / 128)) (Fin (3715469692580659 / 1125899906842624)) (Fin (6 / 1)) (Fin (10385 / 1024)) false false true ((Fin (327 / 512)) :: (Fin (1265 / 1024)) :: (Fin (1029 / 512)) :: (Fin (42539 / 1024)) :: (Fin (2247 / 256)) :: (Fin ((-3729) / 256)) :: nil)) (6400048594787809 / 562949953421312).
Proof. apply (A21_rio_fin _ (8967246323234431 / 4503599627370496)); [reflexivity | apply (A21_q_mid 8967246323234431 4503599627370496 6400048594787809 562949953421312); [vm_compute; reflexivity | unfold fr, close, ctol, A21_c, A21_e; interval with (i_prec 80)]]. Qed.
Lemma d_A21_949u : close ctol (7080217963715545 / 9007199254740992) (volts_A21 (5000218074465583 / 140737488355328)).
Proof. apply (A21_q_volts_mid 5000218074465583 140737488355328 7080217963715545 9007199254740992); [vm_compute; reflexivity | unfold fr, close, ctol, A21_lo, A21_hi, A21_c, A21_e; interval with (i_prec 80)]. Qed.
Lemma d_A21_962u : close ctol (4707460767030273 / 9007199254740992) (volts_A21 (8247258469531477 / 140737488355328)).
Proof. apply (A21_q_volts_mid 8247258469531477 140737488355328 4707460767030273 9007199254740992); [vm_compute; reflexivity | unfold fr, close, ctol, A21_lo, A21_hi, A21_c, A21_e; interval with (i_prec 80)]. Qed.
Lemma d_A21_975u : close ctol (7303775102731699 / 18014398509481984) (volts_A21 (1989797798248539 / 8796093022208)).
Proof. apply (A21_q_volts_hi 1989797798248539 8796093022208 7303775102731699 18014398509481984); [vm_compute; reflexivity | unfold fr, close, ctol, A21_lo, A21_hi, A21_c, A21_e; interval with (i_prec 80)]. Qed.
Lemma d_A21_988u : close ctol (3816870095684357 / 9007199254740992) (volts_A21 (2666323698305995 / 35184372088832)).
Proof. apply (A21_q_volts_mid 2666323698305995 35184372088832 3816870095684357 9007199254740992); [vm_compute; reflexivity | unfold fr, close, ctol, A21_lo, A21_hi, A21_c, A21_e; interval with (i_prec 80)]. Qed.
Lemma d_A21_1000r : rio_reads A21_c A21_e A21_lo A21_hi floor_volts ctol (Build_rio (Fin (5492999812292631 / 9007199254740992)) (Fin (2137 / 512)) (Fin (3261 / 1024)) (Fin (353 / 64)) (Fin (3637 / 1024)) true true true ((Fin (55 / 256)) :: (Fin (739 / 512)) :: (Fin (645 / 512)) :: (Fin (2817 / 64)) :: (Fin (215 / 64)) :: (Fin (19121 / 512)) :: nil)) (6825579994405661 / 140737488355328).
Proof. apply (A21_rio_fin _ (5492999812292631 / 9007199254740992)); [reflexivity | apply (A21_q_mid 5492999812292631 9007199254740992 6825579994405661 140737488355328); [vm_compute; reflexivity | unfold fr, close, ctol, A21_c, A21_e; interval with (i_prec 80)]]. Qed.
Lemma d_A21_1013u : close ctol (8164866984947467 / 18014398509481984) (volts_A21 (1227635065900567 / 17592186044416)).
Proof. apply (A21_q_volts_mid 1227635065900567 17592186044416 8164866984947467 18014398509481984); [vm_compute; reflexivity | unfold fr, close, ctol, A21_lo, A21_hi, A21_c, A21_e; interval with (i_prec 80)]. Qed.
Lemma d_A21_1026u : close ctol (7796408641796053 / 9007199254740992) (volts_A21 (8886143745066165 / 281474976710656)).
Proof. apply (A21_q_volts_mid 8886143745066165 281474976710656 7796408641796053 9007199254740992); [vm_compute; reflexivity | unfold fr, close, ctol, A21_lo, A21_hi, A21_c, A21_e; interval with (i_prec 80)]. Qed.
Lemma d_A21_1039u : close ctol (2489100355631953 / 1125899906842624) (volts_A21 ((-3748646096537905) / 2251799813685248)).
Proof. apply (A21_q_volts_lo (-3748646096537905) 2251799813685248 2489100355631953 1125899906842624); [vm_compute; reflexivity | unfold fr, close, ctol, A21_lo, A21_hi, A21_c, A21_e; interval with (i_prec 80)]. Qed.
Lemma d_A21_1052u : close ctol (2398588840927127 / 4503599627370496) (volts_A21 (4029280658029335 / 70368744177664)).
Proof. apply (A21_q_volts_mid 4029280658029335 70368744177664 2398588840927127 4503599627370496); [vm_compute; reflexivity | unfold fr, close, ctol, A21_lo, A21_hi, A21_c, A21_e; interval with (i_prec 80)]. Qed.
Lemma d_A21_1064r : rio_reads A21_c A21_e A21_lo A21_hi floor_volts ctol (Build_rio (Fin (1547073711056801 / 2251799813685248)) (Fin (5902958103587057 / 590295810358705651712)) (Fin (4507 / 1024)) (Fin (5795 / 1024)) (Fin (13317 / 1024)) true true true ((Fin (1003 / 1024)) :: (Fin (655 / 1024)) :: (Fin (1147 / 512)) :: (Fin (136449 / 1024)) :: (Fin (5099 / 1024)) :: (Fin (7877 / 512)) :: nil)) (2948832281692279 / 70368744177664).
Proof. apply (A21_rio_fin _ (1547073711056801 / 2251799813685248)); [reflexivity | apply (A21_q_mid 1547073711056801 2251799813685248 2948832281692279 70368744177664); [vm_compute; reflexivity | unfold fr, close, ctol, A21_c, A21_e; interval with (i_prec 80)]]. Qed.
Lemma d_A21_1077u : close ctol (7916033251383187 / 18014398509481984) (volts_A21 (2550225387390855 / 35184372088832)).
Proof. apply (A21_q_volts_mid 2550225387390855 35184372088832 7916033251383187 18014398509481984); [vm_compute; reflexivity | unfold fr, close, ctol, A21_lo, A21_hi, A21_c, A21_e; interval with (i_prec 80)]. Qed.
Lemma d_A21_1090u : close ctol (158359400560629 / 281474976710656) (volts_A21 (7534750545257531 / 140737488355328)).
Proof. apply (A21_q_volts_mid 7534750545257531 140737488355328 158359400560629 281474976710656); [vm_compute; reflexivity | unfold fr, close, ctol, A21_lo, A21_hi, A21_c, A21_e; interval with (i_prec 80)]. Qed.
Lemma d_A21_1103u : close ctol (5270892200726997 / 9007199254740992) (volts_A21 (7179863083614901 / 140737488355328)).
Proof. apply (A21_q_volts_mid 7179863083614901 140737488355328 5270892200726997 9007199254740992); [vm_compute; reflexivity | unfold fr, close, ctol, A21_lo, A21_hi, A21_c, A21_e; interval with (i_prec 80)]. Qed.
Lemma d_A21_1116u : close ctol (507298535489909 / 562949953421312) (volts_A21 (8458080688151307 / 281474976710656)).
Proof. apply (A21_q_volts_mid 8458080688151307 281474976710656 507298535489909 562949953421312); [vm_compute; reflexivity | unfold fr, close, ctol, A21_lo, A21_hi, A21_c, A21_e; interval with (i_prec 80)]. Qed.
Lemma d_A21_1128r : rio_reads A21_c A21_e A21_lo A21_hi floor_volts ctol (Build_rio (Fin (3562490354689995 / 4503599627370496)) (Fin (5515 / 1024)) (Fin (3433 / 1024)) (Fin (2511 / 512)) (Fin (2697 / 256)) false true true ((Fin (25 / 16)) :: (Fin (347 / 512)) :: (Fin (795 / 1024)) :: (Fin (106727 / 1024)) :: (Fin (5147 / 1024)) :: (Fin (96859 / 1024)) :: nil)) (2480866004526197 / 70368744177664).
Proof. apply (A21_rio_fin _ (3562490354689995 / 4503599627370496)); [reflexivity | apply (A21_q_mid 3562490354689995 4503599627370496 2480866004526197 70368744177664); [vm_compute; reflexivity | unfold fr, close, ctol, A21_c, A21_e; interval with (i_prec 80)]]. Qed.
Lemma d_A21_1141u : close ctol (6437688404551875 / 9007199254740992) (volts_A21 (702349378783485 / 17592186044416)).
Proof. apply (A21_q_volts_mid 702349378783485 17592186044416 6437688404551875 9007199254740992); [vm_compute; reflexivity | unfold fr, close, ctol, A21_lo, A21_hi, A21_c, A21_e; interval with (i_prec 80)]. Qed.
Lemma d_A21_1154u : close ctol (7303775102731699 / 18014398509481984) (volts_A21 (500866931824705 / 2199023255552)).
Proof. apply (A21_q_volts_hi 500866931824705 2199023255552 7303775102731699 18014398509481984); [vm_compute; reflexivity | unfold fr, close, ctol, A21_lo, A21_hi, A21_c, A21_e; interval with (i_prec 80)]. Qed.
Lemma d_A21_1167u : close ctol (2513750950865097 / 4503599627370496) (volts_A21 (1902077766710645 / 35184372088832)).
Proof. apply (A21_q_volts_mid 1902077766710645 35184372088832 2513750950865097 4503599627370496); [vm_compute; reflexivity | unfold fr, close, ctol, A21_lo, A21_hi, A21_c, A21_e; interval with (i_prec 80)]. Qed.
Lemma d_A21_1180u : close ctol (1874191364249753 / 4503599627370496) (volts_A21 (5452346648497657 / 70368744177664)).
Proof. apply (A21_q_volts_mid 5452346648497657 70368744177664 1874191364249753 4503599627370496); [vm_compute; reflexivity | unfold fr, close, ctol, A21_lo, A21_hi, A21_c, A21_e; interval with (i_prec 80)]. Qed.
Lemma d_A21_1192r : rio_reads A21_c A21_e A21_lo A21_hi floor_volts ctol (Build_rio (Fin (8581961904105575 / 18014398509481984)) (Fin (4479 / 1024)) (Fin (3215 / 1024)) (Fin (1589 / 256)) (Fin (12057 / 1024)) true false true ((Fin (589 / 512)) :: (Fin (817 / 512)) :: (Fin (101 / 128)) :: (Fin (30711 / 1024)) :: (Fin (2777 / 512)) :: (Fin (29873 / 1024)) :: nil)) (4619571997793085 / 70368744177664).
Proof. apply (A21_rio_fin _ (8581961904105575 / 18014398509481984)); [reflexivity | apply (A21_q_mid 8581961904105575 18014398509481984 4619571997793085 70368744177664); [vm_compute; reflexivity | unfold fr, close, ctol, A21_c, A21_e; interval with (i_prec 80)]]. Qed.
Lemma d_A21_1205u : close ctol (2489100355631953 / 1125899906842624) (volts_A21 (4779806932377633 / 288230376151711744)).
Proof. apply (A21_q_volts_lo 4779806932377633 288230376151711744 2489100355631953 1125899906842624); [vm_compute; reflexivity | unfold fr, close, ctol, A21_lo, A21_hi, A21_c, A21_e; interval with (i_prec 80)]. Qed.
Lemma d_A21_1218u : close ctol (2489100355631953 / 1125899906842624) (volts_A21 (7969549291951719 / 2251799813685248)).
Proof. apply (A21_q_volts_lo 7969549291951719 2251799813685248 2489100355631953 1125899906842624); [vm_compute; reflexivity | unfold fr, close, ctol, A21_lo, A21_hi, A21_c, A21_e; interval with (i_prec 80)]. Qed.
Lemma d_A21_1231u : close ctol (3576363760618609 / 2251799813685248) (volts_A21 (15 / 1)).
Proof. apply (A21_q_volts_mid 15 1 3576363760618609 2251799813685248); [vm_compute; reflexivity | unfold fr, close, ctol, A21_lo, A21_hi, A21_c, A21_e; interval with (i_prec 80)]. Qed.
Lemma d_A21_1244u : close ctol (4293146210671295 / 9007199254740992) (volts_A21 (2308357856355303 / 35184372088832)).
Proof. apply (A21_q_volts_mid 2308357856355303 35184372088832 4293146210671295 9007199254740992); [vm_compute; reflexivity | unfold fr, close, ctol, A21_lo, A21_hi, A21_c, A21_e; interval with (i_prec 80)]. Qed.
Lemma d_A21_1256r : rio_reads A21_c A21_e A21_lo A21_hi floor_volts ctol (Build_rio (Fin (6768237939885709 / 9007199254740992)) (Fin (5229 / 1024)) (Fin (1371 / 512)) (Fin (5687 / 1024)) (Fin (5201 / 512)) true false true ((Fin (1219 / 1024)) :: (Fin (87 / 128)) :: (Fin (613 / 512)) :: (Fin (49597 / 1024)) :: (Fin (3835 / 1024)) :: (Fin (44411 / 1024)) :: nil)) (5284245707669757 / 140737488355328).
Proof. apply (A21_rio_fin _ (6768237939885709 / 9007199254740992)); [reflexivity | apply (A21_q_mid 6768237939885709 9007199254740992 5284245707669757 140737488355328); [vm_compute; reflexivity | unfold fr, close, ctol, A21_c, A21_e; interval with (i_prec 80)]]. Qed.
Lemma d_A21_1269u : close ctol (1526447609291969 / 2251799813685248) (volts_A21 (1498878938809255 / 35184372088832)).
Proof. apply (A21_q_volts_mid 1498878938809255 35184372088832 1526447609291969 2251799813685248); [vm_compute; reflexivity | unfold fr, close, ctol, A21_lo, A21_hi, A21_c, A21_e; interval with (i_prec 80)]. Qed.
Lemma d_A21_1282u : close ctol (4565300319849609 / 9007199254740992) (volts_A21 (535200736962853 / 8796093022208)).
Proof. apply (A21_q_volts_mid 535200736962853 8796093022208 4565300319849609 9007199254740992); [vm_compute; reflexivity | unfold fr, close, ctol, A21_lo, A21_hi, A21_c, A21_e; interval with (i_prec 80)]. Qed.
Lemma d_A21_1295u : close ctol (2020466874737349 / 4503599627370496) (volts_A21 (2486219786141735 / 35184372088832)).
Proof. apply (A21_q_volts_mid 2486219786141735 35184372088832 2020466874737349 4503599627370496); [vm_compute; reflexivity | unfold fr, close, ctol, A21_lo, A21_hi, A21_c, A21_e; interval with (i_prec 80)]. Qed.
Lemma d_A21_1308u : close ctol (7303775102731699 / 18014398509481984) (volts_A21 (3732058932656211 / 17592186044416)).
Proof. apply (A21_q_volts_hi 3732058932656211 17592186044416 7303775102731699 18014398509481984); [vm_compute; reflexivity | unfold fr, close, ctol, A21_lo, A21_hi, A21_c, A21_e; interval with (i_prec 80)]. Qed.
Lemma d_A21_1320r : rio_reads A21_c A21_e A21_lo A21_hi floor_volts ctol (Build_rio (Fin (6179343192451399 / 9007199254740992)) (Fin (5 / 1)) (Fin (2631 / 256)) (Fin (6 / 1)) (Fin (5902958103587057 / 590295810358705651712)) false false true ((Fin (3037 / 1024)) :: (Fin (1229 / 1024)) :: (Fin (71 / 128)) :: (Fin (79795 / 1024)) :: (Fin (3621 / 1024)) :: (Fin (84473 / 1024)) :: nil)) (2954070365781561 / 70368744177664).
Proof. apply (A21_rio_fin _ (6179343192451399 / 9007199254740992)); [reflexivity | apply (A21_q_mid 6179343192451399 9007199254740992 2954070365781561 70368744177664); [vm_compute; reflexivity | unfold fr, close, ctol, A21_c, A21_e; interval with (i_prec 80)]]. Qed.
Lemma r_A41_848 : rio_reads A41_c A41_e A41_lo A41_hi floor_volts ctol (Build_rio (Fin (5902958103587057 / 590295810358705651712)) (Fin (5 / 1)) (Fin (3715469692580659 / 1125899906842624)) (Fin (6 / 1)) (Fin (12 / 1)) true true true ((Fin (0 / 1)) :: (Fin (0 / 1)) :: (Fin (0 / 1)) :: (Fin (0 / 1)) :: (Fin (27 / 4)) :: (Fin (85 / 1)) :: nil)) (35 / 1).
Proof. apply (A41_rio_fin _ (5902958103587057 / 590295810358705651712)); [reflexivity | apply (A41_q_hi 5902958103587057 590295810358705651712 35 1); [vm_compute; reflexivity | unfold fr, ctol, A41_hi, A41_c, A41_e; interval with (i_prec 80)]]. Qed.
Lemma r_A41_879 : rio_reads A41_c A41_e A41_lo A41_hi floor_volts ctol (Build_rio (Fin (12 / 1)) (Fin (5 / 1)) (Fin (3715469692580659 / 1125899906842624)) (Fin (6 / 1)) (Fin (21 / 2)) true true true ((Fin (0 / 1)) :: (Fin (0 / 1)) :: (Fin (0 / 1)) :: (Fin (0 / 1)) :: (Fin (27 / 4)) :: (Fin (45 / 1)) :: nil)) (9 / 2).
Proof. apply (A41_rio_fin _ (12 / 1)); [reflexivity | apply (A41_q_lo 12 1 9 2); [vm_compute; reflexivity | unfold fr, ctol, A41_lo, A41_c, A41_e; interval with (i_prec 80)]]. Qed.
Lemma r_A41_897 : rio_reads A41_c A41_e A41_lo A41_hi floor_volts ctol (Build_rio (Fin (3273482879243283 / 1125899906842624)) (Fin (5 / 1)) (Fin (3715469692580659 / 1125899906842624)) (Fin ((-1) / 1)) (Fin (12 / 1)) true true true ((Fin (0 / 1)) :: (Fin (0 / 1)) :: (Fin (0 / 1)) :: (Fin (0 / 1)) :: (Fin (27 / 4)) :: (Fin (45 / 1)) :: nil)) (2533274792884593 / 562949953421312).
Proof. apply (A41_rio_fin _ (3273482879243283 / 1125899906842624)); [reflexivity | apply (A41_q_mid 3273482879243283 1125899906842624 2533274792884593 562949953421312); [vm_compute; reflexivity | unfold fr, close, ctol, A41_c, A41_e; interval with (i_prec 80)]]. Qed.
Lemma r_A41_913 : rio_reads A41_c A41_e A41_lo A41_hi floor_volts ctol (Build_rio (Fin (5 / 4096)) (Fin (5 / 1)) (Fin (3715469692580659 / 1125899906842624)) (Fin (6 / 1)) (Fin (12 / 1)) true true true ((Fin (0 / 1)) :: (Fin (0 / 1)) :: (Fin (0 / 1)) :: (Fin (0 / 1)) :: (Fin (27 / 4)) :: (Fin (45 / 1)) :: nil)) (35 / 1).
Proof. apply (A41_rio_fin _ (5 / 4096)); [reflexivity | apply (A41_q_hi 5 4096 35 1); [vm_compute; reflexivity | unfold fr, ctol, A41_hi, A41_c, A41_e; interval with (i_prec 80)]]. Qed.
Lemma r_A41_929 : rio_reads A41_c A41_e A41_lo A41_hi floor_volts ctol (Build_rio (Fin (75 / 256)) (Fin (1 / 1)) (Fin (769 / 256)) (Fin (1469 / 256)) (Fin (12701 / 1024)) true false false ((Fin (87 / 512)) :: (Fin (1763 / 1024)) :: (Fin (2965 / 1024)) :: (Fin (200393 / 1024)) :: (Fin (3539 / 512)) :: (Fin (43903 / 1024)) :: nil)) (35 / 1).
Proof. apply (A41_rio_fin _ (75 / 256)); [reflexivity | apply (A41_q_hi 75 256 35 1); [vm_compute; reflexivity | unfold fr, ctol, A41_hi, A41_c, A41_e; interval with (i_prec 80)]]. Qed.
Lemma r_A41_945 : rio_reads A41_c A41_e A41_lo A41_hi floor_volts ctol (Build_rio (Fin (155 / 256)) (Fin (5 / 1)) (Fin (3467 / 1024)) NInf (Fin (3543 / 512)) true true false ((Fin (81 / 64)) :: (Fin (579 / 512)) :: (Fin (919 / 1024)) :: (Fin (72473 / 1024)) :: (Fin (4559 / 1024)) :: (Fin (44321 / 1024)) :: nil)) (5916677491635029 / 281474976710656).
Proof. apply (A41_rio_fin _ (155 / 256)); [reflexivity | apply (A41_q_mid 155 256 5916677491635029 281474976710656); [vm_compute; reflexivity | unfold fr, close, ctol, A41_c, A41_e; interval with (i_prec 80)]]. Qed.
Lemma r_A41_961 : rio_reads A41_c A41_e A41_lo A41_hi floor_volts ctol (Build_rio (Fin (235 / 256)) (Fin (5 / 1)) (Fin (3715469692580659 / 1125899906842624)) (Fin (6 / 1)) (Fin (12 / 1)) true true true ((Fin (0 / 1)) :: (Fin (0 / 1)) :: (Fin (0 / 1)) :: (Fin (0 / 1)) :: (Fin (27 / 4)) :: (Fin (45 / 1)) :: nil)) (491397228416105 / 35184372088832).
Proof. apply (A41_rio_fin _ (235 / 256)); [reflexivity | apply (A41_q_mid 235 256 491397228416105 35184372088832); [vm_compute; reflexivity | unfold fr, close, ctol, A41_c, A41_e; interval with (i_prec 80)]]. Qed.
Lemma r_A41_977 : rio_reads A41_c A41_e A41_lo A41_hi floor_volts ctol (Build_rio (Fin (315 / 256)) (Fin (5 / 1)) (Fin (1 / 202402253307310618352495346718917307049556649764142118356901358027430339567995346891960383701437124495187077864316811911389808737385793476867013399940738509921517424276566361364466907742093216341239767678472745068562007483424692698618103355649159556340810056512358769552333414615230502532186327508646006263307707741093494784)) NInf (Fin (705 / 64)) false false true ((Fin (279 / 256)) :: (Fin (801 / 1024)) :: (Fin (413 / 256)) :: (Fin (50173 / 256)) :: (Fin (7163 / 1024)) :: (Fin (3439 / 512)) :: nil)) (5895891260932263 / 562949953421312).
Proof. apply (A41_rio_fin _ (315 / 256)); [reflexivity | apply (A41_q_mid 315 256 5895891260932263 562949953421312); [vm_compute; reflexivity | unfold fr, close, ctol, A41_c, A41_e; interval with (i_prec 80)]]. Qed.
Lemma r_A41_993 : rio_reads A41_c A41_e A41_lo A41_hi floor_volts ctol (Build_rio (Fin (395 / 256)) (Fin (5 / 1)) (Fin (1745 / 512)) PInf (Fin (1387 / 128)) false false true ((Fin (1041 / 1024)) :: (Fin (1075 / 1024)) :: (Fin (499 / 256)) :: (Fin (45029 / 1024)) :: (Fin (8023 / 1024)) :: (Fin (55851 / 1024)) :: nil)) (2360275893538155 / 281474976710656).
Proof. apply (A41_rio_fin _ (395 / 256)); [reflexivity | apply (A41_q_mid 395 256 2360275893538155 281474976710656); [vm_compute; reflexivity | unfold fr, close, ctol, A41_c, A41_e; interval with (i_prec 80)]]. Qed.
Lemma r_A41_1009 : rio_reads A41_c A41_e A41_lo A41_hi floor_volts ctol (Build_rio (Fin (475 / 256)) (Fin (5 / 1)) (Fin (3715469692580659 / 1125899906842624)) (Fin (6 / 1)) (Fin (12 / 1)) true true true ((Fin (0 / 1)) :: (Fin (0 / 1)) :: (Fin (0 / 1)) :: (Fin (0 / 1)) :: (Fin (27 / 4)) :: (Fin (45 / 1)) :: nil)) (7876548413509719 / 1125899906842624).
Proof. apply (A41_rio_fin _ (475 / 256)); [reflexivity | apply (A41_q_mid 475 256 7876548413509719 1125899906842624); [vm_compute; reflexivity | unfold fr, close, ctol, A41_c, A41_e; interval with (i_prec 80)]]. Qed.
Lemma r_A41_1025 : rio_reads A41_c A41_e A41_lo A41_hi floor_volts ctol (Build_rio (Fin (555 / 256)) (Fin (1127 / 256)) (Fin (1567 / 512)) (Fin (5129 / 1024)) (Fin (0 / 1)) true true true ((Fin (343 / 256)) :: (Fin (1333 / 1024)) :: (Fin (1419 / 1024)) :: (Fin (38397 / 1024)) :: (Fin (2925 / 512)) :: (Fin ((-15945) / 1024)) :: nil)) (6759682881005285 / 1125899906842624).
Proof. apply (A41_rio_fin _ (555 / 256)); [reflexivity | apply (A41_q_mid 555 256 6759682881005285 1125899906842624); [vm_compute; reflexivity | unfold fr, close, ctol, A41_c, A41_e; interval with (i_prec 80)]]. Qed.
Lemma r_A41_1041 : rio_reads A41_c A41_e A41_lo A41_hi floor_volts ctol (Build_rio (Fin (635 / 256)) (Fin (2063 / 512)) (Fin ((-1) / 1)) (Fin (5835 / 1024)) (Fin (2705 / 256)) true false true ((Fin (2967 / 1024)) :: (Fin (667 / 1024)) :: (Fin (2573 / 1024)) :: (Fin (48743 / 256)) :: (Fin (1781 / 512)) :: (Fin (8335 / 256)) :: nil)) (2961043894821637 / 562949953421312).
Proof. apply (A41_rio_fin _ (635 / 256)); [reflexivity | apply (A41_q_mid 635 256 2961043894821637 562949953421312); [vm_compute; reflexivity | unfold fr, close, ctol, A41_c, A41_e; interval with (i_prec 80)]]. Qed.
Lemma r_A41_1057 : rio_reads A41_c A41_e A41_lo A41_hi floor_volts ctol (Build_rio (Fin (715 / 256)) (Fin (5 / 1)) (Fin (3715469692580659 / 1125899906842624)) (Fin (6 / 1)) (Fin (12 / 1)) true true true ((Fin (0 / 1)) :: (Fin (0 / 1)) :: (Fin (0 / 1)) :: (Fin (0 / 1)) :: (Fin (27 / 4)) :: (Fin (45 / 1)) :: nil)) (658808974143373 / 140737488355328).
Proof. apply (A41_rio_fin _ (715 / 256)); [reflexivity | apply (A41_q_mid 715 256 658808974143373 140737488355328); [vm_compute; reflexivity | unfold fr, close, ctol, A41_c, A41_e; interval with (i_prec 80)]]. Qed.
Lemma r_A41_1073 : rio_reads A41_c A41_e A41_lo A41_hi floor_volts ctol (Build_rio (Fin (25 / 8)) (Fin (2601 / 512)) (Fin (100000000000000001097906362944045541740492309677311846336810682903157585404911491537163328978494688899061249669721172515611590283743140088328307009198146046031271664502933027185697489699588559043338384466165001178426897626212945177628091195786707458122783970171784415105291802893207873272974885715430223118336 / 1)) (Fin (2633 / 256)) (Fin (12 / 1)) true true true ((Fin (295 / 128)) :: (Fin (95 / 1024)) :: (Fin (529 / 512)) :: (Fin (10447 / 128)) :: (Fin (471 / 64)) :: (Fin (4287 / 64)) :: nil)) (9 / 2).
Proof. apply (A41_rio_fin _ (25 / 8)); [reflexivity | apply (A41_q_lo 25 8 9 2); [vm_compute; reflexivity | unfold fr, ctol, A41_lo, A41_c, A41_e; interval with (i_prec 80)]]. Qed.
Lemma r_A41_1089 : rio_reads A41_c A41_e A41_lo A41_hi floor_volts ctol (Build_rio (Fin (55 / 16)) (Fin (5429 / 1024)) (Fin (3281 / 1024)) (Fin (6501 / 1024)) (Fin (10431 / 1024)) true true false ((Fin (639 / 1024)) :: (Fin (745 / 512)) :: (Fin (21 / 64)) :: (Fin (2173 / 64)) :: (Fin (3225 / 1024)) :: (Fin (2309 / 256)) :: nil)) (9 / 2).
Proof. apply (A41_rio_fin _ (55 / 16)); [reflexivity | apply (A41_q_lo 55 16 9 2); [vm_compute; reflexivity | unfold fr, ctol, A41_lo, A41_c, A41_e; interval with (i_prec 80)]]. Qed.
Lemma r_A41_1105 : rio_reads A41_c A41_e A41_lo A41_hi floor_volts ctol (Build_rio (Fin (15 / 4)) (Fin (5 / 1)) (Fin (3715469692580659 / 1125899906842624)) (Fin (6 / 1)) (Fin (12 / 1)) true true true ((Fin (0 / 1)) :: (Fin (0 / 1)) :: (Fin (0 / 1)) :: (Fin (0 / 1)) :: (Fin (27 / 4)) :: (Fin (45 / 1)) :: nil)) (9 / 2).
Proof. apply (A41_rio_fin _ (15 / 4)); [reflexivity | apply (A41_q_lo 15 4 9 2); [vm_compute; reflexivity | unfold fr, ctol, A41_lo, A41_c, A41_e; interval with (i_prec 80)]]. Qed.
Lemma r_A41_1121 : rio_reads A41_c A41_e A41_lo A41_hi floor_volts ctol (Build_rio (Fin (65 / 16)) (Fin (100000000000000001097906362944045541740492309677311846336810682903157585404911491537163328978494688899061249669721172515611590283743140088328307009198146046031271664502933027185697489699588559043338384466165001178426897626212945177628091195786707458122783970171784415105291802893207873272974885715430223118336 / 1)) (Fin (897 / 256)) (Fin (6 / 1)) (Fin (201 / 16)) false true true ((Fin (181 / 128)) :: (Fin (109 / 128)) :: (Fin (59 / 512)) :: (Fin (127363 / 1024)) :: (Fin (6257 / 1024)) :: (Fin (9937 / 256)) :: nil)) (9 / 2).
Proof. apply (A41_rio_fin _ (65 / 16)); [reflexivity | apply (A41_q_lo 65 16 9 2); [vm_compute; reflexivity | unfold fr, ctol, A41_lo, A41_c, A41_e; interval with (i_prec 80)]]. Qed.
Lemma r_A41_1137 : rio_reads A41_c A41_e A41_lo A41_hi floor_volts ctol (Build_rio (Fin (35 / 8)) (Fin (100000000000000001097906362944045541740492309677311846336810682903157585404911491537163328978494688899061249669721172515611590283743140088328307009198146046031271664502933027185697489699588559043338384466165001178426897626212945177628091195786707458122783970171784415105291802893207873272974885715430223118336 / 1)) (Fin (2955 / 1024)) (Fin (1305 / 256)) (Fin (1051 / 128)) false true true ((Fin (457 / 1024)) :: (Fin (1305 / 1024)) :: (Fin (479 / 256)) :: (Fin (63117 / 1024)) :: (Fin (907 / 128)) :: (Fin (38087 / 512)) :: nil)) (9 / 2).
Proof. apply (A41_rio_fin _ (35 / 8)); [reflexivity | apply (A41_q_lo 35 8 9 2); [vm_compute; reflexivity | unfold fr, ctol, A41_lo, A41_c, A41_e; interval with (i_prec 80)]]. Qed.
Lemma r_A41_1153 : rio_reads A41_c A41_e A41_lo A41_hi floor_volts ctol (Build_rio (Fin (75 / 16)) (Fin (5 / 1)) (Fin (3715469692580659 / 1125899906842624)) (Fin (6 / 1)) (Fin (12 / 1)) true true true ((Fin (0 / 1)) :: (Fin (0 / 1)) :: (Fin (0 / 1)) :: (Fin (0 / 1)) :: (Fin (27 / 4)) :: (Fin (45 / 1)) :: nil)) (9 / 2).
Proof. apply (A41_rio_fin _ (75 / 16)); [reflexivity | apply (A41_q_lo 75 16 9 2); [vm_compute; reflexivity | unfold fr, ctol, A41_lo, A41_c, A41_e; interval with (i_prec 80)]]. Qed.
Lemma r_A41_1169 : rio_reads A41_c A41_e A41_lo A41_hi floor_volts ctol (Build_rio (Fin (1352370729033501 / 281474976710656)) (Fin (5 / 1)) (Fin (3715469692580659 / 1125899906842624)) (Fin (100000000000000001097906362944045541740492309677311846336810682903157585404911491537163328978494688899061249669721172515611590283743140088328307009198146046031271664502933027185697489699588559043338384466165001178426897626212945177628091195786707458122783970171784415105291802893207873272974885715430223118336 / 1)) (Fin (10059 / 1024)) true true true ((Fin (2315 / 1024)) :: (Fin (1523 / 1024)) :: (Fin (635 / 512)) :: (Fin (17141 / 1024)) :: (Fin (4011 / 512)) :: (Fin ((-219) / 32)) :: nil)) (9 / 2).
Proof. apply (A41_rio_fin _ (1352370729033501 / 281474976710656)); [reflexivity | apply (A41_q_lo 1352370729033501 281474976710656 9 2); [vm_compute; reflexivity | unfold fr, ctol, A41_lo, A41_c, A41_e; interval with (i_prec 80)]]. Qed.
Lemma r_A41_1185 : rio_reads A41_c A41_e A41_lo A41_hi floor_volts ctol (Build_rio (Fin (2123320530747831 / 562949953421312)) (Fin (4517 / 1024)) (Fin (1701 / 512)) (Fin (3073 / 512)) (Fin (12959 / 1024)) true true true ((Fin (59 / 1024)) :: (Fin (1515 / 1024)) :: (Fin (2529 / 1024)) :: (Fin (1257 / 1024)) :: (Fin (4823 / 1024)) :: (Fin ((-7053) / 1024)) :: nil)) (9 / 2).
Proof. apply (A41_rio_fin _ (2123320530747831 / 562949953421312)); [reflexivity | apply (A41_q_lo 2123320530747831 562949953421312 9 2); [vm_compute; reflexivity | unfold fr, ctol, A41_lo, A41_c, A41_e; interval with (i_prec 80)]]. Qed.
Lemma r_A41_1201 : rio_reads A41_c A41_e A41_lo A41_hi floor_volts ctol (Build_rio (Fin (697547693405105 / 9007199254740992)) (Fin (5 / 1)) (Fin (3715469692580659 / 1125899906842624)) (Fin (6 / 1)) (Fin (12 / 1)) true true true ((Fin (0 / 1)) :: (Fin (0 / 1)) :: (Fin (0 / 1)) :: (Fin (0 / 1)) :: (Fin (27 / 4)) :: (Fin (45 / 1)) :: nil)) (35 / 1).
Proof. apply (A41_rio_fin _ (697547693405105 / 9007199254740992)); [reflexivity | apply (A41_q_hi 697547693405105 9007199254740992 35 1); [vm_compute; reflexivity | unfold fr, ctol, A41_hi, A41_c, A41_e; interval with (i_prec 80)]]. Qed.
Lemma r_A41_1217 : rio_reads A41_c A41_e A41_lo A41_hi floor_volts ctol (Build_rio (Fin (322883197812901 / 70368744177664)) (Fin (9061 / 1024)) (Fin (399 / 128)) (Fin (1593 / 256)) (Fin (14165 / 1024)) true false true ((Fin (815 / 1024)) :: (Fin (1191 / 1024)) :: (Fin (1029 / 512)) :: (Fin (88715 / 512)) :: (Fin (8219 / 1024)) :: (Fin (2261 / 32)) :: nil)) (9 / 2).
Proof. apply (A41_rio_fin _ (322883197812901 / 70368744177664)); [reflexivity | apply (A41_q_lo 322883197812901 70368744177664 9 2); [vm_compute; reflexivity | unfold fr, ctol, A41_lo, A41_c, A41_e; interval with (i_prec 80)]]. Qed.
Lemma r_A41_1235 : rio_reads A41_c A41_e A41_lo A41_hi floor_volts ctol (Build_rio (Fin (7748928249370293 / 4503599627370496)) (Fin (2619 / 512)) (Fin (3259 / 1024)) (Fin (5503 / 1024)) (Fin (5323 / 512)) false true false ((Fin (501 / 512)) :: (Fin (1449 / 1024)) :: (Fin (575 / 1024)) :: (Fin (90537 / 512)) :: (Fin (3283 / 1024)) :: (Fin (6067 / 128)) :: nil)) (8482638175502611 / 1125899906842624).
Proof. apply (A41_rio_fin _ (7748928249370293 / 4503599627370496)); [reflexivity | apply (A41_q_mid 7748928249370293 4503599627370496 8482638175502611 1125899906842624); [vm_compute; reflexivity | unfold fr, close, ctol, A41_c, A41_e; interval with (i_prec 80)]]. Qed.
Lemma r_A41_1257 : rio_reads A41_c A41_e A41_lo A41_hi floor_volts ctol (Build_rio (Fin (609323871290865 / 576460752303423488)) (Fin (4671 / 1024)) (Fin (3715469692580659 / 1125899906842624)) (Fin (1 / 202402253307310618352495346718917307049556649764142118356901358027430339567995346891960383701437124495187077864316811911389808737385793476867013399940738509921517424276566361364466907742093216341239767678472745068562007483424692698618103355649159556340810056512358769552333414615230502532186327508646006263307707741093494784)) (Fin (5195 / 512)) true false true ((Fin (1595 / 1024)) :: (Fin (777 / 1024)) :: (Fin (817 / 1024)) :: (Fin (93445 / 512)) :: (Fin (8471 / 1024)) :: (Fin ((-15975) / 1024)) :: nil)) (35 / 1).
Proof. apply (A41_rio_fin _ (609323871290865 / 576460752303423488)); [reflexivity | apply (A41_q_hi 609323871290865 576460752303423488 35 1); [vm_compute; reflexivity | unfold fr, ctol, A41_hi, A41_c, A41_e; interval with (i_prec 80)]]. Qed.
Lemma d_A41_1336r : rio_reads A41_c A41_e A41_lo A41_hi floor_volts ctol (Build_rio (Fin (6491044311201869 / 18014398509481984)) (Fin (0 / 1)) (Fin (0 / 1)) (Fin (0 / 1)) (Fin (12 / 1)) false false false ((Fin (0 / 1)) :: (Fin (0 / 1)) :: (Fin (0 / 1)) :: (Fin (0 / 1)) :: (Fin (27 / 4)) :: (Fin (45 / 1)) :: nil)) (35 / 1).
Proof. apply (A41_rio_fin _ (6491044311201869 / 18014398509481984)); [reflexivity | apply (A41_q_hi 6491044311201869 18014398509481984 35 1); [vm_compute; reflexivity | unfold fr, ctol, A41_hi, A41_c, A41_e; interval with (i_prec 80)]]. Qed.
Lemma d_A41_1344r : rio_reads A41_c A41_e A41_lo A41_hi floor_volts ctol (Build_rio (Fin (6491044311201869 / 18014398509481984)) (Fin (5 / 1)) (Fin (3715469692580659 / 1125899906842624)) (Fin (6 / 1)) (Fin (12 / 1)) true true true ((Fin (0 / 1)) :: (Fin (0 / 1)) :: (Fin (0 / 1)) :: (Fin (0 / 1)) :: (Fin (27 / 4)) :: (Fin (45 / 1)) :: nil)) (35 / 1).
Proof. apply (A41_rio_fin _ (6491044311201869 / 18014398509481984)); [reflexivity | apply (A41_q_hi 6491044311201869 18014398509481984 35 1); [vm_compute; reflexivity | unfold fr, ctol, A41_hi, A41_c, A41_e; interval with (i_prec 80)]]. Qed.
Lemma d_A41_1352r : rio_reads A41_c A41_e A41_lo A41_hi floor_volts ctol (Build_rio (Fin (1636741441258383 / 562949953421312)) (Fin (0 / 1)) (Fin (3715469692580659 / 1125899906842624)) (Fin (6 / 1)) (Fin (12 / 1)) true true true ((Fin (0 / 1)) :: (Fin (0 / 1)) :: (Fin (0 / 1)) :: (Fin (0 / 1)) :: (Fin (27 / 4)) :: (Fin (45 / 1)) :: nil)) (9 / 2).
Proof. apply (A41_rio_fin _ (1636741441258383 / 562949953421312)); [reflexivity | apply (A41_q_lo 1636741441258383 562949953421312 9 2); [vm_compute; reflexivity | unfold fr, ctol, A41_lo, A41_c, A41_e; interval with (i_prec 80)]]. Qed.
Lemma d_A41_1360r : rio_reads A41_c A41_e A41_lo A41_hi floor_volts ctol (Build_rio (Fin (1636741441258383 / 562949953421312)) PInf (Fin (3715469692580659 / 1125899906842624)) (Fin (6 / 1)) (Fin (12 / 1)) true true true ((Fin (0 / 1)) :: (Fin (0 / 1)) :: (Fin (0 / 1)) :: (Fin (0 / 1)) :: (Fin (27 / 4)) :: (Fin (45 / 1)) :: nil)) (9 / 2).
Proof. apply (A41_rio_fin _ (1636741441258383 / 562949953421312)); [reflexivity | apply (A41_q_lo 1636741441258383 562949953421312 9 2); [vm_compute; reflexivity | unfold fr, ctol, A41_lo, A41_c, A41_e; interval with (i_prec 80)]]. Qed.
Lemma d_A41_1368r : rio_reads A41_c A41_e A41_lo A41_hi floor_volts ctol (Build_rio (Fin (6491044311201869 / 18014398509481984)) (Fin (5 / 1)) (Fin (3715469692580659 / 1125899906842624)) (Fin (6 / 1)) (Fin ((-1) / 1)) true true true ((Fin (0 / 1)) :: (Fin (0 / 1)) :: (Fin (0 / 1)) :: (Fin (0 / 1)) :: (Fin (27 / 4)) :: (Fin (45 / 1)) :: nil)) (35 / 1).
Proof. apply (A41_rio_fin _ (6491044311201869 / 18014398509481984)); [reflexivity | apply (A41_q_hi 6491044311201869 18014398509481984 35 1); [vm_compute; reflexivity | unfold fr, ctol, A41_hi, A41_c, A41_e; interval with (i_prec 80)]]. Qed.
Lemma d_A41_1376r : rio_reads A41_c A41_e A41_lo A41_hi floor_volts ctol (Build_rio (Fin (6491044311201869 / 18014398509481984)) (Fin (5 / 1)) (Fin ((-1) / 1)) (Fin (6 / 1)) (Fin (12 / 1)) true true true ((Fin (0 / 1)) :: (Fin (0 / 1)) :: (Fin (0 / 1)) :: (Fin (0 / 1)) :: (Fin (27 / 4)) :: (Fin (45 / 1)) :: nil)) (35 / 1).
Proof. apply (A41_rio_fin _ (6491044311201869 / 18014398509481984)); [reflexivity | apply (A41_q_hi 6491044311201869 18014398509481984 35 1); [vm_compute; reflexivity | unfold fr, ctol, A41_hi, A41_c, A41_e; interval with (i_prec 80)]]. Qed.
Lemma d_A41_1384r : rio_reads A41_c A41_e A41_lo A41_hi floor_volts ctol (Build_rio (Fin (6491044311201869 / 18014398509481984)) (Fin (5 / 1)) (Fin (3715469692580659 / 1125899906842624)) (Fin (6 / 1)) (Fin (12 / 1)) false true true ((Fin (0 / 1)) :: (Fin (0 / 1)) :: (Fin (0 / 1)) :: (Fin (0 / 1)) :: (Fin (27 / 4)) :: (Fin (45 / 1)) :: nil)) (35 / 1).
Proof. apply (A41_rio_fin _ (6491044311201869 / 18014398509481984)); [reflexivity | apply (A41_q_hi 6491044311201869 18014398509481984 35 1); [vm_compute; reflexivity | unfold fr, ctol, A41_hi, A41_c, A41_e; interval with (i_prec 80)]]. Qed.
Lemma d_A41_1394u : close ctol (4571719996272351 / 2251799813685248) (volts_A41 (7209876733822039 / 1125899906842624)).
Proof. apply (A41_q_volts_mid 7209876733822039 1125899906842624 4571719996272351 2251799813685248); [vm_compute; reflexivity | unfold fr, close, ctol, A41_lo, A41_hi, A41_c, A41_e; interval with (i_prec 80)]. Qed.
Lemma d_A41_1407u : close ctol (615911027940451 / 281474976710656) (volts_A41 (6698414135434303 / 1125899906842624)).
Proof. apply (A41_q_volts_mid 6698414135434303 1125899906842624 615911027940451 281474976710656); [vm_compute; reflexivity | unfold fr, close, ctol, A41_lo, A41_hi, A41_c, A41_e; interval with (i_prec 80)]. Qed.
Lemma d_A41_1420u : close ctol (1636741441258383 / 562949953421312) (volts_A41 (2333211582662127 / 562949953421312)).
Proof. apply (A41_q_volts_lo 2333211582662127 562949953421312 1636741441258383 562949953421312); [vm_compute; reflexivity | unfold fr, close, ctol, A41_lo, A41_hi, A41_c, A41_e; interval with (i_prec 80)]. Qed.
Lemma d_A41_1432r : rio_reads A41_c A41_e A41_lo A41_hi floor_volts ctol (Build_rio (Fin (6491044311201869 / 18014398509481984)) (Fin (5 / 1)) (Fin (3715469692580659 / 1125899906842624)) (Fin (6 / 1)) (Fin (12203 / 1024)) true false true ((Fin (47 / 512)) :: (Fin (541 / 1024)) :: (Fin (223 / 256)) :: (Fin (5223 / 32)) :: (Fin (9089 / 1024)) :: (Fin ((-4629) / 256)) :: nil)) (35 / 1).
Proof. apply (A41_rio_fin _ (6491044311201869 / 18014398509481984)); [reflexivity | apply (A41_q_hi 6491044311201869 18014398509481984 35 1); [vm_compute; reflexivity | unfold fr, ctol, A41_hi, A41_c, A41_e; interval with (i_prec 80)]]. Qed.
Lemma d_A41_1445u : close ctol (307191946393493 / 562949953421312) (volts_A41 (1638230211786777 / 70368744177664)).
Proof. apply (A41_q_volts_mid 1638230211786777 70368744177664 307191946393493 562949953421312); [vm_compute; reflexivity | unfold fr, close, ctol, A41_lo, A41_hi, A41_c, A41_e; interval with (i_prec 80)]. Qed.
Lemma d_A41_1458u : close ctol (6850614029678871 / 18014398509481984) (volts_A41 (2335850383644685 / 70368744177664)).
Proof. apply (A41_q_volts_mid 2335850383644685 70368744177664 6850614029678871 18014398509481984); [vm_compute; reflexivity | unfold fr, close, ctol, A41_lo, A41_hi, A41_c, A41_e; interval with (i_prec 80)]. Qed.
Lemma d_A41_1471u : close ctol (1636741441258383 / 562949953421312) (volts_A41 ((-820287751530233) / 562949953421312)).
Proof. apply (A41_q_volts_lo (-820287751530233) 562949953421312 1636741441258383 562949953421312); [vm_compute; reflexivity | unfold fr, close, ctol, A41_lo, A41_hi, A41_c, A41_e; interval with (i_prec 80)]. Qed.
Lemma d_A41_1484u : close ctol (1636741441258383 / 562949953421312) (volts_A41 (0 / 1)).
Proof. apply (A41_q_volts_lo 0 1 1636741441258383 562949953421312); [vm_compute; reflexivity | unfold fr, close, ctol, A41_lo, A41_hi, A41_c, A41_e; interval with (i_prec 80)]. Qed.
Lemma d_A41_1496r : rio_reads A41_c A41_e A41_lo A41_hi floor_volts ctol (Build_rio (Fin (3449115091530623 / 4503599627370496)) (Fin (5 / 1)) (Fin (3715469692580659 / 1125899906842624)) (Fin (6 / 1)) (Fin (12 / 1)) true true true ((Fin (0 / 1)) :: (Fin (0 / 1)) :: (Fin (0 / 1)) :: (Fin (0 / 1)) :: (Fin (27 / 4)) :: (Fin (45 / 1)) :: nil)) (1174242826445871 / 70368744177664).
Proof. apply (A41_rio_fin _ (3449115091530623 / 4503599627370496)); [reflexivity | apply (A41_q_mid 3449115091530623 4503599627370496 1174242826445871 70368744177664); [vm_compute; reflexivity | unfold fr, close, ctol, A41_c, A41_e; interval with (i_prec 80)]]. Qed.
Lemma d_A41_1509u : close ctol (744190998079453 / 281474976710656) (volts_A41 (2781132601576767 / 562949953421312)).
Proof. apply (A41_q_volts_mid 2781132601576767 562949953421312 744190998079453 281474976710656); [vm_compute; reflexivity | unfold fr, close, ctol, A41_lo, A41_hi, A41_c, A41_e; interval with (i_prec 80)]. Qed.
Lemma d_A41_1522u : close ctol (1872332300697857 / 1125899906842624) (volts_A41 (8771405804401775 / 1125899906842624)).
Proof. apply (A41_q_volts_mid 8771405804401775 1125899906842624 1872332300697857 1125899906842624); [vm_compute; reflexivity | unfold fr, close, ctol, A41_lo, A41_hi, A41_c, A41_e; interval with (i_prec 80)]. Qed.
Lemma d_A41_1535u : close ctol (5713480129030457 / 9007199254740992) (volts_A41 (2826080585634263 / 140737488355328)).
Proof. apply (A41_q_volts_mid 2826080585634263 140737488355328 5713480129030457 9007199254740992); [vm_compute; reflexivity | unfold fr, close, ctol, A41_lo, A41_hi, A41_c, A41_e; interval with (i_prec 80)]. Qed.
Lemma d_A41_1548u : close ctol (6491044311201869 / 18014398509481984) (volts_A41 (6572973787306293 / 140737488355328)).
Proof. apply (A41_q_volts_hi 6572973787306293 140737488355328 6491044311201869 18014398509481984); [vm_compute; reflexivity | unfold fr, close, ctol, A41_lo, A41_hi, A41_c, A41_e; interval with (i_prec 80)]. Qed.
Lemma d_A41_1560r : rio_reads A41_c A41_e A41_lo A41_hi floor_volts ctol (Build_rio (Fin (6801877498112909 / 9007199254740992)) (Fin (91 / 128)) (Fin ((-1) / 1)) (Fin (6 / 1)) (Fin ((-1) / 1)) true false false ((Fin (673 / 1024)) :: (Fin (849 / 512)) :: (Fin (717 / 512)) :: (Fin (63631 / 512)) :: (Fin (7181 / 1024)) :: (Fin (19153 / 512)) :: nil)) (4762327596050399 / 281474976710656).
Proof. apply (A41_rio_fin _ (6801877498112909 / 9007199254740992)); [reflexivity | apply (A41_q_mid 6801877498112909 9007199254740992 4762327596050399 281474976710656); [vm_compute; reflexivity | unfold fr, close, ctol, A41_c, A41_e; interval with (i_prec 80)]]. Qed.
Lemma d_A41_1573u : close ctol (6164548373821533 / 4503599627370496) (volts_A41 (5309980560284811 / 562949953421312)).
Proof. apply (A41_q_volts_mid 5309980560284811 562949953421312 6164548373821533 4503599627370496); [vm_compute; reflexivity | unfold fr, close, ctol, A41_lo, A41_hi, A41_c, A41_e; interval with (i_prec 80)]. Qed.
Lemma d_A41_1586u : close ctol (2617020261168629 / 2251799813685248) (volts_A41 (6236004009133301 / 562949953421312)).
Proof. apply (A41_q_volts_mid 6236004009133301 562949953421312 2617020261168629 2251799813685248); [vm_compute; reflexivity | unfold fr, close, ctol, A41_lo, A41_hi, A41_c, A41_e; interval with (i_prec 80)]. Qed.
Lemma d_A41_1599u : close ctol (8351160891640931 / 4503599627370496) (volts_A41 (7 / 1)).
Proof. apply (A41_q_volts_mid 7 1 8351160891640931 4503599627370496); [vm_compute; reflexivity | unfold fr, close, ctol, A41_lo, A41_hi, A41_c, A41_e; interval with (i_prec 80)]. Qed.
Lemma d_A41_1612u : close ctol (5248751010035503 / 9007199254740992) (volts_A41 (6143428663957821 / 281474976710656)).
Proof. apply (A41_q_volts_mid 6143428663957821 281474976710656 5248751010035503 9007199254740992); [vm_compute; reflexivity | unfold fr, close, ctol, A41_lo, A41_hi, A41_c, A41_e; interval with (i_prec 80)]. Qed.
Lemma d_A41_1624r : rio_reads A41_c A41_e A41_lo A41_hi floor_volts ctol (Build_rio (Fin (3012039077992667 / 1125899906842624)) (Fin (2737 / 512)) (Fin (2867 / 1024)) (Fin (2511 / 512)) (Fin (10811 / 1024)) true false false ((Fin (71 / 128)) :: (Fin (235 / 128)) :: (Fin (277 / 256)) :: (Fin (3545 / 256)) :: (Fin (3355 / 1024)) :: (Fin ((-4921) / 512)) :: nil)) (5498263363765507 / 1125899906842624).
Proof. apply (A41_rio_fin _ (3012039077992667 / 1125899906842624)); [reflexivity | apply (A41_q_mid 3012039077992667 1125899906842624 5498263363765507 1125899906842624); [vm_compute; reflexivity | unfold fr, close, ctol, A41_c, A41_e; interval with (i_prec 80)]]. Qed.
Lemma d_A41_1637u : close ctol (3569754533487507 / 9007199254740992) (volts_A41 (8971847583716145 / 281474976710656)).
Proof. apply (A41_q_volts_mid 8971847583716145 281474976710656 3569754533487507 9007199254740992); [vm_compute; reflexivity | unfold fr, close, ctol, A41_lo, A41_hi, A41_c, A41_e; interval with (i_prec 80)]. Qed.
Lemma d_A41_1650u : close ctol (1139751644494557 / 2251799813685248) (volts_A41 (881921064730571 / 35184372088832)).
Proof. apply (A41_q_volts_mid 881921064730571 35184372088832 1139751644494557 2251799813685248); [vm_compute; reflexivity | unfold fr, close, ctol, A41_lo, A41_hi, A41_c, A41_e; interval with (i_prec 80)]. Qed.
Lemma d_A41_1663u : close ctol (6671532781075481 / 18014398509481984) (volts_A41 (4794865447515157 / 140737488355328)).
Proof. apply (A41_q_volts_mid 4794865447515157 140737488355328 6671532781075481 18014398509481984); [vm_compute; reflexivity | unfold fr, close, ctol, A41_lo, A41_hi, A41_c, A41_e; interval with (i_prec 80)]. Qed.
Lemma d_A41_1676u : close ctol (6491044311201869 / 18014398509481984) (volts_A41 (5115142301399331 / 140737488355328)).
Proof. apply (A41_q_volts_hi 5115142301399331 140737488355328 6491044311201869 18014398509481984); [vm_compute; reflexivity | unfold fr, close, ctol, A41_lo, A41_hi, A41_c, A41_e; interval with (i_prec 80)]. Qed.
Lemma d_A41_1688r : rio_reads A41_c A41_e A41_lo A41_hi floor_volts ctol (Build_rio (Fin (675922910322757 / 562949953421312)) (Fin (5 / 1)) (Fin (3715469692580659 / 1125899906842624)) (Fin (6 / 1)) (Fin (12 / 1)) true true true ((Fin (0 / 1)) :: (Fin (0 / 1)) :: (Fin (0 / 1)) :: (Fin (0 / 1)) :: (Fin (27 / 4)) :: (Fin (45 / 1)) :: nil)) (3019780372069893 / 281474976710656).
Proof. apply (A41_rio_fin _ (675922910322757 / 562949953421312)); [reflexivity | apply (A41_q_mid 675922910322757 562949953421312 3019780372069893 281474976710656); [vm_compute; reflexivity | unfold fr, close, ctol, A41_c, A41_e; interval with (i_prec 80)]]. Qed.
Lemma d_A41_1701u : close ctol (6491044311201869 / 18014398509481984) (volts_A41 (1814010409102541 / 17592186044416)).
Proof. apply (A41_q_volts_hi 1814010409102541 17592186044416 6491044311201869 18014398509481984); [vm_compute; reflexivity | unfold fr, close, ctol, A41_lo, A41_hi, A41_c, A41_e; interval with (i_prec 80)]. Qed.
Lemma d_A41_1714u : close ctol (6491044311201869 / 18014398509481984) (volts_A41 (5036195630321185 / 140737488355328)).
Proof. apply (A41_q_volts_hi 5036195630321185 140737488355328 6491044311201869 18014398509481984); [vm_compute; reflexivity | unfold fr, close, ctol, A41_lo, A41_hi, A41_c, A41_e; interval with (i_prec 80)]. Qed.
Lemma d_A41_1727u : close ctol (6491044311201869 / 18014398509481984) (volts_A41 (323571018755525 / 4398046511104)).
Proof. apply (A41_q_volts_hi 323571018755525 4398046511104 6491044311201869 18014398509481984); [vm_compute; reflexivity | unfold fr, close, ctol, A41_lo, A41_hi, A41_c, A41_e; interval with (i_prec 80)]. Qed.
Lemma d_A41_1740u : close ctol (6491044311201869 / 18014398509481984) (volts_A41 (3499732514505571 / 35184372088832)).
Proof. apply (A41_q_volts_hi 3499732514505571 35184372088832 6491044311201869 18014398509481984); [vm_compute; reflexivity | unfold fr, close, ctol, A41_lo, A41_hi, A41_c, A41_e; interval with (i_prec 80)]. Qed.
Lemma d_A41_1752r : rio_reads A41_c A41_e A41_lo A41_hi floor_volts ctol (Build_rio (Fin (3686534428826225 / 4503599627370496)) (Fin (5 / 1)) (Fin (3573 / 1024)) (Fin (6 / 1)) (Fin (5735 / 512)) true true true ((Fin (175 / 256)) :: (Fin (1415 / 1024)) :: (Fin (613 / 256)) :: (Fin (83665 / 1024)) :: (Fin (3119 / 1024)) :: (Fin (84227 / 1024)) :: nil)) (4399629708002679 / 281474976710656).
Proof. apply (A41_rio_fin _ (3686534428826225 / 4503599627370496)); [reflexivity | apply (A41_q_mid 3686534428826225 4503599627370496 4399629708002679 281474976710656); [vm_compute; reflexivity | unfold fr, close, ctol, A41_c, A41_e; interval with (i_prec 80)]]. Qed.
Lemma d_A41_1765u : close ctol (563457372736989 / 1125899906842624) (volts_A41 (445894698493749 / 17592186044416)).
Proof. apply (A41_q_volts_mid 445894698493749 17592186044416 563457372736989 1125899906842624); [vm_compute; reflexivity | unfold fr, close, ctol, A41_lo, A41_hi, A41_c, A41_e; interval with (i_prec 80)]. Qed.
Lemma d_A41_1778u : close ctol (2649762718645341 / 4503599627370496) (volts_A41 (6085599893305443 / 281474976710656)).
Proof. apply (A41_q_volts_mid 6085599893305443 281474976710656 2649762718645341 4503599627370496); [vm_compute; reflexivity | unfold fr, close, ctol, A41_lo, A41_hi, A41_c, A41_e; interval with (i_prec 80)]. Qed.
Lemma d_A41_1791u : close ctol (1636741441258383 / 562949953421312) (volts_A41 (3 / 1)).
Proof. apply (A41_q_volts_lo 3 1 1636741441258383 562949953421312); [vm_compute; reflexivity | unfold fr, close, ctol, A41_lo, A41_hi, A41_c, A41_e; interval with (i_prec 80)]. Qed.
Lemma d_A41_1804u : close ctol (3750846365429105 / 9007199254740992) (volts_A41 (8546124301991353 / 281474976710656)).
Proof. apply (A41_q_volts_mid 8546124301991353 281474976710656 3750846365429105 9007199254740992); [vm_compute; reflexivity | unfold fr, close, ctol, A41_lo, A41_hi, A41_c, A41_e; interval with (i_prec 80)]. Qed.
Lemma d_A41_1816r : rio_reads A41_c A41_e A41_lo A41_hi floor_volts ctol (Build_rio (Fin (1500169032507779 / 2251799813685248)) (Fin (4745 / 1024)) (Fin (3591 / 1024)) (Fin (2765 / 512)) (Fin (12077 / 1024)) true false false ((Fin (881 / 1024)) :: (Fin (1663 / 1024)) :: (Fin (1461 / 512)) :: (Fin (11793 / 128)) :: (Fin (981 / 128)) :: (Fin (45995 / 512)) :: nil)) (2693146297895285 / 140737488355328).
Proof. apply (A41_rio_fin _ (1500169032507779 / 2251799813685248)); [reflexivity | apply (A41_q_mid 1500169032507779 2251799813685248 2693146297895285 140737488355328); [vm_compute; reflexivity | unfold fr, close, ctol, A41_c, A41_e; interval with (i_prec 80)]]. Qed.
Lemma d_A41_1829u : close ctol (6491044311201869 / 18014398509481984) (volts_A41 (5216109570272091 / 1099511627776)).
Proof. apply (A41_q_volts_hi 5216109570272091 1099511627776 6491044311201869 18014398509481984); [vm_compute; reflexivity | unfold fr, close, ctol, A41_lo, A41_hi, A41_c, A41_e; interval with (i_prec 80)]. Qed.
Lemma d_A41_1842u : close ctol (6491044311201869 / 18014398509481984) (volts_A41 (3182559223480863 / 70368744177664)).
Proof. apply (A41_q_volts_hi 3182559223480863 70368744177664 6491044311201869 18014398509481984); [vm_compute; reflexivity | unfold fr, close, ctol, A41_lo, A41_hi, A41_c, A41_e; interval with (i_prec 80)]. Qed.
Lemma d_A41_1855u : close ctol (7653712614458701 / 9007199254740992) (volts_A41 (8482186170091501 / 562949953421312)).
Proof. apply (A41_q_volts_mid 8482186170091501 562949953421312 7653712614458701 9007199254740992); [vm_compute; reflexivity | unfold fr, close, ctol, A41_lo, A41_hi, A41_c, A41_e; interval with (i_prec 80)]. Qed.
Lemma d_A41_1868u : close ctol (1636741441258383 / 562949953421312) (volts_A41 ((-2108889469550931) / 2251799813685248)).
Proof. apply (A41_q_volts_lo (-2108889469550931) 2251799813685248 1636741441258383 562949953421312); [vm_compute; reflexivity | unfold fr, close, ctol, A41_lo, A41_hi, A41_c, A41_e; interval with (i_prec 80)]. Qed.
Lemma d_A41_1880r : rio_reads A41_c A41_e A41_lo A41_hi floor_volts ctol (Build_rio (Fin (2946180723389199 / 2251799813685248)) (Fin (5 / 1)) (Fin (3715469692580659 / 1125899906842624)) (Fin (6 / 1)) (Fin (12 / 1)) true true true ((Fin (0 / 1)) :: (Fin (0 / 1)) :: (Fin (0 / 1)) :: (Fin (0 / 1)) :: (Fin (27 / 4)) :: (Fin (45 / 1)) :: nil)) (1387712998282801 / 140737488355328).
Proof. apply (A41_rio_fin _ (2946180723389199 / 2251799813685248)); [reflexivity | apply (A41_q_mid 2946180723389199 2251799813685248 1387712998282801 140737488355328); [vm_compute; reflexivity | unfold fr, close, ctol, A41_c, A41_e; interval with (i_prec 80)]]. Qed.
Lemma d_A41_1893u : close ctol (6491044311201869 / 18014398509481984) (volts_A41 (40 / 1)).
Proof. apply (A41_q_volts_hi 40 1 6491044311201869 18014398509481984); [vm_compute; reflexivity | unfold fr, close, ctol, A41_lo, A41_hi, A41_c, A41_e; interval with (i_prec 80)]. Qed.
Lemma d_A41_1906u : close ctol (2294115286059525 / 4503599627370496) (volts_A41 (3505609458128401 / 140737488355328)).
Proof. apply (A41_q_volts_mid 3505609458128401 140737488355328 2294115286059525 4503599627370496); [vm_compute; reflexivity | unfold fr, close, ctol, A41_lo, A41_hi, A41_c, A41_e; interval with (i_prec 80)]. Qed.
Lemma d_A41_1919u : close ctol (2575929538998513 / 2251799813685248) (volts_A41 (791714388370051 / 70368744177664)).
Proof. apply (A41_q_volts_mid 791714388370051 70368744177664 2575929538998513 2251799813685248); [vm_compute; reflexivity | unfold fr, close, ctol, A41_lo, A41_hi, A41_c, A41_e; interval with (i_prec 80)]. Qed.
Lemma d_A41_1932u : close ctol (6491044311201869 / 18014398509481984) (volts_A41 (7322833475838567 / 70368744177664)).
Proof. apply (A41_q_volts_hi 7322833475838567 70368744177664 6491044311201869 18014398509481984); [vm_compute; reflexivity | unfold fr, close, ctol, A41_lo, A41_hi, A41_c, A41_e; interval with (i_prec 80)]. Qed.
Lemma d_A41_1944r : rio_reads A41_c A41_e A41_lo A41_hi floor_volts ctol (Build_rio (Fin (3555493372303691 / 9007199254740992)) (Fin (5079 / 1024)) (Fin (1529 / 512)) (Fin (6 / 1)) (Fin (12 / 1)) false true true ((Fin (949 / 1024)) :: (Fin (29 / 128)) :: (Fin (793 / 512)) :: (Fin (39217 / 512)) :: (Fin (6653 / 1024)) :: (Fin (98219 / 1024)) :: nil)) (9007199254740991 / 281474976710656).
Proof. apply (A41_rio_fin _ (3555493372303691 / 9007199254740992)); [reflexivity | apply (A41_q_mid 3555493372303691 9007199254740992 9007199254740991 281474976710656); [vm_compute; reflexivity | unfold fr, close, ctol, A41_c, A41_e; interval with (i_prec 80)]]. Qed.
Lemma d_A41_1957u : close ctol (1628185679280427 / 2251799813685248) (volts_A41 (2484975625987223 / 140737488355328)).
Proof. apply (A41_q_volts_mid 2484975625987223 140737488355328 1628185679280427 2251799813685248); [vm_compute; reflexivity | unfold fr, close, ctol, A41_lo, A41_hi, A41_c, A41_e; interval with (i_prec 80)]. Qed.
Lemma d_A41_1970u : close ctol (6491044311201869 / 18014398509481984) (volts_A41 (1868252811060219 / 8796093022208)).
Proof. apply (A41_q_volts_hi 1868252811060219 8796093022208 6491044311201869 18014398509481984); [vm_compute; reflexivity | unfold fr, close, ctol, A41_lo, A41_hi, A41_c, A41_e; interval with (i_prec 80)]. Qed.
Lemma d_A41_1983u : close ctol (6548574422847693 / 18014398509481984) (volts_A41 (1220824122977081 / 35184372088832)).
Proof. apply (A41_q_volts_mid 1220824122977081 35184372088832 6548574422847693 18014398509481984); [vm_compute; reflexivity | unfold fr, close, ctol, A41_lo, A41_hi, A41_c, A41_e; interval with (i_prec 80)]. Qed.
Lemma d_A41_1996u : close ctol (6491044311201869 / 18014398509481984) (volts_A41 (367628034594651 / 4398046511104)).
Proof. apply (A41_q_volts_hi 367628034594651 4398046511104 6491044311201869 18014398509481984); [vm_compute; reflexivity | unfold fr, close, ctol, A41_lo, A41_hi, A41_c, A41_e; interval with (i_prec 80)]. Qed.
Lemma r_A02_22 : rio_reads A02_c A02_e A02_lo A02_hi floor_volts ctol (Build_rio (Fin (6032057205060441 / 6032057205060440848842124543157735677050252251748505781796615064961622344493727293370973578138265743708225425014400837164813540499979063179105919597766951022193355091707896034850684039059079180396788349106095584290087446076413771468940477241550670753145517602931224392424029547429993824129889235158145614364972941312)) (Fin (5 / 1)) (Fin (3715469692580659 / 1125899906842624)) (Fin (6 / 1)) (Fin (5 / 1)) true true true ((Fin (0 / 1)) :: (Fin (0 / 1)) :: (Fin (0 / 1)) :: (Fin (0 / 1)) :: (Fin (27 / 4)) :: (Fin (45 / 1)) :: nil)) (145 / 1).
Proof. apply (A02_rio_fin _ (6032057205060441 / 6032057205060440848842124543157735677050252251748505781796615064961622344493727293370973578138265743708225425014400837164813540499979063179105919597766951022193355091707896034850684039059079180396788349106095584290087446076413771468940477241550670753145517602931224392424029547429993824129889235158145614364972941312)); [reflexivity | apply (A02_q_floor 6032057205060441 6032057205060440848842124543157735677050252251748505781796615064961622344493727293370973578138265743708225425014400837164813540499979063179105919597766951022193355091707896034850684039059079180396788349106095584290087446076413771468940477241550670753145517602931224392424029547429993824129889235158145614364972941312 145 1); vm_compute; reflexivity]. Qed.
Lemma d_A02_1c : close ctol (45 / 2) (clamp A02_lo A02_hi (0 / 1)).
Proof. apply (A02_q_clamp_lo 0 1 45 2); vm_compute; reflexivity. Qed.
Lemma d_A02_7g : get_distance (set_distance A02_c A02_e A02_lo A02_hi sim_init (5 / 1)) = (5 / 1).
Proof. cbn [get_distance set_distance sim_distance]. first [reflexivity | lra]. Qed.
Lemma d_A02_14c : close ctol (145 / 1) (clamp A02_lo A02_hi (150 / 1)).
Proof. apply (A02_q_clamp_hi 150 1 145 1); vm_compute; reflexivity. Qed.
Lemma d_A02_20g : get_distance (set_distance A02_c A02_e A02_lo A02_hi sim_init (0 / 1)) = (0 / 1).
Proof. cbn [get_distance set_distance sim_distance]. first [reflexivity | lra]. Qed.
Lemma d_A02_27c : close ctol (45 / 2) (clamp A02_lo A02_hi (1 / 1)).
Proof. apply (A02_q_clamp_lo 1 1 45 2); vm_compute; reflexivity. Qed.
Lemma d_A02_35c : close ctol (7036874417766401 / 70368744177664) (clamp A02_lo A02_hi (100 / 1)).
Proof. apply (A02_q_clamp_mid 100 1 7036874417766401 70368744177664); vm_compute; reflexivity. Qed.
Lemma d_A02_44c : close ctol (145 / 1) (clamp A02_lo A02_hi (145 / 1)).
Proof. apply (A02_q_clamp_hi 145 1 145 1); vm_compute; reflexivity. Qed.
Lemma d_A02_52c : close ctol (145 / 1) (clamp A02_lo A02_hi (2550866978991187 / 17592186044416)).
Proof. apply (A02_q_clamp_hi 2550866978991187 17592186044416 145 1); vm_compute; reflexivity. Qed.
Lemma d_A02_60c : close ctol (145 / 1) (clamp A02_lo A02_hi (7493889970790595 / 35184372088832)).
Proof. apply (A02_q_clamp_hi 7493889970790595 35184372088832 145 1); vm_compute; reflexivity. Qed.
Lemma d_A02_68c : close ctol (2477096406231263 / 35184372088832) (clamp A02_lo A02_hi (2477096406231263 / 35184372088832)).
Proof. apply (A02_q_clamp_mid 2477096406231263 35184372088832 2477096406231263 35184372088832); vm_compute; reflexivity. Qed.
Lemma d_A02_76c : close ctol (8118557462536569 / 70368744177664) (clamp A02_lo A02_hi (4059278731268285 / 35184372088832)).
Proof. apply (A02_q_clamp_mid 4059278731268285 35184372088832 8118557462536569 70368744177664); vm_compute; reflexivity. Qed.
Lemma d_A02_84c : close ctol (7795024066255357 / 70368744177664) (clamp A02_lo A02_hi (1948756016563839 / 17592186044416)).
Proof. apply (A02_q_clamp_mid 1948756016563839 17592186044416 7795024066255357 70368744177664); vm_compute; reflexivity. Qed.
Lemma d_A02_92c : close ctol (1135114743504083 / 8796093022208) (clamp A02_lo A02_hi (1135114743504083 / 8796093022208)).
Proof. apply (A02_q_clamp_mid 1135114743504083 8796093022208 1135114743504083 8796093022208); vm_compute; reflexivity. Qed.
Lemma d_A02_100c : close ctol (131 / 1) (clamp A02_lo A02_hi (131 / 1)).
Proof. apply (A02_q_clamp_mid 131 1 131 1); vm_compute; reflexivity. Qed.
Lemma d_A02_108c : close ctol (145 / 1) (clamp A02_lo A02_hi (167 / 1)).
Proof. apply (A02_q_clamp_hi 167 1 145 1); vm_compute; reflexivity. Qed.
Lemma d_A02_116c : close ctol (45 / 2) (clamp A02_lo A02_hi ((-8920843347092071) / 1125899906842624)).
Proof. apply (A02_q_clamp_lo (-8920843347092071) 1125899906842624 45 2); vm_compute; reflexivity. Qed.
Lemma d_A02_124c : close ctol (145 / 1) (clamp A02_lo A02_hi (5742890091518885 / 17592186044416)).
Proof. apply (A02_q_clamp_hi 5742890091518885 17592186044416 145 1); vm_compute; reflexivity. Qed.
Lemma d_A02_132c : close ctol (7990387776743303 / 281474976710656) (clamp A02_lo A02_hi (998798472092913 / 35184372088832)).
Proof. apply (A02_q_clamp_mid 998798472092913 35184372088832 7990387776743303 281474976710656); vm_compute; reflexivity. Qed.
Lemma d_A02_140c : close ctol (3838275549451577 / 70368744177664) (clamp A02_lo A02_hi (7676551098903155 / 140737488355328)).
Proof. apply (A02_q_clamp_mid 7676551098903155 140737488355328 3838275549451577 70368744177664); vm_compute; reflexivity. Qed.
Lemma d_A02_148c : close ctol (145 / 1) (clamp A02_lo A02_hi (615509043665325 / 2199023255552)).
Proof. apply (A02_q_clamp_hi 615509043665325 2199023255552 145 1); vm_compute; reflexivity. Qed.
Lemma d_A02_156c : close ctol (8824100295531331 / 70368744177664) (clamp A02_lo A02_hi (4412050147765665 / 35184372088832)).
Proof. apply (A02_q_clamp_mid 4412050147765665 35184372088832 8824100295531331 70368744177664); vm_compute; reflexivity. Qed.
Lemma d_A02_164c : close ctol (3473443525787203 / 35184372088832) (clamp A02_lo A02_hi (3473443525787203 / 35184372088832)).
Proof. apply (A02_q_clamp_mid 3473443525787203 35184372088832 3473443525787203 35184372088832); vm_compute; reflexivity. Qed.
Lemma d_A02_172c : close ctol (3879640019941591 / 70368744177664) (clamp A02_lo A02_hi (7759280039883183 / 140737488355328)).
Proof. apply (A02_q_clamp_mid 7759280039883183 140737488355328 3879640019941591 70368744177664); vm_compute; reflexivity. Qed.
Lemma d_A02_180c : close ctol (5003813694923367 / 35184372088832) (clamp A02_lo A02_hi (5003813694923367 / 35184372088832)).
Proof. apply (A02_q_clamp_mid 5003813694923367 35184372088832 5003813694923367 35184372088832); vm_compute; reflexivity. Qed.
Lemma d_A02_188c : close ctol (1165497651331795 / 8796093022208) (clamp A02_lo A02_hi (4661990605327179 / 35184372088832)).
Proof. apply (A02_q_clamp_mid 4661990605327179 35184372088832 1165497651331795 8796093022208); vm_compute; reflexivity. Qed.
Lemma d_A02_196c : close ctol (3606027748196001 / 70368744177664) (clamp A02_lo A02_hi (3606027748196001 / 70368744177664)).
Proof. apply (A02_q_clamp_mid 3606027748196001 70368744177664 3606027748196001 70368744177664); vm_compute; reflexivity. Qed.
Lemma d_A02_204c : close ctol (45 / 2) (clamp A02_lo A02_hi ((-933500848926831) / 562949953421312)).
Proof. apply (A02_q_clamp_lo (-933500848926831) 562949953421312 45 2); vm_compute; reflexivity. Qed.
Lemma d_A02_212c : close ctol (8308991043793959 / 70368744177664) (clamp A02_lo A02_hi (8308991043793959 / 70368744177664)).
Proof. apply (A02_q_clamp_mid 8308991043793959 70368744177664 8308991043793959 70368744177664); vm_compute; reflexivity. Qed.
Lemma d_A02_220c : close ctol (7542966107819329 / 140737488355328) (clamp A02_lo A02_hi (117858845434677 / 2199023255552)).
Proof. apply (A02_q_clamp_mid 117858845434677 2199023255552 7542966107819329 140737488355328); vm_compute; reflexivity. Qed.
Lemma d_A02_228c : close ctol (4262452737250719 / 70368744177664) (clamp A02_lo A02_hi (4262452737250719 / 70368744177664)).
Proof. apply (A02_q_clamp_mid 4262452737250719 70368744177664 4262452737250719 70368744177664); vm_compute; reflexivity. Qed.
Lemma d_A02_236c : close ctol (444008085824291 / 17592186044416) (clamp A02_lo A02_hi (444008085824291 / 17592186044416)).
Proof. apply (A02_q_clamp_mid 444008085824291 17592186044416 444008085824291 17592186044416); vm_compute; reflexivity. Qed.
Lemma d_A02_244c : close ctol (4097768949416857 / 35184372088832) (clamp A02_lo A02_hi (4097768949416857 / 35184372088832)).
Proof. apply (A02_q_clamp_mid 4097768949416857 35184372088832 4097768949416857 35184372088832); vm_compute; reflexivity. Qed.
Lemma d_A02_252c : close ctol (7265011271392179 / 281474976710656) (clamp A02_lo A02_hi (7265011271392179 / 281474976710656)).
Proof. apply (A02_q_clamp_mid 7265011271392179 281474976710656 7265011271392179 281474976710656); vm_compute; reflexivity. Qed.
Lemma d_A02_260c : close ctol (45 / 2) (clamp A02_lo A02_hi (2198868325044687 / 562949953421312)).
Proof. apply (A02_q_clamp_lo 2198868325044687 562949953421312 45 2); vm_compute; reflexivity. Qed.
Lemma d_A02_268c : close ctol (145 / 1) (clamp A02_lo A02_hi (2534594337119161 / 8796093022208)).
Proof. apply (A02_q_clamp_hi 2534594337119161 8796093022208 145 1); vm_compute; reflexivity. Qed.
Lemma d_A02_276c : close ctol (6455379486170655 / 70368744177664) (clamp A02_lo A02_hi (6455379486170655 / 70368744177664)).
Proof. apply (A02_q_clamp_mid 6455379486170655 70368744177664 6455379486170655 70368744177664); vm_compute; reflexivity. Qed.
Lemma d_A02_284c : close ctol (8171318217338129 / 70368744177664) (clamp A02_lo A02_hi (510707388583633 / 4398046511104)).
Proof. apply (A02_q_clamp_mid 510707388583633 4398046511104 8171318217338129 70368744177664); vm_compute; reflexivity. Qed.
Lemma d_A02_292c : close ctol (6287177424849927 / 140737488355328) (clamp A02_lo A02_hi (6287177424849927 / 140737488355328)).
Proof. apply (A02_q_clamp_mid 6287177424849927 140737488355328 6287177424849927 140737488355328); vm_compute; reflexivity. Qed.
Lemma d_A02_300c : close ctol (2527132097463467 / 17592186044416) (clamp A02_lo A02_hi (2527132097463467 / 17592186044416)).
Proof. apply (A02_q_clamp_mid 2527132097463467 17592186044416 2527132097463467 17592186044416); vm_compute; reflexivity. Qed.
Lemma d_A02_308c : close ctol (145 / 1) (clamp A02_lo A02_hi (2968770165578837 / 17592186044416)).
Proof. apply (A02_q_clamp_hi 2968770165578837 17592186044416 145 1); vm_compute; reflexivity. Qed.
Lemma d_A02_316c : close ctol (3469006591578671 / 35184372088832) (clamp A02_lo A02_hi (3469006591578671 / 35184372088832)).
Proof. apply (A02_q_clamp_mid 3469006591578671 35184372088832 3469006591578671 35184372088832); vm_compute; reflexivity. Qed.
Lemma d_A02_324c : close ctol (578950941438093 / 4398046511104) (clamp A02_lo A02_hi (4631607531504743 / 35184372088832)).
Proof. apply (A02_q_clamp_mid 4631607531504743 35184372088832 578950941438093 4398046511104); vm_compute; reflexivity. Qed.
Lemma d_A02_332c : close ctol (1542331593979125 / 17592186044416) (clamp A02_lo A02_hi (1542331593979125 / 17592186044416)).
Proof. apply (A02_q_clamp_mid 1542331593979125 17592186044416 1542331593979125 17592186044416); vm_compute; reflexivity. Qed.
Lemma d_A02_340c : close ctol (648082180494933 / 8796093022208) (clamp A02_lo A02_hi (648082180494933 / 8796093022208)).
Proof. apply (A02_q_clamp_mid 648082180494933 8796093022208 648082180494933 8796093022208); vm_compute; reflexivity. Qed.
Lemma d_A02_348c : close ctol (2965346099580493 / 35184372088832) (clamp A02_lo A02_hi (2965346099580493 / 35184372088832)).
Proof. apply (A02_q_clamp_mid 2965346099580493 35184372088832 2965346099580493 35184372088832); vm_compute; reflexivity. Qed.
Lemma d_A02_356c : close ctol (145 / 1) (clamp A02_lo A02_hi (5252586402901421 / 35184372088832)).
Proof. apply (A02_q_clamp_hi 5252586402901421 35184372088832 145 1); vm_compute; reflexivity. Qed.
Lemma d_A02_364c : close ctol (145 / 1) (clamp A02_lo A02_hi (6749059579787073 / 35184372088832)).
Proof. apply (A02_q_clamp_hi 6749059579787073 35184372088832 145 1); vm_compute; reflexivity. Qed.
Lemma d_A02_372c : close ctol (2591730046291261 / 70368744177664) (clamp A02_lo A02_hi (2591730046291261 / 70368744177664)).
Proof. apply (A02_q_clamp_mid 2591730046291261 70368744177664 2591730046291261 70368744177664); vm_compute; reflexivity. Qed.
Lemma d_A02_380c : close ctol (8961252043722931 / 281474976710656) (clamp A02_lo A02_hi (4480626021861465 / 140737488355328)).
Proof. apply (A02_q_clamp_mid 4480626021861465 140737488355328 8961252043722931 281474976710656); vm_compute; reflexivity. Qed.
Lemma d_A02_388c : close ctol (6432476935739605 / 70368744177664) (clamp A02_lo A02_hi (6432476935739605 / 70368744177664)).
Proof. apply (A02_q_clamp_mid 6432476935739605 70368744177664 6432476935739605 70368744177664); vm_compute; reflexivity. Qed.
Lemma d_A02_396c : close ctol (45 / 2) (clamp A02_lo A02_hi ((-10131288330937) / 140737488355328)).
Proof. apply (A02_q_clamp_lo (-10131288330937) 140737488355328 45 2); vm_compute; reflexivity. Qed.
Lemma d_A02_404c : close ctol (6727797336872083 / 140737488355328) (clamp A02_lo A02_hi (1681949334218021 / 35184372088832)).
Proof. apply (A02_q_clamp_mid 1681949334218021 35184372088832 6727797336872083 140737488355328); vm_compute; reflexivity. Qed.
Lemma d_A02_412c : close ctol (7783301438137761 / 70368744177664) (clamp A02_lo A02_hi (7783301438137761 / 70368744177664)).
Proof. apply (A02_q_clamp_mid 7783301438137761 70368744177664 7783301438137761 70368744177664); vm_compute; reflexivity. Qed.
Lemma d_A02_420c : close ctol (1635986947785193 / 17592186044416) (clamp A02_lo A02_hi (1635986947785193 / 17592186044416)).
Proof. apply (A02_q_clamp_mid 1635986947785193 17592186044416 1635986947785193 17592186044416); vm_compute; reflexivity. Qed.
Lemma d_A02_428c : close ctol (3663614092780491 / 35184372088832) (clamp A02_lo A02_hi (3663614092780491 / 35184372088832)).
Proof. apply (A02_q_clamp_mid 3663614092780491 35184372088832 3663614092780491 35184372088832); vm_compute; reflexivity. Qed.
Lemma d_A02_436c : close ctol (45 / 2) (clamp A02_lo A02_hi (226458394265777 / 140737488355328)).
Proof. apply (A02_q_clamp_lo 226458394265777 140737488355328 45 2); vm_compute; reflexivity. Qed.
Lemma d_A02_444c : close ctol (45 / 2) (clamp A02_lo A02_hi (1592280256565057 / 281474976710656)).
Proof. apply (A02_q_clamp_lo 1592280256565057 281474976710656 45 2); vm_compute; reflexivity. Qed.
Lemma d_A02_452c : close ctol (145 / 1) (clamp A02_lo A02_hi (1202903891064861 / 4398046511104)).
Proof. apply (A02_q_clamp_hi 1202903891064861 4398046511104 145 1); vm_compute; reflexivity. Qed.
Lemma d_A02_460c : close ctol (145 / 1) (clamp A02_lo A02_hi (6912270370075857 / 549755813888)).
Proof. apply (A02_q_clamp_hi 6912270370075857 549755813888 145 1); vm_compute; reflexivity. Qed.
Lemma d_A02_468c : close ctol (23 / 1) (clamp A02_lo A02_hi (23 / 1)).
Proof. apply (A02_q_clamp_mid 23 1 23 1); vm_compute; reflexivity. Qed.
Lemma d_A02_476c : close ctol (145 / 1) (clamp A02_lo A02_hi (194995996403015 / 549755813888)).
Proof. apply (A02_q_clamp_hi 194995996403015 549755813888 145 1); vm_compute; reflexivity. Qed.
Lemma d_A02_484c : close ctol (145 / 1) (clamp A02_lo A02_hi (2040497486976761 / 8796093022208)).
Proof. apply (A02_q_clamp_hi 2040497486976761 8796093022208 145 1); vm_compute; reflexivity. Qed.
Lemma d_A02_492c : close ctol (2176926572611671 / 17592186044416) (clamp A02_lo A02_hi (2176926572611671 / 17592186044416)).
Proof. apply (A02_q_clamp_mid 2176926572611671 17592186044416 2176926572611671 17592186044416); vm_compute; reflexivity. Qed.
Lemma d_A02_500c : close ctol (45 / 2) (clamp A02_lo A02_hi ((-7434364711522389) / 1125899906842624)).
Proof. apply (A02_q_clamp_lo (-7434364711522389) 1125899906842624 45 2); vm_compute; reflexivity. Qed.
Lemma d_A02_508c : close ctol (4967161302776539 / 140737488355328) (clamp A02_lo A02_hi (4967161302776539 / 140737488355328)).
Proof. apply (A02_q_clamp_mid 4967161302776539 140737488355328 4967161302776539 140737488355328); vm_compute; reflexivity. Qed.
Lemma d_A02_516c : close ctol (145 / 1) (clamp A02_lo A02_hi (5411737279895663 / 35184372088832)).
Proof. apply (A02_q_clamp_hi 5411737279895663 35184372088832 145 1); vm_compute; reflexivity. Qed.
Lemma d_A02_524c : close ctol (285628062894849 / 4398046511104) (clamp A02_lo A02_hi (285628062894849 / 4398046511104)).
Proof. apply (A02_q_clamp_mid 285628062894849 4398046511104 285628062894849 4398046511104); vm_compute; reflexivity. Qed.
Lemma d_A02_532c : close ctol (45 / 2) (clamp A02_lo A02_hi ((-1290165269311363) / 281474976710656)).
Proof. apply (A02_q_clamp_lo (-1290165269311363) 281474976710656 45 2); vm_compute; reflexivity. Qed.
Lemma d_A02_540c : close ctol (4861591827957119 / 140737488355328) (clamp A02_lo A02_hi (4861591827957119 / 140737488355328)).
Proof. apply (A02_q_clamp_mid 4861591827957119 140737488355328 4861591827957119 140737488355328); vm_compute; reflexivity. Qed.
Lemma d_A02_548c : close ctol (7641838827390671 / 140737488355328) (clamp A02_lo A02_hi (7641838827390671 / 140737488355328)).
Proof. apply (A02_q_clamp_mid 7641838827390671 140737488355328 7641838827390671 140737488355328); vm_compute; reflexivity. Qed.
Lemma d_A02_556c : close ctol (6963672784526801 / 70368744177664) (clamp A02_lo A02_hi (6963672784526801 / 70368744177664)).
Proof. apply (A02_q_clamp_mid 6963672784526801 70368744177664 6963672784526801 70368744177664); vm_compute; reflexivity. Qed.
Lemma d_A02_564c : close ctol (2459335736829585 / 17592186044416) (clamp A02_lo A02_hi (2459335736829585 / 17592186044416)).
Proof. apply (A02_q_clamp_mid 2459335736829585 17592186044416 2459335736829585 17592186044416); vm_compute; reflexivity. Qed.
Lemma d_A02_572c : close ctol (8705447595003469 / 140737488355328) (clamp A02_lo A02_hi (4352723797501735 / 70368744177664)).
Proof. apply (A02_q_clamp_mid 4352723797501735 70368744177664 8705447595003469 140737488355328); vm_compute; reflexivity. Qed.
Lemma d_A02_580c : close ctol (145 / 1) (clamp A02_lo A02_hi (169 / 1)).
Proof. apply (A02_q_clamp_hi 169 1 145 1); vm_compute; reflexivity. Qed.
Lemma d_A02_588c : close ctol (5605162901133289 / 70368744177664) (clamp A02_lo A02_hi (5605162901133289 / 70368744177664)).
Proof. apply (A02_q_clamp_mid 5605162901133289 70368744177664 5605162901133289 70368744177664); vm_compute; reflexivity. Qed.
Lemma d_A02_596c : close ctol (145 / 1) (clamp A02_lo A02_hi (178 / 1)).
Proof. apply (A02_q_clamp_hi 178 1 145 1); vm_compute; reflexivity. Qed.
Lemma d_A02_604c : close ctol (6827612519260485 / 140737488355328) (clamp A02_lo A02_hi (6827612519260485 / 140737488355328)).
Proof. apply (A02_q_clamp_mid 6827612519260485 140737488355328 6827612519260485 140737488355328); vm_compute; reflexivity. Qed.
Lemma d_A02_612c : close ctol (7890434754362081 / 140737488355328) (clamp A02_lo A02_hi (7890434754362081 / 140737488355328)).
Proof. apply (A02_q_clamp_mid 7890434754362081 140737488355328 7890434754362081 140737488355328); vm_compute; reflexivity. Qed.
Lemma d_A02_620c : close ctol (8065211112137669 / 70368744177664) (clamp A02_lo A02_hi (8065211112137669 / 70368744177664)).
Proof. apply (A02_q_clamp_mid 8065211112137669 70368744177664 8065211112137669 70368744177664); vm_compute; reflexivity. Qed.
Lemma d_A02_628c : close ctol (3693828698045843 / 70368744177664) (clamp A02_lo A02_hi (3693828698045843 / 70368744177664)).
Proof. apply (A02_q_clamp_mid 3693828698045843 70368744177664 3693828698045843 70368744177664); vm_compute; reflexivity. Qed.
Lemma d_A02_636c : close ctol (2478745835003249 / 70368744177664) (clamp A02_lo A02_hi (2478745835003249 / 70368744177664)).
Proof. apply (A02_q_clamp_mid 2478745835003249 70368744177664 2478745835003249 70368744177664); vm_compute; reflexivity. Qed.
Lemma d_A02_644c : close ctol (145 / 1) (clamp A02_lo A02_hi (5825263639319385 / 35184372088832)).
Proof. apply (A02_q_clamp_hi 5825263639319385 35184372088832 145 1); vm_compute; reflexivity. Qed.
Lemma d_A02_652c : close ctol (145 / 1) (clamp A02_lo A02_hi (5662745329748993 / 17592186044416)).
Proof. apply (A02_q_clamp_hi 5662745329748993 17592186044416 145 1); vm_compute; reflexivity. Qed.
Lemma d_A02_660c : close ctol (423556374792887 / 17592186044416) (clamp A02_lo A02_hi (6776901996686193 / 281474976710656)).
Proof. apply (A02_q_clamp_mid 6776901996686193 281474976710656 423556374792887 17592186044416); vm_compute; reflexivity. Qed.
Lemma r_A21_433 : rio_reads A21_c A21_e A21_lo A21_hi floor_volts ctol (Build_rio (Fin (0 / 1)) (Fin (19 / 4)) (Fin (3715469692580659 / 1125899906842624)) (Fin (6 / 1)) (Fin (12 / 1)) true true true ((Fin (0 / 1)) :: (Fin (0 / 1)) :: (Fin (0 / 1)) :: (Fin (0 / 1)) :: (Fin (27 / 4)) :: (Fin (45 / 1)) :: nil)) (5749786070656609 / 281474976710656).
Proof. apply (A21_rio_fin _ (0 / 1)); [reflexivity | apply (A21_q_floor 0 1 5749786070656609 281474976710656); vm_compute; reflexivity]. Qed.
Lemma r_A21_462 : rio_distance_opt A21_c A21_e A21_lo A21_hi floor_volts (Build_rio NInf (Fin (5 / 1)) PInf (Fin (6 / 1)) (Fin (12 / 1)) true true true ((Fin (0 / 1)) :: (Fin (0 / 1)) :: (Fin (0 / 1)) :: (Fin (0 / 1)) :: (Fin (27 / 4)) :: (Fin (45 / 1)) :: nil)) = Some (10 / 1).
Proof. apply (A21_rio_x _ NInf); [reflexivity | apply (corr_v_ninf _ _ _ _ _ A21_admissible _ A21_floor_reads_hi); unfold A21_hi; lra]. Qed.
Lemma d_A21_670c : close ctol (80 / 1) (clamp A21_lo A21_hi (200 / 1)).
Proof. apply (A21_q_clamp_hi 200 1 80 1); vm_compute; reflexivity. Qed.
Lemma d_A21_678c : close ctol (80 / 1) (clamp A21_lo A21_hi (145 / 1)).
Proof. apply (A21_q_clamp_hi 145 1 80 1); vm_compute; reflexivity. Qed.
Lemma d_A21_686c : close ctol (10 / 1) (clamp A21_lo A21_hi (0 / 1)).
Proof. apply (A21_q_clamp_lo 0 1 10 1); vm_compute; reflexivity. Qed.
Lemma d_A21_694c : close ctol (10 / 1) (clamp A21_lo A21_hi (2 / 1)).
Proof. apply (A21_q_clamp_lo 2 1 10 1); vm_compute; reflexivity. Qed.
Lemma d_A21_702c : close ctol (80 / 1) (clamp A21_lo A21_hi (200 / 1)).
Proof. apply (A21_q_clamp_hi 200 1 80 1); vm_compute; reflexivity. Qed.
Lemma d_A21_711c : close ctol (10 / 1) (clamp A21_lo A21_hi (5629499534213119 / 562949953421312)).
Proof. apply (A21_q_clamp_lo 5629499534213119 562949953421312 10 1); vm_compute; reflexivity. Qed.
Lemma d_A21_719c : close ctol (80 / 1) (clamp A21_lo A21_hi (80 / 1)).
Proof. apply (A21_q_clamp_hi 80 1 80 1); vm_compute; reflexivity. Qed.
Lemma d_A21_727c : close ctol (614232034423527 / 17592186044416) (clamp A21_lo A21_hi (4913856275388215 / 140737488355328)).
Proof. apply (A21_q_clamp_mid 4913856275388215 140737488355328 614232034423527 17592186044416); vm_compute; reflexivity. Qed.
Lemma d_A21_735c : close ctol (2529353180470205 / 140737488355328) (clamp A21_lo A21_hi (2529353180470205 / 140737488355328)).
Proof. apply (A21_q_clamp_mid 2529353180470205 140737488355328 2529353180470205 140737488355328); vm_compute; reflexivity. Qed.
Lemma d_A21_743c : close ctol (8524833357550655 / 140737488355328) (clamp A21_lo A21_hi (133200521211729 / 2199023255552)).
Proof. apply (A21_q_clamp_mid 133200521211729 2199023255552 8524833357550655 140737488355328); vm_compute; reflexivity. Qed.
Lemma d_A21_751c : close ctol (6433743449730543 / 140737488355328) (clamp A21_lo A21_hi (3216871724865271 / 70368744177664)).
Proof. apply (A21_q_clamp_mid 3216871724865271 70368744177664 6433743449730543 140737488355328); vm_compute; reflexivity. Qed.
Lemma d_A21_759c : close ctol (10 / 1) (clamp A21_lo A21_hi (6 / 1)).
Proof. apply (A21_q_clamp_lo 6 1 10 1); vm_compute; reflexivity. Qed.
Lemma d_A21_767c : close ctol (5567719599377929 / 70368744177664) (clamp A21_lo A21_hi (695964949922241 / 8796093022208)).
Proof. apply (A21_q_clamp_mid 695964949922241 8796093022208 5567719599377929 70368744177664); vm_compute; reflexivity. Qed.
Lemma d_A21_775c : close ctol (2584873417176693 / 35184372088832) (clamp A21_lo A21_hi (2584873417176693 / 35184372088832)).
Proof. apply (A21_q_clamp_mid 2584873417176693 35184372088832 2584873417176693 35184372088832); vm_compute; reflexivity. Qed.
Lemma d_A21_783c : close ctol (1010530605145319 / 17592186044416) (clamp A21_lo A21_hi (8084244841162551 / 140737488355328)).
Proof. apply (A21_q_clamp_mid 8084244841162551 140737488355328 1010530605145319 17592186044416); vm_compute; reflexivity. Qed.
Lemma d_A21_791c : close ctol (8940797571576827 / 281474976710656) (clamp A21_lo A21_hi (8940797571576827 / 281474976710656)).
Proof. apply (A21_q_clamp_mid 8940797571576827 281474976710656 8940797571576827 281474976710656); vm_compute; reflexivity. Qed.
Lemma d_A21_799c : close ctol (3722833673307725 / 281474976710656) (clamp A21_lo A21_hi (3722833673307725 / 281474976710656)).
Proof. apply (A21_q_clamp_mid 3722833673307725 281474976710656 3722833673307725 281474976710656); vm_compute; reflexivity. Qed.
Lemma d_A21_807c : close ctol (10 / 1) (clamp A21_lo A21_hi ((-5297706783585821) / 1125899906842624)).
Proof. apply (A21_q_clamp_lo (-5297706783585821) 1125899906842624 10 1); vm_compute; reflexivity. Qed.
Lemma d_A21_815c : close ctol (10 / 1) (clamp A21_lo A21_hi ((-8844230855781771) / 2251799813685248)).
Proof. apply (A21_q_clamp_lo (-8844230855781771) 2251799813685248 10 1); vm_compute; reflexivity. Qed.
Lemma d_A21_823c : close ctol (80 / 1) (clamp A21_lo A21_hi (7390552497387407 / 35184372088832)).
Proof. apply (A21_q_clamp_hi 7390552497387407 35184372088832 80 1); vm_compute; reflexivity. Qed.
Lemma d_A21_831c : close ctol (80 / 1) (clamp A21_lo A21_hi (90 / 1)).
Proof. apply (A21_q_clamp_hi 90 1 80 1); vm_compute; reflexivity. Qed.
Lemma d_A21_839c : close ctol (10 / 1) (clamp A21_lo A21_hi (3684027737758919 / 562949953421312)).
Proof. apply (A21_q_clamp_lo 3684027737758919 562949953421312 10 1); vm_compute; reflexivity. Qed.
Lemma d_A21_847c : close ctol (7968896585450751 / 140737488355328) (clamp A21_lo A21_hi (7968896585450751 / 140737488355328)).
Proof. apply (A21_q_clamp_mid 7968896585450751 140737488355328 7968896585450751 140737488355328); vm_compute; reflexivity. Qed.
Lemma d_A21_855c : close ctol (6763716681636847 / 562949953421312) (clamp A21_lo A21_hi (422732292602303 / 35184372088832)).
Proof. apply (A21_q_clamp_mid 422732292602303 35184372088832 6763716681636847 562949953421312); vm_compute; reflexivity. Qed.
Lemma d_A21_863c : close ctol (80 / 1) (clamp A21_lo A21_hi (7735645931089769 / 35184372088832)).
Proof. apply (A21_q_clamp_hi 7735645931089769 35184372088832 80 1); vm_compute; reflexivity. Qed.
Lemma d_A21_871c : close ctol (5181717902496157 / 140737488355328) (clamp A21_lo A21_hi (1295429475624039 / 35184372088832)).
Proof. apply (A21_q_clamp_mid 1295429475624039 35184372088832 5181717902496157 140737488355328); vm_compute; reflexivity. Qed.
Lemma d_A21_879c : close ctol (10 / 1) (clamp A21_lo A21_hi ((-253947150907407) / 281474976710656)).
Proof. apply (A21_q_clamp_lo (-253947150907407) 281474976710656 10 1); vm_compute; reflexivity. Qed.
Lemma d_A21_887c : close ctol (2036830370103549 / 35184372088832) (clamp A21_lo A21_hi (8147321480414195 / 140737488355328)).
Proof. apply (A21_q_clamp_mid 8147321480414195 140737488355328 2036830370103549 35184372088832); vm_compute; reflexivity. Qed.
Lemma d_A21_895c : close ctol (80 / 1) (clamp A21_lo A21_hi (4896760440448923 / 35184372088832)).
Proof. apply (A21_q_clamp_hi 4896760440448923 35184372088832 80 1); vm_compute; reflexivity. Qed.
Lemma d_A21_903c : close ctol (10 / 1) (clamp A21_lo A21_hi (2596299219770989 / 281474976710656)).
Proof. apply (A21_q_clamp_lo 2596299219770989 281474976710656 10 1); vm_compute; reflexivity. Qed.
Lemma d_A21_911c : close ctol (8379797977063383 / 281474976710656) (clamp A21_lo A21_hi (8379797977063383 / 281474976710656)).
Proof. apply (A21_q_clamp_mid 8379797977063383 281474976710656 8379797977063383 281474976710656); vm_compute; reflexivity. Qed.
Lemma d_A21_919c : close ctol (3101783922794977 / 70368744177664) (clamp A21_lo A21_hi (3101783922794977 / 70368744177664)).
Proof. apply (A21_q_clamp_mid 3101783922794977 70368744177664 3101783922794977 70368744177664); vm_compute; reflexivity. Qed.
Lemma d_A21_927c : close ctol (5562068718975821 / 140737488355328) (clamp A21_lo A21_hi (5562068718975821 / 140737488355328)).
Proof. apply (A21_q_clamp_mid 5562068718975821 140737488355328 5562068718975821 140737488355328); vm_compute; reflexivity. Qed.
Lemma d_A21_935c : close ctol (28 / 1) (clamp A21_lo A21_hi (28 / 1)).
Proof. apply (A21_q_clamp_mid 28 1 28 1); vm_compute; reflexivity. Qed.
Lemma d_A21_943c : close ctol (3070999432180235 / 140737488355328) (clamp A21_lo A21_hi (6141998864360469 / 281474976710656)).
Proof. apply (A21_q_clamp_mid 6141998864360469 281474976710656 3070999432180235 140737488355328); vm_compute; reflexivity. Qed.
Lemma d_A21_951c : close ctol (80 / 1) (clamp A21_lo A21_hi (7734684465988801 / 70368744177664)).
Proof. apply (A21_q_clamp_hi 7734684465988801 70368744177664 80 1); vm_compute; reflexivity. Qed.
Lemma d_A21_959c : close ctol (3714145015477665 / 70368744177664) (clamp A21_lo A21_hi (7428290030955331 / 140737488355328)).
Proof. apply (A21_q_clamp_mid 7428290030955331 140737488355328 3714145015477665 70368744177664); vm_compute; reflexivity. Qed.
Lemma d_A21_967c : close ctol (6815694892260391 / 281474976710656) (clamp A21_lo A21_hi (3407847446130195 / 140737488355328)).
Proof. apply (A21_q_clamp_mid 3407847446130195 140737488355328 6815694892260391 281474976710656); vm_compute; reflexivity. Qed.
Lemma d_A21_975c : close ctol (80 / 1) (clamp A21_lo A21_hi (1989797798248539 / 8796093022208)).
Proof. apply (A21_q_clamp_hi 1989797798248539 8796093022208 80 1); vm_compute; reflexivity. Qed.
Lemma d_A21_983c : close ctol (10 / 1) (clamp A21_lo A21_hi (8576121563648931 / 36028797018963968)).
Proof. apply (A21_q_clamp_lo 8576121563648931 36028797018963968 10 1); vm_compute; reflexivity. Qed.
Lemma d_A21_991c : close ctol (2785513213872701 / 140737488355328) (clamp A21_lo A21_hi (5571026427745401 / 281474976710656)).
Proof. apply (A21_q_clamp_mid 5571026427745401 281474976710656 2785513213872701 140737488355328); vm_compute; reflexivity. Qed.
Lemma d_A21_999c : close ctol (2775088118752317 / 140737488355328) (clamp A21_lo A21_hi (2775088118752317 / 140737488355328)).
Proof. apply (A21_q_clamp_mid 2775088118752317 140737488355328 2775088118752317 140737488355328); vm_compute; reflexivity. Qed.
Lemma d_A21_1007c : close ctol (1962277396411849 / 140737488355328) (clamp A21_lo A21_hi (3924554792823699 / 281474976710656)).
Proof. apply (A21_q_clamp_mid 3924554792823699 281474976710656 1962277396411849 140737488355328); vm_compute; reflexivity. Qed.
Lemma d_A21_1015c : close ctol (5653119810701453 / 140737488355328) (clamp A21_lo A21_hi (1413279952675363 / 35184372088832)).
Proof. apply (A21_q_clamp_mid 1413279952675363 35184372088832 5653119810701453 140737488355328); vm_compute; reflexivity. Qed.
Lemma d_A21_1023c : close ctol (5424017831771389 / 70368744177664) (clamp A21_lo A21_hi (1356004457942847 / 17592186044416)).
Proof. apply (A21_q_clamp_mid 1356004457942847 17592186044416 5424017831771389 70368744177664); vm_compute; reflexivity. Qed.
Lemma d_A21_1031c : close ctol (592401281503585 / 35184372088832) (clamp A21_lo A21_hi (592401281503585 / 35184372088832)).
Proof. apply (A21_q_clamp_mid 592401281503585 35184372088832 592401281503585 35184372088832); vm_compute; reflexivity. Qed.
Lemma d_A21_1039c : close ctol (10 / 1) (clamp A21_lo A21_hi ((-3748646096537905) / 2251799813685248)).
Proof. apply (A21_q_clamp_lo (-3748646096537905) 2251799813685248 10 1); vm_compute; reflexivity. Qed.
Lemma d_A21_1047c : close ctol (10 / 1) (clamp A21_lo A21_hi (1294372302863273 / 1125899906842624)).
Proof. apply (A21_q_clamp_lo 1294372302863273 1125899906842624 10 1); vm_compute; reflexivity. Qed.
Lemma d_A21_1055c : close ctol (460729298032039 / 17592186044416) (clamp A21_lo A21_hi (7371668768512625 / 281474976710656)).
Proof. apply (A21_q_clamp_mid 7371668768512625 281474976710656 460729298032039 17592186044416); vm_compute; reflexivity. Qed.
Lemma d_A21_1063c : close ctol (2635697612360337 / 140737488355328) (clamp A21_lo A21_hi (2635697612360337 / 140737488355328)).
Proof. apply (A21_q_clamp_mid 2635697612360337 140737488355328 2635697612360337 140737488355328); vm_compute; reflexivity. Qed.
Lemma d_A21_1071c : close ctol (6878048208860543 / 281474976710656) (clamp A21_lo A21_hi (6878048208860543 / 281474976710656)).
Proof. apply (A21_q_clamp_mid 6878048208860543 281474976710656 6878048208860543 281474976710656); vm_compute; reflexivity. Qed.
Lemma d_A21_1079c : close ctol (6810720316711427 / 562949953421312) (clamp A21_lo A21_hi (1702680079177857 / 140737488355328)).
Proof. apply (A21_q_clamp_mid 1702680079177857 140737488355328 6810720316711427 562949953421312); vm_compute; reflexivity. Qed.
Lemma d_A21_1087c : close ctol (5064786575407693 / 281474976710656) (clamp A21_lo A21_hi (5064786575407693 / 281474976710656)).
Proof. apply (A21_q_clamp_mid 5064786575407693 281474976710656 5064786575407693 281474976710656); vm_compute; reflexivity. Qed.
Lemma d_A21_1095c : close ctol (4310842172400311 / 70368744177664) (clamp A21_lo A21_hi (2155421086200155 / 35184372088832)).
Proof. apply (A21_q_clamp_mid 2155421086200155 35184372088832 4310842172400311 70368744177664); vm_compute; reflexivity. Qed.
Lemma d_A21_1103c : close ctol (3589931541807451 / 70368744177664) (clamp A21_lo A21_hi (7179863083614901 / 140737488355328)).
Proof. apply (A21_q_clamp_mid 7179863083614901 140737488355328 3589931541807451 70368744177664); vm_compute; reflexivity. Qed.
Lemma d_A21_1111c : close ctol (10 / 1) (clamp A21_lo A21_hi (1463674654215209 / 281474976710656)).
Proof. apply (A21_q_clamp_lo 1463674654215209 281474976710656 10 1); vm_compute; reflexivity. Qed.
Lemma d_A21_1119c : close ctol (4926529634510529 / 70368744177664) (clamp A21_lo A21_hi (76977025539227 / 1099511627776)).
Proof. apply (A21_q_clamp_mid 76977025539227 1099511627776 4926529634510529 70368744177664); vm_compute; reflexivity. Qed.
Lemma d_A21_1127c : close ctol (1400533675978345 / 35184372088832) (clamp A21_lo A21_hi (1400533675978345 / 35184372088832)).
Proof. apply (A21_q_clamp_mid 1400533675978345 35184372088832 1400533675978345 35184372088832); vm_compute; reflexivity. Qed.
Lemma d_A21_1135c : close ctol (80 / 1) (clamp A21_lo A21_hi (2732455911754817 / 17592186044416)).
Proof. apply (A21_q_clamp_hi 2732455911754817 17592186044416 80 1); vm_compute; reflexivity. Qed.
Lemma d_A21_1143c : close ctol (10 / 1) (clamp A21_lo A21_hi (4371398809267291 / 4503599627370496)).
Proof. apply (A21_q_clamp_lo 4371398809267291 4503599627370496 10 1); vm_compute; reflexivity. Qed.
Lemma d_A21_1151c : close ctol (80 / 1) (clamp A21_lo A21_hi (2209585555036365 / 17592186044416)).
Proof. apply (A21_q_clamp_hi 2209585555036365 17592186044416 80 1); vm_compute; reflexivity. Qed.
Lemma d_A21_1159c : close ctol (1324274832767391 / 17592186044416) (clamp A21_lo A21_hi (1324274832767391 / 17592186044416)).
Proof. apply (A21_q_clamp_mid 1324274832767391 17592186044416 1324274832767391 17592186044416); vm_compute; reflexivity. Qed.
Lemma d_A21_1167c : close ctol (1902077766710645 / 35184372088832) (clamp A21_lo A21_hi (1902077766710645 / 35184372088832)).
Proof. apply (A21_q_clamp_mid 1902077766710645 35184372088832 1902077766710645 35184372088832); vm_compute; reflexivity. Qed.
Lemma d_A21_1175c : close ctol (1248300295466305 / 17592186044416) (clamp A21_lo A21_hi (1248300295466305 / 17592186044416)).
Proof. apply (A21_q_clamp_mid 1248300295466305 17592186044416 1248300295466305 17592186044416); vm_compute; reflexivity. Qed.
Lemma d_A21_1183c : close ctol (7258729911275839 / 140737488355328) (clamp A21_lo A21_hi (3629364955637919 / 70368744177664)).
Proof. apply (A21_q_clamp_mid 3629364955637919 70368744177664 7258729911275839 140737488355328); vm_compute; reflexivity. Qed.
Lemma d_A21_1191c : close ctol (8607831711000107 / 140737488355328) (clamp A21_lo A21_hi (8607831711000107 / 140737488355328)).
Proof. apply (A21_q_clamp_mid 8607831711000107 140737488355328 8607831711000107 140737488355328); vm_compute; reflexivity. Qed.
Lemma d_A21_1199c : close ctol (6665695381256161 / 281474976710656) (clamp A21_lo A21_hi (3332847690628081 / 140737488355328)).
Proof. apply (A21_q_clamp_mid 3332847690628081 140737488355328 6665695381256161 281474976710656); vm_compute; reflexivity. Qed.
Lemma d_A21_1207c : close ctol (1702800165831977 / 35184372088832) (clamp A21_lo A21_hi (1702800165831977 / 35184372088832)).
Proof. apply (A21_q_clamp_mid 1702800165831977 35184372088832 1702800165831977 35184372088832); vm_compute; reflexivity. Qed.
Lemma d_A21_1215c : close ctol (10 / 1) (clamp A21_lo A21_hi (4966697337447379 / 562949953421312)).
Proof. apply (A21_q_clamp_lo 4966697337447379 562949953421312 10 1); vm_compute; reflexivity. Qed.
Lemma d_A21_1223c : close ctol (5995730046248499 / 140737488355328) (clamp A21_lo A21_hi (2997865023124249 / 70368744177664)).
Proof. apply (A21_q_clamp_mid 2997865023124249 70368744177664 5995730046248499 140737488355328); vm_compute; reflexivity. Qed.
Lemma d_A21_1231c : close ctol (15 / 1) (clamp A21_lo A21_hi (15 / 1)).
Proof. apply (A21_q_clamp_mid 15 1 15 1); vm_compute; reflexivity. Qed.
Lemma d_A21_1239c : close ctol (1099176490703161 / 35184372088832) (clamp A21_lo A21_hi (1099176490703161 / 35184372088832)).
Proof. apply (A21_q_clamp_mid 1099176490703161 35184372088832 1099176490703161 35184372088832); vm_compute; reflexivity. Qed.
Lemma d_A21_1247c : close ctol (1012962920691343 / 35184372088832) (clamp A21_lo A21_hi (1012962920691343 / 35184372088832)).
Proof. apply (A21_q_clamp_mid 1012962920691343 35184372088832 1012962920691343 35184372088832); vm_compute; reflexivity. Qed.
Lemma d_A21_1255c : close ctol (80 / 1) (clamp A21_lo A21_hi (104 / 1)).
Proof. apply (A21_q_clamp_hi 104 1 80 1); vm_compute; reflexivity. Qed.
Lemma d_A21_1263c : close ctol (611821538517725 / 17592186044416) (clamp A21_lo A21_hi (611821538517725 / 17592186044416)).
Proof. apply (A21_q_clamp_mid 611821538517725 17592186044416 611821538517725 17592186044416); vm_compute; reflexivity. Qed.
Lemma d_A21_1271c : close ctol (80 / 1) (clamp A21_lo A21_hi (7538465393658539 / 35184372088832)).
Proof. apply (A21_q_clamp_hi 7538465393658539 35184372088832 80 1); vm_compute; reflexivity. Qed.
Lemma d_A21_1279c : close ctol (5495571263513539 / 140737488355328) (clamp A21_lo A21_hi (5495571263513539 / 140737488355328)).
Proof. apply (A21_q_clamp_mid 5495571263513539 140737488355328 5495571263513539 140737488355328); vm_compute; reflexivity. Qed.
Lemma d_A21_1287c : close ctol (6604870974674651 / 281474976710656) (clamp A21_lo A21_hi (6604870974674651 / 281474976710656)).
Proof. apply (A21_q_clamp_mid 6604870974674651 281474976710656 6604870974674651 281474976710656); vm_compute; reflexivity. Qed.
Lemma d_A21_1295c : close ctol (4972439572283471 / 70368744177664) (clamp A21_lo A21_hi (2486219786141735 / 35184372088832)).
Proof. apply (A21_q_clamp_mid 2486219786141735 35184372088832 4972439572283471 70368744177664); vm_compute; reflexivity. Qed.
Lemma d_A21_1303c : close ctol (1173791173568827 / 17592186044416) (clamp A21_lo A21_hi (1173791173568827 / 17592186044416)).
Proof. apply (A21_q_clamp_mid 1173791173568827 17592186044416 1173791173568827 17592186044416); vm_compute; reflexivity. Qed.
Lemma d_A21_1311c : close ctol (6028456676282671 / 562949953421312) (clamp A21_lo A21_hi (376778542267667 / 35184372088832)).
Proof. apply (A21_q_clamp_mid 376778542267667 35184372088832 6028456676282671 562949953421312); vm_compute; reflexivity. Qed.
Lemma d_A21_1319c : close ctol (80 / 1) (clamp A21_lo A21_hi (571423691501011 / 4398046511104)).
Proof. apply (A21_q_clamp_hi 571423691501011 4398046511104 80 1); vm_compute; reflexivity. Qed.
Lemma d_A21_1327c : close ctol (6809201431514565 / 562949953421312) (clamp A21_lo A21_hi (6809201431514565 / 562949953421312)).
Proof. apply (A21_q_clamp_mid 6809201431514565 562949953421312 6809201431514565 562949953421312); vm_compute; reflexivity. Qed.
Lemma r_A41_859 : rio_reads A41_c A41_e A41_lo A41_hi floor_volts ctol (Build_rio (Fin ((-6032057205060441) / 6032057205060440848842124543157735677050252251748505781796615064961622344493727293370973578138265743708225425014400837164813540499979063179105919597766951022193355091707896034850684039059079180396788349106095584290087446076413771468940477241550670753145517602931224392424029547429993824129889235158145614364972941312)) (Fin (5 / 1)) (Fin (3715469692580659 / 1125899906842624)) (Fin (6 / 1)) (Fin (12 / 1)) true true true ((Fin (0 / 1)) :: (Fin (0 / 1)) :: (Fin (0 / 1)) :: (Fin (0 / 1)) :: (Fin (27 / 4)) :: (Fin (45 / 1)) :: nil)) (5876659090025575 / 562949953421312).
Proof. apply (A41_rio_fin _ ((-6032057205060441) / 6032057205060440848842124543157735677050252251748505781796615064961622344493727293370973578138265743708225425014400837164813540499979063179105919597766951022193355091707896034850684039059079180396788349106095584290087446076413771468940477241550670753145517602931224392424029547429993824129889235158145614364972941312)); [reflexivity | apply (A41_q_floor (-6032057205060441) 6032057205060440848842124543157735677050252251748505781796615064961622344493727293370973578138265743708225425014400837164813540499979063179105919597766951022193355091707896034850684039059079180396788349106095584290087446076413771468940477241550670753145517602931224392424029547429993824129889235158145614364972941312 5876659090025575 562949953421312); vm_compute; reflexivity]. Qed.
Lemma r_A41_1234 : rio_reads A41_c A41_e A41_lo A41_hi floor_volts ctol (Build_rio (Fin (4557130674697629 / 18889465931478580854784)) (Fin (3109 / 512)) (Fin (0 / 1)) (Fin (5355 / 1024)) (Fin (10809 / 1024)) false true true ((Fin (607 / 512)) :: (Fin (1097 / 1024)) :: (Fin (2209 / 1024)) :: (Fin (174417 / 1024)) :: (Fin (1627 / 256)) :: (Fin (36907 / 1024)) :: nil)) (35 / 1).
Proof. apply (A41_rio_fin _ (4557130674697629 / 18889465931478580854784)); [reflexivity | apply (A41_q_floor 4557130674697629 18889465931478580854784 35 1); vm_compute; reflexivity]. Qed.
Lemma d_A41_1336c : close ctol (35 / 1) (clamp A41_lo A41_hi (200 / 1)).
Proof. apply (A41_q_clamp_hi 200 1 35 1); vm_compute; reflexivity. Qed.
Lemma d_A41_1344c : close ctol (35 / 1) (clamp A41_lo A41_hi (145 / 1)).
Proof. apply (A41_q_clamp_hi 145 1 35 1); vm_compute; reflexivity. Qed.
Lemma d_A41_1352c : close ctol (9 / 2) (clamp A41_lo A41_hi (0 / 1)).
Proof. apply (A41_q_clamp_lo 0 1 9 2); vm_compute; reflexivity. Qed.
Lemma d_A41_1360c : close ctol (9 / 2) (clamp A41_lo A41_hi (2 / 1)).
Proof. apply (A41_q_clamp_lo 2 1 9 2); vm_compute; reflexivity. Qed.
Lemma d_A41_1368c : close ctol (35 / 1) (clamp A41_lo A41_hi (200 / 1)).
Proof. apply (A41_q_clamp_hi 200 1 35 1); vm_compute; reflexivity. Qed.
Lemma d_A41_1377c : close ctol (9 / 2) (clamp A41_lo A41_hi (5066549580791807 / 1125899906842624)).
Proof. apply (A41_q_clamp_lo 5066549580791807 1125899906842624 9 2); vm_compute; reflexivity. Qed.
Lemma d_A41_1385c : close ctol (35 / 1) (clamp A41_lo A41_hi (35 / 1)).
Proof. apply (A41_q_clamp_hi 35 1 35 1); vm_compute; reflexivity. Qed.
Lemma d_A41_1393c : close ctol (1454562989013769 / 140737488355328) (clamp A41_lo A41_hi (1454562989013769 / 140737488355328)).
Proof. apply (A41_q_clamp_mid 1454562989013769 140737488355328 1454562989013769 140737488355328); vm_compute; reflexivity. Qed.
Lemma d_A41_1401c : close ctol (2768856241979979 / 140737488355328) (clamp A41_lo A41_hi (2768856241979979 / 140737488355328)).
Proof. apply (A41_q_clamp_mid 2768856241979979 140737488355328 2768856241979979 140737488355328); vm_compute; reflexivity. Qed.
Lemma d_A41_1409c : close ctol (2767895073544991 / 562949953421312) (clamp A41_lo A41_hi (2767895073544991 / 562949953421312)).
Proof. apply (A41_q_clamp_mid 2767895073544991 562949953421312 2767895073544991 562949953421312); vm_compute; reflexivity. Qed.
Lemma d_A41_1417c : close ctol (7138753143724297 / 562949953421312) (clamp A41_lo A41_hi (7138753143724297 / 562949953421312)).
Proof. apply (A41_q_clamp_mid 7138753143724297 562949953421312 7138753143724297 562949953421312); vm_compute; reflexivity. Qed.
Lemma d_A41_1425c : close ctol (35 / 1) (clamp A41_lo A41_hi (50 / 1)).
Proof. apply (A41_q_clamp_hi 50 1 35 1); vm_compute; reflexivity. Qed.
Lemma d_A41_1433c : close ctol (6533565875727695 / 281474976710656) (clamp A41_lo A41_hi (3266782937863847 / 140737488355328)).
Proof. apply (A41_q_clamp_mid 3266782937863847 140737488355328 6533565875727695 281474976710656); vm_compute; reflexivity. Qed.
Lemma d_A41_1441c : close ctol (4501196496471817 / 140737488355328) (clamp A41_lo A41_hi (4501196496471817 / 140737488355328)).
Proof. apply (A41_q_clamp_mid 4501196496471817 140737488355328 4501196496471817 140737488355328); vm_compute; reflexivity. Qed.
Lemma d_A41_1449c : close ctol (4544490312489695 / 140737488355328) (clamp A41_lo A41_hi (2272245156244847 / 70368744177664)).
Proof. apply (A41_q_clamp_mid 2272245156244847 70368744177664 4544490312489695 140737488355328); vm_compute; reflexivity. Qed.
Lemma d_A41_1457c : close ctol (9 / 2) (clamp A41_lo A41_hi ((-5332799153009439) / 4503599627370496)).
Proof. apply (A41_q_clamp_lo (-5332799153009439) 4503599627370496 9 2); vm_compute; reflexivity. Qed.
Lemma d_A41_1465c : close ctol (1335079862739137 / 70368744177664) (clamp A41_lo A41_hi (1335079862739137 / 70368744177664)).
Proof. apply (A41_q_clamp_mid 1335079862739137 70368744177664 1335079862739137 70368744177664); vm_compute; reflexivity. Qed.
Lemma d_A41_1473c : close ctol (35 / 1) (clamp A41_lo A41_hi (2514182122612107 / 70368744177664)).
Proof. apply (A41_q_clamp_hi 2514182122612107 70368744177664 35 1); vm_compute; reflexivity. Qed.
Lemma d_A41_1481c : close ctol (4208638056154537 / 140737488355328) (clamp A41_lo A41_hi (4208638056154537 / 140737488355328)).
Proof. apply (A41_q_clamp_mid 4208638056154537 140737488355328 4208638056154537 140737488355328); vm_compute; reflexivity. Qed.
Lemma d_A41_1489c : close ctol (35 / 1) (clamp A41_lo A41_hi (3242318075058653 / 35184372088832)).
Proof. apply (A41_q_clamp_hi 3242318075058653 35184372088832 35 1); vm_compute; reflexivity. Qed.
Lemma d_A41_1497c : close ctol (5840228238434551 / 562949953421312) (clamp A41_lo A41_hi (5840228238434551 / 562949953421312)).
Proof. apply (A41_q_clamp_mid 5840228238434551 562949953421312 5840228238434551 562949953421312); vm_compute; reflexivity. Qed.
Lemma d_A41_1505c : close ctol (35 / 1) (clamp A41_lo A41_hi (2765247958489453 / 35184372088832)).
Proof. apply (A41_q_clamp_hi 2765247958489453 35184372088832 35 1); vm_compute; reflexivity. Qed.
Lemma d_A41_1513c : close ctol (1837144548231049 / 70368744177664) (clamp A41_lo A41_hi (1837144548231049 / 70368744177664)).
Proof. apply (A41_q_clamp_mid 1837144548231049 70368744177664 1837144548231049 70368744177664); vm_compute; reflexivity. Qed.
Lemma d_A41_1521c : close ctol (35 / 1) (clamp A41_lo A41_hi (7350242645512635 / 70368744177664)).
Proof. apply (A41_q_clamp_hi 7350242645512635 70368744177664 35 1); vm_compute; reflexivity. Qed.
Lemma d_A41_1529c : close ctol (499314241565751 / 17592186044416) (clamp A41_lo A41_hi (499314241565751 / 17592186044416)).
Proof. apply (A41_q_clamp_mid 499314241565751 17592186044416 499314241565751 17592186044416); vm_compute; reflexivity. Qed.
Lemma d_A41_1537c : close ctol (1070954735827735 / 140737488355328) (clamp A41_lo A41_hi (1070954735827735 / 140737488355328)).
Proof. apply (A41_q_clamp_mid 1070954735827735 140737488355328 1070954735827735 140737488355328); vm_compute; reflexivity. Qed.
Lemma d_A41_1545c : close ctol (35 / 1) (clamp A41_lo A41_hi (7189992083037363 / 70368744177664)).
Proof. apply (A41_q_clamp_hi 7189992083037363 70368744177664 35 1); vm_compute; reflexivity. Qed.
Lemma d_A41_1553c : close ctol (9 / 2) (clamp A41_lo A41_hi ((-8706992995830187) / 4503599627370496)).
Proof. apply (A41_q_clamp_lo (-8706992995830187) 4503599627370496 9 2); vm_compute; reflexivity. Qed.
Lemma d_A41_1561c : close ctol (1165271501117691 / 70368744177664) (clamp A41_lo A41_hi (1165271501117691 / 70368744177664)).
Proof. apply (A41_q_clamp_mid 1165271501117691 70368744177664 1165271501117691 70368744177664); vm_compute; reflexivity. Qed.
Lemma d_A41_1569c : close ctol (9 / 2) (clamp A41_lo A41_hi ((-2212905795162223) / 1125899906842624)).
Proof. apply (A41_q_clamp_lo (-2212905795162223) 1125899906842624 9 2); vm_compute; reflexivity. Qed.
Lemma d_A41_1577c : close ctol (3251977092486771 / 140737488355328) (clamp A41_lo A41_hi (6503954184973541 / 281474976710656)).
Proof. apply (A41_q_clamp_mid 6503954184973541 281474976710656 3251977092486771 140737488355328); vm_compute; reflexivity. Qed.
Lemma d_A41_1585c : close ctol (35 / 1) (clamp A41_lo A41_hi (56 / 1)).
Proof. apply (A41_q_clamp_hi 56 1 35 1); vm_compute; reflexivity. Qed.
Lemma d_A41_1593c : close ctol (2953866954979931 / 562949953421312) (clamp A41_lo A41_hi (2953866954979931 / 562949953421312)).
Proof. apply (A41_q_clamp_mid 2953866954979931 562949953421312 2953866954979931 562949953421312); vm_compute; reflexivity. Qed.
Lemma d_A41_1601c : close ctol (35 / 1) (clamp A41_lo A41_hi (7354799287847149 / 70368744177664)).
Proof. apply (A41_q_clamp_hi 7354799287847149 70368744177664 35 1); vm_compute; reflexivity. Qed.
Lemma d_A41_1609c : close ctol (9 / 2) (clamp A41_lo A41_hi (1283825509186917 / 2251799813685248)).
Proof. apply (A41_q_clamp_lo 1283825509186917 2251799813685248 9 2); vm_compute; reflexivity. Qed.
Lemma d_A41_1617c : close ctol (9007199254740991 / 562949953421312) (clamp A41_lo A41_hi (16 / 1)).
Proof. apply (A41_q_clamp_mid 16 1 9007199254740991 562949953421312); vm_compute; reflexivity. Qed.
Lemma d_A41_1625c : close ctol (75698307283371 / 2199023255552) (clamp A41_lo A41_hi (4844691666135743 / 140737488355328)).
Proof. apply (A41_q_clamp_mid 4844691666135743 140737488355328 75698307283371 2199023255552); vm_compute; reflexivity. Qed.
Lemma d_A41_1633c : close ctol (35 / 1) (clamp A41_lo A41_hi (316444315641805 / 4398046511104)).
Proof. apply (A41_q_clamp_hi 316444315641805 4398046511104 35 1); vm_compute; reflexivity. Qed.
Lemma d_A41_1641c : close ctol (4755445114320613 / 140737488355328) (clamp A41_lo A41_hi (4755445114320613 / 140737488355328)).
Proof. apply (A41_q_clamp_mid 4755445114320613 140737488355328 4755445114320613 140737488355328); vm_compute; reflexivity. Qed.
Lemma d_A41_1649c : close ctol (3668720932076907 / 562949953421312) (clamp A41_lo A41_hi (3668720932076907 / 562949953421312)).
Proof. apply (A41_q_clamp_mid 3668720932076907 562949953421312 3668720932076907 562949953421312); vm_compute; reflexivity. Qed.
Lemma d_A41_1657c : close ctol (2439734766524855 / 140737488355328) (clamp A41_lo A41_hi (2439734766524855 / 140737488355328)).
Proof. apply (A41_q_clamp_mid 2439734766524855 140737488355328 2439734766524855 140737488355328); vm_compute; reflexivity. Qed.
Lemma d_A41_1665c : close ctol (35 / 1) (clamp A41_lo A41_hi (38 / 1)).
Proof. apply (A41_q_clamp_hi 38 1 35 1); vm_compute; reflexivity. Qed.
Lemma d_A41_1673c : close ctol (9 / 2) (clamp A41_lo A41_hi (267226042330407 / 70368744177664)).
Proof. apply (A41_q_clamp_lo 267226042330407 70368744177664 9 2); vm_compute; reflexivity. Qed.
Lemma d_A41_1681c : close ctol (9 / 2) (clamp A41_lo A41_hi ((-4239254397580267) / 2251799813685248)).
Proof. apply (A41_q_clamp_lo (-4239254397580267) 2251799813685248 9 2); vm_compute; reflexivity. Qed.
Lemma d_A41_1689c : close ctol (1181083762003033 / 35184372088832) (clamp A41_lo A41_hi (1181083762003033 / 35184372088832)).
Proof. apply (A41_q_clamp_mid 1181083762003033 35184372088832 1181083762003033 35184372088832); vm_compute; reflexivity. Qed.
Lemma d_A41_1697c : close ctol (35 / 1) (clamp A41_lo A41_hi (903776377448535 / 8796093022208)).
Proof. apply (A41_q_clamp_hi 903776377448535 8796093022208 35 1); vm_compute; reflexivity. Qed.
Lemma d_A41_1705c : close ctol (6790160901562835 / 1125899906842624) (clamp A41_lo A41_hi (6790160901562835 / 1125899906842624)).
Proof. apply (A41_q_clamp_mid 6790160901562835 1125899906842624 6790160901562835 1125899906842624); vm_compute; reflexivity. Qed.
Lemma d_A41_1713c : close ctol (447353358404025 / 17592186044416) (clamp A41_lo A41_hi (7157653734464399 / 281474976710656)).
Proof. apply (A41_q_clamp_mid 7157653734464399 281474976710656 447353358404025 17592186044416); vm_compute; reflexivity. Qed.
Lemma d_A41_1721c : close ctol (9 / 2) (clamp A41_lo A41_hi ((-415564093489679) / 2251799813685248)).
Proof. apply (A41_q_clamp_lo (-415564093489679) 2251799813685248 9 2); vm_compute; reflexivity. Qed.
Lemma d_A41_1729c : close ctol (9 / 2) (clamp A41_lo A41_hi (69126579002359 / 140737488355328)).
Proof. apply (A41_q_clamp_lo 69126579002359 140737488355328 9 2); vm_compute; reflexivity. Qed.
Lemma d_A41_1737c : close ctol (288520822597467 / 8796093022208) (clamp A41_lo A41_hi (288520822597467 / 8796093022208)).
Proof. apply (A41_q_clamp_mid 288520822597467 8796093022208 288520822597467 8796093022208); vm_compute; reflexivity. Qed.
Lemma d_A41_1745c : close ctol (2653581662617145 / 281474976710656) (clamp A41_lo A41_hi (2653581662617145 / 281474976710656)).
Proof. apply (A41_q_clamp_mid 2653581662617145 281474976710656 2653581662617145 281474976710656); vm_compute; reflexivity. Qed.
Lemma d_A41_1753c : close ctol (9 / 2) (clamp A41_lo A41_hi (837214677608253 / 281474976710656)).
Proof. apply (A41_q_clamp_lo 837214677608253 281474976710656 9 2); vm_compute; reflexivity. Qed.
Lemma d_A41_1761c : close ctol (8372758651664957 / 562949953421312) (clamp A41_lo A41_hi (8372758651664957 / 562949953421312)).
Proof. apply (A41_q_clamp_mid 8372758651664957 562949953421312 8372758651664957 562949953421312); vm_compute; reflexivity. Qed.
Lemma d_A41_1769c : close ctol (3611959954209421 / 140737488355328) (clamp A41_lo A41_hi (3611959954209421 / 140737488355328)).
Proof. apply (A41_q_clamp_mid 3611959954209421 140737488355328 3611959954209421 140737488355328); vm_compute; reflexivity. Qed.
Lemma d_A41_1777c : close ctol (7859392391765533 / 281474976710656) (clamp A41_lo A41_hi (1964848097941383 / 70368744177664)).
Proof. apply (A41_q_clamp_mid 1964848097941383 70368744177664 7859392391765533 281474976710656); vm_compute; reflexivity. Qed.
Lemma d_A41_1785c : close ctol (766740799286449 / 70368744177664) (clamp A41_lo A41_hi (766740799286449 / 70368744177664)).
Proof. apply (A41_q_clamp_mid 766740799286449 70368744177664 766740799286449 70368744177664); vm_compute; reflexivity. Qed.
Lemma d_A41_1793c : close ctol (6011488675084089 / 281474976710656) (clamp A41_lo A41_hi (6011488675084089 / 281474976710656)).
Proof. apply (A41_q_clamp_mid 6011488675084089 281474976710656 6011488675084089 281474976710656); vm_compute; reflexivity. Qed.
Lemma d_A41_1801c : close ctol (1200473598588081 / 35184372088832) (clamp A41_lo A41_hi (1200473598588081 / 35184372088832)).
Proof. apply (A41_q_clamp_mid 1200473598588081 35184372088832 1200473598588081 35184372088832); vm_compute; reflexivity. Qed.
Lemma d_A41_1809c : close ctol (35 / 1) (clamp A41_lo A41_hi (863731356229935 / 8796093022208)).
Proof. apply (A41_q_clamp_hi 863731356229935 8796093022208 35 1); vm_compute; reflexivity. Qed.
Lemma d_A41_1817c : close ctol (4481499313892311 / 140737488355328) (clamp A41_lo A41_hi (4481499313892311 / 140737488355328)).
Proof. apply (A41_q_clamp_mid 4481499313892311 140737488355328 4481499313892311 140737488355328); vm_compute; reflexivity. Qed.
Lemma d_A41_1825c : close ctol (1005748325373483 / 140737488355328) (clamp A41_lo A41_hi (1005748325373483 / 140737488355328)).
Proof. apply (A41_q_clamp_mid 1005748325373483 140737488355328 1005748325373483 140737488355328); vm_compute; reflexivity. Qed.
Lemma d_A41_1833c : close ctol (4378774095512795 / 281474976710656) (clamp A41_lo A41_hi (8757548191025589 / 562949953421312)).
Proof. apply (A41_q_clamp_mid 8757548191025589 562949953421312 4378774095512795 281474976710656); vm_compute; reflexivity. Qed.
Lemma d_A41_1841c : close ctol (7622250334329469 / 281474976710656) (clamp A41_lo A41_hi (3811125167164735 / 140737488355328)).
Proof. apply (A41_q_clamp_mid 3811125167164735 140737488355328 7622250334329469 281474976710656); vm_compute; reflexivity. Qed.
Lemma d_A41_1849c : close ctol (1336547543133357 / 70368744177664) (clamp A41_lo A41_hi (1336547543133357 / 70368744177664)).
Proof. apply (A41_q_clamp_mid 1336547543133357 70368744177664 1336547543133357 70368744177664); vm_compute; reflexivity. Qed.
Lemma d_A41_1857c : close ctol (161710631793627 / 8796093022208) (clamp A41_lo A41_hi (161710631793627 / 8796093022208)).
Proof. apply (A41_q_clamp_mid 161710631793627 8796093022208 161710631793627 8796093022208); vm_compute; reflexivity. Qed.
Lemma d_A41_1865c : close ctol (3034923662118613 / 140737488355328) (clamp A41_lo A41_hi (3034923662118613 / 140737488355328)).
Proof. apply (A41_q_clamp_mid 3034923662118613 140737488355328 3034923662118613 140737488355328); vm_compute; reflexivity. Qed.
Lemma d_A41_1873c : close ctol (7286148497322099 / 562949953421312) (clamp A41_lo A41_hi (1821537124330525 / 140737488355328)).
Proof. apply (A41_q_clamp_mid 1821537124330525 140737488355328 7286148497322099 562949953421312); vm_compute; reflexivity. Qed.
Lemma d_A41_1881c : close ctol (7389537089798157 / 562949953421312) (clamp A41_lo A41_hi (1847384272449539 / 140737488355328)).
Proof. apply (A41_q_clamp_mid 1847384272449539 140737488355328 7389537089798157 562949953421312); vm_compute; reflexivity. Qed.
Lemma d_A41_1889c : close ctol (2389933960538835 / 140737488355328) (clamp A41_lo A41_hi (2389933960538835 / 140737488355328)).
Proof. apply (A41_q_clamp_mid 2389933960538835 140737488355328 2389933960538835 140737488355328); vm_compute; reflexivity. Qed.
Lemma d_A41_1897c : close ctol (24 / 1) (clamp A41_lo A41_hi (24 / 1)).
Proof. apply (A41_q_clamp_mid 24 1 24 1); vm_compute; reflexivity. Qed.
Lemma d_A41_1905c : close ctol (8320046665746943 / 562949953421312) (clamp A41_lo A41_hi (16250091144037 / 1099511627776)).
Proof. apply (A41_q_clamp_mid 16250091144037 1099511627776 8320046665746943 562949953421312); vm_compute; reflexivity. Qed.
Lemma d_A41_1913c : close ctol (7832757805141005 / 562949953421312) (clamp A41_lo A41_hi (7832757805141005 / 562949953421312)).
Proof. apply (A41_q_clamp_mid 7832757805141005 562949953421312 7832757805141005 562949953421312); vm_compute; reflexivity. Qed.
Lemma d_A41_1921c : close ctol (118602758026513 / 17592186044416) (clamp A41_lo A41_hi (7590576513696833 / 1125899906842624)).
Proof. apply (A41_q_clamp_mid 7590576513696833 1125899906842624 118602758026513 17592186044416); vm_compute; reflexivity. Qed.
Lemma d_A41_1929c : close ctol (6893603703268405 / 281474976710656) (clamp A41_lo A41_hi (6893603703268405 / 281474976710656)).
Proof. apply (A41_q_clamp_mid 6893603703268405 281474976710656 6893603703268405 281474976710656); vm_compute; reflexivity. Qed.
Lemma d_A41_1937c : close ctol (35 / 1) (clamp A41_lo A41_hi (2629387251451277 / 70368744177664)).
Proof. apply (A41_q_clamp_hi 2629387251451277 70368744177664 35 1); vm_compute; reflexivity. Qed.
Lemma d_A41_1945c : close ctol (1124713134535809 / 70368744177664) (clamp A41_lo A41_hi (1124713134535809 / 70368744177664)).
Proof. apply (A41_q_clamp_mid 1124713134535809 70368744177664 1124713134535809 70368744177664); vm_compute; reflexivity. Qed.
Lemma d_A41_1953c : close ctol (35 / 1) (clamp A41_lo A41_hi (7342830912472741 / 70368744177664)).
Proof. apply (A41_q_clamp_hi 7342830912472741 70368744177664 35 1); vm_compute; reflexivity. Qed.
Lemma d_A41_1961c : close ctol (3375570660666339 / 562949953421312) (clamp A41_lo A41_hi (6751141321332679 / 1125899906842624)).
Proof. apply (A41_q_clamp_mid 6751141321332679 1125899906842624 3375570660666339 562949953421312); vm_compute; reflexivity. Qed.
Lemma d_A41_1969c : close ctol (6248405552910335 / 281474976710656) (clamp A41_lo A41_hi (6248405552910335 / 281474976710656)).
Proof. apply (A41_q_clamp_mid 6248405552910335 281474976710656 6248405552910335 281474976710656); vm_compute; reflexivity. Qed.
Lemma d_A41_1977c : close ctol (443857313848437 / 17592186044416) (clamp A41_lo A41_hi (7101717021574991 / 281474976710656)).
Proof. apply (A41_q_clamp_mid 7101717021574991 281474976710656 443857313848437 17592186044416); vm_compute; reflexivity. Qed.
Lemma d_A41_1985c : close ctol (1189291650580619 / 70368744177664) (clamp A41_lo A41_hi (1189291650580619 / 70368744177664)).
Proof. apply (A41_q_clamp_mid 1189291650580619 70368744177664 1189291650580619 70368744177664); vm_compute; reflexivity. Qed.
Lemma d_A41_1993c : close ctol (4567692200769835 / 281474976710656) (clamp A41_lo A41_hi (4567692200769835 / 281474976710656)).
Proof. apply (A41_q_clamp_mid 4567692200769835 281474976710656 4567692200769835 281474976710656); vm_compute; reflexivity. Qed.
Check d_A41_1993c.
