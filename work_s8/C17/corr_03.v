From Coq Require Import Reals Lra.
From Interval Require Import Tactic.
From RV Require Import IR.Model IR.Proofs.
Open Scope R_scope.
Lemma r_A02_6 : rio_reads A02_c A02_e A02_lo A02_hi floor_volts ctol (Build_rio (Fin (1 / 2)) (Fin (5 / 2)) (Fin (3715469692580659 / 1125899906842624)) (Fin (6 / 1)) (Fin (12 / 1)) true true true ((Fin (0 / 1)) :: (Fin (0 / 1)) :: (Fin (0 / 1)) :: (Fin (0 / 1)) :: (Fin (27 / 4)) :: (Fin (45 / 1)) :: nil)) (1167785753437137 / 8796093022208).
Proof. apply (A02_rio_fin _ (1 / 2)); [reflexivity | apply (A02_q_mid 1 2 1167785753437137 8796093022208); [vm_compute; reflexivity | unfold fr, close, ctol, A02_c, A02_e; interval with (i_prec 80)]]. Qed.
Lemma r_A02_37 : rio_reads A02_c A02_e A02_lo A02_hi floor_volts ctol (Build_rio (Fin (10000000000000000159028911097599180468360808563945281389781327557747838772170381060813469985856815104 / 1)) (Fin (5 / 1)) (Fin (3715469692580659 / 1125899906842624)) (Fin (0 / 1)) (Fin (12 / 1)) true true true ((Fin (0 / 1)) :: (Fin (0 / 1)) :: (Fin (0 / 1)) :: (Fin (0 / 1)) :: (Fin (27 / 4)) :: (Fin (45 / 1)) :: nil)) (45 / 2).
Proof. apply (A02_rio_fin _ (10000000000000000159028911097599180468360808563945281389781327557747838772170381060813469985856815104 / 1)); [reflexivity | apply (A02_q_lo 10000000000000000159028911097599180468360808563945281389781327557747838772170381060813469985856815104 1 45 2); [vm_compute; reflexivity | unfold fr, ctol, A02_lo, A02_c, A02_e; interval with (i_prec 80)]]. Qed.
Lemma r_A02_55 : rio_reads A02_c A02_e A02_lo A02_hi floor_volts ctol (Build_rio (Fin (235 / 512)) (Fin (5 / 1)) (Fin (3715469692580659 / 1125899906842624)) (Fin (6 / 1)) (Fin (12 / 1)) true true true ((Fin (0 / 1)) :: (Fin (0 / 1)) :: (Fin (0 / 1)) :: (Fin (0 / 1)) :: (Fin (27 / 4)) :: (Fin ((-40) / 1)) :: nil)) (145 / 1).
Proof. apply (A02_rio_fin _ (235 / 512)); [reflexivity | apply (A02_q_hi 235 512 145 1); [vm_compute; reflexivity | unfold fr, ctol, A02_hi, A02_c, A02_e; interval with (i_prec 80)]]. Qed.
Lemma r_A02_71 : rio_reads A02_c A02_e A02_lo A02_hi floor_volts ctol (Build_rio (Fin (5 / 64)) (Fin (5 / 1)) (Fin (3715469692580659 / 1125899906842624)) (Fin (6 / 1)) (Fin (12 / 1)) true true true ((Fin (0 / 1)) :: (Fin (0 / 1)) :: (Fin (0 / 1)) :: (Fin (0 / 1)) :: (Fin (27 / 4)) :: (Fin (45 / 1)) :: nil)) (145 / 1).
Proof. apply (A02_rio_fin _ (5 / 64)); [reflexivity | apply (A02_q_hi 5 64 145 1); [vm_compute; reflexivity | unfold fr, ctol, A02_hi, A02_c, A02_e; interval with (i_prec 80)]]. Qed.
Lemma r_A02_87 : rio_reads A02_c A02_e A02_lo A02_hi floor_volts ctol (Build_rio (Fin (25 / 64)) (Fin (1521 / 512)) (Fin (3715469692580659 / 1125899906842624)) (Fin (5697 / 1024)) (Fin (12 / 1)) true true false ((Fin (1073 / 1024)) :: (Fin (1317 / 1024)) :: (Fin (2853 / 1024)) :: (Fin (475 / 32)) :: (Fin (901 / 128)) :: (Fin (27187 / 512)) :: nil)) (145 / 1).
Proof. apply (A02_rio_fin _ (25 / 64)); [reflexivity | apply (A02_q_hi 25 64 145 1); [vm_compute; reflexivity | unfold fr, ctol, A02_hi, A02_c, A02_e; interval with (i_prec 80)]]. Qed.
Lemma r_A02_103 : rio_reads A02_c A02_e A02_lo A02_hi floor_volts ctol (Build_rio (Fin (45 / 64)) (Fin (5 / 1)) (Fin (3435 / 1024)) (Fin (169 / 32)) (Fin (6363 / 512)) true true true ((Fin (53 / 64)) :: (Fin (471 / 256)) :: (Fin (539 / 1024)) :: (Fin (75105 / 512)) :: (Fin (4173 / 512)) :: (Fin (74645 / 1024)) :: nil)) (6438265335634307 / 70368744177664).
Proof. apply (A02_rio_fin _ (45 / 64)); [reflexivity | apply (A02_q_mid 45 64 6438265335634307 70368744177664); [vm_compute; reflexivity | unfold fr, close, ctol, A02_c, A02_e; interval with (i_prec 80)]]. Qed.
Lemma r_A02_119 : rio_reads A02_c A02_e A02_lo A02_hi floor_volts ctol (Build_rio (Fin (65 / 64)) (Fin (5 / 1)) (Fin (3715469692580659 / 1125899906842624)) (Fin (6 / 1)) (Fin (12 / 1)) true true true ((Fin (0 / 1)) :: (Fin (0 / 1)) :: (Fin (0 / 1)) :: (Fin (0 / 1)) :: (Fin (27 / 4)) :: (Fin (45 / 1)) :: nil)) (1077247659657119 / 17592186044416).
Proof. apply (A02_rio_fin _ (65 / 64)); [reflexivity | apply (A02_q_mid 65 64 1077247659657119 17592186044416); [vm_compute; reflexivity | unfold fr, close, ctol, A02_c, A02_e; interval with (i_prec 80)]]. Qed.
Lemma r_A02_135 : rio_reads A02_c A02_e A02_lo A02_hi floor_volts ctol (Build_rio (Fin (85 / 64)) (Fin (2877 / 1024)) (Fin (1649 / 512)) (Fin (6237 / 1024)) (Fin (1153 / 128)) false true true ((Fin (137 / 64)) :: (Fin (283 / 256)) :: (Fin (1331 / 512)) :: (Fin (140043 / 1024)) :: (Fin (4575 / 512)) :: (Fin (12685 / 512)) :: nil)) (6429563128905527 / 140737488355328).
Proof. apply (A02_rio_fin _ (85 / 64)); [reflexivity | apply (A02_q_mid 85 64 6429563128905527 140737488355328); [vm_compute; reflexivity | unfold fr, close, ctol, A02_c, A02_e; interval with (i_prec 80)]]. Qed.
Lemma r_A02_151 : rio_reads A02_c A02_e A02_lo A02_hi floor_volts ctol (Build_rio (Fin (105 / 64)) (Fin (7263 / 1024)) (Fin (1805 / 512)) PInf (Fin (157 / 16)) true false true ((Fin (1601 / 1024)) :: (Fin (1225 / 1024)) :: (Fin (33 / 1024)) :: (Fin (167905 / 1024)) :: (Fin (6751 / 1024)) :: (Fin (94777 / 1024)) :: nil)) (2552338205758821 / 70368744177664).
Proof. apply (A02_rio_fin _ (105 / 64)); [reflexivity | apply (A02_q_mid 105 64 2552338205758821 70368744177664); [vm_compute; reflexivity | unfold fr, close, ctol, A02_c, A02_e; interval with (i_prec 80)]]. Qed.
Lemma r_A02_167 : rio_reads A02_c A02_e A02_lo A02_hi floor_volts ctol (Build_rio (Fin (125 / 64)) (Fin (5 / 1)) (Fin (3715469692580659 / 1125899906842624)) (Fin (6 / 1)) (Fin (12 / 1)) true true true ((Fin (0 / 1)) :: (Fin (0 / 1)) :: (Fin (0 / 1)) :: (Fin (0 / 1)) :: (Fin (27 / 4)) :: (Fin (45 / 1)) :: nil)) (8439392647544593 / 281474976710656).
Proof. apply (A02_rio_fin _ (125 / 64)); [reflexivity | apply (A02_q_mid 125 64 8439392647544593 281474976710656); [vm_compute; reflexivity | unfold fr, close, ctol, A02_c, A02_e; interval with (i_prec 80)]]. Qed.
Lemma r_A02_183 : rio_reads A02_c A02_e A02_lo A02_hi floor_volts ctol (Build_rio (Fin (145 / 64)) (Fin (1369 / 1024)) (Fin (3113 / 1024)) (Fin (6 / 1)) PInf false true true ((Fin (1017 / 1024)) :: (Fin (527 / 1024)) :: (Fin (939 / 1024)) :: (Fin (88305 / 1024)) :: (Fin (2987 / 512)) :: (Fin (1231 / 1024)) :: nil)) (7176671521897315 / 281474976710656).
Proof. apply (A02_rio_fin _ (145 / 64)); [reflexivity | apply (A02_q_mid 145 64 7176671521897315 281474976710656); [vm_compute; reflexivity | unfold fr, close, ctol, A02_c, A02_e; interval with (i_prec 80)]]. Qed.
Lemma r_A02_199 : rio_reads A02_c A02_e A02_lo A02_hi floor_volts ctol (Build_rio (Fin (665 / 256)) (Fin ((-1) / 1)) (Fin (3639 / 1024)) (Fin (1393 / 512)) (Fin (12 / 1)) true true true ((Fin (3049 / 1024)) :: (Fin (1337 / 1024)) :: (Fin (2559 / 1024)) :: (Fin (13757 / 256)) :: (Fin (1553 / 512)) :: (Fin (67505 / 1024)) :: nil)) (45 / 2).
Proof. apply (A02_rio_fin _ (665 / 256)); [reflexivity | apply (A02_q_lo 665 256 45 2); [vm_compute; reflexivity | unfold fr, ctol, A02_lo, A02_c, A02_e; interval with (i_prec 80)]]. Qed.
Lemma r_A02_215 : rio_reads A02_c A02_e A02_lo A02_hi floor_volts ctol (Build_rio (Fin (745 / 256)) (Fin (5 / 1)) (Fin (3715469692580659 / 1125899906842624)) (Fin (6 / 1)) (Fin (12 / 1)) true true true ((Fin (0 / 1)) :: (Fin (0 / 1)) :: (Fin (0 / 1)) :: (Fin (0 / 1)) :: (Fin (27 / 4)) :: (Fin (45 / 1)) :: nil)) (45 / 2).
Proof. apply (A02_rio_fin _ (745 / 256)); [reflexivity | apply (A02_q_lo 745 256 45 2); [vm_compute; reflexivity | unfold fr, ctol, A02_lo, A02_c, A02_e; interval with (i_prec 80)]]. Qed.
Lemma r_A02_231 : rio_reads A02_c A02_e A02_lo A02_hi floor_volts ctol (Build_rio (Fin (825 / 256)) (Fin (5 / 1)) (Fin ((-12) / 1)) (Fin (6455 / 1024)) (Fin (5871 / 512)) false true true ((Fin (177 / 128)) :: (Fin (729 / 512)) :: (Fin (1375 / 512)) :: (Fin (178181 / 1024)) :: (Fin (5337 / 1024)) :: (Fin (18889 / 256)) :: nil)) (45 / 2).
Proof. apply (A02_rio_fin _ (825 / 256)); [reflexivity | apply (A02_q_lo 825 256 45 2); [vm_compute; reflexivity | unfold fr, ctol, A02_lo, A02_c, A02_e; interval with (i_prec 80)]]. Qed.
Lemma r_A02_247 : rio_reads A02_c A02_e A02_lo A02_hi floor_volts ctol (Build_rio (Fin (905 / 256)) (Fin (5183 / 1024)) (Fin (0 / 1)) (Fin (6 / 1)) (Fin (113 / 256)) true true true ((Fin (2299 / 1024)) :: (Fin (1989 / 1024)) :: (Fin (2359 / 1024)) :: (Fin (8707 / 128)) :: (Fin (5375 / 1024)) :: (Fin (43747 / 512)) :: nil)) (45 / 2).
Proof. apply (A02_rio_fin _ (905 / 256)); [reflexivity | apply (A02_q_lo 905 256 45 2); [vm_compute; reflexivity | unfold fr, ctol, A02_lo, A02_c, A02_e; interval with (i_prec 80)]]. Qed.
Lemma r_A02_263 : rio_reads A02_c A02_e A02_lo A02_hi floor_volts ctol (Build_rio (Fin (985 / 256)) (Fin (5 / 1)) (Fin (3715469692580659 / 1125899906842624)) (Fin (6 / 1)) (Fin (12 / 1)) true true true ((Fin (0 / 1)) :: (Fin (0 / 1)) :: (Fin (0 / 1)) :: (Fin (0 / 1)) :: (Fin (27 / 4)) :: (Fin (45 / 1)) :: nil)) (45 / 2).
Proof. apply (A02_rio_fin _ (985 / 256)); [reflexivity | apply (A02_q_lo 985 256 45 2); [vm_compute; reflexivity | unfold fr, ctol, A02_lo, A02_c, A02_e; interval with (i_prec 80)]]. Qed.
Lemma r_A02_279 : rio_reads A02_c A02_e A02_lo A02_hi floor_volts ctol (Build_rio (Fin (1065 / 256)) (Fin (5149 / 1024)) (Fin (3573 / 1024)) (Fin (3173 / 512)) (Fin (12837 / 1024)) true true true ((Fin (583 / 512)) :: (Fin (1053 / 1024)) :: (Fin (699 / 1024)) :: (Fin (11237 / 64)) :: (Fin (1083 / 128)) :: (Fin (4265 / 64)) :: nil)) (45 / 2).
Proof. apply (A02_rio_fin _ (1065 / 256)); [reflexivity | apply (A02_q_lo 1065 256 45 2); [vm_compute; reflexivity | unfold fr, ctol, A02_lo, A02_c, A02_e; interval with (i_prec 80)]]. Qed.
Lemma r_A02_295 : rio_reads A02_c A02_e A02_lo A02_hi floor_volts ctol (Build_rio (Fin (1145 / 256)) (Fin (4383 / 1024)) (Fin (3715469692580659 / 1125899906842624)) (Fin (4005 / 512)) PInf true true true ((Fin (1149 / 1024)) :: (Fin (1619 / 1024)) :: (Fin (2473 / 1024)) :: (Fin (17069 / 1024)) :: (Fin (5949 / 1024)) :: (Fin ((-7525) / 1024)) :: nil)) (45 / 2).
Proof. apply (A02_rio_fin _ (1145 / 256)); [reflexivity | apply (A02_q_lo 1145 256 45 2); [vm_compute; reflexivity | unfold fr, ctol, A02_lo, A02_c, A02_e; interval with (i_prec 80)]]. Qed.
Lemma r_A02_311 : rio_reads A02_c A02_e A02_lo A02_hi floor_volts ctol (Build_rio (Fin (1225 / 256)) (Fin (5 / 1)) (Fin (3715469692580659 / 1125899906842624)) (Fin (6 / 1)) (Fin (12 / 1)) true true true ((Fin (0 / 1)) :: (Fin (0 / 1)) :: (Fin (0 / 1)) :: (Fin (0 / 1)) :: (Fin (27 / 4)) :: (Fin (45 / 1)) :: nil)) (45 / 2).
Proof. apply (A02_rio_fin _ (1225 / 256)); [reflexivity | apply (A02_q_lo 1225 256 45 2); [vm_compute; reflexivity | unfold fr, ctol, A02_lo, A02_c, A02_e; interval with (i_prec 80)]]. Qed.
Lemma r_A02_327 : rio_reads A02_c A02_e A02_lo A02_hi floor_volts ctol (Build_rio (Fin (76953352283849 / 35184372088832)) (Fin (2537 / 512)) (Fin (2951 / 1024)) (Fin (5377 / 1024)) (Fin (12057 / 1024)) true false false ((Fin (2813 / 1024)) :: (Fin (275 / 256)) :: (Fin (3 / 512)) :: (Fin (6937 / 1024)) :: (Fin (7475 / 1024)) :: (Fin (73261 / 1024)) :: nil)) (3729167661591047 / 140737488355328).
Proof. apply (A02_rio_fin _ (76953352283849 / 35184372088832)); [reflexivity | apply (A02_q_mid 76953352283849 35184372088832 3729167661591047 140737488355328); [vm_compute; reflexivity | unfold fr, close, ctol, A02_c, A02_e; interval with (i_prec 80)]]. Qed.
Lemma r_A02_343 : rio_reads A02_c A02_e A02_lo A02_hi floor_volts ctol (Build_rio (Fin (2585153120870053 / 562949953421312)) PInf (Fin (3715 / 1024)) (Fin (6349 / 1024)) (Fin (3619 / 1024)) true true true ((Fin (1473 / 512)) :: (Fin (403 / 512)) :: (Fin (397 / 1024)) :: (Fin (74691 / 1024)) :: (Fin (2069 / 512)) :: (Fin ((-3021) / 1024)) :: nil)) (45 / 2).
Proof. apply (A02_rio_fin _ (2585153120870053 / 562949953421312)); [reflexivity | apply (A02_q_lo 2585153120870053 562949953421312 45 2); [vm_compute; reflexivity | unfold fr, ctol, A02_lo, A02_c, A02_e; interval with (i_prec 80)]]. Qed.
Lemma r_A02_359 : rio_reads A02_c A02_e A02_lo A02_hi floor_volts ctol (Build_rio (Fin (2851353050670625 / 9007199254740992)) (Fin (5 / 1)) (Fin (3715469692580659 / 1125899906842624)) (Fin (6 / 1)) (Fin (12 / 1)) true true true ((Fin (0 / 1)) :: (Fin (0 / 1)) :: (Fin (0 / 1)) :: (Fin (0 / 1)) :: (Fin (27 / 4)) :: (Fin (45 / 1)) :: nil)) (145 / 1).
Proof. apply (A02_rio_fin _ (2851353050670625 / 9007199254740992)); [reflexivity | apply (A02_q_hi 2851353050670625 9007199254740992 145 1); [vm_compute; reflexivity | unfold fr, ctol, A02_hi, A02_c, A02_e; interval with (i_prec 80)]]. Qed.
Lemma r_A02_375 : rio_reads A02_c A02_e A02_lo A02_hi floor_volts ctol (Build_rio (Fin (7340708640439175 / 2251799813685248)) (Fin (5 / 1)) (Fin (3457 / 1024)) (Fin (2577 / 512)) (Fin (12195 / 1024)) true true true ((Fin (529 / 256)) :: (Fin (91 / 128)) :: (Fin (2969 / 1024)) :: (Fin (87209 / 512)) :: (Fin (2263 / 256)) :: (Fin (25085 / 256)) :: nil)) (45 / 2).
Proof. apply (A02_rio_fin _ (7340708640439175 / 2251799813685248)); [reflexivity | apply (A02_q_lo 7340708640439175 2251799813685248 45 2); [vm_compute; reflexivity | unfold fr, ctol, A02_lo, A02_c, A02_e; interval with (i_prec 80)]]. Qed.
Lemma r_A02_393 : rio_reads A02_c A02_e A02_lo A02_hi floor_volts ctol (Build_rio (Fin (8942717827085167 / 295147905179352825856)) (Fin (4163 / 1024)) (Fin (3659 / 1024)) (Fin (3145 / 512)) (Fin (2935 / 1024)) true true true ((Fin (823 / 1024)) :: (Fin (711 / 1024)) :: (Fin (905 / 512)) :: (Fin (9239 / 128)) :: (Fin (5963 / 1024)) :: (Fin (32545 / 1024)) :: nil)) (145 / 1).
Proof. apply (A02_rio_fin _ (8942717827085167 / 295147905179352825856)); [reflexivity | apply (A02_q_hi 8942717827085167 295147905179352825856 145 1); [vm_compute; reflexivity | unfold fr, ctol, A02_hi, A02_c, A02_e; interval with (i_prec 80)]]. Qed.
Lemma r_A02_411 : rio_reads A02_c A02_e A02_lo A02_hi floor_volts ctol (Build_rio (Fin (8659896916295819 / 17592186044416)) (Fin (43 / 4)) (Fin (3673 / 256)) (Fin (725 / 128)) (Fin (6217 / 512)) false true false ((Fin (1167 / 512)) :: (Fin (1461 / 1024)) :: (Fin (73 / 1024)) :: (Fin (6313 / 256)) :: (Fin (975 / 256)) :: (Fin (32741 / 1024)) :: nil)) (45 / 2).
Proof. apply (A02_rio_fin _ (8659896916295819 / 17592186044416)); [reflexivity | apply (A02_q_lo 8659896916295819 17592186044416 45 2); [vm_compute; reflexivity | unfold fr, ctol, A02_lo, A02_c, A02_e; interval with (i_prec 80)]]. Qed.
Lemma d_A02_4r : rio_reads A02_c A02_e A02_lo A02_hi floor_volts ctol (Build_rio (Fin (8308476880671015 / 18014398509481984)) (Fin (19 / 4)) (Fin (3715469692580659 / 1125899906842624)) (Fin (6 / 1)) (Fin (12 / 1)) true true true ((Fin (0 / 1)) :: (Fin (0 / 1)) :: (Fin (0 / 1)) :: (Fin (0 / 1)) :: (Fin (27 / 4)) :: (Fin (45 / 1)) :: nil)) (145 / 1).
Proof. apply (A02_rio_fin _ (8308476880671015 / 18014398509481984)); [reflexivity | apply (A02_q_hi 8308476880671015 18014398509481984 145 1); [vm_compute; reflexivity | unfold fr, ctol, A02_hi, A02_c, A02_e; interval with (i_prec 80)]]. Qed.
Lemma d_A02_12r : rio_reads A02_c A02_e A02_lo A02_hi floor_volts ctol (Build_rio (Fin (8308476880671015 / 18014398509481984)) (Fin (5629499534213119 / 1125899906842624)) (Fin (3715469692580659 / 1125899906842624)) (Fin (6 / 1)) (Fin (12 / 1)) true true true ((Fin (0 / 1)) :: (Fin (0 / 1)) :: (Fin (0 / 1)) :: (Fin (0 / 1)) :: (Fin (27 / 4)) :: (Fin (45 / 1)) :: nil)) (145 / 1).
Proof. apply (A02_rio_fin _ (8308476880671015 / 18014398509481984)); [reflexivity | apply (A02_q_hi 8308476880671015 18014398509481984 145 1); [vm_compute; reflexivity | unfold fr, ctol, A02_hi, A02_c, A02_e; interval with (i_prec 80)]]. Qed.
Lemma d_A02_20r : rio_reads A02_c A02_e A02_lo A02_hi floor_volts ctol (Build_rio (Fin (357539307115111 / 140737488355328)) (Fin (5 / 1)) (Fin (3715469692580659 / 1125899906842624)) (Fin (6 / 1)) (Fin (21 / 2)) true true true ((Fin (0 / 1)) :: (Fin (0 / 1)) :: (Fin (0 / 1)) :: (Fin (0 / 1)) :: (Fin (27 / 4)) :: (Fin (45 / 1)) :: nil)) (45 / 2).
Proof. apply (A02_rio_fin _ (357539307115111 / 140737488355328)); [reflexivity | apply (A02_q_lo 357539307115111 140737488355328 45 2); [vm_compute; reflexivity | unfold fr, ctol, A02_lo, A02_c, A02_e; interval with (i_prec 80)]]. Qed.
Lemma d_A02_28r : rio_reads A02_c A02_e A02_lo A02_hi floor_volts ctol (Build_rio (Fin (357539307115111 / 140737488355328)) (Fin (5 / 1)) (Fin (3 / 1)) (Fin (6 / 1)) (Fin (12 / 1)) true true true ((Fin (0 / 1)) :: (Fin (0 / 1)) :: (Fin (0 / 1)) :: (Fin (0 / 1)) :: (Fin (27 / 4)) :: (Fin (45 / 1)) :: nil)) (45 / 2).
Proof. apply (A02_rio_fin _ (357539307115111 / 140737488355328)); [reflexivity | apply (A02_q_lo 357539307115111 140737488355328 45 2); [vm_compute; reflexivity | unfold fr, ctol, A02_lo, A02_c, A02_e; interval with (i_prec 80)]]. Qed.
Lemma d_A02_36r : rio_reads A02_c A02_e A02_lo A02_hi floor_volts ctol (Build_rio (Fin (8308476880671015 / 18014398509481984)) (Fin (5 / 1)) (Fin (3715469692580659 / 1125899906842624)) (Fin (5 / 1)) (Fin (12 / 1)) true true true ((Fin (0 / 1)) :: (Fin (0 / 1)) :: (Fin (0 / 1)) :: (Fin (0 / 1)) :: (Fin (27 / 4)) :: (Fin (45 / 1)) :: nil)) (145 / 1).
Proof. apply (A02_rio_fin _ (8308476880671015 / 18014398509481984)); [reflexivity | apply (A02_q_hi 8308476880671015 18014398509481984 145 1); [vm_compute; reflexivity | unfold fr, ctol, A02_hi, A02_c, A02_e; interval with (i_prec 80)]]. Qed.
Lemma d_A02_44r : rio_reads A02_c A02_e A02_lo A02_hi floor_volts ctol (Build_rio (Fin (8308476880671015 / 18014398509481984)) (Fin (5 / 1)) (Fin (3715469692580659 / 1125899906842624)) (Fin (6 / 1)) (Fin (12 / 1)) true true true ((Fin (2 / 1)) :: (Fin (0 / 1)) :: (Fin (0 / 1)) :: (Fin (0 / 1)) :: (Fin (27 / 4)) :: (Fin (45 / 1)) :: nil)) (145 / 1).
Proof. apply (A02_rio_fin _ (8308476880671015 / 18014398509481984)); [reflexivity | apply (A02_q_hi 8308476880671015 18014398509481984 145 1); [vm_compute; reflexivity | unfold fr, ctol, A02_hi, A02_c, A02_e; interval with (i_prec 80)]]. Qed.
Lemma d_A02_52r : rio_reads A02_c A02_e A02_lo A02_hi floor_volts ctol (Build_rio (Fin (8308476880671015 / 18014398509481984)) (Fin (5 / 1)) (Fin (3715469692580659 / 1125899906842624)) (Fin (6 / 1)) (Fin (12 / 1)) true true true ((Fin (0 / 1)) :: (Fin (0 / 1)) :: (Fin (0 / 1)) :: (Fin (0 / 1)) :: (Fin (13 / 1)) :: (Fin (45 / 1)) :: nil)) (145 / 1).
Proof. apply (A02_rio_fin _ (8308476880671015 / 18014398509481984)); [reflexivity | apply (A02_q_hi 8308476880671015 18014398509481984 145 1); [vm_compute; reflexivity | unfold fr, ctol, A02_hi, A02_c, A02_e; interval with (i_prec 80)]]. Qed.
Lemma d_A02_62u : close ctol (4473824496800893 / 4503599627370496) (volts_A02 (8828852634372255 / 140737488355328)).
Proof. apply (A02_q_volts_mid 8828852634372255 140737488355328 4473824496800893 4503599627370496); [vm_compute; reflexivity | unfold fr, close, ctol, A02_lo, A02_hi, A02_c, A02_e; interval with (i_prec 80)]. Qed.
Lemma d_A02_75u : close ctol (2659548845657163 / 4503599627370496) (volts_A02 (7789783253675929 / 70368744177664)).
Proof. apply (A02_q_volts_mid 7789783253675929 70368744177664 2659548845657163 4503599627370496); [vm_compute; reflexivity | unfold fr, close, ctol, A02_lo, A02_hi, A02_c, A02_e; interval with (i_prec 80)]. Qed.
Lemma d_A02_88u : close ctol (199264570600197 / 281474976710656) (volts_A02 (3195280623261887 / 35184372088832)).
Proof. apply (A02_q_volts_mid 3195280623261887 35184372088832 199264570600197 281474976710656); [vm_compute; reflexivity | unfold fr, close, ctol, A02_lo, A02_hi, A02_c, A02_e; interval with (i_prec 80)]. Qed.
Lemma d_A02_100r : rio_reads A02_c A02_e A02_lo A02_hi floor_volts ctol (Build_rio (Fin (4559035978104125 / 9007199254740992)) (Fin (6691 / 1024)) (Fin (3715469692580659 / 1125899906842624)) (Fin (5277 / 1024)) (Fin (4245 / 1024)) false true true ((Fin (1205 / 1024)) :: (Fin (21 / 128)) :: (Fin (1907 / 1024)) :: (Fin (82401 / 512)) :: (Fin (3421 / 512)) :: (Fin ((-455) / 128)) :: nil)) (131 / 1).
Proof. apply (A02_rio_fin _ (4559035978104125 / 9007199254740992)); [reflexivity | apply (A02_q_mid 4559035978104125 9007199254740992 131 1); [vm_compute; reflexivity | unfold fr, close, ctol, A02_c, A02_e; interval with (i_prec 80)]]. Qed.
Lemma d_A02_113u : close ctol (1245492657152967 / 2251799813685248) (volts_A02 (8367165585081649 / 70368744177664)).
Proof. apply (A02_q_volts_mid 8367165585081649 70368744177664 1245492657152967 2251799813685248); [vm_compute; reflexivity | unfold fr, close, ctol, A02_lo, A02_hi, A02_c, A02_e; interval with (i_prec 80)]. Qed.
Lemma d_A02_126u : close ctol (7741762555537381 / 9007199254740992) (volts_A02 (646304728679759 / 8796093022208)).
Proof. apply (A02_q_volts_mid 646304728679759 8796093022208 7741762555537381 9007199254740992); [vm_compute; reflexivity | unfold fr, close, ctol, A02_lo, A02_hi, A02_c, A02_e; interval with (i_prec 80)]. Qed.
Lemma d_A02_139u : close ctol (357539307115111 / 140737488355328) (volts_A02 ((-2465078156307385) / 281474976710656)).
Proof. apply (A02_q_volts_lo (-2465078156307385) 281474976710656 357539307115111 140737488355328); [vm_compute; reflexivity | unfold fr, close, ctol, A02_lo, A02_hi, A02_c, A02_e; interval with (i_prec 80)]. Qed.
Lemma d_A02_152u : close ctol (456849136524595 / 562949953421312) (volts_A02 (5505154422276957 / 70368744177664)).
Proof. apply (A02_q_volts_mid 5505154422276957 70368744177664 456849136524595 562949953421312); [vm_compute; reflexivity | unfold fr, close, ctol, A02_lo, A02_hi, A02_c, A02_e; interval with (i_prec 80)]. Qed.
Lemma d_A02_164r : rio_reads A02_c A02_e A02_lo A02_hi floor_volts ctol (Build_rio (Fin (5907217520181759 / 9007199254740992)) (Fin (5419 / 1024)) (Fin (3503 / 1024)) (Fin (5903 / 1024)) (Fin (3211 / 256)) true true false ((Fin (269 / 128)) :: (Fin (1257 / 1024)) :: (Fin (255 / 128)) :: (Fin (75443 / 512)) :: (Fin (5043 / 1024)) :: (Fin (42859 / 1024)) :: nil)) (3473443525787203 / 35184372088832).
Proof. apply (A02_rio_fin _ (5907217520181759 / 9007199254740992)); [reflexivity | apply (A02_q_mid 5907217520181759 9007199254740992 3473443525787203 35184372088832); [vm_compute; reflexivity | unfold fr, close, ctol, A02_c, A02_e; interval with (i_prec 80)]]. Qed.
Lemma d_A02_177u : close ctol (6741600885853869 / 4503599627370496) (volts_A02 (5642043580309957 / 140737488355328)).
Proof. apply (A02_q_volts_mid 5642043580309957 140737488355328 6741600885853869 4503599627370496); [vm_compute; reflexivity | unfold fr, close, ctol, A02_lo, A02_hi, A02_c, A02_e; interval with (i_prec 80)]. Qed.
Lemma d_A02_190u : close ctol (1396210781811125 / 1125899906842624) (volts_A02 (3464812116533627 / 70368744177664)).
Proof. apply (A02_q_volts_mid 3464812116533627 70368744177664 1396210781811125 1125899906842624); [vm_compute; reflexivity | unfold fr, close, ctol, A02_lo, A02_hi, A02_c, A02_e; interval with (i_prec 80)]. Qed.
Lemma d_A02_203u : close ctol (1243348687167153 / 562949953421312) (volts_A02 (1844785692831629 / 70368744177664)).
Proof. apply (A02_q_volts_mid 1844785692831629 70368744177664 1243348687167153 562949953421312); [vm_compute; reflexivity | unfold fr, close, ctol, A02_lo, A02_hi, A02_c, A02_e; interval with (i_prec 80)]. Qed.
Lemma d_A02_216u : close ctol (7753451721956981 / 4503599627370496) (volts_A02 (302689291064039 / 8796093022208)).
Proof. apply (A02_q_volts_mid 302689291064039 8796093022208 7753451721956981 4503599627370496); [vm_compute; reflexivity | unfold fr, close, ctol, A02_lo, A02_hi, A02_c, A02_e; interval with (i_prec 80)]. Qed.
Lemma d_A02_228r : rio_reads A02_c A02_e A02_lo A02_hi floor_volts ctol (Build_rio (Fin (4619679162339805 / 4503599627370496)) (Fin (5 / 1)) (Fin (3715469692580659 / 1125899906842624)) (Fin (783 / 128)) (Fin (12931 / 1024)) true false true ((Fin (143 / 64)) :: (Fin (977 / 1024)) :: (Fin (111 / 64)) :: (Fin (25165 / 128)) :: (Fin (2035 / 256)) :: (Fin ((-1739) / 512)) :: nil)) (4262452737250719 / 70368744177664).
Proof. apply (A02_rio_fin _ (4619679162339805 / 4503599627370496)); [reflexivity | apply (A02_q_mid 4619679162339805 4503599627370496 4262452737250719 70368744177664); [vm_compute; reflexivity | unfold fr, close, ctol, A02_c, A02_e; interval with (i_prec 80)]]. Qed.
Lemma d_A02_241u : close ctol (357539307115111 / 140737488355328) (volts_A02 (68513455580583 / 35184372088832)).
Proof. apply (A02_q_volts_lo 68513455580583 35184372088832 357539307115111 140737488355328); [vm_compute; reflexivity | unfold fr, close, ctol, A02_lo, A02_hi, A02_c, A02_e; interval with (i_prec 80)]. Qed.
Lemma d_A02_254u : close ctol (89641922306893 / 140737488355328) (volts_A02 (1793038945261479 / 17592186044416)).
Proof. apply (A02_q_volts_mid 1793038945261479 17592186044416 89641922306893 140737488355328); [vm_compute; reflexivity | unfold fr, close, ctol, A02_lo, A02_hi, A02_c, A02_e; interval with (i_prec 80)]. Qed.
Lemma d_A02_267u : close ctol (1151001631469635 / 1125899906842624) (volts_A02 (4278300073581939 / 70368744177664)).
Proof. apply (A02_q_volts_mid 4278300073581939 70368744177664 1151001631469635 1125899906842624); [vm_compute; reflexivity | unfold fr, close, ctol, A02_lo, A02_hi, A02_c, A02_e; interval with (i_prec 80)]. Qed.
Lemma d_A02_280u : close ctol (8359307785816533 / 9007199254740992) (volts_A02 (1188695057746283 / 17592186044416)).
Proof. apply (A02_q_volts_mid 1188695057746283 17592186044416 8359307785816533 9007199254740992); [vm_compute; reflexivity | unfold fr, close, ctol, A02_lo, A02_hi, A02_c, A02_e; interval with (i_prec 80)]. Qed.
Lemma d_A02_292r : rio_reads A02_c A02_e A02_lo A02_hi floor_volts ctol (Build_rio (Fin (3052636506482061 / 2251799813685248)) (Fin (4395 / 1024)) (Fin (3101 / 1024)) (Fin (5613 / 1024)) (Fin (5431 / 512)) true false false ((Fin (1971 / 1024)) :: (Fin (797 / 512)) :: (Fin (33 / 16)) :: (Fin (152225 / 1024)) :: (Fin (2183 / 256)) :: (Fin (50623 / 1024)) :: nil)) (6287177424849927 / 140737488355328).
Proof. apply (A02_rio_fin _ (3052636506482061 / 2251799813685248)); [reflexivity | apply (A02_q_mid 3052636506482061 2251799813685248 6287177424849927 140737488355328); [vm_compute; reflexivity | unfold fr, close, ctol, A02_c, A02_e; interval with (i_prec 80)]]. Qed.
Lemma d_A02_305u : close ctol (3595008278868037 / 4503599627370496) (volts_A02 (2802601805056479 / 35184372088832)).
Proof. apply (A02_q_volts_mid 2802601805056479 35184372088832 3595008278868037 4503599627370496); [vm_compute; reflexivity | unfold fr, close, ctol, A02_lo, A02_hi, A02_c, A02_e; interval with (i_prec 80)]. Qed.
Lemma d_A02_318u : close ctol (8308476880671015 / 18014398509481984) (volts_A02 (2177097893858663 / 8796093022208)).
Proof. apply (A02_q_volts_hi 2177097893858663 8796093022208 8308476880671015 18014398509481984); [vm_compute; reflexivity | unfold fr, close, ctol, A02_lo, A02_hi, A02_c, A02_e; interval with (i_prec 80)]. Qed.
Lemma d_A02_331u : close ctol (7612106878670381 / 9007199254740992) (volts_A02 (5266682129888517 / 70368744177664)).
Proof. apply (A02_q_volts_mid 5266682129888517 70368744177664 7612106878670381 9007199254740992); [vm_compute; reflexivity | unfold fr, close, ctol, A02_lo, A02_hi, A02_c, A02_e; interval with (i_prec 80)]. Qed.
Lemma d_A02_344u : close ctol (8308476880671015 / 18014398509481984) (volts_A02 (468620551813179 / 1099511627776)).
Proof. apply (A02_q_volts_hi 468620551813179 1099511627776 8308476880671015 18014398509481984); [vm_compute; reflexivity | unfold fr, close, ctol, A02_lo, A02_hi, A02_c, A02_e; interval with (i_prec 80)]. Qed.
Lemma d_A02_356r : rio_reads A02_c A02_e A02_lo A02_hi floor_volts ctol (Build_rio (Fin (8308476880671015 / 18014398509481984)) (Fin (1185 / 256)) (Fin (3715469692580659 / 1125899906842624)) (Fin (100000000000000001097906362944045541740492309677311846336810682903157585404911491537163328978494688899061249669721172515611590283743140088328307009198146046031271664502933027185697489699588559043338384466165001178426897626212945177628091195786707458122783970171784415105291802893207873272974885715430223118336 / 1)) (Fin (0 / 1)) false true true ((Fin (847 / 512)) :: (Fin (211 / 256)) :: (Fin (267 / 256)) :: (Fin (23703 / 512)) :: (Fin (3425 / 1024)) :: (Fin (37235 / 1024)) :: nil)) (145 / 1).
Proof. apply (A02_rio_fin _ (8308476880671015 / 18014398509481984)); [reflexivity | apply (A02_q_hi 8308476880671015 18014398509481984 145 1); [vm_compute; reflexivity | unfold fr, ctol, A02_hi, A02_c, A02_e; interval with (i_prec 80)]]. Qed.
Lemma d_A02_369u : close ctol (4479636028183765 / 9007199254740992) (volts_A02 (2349218337709551 / 17592186044416)).
Proof. apply (A02_q_volts_mid 2349218337709551 17592186044416 4479636028183765 9007199254740992); [vm_compute; reflexivity | unfold fr, close, ctol, A02_lo, A02_hi, A02_c, A02_e; interval with (i_prec 80)]. Qed.
Lemma d_A02_382u : close ctol (1150789857481701 / 2251799813685248) (volts_A02 (2280464267608277 / 17592186044416)).
Proof. apply (A02_q_volts_mid 2280464267608277 17592186044416 1150789857481701 2251799813685248); [vm_compute; reflexivity | unfold fr, close, ctol, A02_lo, A02_hi, A02_c, A02_e; interval with (i_prec 80)]. Qed.
Lemma d_A02_395u : close ctol (1598639052564673 / 2251799813685248) (volts_A02 (3185410966288285 / 35184372088832)).
Proof. apply (A02_q_volts_mid 3185410966288285 35184372088832 1598639052564673 2251799813685248); [vm_compute; reflexivity | unfold fr, close, ctol, A02_lo, A02_hi, A02_c, A02_e; interval with (i_prec 80)]. Qed.
Lemma d_A02_408u : close ctol (6583899685662391 / 4503599627370496) (volts_A02 (1447444840270757 / 35184372088832)).
Proof. apply (A02_q_volts_mid 1447444840270757 35184372088832 6583899685662391 4503599627370496); [vm_compute; reflexivity | unfold fr, close, ctol, A02_lo, A02_hi, A02_c, A02_e; interval with (i_prec 80)]. Qed.
Lemma d_A02_420r : rio_reads A02_c A02_e A02_lo A02_hi floor_volts ctol (Build_rio (Fin (6239461031019835 / 9007199254740992)) (Fin (5902958103587057 / 590295810358705651712)) (Fin ((-12) / 1)) (Fin (6 / 1)) (Fin (12605 / 1024)) true true false ((Fin (1105 / 512)) :: (Fin (237 / 256)) :: (Fin (539 / 1024)) :: (Fin (148751 / 1024)) :: (Fin (7589 / 1024)) :: (Fin (13997 / 256)) :: nil)) (1635986947785193 / 17592186044416).
Proof. apply (A02_rio_fin _ (6239461031019835 / 9007199254740992)); [reflexivity | apply (A02_q_mid 6239461031019835 9007199254740992 1635986947785193 17592186044416); [vm_compute; reflexivity | unfold fr, close, ctol, A02_c, A02_e; interval with (i_prec 80)]]. Qed.
Lemma d_A02_433u : close ctol (8552090694878635 / 18014398509481984) (volts_A02 (1235811557358555 / 8796093022208)).
Proof. apply (A02_q_volts_mid 1235811557358555 8796093022208 8552090694878635 18014398509481984); [vm_compute; reflexivity | unfold fr, close, ctol, A02_lo, A02_hi, A02_c, A02_e; interval with (i_prec 80)]. Qed.
Lemma d_A02_446u : close ctol (357539307115111 / 140737488355328) (volts_A02 (2640954368662893 / 140737488355328)).
Proof. apply (A02_q_volts_lo 2640954368662893 140737488355328 357539307115111 140737488355328); [vm_compute; reflexivity | unfold fr, close, ctol, A02_lo, A02_hi, A02_c, A02_e; interval with (i_prec 80)]. Qed.
Lemma d_A02_459u : close ctol (2318846511059435 / 4503599627370496) (volts_A02 (35342615492317 / 274877906944)).
Proof. apply (A02_q_volts_mid 35342615492317 274877906944 2318846511059435 4503599627370496); [vm_compute; reflexivity | unfold fr, close, ctol, A02_lo, A02_hi, A02_c, A02_e; interval with (i_prec 80)]. Qed.
Lemma d_A02_472u : close ctol (71681223221023 / 140737488355328) (volts_A02 (2288912575498619 / 17592186044416)).
Proof. apply (A02_q_volts_mid 2288912575498619 17592186044416 71681223221023 140737488355328); [vm_compute; reflexivity | unfold fr, close, ctol, A02_lo, A02_hi, A02_c, A02_e; interval with (i_prec 80)]. Qed.
Lemma d_A02_484r : rio_reads A02_c A02_e A02_lo A02_hi floor_volts ctol (Build_rio (Fin (8308476880671015 / 18014398509481984)) (Fin (5 / 1)) (Fin (1 / 1)) (Fin (3135 / 512)) PInf true false true ((Fin (609 / 256)) :: (Fin (137 / 128)) :: (Fin (709 / 256)) :: (Fin (84691 / 512)) :: (Fin (7095 / 1024)) :: (Fin (64131 / 1024)) :: nil)) (145 / 1).
Proof. apply (A02_rio_fin _ (8308476880671015 / 18014398509481984)); [reflexivity | apply (A02_q_hi 8308476880671015 18014398509481984 145 1); [vm_compute; reflexivity | unfold fr, ctol, A02_hi, A02_c, A02_e; interval with (i_prec 80)]]. Qed.
Lemma d_A02_497u : close ctol (1281915936215061 / 1125899906842624) (volts_A02 (7607002142047861 / 140737488355328)).
Proof. apply (A02_q_volts_mid 7607002142047861 140737488355328 1281915936215061 1125899906842624); [vm_compute; reflexivity | unfold fr, close, ctol, A02_lo, A02_hi, A02_c, A02_e; interval with (i_prec 80)]. Qed.
Lemma d_A02_510u : close ctol (6750009420042983 / 4503599627370496) (volts_A02 (5634369080247575 / 140737488355328)).
Proof. apply (A02_q_volts_mid 5634369080247575 140737488355328 6750009420042983 4503599627370496); [vm_compute; reflexivity | unfold fr, close, ctol, A02_lo, A02_hi, A02_c, A02_e; interval with (i_prec 80)]. Qed.
Lemma d_A02_523u : close ctol (7834591996623217 / 9007199254740992) (volts_A02 (2551787736074399 / 35184372088832)).
Proof. apply (A02_q_volts_mid 2551787736074399 35184372088832 7834591996623217 9007199254740992); [vm_compute; reflexivity | unfold fr, close, ctol, A02_lo, A02_hi, A02_c, A02_e; interval with (i_prec 80)]. Qed.
Lemma d_A02_536u : close ctol (4727079776178005 / 9007199254740992) (volts_A02 (8861045203707515 / 70368744177664)).
Proof. apply (A02_q_volts_mid 8861045203707515 70368744177664 4727079776178005 9007199254740992); [vm_compute; reflexivity | unfold fr, close, ctol, A02_lo, A02_hi, A02_c, A02_e; interval with (i_prec 80)]. Qed.
Lemma d_A02_548r : rio_reads A02_c A02_e A02_lo A02_hi floor_volts ctol (Build_rio (Fin (2553126805570065 / 2251799813685248)) (Fin (5299 / 1024)) (Fin (3233 / 1024)) (Fin (2883 / 512)) (Fin (5697 / 512)) false false true ((Fin (499 / 256)) :: (Fin (683 / 1024)) :: (Fin (1043 / 512)) :: (Fin (134301 / 1024)) :: (Fin (873 / 256)) :: (Fin (31017 / 1024)) :: nil)) (7641838827390671 / 140737488355328).
Proof. apply (A02_rio_fin _ (2553126805570065 / 2251799813685248)); [reflexivity | apply (A02_q_mid 2553126805570065 2251799813685248 7641838827390671 140737488355328); [vm_compute; reflexivity | unfold fr, close, ctol, A02_c, A02_e; interval with (i_prec 80)]]. Qed.
Lemma d_A02_561u : close ctol (2831165299274207 / 1125899906842624) (volts_A02 (6404424813838847 / 281474976710656)).
Proof. apply (A02_q_volts_mid 6404424813838847 281474976710656 2831165299274207 1125899906842624); [vm_compute; reflexivity | unfold fr, close, ctol, A02_lo, A02_hi, A02_c, A02_e; interval with (i_prec 80)]. Qed.
Lemma d_A02_574u : close ctol (6999592681489727 / 4503599627370496) (volts_A02 (1353836502462297 / 35184372088832)).
Proof. apply (A02_q_volts_mid 1353836502462297 35184372088832 6999592681489727 4503599627370496); [vm_compute; reflexivity | unfold fr, close, ctol, A02_lo, A02_hi, A02_c, A02_e; interval with (i_prec 80)]. Qed.
Lemma d_A02_587u : close ctol (7372431033485371 / 9007199254740992) (volts_A02 (2726964806874531 / 35184372088832)).
Proof. apply (A02_q_volts_mid 2726964806874531 35184372088832 7372431033485371 9007199254740992); [vm_compute; reflexivity | unfold fr, close, ctol, A02_lo, A02_hi, A02_c, A02_e; interval with (i_prec 80)]. Qed.
Lemma d_A02_600u : close ctol (1758236368477391 / 2251799813685248) (volts_A02 (1435511132273641 / 17592186044416)).
Proof. apply (A02_q_volts_mid 1435511132273641 17592186044416 1758236368477391 2251799813685248); [vm_compute; reflexivity | unfold fr, close, ctol, A02_lo, A02_hi, A02_c, A02_e; interval with (i_prec 80)]. Qed.
Lemma d_A02_612r : rio_reads A02_c A02_e A02_lo A02_hi floor_volts ctol (Build_rio (Fin (4958732054856497 / 4503599627370496)) (Fin (2567 / 512)) (Fin (683 / 256)) (Fin (5079 / 1024)) (Fin (5827 / 512)) false true false ((Fin (2069 / 1024)) :: (Fin (1681 / 1024)) :: (Fin (1445 / 1024)) :: (Fin (90859 / 1024)) :: (Fin (141 / 32)) :: (Fin (34813 / 512)) :: nil)) (7890434754362081 / 140737488355328).
Proof. apply (A02_rio_fin _ (4958732054856497 / 4503599627370496)); [reflexivity | apply (A02_q_mid 4958732054856497 4503599627370496 7890434754362081 140737488355328); [vm_compute; reflexivity | unfold fr, close, ctol, A02_c, A02_e; interval with (i_prec 80)]]. Qed.
Lemma d_A02_625u : close ctol (519704437749287 / 281474976710656) (volts_A02 (4486840552629655 / 140737488355328)).
Proof. apply (A02_q_volts_mid 4486840552629655 140737488355328 519704437749287 281474976710656); [vm_compute; reflexivity | unfold fr, close, ctol, A02_lo, A02_hi, A02_c, A02_e; interval with (i_prec 80)]. Qed.
Lemma d_A02_638u : close ctol (2474998009700947 / 4503599627370496) (volts_A02 (8426203386033191 / 70368744177664)).
Proof. apply (A02_q_volts_mid 8426203386033191 70368744177664 2474998009700947 4503599627370496); [vm_compute; reflexivity | unfold fr, close, ctol, A02_lo, A02_hi, A02_c, A02_e; interval with (i_prec 80)]. Qed.
Lemma d_A02_651u : close ctol (4374664105865055 / 9007199254740992) (volts_A02 (4821684743611955 / 35184372088832)).
Proof. apply (A02_q_volts_mid 4821684743611955 35184372088832 4374664105865055 9007199254740992); [vm_compute; reflexivity | unfold fr, close, ctol, A02_lo, A02_hi, A02_c, A02_e; interval with (i_prec 80)]. Qed.
Lemma d_A02_664u : close ctol (2649579794110191 / 1125899906842624) (volts_A02 (3442602469171759 / 140737488355328)).
Proof. apply (A02_q_volts_mid 3442602469171759 140737488355328 2649579794110191 1125899906842624); [vm_compute; reflexivity | unfold fr, close, ctol, A02_lo, A02_hi, A02_c, A02_e; interval with (i_prec 80)]. Qed.
Lemma r_A21_451 : rio_reads A21_c A21_e A21_lo A21_hi floor_volts ctol (Build_rio (Fin (1152921504606847 / 1152921504606846976)) (Fin (5 / 1)) (Fin (3715469692580659 / 1125899906842624)) (Fin (6 / 1)) (Fin (5 / 1)) true true true ((Fin (0 / 1)) :: (Fin (0 / 1)) :: (Fin (0 / 1)) :: (Fin (0 / 1)) :: (Fin (27 / 4)) :: (Fin (45 / 1)) :: nil)) (80 / 1).
Proof. apply (A21_rio_fin _ (1152921504606847 / 1152921504606846976)); [reflexivity | apply (A21_q_hi 1152921504606847 1152921504606846976 80 1); [vm_compute; reflexivity | unfold fr, ctol, A21_hi, A21_c, A21_e; interval with (i_prec 80)]]. Qed.
Lemma r_A21_469 : rio_reads A21_c A21_e A21_lo A21_hi floor_volts ctol (Build_rio (Fin (3655539438917215 / 9007199254740992)) (Fin (5 / 1)) (Fin (3715469692580659 / 1125899906842624)) (Fin (6 / 1)) (Fin (12 / 1)) false true true ((Fin (0 / 1)) :: (Fin (0 / 1)) :: (Fin (0 / 1)) :: (Fin (0 / 1)) :: (Fin (27 / 4)) :: (Fin (45 / 1)) :: nil)) (2811302720599289 / 35184372088832).
Proof. apply (A21_rio_fin _ (3655539438917215 / 9007199254740992)); [reflexivity | apply (A21_q_mid 3655539438917215 9007199254740992 2811302720599289 35184372088832); [vm_compute; reflexivity | unfold fr, close, ctol, A21_c, A21_e; interval with (i_prec 80)]]. Qed.
Lemma r_A21_485 : rio_reads A21_c A21_e A21_lo A21_hi floor_volts ctol (Build_rio (Fin (9055 / 4096)) (Fin (0 / 1)) (Fin (3715469692580659 / 1125899906842624)) (Fin (6 / 1)) (Fin (12 / 1)) false true true ((Fin (0 / 1)) :: (Fin (0 / 1)) :: (Fin (0 / 1)) :: (Fin (0 / 1)) :: (Fin (27 / 4)) :: (Fin (45 / 1)) :: nil)) (2814861942188845 / 281474976710656).
Proof. apply (A21_rio_fin _ (9055 / 4096)); [reflexivity | apply (A21_q_mid 9055 4096 2814861942188845 281474976710656); [vm_compute; reflexivity | unfold fr, close, ctol, A21_c, A21_e; interval with (i_prec 80)]]. Qed.
Lemma r_A21_501 : rio_reads A21_c A21_e A21_lo A21_hi floor_volts ctol (Build_rio (Fin (55 / 256)) (Fin (5 / 1)) (Fin (3715469692580659 / 1125899906842624)) (Fin (6 / 1)) (Fin (12 / 1)) true true true ((Fin (0 / 1)) :: (Fin (0 / 1)) :: (Fin (0 / 1)) :: (Fin (0 / 1)) :: (Fin (27 / 4)) :: (Fin (45 / 1)) :: nil)) (80 / 1).
Proof. apply (A21_rio_fin _ (55 / 256)); [reflexivity | apply (A21_q_hi 55 256 80 1); [vm_compute; reflexivity | unfold fr, ctol, A21_hi, A21_c, A21_e; interval with (i_prec 80)]]. Qed.
Lemma r_A21_517 : rio_reads A21_c A21_e A21_lo A21_hi floor_volts ctol (Build_rio (Fin (135 / 256)) (Fin (1029 / 128)) NInf (Fin (401 / 32)) (Fin (3123 / 256)) false false false ((Fin (679 / 256)) :: (Fin (179 / 512)) :: (Fin (377 / 128)) :: (Fin (68725 / 1024)) :: (Fin (8039 / 1024)) :: (Fin (1365 / 32)) :: nil)) (1019628727817975 / 17592186044416).
Proof. apply (A21_rio_fin _ (135 / 256)); [reflexivity | apply (A21_q_mid 135 256 1019628727817975 17592186044416); [vm_compute; reflexivity | unfold fr, close, ctol, A21_c, A21_e; interval with (i_prec 80)]]. Qed.
Lemma r_A21_533 : rio_reads A21_c A21_e A21_lo A21_hi floor_volts ctol (Build_rio (Fin (215 / 256)) (Fin (5 / 1)) (Fin (3157 / 1024)) (Fin (5921 / 1024)) (Fin ((-12) / 1)) false true true ((Fin (1467 / 512)) :: (Fin (241 / 1024)) :: (Fin (1199 / 512)) :: (Fin (129515 / 1024)) :: (Fin (6881 / 1024)) :: (Fin (90013 / 1024)) :: nil)) (2305269491578237 / 70368744177664).
Proof. apply (A21_rio_fin _ (215 / 256)); [reflexivity | apply (A21_q_mid 215 256 2305269491578237 70368744177664); [vm_compute; reflexivity | unfold fr, close, ctol, A21_c, A21_e; interval with (i_prec 80)]]. Qed.
Lemma r_A21_549 : rio_reads A21_c A21_e A21_lo A21_hi floor_volts ctol (Build_rio (Fin (295 / 256)) (Fin (5 / 1)) (Fin (3715469692580659 / 1125899906842624)) (Fin (6 / 1)) (Fin (12 / 1)) true true true ((Fin (0 / 1)) :: (Fin (0 / 1)) :: (Fin (0 / 1)) :: (Fin (0 / 1)) :: (Fin (27 / 4)) :: (Fin (45 / 1)) :: nil)) (6256759394294273 / 281474976710656).
Proof. apply (A21_rio_fin _ (295 / 256)); [reflexivity | apply (A21_q_mid 295 256 6256759394294273 281474976710656); [vm_compute; reflexivity | unfold fr, close, ctol, A21_c, A21_e; interval with (i_prec 80)]]. Qed.
Lemma r_A21_565 : rio_reads A21_c A21_e A21_lo A21_hi floor_volts ctol (Build_rio (Fin (375 / 256)) (Fin (5393 / 1024)) (Fin (3715469692580659 / 1125899906842624)) (Fin (2785 / 512)) (Fin (2787 / 256)) false false true ((Fin (127 / 1024)) :: (Fin (95 / 1024)) :: (Fin (1155 / 1024)) :: (Fin (1807 / 1024)) :: (Fin (211 / 64)) :: (Fin ((-2475) / 512)) :: nil)) (2331089327616573 / 140737488355328).
Proof. apply (A21_rio_fin _ (375 / 256)); [reflexivity | apply (A21_q_mid 375 256 2331089327616573 140737488355328); [vm_compute; reflexivity | unfold fr, close, ctol, A21_c, A21_e; interval with (i_prec 80)]]. Qed.
Lemma r_A21_581 : rio_reads A21_c A21_e A21_lo A21_hi floor_volts ctol (Build_rio (Fin (455 / 256)) (Fin (2807 / 512)) (Fin (1 / 202402253307310618352495346718917307049556649764142118356901358027430339567995346891960383701437124495187077864316811911389808737385793476867013399940738509921517424276566361364466907742093216341239767678472745068562007483424692698618103355649159556340810056512358769552333414615230502532186327508646006263307707741093494784)) (Fin (4751 / 1024)) (Fin (12337 / 1024)) false true true ((Fin (1363 / 1024)) :: (Fin (653 / 512)) :: (Fin (543 / 512)) :: (Fin (8561 / 512)) :: (Fin (4671 / 1024)) :: (Fin (90019 / 1024)) :: nil)) (7356297243493539 / 562949953421312).
Proof. apply (A21_rio_fin _ (455 / 256)); [reflexivity | apply (A21_q_mid 455 256 7356297243493539 562949953421312); [vm_compute; reflexivity | unfold fr, close, ctol, A21_c, A21_e; interval with (i_prec 80)]]. Qed.
Lemma r_A21_597 : rio_reads A21_c A21_e A21_lo A21_hi floor_volts ctol (Build_rio (Fin (535 / 256)) (Fin (5 / 1)) (Fin (3715469692580659 / 1125899906842624)) (Fin (6 / 1)) (Fin (12 / 1)) true true true ((Fin (0 / 1)) :: (Fin (0 / 1)) :: (Fin (0 / 1)) :: (Fin (0 / 1)) :: (Fin (27 / 4)) :: (Fin (45 / 1)) :: nil)) (47120461490333 / 4398046511104).
Proof. apply (A21_rio_fin _ (535 / 256)); [reflexivity | apply (A21_q_mid 535 256 47120461490333 4398046511104); [vm_compute; reflexivity | unfold fr, close, ctol, A21_c, A21_e; interval with (i_prec 80)]]. Qed.
Lemma r_A21_613 : rio_reads A21_c A21_e A21_lo A21_hi floor_volts ctol (Build_rio (Fin (615 / 256)) (Fin (5 / 1)) (Fin (3715469692580659 / 1125899906842624)) (Fin (2891 / 512)) (Fin (5511 / 512)) true true true ((Fin (1 / 64)) :: (Fin (13 / 32)) :: (Fin (151 / 128)) :: (Fin (38399 / 256)) :: (Fin (5133 / 1024)) :: (Fin (70547 / 1024)) :: nil)) (10 / 1).
Proof. apply (A21_rio_fin _ (615 / 256)); [reflexivity | apply (A21_q_lo 615 256 10 1); [vm_compute; reflexivity | unfold fr, ctol, A21_lo, A21_c, A21_e; interval with (i_prec 80)]]. Qed.
Lemma r_A21_629 : rio_reads A21_c A21_e A21_lo A21_hi floor_volts ctol (Build_rio (Fin (695 / 256)) (Fin (1047 / 256)) (Fin (4831 / 1024)) (Fin (7217 / 512)) (Fin (0 / 1)) false false true ((Fin (181 / 64)) :: (Fin (1481 / 1024)) :: (Fin (2153 / 1024)) :: (Fin (20001 / 256)) :: (Fin (1779 / 256)) :: (Fin (89447 / 1024)) :: nil)) (10 / 1).
Proof. apply (A21_rio_fin _ (695 / 256)); [reflexivity | apply (A21_q_lo 695 256 10 1); [vm_compute; reflexivity | unfold fr, ctol, A21_lo, A21_c, A21_e; interval with (i_prec 80)]]. Qed.
Lemma r_A21_645 : rio_reads A21_c A21_e A21_lo A21_hi floor_volts ctol (Build_rio (Fin (775 / 256)) (Fin (5 / 1)) (Fin (3715469692580659 / 1125899906842624)) (Fin (6 / 1)) (Fin (12 / 1)) true true true ((Fin (0 / 1)) :: (Fin (0 / 1)) :: (Fin (0 / 1)) :: (Fin (0 / 1)) :: (Fin (27 / 4)) :: (Fin (45 / 1)) :: nil)) (10 / 1).
Proof. apply (A21_rio_fin _ (775 / 256)); [reflexivity | apply (A21_q_lo 775 256 10 1); [vm_compute; reflexivity | unfold fr, ctol, A21_lo, A21_c, A21_e; interval with (i_prec 80)]]. Qed.
Lemma r_A21_661 : rio_reads A21_c A21_e A21_lo A21_hi floor_volts ctol (Build_rio (Fin (855 / 256)) (Fin (2493 / 1024)) (Fin (3239 / 1024)) (Fin (13785 / 1024)) (Fin (12 / 1)) true true true ((Fin (2057 / 1024)) :: (Fin (283 / 1024)) :: (Fin (19 / 8)) :: (Fin (109889 / 1024)) :: (Fin (7477 / 1024)) :: (Fin (6897 / 128)) :: nil)) (10 / 1).
Proof. apply (A21_rio_fin _ (855 / 256)); [reflexivity | apply (A21_q_lo 855 256 10 1); [vm_compute; reflexivity | unfold fr, ctol, A21_lo, A21_c, A21_e; interval with (i_prec 80)]]. Qed.
Lemma r_A21_677 : rio_reads A21_c A21_e A21_lo A21_hi floor_volts ctol (Build_rio (Fin (935 / 256)) (Fin (5 / 1)) (Fin (3463 / 1024)) (Fin (2665 / 256)) (Fin (13485 / 1024)) true false true ((Fin (2433 / 1024)) :: (Fin (1533 / 1024)) :: (Fin (2613 / 1024)) :: (Fin (125543 / 1024)) :: (Fin (865 / 256)) :: (Fin ((-9977) / 1024)) :: nil)) (10 / 1).
Proof. apply (A21_rio_fin _ (935 / 256)); [reflexivity | apply (A21_q_lo 935 256 10 1); [vm_compute; reflexivity | unfold fr, ctol, A21_lo, A21_c, A21_e; interval with (i_prec 80)]]. Qed.
Lemma r_A21_693 : rio_reads A21_c A21_e A21_lo A21_hi floor_volts ctol (Build_rio (Fin (1015 / 256)) (Fin (5 / 1)) (Fin (3715469692580659 / 1125899906842624)) (Fin (6 / 1)) (Fin (12 / 1)) true true true ((Fin (0 / 1)) :: (Fin (0 / 1)) :: (Fin (0 / 1)) :: (Fin (0 / 1)) :: (Fin (27 / 4)) :: (Fin (45 / 1)) :: nil)) (10 / 1).
Proof. apply (A21_rio_fin _ (1015 / 256)); [reflexivity | apply (A21_q_lo 1015 256 10 1); [vm_compute; reflexivity | unfold fr, ctol, A21_lo, A21_c, A21_e; interval with (i_prec 80)]]. Qed.
Lemma r_A21_709 : rio_reads A21_c A21_e A21_lo A21_hi floor_volts ctol (Build_rio (Fin (1095 / 256)) (Fin (2629 / 512)) (Fin (225 / 64)) (Fin (6557 / 1024)) PInf true true false ((Fin (1247 / 1024)) :: (Fin (159 / 128)) :: (Fin (15 / 256)) :: (Fin (94877 / 1024)) :: (Fin (479 / 64)) :: (Fin (63227 / 1024)) :: nil)) (10 / 1).
Proof. apply (A21_rio_fin _ (1095 / 256)); [reflexivity | apply (A21_q_lo 1095 256 10 1); [vm_compute; reflexivity | unfold fr, ctol, A21_lo, A21_c, A21_e; interval with (i_prec 80)]]. Qed.
Lemma r_A21_725 : rio_reads A21_c A21_e A21_lo A21_hi floor_volts ctol (Build_rio (Fin (1175 / 256)) (Fin (531 / 128)) (Fin (2979 / 1024)) (Fin (1 / 1)) (Fin (0 / 1)) false true false ((Fin (483 / 512)) :: (Fin (573 / 1024)) :: (Fin (2167 / 1024)) :: (Fin (35043 / 256)) :: (Fin (2029 / 256)) :: (Fin (5943 / 256)) :: nil)) (10 / 1).
Proof. apply (A21_rio_fin _ (1175 / 256)); [reflexivity | apply (A21_q_lo 1175 256 10 1); [vm_compute; reflexivity | unfold fr, ctol, A21_lo, A21_c, A21_e; interval with (i_prec 80)]]. Qed.
Lemma r_A21_741 : rio_reads A21_c A21_e A21_lo A21_hi floor_volts ctol (Build_rio (Fin (1255 / 256)) (Fin (5 / 1)) (Fin (3715469692580659 / 1125899906842624)) (Fin (6 / 1)) (Fin (12 / 1)) true true true ((Fin (0 / 1)) :: (Fin (0 / 1)) :: (Fin (0 / 1)) :: (Fin (0 / 1)) :: (Fin (27 / 4)) :: (Fin (45 / 1)) :: nil)) (10 / 1).
Proof. apply (A21_rio_fin _ (1255 / 256)); [reflexivity | apply (A21_q_lo 1255 256 10 1); [vm_compute; reflexivity | unfold fr, ctol, A21_lo, A21_c, A21_e; interval with (i_prec 80)]]. Qed.
Lemma r_A21_757 : rio_reads A21_c A21_e A21_lo A21_hi floor_volts ctol (Build_rio (Fin (1841094007882335 / 9007199254740992)) (Fin (5463 / 1024)) (Fin (355 / 128)) (Fin (6663 / 1024)) (Fin (10015 / 1024)) true true true ((Fin (71 / 256)) :: (Fin (663 / 512)) :: (Fin (1385 / 512)) :: (Fin (32487 / 1024)) :: (Fin (283 / 64)) :: (Fin (53287 / 1024)) :: nil)) (80 / 1).
Proof. apply (A21_rio_fin _ (1841094007882335 / 9007199254740992)); [reflexivity | apply (A21_q_hi 1841094007882335 9007199254740992 80 1); [vm_compute; reflexivity | unfold fr, ctol, A21_hi, A21_c, A21_e; interval with (i_prec 80)]]. Qed.
Lemma r_A21_773 : rio_reads A21_c A21_e A21_lo A21_hi floor_volts ctol (Build_rio (Fin (1664626788706743 / 562949953421312)) (Fin (2447 / 512)) PInf (Fin (3009 / 512)) (Fin (1 / 202402253307310618352495346718917307049556649764142118356901358027430339567995346891960383701437124495187077864316811911389808737385793476867013399940738509921517424276566361364466907742093216341239767678472745068562007483424692698618103355649159556340810056512358769552333414615230502532186327508646006263307707741093494784)) true true false ((Fin (603 / 1024)) :: (Fin (687 / 512)) :: (Fin (2907 / 1024)) :: (Fin (95263 / 512)) :: (Fin (855 / 256)) :: (Fin (4353 / 256)) :: nil)) (10 / 1).
Proof. apply (A21_rio_fin _ (1664626788706743 / 562949953421312)); [reflexivity | apply (A21_q_lo 1664626788706743 562949953421312 10 1); [vm_compute; reflexivity | unfold fr, ctol, A21_lo, A21_c, A21_e; interval with (i_prec 80)]]. Qed.
Lemma r_A21_789 : rio_reads A21_c A21_e A21_lo A21_hi floor_volts ctol (Build_rio (Fin (1359182190202685 / 281474976710656)) (Fin (5 / 1)) (Fin (3715469692580659 / 1125899906842624)) (Fin (6 / 1)) (Fin (12 / 1)) true true true ((Fin (0 / 1)) :: (Fin (0 / 1)) :: (Fin (0 / 1)) :: (Fin (0 / 1)) :: (Fin (27 / 4)) :: (Fin (45 / 1)) :: nil)) (10 / 1).
Proof. apply (A21_rio_fin _ (1359182190202685 / 281474976710656)); [reflexivity | apply (A21_q_lo 1359182190202685 281474976710656 10 1); [vm_compute; reflexivity | unfold fr, ctol, A21_lo, A21_c, A21_e; interval with (i_prec 80)]]. Qed.
Lemma r_A21_805 : rio_reads A21_c A21_e A21_lo A21_hi floor_volts ctol (Build_rio (Fin (1338120447305093 / 562949953421312)) (Fin (2325 / 512)) (Fin (3497 / 1024)) (Fin (10727 / 1024)) NInf true true true ((Fin (529 / 512)) :: (Fin (427 / 512)) :: (Fin (1615 / 1024)) :: (Fin (71807 / 1024)) :: (Fin (1535 / 256)) :: (Fin (23089 / 512)) :: nil)) (10 / 1).
Proof. apply (A21_rio_fin _ (1338120447305093 / 562949953421312)); [reflexivity | apply (A21_q_lo 1338120447305093 562949953421312 10 1); [vm_compute; reflexivity | unfold fr, ctol, A21_lo, A21_c, A21_e; interval with (i_prec 80)]]. Qed.
Lemma r_A21_826 : rio_reads A21_c A21_e A21_lo A21_hi floor_volts ctol (Build_rio (Fin (2882265051174553 / 1152921504606846976)) (Fin (2101 / 512)) (Fin (2987 / 1024)) (Fin (5433 / 1024)) (Fin (12131 / 1024)) false false false ((Fin (531 / 256)) :: (Fin (81 / 128)) :: (Fin (531 / 512)) :: (Fin (104535 / 1024)) :: (Fin (893 / 256)) :: (Fin ((-1667) / 1024)) :: nil)) (80 / 1).
Proof. apply (A21_rio_fin _ (2882265051174553 / 1152921504606846976)); [reflexivity | apply (A21_q_hi 2882265051174553 1152921504606846976 80 1); [vm_compute; reflexivity | unfold fr, ctol, A21_hi, A21_c, A21_e; interval with (i_prec 80)]]. Qed.
Lemma d_A21_667u : close ctol (2489100355631953 / 1125899906842624) (volts_A21 (0 / 1)).
Proof. apply (A21_q_volts_lo 0 1 2489100355631953 1125899906842624); [vm_compute; reflexivity | unfold fr, close, ctol, A21_lo, A21_hi, A21_c, A21_e; interval with (i_prec 80)]. Qed.
Lemma d_A21_675u : close ctol (4617692528446043 / 9007199254740992) (volts_A21 (60 / 1)).
Proof. apply (A21_q_volts_mid 60 1 4617692528446043 9007199254740992); [vm_compute; reflexivity | unfold fr, close, ctol, A21_lo, A21_hi, A21_c, A21_e; interval with (i_prec 80)]. Qed.
Lemma d_A21_683u : close ctol (2489100355631953 / 1125899906842624) (volts_A21 (9 / 2)).
Proof. apply (A21_q_volts_lo 9 2 2489100355631953 1125899906842624); [vm_compute; reflexivity | unfold fr, close, ctol, A21_lo, A21_hi, A21_c, A21_e; interval with (i_prec 80)]. Qed.
Lemma d_A21_691u : close ctol (2489100355631953 / 1125899906842624) (volts_A21 (1 / 202402253307310618352495346718917307049556649764142118356901358027430339567995346891960383701437124495187077864316811911389808737385793476867013399940738509921517424276566361364466907742093216341239767678472745068562007483424692698618103355649159556340810056512358769552333414615230502532186327508646006263307707741093494784)).
Proof. apply (A21_q_volts_lo 1 202402253307310618352495346718917307049556649764142118356901358027430339567995346891960383701437124495187077864316811911389808737385793476867013399940738509921517424276566361364466907742093216341239767678472745068562007483424692698618103355649159556340810056512358769552333414615230502532186327508646006263307707741093494784 2489100355631953 1125899906842624); [vm_compute; reflexivity | unfold fr, close, ctol, A21_lo, A21_hi, A21_c, A21_e; interval with (i_prec 80)]. Qed.
Lemma d_A21_699u : close ctol (5358090456764289 / 9007199254740992) (volts_A21 (50 / 1)).
Proof. apply (A21_q_volts_mid 50 1 5358090456764289 9007199254740992); [vm_compute; reflexivity | unfold fr, close, ctol, A21_lo, A21_hi, A21_c, A21_e; interval with (i_prec 80)]. Qed.
Lemma d_A21_707u : close ctol (7303775102731699 / 18014398509481984) (volts_x A21_c A21_e A21_lo A21_hi PInf).
Proof. apply (corr_volts_pinf _ _ _ _ _ A21_admissible _ ctol_ok); unfold fr, close, ctol, A21_lo, A21_hi, A21_c, A21_e; interval with (i_prec 80). Qed.
Lemma d_A21_715u : close ctol (2489100355631953 / 1125899906842624) (volts_A21 (5629499528583621 / 562949953421312)).
Proof. apply (A21_q_volts_lo 5629499528583621 562949953421312 2489100355631953 1125899906842624); [vm_compute; reflexivity | unfold fr, close, ctol, A21_lo, A21_hi, A21_c, A21_e; interval with (i_prec 80)]. Qed.
Lemma d_A21_723u : close ctol (2919460688116111 / 4503599627370496) (volts_A21 (45 / 1)).
Proof. apply (A21_q_volts_mid 45 1 2919460688116111 4503599627370496); [vm_compute; reflexivity | unfold fr, close, ctol, A21_lo, A21_hi, A21_c, A21_e; interval with (i_prec 80)]. Qed.
Lemma d_A21_735u : close ctol (6172135467584967 / 4503599627370496) (volts_A21 (2529353180470205 / 140737488355328)).
Proof. apply (A21_q_volts_mid 2529353180470205 140737488355328 6172135467584967 4503599627370496); [vm_compute; reflexivity | unfold fr, close, ctol, A21_lo, A21_hi, A21_c, A21_e; interval with (i_prec 80)]. Qed.
Lemma d_A21_748u : close ctol (1171377827656713 / 1125899906842624) (volts_A21 (3545971705766755 / 140737488355328)).
Proof. apply (A21_q_volts_mid 3545971705766755 140737488355328 1171377827656713 1125899906842624); [vm_compute; reflexivity | unfold fr, close, ctol, A21_lo, A21_hi, A21_c, A21_e; interval with (i_prec 80)]. Qed.
Lemma d_A21_760r : rio_reads A21_c A21_e A21_lo A21_hi floor_volts ctol (Build_rio (Fin (7978849966501599 / 18014398509481984)) (Fin (5 / 1)) (Fin (3509 / 1024)) (Fin (1663 / 256)) (Fin (11205 / 1024)) true true true ((Fin (2631 / 1024)) :: (Fin (1015 / 1024)) :: (Fin (145 / 64)) :: (Fin (571 / 4)) :: (Fin (1997 / 256)) :: (Fin ((-16109) / 1024)) :: nil)) (2525632097262825 / 35184372088832).
Proof. apply (A21_rio_fin _ (7978849966501599 / 18014398509481984)); [reflexivity | apply (A21_q_mid 7978849966501599 18014398509481984 2525632097262825 35184372088832); [vm_compute; reflexivity | unfold fr, close, ctol, A21_c, A21_e; interval with (i_prec 80)]]. Qed.
Lemma d_A21_773u : close ctol (7874961627999681 / 9007199254740992) (volts_A21 (8777594455050329 / 281474976710656)).
Proof. apply (A21_q_volts_mid 8777594455050329 281474976710656 7874961627999681 9007199254740992); [vm_compute; reflexivity | unfold fr, close, ctol, A21_lo, A21_hi, A21_c, A21_e; interval with (i_prec 80)]. Qed.
Lemma d_A21_786u : close ctol (2975915681755975 / 2251799813685248) (volts_A21 (2644610264326435 / 140737488355328)).
Proof. apply (A21_q_volts_mid 2644610264326435 140737488355328 2975915681755975 2251799813685248); [vm_compute; reflexivity | unfold fr, close, ctol, A21_lo, A21_hi, A21_c, A21_e; interval with (i_prec 80)]. Qed.
Lemma d_A21_799u : close ctol (3962995617556109 / 2251799813685248) (volts_A21 (3722833673307725 / 281474976710656)).
Proof. apply (A21_q_volts_mid 3722833673307725 281474976710656 3962995617556109 2251799813685248); [vm_compute; reflexivity | unfold fr, close, ctol, A21_lo, A21_hi, A21_c, A21_e; interval with (i_prec 80)]. Qed.
Lemma d_A21_812u : close ctol (7303775102731699 / 18014398509481984) (volts_A21 (6348856923877867 / 35184372088832)).
Proof. apply (A21_q_volts_hi 6348856923877867 35184372088832 7303775102731699 18014398509481984); [vm_compute; reflexivity | unfold fr, close, ctol, A21_lo, A21_hi, A21_c, A21_e; interval with (i_prec 80)]. Qed.
Lemma d_A21_824r : rio_reads A21_c A21_e A21_lo A21_hi floor_volts ctol (Build_rio (Fin (8466480930385959 / 18014398509481984)) (Fin (5 / 1)) (Fin (14253 / 1024)) (Fin (3005 / 512)) (Fin (11975 / 1024)) false true true ((Fin (487 / 512)) :: (Fin (429 / 1024)) :: (Fin (673 / 256)) :: (Fin (34293 / 512)) :: (Fin (8241 / 1024)) :: (Fin (94775 / 1024)) :: nil)) (4696940864601273 / 70368744177664).
Proof. apply (A21_rio_fin _ (8466480930385959 / 18014398509481984)); [reflexivity | apply (A21_q_mid 8466480930385959 18014398509481984 4696940864601273 70368744177664); [vm_compute; reflexivity | unfold fr, close, ctol, A21_c, A21_e; interval with (i_prec 80)]]. Qed.
Lemma d_A21_837u : close ctol (7303775102731699 / 18014398509481984) (volts_A21 (1317939952738427 / 8796093022208)).
Proof. apply (A21_q_volts_hi 1317939952738427 8796093022208 7303775102731699 18014398509481984); [vm_compute; reflexivity | unfold fr, close, ctol, A21_lo, A21_hi, A21_c, A21_e; interval with (i_prec 80)]. Qed.
Lemma d_A21_850u : close ctol (7867376510294945 / 18014398509481984) (volts_A21 (2569575568810099 / 35184372088832)).
Proof. apply (A21_q_volts_mid 2569575568810099 35184372088832 7867376510294945 18014398509481984); [vm_compute; reflexivity | unfold fr, close, ctol, A21_lo, A21_hi, A21_c, A21_e; interval with (i_prec 80)]. Qed.
Lemma d_A21_863u : close ctol (7303775102731699 / 18014398509481984) (volts_A21 (7735645931089769 / 35184372088832)).
Proof. apply (A21_q_volts_hi 7735645931089769 35184372088832 7303775102731699 18014398509481984); [vm_compute; reflexivity | unfold fr, close, ctol, A21_lo, A21_hi, A21_c, A21_e; interval with (i_prec 80)]. Qed.
Lemma d_A21_876u : close ctol (3727343376038719 / 9007199254740992) (volts_A21 (5490102425756347 / 70368744177664)).
Proof. apply (A21_q_volts_mid 5490102425756347 70368744177664 3727343376038719 9007199254740992); [vm_compute; reflexivity | unfold fr, close, ctol, A21_lo, A21_hi, A21_c, A21_e; interval with (i_prec 80)]. Qed.
Lemma d_A21_888r : rio_reads A21_c A21_e A21_lo A21_hi floor_volts ctol (Build_rio (Fin (2547324602042423 / 2251799813685248)) (Fin (2675 / 512)) (Fin (3003 / 512)) (Fin (5203 / 1024)) (Fin (1383 / 128)) false true false ((Fin (1077 / 512)) :: (Fin (855 / 1024)) :: (Fin (333 / 1024)) :: (Fin (142687 / 1024)) :: (Fin (8175 / 1024)) :: (Fin (99951 / 1024)) :: nil)) (6400165696930079 / 281474976710656).
Proof. apply (A21_rio_fin _ (2547324602042423 / 2251799813685248)); [reflexivity | apply (A21_q_mid 2547324602042423 2251799813685248 6400165696930079 281474976710656); [vm_compute; reflexivity | unfold fr, close, ctol, A21_c, A21_e; interval with (i_prec 80)]]. Qed.
Lemma d_A21_901u : close ctol (7593748884230401 / 4503599627370496) (volts_A21 (7847006058836033 / 562949953421312)).
Proof. apply (A21_q_volts_mid 7847006058836033 562949953421312 7593748884230401 4503599627370496); [vm_compute; reflexivity | unfold fr, close, ctol, A21_lo, A21_hi, A21_c, A21_e; interval with (i_prec 80)]. Qed.
Lemma d_A21_914u : close ctol (886993977195577 / 1125899906842624) (volts_A21 (2493314420201601 / 70368744177664)).
Proof. apply (A21_q_volts_mid 2493314420201601 70368744177664 886993977195577 1125899906842624); [vm_compute; reflexivity | unfold fr, close, ctol, A21_lo, A21_hi, A21_c, A21_e; interval with (i_prec 80)]. Qed.
Lemma d_A21_927u : close ctol (6491191742220027 / 9007199254740992) (volts_A21 (5562068718975821 / 140737488355328)).
Proof. apply (A21_q_volts_mid 5562068718975821 140737488355328 6491191742220027 9007199254740992); [vm_compute; reflexivity | unfold fr, close, ctol, A21_lo, A21_hi, A21_c, A21_e; interval with (i_prec 80)]. Qed.
Lemma d_A21_940u : close ctol (2489100355631953 / 1125899906842624) (volts_A21 (4422991442567381 / 288230376151711744)).
Proof. apply (A21_q_volts_lo 4422991442567381 288230376151711744 2489100355631953 1125899906842624); [vm_compute; reflexivity | unfold fr, close, ctol, A21_lo, A21_hi, A21_c, A21_e; interval with (i_prec 80)]. Qed.
Lemma d_A21_952r : rio_reads A21_c A21_e A21_lo A21_hi floor_volts ctol (Build_rio (Fin (6237432911300137 / 9007199254740992)) (Fin (1517 / 256)) (Fin (203 / 64)) (Fin (5257 / 1024)) (Fin (12 / 1)) false true true ((Fin (2453 / 1024)) :: (Fin (1077 / 1024)) :: (Fin (765 / 512)) :: (Fin (113569 / 1024)) :: (Fin (4591 / 512)) :: (Fin (21467 / 512)) :: nil)) (5840753703660217 / 140737488355328).
Proof. apply (A21_rio_fin _ (6237432911300137 / 9007199254740992)); [reflexivity | apply (A21_q_mid 6237432911300137 9007199254740992 5840753703660217 140737488355328); [vm_compute; reflexivity | unfold fr, close, ctol, A21_c, A21_e; interval with (i_prec 80)]]. Qed.
Lemma d_A21_965u : close ctol (3172238025331133 / 4503599627370496) (volts_A21 (357510600712641 / 8796093022208)).
Proof. apply (A21_q_volts_mid 357510600712641 8796093022208 3172238025331133 4503599627370496); [vm_compute; reflexivity | unfold fr, close, ctol, A21_lo, A21_hi, A21_c, A21_e; interval with (i_prec 80)]. Qed.
Lemma d_A21_978u : close ctol (3645338253553003 / 4503599627370496) (volts_A21 (4823838430217165 / 140737488355328)).
Proof. apply (A21_q_volts_mid 4823838430217165 140737488355328 3645338253553003 4503599627370496); [vm_compute; reflexivity | unfold fr, close, ctol, A21_lo, A21_hi, A21_c, A21_e; interval with (i_prec 80)]. Qed.
Lemma d_A21_991u : close ctol (178284159075423 / 140737488355328) (volts_A21 (5571026427745401 / 281474976710656)).
Proof. apply (A21_q_volts_mid 5571026427745401 281474976710656 178284159075423 140737488355328); [vm_compute; reflexivity | unfold fr, close, ctol, A21_lo, A21_hi, A21_c, A21_e; interval with (i_prec 80)]. Qed.
Lemma d_A21_1004u : close ctol (2489100355631953 / 1125899906842624) (volts_A21 (74714292113629 / 35184372088832)).
Proof. apply (A21_q_volts_lo 74714292113629 35184372088832 2489100355631953 1125899906842624); [vm_compute; reflexivity | unfold fr, close, ctol, A21_lo, A21_hi, A21_c, A21_e; interval with (i_prec 80)]. Qed.
Lemma d_A21_1016r : rio_reads A21_c A21_e A21_lo A21_hi floor_volts ctol (Build_rio (Fin (7413293585188633 / 18014398509481984)) (Fin (5 / 1)) (Fin (3543 / 1024)) (Fin (3343 / 512)) (Fin (2985 / 256)) true true true ((Fin (117 / 1024)) :: (Fin (299 / 512)) :: (Fin (53 / 128)) :: (Fin (153743 / 1024)) :: (Fin (8987 / 1024)) :: (Fin ((-10067) / 1024)) :: nil)) (5527708838711509 / 70368744177664).
Proof. apply (A21_rio_fin _ (7413293585188633 / 18014398509481984)); [reflexivity | apply (A21_q_mid 7413293585188633 18014398509481984 5527708838711509 70368744177664); [vm_compute; reflexivity | unfold fr, close, ctol, A21_c, A21_e; interval with (i_prec 80)]]. Qed.
Lemma d_A21_1029u : close ctol (7152557603713475 / 9007199254740992) (volts_A21 (2469144365901227 / 70368744177664)).
Proof. apply (A21_q_volts_mid 2469144365901227 70368744177664 7152557603713475 9007199254740992); [vm_compute; reflexivity | unfold fr, close, ctol, A21_lo, A21_hi, A21_c, A21_e; interval with (i_prec 80)]. Qed.
Lemma d_A21_1042u : close ctol (1447130404383687 / 1125899906842624) (volts_A21 (2736373562351293 / 140737488355328)).
Proof. apply (A21_q_volts_mid 2736373562351293 140737488355328 1447130404383687 1125899906842624); [vm_compute; reflexivity | unfold fr, close, ctol, A21_lo, A21_hi, A21_c, A21_e; interval with (i_prec 80)]. Qed.
Lemma d_A21_1055u : close ctol (4539974792018795 / 4503599627370496) (volts_A21 (7371668768512625 / 281474976710656)).
Proof. apply (A21_q_volts_mid 7371668768512625 281474976710656 4539974792018795 4503599627370496); [vm_compute; reflexivity | unfold fr, close, ctol, A21_lo, A21_hi, A21_c, A21_e; interval with (i_prec 80)]. Qed.
Lemma d_A21_1068u : close ctol (2055004433440893 / 4503599627370496) (volts_A21 (2435089328423343 / 35184372088832)).
Proof. apply (A21_q_volts_mid 2435089328423343 35184372088832 2055004433440893 4503599627370496); [vm_compute; reflexivity | unfold fr, close, ctol, A21_lo, A21_hi, A21_c, A21_e; interval with (i_prec 80)]. Qed.
Lemma d_A21_1080r : rio_reads A21_c A21_e A21_lo A21_hi floor_volts ctol (Build_rio (Fin (2489100355631953 / 1125899906842624)) (Fin (5 / 1)) (Fin (3715469692580659 / 1125899906842624)) (Fin (2881 / 512)) (Fin (12 / 1)) true true true ((Fin (2771 / 1024)) :: (Fin (201 / 128)) :: (Fin (137 / 64)) :: (Fin (45679 / 512)) :: (Fin (6207 / 1024)) :: (Fin (57149 / 1024)) :: nil)) (10 / 1).
Proof. apply (A21_rio_fin _ (2489100355631953 / 1125899906842624)); [reflexivity | apply (A21_q_lo 2489100355631953 1125899906842624 10 1); [vm_compute; reflexivity | unfold fr, ctol, A21_lo, A21_c, A21_e; interval with (i_prec 80)]]. Qed.
Lemma d_A21_1093u : close ctol (574663045045249 / 1125899906842624) (volts_A21 (4245092154954019 / 70368744177664)).
Proof. apply (A21_q_volts_mid 4245092154954019 70368744177664 574663045045249 1125899906842624); [vm_compute; reflexivity | unfold fr, close, ctol, A21_lo, A21_hi, A21_c, A21_e; interval with (i_prec 80)]. Qed.
Lemma d_A21_1106u : close ctol (8158030880261291 / 18014398509481984) (volts_A21 (153612047854651 / 2199023255552)).
Proof. apply (A21_q_volts_mid 153612047854651 2199023255552 8158030880261291 18014398509481984); [vm_compute; reflexivity | unfold fr, close, ctol, A21_lo, A21_hi, A21_c, A21_e; interval with (i_prec 80)]. Qed.
Lemma d_A21_1119u : close ctol (2035811456312725 / 4503599627370496) (volts_A21 (76977025539227 / 1099511627776)).
Proof. apply (A21_q_volts_mid 76977025539227 1099511627776 2035811456312725 4503599627370496); [vm_compute; reflexivity | unfold fr, close, ctol, A21_lo, A21_hi, A21_c, A21_e; interval with (i_prec 80)]. Qed.
Lemma d_A21_1132u : close ctol (6333012556225455 / 9007199254740992) (volts_A21 (2866433213812957 / 70368744177664)).
Proof. apply (A21_q_volts_mid 2866433213812957 70368744177664 6333012556225455 9007199254740992); [vm_compute; reflexivity | unfold fr, close, ctol, A21_lo, A21_hi, A21_c, A21_e; interval with (i_prec 80)]. Qed.
Lemma d_A21_1144r : rio_reads A21_c A21_e A21_lo A21_hi floor_volts ctol (Build_rio (Fin (2489100355631953 / 1125899906842624)) (Fin (5 / 1)) (Fin (3555 / 1024)) (Fin (6587 / 1024)) (Fin (1939 / 512)) false true true ((Fin (1843 / 1024)) :: (Fin (105 / 128)) :: (Fin (1225 / 1024)) :: (Fin (90553 / 1024)) :: (Fin (3707 / 512)) :: (Fin (54265 / 1024)) :: nil)) (10 / 1).
Proof. apply (A21_rio_fin _ (2489100355631953 / 1125899906842624)); [reflexivity | apply (A21_q_lo 2489100355631953 1125899906842624 10 1); [vm_compute; reflexivity | unfold fr, ctol, A21_lo, A21_c, A21_e; interval with (i_prec 80)]]. Qed.
Lemma d_A21_1157u : close ctol (7335256879460789 / 18014398509481984) (volts_A21 (1399973153103221 / 17592186044416)).
Proof. apply (A21_q_volts_mid 1399973153103221 17592186044416 7335256879460789 18014398509481984); [vm_compute; reflexivity | unfold fr, close, ctol, A21_lo, A21_hi, A21_c, A21_e; interval with (i_prec 80)]. Qed.
Lemma d_A21_1170u : close ctol (1283212847165871 / 1125899906842624) (volts_A21 (6341815129113751 / 281474976710656)).
Proof. apply (A21_q_volts_mid 6341815129113751 281474976710656 1283212847165871 1125899906842624); [vm_compute; reflexivity | unfold fr, close, ctol, A21_lo, A21_hi, A21_c, A21_e; interval with (i_prec 80)]. Qed.
Lemma d_A21_1183u : close ctol (5224133334434855 / 9007199254740992) (volts_A21 (3629364955637919 / 70368744177664)).
Proof. apply (A21_q_volts_mid 3629364955637919 70368744177664 5224133334434855 9007199254740992); [vm_compute; reflexivity | unfold fr, close, ctol, A21_lo, A21_hi, A21_c, A21_e; interval with (i_prec 80)]. Qed.
Lemma d_A21_1196u : close ctol (6687983813866131 / 9007199254740992) (volts_A21 (2681045496131325 / 70368744177664)).
Proof. apply (A21_q_volts_mid 2681045496131325 70368744177664 6687983813866131 9007199254740992); [vm_compute; reflexivity | unfold fr, close, ctol, A21_lo, A21_hi, A21_c, A21_e; interval with (i_prec 80)]. Qed.
Lemma d_A21_1208r : rio_reads A21_c A21_e A21_lo A21_hi floor_volts ctol (Build_rio (Fin (15459539532499 / 35184372088832)) (Fin (385 / 512)) (Fin (2835 / 1024)) (Fin (6549 / 1024)) (Fin (25 / 2)) true true false ((Fin (343 / 1024)) :: (Fin (449 / 256)) :: (Fin (2355 / 1024)) :: (Fin (97617 / 1024)) :: (Fin (5795 / 1024)) :: (Fin (45587 / 512)) :: nil)) (2550521253493433 / 35184372088832).
Proof. apply (A21_rio_fin _ (15459539532499 / 35184372088832)); [reflexivity | apply (A21_q_mid 15459539532499 35184372088832 2550521253493433 35184372088832); [vm_compute; reflexivity | unfold fr, close, ctol, A21_c, A21_e; interval with (i_prec 80)]]. Qed.
Lemma d_A21_1221u : close ctol (4136649915297861 / 4503599627370496) (volts_A21 (4131159345003011 / 140737488355328)).
Proof. apply (A21_q_volts_mid 4131159345003011 140737488355328 4136649915297861 4503599627370496); [vm_compute; reflexivity | unfold fr, close, ctol, A21_lo, A21_hi, A21_c, A21_e; interval with (i_prec 80)]. Qed.
Lemma d_A21_1234u : close ctol (4615838085958213 / 9007199254740992) (volts_A21 (1056051091670545 / 17592186044416)).
Proof. apply (A21_q_volts_mid 1056051091670545 17592186044416 4615838085958213 9007199254740992); [vm_compute; reflexivity | unfold fr, close, ctol, A21_lo, A21_hi, A21_c, A21_e; interval with (i_prec 80)]. Qed.
Lemma d_A21_1247u : close ctol (8405147271510883 / 9007199254740992) (volts_A21 (1012962920691343 / 35184372088832)).
Proof. apply (A21_q_volts_mid 1012962920691343 35184372088832 8405147271510883 9007199254740992); [vm_compute; reflexivity | unfold fr, close, ctol, A21_lo, A21_hi, A21_c, A21_e; interval with (i_prec 80)]. Qed.
Lemma d_A21_1260u : close ctol (3462895368268375 / 4503599627370496) (volts_A21 (2568624814084477 / 70368744177664)).
Proof. apply (A21_q_volts_mid 2568624814084477 70368744177664 3462895368268375 4503599627370496); [vm_compute; reflexivity | unfold fr, close, ctol, A21_lo, A21_hi, A21_c, A21_e; interval with (i_prec 80)]. Qed.
Lemma d_A21_1272r : rio_reads A21_c A21_e A21_lo A21_hi floor_volts ctol (Build_rio (Fin (7303775102731699 / 18014398509481984)) (Fin (5 / 1)) (Fin ((-12) / 1)) (Fin (3367 / 512)) (Fin (12 / 1)) true true true ((Fin (13 / 64)) :: (Fin (457 / 256)) :: (Fin (349 / 1024)) :: (Fin (601 / 512)) :: (Fin (6967 / 1024)) :: (Fin (13597 / 256)) :: nil)) (80 / 1).
Proof. apply (A21_rio_fin _ (7303775102731699 / 18014398509481984)); [reflexivity | apply (A21_q_hi 7303775102731699 18014398509481984 80 1); [vm_compute; reflexivity | unfold fr, ctol, A21_hi, A21_c, A21_e; interval with (i_prec 80)]]. Qed.
Lemma d_A21_1285u : close ctol (6795863896900557 / 4503599627370496) (volts_A21 (8991069592710877 / 562949953421312)).
Proof. apply (A21_q_volts_mid 8991069592710877 562949953421312 6795863896900557 4503599627370496); [vm_compute; reflexivity | unfold fr, close, ctol, A21_lo, A21_hi, A21_c, A21_e; interval with (i_prec 80)]. Qed.
Lemma d_A21_1298u : close ctol (8968418223601207 / 18014398509481984) (volts_A21 (8753449903824291 / 140737488355328)).
Proof. apply (A21_q_volts_mid 8753449903824291 140737488355328 8968418223601207 18014398509481984); [vm_compute; reflexivity | unfold fr, close, ctol, A21_lo, A21_hi, A21_c, A21_e; interval with (i_prec 80)]. Qed.
Lemma d_A21_1311u : close ctol (4707795890719993 / 2251799813685248) (volts_A21 (376778542267667 / 35184372088832)).
Proof. apply (A21_q_volts_mid 376778542267667 35184372088832 4707795890719993 2251799813685248); [vm_compute; reflexivity | unfold fr, close, ctol, A21_lo, A21_hi, A21_c, A21_e; interval with (i_prec 80)]. Qed.
Lemma d_A21_1324u : close ctol (5355577406161715 / 9007199254740992) (volts_A21 (7040922862624055 / 140737488355328)).
Proof. apply (A21_q_volts_mid 7040922862624055 140737488355328 5355577406161715 9007199254740992); [vm_compute; reflexivity | unfold fr, close, ctol, A21_lo, A21_hi, A21_c, A21_e; interval with (i_prec 80)]. Qed.
Lemma r_A41_852 : rio_reads A41_c A41_e A41_lo A41_hi floor_volts ctol (Build_rio (Fin (1 / 1)) (Fin (2589569785738035 / 562949953421312)) (Fin (3602879701896397 / 1125899906842624)) (Fin (0 / 1)) (Fin (7093169413108531 / 1125899906842624)) true true false ((Fin (0 / 1)) :: (Fin (0 / 1)) :: (Fin (0 / 1)) :: (Fin (120 / 1)) :: (Fin (27 / 4)) :: (Fin (45 / 1)) :: nil)) (3614138700964823 / 281474976710656).
Proof. apply (A41_rio_fin _ (1 / 1)); [reflexivity | apply (A41_q_mid 1 1 3614138700964823 281474976710656); [vm_compute; reflexivity | unfold fr, close, ctol, A41_c, A41_e; interval with (i_prec 80)]]. Qed.
Lemma r_A41_883 : rio_reads A41_c A41_e A41_lo A41_hi floor_volts ctol (Build_rio (Fin (100000000000000001097906362944045541740492309677311846336810682903157585404911491537163328978494688899061249669721172515611590283743140088328307009198146046031271664502933027185697489699588559043338384466165001178426897626212945177628091195786707458122783970171784415105291802893207873272974885715430223118336 / 1)) (Fin (5 / 1)) (Fin (3715469692580659 / 1125899906842624)) (Fin (6 / 1)) (Fin ((-1) / 1)) true true true ((Fin (0 / 1)) :: (Fin (0 / 1)) :: (Fin (0 / 1)) :: (Fin (0 / 1)) :: (Fin (27 / 4)) :: (Fin (45 / 1)) :: nil)) (9 / 2).
Proof. apply (A41_rio_fin _ (100000000000000001097906362944045541740492309677311846336810682903157585404911491537163328978494688899061249669721172515611590283743140088328307009198146046031271664502933027185697489699588559043338384466165001178426897626212945177628091195786707458122783970171784415105291802893207873272974885715430223118336 / 1)); [reflexivity | apply (A41_q_lo 100000000000000001097906362944045541740492309677311846336810682903157585404911491537163328978494688899061249669721172515611590283743140088328307009198146046031271664502933027185697489699588559043338384466165001178426897626212945177628091195786707458122783970171784415105291802893207873272974885715430223118336 1 9 2); [vm_compute; reflexivity | unfold fr, ctol, A41_lo, A41_c, A41_e; interval with (i_prec 80)]]. Qed.
Lemma r_A41_901 : rio_reads A41_c A41_e A41_lo A41_hi floor_volts ctol (Build_rio (Fin (1465 / 4096)) (Fin (5 / 1)) (Fin (3715469692580659 / 1125899906842624)) (Fin (6 / 1)) (Fin (12 / 1)) true true false ((Fin (0 / 1)) :: (Fin (0 / 1)) :: (Fin (0 / 1)) :: (Fin (0 / 1)) :: (Fin (27 / 4)) :: (Fin (45 / 1)) :: nil)) (35 / 1).
Proof. apply (A41_rio_fin _ (1465 / 4096)); [reflexivity | apply (A41_q_hi 1465 4096 35 1); [vm_compute; reflexivity | unfold fr, ctol, A41_hi, A41_c, A41_e; interval with (i_prec 80)]]. Qed.
Lemma r_A41_917 : rio_reads A41_c A41_e A41_lo A41_hi floor_volts ctol (Build_rio (Fin (15 / 256)) (Fin (5237 / 1024)) NInf (Fin (6675 / 1024)) (Fin (2965 / 256)) true false true ((Fin (1993 / 1024)) :: (Fin (1453 / 1024)) :: (Fin (1307 / 512)) :: (Fin (113193 / 1024)) :: (Fin (2243 / 512)) :: (Fin (34613 / 1024)) :: nil)) (35 / 1).
Proof. apply (A41_rio_fin _ (15 / 256)); [reflexivity | apply (A41_q_hi 15 256 35 1); [vm_compute; reflexivity | unfold fr, ctol, A41_hi, A41_c, A41_e; interval with (i_prec 80)]]. Qed.
Lemma r_A41_933 : rio_reads A41_c A41_e A41_lo A41_hi floor_volts ctol (Build_rio (Fin (95 / 256)) (Fin (5 / 1)) (Fin (1853 / 512)) (Fin (3305 / 512)) (Fin (1 / 202402253307310618352495346718917307049556649764142118356901358027430339567995346891960383701437124495187077864316811911389808737385793476867013399940738509921517424276566361364466907742093216341239767678472745068562007483424692698618103355649159556340810056512358769552333414615230502532186327508646006263307707741093494784)) true true true ((Fin (417 / 1024)) :: (Fin (149 / 1024)) :: (Fin (2019 / 1024)) :: (Fin (191623 / 1024)) :: (Fin (5673 / 1024)) :: (Fin (12231 / 128)) :: nil)) (598169279583803 / 17592186044416).
Proof. apply (A41_rio_fin _ (95 / 256)); [reflexivity | apply (A41_q_mid 95 256 598169279583803 17592186044416); [vm_compute; reflexivity | unfold fr, close, ctol, A41_c, A41_e; interval with (i_prec 80)]]. Qed.
Lemma r_A41_949 : rio_reads A41_c A41_e A41_lo A41_hi floor_volts ctol (Build_rio (Fin (175 / 256)) (Fin (5 / 1)) (Fin (3715469692580659 / 1125899906842624)) (Fin (6 / 1)) (Fin (12 / 1)) true true true ((Fin (0 / 1)) :: (Fin (0 / 1)) :: (Fin (0 / 1)) :: (Fin (0 / 1)) :: (Fin (27 / 4)) :: (Fin (45 / 1)) :: nil)) (5251691162396333 / 281474976710656).
Proof. apply (A41_rio_fin _ (175 / 256)); [reflexivity | apply (A41_q_mid 175 256 5251691162396333 281474976710656); [vm_compute; reflexivity | unfold fr, close, ctol, A41_c, A41_e; interval with (i_prec 80)]]. Qed.
Lemma r_A41_965 : rio_reads A41_c A41_e A41_lo A41_hi floor_volts ctol (Build_rio (Fin (255 / 256)) (Fin (1583 / 256)) (Fin (3715469692580659 / 1125899906842624)) (Fin (1407 / 256)) (Fin (11019 / 1024)) false true false ((Fin (165 / 64)) :: (Fin (1537 / 1024)) :: (Fin (2301 / 1024)) :: (Fin (200993 / 1024)) :: (Fin (179 / 32)) :: (Fin (6451 / 1024)) :: nil)) (1814030933804771 / 140737488355328).
Proof. apply (A41_rio_fin _ (255 / 256)); [reflexivity | apply (A41_q_mid 255 256 1814030933804771 140737488355328); [vm_compute; reflexivity | unfold fr, close, ctol, A41_c, A41_e; interval with (i_prec 80)]]. Qed.
Lemma r_A41_981 : rio_reads A41_c A41_e A41_lo A41_hi floor_volts ctol (Build_rio (Fin (335 / 256)) (Fin (1313 / 256)) (Fin (3311 / 1024)) (Fin ((-12) / 1)) NInf false true true ((Fin (75 / 32)) :: (Fin (149 / 128)) :: (Fin (45 / 64)) :: (Fin (134511 / 1024)) :: (Fin (5383 / 1024)) :: (Fin (18629 / 256)) :: nil)) (2774953685697221 / 281474976710656).
Proof. apply (A41_rio_fin _ (335 / 256)); [reflexivity | apply (A41_q_mid 335 256 2774953685697221 281474976710656); [vm_compute; reflexivity | unfold fr, close, ctol, A41_c, A41_e; interval with (i_prec 80)]]. Qed.
Lemma r_A41_997 : rio_reads A41_c A41_e A41_lo A41_hi floor_volts ctol (Build_rio (Fin (415 / 256)) (Fin (5 / 1)) (Fin (3715469692580659 / 1125899906842624)) (Fin (6 / 1)) (Fin (12 / 1)) true true true ((Fin (0 / 1)) :: (Fin (0 / 1)) :: (Fin (0 / 1)) :: (Fin (0 / 1)) :: (Fin (27 / 4)) :: (Fin (45 / 1)) :: nil)) (8993925765466941 / 1125899906842624).
Proof. apply (A41_rio_fin _ (415 / 256)); [reflexivity | apply (A41_q_mid 415 256 8993925765466941 1125899906842624); [vm_compute; reflexivity | unfold fr, close, ctol, A41_c, A41_e; interval with (i_prec 80)]]. Qed.
Lemma r_A41_1013 : rio_reads A41_c A41_e A41_lo A41_hi floor_volts ctol (Build_rio (Fin (495 / 256)) (Fin (5902958103587057 / 590295810358705651712)) (Fin (6173 / 512)) (Fin ((-1) / 1)) (Fin (5902958103587057 / 590295810358705651712)) true false false ((Fin (7 / 8)) :: (Fin (1863 / 1024)) :: (Fin (1107 / 1024)) :: (Fin (24155 / 512)) :: (Fin (7525 / 1024)) :: (Fin (6573 / 128)) :: nil)) (7563792416897081 / 1125899906842624).
Proof. apply (A41_rio_fin _ (495 / 256)); [reflexivity | apply (A41_q_mid 495 256 7563792416897081 1125899906842624); [vm_compute; reflexivity | unfold fr, close, ctol, A41_c, A41_e; interval with (i_prec 80)]]. Qed.
Lemma r_A41_1029 : rio_reads A41_c A41_e A41_lo A41_hi floor_volts ctol (Build_rio (Fin (575 / 256)) (Fin (5 / 1)) (Fin (1799 / 512)) (Fin (6 / 1)) (Fin (1 / 202402253307310618352495346718917307049556649764142118356901358027430339567995346891960383701437124495187077864316811911389808737385793476867013399940738509921517424276566361364466907742093216341239767678472745068562007483424692698618103355649159556340810056512358769552333414615230502532186327508646006263307707741093494784)) true true false ((Fin (409 / 256)) :: (Fin (825 / 1024)) :: (Fin (1493 / 512)) :: (Fin (105467 / 1024)) :: (Fin (7893 / 1024)) :: (Fin (8867 / 512)) :: nil)) (102009844195537 / 17592186044416).
Proof. apply (A41_rio_fin _ (575 / 256)); [reflexivity | apply (A41_q_mid 575 256 102009844195537 17592186044416); [vm_compute; reflexivity | unfold fr, close, ctol, A41_c, A41_e; interval with (i_prec 80)]]. Qed.
Lemma r_A41_1045 : rio_reads A41_c A41_e A41_lo A41_hi floor_volts ctol (Build_rio (Fin (655 / 256)) (Fin (5 / 1)) (Fin (3715469692580659 / 1125899906842624)) (Fin (6 / 1)) (Fin (12 / 1)) true true true ((Fin (0 / 1)) :: (Fin (0 / 1)) :: (Fin (0 / 1)) :: (Fin (0 / 1)) :: (Fin (27 / 4)) :: (Fin (45 / 1)) :: nil)) (5744395003021679 / 1125899906842624).
Proof. apply (A41_rio_fin _ (655 / 256)); [reflexivity | apply (A41_q_mid 655 256 5744395003021679 1125899906842624); [vm_compute; reflexivity | unfold fr, close, ctol, A41_c, A41_e; interval with (i_prec 80)]]. Qed.
Lemma r_A41_1061 : rio_reads A41_c A41_e A41_lo A41_hi floor_volts ctol (Build_rio (Fin (735 / 256)) (Fin (4569 / 512)) (Fin (14483 / 1024)) (Fin (6 / 1)) (Fin (10599 / 1024)) true true true ((Fin (369 / 512)) :: (Fin (1139 / 1024)) :: (Fin (1565 / 1024)) :: (Fin (103847 / 1024)) :: (Fin (4077 / 512)) :: (Fin (82803 / 1024)) :: nil)) (5129547631900479 / 1125899906842624).
Proof. apply (A41_rio_fin _ (735 / 256)); [reflexivity | apply (A41_q_mid 735 256 5129547631900479 1125899906842624); [vm_compute; reflexivity | unfold fr, close, ctol, A41_c, A41_e; interval with (i_prec 80)]]. Qed.
Lemma r_A41_1077 : rio_reads A41_c A41_e A41_lo A41_hi floor_volts ctol (Build_rio (Fin (205 / 64)) (Fin (4449 / 1024)) (Fin (1 / 202402253307310618352495346718917307049556649764142118356901358027430339567995346891960383701437124495187077864316811911389808737385793476867013399940738509921517424276566361364466907742093216341239767678472745068562007483424692698618103355649159556340810056512358769552333414615230502532186327508646006263307707741093494784)) (Fin (5495 / 1024)) (Fin (5261 / 512)) true false false ((Fin (1127 / 1024)) :: (Fin (45 / 512)) :: (Fin (15 / 32)) :: (Fin (19999 / 512)) :: (Fin (4849 / 1024)) :: (Fin (21435 / 512)) :: nil)) (9 / 2).
Proof. apply (A41_rio_fin _ (205 / 64)); [reflexivity | apply (A41_q_lo 205 64 9 2); [vm_compute; reflexivity | unfold fr, ctol, A41_lo, A41_c, A41_e; interval with (i_prec 80)]]. Qed.
Lemma r_A41_1093 : rio_reads A41_c A41_e A41_lo A41_hi floor_volts ctol (Build_rio (Fin (225 / 64)) (Fin (5 / 1)) (Fin (3715469692580659 / 1125899906842624)) (Fin (6 / 1)) (Fin (12 / 1)) true true true ((Fin (0 / 1)) :: (Fin (0 / 1)) :: (Fin (0 / 1)) :: (Fin (0 / 1)) :: (Fin (27 / 4)) :: (Fin (45 / 1)) :: nil)) (9 / 2).
Proof. apply (A41_rio_fin _ (225 / 64)); [reflexivity | apply (A41_q_lo 225 64 9 2); [vm_compute; reflexivity | unfold fr, ctol, A41_lo, A41_c, A41_e; interval with (i_prec 80)]]. Qed.
Lemma r_A41_1109 : rio_reads A41_c A41_e A41_lo A41_hi floor_volts ctol (Build_rio (Fin (245 / 64)) (Fin (5 / 1)) (Fin (3705 / 1024)) (Fin (335 / 64)) (Fin (5583 / 512)) true true true ((Fin (355 / 128)) :: (Fin (1329 / 1024)) :: (Fin (2197 / 1024)) :: (Fin (47045 / 256)) :: (Fin (7563 / 1024)) :: (Fin (33793 / 512)) :: nil)) (9 / 2).
Proof. apply (A41_rio_fin _ (245 / 64)); [reflexivity | apply (A41_q_lo 245 64 9 2); [vm_compute; reflexivity | unfold fr, ctol, A41_lo, A41_c, A41_e; interval with (i_prec 80)]]. Qed.
Lemma r_A41_1125 : rio_reads A41_c A41_e A41_lo A41_hi floor_volts ctol (Build_rio (Fin (265 / 64)) (Fin (4385 / 1024)) (Fin (3715469692580659 / 1125899906842624)) (Fin (1351 / 256)) (Fin (5791 / 512)) false true true ((Fin (2693 / 1024)) :: (Fin (575 / 1024)) :: (Fin (1625 / 1024)) :: (Fin (44645 / 1024)) :: (Fin (633 / 128)) :: (Fin (7031 / 512)) :: nil)) (9 / 2).
Proof. apply (A41_rio_fin _ (265 / 64)); [reflexivity | apply (A41_q_lo 265 64 9 2); [vm_compute; reflexivity | unfold fr, ctol, A41_lo, A41_c, A41_e; interval with (i_prec 80)]]. Qed.
Lemma r_A41_1141 : rio_reads A41_c A41_e A41_lo A41_hi floor_volts ctol (Build_rio (Fin (285 / 64)) (Fin (5 / 1)) (Fin (3715469692580659 / 1125899906842624)) (Fin (6 / 1)) (Fin (12 / 1)) true true true ((Fin (0 / 1)) :: (Fin (0 / 1)) :: (Fin (0 / 1)) :: (Fin (0 / 1)) :: (Fin (27 / 4)) :: (Fin (45 / 1)) :: nil)) (9 / 2).
Proof. apply (A41_rio_fin _ (285 / 64)); [reflexivity | apply (A41_q_lo 285 64 9 2); [vm_compute; reflexivity | unfold fr, ctol, A41_lo, A41_c, A41_e; interval with (i_prec 80)]]. Qed.
Lemma r_A41_1157 : rio_reads A41_c A41_e A41_lo A41_hi floor_volts ctol (Build_rio (Fin (305 / 64)) (Fin (2163 / 512)) (Fin (14653 / 1024)) (Fin (3309 / 512)) (Fin (12 / 1)) true true true ((Fin (473 / 1024)) :: (Fin (225 / 256)) :: (Fin (65 / 512)) :: (Fin (191021 / 1024)) :: (Fin (5359 / 1024)) :: (Fin (11187 / 128)) :: nil)) (9 / 2).
Proof. apply (A41_rio_fin _ (305 / 64)); [reflexivity | apply (A41_q_lo 305 64 9 2); [vm_compute; reflexivity | unfold fr, ctol, A41_lo, A41_c, A41_e; interval with (i_prec 80)]]. Qed.
Lemma r_A41_1173 : rio_reads A41_c A41_e A41_lo A41_hi floor_volts ctol (Build_rio (Fin (3498269888595307 / 1125899906842624)) (Fin (5537 / 1024)) (Fin (2997 / 1024)) (Fin (313 / 64)) (Fin (6211 / 512)) true true true ((Fin (277 / 256)) :: (Fin (19 / 256)) :: (Fin (1643 / 1024)) :: (Fin (68573 / 1024)) :: (Fin (6881 / 1024)) :: (Fin (30859 / 1024)) :: nil)) (9 / 2).
Proof. apply (A41_rio_fin _ (3498269888595307 / 1125899906842624)); [reflexivity | apply (A41_q_lo 3498269888595307 1125899906842624 9 2); [vm_compute; reflexivity | unfold fr, ctol, A41_lo, A41_c, A41_e; interval with (i_prec 80)]]. Qed.
Lemma r_A41_1189 : rio_reads A41_c A41_e A41_lo A41_hi floor_volts ctol (Build_rio (Fin (3191540087449347 / 1125899906842624)) (Fin (5 / 1)) (Fin (3715469692580659 / 1125899906842624)) (Fin (6 / 1)) (Fin (12 / 1)) true true true ((Fin (0 / 1)) :: (Fin (0 / 1)) :: (Fin (0 / 1)) :: (Fin (0 / 1)) :: (Fin (27 / 4)) :: (Fin (45 / 1)) :: nil)) (5194315148467995 / 1125899906842624).
Proof. apply (A41_rio_fin _ (3191540087449347 / 1125899906842624)); [reflexivity | apply (A41_q_mid 3191540087449347 1125899906842624 5194315148467995 1125899906842624); [vm_compute; reflexivity | unfold fr, close, ctol, A41_c, A41_e; interval with (i_prec 80)]]. Qed.
Lemma r_A41_1205 : rio_reads A41_c A41_e A41_lo A41_hi floor_volts ctol (Build_rio (Fin (8542727652821485 / 2251799813685248)) (Fin (0 / 1)) (Fin (1833 / 512)) (Fin (5359 / 1024)) (Fin (11863 / 1024)) false false true ((Fin (1581 / 1024)) :: (Fin (1039 / 1024)) :: (Fin (45 / 16)) :: (Fin (17427 / 1024)) :: (Fin (111 / 32)) :: (Fin (67469 / 1024)) :: nil)) (9 / 2).
Proof. apply (A41_rio_fin _ (8542727652821485 / 2251799813685248)); [reflexivity | apply (A41_q_lo 8542727652821485 2251799813685248 9 2); [vm_compute; reflexivity | unfold fr, ctol, A41_lo, A41_c, A41_e; interval with (i_prec 80)]]. Qed.
Lemma r_A41_1221 : rio_reads A41_c A41_e A41_lo A41_hi floor_volts ctol (Build_rio (Fin (2160580442883287 / 562949953421312)) (Fin (2389 / 512)) (Fin (703 / 256)) (Fin (89 / 16)) (Fin (6079 / 512)) true true true ((Fin (2001 / 1024)) :: (Fin (2043 / 1024)) :: (Fin (725 / 512)) :: (Fin (34413 / 1024)) :: (Fin (8801 / 1024)) :: (Fin (21483 / 256)) :: nil)) (9 / 2).
Proof. apply (A41_rio_fin _ (2160580442883287 / 562949953421312)); [reflexivity | apply (A41_q_lo 2160580442883287 562949953421312 9 2); [vm_compute; reflexivity | unfold fr, ctol, A41_lo, A41_c, A41_e; interval with (i_prec 80)]]. Qed.
Lemma r_A41_1240 : rio_reads A41_c A41_e A41_lo A41_hi floor_volts ctol (Build_rio (Fin (2872891440555831 / 17592186044416)) (Fin (2283 / 512)) (Fin (2747 / 1024)) (Fin (5653 / 1024)) (Fin (12 / 1)) true false true ((Fin (157 / 128)) :: (Fin (121 / 64)) :: (Fin (231 / 256)) :: (Fin (34869 / 1024)) :: (Fin (7913 / 1024)) :: (Fin (2759 / 1024)) :: nil)) (9 / 2).
Proof. apply (A41_rio_fin _ (2872891440555831 / 17592186044416)); [reflexivity | apply (A41_q_lo 2872891440555831 17592186044416 9 2); [vm_compute; reflexivity | unfold fr, ctol, A41_lo, A41_c, A41_e; interval with (i_prec 80)]]. Qed.
Lemma r_A41_1261 : rio_reads A41_c A41_e A41_lo A41_hi floor_volts ctol (Build_rio (Fin (2541525748998639 / 70368744177664)) (Fin (5 / 1)) (Fin (3715469692580659 / 1125899906842624)) (Fin (6 / 1)) (Fin (12 / 1)) true true true ((Fin (0 / 1)) :: (Fin (0 / 1)) :: (Fin (0 / 1)) :: (Fin (0 / 1)) :: (Fin (27 / 4)) :: (Fin (45 / 1)) :: nil)) (9 / 2).
Proof. apply (A41_rio_fin _ (2541525748998639 / 70368744177664)); [reflexivity | apply (A41_q_lo 2541525748998639 70368744177664 9 2); [vm_compute; reflexivity | unfold fr, ctol, A41_lo, A41_c, A41_e; interval with (i_prec 80)]]. Qed.
Lemma d_A41_1338r : rio_reads A41_c A41_e A41_lo A41_hi floor_volts ctol (Build_rio (Fin (6491044311201869 / 18014398509481984)) (Fin (0 / 1)) (Fin (0 / 1)) (Fin (0 / 1)) (Fin (2476979795053773 / 562949953421312)) false false false ((Fin (0 / 1)) :: (Fin (0 / 1)) :: (Fin (0 / 1)) :: (Fin (0 / 1)) :: (Fin (27 / 4)) :: (Fin (45 / 1)) :: nil)) (35 / 1).
Proof. apply (A41_rio_fin _ (6491044311201869 / 18014398509481984)); [reflexivity | apply (A41_q_hi 6491044311201869 18014398509481984 35 1); [vm_compute; reflexivity | unfold fr, ctol, A41_hi, A41_c, A41_e; interval with (i_prec 80)]]. Qed.
Lemma d_A41_1346r : rio_reads A41_c A41_e A41_lo A41_hi floor_volts ctol (Build_rio (Fin (6491044311201869 / 18014398509481984)) (Fin (2758454771764429 / 562949953421312)) (Fin (3715469692580659 / 1125899906842624)) (Fin (6 / 1)) (Fin (12 / 1)) true true true ((Fin (0 / 1)) :: (Fin (0 / 1)) :: (Fin (0 / 1)) :: (Fin (0 / 1)) :: (Fin (27 / 4)) :: (Fin (45 / 1)) :: nil)) (35 / 1).
Proof. apply (A41_rio_fin _ (6491044311201869 / 18014398509481984)); [reflexivity | apply (A41_q_hi 6491044311201869 18014398509481984 35 1); [vm_compute; reflexivity | unfold fr, ctol, A41_hi, A41_c, A41_e; interval with (i_prec 80)]]. Qed.
Lemma d_A41_1354r : rio_reads A41_c A41_e A41_lo A41_hi floor_volts ctol (Build_rio (Fin (1636741441258383 / 562949953421312)) (Fin ((-1) / 1)) (Fin (3715469692580659 / 1125899906842624)) (Fin (6 / 1)) (Fin (12 / 1)) true true true ((Fin (0 / 1)) :: (Fin (0 / 1)) :: (Fin (0 / 1)) :: (Fin (0 / 1)) :: (Fin (27 / 4)) :: (Fin (45 / 1)) :: nil)) (9 / 2).
Proof. apply (A41_rio_fin _ (1636741441258383 / 562949953421312)); [reflexivity | apply (A41_q_lo 1636741441258383 562949953421312 9 2); [vm_compute; reflexivity | unfold fr, ctol, A41_lo, A41_c, A41_e; interval with (i_prec 80)]]. Qed.
Lemma d_A41_1362r : rio_reads A41_c A41_e A41_lo A41_hi floor_volts ctol (Build_rio (Fin (2904288656509173 / 2251799813685248)) (Fin (5 / 1)) (Fin (3715469692580659 / 1125899906842624)) (Fin (6 / 1)) (Fin (7093169413108531 / 1125899906842624)) true true true ((Fin (0 / 1)) :: (Fin (0 / 1)) :: (Fin (0 / 1)) :: (Fin (0 / 1)) :: (Fin (27 / 4)) :: (Fin (45 / 1)) :: nil)) (10 / 1).
Proof. apply (A41_rio_fin _ (2904288656509173 / 2251799813685248)); [reflexivity | apply (A41_q_mid 2904288656509173 2251799813685248 10 1); [vm_compute; reflexivity | unfold fr, close, ctol, A41_c, A41_e; interval with (i_prec 80)]]. Qed.
Lemma d_A41_1370r : rio_reads A41_c A41_e A41_lo A41_hi floor_volts ctol (Build_rio (Fin (6491044311201869 / 18014398509481984)) (Fin (5 / 1)) (Fin (3715469692580659 / 1125899906842624)) (Fin (6 / 1)) PInf true true true ((Fin (0 / 1)) :: (Fin (0 / 1)) :: (Fin (0 / 1)) :: (Fin (0 / 1)) :: (Fin (27 / 4)) :: (Fin (45 / 1)) :: nil)) (35 / 1).
Proof. apply (A41_rio_fin _ (6491044311201869 / 18014398509481984)); [reflexivity | apply (A41_q_hi 6491044311201869 18014398509481984 35 1); [vm_compute; reflexivity | unfold fr, ctol, A41_hi, A41_c, A41_e; interval with (i_prec 80)]]. Qed.
Lemma d_A41_1378r : rio_reads A41_c A41_e A41_lo A41_hi floor_volts ctol (Build_rio (Fin (3273482882516765 / 1125899906842624)) (Fin (5 / 1)) (Fin (3715469692580659 / 1125899906842624)) (Fin (11 / 2)) (Fin (12 / 1)) true true true ((Fin (0 / 1)) :: (Fin (0 / 1)) :: (Fin (0 / 1)) :: (Fin (0 / 1)) :: (Fin (27 / 4)) :: (Fin (45 / 1)) :: nil)) (5066549580791809 / 1125899906842624).
Proof. apply (A41_rio_fin _ (3273482882516765 / 1125899906842624)); [reflexivity | apply (A41_q_mid 3273482882516765 1125899906842624 5066549580791809 1125899906842624); [vm_compute; reflexivity | unfold fr, close, ctol, A41_c, A41_e; interval with (i_prec 80)]]. Qed.
Lemma d_A41_1386r : rio_reads A41_c A41_e A41_lo A41_hi floor_volts ctol (Build_rio (Fin (6491044311201869 / 18014398509481984)) (Fin (5 / 1)) (Fin (3715469692580659 / 1125899906842624)) (Fin (6 / 1)) (Fin (12 / 1)) true true false ((Fin (0 / 1)) :: (Fin (0 / 1)) :: (Fin (0 / 1)) :: (Fin (0 / 1)) :: (Fin (27 / 4)) :: (Fin (45 / 1)) :: nil)) (35 / 1).
Proof. apply (A41_rio_fin _ (6491044311201869 / 18014398509481984)); [reflexivity | apply (A41_q_hi 6491044311201869 18014398509481984 35 1); [vm_compute; reflexivity | unfold fr, ctol, A41_hi, A41_c, A41_e; interval with (i_prec 80)]]. Qed.
Lemma d_A41_1397u : close ctol (1125732717575483 / 562949953421312) (volts_A41 (7318065612077031 / 1125899906842624)).
Proof. apply (A41_q_volts_mid 7318065612077031 1125899906842624 1125732717575483 562949953421312); [vm_compute; reflexivity | unfold fr, close, ctol, A41_lo, A41_hi, A41_c, A41_e; interval with (i_prec 80)]. Qed.
Lemma d_A41_1410u : close ctol (8438643509291049 / 18014398509481984) (volts_A41 (7612993019167093 / 281474976710656)).
Proof. apply (A41_q_volts_mid 7612993019167093 281474976710656 8438643509291049 18014398509481984); [vm_compute; reflexivity | unfold fr, close, ctol, A41_lo, A41_hi, A41_c, A41_e; interval with (i_prec 80)]. Qed.
Lemma d_A41_1423u : close ctol (262390795872921 / 562949953421312) (volts_A41 (3825262453411151 / 140737488355328)).
Proof. apply (A41_q_volts_mid 3825262453411151 140737488355328 262390795872921 562949953421312); [vm_compute; reflexivity | unfold fr, close, ctol, A41_lo, A41_hi, A41_c, A41_e; interval with (i_prec 80)]. Qed.
Lemma d_A41_1436u : close ctol (7160817242669629 / 9007199254740992) (volts_A41 (4527709531490629 / 281474976710656)).
Proof. apply (A41_q_volts_mid 4527709531490629 281474976710656 7160817242669629 9007199254740992); [vm_compute; reflexivity | unfold fr, close, ctol, A41_lo, A41_hi, A41_c, A41_e; interval with (i_prec 80)]. Qed.
Lemma d_A41_1448r : rio_reads A41_c A41_e A41_lo A41_hi floor_volts ctol (Build_rio (Fin (7017915568714227 / 18014398509481984)) (Fin (5 / 1)) (Fin (3715469692580659 / 1125899906842624)) (Fin (6 / 1)) (Fin (12 / 1)) true true true ((Fin (0 / 1)) :: (Fin (0 / 1)) :: (Fin (0 / 1)) :: (Fin (0 / 1)) :: (Fin (27 / 4)) :: (Fin (45 / 1)) :: nil)) (2281134046455155 / 70368744177664).
Proof. apply (A41_rio_fin _ (7017915568714227 / 18014398509481984)); [reflexivity | apply (A41_q_mid 7017915568714227 18014398509481984 2281134046455155 70368744177664); [vm_compute; reflexivity | unfold fr, close, ctol, A41_c, A41_e; interval with (i_prec 80)]]. Qed.
Lemma d_A41_1461u : close ctol (1636741441258383 / 562949953421312) (volts_A41 ((-906826335249765) / 1125899906842624)).
Proof. apply (A41_q_volts_lo (-906826335249765) 1125899906842624 1636741441258383 562949953421312); [vm_compute; reflexivity | unfold fr, close, ctol, A41_lo, A41_hi, A41_c, A41_e; interval with (i_prec 80)]. Qed.
Lemma d_A41_1474u : close ctol (1985172304026239 / 4503599627370496) (volts_A41 (8081741944475951 / 281474976710656)).
Proof. apply (A41_q_volts_mid 8081741944475951 281474976710656 1985172304026239 4503599627370496); [vm_compute; reflexivity | unfold fr, close, ctol, A41_lo, A41_hi, A41_c, A41_e; interval with (i_prec 80)]. Qed.
Lemma d_A41_1487u : close ctol (3550410210275563 / 4503599627370496) (volts_A41 (1141322332104161 / 70368744177664)).
Proof. apply (A41_q_volts_mid 1141322332104161 70368744177664 3550410210275563 4503599627370496); [vm_compute; reflexivity | unfold fr, close, ctol, A41_lo, A41_hi, A41_c, A41_e; interval with (i_prec 80)]. Qed.
Lemma d_A41_1500u : close ctol (6017086703427073 / 4503599627370496) (volts_A41 (1359448848730839 / 140737488355328)).
Proof. apply (A41_q_volts_mid 1359448848730839 140737488355328 6017086703427073 4503599627370496); [vm_compute; reflexivity | unfold fr, close, ctol, A41_lo, A41_hi, A41_c, A41_e; interval with (i_prec 80)]. Qed.
Lemma d_A41_1512r : rio_reads A41_c A41_e A41_lo A41_hi floor_volts ctol (Build_rio (Fin (6491044311201869 / 18014398509481984)) (Fin (6557 / 512)) (Fin (11643 / 1024)) (Fin (6 / 1)) (Fin (12465 / 1024)) true true false ((Fin (2829 / 1024)) :: (Fin (397 / 512)) :: (Fin (653 / 512)) :: (Fin (90561 / 512)) :: (Fin (55 / 8)) :: (Fin (45071 / 1024)) :: nil)) (35 / 1).
Proof. apply (A41_rio_fin _ (6491044311201869 / 18014398509481984)); [reflexivity | apply (A41_q_hi 6491044311201869 18014398509481984 35 1); [vm_compute; reflexivity | unfold fr, ctol, A41_hi, A41_c, A41_e; interval with (i_prec 80)]]. Qed.
Lemma d_A41_1525u : close ctol (3589208059083309 / 4503599627370496) (volts_A41 (2258402179018505 / 140737488355328)).
Proof. apply (A41_q_volts_mid 2258402179018505 140737488355328 3589208059083309 4503599627370496); [vm_compute; reflexivity | unfold fr, close, ctol, A41_lo, A41_hi, A41_c, A41_e; interval with (i_prec 80)]. Qed.
Lemma d_A41_1538u : close ctol (3166743132506133 / 4503599627370496) (volts_A41 (5108105832581033 / 281474976710656)).
Proof. apply (A41_q_volts_mid 5108105832581033 281474976710656 3166743132506133 4503599627370496); [vm_compute; reflexivity | unfold fr, close, ctol, A41_lo, A41_hi, A41_c, A41_e; interval with (i_prec 80)]. Qed.
Lemma d_A41_1551u : close ctol (323710151958313 / 562949953421312) (volts_A41 (1556068728951251 / 70368744177664)).
Proof. apply (A41_q_volts_mid 1556068728951251 70368744177664 323710151958313 562949953421312); [vm_compute; reflexivity | unfold fr, close, ctol, A41_lo, A41_hi, A41_c, A41_e; interval with (i_prec 80)]. Qed.
Lemma d_A41_1564u : close ctol (242753730176247 / 562949953421312) (volts_A41 (8258084888947463 / 281474976710656)).
Proof. apply (A41_q_volts_mid 8258084888947463 281474976710656 242753730176247 562949953421312); [vm_compute; reflexivity | unfold fr, close, ctol, A41_lo, A41_hi, A41_c, A41_e; interval with (i_prec 80)]. Qed.
Lemma d_A41_1576r : rio_reads A41_c A41_e A41_lo A41_hi floor_volts ctol (Build_rio (Fin (1636741441258383 / 562949953421312)) (Fin (2117 / 512)) (Fin (735 / 256)) (Fin (5577 / 1024)) (Fin (6565 / 512)) true true false ((Fin (1343 / 1024)) :: (Fin (377 / 1024)) :: (Fin (1375 / 1024)) :: (Fin (21943 / 256)) :: (Fin (9019 / 1024)) :: (Fin (44587 / 512)) :: nil)) (9 / 2).
Proof. apply (A41_rio_fin _ (1636741441258383 / 562949953421312)); [reflexivity | apply (A41_q_lo 1636741441258383 562949953421312 9 2); [vm_compute; reflexivity | unfold fr, ctol, A41_lo, A41_c, A41_e; interval with (i_prec 80)]]. Qed.
Lemma d_A41_1589u : close ctol (1636741441258383 / 562949953421312) (volts_A41 (3892230759512529 / 36028797018963968)).
Proof. apply (A41_q_volts_lo 3892230759512529 36028797018963968 1636741441258383 562949953421312); [vm_compute; reflexivity | unfold fr, close, ctol, A41_lo, A41_hi, A41_c, A41_e; interval with (i_prec 80)]. Qed.
Lemma d_A41_1602u : close ctol (569591352139789 / 562949953421312) (volts_A41 (223295967828327 / 17592186044416)).
Proof. apply (A41_q_volts_mid 223295967828327 17592186044416 569591352139789 562949953421312); [vm_compute; reflexivity | unfold fr, close, ctol, A41_lo, A41_hi, A41_c, A41_e; interval with (i_prec 80)]. Qed.
Lemma d_A41_1615u : close ctol (5925638207573079 / 9007199254740992) (volts_A41 (681661593174141 / 35184372088832)).
Proof. apply (A41_q_volts_mid 681661593174141 35184372088832 5925638207573079 9007199254740992); [vm_compute; reflexivity | unfold fr, close, ctol, A41_lo, A41_hi, A41_c, A41_e; interval with (i_prec 80)]. Qed.
Lemma d_A41_1628u : close ctol (5902652415723613 / 9007199254740992) (volts_A41 (2737077099402283 / 140737488355328)).
Proof. apply (A41_q_volts_mid 2737077099402283 140737488355328 5902652415723613 9007199254740992); [vm_compute; reflexivity | unfold fr, close, ctol, A41_lo, A41_hi, A41_c, A41_e; interval with (i_prec 80)]. Qed.
Lemma d_A41_1640r : rio_reads A41_c A41_e A41_lo A41_hi floor_volts ctol (Build_rio (Fin (6751752033189263 / 18014398509481984)) (Fin (5 / 1)) (Fin (3715469692580659 / 1125899906842624)) (Fin (6 / 1)) (Fin (12 / 1)) true true true ((Fin (0 / 1)) :: (Fin (0 / 1)) :: (Fin (0 / 1)) :: (Fin (0 / 1)) :: (Fin (27 / 4)) :: (Fin (45 / 1)) :: nil)) (1184723308163149 / 35184372088832).
Proof. apply (A41_rio_fin _ (6751752033189263 / 18014398509481984)); [reflexivity | apply (A41_q_mid 6751752033189263 18014398509481984 1184723308163149 35184372088832); [vm_compute; reflexivity | unfold fr, close, ctol, A41_c, A41_e; interval with (i_prec 80)]]. Qed.
Lemma d_A41_1653u : close ctol (6491044311201869 / 18014398509481984) (volts_A41 (8022686517689539 / 137438953472)).
Proof. apply (A41_q_volts_hi 8022686517689539 137438953472 6491044311201869 18014398509481984); [vm_compute; reflexivity | unfold fr, close, ctol, A41_lo, A41_hi, A41_c, A41_e; interval with (i_prec 80)]. Qed.
Lemma d_A41_1666u : close ctol (3504970456375445 / 9007199254740992) (volts_A41 (4567366827535067 / 140737488355328)).
Proof. apply (A41_q_volts_mid 4567366827535067 140737488355328 3504970456375445 9007199254740992); [vm_compute; reflexivity | unfold fr, close, ctol, A41_lo, A41_hi, A41_c, A41_e; interval with (i_prec 80)]. Qed.
Lemma d_A41_1679u : close ctol (1942369198049233 / 4503599627370496) (volts_A41 (8256667487303115 / 281474976710656)).
Proof. apply (A41_q_volts_mid 8256667487303115 281474976710656 1942369198049233 4503599627370496); [vm_compute; reflexivity | unfold fr, close, ctol, A41_lo, A41_hi, A41_c, A41_e; interval with (i_prec 80)]. Qed.
Lemma d_A41_1692u : close ctol (2352888154827155 / 2251799813685248) (volts_A41 (6923073864263941 / 562949953421312)).
Proof. apply (A41_q_volts_mid 6923073864263941 562949953421312 2352888154827155 2251799813685248); [vm_compute; reflexivity | unfold fr, close, ctol, A41_lo, A41_hi, A41_c, A41_e; interval with (i_prec 80)]. Qed.
Lemma d_A41_1704r : rio_reads A41_c A41_e A41_lo A41_hi floor_volts ctol (Build_rio (Fin (1682814335183017 / 2251799813685248)) (Fin (341 / 64)) (Fin (1761 / 512)) (Fin (6 / 1)) (Fin (2921 / 256)) false true true ((Fin (1521 / 512)) :: (Fin (1145 / 1024)) :: (Fin (1365 / 512)) :: (Fin (16187 / 512)) :: (Fin (3565 / 1024)) :: (Fin (8623 / 512)) :: nil)) (2405703549267585 / 140737488355328).
Proof. apply (A41_rio_fin _ (1682814335183017 / 2251799813685248)); [reflexivity | apply (A41_q_mid 1682814335183017 2251799813685248 2405703549267585 140737488355328); [vm_compute; reflexivity | unfold fr, close, ctol, A41_c, A41_e; interval with (i_prec 80)]]. Qed.
Lemma d_A41_1717u : close ctol (5037696699068543 / 4503599627370496) (volts_A41 (3237346645757831 / 281474976710656)).
Proof. apply (A41_q_volts_mid 3237346645757831 281474976710656 5037696699068543 4503599627370496); [vm_compute; reflexivity | unfold fr, close, ctol, A41_lo, A41_hi, A41_c, A41_e; interval with (i_prec 80)]. Qed.
Lemma d_A41_1730u : close ctol (315600274565427 / 281474976710656) (volts_A41 (3229846721316067 / 281474976710656)).
Proof. apply (A41_q_volts_mid 3229846721316067 281474976710656 315600274565427 281474976710656); [vm_compute; reflexivity | unfold fr, close, ctol, A41_lo, A41_hi, A41_c, A41_e; interval with (i_prec 80)]. Qed.
Lemma d_A41_1743u : close ctol (1636741441258383 / 562949953421312) (volts_A41 (301224855275509 / 2251799813685248)).
Proof. apply (A41_q_volts_lo 301224855275509 2251799813685248 1636741441258383 562949953421312); [vm_compute; reflexivity | unfold fr, close, ctol, A41_lo, A41_hi, A41_c, A41_e; interval with (i_prec 80)]. Qed.
Lemma d_A41_1756u : close ctol (1636741441258383 / 562949953421312) (volts_A41 ((-1020944863289793) / 562949953421312)).
Proof. apply (A41_q_volts_lo (-1020944863289793) 562949953421312 1636741441258383 562949953421312); [vm_compute; reflexivity | unfold fr, close, ctol, A41_lo, A41_hi, A41_c, A41_e; interval with (i_prec 80)]. Qed.
Lemma d_A41_1768r : rio_reads A41_c A41_e A41_lo A41_hi floor_volts ctol (Build_rio (Fin (1169433819994481 / 1125899906842624)) (Fin (5819 / 1024)) (Fin (3453 / 1024)) (Fin (1261 / 256)) (Fin (11601 / 1024)) true true false ((Fin (791 / 1024)) :: (Fin (327 / 256)) :: (Fin (2827 / 1024)) :: (Fin (178161 / 1024)) :: (Fin (2033 / 512)) :: (Fin (11241 / 128)) :: nil)) (3481921090062211 / 281474976710656).
Proof. apply (A41_rio_fin _ (1169433819994481 / 1125899906842624)); [reflexivity | apply (A41_q_mid 1169433819994481 1125899906842624 3481921090062211 281474976710656); [vm_compute; reflexivity | unfold fr, close, ctol, A41_c, A41_e; interval with (i_prec 80)]]. Qed.
Lemma d_A41_1781u : close ctol (8812730235260459 / 18014398509481984) (volts_A41 (3647700276274329 / 140737488355328)).
Proof. apply (A41_q_volts_mid 3647700276274329 140737488355328 8812730235260459 18014398509481984); [vm_compute; reflexivity | unfold fr, close, ctol, A41_lo, A41_hi, A41_c, A41_e; interval with (i_prec 80)]. Qed.
Lemma d_A41_1794u : close ctol (6491044311201869 / 18014398509481984) (volts_A41 (5995118474163501 / 70368744177664)).
Proof. apply (A41_q_volts_hi 5995118474163501 70368744177664 6491044311201869 18014398509481984); [vm_compute; reflexivity | unfold fr, close, ctol, A41_lo, A41_hi, A41_c, A41_e; interval with (i_prec 80)]. Qed.
Lemma d_A41_1807u : close ctol (7163480151929653 / 9007199254740992) (volts_A41 (2263028022524341 / 140737488355328)).
Proof. apply (A41_q_volts_mid 2263028022524341 140737488355328 7163480151929653 9007199254740992); [vm_compute; reflexivity | unfold fr, close, ctol, A41_lo, A41_hi, A41_c, A41_e; interval with (i_prec 80)]. Qed.
Lemma d_A41_1820u : close ctol (6491044311201869 / 18014398509481984) (volts_A41 (6577735137716621 / 140737488355328)).
Proof. apply (A41_q_volts_hi 6577735137716621 140737488355328 6491044311201869 18014398509481984); [vm_compute; reflexivity | unfold fr, close, ctol, A41_lo, A41_hi, A41_c, A41_e; interval with (i_prec 80)]. Qed.
Lemma d_A41_1832r : rio_reads A41_c A41_e A41_lo A41_hi floor_volts ctol (Build_rio (Fin (376992008676527 / 281474976710656)) (Fin (5 / 1)) (Fin (3715469692580659 / 1125899906842624)) (Fin (6 / 1)) (Fin (12 / 1)) true true true ((Fin (0 / 1)) :: (Fin (0 / 1)) :: (Fin (0 / 1)) :: (Fin (0 / 1)) :: (Fin (27 / 4)) :: (Fin (45 / 1)) :: nil)) (169521890092335 / 17592186044416).
Proof. apply (A41_rio_fin _ (376992008676527 / 281474976710656)); [reflexivity | apply (A41_q_mid 376992008676527 281474976710656 169521890092335 17592186044416); [vm_compute; reflexivity | unfold fr, close, ctol, A41_c, A41_e; interval with (i_prec 80)]]. Qed.
Lemma d_A41_1845u : close ctol (6491044311201869 / 18014398509481984) (volts_A41 (6097745308339431 / 549755813888)).
Proof. apply (A41_q_volts_hi 6097745308339431 549755813888 6491044311201869 18014398509481984); [vm_compute; reflexivity | unfold fr, close, ctol, A41_lo, A41_hi, A41_c, A41_e; interval with (i_prec 80)]. Qed.
Lemma d_A41_1858u : close ctol (1636741441258383 / 562949953421312) (volts_A41 (2302614524510863 / 2251799813685248)).
Proof. apply (A41_q_volts_lo 2302614524510863 2251799813685248 1636741441258383 562949953421312); [vm_compute; reflexivity | unfold fr, close, ctol, A41_lo, A41_hi, A41_c, A41_e; interval with (i_prec 80)]. Qed.
Lemma d_A41_1871u : close ctol (6832816844199331 / 18014398509481984) (volts_A41 (2341827269707047 / 70368744177664)).
Proof. apply (A41_q_volts_mid 2341827269707047 70368744177664 6832816844199331 18014398509481984); [vm_compute; reflexivity | unfold fr, close, ctol, A41_lo, A41_hi, A41_c, A41_e; interval with (i_prec 80)]. Qed.
Lemma d_A41_1884u : close ctol (3953211296520985 / 9007199254740992) (volts_A41 (507259414349765 / 17592186044416)).
Proof. apply (A41_q_volts_mid 507259414349765 17592186044416 3953211296520985 9007199254740992); [vm_compute; reflexivity | unfold fr, close, ctol, A41_lo, A41_hi, A41_c, A41_e; interval with (i_prec 80)]. Qed.
Lemma d_A41_1896r : rio_reads A41_c A41_e A41_lo A41_hi floor_volts ctol (Build_rio (Fin (1636741441258383 / 562949953421312)) (Fin (4421 / 1024)) (Fin (3715469692580659 / 1125899906842624)) (Fin (7683 / 1024)) (Fin (10339 / 1024)) false true true ((Fin (1229 / 512)) :: (Fin (1279 / 1024)) :: (Fin (923 / 1024)) :: (Fin (194663 / 1024)) :: (Fin (25 / 8)) :: (Fin (10149 / 1024)) :: nil)) (9 / 2).
Proof. apply (A41_rio_fin _ (1636741441258383 / 562949953421312)); [reflexivity | apply (A41_q_lo 1636741441258383 562949953421312 9 2); [vm_compute; reflexivity | unfold fr, ctol, A41_lo, A41_c, A41_e; interval with (i_prec 80)]]. Qed.
Lemma d_A41_1909u : close ctol (1636741441258383 / 562949953421312) (volts_A41 (5628834529867057 / 36028797018963968)).
Proof. apply (A41_q_volts_lo 5628834529867057 36028797018963968 1636741441258383 562949953421312); [vm_compute; reflexivity | unfold fr, close, ctol, A41_lo, A41_hi, A41_c, A41_e; interval with (i_prec 80)]. Qed.
Lemma d_A41_1922u : close ctol (1636741441258383 / 562949953421312) (volts_A41 (3986548432082797 / 1125899906842624)).
Proof. apply (A41_q_volts_lo 3986548432082797 1125899906842624 1636741441258383 562949953421312); [vm_compute; reflexivity | unfold fr, close, ctol, A41_lo, A41_hi, A41_c, A41_e; interval with (i_prec 80)]. Qed.
Lemma d_A41_1935u : close ctol (424021786784389 / 562949953421312) (volts_A41 (2387207659544285 / 140737488355328)).
Proof. apply (A41_q_volts_mid 2387207659544285 140737488355328 424021786784389 562949953421312); [vm_compute; reflexivity | unfold fr, close, ctol, A41_lo, A41_hi, A41_c, A41_e; interval with (i_prec 80)]. Qed.
Lemma d_A41_1948u : close ctol (1636741441258383 / 562949953421312) (volts_A41 (2522741309165069 / 562949953421312)).
Proof. apply (A41_q_volts_lo 2522741309165069 562949953421312 1636741441258383 562949953421312); [vm_compute; reflexivity | unfold fr, close, ctol, A41_lo, A41_hi, A41_c, A41_e; interval with (i_prec 80)]. Qed.
Lemma d_A41_1960r : rio_reads A41_c A41_e A41_lo A41_hi floor_volts ctol (Build_rio (Fin (6793883615522849 / 9007199254740992)) (Fin (287 / 64)) (Fin (3715469692580659 / 1125899906842624)) (Fin (2837 / 512)) (Fin (12 / 1)) true true true ((Fin (2425 / 1024)) :: (Fin (519 / 512)) :: (Fin (219 / 1024)) :: (Fin (40207 / 256)) :: (Fin (2473 / 512)) :: (Fin (90387 / 1024)) :: nil)) (4767832411808173 / 281474976710656).
Proof. apply (A41_rio_fin _ (6793883615522849 / 9007199254740992)); [reflexivity | apply (A41_q_mid 6793883615522849 9007199254740992 4767832411808173 281474976710656); [vm_compute; reflexivity | unfold fr, close, ctol, A41_c, A41_e; interval with (i_prec 80)]]. Qed.
Lemma d_A41_1973u : close ctol (2576608995422193 / 4503599627370496) (volts_A41 (1563824029086007 / 70368744177664)).
Proof. apply (A41_q_volts_mid 1563824029086007 70368744177664 2576608995422193 4503599627370496); [vm_compute; reflexivity | unfold fr, close, ctol, A41_lo, A41_hi, A41_c, A41_e; interval with (i_prec 80)]. Qed.
Lemma d_A41_1986u : close ctol (6491044311201869 / 18014398509481984) (volts_A41 (3236778576378517 / 35184372088832)).
Proof. apply (A41_q_volts_hi 3236778576378517 35184372088832 6491044311201869 18014398509481984); [vm_compute; reflexivity | unfold fr, close, ctol, A41_lo, A41_hi, A41_c, A41_e; interval with (i_prec 80)]. Qed.
Lemma r_A02_1 : rio_reads A02_c A02_e A02_lo A02_hi floor_volts ctol (Build_rio (Fin (0 / 1)) (Fin (2589569785738035 / 562949953421312)) (Fin (3715469692580659 / 1125899906842624)) (Fin (6 / 1)) (Fin (12 / 1)) true true true ((Fin (0 / 1)) :: (Fin (0 / 1)) :: (Fin (0 / 1)) :: (Fin (0 / 1)) :: (Fin (27 / 4)) :: (Fin (45 / 1)) :: nil)) (45 / 2).
Proof. apply (A02_rio_fin _ (0 / 1)); [reflexivity | apply (A02_q_floor 0 1 45 2); vm_compute; reflexivity]. Qed.
Lemma r_A02_23 : rio_reads A02_c A02_e A02_lo A02_hi floor_volts ctol (Build_rio (Fin (492525077454931 / 4925250774549309901534880012517951725634967408808180833493536675530715221437151326426783281860614455100828498788352)) (Fin (5 / 1)) (Fin (3715469692580659 / 1125899906842624)) (Fin (6 / 1)) (Fin (0 / 1)) true true true ((Fin (0 / 1)) :: (Fin (0 / 1)) :: (Fin (0 / 1)) :: (Fin (0 / 1)) :: (Fin (27 / 4)) :: (Fin (45 / 1)) :: nil)) (145 / 1).
Proof. apply (A02_rio_fin _ (492525077454931 / 4925250774549309901534880012517951725634967408808180833493536675530715221437151326426783281860614455100828498788352)); [reflexivity | apply (A02_q_floor 492525077454931 4925250774549309901534880012517951725634967408808180833493536675530715221437151326426783281860614455100828498788352 145 1); vm_compute; reflexivity]. Qed.
Lemma d_A02_1g : get_distance (set_distance A02_c A02_e A02_lo A02_hi sim_init (0 / 1)) = (0 / 1).
Proof. cbn [get_distance set_distance sim_distance]. first [reflexivity | lra]. Qed.
Lemma d_A02_8c : close ctol (30 / 1) (clamp A02_lo A02_hi (30 / 1)).
Proof. apply (A02_q_clamp_mid 30 1 30 1); vm_compute; reflexivity. Qed.
Lemma d_A02_14g : get_distance (set_distance A02_c A02_e A02_lo A02_hi sim_init (150 / 1)) = (150 / 1).
Proof. cbn [get_distance set_distance sim_distance]. first [reflexivity | lra]. Qed.
Lemma d_A02_21c : close ctol (45 / 2) (clamp A02_lo A02_hi (0 / 1)).
Proof. apply (A02_q_clamp_lo 0 1 45 2); vm_compute; reflexivity. Qed.
Lemma d_A02_29c : close ctol (45 / 2) (clamp A02_lo A02_hi (5 / 1)).
Proof. apply (A02_q_clamp_lo 5 1 45 2); vm_compute; reflexivity. Qed.
Lemma d_A02_37c : close ctol (145 / 1) (clamp A02_lo A02_hi (1000 / 1)).
Proof. apply (A02_q_clamp_hi 1000 1 145 1); vm_compute; reflexivity. Qed.
Lemma d_A02_46c : close ctol (6333186975989761 / 281474976710656) (clamp A02_lo A02_hi (6333186975989761 / 281474976710656)).
Proof. apply (A02_q_clamp_mid 6333186975989761 281474976710656 6333186975989761 281474976710656); vm_compute; reflexivity. Qed.
Lemma d_A02_54c : close ctol (145 / 1) (clamp A02_lo A02_hi (146 / 1)).
Proof. apply (A02_q_clamp_hi 146 1 145 1); vm_compute; reflexivity. Qed.
Lemma d_A02_62c : close ctol (8828852634372255 / 140737488355328) (clamp A02_lo A02_hi (8828852634372255 / 140737488355328)).
Proof. apply (A02_q_clamp_mid 8828852634372255 140737488355328 8828852634372255 140737488355328); vm_compute; reflexivity. Qed.
Lemma d_A02_70c : close ctol (3800305037018511 / 35184372088832) (clamp A02_lo A02_hi (3800305037018511 / 35184372088832)).
Proof. apply (A02_q_clamp_mid 3800305037018511 35184372088832 3800305037018511 35184372088832); vm_compute; reflexivity. Qed.
Lemma d_A02_78c : close ctol (45 / 2) (clamp A02_lo A02_hi ((-5841192612802681) / 562949953421312)).
Proof. apply (A02_q_clamp_lo (-5841192612802681) 562949953421312 45 2); vm_compute; reflexivity. Qed.
Lemma d_A02_86c : close ctol (1762040374100945 / 35184372088832) (clamp A02_lo A02_hi (1762040374100945 / 35184372088832)).
Proof. apply (A02_q_clamp_mid 1762040374100945 35184372088832 1762040374100945 35184372088832); vm_compute; reflexivity. Qed.
Lemma d_A02_94c : close ctol (45 / 2) (clamp A02_lo A02_hi (1267303346696013 / 70368744177664)).
Proof. apply (A02_q_clamp_lo 1267303346696013 70368744177664 45 2); vm_compute; reflexivity. Qed.
Lemma d_A02_102c : close ctol (585633174358021 / 8796093022208) (clamp A02_lo A02_hi (585633174358021 / 8796093022208)).
Proof. apply (A02_q_clamp_mid 585633174358021 8796093022208 585633174358021 8796093022208); vm_compute; reflexivity. Qed.
Lemma d_A02_110c : close ctol (1067357703835131 / 8796093022208) (clamp A02_lo A02_hi (8538861630681047 / 70368744177664)).
Proof. apply (A02_q_clamp_mid 8538861630681047 70368744177664 1067357703835131 8796093022208); vm_compute; reflexivity. Qed.
Lemma d_A02_118c : close ctol (6877451445058875 / 281474976710656) (clamp A02_lo A02_hi (6877451445058875 / 281474976710656)).
Proof. apply (A02_q_clamp_mid 6877451445058875 281474976710656 6877451445058875 281474976710656); vm_compute; reflexivity. Qed.
Lemma d_A02_126c : close ctol (646304728679759 / 8796093022208) (clamp A02_lo A02_hi (646304728679759 / 8796093022208)).
Proof. apply (A02_q_clamp_mid 646304728679759 8796093022208 646304728679759 8796093022208); vm_compute; reflexivity. Qed.
Lemma d_A02_134c : close ctol (3310677252655705 / 35184372088832) (clamp A02_lo A02_hi (3310677252655705 / 35184372088832)).
Proof. apply (A02_q_clamp_mid 3310677252655705 35184372088832 3310677252655705 35184372088832); vm_compute; reflexivity. Qed.
Lemma d_A02_142c : close ctol (45 / 2) (clamp A02_lo A02_hi (4371788666583053 / 281474976710656)).
Proof. apply (A02_q_clamp_lo 4371788666583053 281474976710656 45 2); vm_compute; reflexivity. Qed.
Lemma d_A02_150c : close ctol (1813134673521081 / 17592186044416) (clamp A02_lo A02_hi (1813134673521081 / 17592186044416)).
Proof. apply (A02_q_clamp_mid 1813134673521081 17592186044416 1813134673521081 17592186044416); vm_compute; reflexivity. Qed.
Lemma d_A02_158c : close ctol (145 / 1) (clamp A02_lo A02_hi (203 / 1)).
Proof. apply (A02_q_clamp_hi 203 1 145 1); vm_compute; reflexivity. Qed.
Lemma d_A02_166c : close ctol (2296180966369343 / 35184372088832) (clamp A02_lo A02_hi (2296180966369343 / 35184372088832)).
Proof. apply (A02_q_clamp_mid 2296180966369343 35184372088832 2296180966369343 35184372088832); vm_compute; reflexivity. Qed.
Lemma d_A02_174c : close ctol (907908191928679 / 35184372088832) (clamp A02_lo A02_hi (907908191928679 / 35184372088832)).
Proof. apply (A02_q_clamp_mid 907908191928679 35184372088832 907908191928679 35184372088832); vm_compute; reflexivity. Qed.
Lemma d_A02_182c : close ctol (45 / 2) (clamp A02_lo A02_hi (4464529606316745 / 281474976710656)).
Proof. apply (A02_q_clamp_lo 4464529606316745 281474976710656 45 2); vm_compute; reflexivity. Qed.
Lemma d_A02_190c : close ctol (3464812116533627 / 70368744177664) (clamp A02_lo A02_hi (3464812116533627 / 70368744177664)).
Proof. apply (A02_q_clamp_mid 3464812116533627 70368744177664 3464812116533627 70368744177664); vm_compute; reflexivity. Qed.
Lemma d_A02_198c : close ctol (1128133937586413 / 35184372088832) (clamp A02_lo A02_hi (1128133937586413 / 35184372088832)).
Proof. apply (A02_q_clamp_mid 1128133937586413 35184372088832 1128133937586413 35184372088832); vm_compute; reflexivity. Qed.
Lemma d_A02_206c : close ctol (45 / 2) (clamp A02_lo A02_hi (1575986788864043 / 70368744177664)).
Proof. apply (A02_q_clamp_lo 1575986788864043 70368744177664 45 2); vm_compute; reflexivity. Qed.
Lemma d_A02_214c : close ctol (2776423116325511 / 35184372088832) (clamp A02_lo A02_hi (2776423116325511 / 35184372088832)).
Proof. apply (A02_q_clamp_mid 2776423116325511 35184372088832 2776423116325511 35184372088832); vm_compute; reflexivity. Qed.
Lemma d_A02_222c : close ctol (2896525882735257 / 70368744177664) (clamp A02_lo A02_hi (2896525882735257 / 70368744177664)).
Proof. apply (A02_q_clamp_mid 2896525882735257 70368744177664 2896525882735257 70368744177664); vm_compute; reflexivity. Qed.
Lemma d_A02_230c : close ctol (45 / 2) (clamp A02_lo A02_hi (2654849611188359 / 140737488355328)).
Proof. apply (A02_q_clamp_lo 2654849611188359 140737488355328 45 2); vm_compute; reflexivity. Qed.
Lemma d_A02_238c : close ctol (145 / 1) (clamp A02_lo A02_hi (5752243969754217 / 35184372088832)).
Proof. apply (A02_q_clamp_hi 5752243969754217 35184372088832 145 1); vm_compute; reflexivity. Qed.
Lemma d_A02_246c : close ctol (145 / 1) (clamp A02_lo A02_hi (1569137927582095 / 8796093022208)).
Proof. apply (A02_q_clamp_hi 1569137927582095 8796093022208 145 1); vm_compute; reflexivity. Qed.
Lemma d_A02_254c : close ctol (7172155781045917 / 70368744177664) (clamp A02_lo A02_hi (1793038945261479 / 17592186044416)).
Proof. apply (A02_q_clamp_mid 1793038945261479 17592186044416 7172155781045917 70368744177664); vm_compute; reflexivity. Qed.
Lemma d_A02_262c : close ctol (2524324634081087 / 17592186044416) (clamp A02_lo A02_hi (2524324634081087 / 17592186044416)).
Proof. apply (A02_q_clamp_mid 2524324634081087 17592186044416 2524324634081087 17592186044416); vm_compute; reflexivity. Qed.
Lemma d_A02_270c : close ctol (1305297019576917 / 35184372088832) (clamp A02_lo A02_hi (1305297019576917 / 35184372088832)).
Proof. apply (A02_q_clamp_mid 1305297019576917 35184372088832 1305297019576917 35184372088832); vm_compute; reflexivity. Qed.
Lemma d_A02_278c : close ctol (145 / 1) (clamp A02_lo A02_hi (283 / 1)).
Proof. apply (A02_q_clamp_hi 283 1 145 1); vm_compute; reflexivity. Qed.
Lemma d_A02_286c : close ctol (145 / 1) (clamp A02_lo A02_hi (3239010655950263 / 17592186044416)).
Proof. apply (A02_q_clamp_hi 3239010655950263 17592186044416 145 1); vm_compute; reflexivity. Qed.
Lemma d_A02_294c : close ctol (145 / 1) (clamp A02_lo A02_hi (3909798097648385 / 17592186044416)).
Proof. apply (A02_q_clamp_hi 3909798097648385 17592186044416 145 1); vm_compute; reflexivity. Qed.
Lemma d_A02_302c : close ctol (3961981456196947 / 35184372088832) (clamp A02_lo A02_hi (3961981456196947 / 35184372088832)).
Proof. apply (A02_q_clamp_mid 3961981456196947 35184372088832 3961981456196947 35184372088832); vm_compute; reflexivity. Qed.
Lemma d_A02_310c : close ctol (8390068335666717 / 140737488355328) (clamp A02_lo A02_hi (8390068335666717 / 140737488355328)).
Proof. apply (A02_q_clamp_mid 8390068335666717 140737488355328 8390068335666717 140737488355328); vm_compute; reflexivity. Qed.
Lemma d_A02_318c : close ctol (145 / 1) (clamp A02_lo A02_hi (2177097893858663 / 8796093022208)).
Proof. apply (A02_q_clamp_hi 2177097893858663 8796093022208 145 1); vm_compute; reflexivity. Qed.
Lemma d_A02_326c : close ctol (8944476825082879 / 140737488355328) (clamp A02_lo A02_hi (4472238412541439 / 70368744177664)).
Proof. apply (A02_q_clamp_mid 4472238412541439 70368744177664 8944476825082879 140737488355328); vm_compute; reflexivity. Qed.
Lemma d_A02_334c : close ctol (4937460843521821 / 35184372088832) (clamp A02_lo A02_hi (4937460843521821 / 35184372088832)).
Proof. apply (A02_q_clamp_mid 4937460843521821 35184372088832 4937460843521821 35184372088832); vm_compute; reflexivity. Qed.
Lemma d_A02_342c : close ctol (6247381133438995 / 70368744177664) (clamp A02_lo A02_hi (6247381133438995 / 70368744177664)).
Proof. apply (A02_q_clamp_mid 6247381133438995 70368744177664 6247381133438995 70368744177664); vm_compute; reflexivity. Qed.
Lemma d_A02_350c : close ctol (45 / 2) (clamp A02_lo A02_hi (2358474700623827 / 281474976710656)).
Proof. apply (A02_q_clamp_lo 2358474700623827 281474976710656 45 2); vm_compute; reflexivity. Qed.
Lemma d_A02_358c : close ctol (145 / 1) (clamp A02_lo A02_hi (2252053970360161 / 549755813888)).
Proof. apply (A02_q_clamp_hi 2252053970360161 549755813888 145 1); vm_compute; reflexivity. Qed.
Lemma d_A02_366c : close ctol (45 / 2) (clamp A02_lo A02_hi (194958504446303 / 281474976710656)).
Proof. apply (A02_q_clamp_lo 194958504446303 281474976710656 45 2); vm_compute; reflexivity. Qed.
Lemma d_A02_374c : close ctol (2616142766194269 / 35184372088832) (clamp A02_lo A02_hi (2616142766194269 / 35184372088832)).
Proof. apply (A02_q_clamp_mid 2616142766194269 35184372088832 2616142766194269 35184372088832); vm_compute; reflexivity. Qed.
Lemma d_A02_382c : close ctol (4560928535216555 / 35184372088832) (clamp A02_lo A02_hi (2280464267608277 / 17592186044416)).
Proof. apply (A02_q_clamp_mid 2280464267608277 17592186044416 4560928535216555 35184372088832); vm_compute; reflexivity. Qed.
Lemma d_A02_390c : close ctol (1184973338067049 / 8796093022208) (clamp A02_lo A02_hi (1184973338067049 / 8796093022208)).
Proof. apply (A02_q_clamp_mid 1184973338067049 8796093022208 1184973338067049 8796093022208); vm_compute; reflexivity. Qed.
Lemma d_A02_398c : close ctol (3219789160594671 / 70368744177664) (clamp A02_lo A02_hi (3219789160594671 / 70368744177664)).
Proof. apply (A02_q_clamp_mid 3219789160594671 70368744177664 3219789160594671 70368744177664); vm_compute; reflexivity. Qed.
Lemma d_A02_406c : close ctol (1611920445499057 / 35184372088832) (clamp A02_lo A02_hi (1611920445499057 / 35184372088832)).
Proof. apply (A02_q_clamp_mid 1611920445499057 35184372088832 1611920445499057 35184372088832); vm_compute; reflexivity. Qed.
Lemma d_A02_414c : close ctol (7657857271608223 / 70368744177664) (clamp A02_lo A02_hi (3828928635804111 / 35184372088832)).
Proof. apply (A02_q_clamp_mid 3828928635804111 35184372088832 7657857271608223 70368744177664); vm_compute; reflexivity. Qed.
Lemma d_A02_422c : close ctol (3004040216580547 / 70368744177664) (clamp A02_lo A02_hi (3004040216580547 / 70368744177664)).
Proof. apply (A02_q_clamp_mid 3004040216580547 70368744177664 3004040216580547 70368744177664); vm_compute; reflexivity. Qed.
Lemma d_A02_430c : close ctol (298652474317237 / 8796093022208) (clamp A02_lo A02_hi (298652474317237 / 8796093022208)).
Proof. apply (A02_q_clamp_mid 298652474317237 8796093022208 298652474317237 8796093022208); vm_compute; reflexivity. Qed.
Lemma d_A02_438c : close ctol (8357765375592051 / 140737488355328) (clamp A02_lo A02_hi (8357765375592051 / 140737488355328)).
Proof. apply (A02_q_clamp_mid 8357765375592051 140737488355328 8357765375592051 140737488355328); vm_compute; reflexivity. Qed.
Lemma d_A02_446c : close ctol (45 / 2) (clamp A02_lo A02_hi (2640954368662893 / 140737488355328)).
Proof. apply (A02_q_clamp_lo 2640954368662893 140737488355328 45 2); vm_compute; reflexivity. Qed.
Lemma d_A02_454c : close ctol (3384267142597167 / 70368744177664) (clamp A02_lo A02_hi (3384267142597167 / 70368744177664)).
Proof. apply (A02_q_clamp_mid 3384267142597167 70368744177664 3384267142597167 70368744177664); vm_compute; reflexivity. Qed.
Lemma d_A02_462c : close ctol (4110314732162397 / 70368744177664) (clamp A02_lo A02_hi (4110314732162397 / 70368744177664)).
Proof. apply (A02_q_clamp_mid 4110314732162397 70368744177664 4110314732162397 70368744177664); vm_compute; reflexivity. Qed.
Lemma d_A02_470c : close ctol (3943527676391395 / 35184372088832) (clamp A02_lo A02_hi (7887055352782791 / 70368744177664)).
Proof. apply (A02_q_clamp_mid 7887055352782791 70368744177664 3943527676391395 35184372088832); vm_compute; reflexivity. Qed.
Lemma d_A02_478c : close ctol (5877968793371255 / 140737488355328) (clamp A02_lo A02_hi (5877968793371255 / 140737488355328)).
Proof. apply (A02_q_clamp_mid 5877968793371255 140737488355328 5877968793371255 140737488355328); vm_compute; reflexivity. Qed.
Lemma d_A02_486c : close ctol (6242884844205081 / 140737488355328) (clamp A02_lo A02_hi (6242884844205081 / 140737488355328)).
Proof. apply (A02_q_clamp_mid 6242884844205081 140737488355328 6242884844205081 140737488355328); vm_compute; reflexivity. Qed.
Lemma d_A02_494c : close ctol (4473732887245185 / 35184372088832) (clamp A02_lo A02_hi (8947465774490371 / 70368744177664)).
Proof. apply (A02_q_clamp_mid 8947465774490371 70368744177664 4473732887245185 35184372088832); vm_compute; reflexivity. Qed.
Lemma d_A02_502c : close ctol (1127488092360745 / 8796093022208) (clamp A02_lo A02_hi (1127488092360745 / 8796093022208)).
Proof. apply (A02_q_clamp_mid 1127488092360745 8796093022208 1127488092360745 8796093022208); vm_compute; reflexivity. Qed.
Lemma d_A02_510c : close ctol (5634369080247575 / 140737488355328) (clamp A02_lo A02_hi (5634369080247575 / 140737488355328)).
Proof. apply (A02_q_clamp_mid 5634369080247575 140737488355328 5634369080247575 140737488355328); vm_compute; reflexivity. Qed.
Lemma d_A02_518c : close ctol (45 / 2) (clamp A02_lo A02_hi ((-2064536700811787) / 562949953421312)).
Proof. apply (A02_q_clamp_lo (-2064536700811787) 562949953421312 45 2); vm_compute; reflexivity. Qed.
Lemma d_A02_526c : close ctol (1830835713754179 / 17592186044416) (clamp A02_lo A02_hi (7323342855016715 / 70368744177664)).
Proof. apply (A02_q_clamp_mid 7323342855016715 70368744177664 1830835713754179 17592186044416); vm_compute; reflexivity. Qed.
Lemma d_A02_534c : close ctol (1338375599410315 / 17592186044416) (clamp A02_lo A02_hi (1338375599410315 / 17592186044416)).
Proof. apply (A02_q_clamp_mid 1338375599410315 17592186044416 1338375599410315 17592186044416); vm_compute; reflexivity. Qed.
Lemma d_A02_542c : close ctol (45 / 2) (clamp A02_lo A02_hi ((-521125755011247) / 70368744177664)).
Proof. apply (A02_q_clamp_lo (-521125755011247) 70368744177664 45 2); vm_compute; reflexivity. Qed.
Lemma d_A02_550c : close ctol (3492941497768405 / 70368744177664) (clamp A02_lo A02_hi (3492941497768405 / 70368744177664)).
Proof. apply (A02_q_clamp_mid 3492941497768405 70368744177664 3492941497768405 70368744177664); vm_compute; reflexivity. Qed.
Lemma d_A02_558c : close ctol (1770782088166203 / 35184372088832) (clamp A02_lo A02_hi (1770782088166203 / 35184372088832)).
Proof. apply (A02_q_clamp_mid 1770782088166203 35184372088832 1770782088166203 35184372088832); vm_compute; reflexivity. Qed.
Lemma d_A02_566c : close ctol (45 / 2) (clamp A02_lo A02_hi (3368577236192559 / 281474976710656)).
Proof. apply (A02_q_clamp_lo 3368577236192559 281474976710656 45 2); vm_compute; reflexivity. Qed.
Lemma d_A02_574c : close ctol (1353836502462297 / 35184372088832) (clamp A02_lo A02_hi (1353836502462297 / 35184372088832)).
Proof. apply (A02_q_clamp_mid 1353836502462297 35184372088832 1353836502462297 35184372088832); vm_compute; reflexivity. Qed.
Lemma d_A02_582c : close ctol (145 / 1) (clamp A02_lo A02_hi (5668572028603665 / 17592186044416)).
Proof. apply (A02_q_clamp_hi 5668572028603665 17592186044416 145 1); vm_compute; reflexivity. Qed.
Lemma d_A02_590c : close ctol (1753516423917121 / 35184372088832) (clamp A02_lo A02_hi (1753516423917121 / 35184372088832)).
Proof. apply (A02_q_clamp_mid 1753516423917121 35184372088832 1753516423917121 35184372088832); vm_compute; reflexivity. Qed.
Lemma d_A02_598c : close ctol (145 / 1) (clamp A02_lo A02_hi (201 / 1)).
Proof. apply (A02_q_clamp_hi 201 1 145 1); vm_compute; reflexivity. Qed.
Lemma d_A02_606c : close ctol (45 / 2) (clamp A02_lo A02_hi ((-6306881802065799) / 1125899906842624)).
Proof. apply (A02_q_clamp_lo (-6306881802065799) 1125899906842624 45 2); vm_compute; reflexivity. Qed.
Lemma d_A02_614c : close ctol (1461997058948843 / 17592186044416) (clamp A02_lo A02_hi (1461997058948843 / 17592186044416)).
Proof. apply (A02_q_clamp_mid 1461997058948843 17592186044416 1461997058948843 17592186044416); vm_compute; reflexivity. Qed.
Lemma d_A02_622c : close ctol (673549154732013 / 8796093022208) (clamp A02_lo A02_hi (673549154732013 / 8796093022208)).
Proof. apply (A02_q_clamp_mid 673549154732013 8796093022208 673549154732013 8796093022208); vm_compute; reflexivity. Qed.
Lemma d_A02_630c : close ctol (2927150880519075 / 35184372088832) (clamp A02_lo A02_hi (2927150880519075 / 35184372088832)).
Proof. apply (A02_q_clamp_mid 2927150880519075 35184372088832 2927150880519075 35184372088832); vm_compute; reflexivity. Qed.
Lemma d_A02_638c : close ctol (8426203386033191 / 70368744177664) (clamp A02_lo A02_hi (8426203386033191 / 70368744177664)).
Proof. apply (A02_q_clamp_mid 8426203386033191 70368744177664 8426203386033191 70368744177664); vm_compute; reflexivity. Qed.
Lemma d_A02_646c : close ctol (145 / 1) (clamp A02_lo A02_hi (6678881627131817 / 17592186044416)).
Proof. apply (A02_q_clamp_hi 6678881627131817 17592186044416 145 1); vm_compute; reflexivity. Qed.
Lemma d_A02_654c : close ctol (193536179899621 / 2199023255552) (clamp A02_lo A02_hi (6193157756787871 / 70368744177664)).
Proof. apply (A02_q_clamp_mid 6193157756787871 70368744177664 193536179899621 2199023255552); vm_compute; reflexivity. Qed.
Lemma d_A02_662c : close ctol (8654103821963625 / 70368744177664) (clamp A02_lo A02_hi (8654103821963625 / 70368744177664)).
Proof. apply (A02_q_clamp_mid 8654103821963625 70368744177664 8654103821963625 70368744177664); vm_compute; reflexivity. Qed.
Lemma r_A21_437 : rio_reads A21_c A21_e A21_lo A21_hi floor_volts ctol (Build_rio (Fin ((-5) / 1)) (Fin (0 / 1)) (Fin (3715469692580659 / 1125899906842624)) (Fin (6 / 1)) (Fin (12 / 1)) true true true ((Fin (0 / 1)) :: (Fin (0 / 1)) :: (Fin (0 / 1)) :: (Fin (0 / 1)) :: (Fin (27 / 4)) :: (Fin (45 / 1)) :: nil)) (5749786070656609 / 281474976710656).
Proof. apply (A21_rio_fin _ ((-5) / 1)); [reflexivity | apply (A21_q_floor (-5) 1 5749786070656609 281474976710656); vm_compute; reflexivity]. Qed.
Lemma r_A21_821 : rio_reads A21_c A21_e A21_lo A21_hi floor_volts ctol (Build_rio (Fin (7406876466210601 / 9444732965739290427392)) (Fin (4801 / 1024)) (Fin (100000000000000001097906362944045541740492309677311846336810682903157585404911491537163328978494688899061249669721172515611590283743140088328307009198146046031271664502933027185697489699588559043338384466165001178426897626212945177628091195786707458122783970171784415105291802893207873272974885715430223118336 / 1)) (Fin (8973 / 1024)) (Fin (0 / 1)) true false false ((Fin (847 / 512)) :: (Fin (955 / 512)) :: (Fin (225 / 256)) :: (Fin (8591 / 64)) :: (Fin (9167 / 1024)) :: (Fin (21951 / 1024)) :: nil)) (80 / 1).
Proof. apply (A21_rio_fin _ (7406876466210601 / 9444732965739290427392)); [reflexivity | apply (A21_q_floor 7406876466210601 9444732965739290427392 80 1); vm_compute; reflexivity]. Qed.
Lemma d_A21_672c : close ctol (80 / 1) (clamp A21_lo A21_hi (100 / 1)).
Proof. apply (A21_q_clamp_hi 100 1 80 1); vm_compute; reflexivity. Qed.
Lemma d_A21_680c : close ctol (80 / 1) (clamp A21_lo A21_hi (150 / 1)).
Proof. apply (A21_q_clamp_hi 150 1 80 1); vm_compute; reflexivity. Qed.
Lemma d_A21_688c : close ctol (10 / 1) (clamp A21_lo A21_hi ((-1) / 1)).
Proof. apply (A21_q_clamp_lo (-1) 1 10 1); vm_compute; reflexivity. Qed.
Lemma d_A21_696c : close ctol (10 / 1) (clamp A21_lo A21_hi (10 / 1)).
Proof. apply (A21_q_clamp_lo 10 1 10 1); vm_compute; reflexivity. Qed.
Lemma d_A21_704c : close ctol (80 / 1) (clamp A21_lo A21_hi (1000000 / 1)).
Proof. apply (A21_q_clamp_hi 1000000 1 80 1); vm_compute; reflexivity. Qed.
Lemma d_A21_713c : close ctol (5629499534213119 / 70368744177664) (clamp A21_lo A21_hi (5629499534213119 / 70368744177664)).
Proof. apply (A21_q_clamp_mid 5629499534213119 70368744177664 5629499534213119 70368744177664); vm_compute; reflexivity. Qed.
Lemma d_A21_721c : close ctol (10 / 1) (clamp A21_lo A21_hi (10 / 1)).
Proof. apply (A21_q_clamp_lo 10 1 10 1); vm_compute; reflexivity. Qed.
Lemma d_A21_729c : close ctol (4646374270017 / 274877906944) (clamp A21_lo A21_hi (4646374270017 / 274877906944)).
Proof. apply (A21_q_clamp_mid 4646374270017 274877906944 4646374270017 274877906944); vm_compute; reflexivity. Qed.
Lemma d_A21_737c : close ctol (1525158231411369 / 70368744177664) (clamp A21_lo A21_hi (1525158231411369 / 70368744177664)).
Proof. apply (A21_q_clamp_mid 1525158231411369 70368744177664 1525158231411369 70368744177664); vm_compute; reflexivity. Qed.
Lemma d_A21_745c : close ctol (7061674678370143 / 140737488355328) (clamp A21_lo A21_hi (3530837339185071 / 70368744177664)).
Proof. apply (A21_q_clamp_mid 3530837339185071 70368744177664 7061674678370143 140737488355328); vm_compute; reflexivity. Qed.
Lemma d_A21_753c : close ctol (528392243278435 / 8796093022208) (clamp A21_lo A21_hi (8454275892454961 / 140737488355328)).
Proof. apply (A21_q_clamp_mid 8454275892454961 140737488355328 528392243278435 8796093022208); vm_compute; reflexivity. Qed.
Lemma d_A21_761c : close ctol (621093396171889 / 8796093022208) (clamp A21_lo A21_hi (621093396171889 / 8796093022208)).
Proof. apply (A21_q_clamp_mid 621093396171889 8796093022208 621093396171889 8796093022208); vm_compute; reflexivity. Qed.
Lemma d_A21_769c : close ctol (2598048385573121 / 35184372088832) (clamp A21_lo A21_hi (5196096771146241 / 70368744177664)).
Proof. apply (A21_q_clamp_mid 5196096771146241 70368744177664 2598048385573121 35184372088832); vm_compute; reflexivity. Qed.
Lemma d_A21_777c : close ctol (7720322830627999 / 140737488355328) (clamp A21_lo A21_hi (7720322830627997 / 140737488355328)).
Proof. apply (A21_q_clamp_mid 7720322830627997 140737488355328 7720322830627999 140737488355328); vm_compute; reflexivity. Qed.
Lemma d_A21_785c : close ctol (4619678197807663 / 70368744177664) (clamp A21_lo A21_hi (4619678197807663 / 70368744177664)).
Proof. apply (A21_q_clamp_mid 4619678197807663 70368744177664 4619678197807663 70368744177664); vm_compute; reflexivity. Qed.
Lemma d_A21_793c : close ctol (5511513794403163 / 140737488355328) (clamp A21_lo A21_hi (2755756897201581 / 70368744177664)).
Proof. apply (A21_q_clamp_mid 2755756897201581 70368744177664 5511513794403163 140737488355328); vm_compute; reflexivity. Qed.
Lemma d_A21_801c : close ctol (5935775677285255 / 140737488355328) (clamp A21_lo A21_hi (5935775677285255 / 140737488355328)).
Proof. apply (A21_q_clamp_mid 5935775677285255 140737488355328 5935775677285255 140737488355328); vm_compute; reflexivity. Qed.
Lemma d_A21_809c : close ctol (10 / 1) (clamp A21_lo A21_hi (5063038441788415 / 562949953421312)).
Proof. apply (A21_q_clamp_lo 5063038441788415 562949953421312 10 1); vm_compute; reflexivity. Qed.
Lemma d_A21_817c : close ctol (2438689452546753 / 35184372088832) (clamp A21_lo A21_hi (2438689452546753 / 35184372088832)).
Proof. apply (A21_q_clamp_mid 2438689452546753 35184372088832 2438689452546753 35184372088832); vm_compute; reflexivity. Qed.
Lemma d_A21_825c : close ctol (1342286788059761 / 17592186044416) (clamp A21_lo A21_hi (1342286788059761 / 17592186044416)).
Proof. apply (A21_q_clamp_mid 1342286788059761 17592186044416 1342286788059761 17592186044416); vm_compute; reflexivity. Qed.
Lemma d_A21_833c : close ctol (10 / 1) (clamp A21_lo A21_hi (3250530590406925 / 1125899906842624)).
Proof. apply (A21_q_clamp_lo 3250530590406925 1125899906842624 10 1); vm_compute; reflexivity. Qed.
Lemma d_A21_841c : close ctol (57 / 1) (clamp A21_lo A21_hi (57 / 1)).
Proof. apply (A21_q_clamp_mid 57 1 57 1); vm_compute; reflexivity. Qed.
Lemma d_A21_849c : close ctol (8553429519455665 / 140737488355328) (clamp A21_lo A21_hi (8553429519455665 / 140737488355328)).
Proof. apply (A21_q_clamp_mid 8553429519455665 140737488355328 8553429519455665 140737488355328); vm_compute; reflexivity. Qed.
Lemma d_A21_857c : close ctol (8989357174462645 / 281474976710656) (clamp A21_lo A21_hi (2247339293615661 / 70368744177664)).
Proof. apply (A21_q_clamp_mid 2247339293615661 70368744177664 8989357174462645 281474976710656); vm_compute; reflexivity. Qed.
Lemma d_A21_865c : close ctol (4726749736695291 / 70368744177664) (clamp A21_lo A21_hi (4726749736695291 / 70368744177664)).
Proof. apply (A21_q_clamp_mid 4726749736695291 70368744177664 4726749736695291 70368744177664); vm_compute; reflexivity. Qed.
Lemma d_A21_873c : close ctol (10 / 1) (clamp A21_lo A21_hi (6876860571694309 / 4503599627370496)).
Proof. apply (A21_q_clamp_lo 6876860571694309 4503599627370496 10 1); vm_compute; reflexivity. Qed.
Lemma d_A21_881c : close ctol (3943211508346049 / 70368744177664) (clamp A21_lo A21_hi (3943211508346049 / 70368744177664)).
Proof. apply (A21_q_clamp_mid 3943211508346049 70368744177664 3943211508346049 70368744177664); vm_compute; reflexivity. Qed.
Lemma d_A21_889c : close ctol (10 / 1) (clamp A21_lo A21_hi (7559914343929645 / 576460752303423488)).
Proof. apply (A21_q_clamp_lo 7559914343929645 576460752303423488 10 1); vm_compute; reflexivity. Qed.
Lemma d_A21_897c : close ctol (10 / 1) (clamp A21_lo A21_hi (3174973253048301 / 562949953421312)).
Proof. apply (A21_q_clamp_lo 3174973253048301 562949953421312 10 1); vm_compute; reflexivity. Qed.
Lemma d_A21_905c : close ctol (80 / 1) (clamp A21_lo A21_hi (5328878837149031 / 35184372088832)).
Proof. apply (A21_q_clamp_hi 5328878837149031 35184372088832 80 1); vm_compute; reflexivity. Qed.
Lemma d_A21_913c : close ctol (10 / 1) (clamp A21_lo A21_hi (6128023599541429 / 9007199254740992)).
Proof. apply (A21_q_clamp_lo 6128023599541429 9007199254740992 10 1); vm_compute; reflexivity. Qed.
Lemma d_A21_921c : close ctol (253722960562389 / 17592186044416) (clamp A21_lo A21_hi (253722960562389 / 17592186044416)).
Proof. apply (A21_q_clamp_mid 253722960562389 17592186044416 253722960562389 17592186044416); vm_compute; reflexivity. Qed.
Lemma d_A21_929c : close ctol (2582818974277779 / 70368744177664) (clamp A21_lo A21_hi (2582818974277779 / 70368744177664)).
Proof. apply (A21_q_clamp_mid 2582818974277779 70368744177664 2582818974277779 70368744177664); vm_compute; reflexivity. Qed.
Lemma d_A21_937c : close ctol (3077502456926909 / 70368744177664) (clamp A21_lo A21_hi (3077502456926909 / 70368744177664)).
Proof. apply (A21_q_clamp_mid 3077502456926909 70368744177664 3077502456926909 70368744177664); vm_compute; reflexivity. Qed.
Lemma d_A21_945c : close ctol (7868935190651477 / 281474976710656) (clamp A21_lo A21_hi (7868935190651477 / 281474976710656)).
Proof. apply (A21_q_clamp_mid 7868935190651477 281474976710656 7868935190651477 281474976710656); vm_compute; reflexivity. Qed.
Lemma d_A21_953c : close ctol (10 / 1) (clamp A21_lo A21_hi (395497995311989 / 140737488355328)).
Proof. apply (A21_q_clamp_lo 395497995311989 140737488355328 10 1); vm_compute; reflexivity. Qed.
Lemma d_A21_961c : close ctol (4940261279017915 / 70368744177664) (clamp A21_lo A21_hi (2470130639508957 / 35184372088832)).
Proof. apply (A21_q_clamp_mid 2470130639508957 35184372088832 4940261279017915 70368744177664); vm_compute; reflexivity. Qed.
Lemma d_A21_969c : close ctol (1902020630913381 / 35184372088832) (clamp A21_lo A21_hi (3804041261826761 / 70368744177664)).
Proof. apply (A21_q_clamp_mid 3804041261826761 70368744177664 1902020630913381 35184372088832); vm_compute; reflexivity. Qed.
Lemma d_A21_977c : close ctol (7357375501539357 / 140737488355328) (clamp A21_lo A21_hi (7357375501539357 / 140737488355328)).
Proof. apply (A21_q_clamp_mid 7357375501539357 140737488355328 7357375501539357 140737488355328); vm_compute; reflexivity. Qed.
Lemma d_A21_985c : close ctol (10 / 1) (clamp A21_lo A21_hi ((-1959091685223537) / 562949953421312)).
Proof. apply (A21_q_clamp_lo (-1959091685223537) 562949953421312 10 1); vm_compute; reflexivity. Qed.
Lemma d_A21_993c : close ctol (80 / 1) (clamp A21_lo A21_hi (7170606840554563 / 35184372088832)).
Proof. apply (A21_q_clamp_hi 7170606840554563 35184372088832 80 1); vm_compute; reflexivity. Qed.
Lemma d_A21_1001c : close ctol (4502733185582595 / 70368744177664) (clamp A21_lo A21_hi (9005466371165189 / 140737488355328)).
Proof. apply (A21_q_clamp_mid 9005466371165189 140737488355328 4502733185582595 70368744177664); vm_compute; reflexivity. Qed.
Lemma d_A21_1009c : close ctol (80 / 1) (clamp A21_lo A21_hi (117 / 1)).
Proof. apply (A21_q_clamp_hi 117 1 80 1); vm_compute; reflexivity. Qed.
Lemma d_A21_1017c : close ctol (2721319471446511 / 35184372088832) (clamp A21_lo A21_hi (2721319471446511 / 35184372088832)).
Proof. apply (A21_q_clamp_mid 2721319471446511 35184372088832 2721319471446511 35184372088832); vm_compute; reflexivity. Qed.
Lemma d_A21_1025c : close ctol (8745260835813359 / 140737488355328) (clamp A21_lo A21_hi (4372630417906679 / 70368744177664)).
Proof. apply (A21_q_clamp_mid 4372630417906679 70368744177664 8745260835813359 140737488355328); vm_compute; reflexivity. Qed.
Lemma d_A21_1033c : close ctol (5188223078344181 / 70368744177664) (clamp A21_lo A21_hi (1297055769586045 / 17592186044416)).
Proof. apply (A21_q_clamp_mid 1297055769586045 17592186044416 5188223078344181 70368744177664); vm_compute; reflexivity. Qed.
Lemma d_A21_1041c : close ctol (2403594005990779 / 70368744177664) (clamp A21_lo A21_hi (2403594005990779 / 70368744177664)).
Proof. apply (A21_q_clamp_mid 2403594005990779 70368744177664 2403594005990779 70368744177664); vm_compute; reflexivity. Qed.
Lemma d_A21_1049c : close ctol (5524694093059221 / 70368744177664) (clamp A21_lo A21_hi (5524694093059221 / 70368744177664)).
Proof. apply (A21_q_clamp_mid 5524694093059221 70368744177664 5524694093059221 70368744177664); vm_compute; reflexivity. Qed.
Lemma d_A21_1057c : close ctol (1340683274784627 / 35184372088832) (clamp A21_lo A21_hi (1340683274784627 / 35184372088832)).
Proof. apply (A21_q_clamp_mid 1340683274784627 35184372088832 1340683274784627 35184372088832); vm_compute; reflexivity. Qed.
Lemma d_A21_1065c : close ctol (1210998915405333 / 17592186044416) (clamp A21_lo A21_hi (1210998915405333 / 17592186044416)).
Proof. apply (A21_q_clamp_mid 1210998915405333 17592186044416 1210998915405333 17592186044416); vm_compute; reflexivity. Qed.
Lemma d_A21_1073c : close ctol (10 / 1) (clamp A21_lo A21_hi (1076005550198161 / 140737488355328)).
Proof. apply (A21_q_clamp_lo 1076005550198161 140737488355328 10 1); vm_compute; reflexivity. Qed.
Lemma d_A21_1081c : close ctol (7881299347898369 / 140737488355328) (clamp A21_lo A21_hi (56 / 1)).
Proof. apply (A21_q_clamp_mid 56 1 7881299347898369 140737488355328); vm_compute; reflexivity. Qed.
Lemma d_A21_1089c : close ctol (3683437303474261 / 140737488355328) (clamp A21_lo A21_hi (7366874606948521 / 281474976710656)).
Proof. apply (A21_q_clamp_mid 7366874606948521 281474976710656 3683437303474261 140737488355328); vm_compute; reflexivity. Qed.
Lemma d_A21_1097c : close ctol (5572434915128153 / 70368744177664) (clamp A21_lo A21_hi (696554364391019 / 8796093022208)).
Proof. apply (A21_q_clamp_mid 696554364391019 8796093022208 5572434915128153 70368744177664); vm_compute; reflexivity. Qed.
Lemma d_A21_1105c : close ctol (6620704797705521 / 281474976710656) (clamp A21_lo A21_hi (413794049856595 / 17592186044416)).
Proof. apply (A21_q_clamp_mid 413794049856595 17592186044416 6620704797705521 281474976710656); vm_compute; reflexivity. Qed.
Lemma d_A21_1113c : close ctol (10 / 1) (clamp A21_lo A21_hi (2794433771677021 / 562949953421312)).
Proof. apply (A21_q_clamp_lo 2794433771677021 562949953421312 10 1); vm_compute; reflexivity. Qed.
Lemma d_A21_1121c : close ctol (5271573236816921 / 70368744177664) (clamp A21_lo A21_hi (5271573236816921 / 70368744177664)).
Proof. apply (A21_q_clamp_mid 5271573236816921 70368744177664 5271573236816921 70368744177664); vm_compute; reflexivity. Qed.
Lemma d_A21_1129c : close ctol (8197665320868627 / 140737488355328) (clamp A21_lo A21_hi (8197665320868627 / 140737488355328)).
Proof. apply (A21_q_clamp_mid 8197665320868627 140737488355328 8197665320868627 140737488355328); vm_compute; reflexivity. Qed.
Lemma d_A21_1137c : close ctol (10 / 1) (clamp A21_lo A21_hi (1060517379752297 / 140737488355328)).
Proof. apply (A21_q_clamp_lo 1060517379752297 140737488355328 10 1); vm_compute; reflexivity. Qed.
Lemma d_A21_1145c : close ctol (5394601197157433 / 70368744177664) (clamp A21_lo A21_hi (5394601197157433 / 70368744177664)).
Proof. apply (A21_q_clamp_mid 5394601197157433 70368744177664 5394601197157433 70368744177664); vm_compute; reflexivity. Qed.
Lemma d_A21_1153c : close ctol (10 / 1) (clamp A21_lo A21_hi (1512801218331235 / 281474976710656)).
Proof. apply (A21_q_clamp_lo 1512801218331235 281474976710656 10 1); vm_compute; reflexivity. Qed.
Lemma d_A21_1161c : close ctol (1660116409453049 / 35184372088832) (clamp A21_lo A21_hi (6640465637812195 / 140737488355328)).
Proof. apply (A21_q_clamp_mid 6640465637812195 140737488355328 1660116409453049 35184372088832); vm_compute; reflexivity. Qed.
Lemma d_A21_1169c : close ctol (2546252900621349 / 35184372088832) (clamp A21_lo A21_hi (2546252900621349 / 35184372088832)).
Proof. apply (A21_q_clamp_mid 2546252900621349 35184372088832 2546252900621349 35184372088832); vm_compute; reflexivity. Qed.
Lemma d_A21_1177c : close ctol (7218857554637013 / 281474976710656) (clamp A21_lo A21_hi (1804714388659253 / 70368744177664)).
Proof. apply (A21_q_clamp_mid 1804714388659253 70368744177664 7218857554637013 281474976710656); vm_compute; reflexivity. Qed.
Lemma d_A21_1185c : close ctol (4366048083570487 / 281474976710656) (clamp A21_lo A21_hi (8732096167140975 / 562949953421312)).
Proof. apply (A21_q_clamp_mid 8732096167140975 562949953421312 4366048083570487 281474976710656); vm_compute; reflexivity. Qed.
Lemma d_A21_1193c : close ctol (557540843383061 / 17592186044416) (clamp A21_lo A21_hi (8920653494128975 / 281474976710656)).
Proof. apply (A21_q_clamp_mid 8920653494128975 281474976710656 557540843383061 17592186044416); vm_compute; reflexivity. Qed.
Lemma d_A21_1201c : close ctol (427270242169501 / 35184372088832) (clamp A21_lo A21_hi (6836323874712017 / 562949953421312)).
Proof. apply (A21_q_clamp_mid 6836323874712017 562949953421312 427270242169501 35184372088832); vm_compute; reflexivity. Qed.
Lemma d_A21_1209c : close ctol (1015832277776351 / 70368744177664) (clamp A21_lo A21_hi (8126658222210809 / 562949953421312)).
Proof. apply (A21_q_clamp_mid 8126658222210809 562949953421312 1015832277776351 70368744177664); vm_compute; reflexivity. Qed.
Lemma d_A21_1217c : close ctol (5323040524132497 / 140737488355328) (clamp A21_lo A21_hi (332690032758281 / 8796093022208)).
Proof. apply (A21_q_clamp_mid 332690032758281 8796093022208 5323040524132497 140737488355328); vm_compute; reflexivity. Qed.
Lemma d_A21_1225c : close ctol (335886015383283 / 4398046511104) (clamp A21_lo A21_hi (335886015383283 / 4398046511104)).
Proof. apply (A21_q_clamp_mid 335886015383283 4398046511104 335886015383283 4398046511104); vm_compute; reflexivity. Qed.
Lemma d_A21_1233c : close ctol (8397722686371893 / 562949953421312) (clamp A21_lo A21_hi (4198861343185947 / 281474976710656)).
Proof. apply (A21_q_clamp_mid 4198861343185947 281474976710656 8397722686371893 562949953421312); vm_compute; reflexivity. Qed.
Lemma d_A21_1241c : close ctol (5191322764573153 / 70368744177664) (clamp A21_lo A21_hi (5191322764573153 / 70368744177664)).
Proof. apply (A21_q_clamp_mid 5191322764573153 70368744177664 5191322764573153 70368744177664); vm_compute; reflexivity. Qed.
Lemma d_A21_1249c : close ctol (6405104894433791 / 140737488355328) (clamp A21_lo A21_hi (3202552447216895 / 70368744177664)).
Proof. apply (A21_q_clamp_mid 3202552447216895 70368744177664 6405104894433791 140737488355328); vm_compute; reflexivity. Qed.
Lemma d_A21_1257c : close ctol (80 / 1) (clamp A21_lo A21_hi (7337660275309319 / 35184372088832)).
Proof. apply (A21_q_clamp_hi 7337660275309319 35184372088832 80 1); vm_compute; reflexivity. Qed.
Lemma d_A21_1265c : close ctol (8348449825454567 / 281474976710656) (clamp A21_lo A21_hi (8348449825454567 / 281474976710656)).
Proof. apply (A21_q_clamp_mid 8348449825454567 281474976710656 8348449825454567 281474976710656); vm_compute; reflexivity. Qed.
Lemma d_A21_1273c : close ctol (327837720317323 / 8796093022208) (clamp A21_lo A21_hi (327837720317323 / 8796093022208)).
Proof. apply (A21_q_clamp_mid 327837720317323 8796093022208 327837720317323 8796093022208); vm_compute; reflexivity. Qed.
Lemma d_A21_1281c : close ctol (10 / 1) (clamp A21_lo A21_hi (3029958368567157 / 562949953421312)).
Proof. apply (A21_q_clamp_lo 3029958368567157 562949953421312 10 1); vm_compute; reflexivity. Qed.
Lemma d_A21_1289c : close ctol (10 / 1) (clamp A21_lo A21_hi (1756552551190137 / 562949953421312)).
Proof. apply (A21_q_clamp_lo 1756552551190137 562949953421312 10 1); vm_compute; reflexivity. Qed.
Lemma d_A21_1297c : close ctol (5454282152152183 / 140737488355328) (clamp A21_lo A21_hi (5454282152152183 / 140737488355328)).
Proof. apply (A21_q_clamp_mid 5454282152152183 140737488355328 5454282152152183 140737488355328); vm_compute; reflexivity. Qed.
Lemma d_A21_1305c : close ctol (80 / 1) (clamp A21_lo A21_hi (7080899085613269 / 70368744177664)).
Proof. apply (A21_q_clamp_hi 7080899085613269 70368744177664 80 1); vm_compute; reflexivity. Qed.
Lemma d_A21_1313c : close ctol (9005783902710241 / 140737488355328) (clamp A21_lo A21_hi (4502891951355121 / 70368744177664)).
Proof. apply (A21_q_clamp_mid 4502891951355121 70368744177664 9005783902710241 140737488355328); vm_compute; reflexivity. Qed.
Lemma d_A21_1321c : close ctol (6085636536230265 / 140737488355328) (clamp A21_lo A21_hi (6085636536230265 / 140737488355328)).
Proof. apply (A21_q_clamp_mid 6085636536230265 140737488355328 6085636536230265 140737488355328); vm_compute; reflexivity. Qed.
Lemma d_A21_1329c : close ctol (6055285465335671 / 140737488355328) (clamp A21_lo A21_hi (6055285465335671 / 140737488355328)).
Proof. apply (A21_q_clamp_mid 6055285465335671 140737488355328 6055285465335671 140737488355328); vm_compute; reflexivity. Qed.
Lemma r_A41_863 : rio_reads A41_c A41_e A41_lo A41_hi floor_volts ctol (Build_rio (Fin ((-179769313486231570814527423731704356798070567525844996598917476803157260780028538760589558632766878171540458953514382464234321326889464182768467546703537516986049910576551282076245490090389328944075868508455133942304583236903222948165808559332123348274797826204144723168738177180919299881250404026184124858368) / 1)) (Fin (19 / 4)) (Fin (3715469692580659 / 1125899906842624)) (Fin (6 / 1)) (Fin (12 / 1)) true true true ((Fin (0 / 1)) :: (Fin (0 / 1)) :: (Fin (0 / 1)) :: (Fin (0 / 1)) :: (Fin (27 / 4)) :: (Fin (45 / 1)) :: nil)) (5876659090025575 / 562949953421312).
Proof. apply (A41_rio_fin _ ((-179769313486231570814527423731704356798070567525844996598917476803157260780028538760589558632766878171540458953514382464234321326889464182768467546703537516986049910576551282076245490090389328944075868508455133942304583236903222948165808559332123348274797826204144723168738177180919299881250404026184124858368) / 1)); [reflexivity | apply (A41_q_floor (-179769313486231570814527423731704356798070567525844996598917476803157260780028538760589558632766878171540458953514382464234321326889464182768467546703537516986049910576551282076245490090389328944075868508455133942304583236903222948165808559332123348274797826204144723168738177180919299881250404026184124858368) 1 5876659090025575 562949953421312); vm_compute; reflexivity]. Qed.
Lemma r_A41_1251 : rio_reads A41_c A41_e A41_lo A41_hi floor_volts ctol (Build_rio (Fin (2512040248505023 / 2361183241434822606848)) (Fin (3819 / 512)) (Fin (443 / 128)) (Fin (2995 / 1024)) (Fin (10911 / 1024)) true false true ((Fin (1493 / 1024)) :: (Fin (459 / 512)) :: (Fin (67 / 256)) :: (Fin (153717 / 1024)) :: (Fin (1761 / 512)) :: (Fin (39647 / 512)) :: nil)) (35 / 1).
Proof. apply (A41_rio_fin _ (2512040248505023 / 2361183241434822606848)); [reflexivity | apply (A41_q_floor 2512040248505023 2361183241434822606848 35 1); vm_compute; reflexivity]. Qed.
Lemma d_A41_1338c : close ctol (35 / 1) (clamp A41_lo A41_hi (100 / 1)).
Proof. apply (A41_q_clamp_hi 100 1 35 1); vm_compute; reflexivity. Qed.
Lemma d_A41_1346c : close ctol (35 / 1) (clamp A41_lo A41_hi (150 / 1)).
Proof. apply (A41_q_clamp_hi 150 1 35 1); vm_compute; reflexivity. Qed.
Lemma d_A41_1354c : close ctol (9 / 2) (clamp A41_lo A41_hi ((-1) / 1)).
Proof. apply (A41_q_clamp_lo (-1) 1 9 2); vm_compute; reflexivity. Qed.
Lemma d_A41_1362c : close ctol (10 / 1) (clamp A41_lo A41_hi (10 / 1)).
Proof. apply (A41_q_clamp_mid 10 1 10 1); vm_compute; reflexivity. Qed.
Lemma d_A41_1370c : close ctol (35 / 1) (clamp A41_lo A41_hi (1000000 / 1)).
Proof. apply (A41_q_clamp_hi 1000000 1 35 1); vm_compute; reflexivity. Qed.
Lemma d_A41_1379c : close ctol (35 / 1) (clamp A41_lo A41_hi (4925812092436479 / 140737488355328)).
Proof. apply (A41_q_clamp_mid 4925812092436479 140737488355328 35 1); vm_compute; reflexivity. Qed.
Lemma d_A41_1387c : close ctol (9 / 2) (clamp A41_lo A41_hi (4 / 1)).
Proof. apply (A41_q_clamp_lo 4 1 9 2); vm_compute; reflexivity. Qed.
Lemma d_A41_1395c : close ctol (2137761416148649 / 140737488355328) (clamp A41_lo A41_hi (8551045664594597 / 562949953421312)).
Proof. apply (A41_q_clamp_mid 8551045664594597 562949953421312 2137761416148649 140737488355328); vm_compute; reflexivity. Qed.
Lemma d_A41_1403c : close ctol (349755829301119 / 35184372088832) (clamp A41_lo A41_hi (349755829301119 / 35184372088832)).
Proof. apply (A41_q_clamp_mid 349755829301119 35184372088832 349755829301119 35184372088832); vm_compute; reflexivity. Qed.
Lemma d_A41_1411c : close ctol (37520180709899 / 1099511627776) (clamp A41_lo A41_hi (37520180709899 / 1099511627776)).
Proof. apply (A41_q_clamp_mid 37520180709899 1099511627776 37520180709899 1099511627776); vm_compute; reflexivity. Qed.
Lemma d_A41_1419c : close ctol (821111805911741 / 35184372088832) (clamp A41_lo A41_hi (821111805911741 / 35184372088832)).
Proof. apply (A41_q_clamp_mid 821111805911741 35184372088832 821111805911741 35184372088832); vm_compute; reflexivity. Qed.
Lemma d_A41_1427c : close ctol (2235084303194081 / 70368744177664) (clamp A41_lo A41_hi (2235084303194081 / 70368744177664)).
Proof. apply (A41_q_clamp_mid 2235084303194081 70368744177664 2235084303194081 70368744177664); vm_compute; reflexivity. Qed.
Lemma d_A41_1435c : close ctol (2372836452621061 / 140737488355328) (clamp A41_lo A41_hi (2372836452621061 / 140737488355328)).
Proof. apply (A41_q_clamp_mid 2372836452621061 140737488355328 2372836452621061 140737488355328); vm_compute; reflexivity. Qed.
Lemma d_A41_1443c : close ctol (2679404888254723 / 281474976710656) (clamp A41_lo A41_hi (2679404888254723 / 281474976710656)).
Proof. apply (A41_q_clamp_mid 2679404888254723 281474976710656 2679404888254723 281474976710656); vm_compute; reflexivity. Qed.
Lemma d_A41_1451c : close ctol (3143833657315641 / 140737488355328) (clamp A41_lo A41_hi (3143833657315641 / 140737488355328)).
Proof. apply (A41_q_clamp_mid 3143833657315641 140737488355328 3143833657315641 140737488355328); vm_compute; reflexivity. Qed.
Lemma d_A41_1459c : close ctol (9 / 2) (clamp A41_lo A41_hi (3089002913741371 / 72057594037927936)).
Proof. apply (A41_q_clamp_lo 3089002913741371 72057594037927936 9 2); vm_compute; reflexivity. Qed.
Lemma d_A41_1467c : close ctol (1151500366140089 / 35184372088832) (clamp A41_lo A41_hi (1151500366140089 / 35184372088832)).
Proof. apply (A41_q_clamp_mid 1151500366140089 35184372088832 1151500366140089 35184372088832); vm_compute; reflexivity. Qed.
Lemma d_A41_1475c : close ctol (1846700097564313 / 70368744177664) (clamp A41_lo A41_hi (7386800390257253 / 281474976710656)).
Proof. apply (A41_q_clamp_mid 7386800390257253 281474976710656 1846700097564313 70368744177664); vm_compute; reflexivity. Qed.
Lemma d_A41_1483c : close ctol (2550901152344571 / 281474976710656) (clamp A41_lo A41_hi (2550901152344571 / 281474976710656)).
Proof. apply (A41_q_clamp_mid 2550901152344571 281474976710656 2550901152344571 281474976710656); vm_compute; reflexivity. Qed.
Lemma d_A41_1491c : close ctol (6650948971262189 / 562949953421312) (clamp A41_lo A41_hi (3325474485631095 / 281474976710656)).
Proof. apply (A41_q_clamp_mid 3325474485631095 281474976710656 6650948971262189 562949953421312); vm_compute; reflexivity. Qed.
Lemma d_A41_1499c : close ctol (35 / 1) (clamp A41_lo A41_hi (3608200080998225 / 70368744177664)).
Proof. apply (A41_q_clamp_hi 3608200080998225 70368744177664 35 1); vm_compute; reflexivity. Qed.
Lemma d_A41_1507c : close ctol (35 / 1) (clamp A41_lo A41_hi (4062839306111591 / 70368744177664)).
Proof. apply (A41_q_clamp_hi 4062839306111591 70368744177664 35 1); vm_compute; reflexivity. Qed.
Lemma d_A41_1515c : close ctol (8213717994310739 / 1125899906842624) (clamp A41_lo A41_hi (8213717994310739 / 1125899906842624)).
Proof. apply (A41_q_clamp_mid 8213717994310739 1125899906842624 8213717994310739 1125899906842624); vm_compute; reflexivity. Qed.
Lemma d_A41_1523c : close ctol (4432125173705589 / 140737488355328) (clamp A41_lo A41_hi (4432125173705589 / 140737488355328)).
Proof. apply (A41_q_clamp_mid 4432125173705589 140737488355328 4432125173705589 140737488355328); vm_compute; reflexivity. Qed.
Lemma d_A41_1531c : close ctol (35 / 1) (clamp A41_lo A41_hi (2817845700419201 / 35184372088832)).
Proof. apply (A41_q_clamp_hi 2817845700419201 35184372088832 35 1); vm_compute; reflexivity. Qed.
Lemma d_A41_1539c : close ctol (6085791435906155 / 281474976710656) (clamp A41_lo A41_hi (3042895717953077 / 140737488355328)).
Proof. apply (A41_q_clamp_mid 3042895717953077 140737488355328 6085791435906155 281474976710656); vm_compute; reflexivity. Qed.
Lemma d_A41_1547c : close ctol (24 / 1) (clamp A41_lo A41_hi (24 / 1)).
Proof. apply (A41_q_clamp_mid 24 1 24 1); vm_compute; reflexivity. Qed.
Lemma d_A41_1555c : close ctol (35 / 1) (clamp A41_lo A41_hi (6451599825685819 / 70368744177664)).
Proof. apply (A41_q_clamp_hi 6451599825685819 70368744177664 35 1); vm_compute; reflexivity. Qed.
Lemma d_A41_1563c : close ctol (5502508003046197 / 281474976710656) (clamp A41_lo A41_hi (5502508003046197 / 281474976710656)).
Proof. apply (A41_q_clamp_mid 5502508003046197 281474976710656 5502508003046197 281474976710656); vm_compute; reflexivity. Qed.
Lemma d_A41_1571c : close ctol (9 / 2) (clamp A41_lo A41_hi (47815505580843 / 35184372088832)).
Proof. apply (A41_q_clamp_lo 47815505580843 35184372088832 9 2); vm_compute; reflexivity. Qed.
Lemma d_A41_1579c : close ctol (4828138902863749 / 140737488355328) (clamp A41_lo A41_hi (4828138902863749 / 140737488355328)).
Proof. apply (A41_q_clamp_mid 4828138902863749 140737488355328 4828138902863749 140737488355328); vm_compute; reflexivity. Qed.
Lemma d_A41_1587c : close ctol (9 / 2) (clamp A41_lo A41_hi (1184683648326769 / 562949953421312)).
Proof. apply (A41_q_clamp_lo 1184683648326769 562949953421312 9 2); vm_compute; reflexivity. Qed.
Lemma d_A41_1595c : close ctol (6232080139988867 / 281474976710656) (clamp A41_lo A41_hi (6232080139988867 / 281474976710656)).
Proof. apply (A41_q_clamp_mid 6232080139988867 281474976710656 6232080139988867 281474976710656); vm_compute; reflexivity. Qed.
Lemma d_A41_1603c : close ctol (8724829087044855 / 562949953421312) (clamp A41_lo A41_hi (4362414543522427 / 281474976710656)).
Proof. apply (A41_q_clamp_mid 4362414543522427 281474976710656 8724829087044855 562949953421312); vm_compute; reflexivity. Qed.
Lemma d_A41_1611c : close ctol (8503003815270043 / 281474976710656) (clamp A41_lo A41_hi (4251501907635021 / 140737488355328)).
Proof. apply (A41_q_clamp_mid 4251501907635021 140737488355328 8503003815270043 281474976710656); vm_compute; reflexivity. Qed.
Lemma d_A41_1619c : close ctol (6042811209732495 / 281474976710656) (clamp A41_lo A41_hi (6042811209732495 / 281474976710656)).
Proof. apply (A41_q_clamp_mid 6042811209732495 281474976710656 6042811209732495 281474976710656); vm_compute; reflexivity. Qed.
Lemma d_A41_1627c : close ctol (9 / 2) (clamp A41_lo A41_hi (2340244350880711 / 2251799813685248)).
Proof. apply (A41_q_clamp_lo 2340244350880711 2251799813685248 9 2); vm_compute; reflexivity. Qed.
Lemma d_A41_1635c : close ctol (7741339238691227 / 281474976710656) (clamp A41_lo A41_hi (7741339238691227 / 281474976710656)).
Proof. apply (A41_q_clamp_mid 7741339238691227 281474976710656 7741339238691227 281474976710656); vm_compute; reflexivity. Qed.
Lemma d_A41_1643c : close ctol (4086126166301497 / 281474976710656) (clamp A41_lo A41_hi (4086126166301497 / 281474976710656)).
Proof. apply (A41_q_clamp_mid 4086126166301497 281474976710656 4086126166301497 281474976710656); vm_compute; reflexivity. Qed.
Lemma d_A41_1651c : close ctol (971584565204015 / 70368744177664) (clamp A41_lo A41_hi (971584565204015 / 70368744177664)).
Proof. apply (A41_q_clamp_mid 971584565204015 70368744177664 971584565204015 70368744177664); vm_compute; reflexivity. Qed.
Lemma d_A41_1659c : close ctol (4719592490829411 / 140737488355328) (clamp A41_lo A41_hi (2359796245414705 / 70368744177664)).
Proof. apply (A41_q_clamp_mid 2359796245414705 70368744177664 4719592490829411 140737488355328); vm_compute; reflexivity. Qed.
Lemma d_A41_1667c : close ctol (9 / 2) (clamp A41_lo A41_hi (1656929826301449 / 1125899906842624)).
Proof. apply (A41_q_clamp_lo 1656929826301449 1125899906842624 9 2); vm_compute; reflexivity. Qed.
Lemma d_A41_1675c : close ctol (1043618627453593 / 35184372088832) (clamp A41_lo A41_hi (1043618627453593 / 35184372088832)).
Proof. apply (A41_q_clamp_mid 1043618627453593 35184372088832 1043618627453593 35184372088832); vm_compute; reflexivity. Qed.
Lemma d_A41_1683c : close ctol (7945496063873385 / 562949953421312) (clamp A41_lo A41_hi (7945496063873385 / 562949953421312)).
Proof. apply (A41_q_clamp_mid 7945496063873385 562949953421312 7945496063873385 562949953421312); vm_compute; reflexivity. Qed.
Lemma d_A41_1691c : close ctol (2196932306293507 / 70368744177664) (clamp A41_lo A41_hi (2196932306293507 / 70368744177664)).
Proof. apply (A41_q_clamp_mid 2196932306293507 70368744177664 2196932306293507 70368744177664); vm_compute; reflexivity. Qed.
Lemma d_A41_1699c : close ctol (4490371974430477 / 140737488355328) (clamp A41_lo A41_hi (8980743948860953 / 281474976710656)).
Proof. apply (A41_q_clamp_mid 8980743948860953 281474976710656 4490371974430477 140737488355328); vm_compute; reflexivity. Qed.
Lemma d_A41_1707c : close ctol (6558399949388549 / 281474976710656) (clamp A41_lo A41_hi (6558399949388549 / 281474976710656)).
Proof. apply (A41_q_clamp_mid 6558399949388549 281474976710656 6558399949388549 281474976710656); vm_compute; reflexivity. Qed.
Lemma d_A41_1715c : close ctol (3875592363107153 / 562949953421312) (clamp A41_lo A41_hi (3875592363107153 / 562949953421312)).
Proof. apply (A41_q_clamp_mid 3875592363107153 562949953421312 3875592363107153 562949953421312); vm_compute; reflexivity. Qed.
Lemma d_A41_1723c : close ctol (35 / 1) (clamp A41_lo A41_hi (2483708110064983 / 35184372088832)).
Proof. apply (A41_q_clamp_hi 2483708110064983 35184372088832 35 1); vm_compute; reflexivity. Qed.
Lemma d_A41_1731c : close ctol (3020960367848679 / 140737488355328) (clamp A41_lo A41_hi (3020960367848679 / 140737488355328)).
Proof. apply (A41_q_clamp_mid 3020960367848679 140737488355328 3020960367848679 140737488355328); vm_compute; reflexivity. Qed.
Lemma d_A41_1739c : close ctol (5607454211355159 / 562949953421312) (clamp A41_lo A41_hi (5607454211355159 / 562949953421312)).
Proof. apply (A41_q_clamp_mid 5607454211355159 562949953421312 5607454211355159 562949953421312); vm_compute; reflexivity. Qed.
Lemma d_A41_1747c : close ctol (275065146759329 / 8796093022208) (clamp A41_lo A41_hi (275065146759329 / 8796093022208)).
Proof. apply (A41_q_clamp_mid 275065146759329 8796093022208 275065146759329 8796093022208); vm_compute; reflexivity. Qed.
Lemma d_A41_1755c : close ctol (6737328865483487 / 281474976710656) (clamp A41_lo A41_hi (6737328865483487 / 281474976710656)).
Proof. apply (A41_q_clamp_mid 6737328865483487 281474976710656 6737328865483487 281474976710656); vm_compute; reflexivity. Qed.
Lemma d_A41_1763c : close ctol (35 / 1) (clamp A41_lo A41_hi (6308584266862409 / 140737488355328)).
Proof. apply (A41_q_clamp_hi 6308584266862409 140737488355328 35 1); vm_compute; reflexivity. Qed.
Lemma d_A41_1771c : close ctol (2706979683656755 / 281474976710656) (clamp A41_lo A41_hi (2706979683656755 / 281474976710656)).
Proof. apply (A41_q_clamp_mid 2706979683656755 281474976710656 2706979683656755 281474976710656); vm_compute; reflexivity. Qed.
Lemma d_A41_1779c : close ctol (4349003134890213 / 562949953421312) (clamp A41_lo A41_hi (4349003134890213 / 562949953421312)).
Proof. apply (A41_q_clamp_mid 4349003134890213 562949953421312 4349003134890213 562949953421312); vm_compute; reflexivity. Qed.
Lemma d_A41_1787c : close ctol (4911129960001051 / 562949953421312) (clamp A41_lo A41_hi (4911129960001051 / 562949953421312)).
Proof. apply (A41_q_clamp_mid 4911129960001051 562949953421312 4911129960001051 562949953421312); vm_compute; reflexivity. Qed.
Lemma d_A41_1795c : close ctol (269613160388107 / 17592186044416) (clamp A41_lo A41_hi (269613160388107 / 17592186044416)).
Proof. apply (A41_q_clamp_mid 269613160388107 17592186044416 269613160388107 17592186044416); vm_compute; reflexivity. Qed.
Lemma d_A41_1803c : close ctol (8320073279846365 / 281474976710656) (clamp A41_lo A41_hi (8320073279846365 / 281474976710656)).
Proof. apply (A41_q_clamp_mid 8320073279846365 281474976710656 8320073279846365 281474976710656); vm_compute; reflexivity. Qed.
Lemma d_A41_1811c : close ctol (9 / 2) (clamp A41_lo A41_hi (2933286205947147 / 36028797018963968)).
Proof. apply (A41_q_clamp_lo 2933286205947147 36028797018963968 9 2); vm_compute; reflexivity. Qed.
Lemma d_A41_1819c : close ctol (5484247862703971 / 1125899906842624) (clamp A41_lo A41_hi (5484247862703971 / 1125899906842624)).
Proof. apply (A41_q_clamp_mid 5484247862703971 1125899906842624 5484247862703971 1125899906842624); vm_compute; reflexivity. Qed.
Lemma d_A41_1827c : close ctol (35 / 1) (clamp A41_lo A41_hi (7388164456412603 / 2199023255552)).
Proof. apply (A41_q_clamp_hi 7388164456412603 2199023255552 35 1); vm_compute; reflexivity. Qed.
Lemma d_A41_1835c : close ctol (9 / 2) (clamp A41_lo A41_hi ((-1182271425622489) / 1125899906842624)).
Proof. apply (A41_q_clamp_lo (-1182271425622489) 1125899906842624 9 2); vm_compute; reflexivity. Qed.
Lemma d_A41_1843c : close ctol (3072137963480413 / 562949953421312) (clamp A41_lo A41_hi (6144275926960827 / 1125899906842624)).
Proof. apply (A41_q_clamp_mid 6144275926960827 1125899906842624 3072137963480413 562949953421312); vm_compute; reflexivity. Qed.
Lemma d_A41_1851c : close ctol (9 / 2) (clamp A41_lo A41_hi (1477388273021961 / 9007199254740992)).
Proof. apply (A41_q_clamp_lo 1477388273021961 9007199254740992 9 2); vm_compute; reflexivity. Qed.
Lemma d_A41_1859c : close ctol (2562169361477903 / 140737488355328) (clamp A41_lo A41_hi (2562169361477903 / 140737488355328)).
Proof. apply (A41_q_clamp_mid 2562169361477903 140737488355328 2562169361477903 140737488355328); vm_compute; reflexivity. Qed.
Lemma d_A41_1867c : close ctol (35 / 1) (clamp A41_lo A41_hi (2509466479465151 / 35184372088832)).
Proof. apply (A41_q_clamp_hi 2509466479465151 35184372088832 35 1); vm_compute; reflexivity. Qed.
Lemma d_A41_1875c : close ctol (2945102677623671 / 562949953421312) (clamp A41_lo A41_hi (5890205355247343 / 1125899906842624)).
Proof. apply (A41_q_clamp_mid 5890205355247343 1125899906842624 2945102677623671 562949953421312); vm_compute; reflexivity. Qed.
Lemma d_A41_1883c : close ctol (8983569772465043 / 562949953421312) (clamp A41_lo A41_hi (2245892443116261 / 140737488355328)).
Proof. apply (A41_q_clamp_mid 2245892443116261 140737488355328 8983569772465043 562949953421312); vm_compute; reflexivity. Qed.
Lemma d_A41_1891c : close ctol (1608382029020161 / 281474976710656) (clamp A41_lo A41_hi (1608382029020161 / 281474976710656)).
Proof. apply (A41_q_clamp_mid 1608382029020161 281474976710656 1608382029020161 281474976710656); vm_compute; reflexivity. Qed.
Lemma d_A41_1899c : close ctol (7017937320443049 / 281474976710656) (clamp A41_lo A41_hi (7017937320443049 / 281474976710656)).
Proof. apply (A41_q_clamp_mid 7017937320443049 281474976710656 7017937320443049 281474976710656); vm_compute; reflexivity. Qed.
Lemma d_A41_1907c : close ctol (19 / 1) (clamp A41_lo A41_hi (19 / 1)).
Proof. apply (A41_q_clamp_mid 19 1 19 1); vm_compute; reflexivity. Qed.
Lemma d_A41_1915c : close ctol (3938691552763191 / 281474976710656) (clamp A41_lo A41_hi (3938691552763191 / 281474976710656)).
Proof. apply (A41_q_clamp_mid 3938691552763191 281474976710656 3938691552763191 281474976710656); vm_compute; reflexivity. Qed.
Lemma d_A41_1923c : close ctol (9 / 2) (clamp A41_lo A41_hi ((-1190719779404471) / 562949953421312)).
Proof. apply (A41_q_clamp_lo (-1190719779404471) 562949953421312 9 2); vm_compute; reflexivity. Qed.
Lemma d_A41_1931c : close ctol (1585084459815097 / 70368744177664) (clamp A41_lo A41_hi (1585084459815097 / 70368744177664)).
Proof. apply (A41_q_clamp_mid 1585084459815097 70368744177664 1585084459815097 70368744177664); vm_compute; reflexivity. Qed.
Lemma d_A41_1939c : close ctol (3593091609243271 / 281474976710656) (clamp A41_lo A41_hi (3593091609243271 / 281474976710656)).
Proof. apply (A41_q_clamp_mid 3593091609243271 281474976710656 3593091609243271 281474976710656); vm_compute; reflexivity. Qed.
Lemma d_A41_1947c : close ctol (5274055785461131 / 281474976710656) (clamp A41_lo A41_hi (5274055785461131 / 281474976710656)).
Proof. apply (A41_q_clamp_mid 5274055785461131 281474976710656 5274055785461131 281474976710656); vm_compute; reflexivity. Qed.
Lemma d_A41_1955c : close ctol (12 / 1) (clamp A41_lo A41_hi (12 / 1)).
Proof. apply (A41_q_clamp_mid 12 1 12 1); vm_compute; reflexivity. Qed.
Lemma d_A41_1963c : close ctol (10 / 1) (clamp A41_lo A41_hi (10 / 1)).
Proof. apply (A41_q_clamp_mid 10 1 10 1); vm_compute; reflexivity. Qed.
Lemma d_A41_1971c : close ctol (2252818177340739 / 140737488355328) (clamp A41_lo A41_hi (2252818177340739 / 140737488355328)).
Proof. apply (A41_q_clamp_mid 2252818177340739 140737488355328 2252818177340739 140737488355328); vm_compute; reflexivity. Qed.
Lemma d_A41_1979c : close ctol (2318036102841251 / 70368744177664) (clamp A41_lo A41_hi (4636072205682501 / 140737488355328)).
Proof. apply (A41_q_clamp_mid 4636072205682501 140737488355328 2318036102841251 70368744177664); vm_compute; reflexivity. Qed.
Lemma d_A41_1987c : close ctol (2445301579153141 / 281474976710656) (clamp A41_lo A41_hi (2445301579153141 / 281474976710656)).
Proof. apply (A41_q_clamp_mid 2445301579153141 281474976710656 2445301579153141 281474976710656); vm_compute; reflexivity. Qed.
Lemma d_A41_1995c : close ctol (35 / 1) (clamp A41_lo A41_hi (2415864317870359 / 35184372088832)).
Proof. apply (A41_q_clamp_hi 2415864317870359 35184372088832 35 1); vm_compute; reflexivity. Qed.
Check d_A41_1995c.
