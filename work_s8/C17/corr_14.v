From Coq Require Import Reals Lra.
From Interval Require Import Tactic.
From RV Require Import IR.Model IR.Proofs.
Open Scope R_scope.
Lemma r_A02_32 : rio_reads A02_c A02_e A02_lo A02_hi floor_volts ctol (Build_rio (Fin (5629499534213121 / 1125899906842624)) (Fin (5 / 1)) (Fin ((-1) / 1)) (Fin (6 / 1)) (Fin (12 / 1)) true true true ((Fin (0 / 1)) :: (Fin (0 / 1)) :: (Fin (0 / 1)) :: (Fin (0 / 1)) :: (Fin (27 / 4)) :: (Fin (45 / 1)) :: nil)) (45 / 2).
Proof. apply (A02_rio_fin _ (5629499534213121 / 1125899906842624)); [reflexivity | apply (A02_q_lo 5629499534213121 1125899906842624 45 2); [vm_compute; reflexivity | unfold fr, ctol, A02_lo, A02_c, A02_e; interval with (i_prec 80)]]. Qed.
Lemma r_A02_50 : rio_reads A02_c A02_e A02_lo A02_hi floor_volts ctol (Build_rio (Fin (5720628908121147 / 2251799813685248)) (Fin (5 / 1)) (Fin (3715469692580659 / 1125899906842624)) (Fin (6 / 1)) (Fin (12 / 1)) true true true ((Fin (0 / 1)) :: (Fin (0 / 1)) :: (Fin (0 / 1)) :: (Fin (0 / 1)) :: (Fin (25 / 4)) :: (Fin (45 / 1)) :: nil)) (6333186982905601 / 281474976710656).
Proof. apply (A02_rio_fin _ (5720628908121147 / 2251799813685248)); [reflexivity | apply (A02_q_mid 5720628908121147 2251799813685248 6333186982905601 281474976710656); [vm_compute; reflexivity | unfold fr, close, ctol, A02_c, A02_e; interval with (i_prec 80)]]. Qed.
Lemma r_A02_66 : rio_reads A02_c A02_e A02_lo A02_hi floor_volts ctol (Build_rio (Fin (5 / 4096)) (Fin (5 / 1)) (Fin (5902958103587057 / 590295810358705651712)) (Fin (161 / 32)) NInf true true false ((Fin (15 / 256)) :: (Fin (919 / 1024)) :: (Fin (647 / 1024)) :: (Fin (1665 / 256)) :: (Fin (931 / 256)) :: (Fin ((-3897) / 1024)) :: nil)) (145 / 1).
Proof. apply (A02_rio_fin _ (5 / 4096)); [reflexivity | apply (A02_q_hi 5 4096 145 1); [vm_compute; reflexivity | unfold fr, ctol, A02_hi, A02_c, A02_e; interval with (i_prec 80)]]. Qed.
Lemma r_A02_82 : rio_reads A02_c A02_e A02_lo A02_hi floor_volts ctol (Build_rio (Fin (75 / 256)) NInf (Fin (893 / 256)) (Fin (9897 / 1024)) (Fin (6585 / 512)) true false true ((Fin (61 / 512)) :: (Fin (1249 / 1024)) :: (Fin (297 / 1024)) :: (Fin (443 / 4)) :: (Fin (1379 / 256)) :: (Fin ((-7987) / 1024)) :: nil)) (145 / 1).
Proof. apply (A02_rio_fin _ (75 / 256)); [reflexivity | apply (A02_q_hi 75 256 145 1); [vm_compute; reflexivity | unfold fr, ctol, A02_hi, A02_c, A02_e; interval with (i_prec 80)]]. Qed.
Lemma r_A02_98 : rio_reads A02_c A02_e A02_lo A02_hi floor_volts ctol (Build_rio (Fin (155 / 256)) (Fin (2715 / 512)) (Fin (2851 / 1024)) (Fin (6 / 1)) (Fin (6365 / 512)) true true true ((Fin (1349 / 1024)) :: (Fin (225 / 128)) :: (Fin (125 / 512)) :: (Fin (78759 / 1024)) :: (Fin (4205 / 1024)) :: (Fin (96325 / 1024)) :: nil)) (947532783928993 / 8796093022208).
Proof. apply (A02_rio_fin _ (155 / 256)); [reflexivity | apply (A02_q_mid 155 256 947532783928993 8796093022208); [vm_compute; reflexivity | unfold fr, close, ctol, A02_c, A02_e; interval with (i_prec 80)]]. Qed.
Lemma r_A02_114 : rio_reads A02_c A02_e A02_lo A02_hi floor_volts ctol (Build_rio (Fin (235 / 256)) (Fin (1393 / 256)) (Fin (3381 / 1024)) (Fin (6 / 1)) (Fin (11497 / 1024)) true true true ((Fin (375 / 128)) :: (Fin (95 / 512)) :: (Fin (673 / 512)) :: (Fin (31565 / 512)) :: (Fin (4231 / 1024)) :: (Fin ((-147) / 512)) :: nil)) (4811941523133673 / 70368744177664).
Proof. apply (A02_rio_fin _ (235 / 256)); [reflexivity | apply (A02_q_mid 235 256 4811941523133673 70368744177664); [vm_compute; reflexivity | unfold fr, close, ctol, A02_c, A02_e; interval with (i_prec 80)]]. Qed.
Lemma r_A02_130 : rio_reads A02_c A02_e A02_lo A02_hi floor_volts ctol (Build_rio (Fin (315 / 256)) (Fin (5303 / 1024)) (Fin (3541 / 1024)) (Fin (2581 / 512)) (Fin (12791 / 1024)) true true false ((Fin (75 / 256)) :: (Fin (383 / 256)) :: (Fin (1573 / 1024)) :: (Fin (14781 / 512)) :: (Fin (6573 / 1024)) :: (Fin (29553 / 1024)) :: nil)) (109199674416131 / 2199023255552).
Proof. apply (A02_rio_fin _ (315 / 256)); [reflexivity | apply (A02_q_mid 315 256 109199674416131 2199023255552); [vm_compute; reflexivity | unfold fr, close, ctol, A02_c, A02_e; interval with (i_prec 80)]]. Qed.
Lemma r_A02_146 : rio_reads A02_c A02_e A02_lo A02_hi floor_volts ctol (Build_rio (Fin (395 / 256)) (Fin (5217 / 1024)) (Fin (3715469692580659 / 1125899906842624)) NInf (Fin (3019 / 256)) true true true ((Fin (111 / 512)) :: (Fin (757 / 512)) :: (Fin (387 / 512)) :: (Fin (87133 / 512)) :: (Fin (7297 / 1024)) :: (Fin (12427 / 1024)) :: nil)) (2729244338815423 / 70368744177664).
Proof. apply (A02_rio_fin _ (395 / 256)); [reflexivity | apply (A02_q_mid 395 256 2729244338815423 70368744177664); [vm_compute; reflexivity | unfold fr, close, ctol, A02_c, A02_e; interval with (i_prec 80)]]. Qed.
Lemma r_A02_162 : rio_reads A02_c A02_e A02_lo A02_hi floor_volts ctol (Build_rio (Fin (475 / 256)) (Fin (4527 / 1024)) (Fin (100000000000000001097906362944045541740492309677311846336810682903157585404911491537163328978494688899061249669721172515611590283743140088328307009198146046031271664502933027185697489699588559043338384466165001178426897626212945177628091195786707458122783970171784415105291802893207873272974885715430223118336 / 1)) (Fin (5925 / 1024)) (Fin (2695 / 512)) false true true ((Fin (661 / 512)) :: (Fin (111 / 128)) :: (Fin (1133 / 512)) :: (Fin (35637 / 256)) :: (Fin (69 / 8)) :: (Fin ((-109) / 1024)) :: nil)) (4462795849604661 / 140737488355328).
Proof. apply (A02_rio_fin _ (475 / 256)); [reflexivity | apply (A02_q_mid 475 256 4462795849604661 140737488355328); [vm_compute; reflexivity | unfold fr, close, ctol, A02_c, A02_e; interval with (i_prec 80)]]. Qed.
Lemma r_A02_178 : rio_reads A02_c A02_e A02_lo A02_hi floor_volts ctol (Build_rio (Fin (555 / 256)) (Fin (5245 / 1024)) (Fin (443 / 128)) NInf (Fin (10611 / 1024)) false true false ((Fin (2371 / 1024)) :: (Fin (1951 / 1024)) :: (Fin (707 / 1024)) :: (Fin (21423 / 512)) :: (Fin (3359 / 512)) :: (Fin ((-5159) / 1024)) :: nil)) (7530407883144549 / 281474976710656).
Proof. apply (A02_rio_fin _ (555 / 256)); [reflexivity | apply (A02_q_mid 555 256 7530407883144549 281474976710656); [vm_compute; reflexivity | unfold fr, close, ctol, A02_c, A02_e; interval with (i_prec 80)]]. Qed.
Lemma r_A02_194 : rio_reads A02_c A02_e A02_lo A02_hi floor_volts ctol (Build_rio (Fin (635 / 256)) (Fin (2049 / 512)) (Fin (3431 / 1024)) (Fin (577 / 256)) (Fin (5925 / 512)) true true true ((Fin (1947 / 1024)) :: (Fin (797 / 512)) :: (Fin (123 / 1024)) :: (Fin (199363 / 1024)) :: (Fin (3659 / 1024)) :: (Fin (98649 / 1024)) :: nil)) (6500661165600301 / 281474976710656).
Proof. apply (A02_rio_fin _ (635 / 256)); [reflexivity | apply (A02_q_mid 635 256 6500661165600301 281474976710656); [vm_compute; reflexivity | unfold fr, close, ctol, A02_c, A02_e; interval with (i_prec 80)]]. Qed.
Lemma r_A02_210 : rio_reads A02_c A02_e A02_lo A02_hi floor_volts ctol (Build_rio (Fin (45 / 16)) (Fin (5 / 1)) (Fin (2823 / 1024)) (Fin (1703 / 128)) (Fin ((-12) / 1)) true false true ((Fin (13 / 256)) :: (Fin (1955 / 1024)) :: (Fin (233 / 512)) :: (Fin (54057 / 1024)) :: (Fin (6983 / 1024)) :: (Fin (9341 / 1024)) :: nil)) (45 / 2).
Proof. apply (A02_rio_fin _ (45 / 16)); [reflexivity | apply (A02_q_lo 45 16 45 2); [vm_compute; reflexivity | unfold fr, ctol, A02_lo, A02_c, A02_e; interval with (i_prec 80)]]. Qed.
Lemma r_A02_226 : rio_reads A02_c A02_e A02_lo A02_hi floor_volts ctol (Build_rio (Fin (25 / 8)) (Fin (5041 / 1024)) (Fin (811 / 256)) (Fin (1689 / 256)) (Fin (10193 / 1024)) true false true ((Fin (351 / 128)) :: (Fin (1919 / 1024)) :: (Fin (1429 / 1024)) :: (Fin (70789 / 1024)) :: (Fin (3259 / 512)) :: (Fin (887 / 16)) :: nil)) (45 / 2).
Proof. apply (A02_rio_fin _ (25 / 8)); [reflexivity | apply (A02_q_lo 25 8 45 2); [vm_compute; reflexivity | unfold fr, ctol, A02_lo, A02_c, A02_e; interval with (i_prec 80)]]. Qed.
Lemma r_A02_242 : rio_reads A02_c A02_e A02_lo A02_hi floor_volts ctol (Build_rio (Fin (55 / 16)) (Fin (4103 / 1024)) (Fin (4737 / 1024)) (Fin (3175 / 512)) (Fin (12 / 1)) true true true ((Fin (257 / 512)) :: (Fin (193 / 128)) :: (Fin (679 / 512)) :: (Fin (42971 / 1024)) :: (Fin (2291 / 256)) :: (Fin (17293 / 512)) :: nil)) (45 / 2).
Proof. apply (A02_rio_fin _ (55 / 16)); [reflexivity | apply (A02_q_lo 55 16 45 2); [vm_compute; reflexivity | unfold fr, ctol, A02_lo, A02_c, A02_e; interval with (i_prec 80)]]. Qed.
Lemma r_A02_258 : rio_reads A02_c A02_e A02_lo A02_hi floor_volts ctol (Build_rio (Fin (15 / 4)) (Fin (5 / 1)) (Fin (3163 / 1024)) (Fin (5475 / 1024)) (Fin (10427 / 1024)) true true true ((Fin (453 / 256)) :: (Fin (51 / 512)) :: (Fin (2537 / 1024)) :: (Fin (87635 / 1024)) :: (Fin (2041 / 256)) :: (Fin (22097 / 512)) :: nil)) (45 / 2).
Proof. apply (A02_rio_fin _ (15 / 4)); [reflexivity | apply (A02_q_lo 15 4 45 2); [vm_compute; reflexivity | unfold fr, ctol, A02_lo, A02_c, A02_e; interval with (i_prec 80)]]. Qed.
Lemma r_A02_274 : rio_reads A02_c A02_e A02_lo A02_hi floor_volts ctol (Build_rio (Fin (65 / 16)) (Fin (8007 / 1024)) (Fin (3225 / 1024)) (Fin (6567 / 1024)) (Fin ((-12) / 1)) true true true ((Fin (2429 / 1024)) :: (Fin (285 / 256)) :: (Fin (913 / 512)) :: (Fin (107899 / 1024)) :: (Fin (7351 / 1024)) :: (Fin (59835 / 1024)) :: nil)) (45 / 2).
Proof. apply (A02_rio_fin _ (65 / 16)); [reflexivity | apply (A02_q_lo 65 16 45 2); [vm_compute; reflexivity | unfold fr, ctol, A02_lo, A02_c, A02_e; interval with (i_prec 80)]]. Qed.
Lemma r_A02_290 : rio_reads A02_c A02_e A02_lo A02_hi floor_volts ctol (Build_rio (Fin (35 / 8)) (Fin (2373 / 512)) (Fin (3249 / 1024)) (Fin (11971 / 1024)) (Fin (12 / 1)) true false true ((Fin (987 / 512)) :: (Fin (801 / 1024)) :: (Fin (687 / 512)) :: (Fin (25771 / 256)) :: (Fin (3995 / 512)) :: (Fin (78199 / 1024)) :: nil)) (45 / 2).
Proof. apply (A02_rio_fin _ (35 / 8)); [reflexivity | apply (A02_q_lo 35 8 45 2); [vm_compute; reflexivity | unfold fr, ctol, A02_lo, A02_c, A02_e; interval with (i_prec 80)]]. Qed.
Lemma r_A02_306 : rio_reads A02_c A02_e A02_lo A02_hi floor_volts ctol (Build_rio (Fin (75 / 16)) (Fin (969 / 256)) (Fin (1523 / 512)) (Fin (3169 / 512)) (Fin (11531 / 1024)) true false false ((Fin (765 / 1024)) :: (Fin (21 / 16)) :: (Fin (1217 / 1024)) :: (Fin (10943 / 128)) :: (Fin (71 / 16)) :: (Fin (15701 / 512)) :: nil)) (45 / 2).
Proof. apply (A02_rio_fin _ (75 / 16)); [reflexivity | apply (A02_q_lo 75 16 45 2); [vm_compute; reflexivity | unfold fr, ctol, A02_lo, A02_c, A02_e; interval with (i_prec 80)]]. Qed.
Lemma r_A02_322 : rio_reads A02_c A02_e A02_lo A02_hi floor_volts ctol (Build_rio (Fin (212899065815405 / 281474976710656)) (Fin (0 / 1)) (Fin (1731 / 512)) NInf (Fin (11523 / 1024)) true true true ((Fin (115 / 64)) :: (Fin (825 / 512)) :: (Fin (1895 / 1024)) :: (Fin (20321 / 512)) :: (Fin (4269 / 1024)) :: (Fin (25337 / 256)) :: nil)) (5944987089808111 / 70368744177664).
Proof. apply (A02_rio_fin _ (212899065815405 / 281474976710656)); [reflexivity | apply (A02_q_mid 212899065815405 281474976710656 5944987089808111 70368744177664); [vm_compute; reflexivity | unfold fr, close, ctol, A02_c, A02_e; interval with (i_prec 80)]]. Qed.
Lemma r_A02_338 : rio_reads A02_c A02_e A02_lo A02_hi floor_volts ctol (Build_rio (Fin (4696454510468123 / 1125899906842624)) (Fin (5499 / 1024)) (Fin (3097 / 1024)) (Fin (2717 / 512)) (Fin (3053 / 256)) true false true ((Fin (1461 / 1024)) :: (Fin (1997 / 1024)) :: (Fin (1473 / 1024)) :: (Fin (18215 / 1024)) :: (Fin (7671 / 1024)) :: (Fin (47207 / 512)) :: nil)) (45 / 2).
Proof. apply (A02_rio_fin _ (4696454510468123 / 1125899906842624)); [reflexivity | apply (A02_q_lo 4696454510468123 1125899906842624 45 2); [vm_compute; reflexivity | unfold fr, ctol, A02_lo, A02_c, A02_e; interval with (i_prec 80)]]. Qed.
Lemma r_A02_354 : rio_reads A02_c A02_e A02_lo A02_hi floor_volts ctol (Build_rio (Fin (1721056529758605 / 562949953421312)) (Fin (5 / 1)) (Fin (100000000000000001097906362944045541740492309677311846336810682903157585404911491537163328978494688899061249669721172515611590283743140088328307009198146046031271664502933027185697489699588559043338384466165001178426897626212945177628091195786707458122783970171784415105291802893207873272974885715430223118336 / 1)) (Fin (1 / 1)) (Fin (1305 / 128)) true true true ((Fin (627 / 512)) :: (Fin (1617 / 1024)) :: (Fin (1575 / 1024)) :: (Fin (12501 / 64)) :: (Fin (9013 / 1024)) :: (Fin (4329 / 128)) :: nil)) (45 / 2).
Proof. apply (A02_rio_fin _ (1721056529758605 / 562949953421312)); [reflexivity | apply (A02_q_lo 1721056529758605 562949953421312 45 2); [vm_compute; reflexivity | unfold fr, ctol, A02_lo, A02_c, A02_e; interval with (i_prec 80)]]. Qed.
Lemma r_A02_370 : rio_reads A02_c A02_e A02_lo A02_hi floor_volts ctol (Build_rio (Fin (265650686518499 / 70368744177664)) (Fin (5469 / 1024)) (Fin (25 / 8)) (Fin (2813 / 512)) (Fin ((-12) / 1)) true false true ((Fin (793 / 512)) :: (Fin (611 / 512)) :: (Fin (763 / 1024)) :: (Fin (162453 / 1024)) :: (Fin (6675 / 1024)) :: (Fin ((-18079) / 1024)) :: nil)) (45 / 2).
Proof. apply (A02_rio_fin _ (265650686518499 / 70368744177664)); [reflexivity | apply (A02_q_lo 265650686518499 70368744177664 45 2); [vm_compute; reflexivity | unfold fr, ctol, A02_lo, A02_c, A02_e; interval with (i_prec 80)]]. Qed.
Lemma r_A02_387 : rio_reads A02_c A02_e A02_lo A02_hi floor_volts ctol (Build_rio (Fin (3915811749902147 / 288230376151711744)) (Fin (2241 / 512)) (Fin (57 / 16)) (Fin (14365 / 1024)) (Fin (12 / 1)) true true true ((Fin (2169 / 1024)) :: (Fin (631 / 512)) :: (Fin (977 / 512)) :: (Fin (195247 / 1024)) :: (Fin (939 / 128)) :: (Fin (6239 / 256)) :: nil)) (145 / 1).
Proof. apply (A02_rio_fin _ (3915811749902147 / 288230376151711744)); [reflexivity | apply (A02_q_hi 3915811749902147 288230376151711744 145 1); [vm_compute; reflexivity | unfold fr, ctol, A02_hi, A02_c, A02_e; interval with (i_prec 80)]]. Qed.
Lemma r_A02_406 : rio_reads A02_c A02_e A02_lo A02_hi floor_volts ctol (Build_rio (Fin (7258022877318195 / 8796093022208)) (Fin (2315 / 512)) (Fin (5345 / 1024)) (Fin ((-1) / 1)) (Fin (0 / 1)) true true true ((Fin (1439 / 512)) :: (Fin (1627 / 1024)) :: (Fin (2149 / 1024)) :: (Fin (2185 / 128)) :: (Fin (8005 / 1024)) :: (Fin (22049 / 256)) :: nil)) (45 / 2).
Proof. apply (A02_rio_fin _ (7258022877318195 / 8796093022208)); [reflexivity | apply (A02_q_lo 7258022877318195 8796093022208 45 2); [vm_compute; reflexivity | unfold fr, ctol, A02_lo, A02_c, A02_e; interval with (i_prec 80)]]. Qed.
Lemma d_A02_2u : close ctol (357539307115111 / 140737488355328) (volts_A02 ((-5) / 1)).
Proof. apply (A02_q_volts_lo (-5) 1 357539307115111 140737488355328); [vm_compute; reflexivity | unfold fr, close, ctol, A02_lo, A02_hi, A02_c, A02_e; interval with (i_prec 80)]. Qed.
Lemma d_A02_10u : close ctol (357539307115111 / 140737488355328) (volts_A02 (2 / 1)).
Proof. apply (A02_q_volts_lo 2 1 357539307115111 140737488355328); [vm_compute; reflexivity | unfold fr, close, ctol, A02_lo, A02_hi, A02_c, A02_e; interval with (i_prec 80)]. Qed.
Lemma d_A02_18u : close ctol (8308476880671015 / 18014398509481984) (volts_A02 (1000000000000000052504760255204420248704468581108159154915854115511802457988908195786371375080447864043704443832883878176942523235360430575644792184786706982848387200926575803737830233794788090059368953234970799945081119038967640880074652742780142494579258788820056842838115669472196386865459400540160 / 1)).
Proof. apply (A02_q_volts_hi 1000000000000000052504760255204420248704468581108159154915854115511802457988908195786371375080447864043704443832883878176942523235360430575644792184786706982848387200926575803737830233794788090059368953234970799945081119038967640880074652742780142494579258788820056842838115669472196386865459400540160 1 8308476880671015 18014398509481984); [vm_compute; reflexivity | unfold fr, close, ctol, A02_lo, A02_hi, A02_c, A02_e; interval with (i_prec 80)]. Qed.
Lemma d_A02_26u : close ctol (357539307115111 / 140737488355328) (volts_A02 (6032057205060441 / 6032057205060440848842124543157735677050252251748505781796615064961622344493727293370973578138265743708225425014400837164813540499979063179105919597766951022193355091707896034850684039059079180396788349106095584290087446076413771468940477241550670753145517602931224392424029547429993824129889235158145614364972941312)).
Proof. apply (A02_q_volts_lo 6032057205060441 6032057205060440848842124543157735677050252251748505781796615064961622344493727293370973578138265743708225425014400837164813540499979063179105919597766951022193355091707896034850684039059079180396788349106095584290087446076413771468940477241550670753145517602931224392424029547429993824129889235158145614364972941312 357539307115111 140737488355328); [vm_compute; reflexivity | unfold fr, close, ctol, A02_lo, A02_hi, A02_c, A02_e; interval with (i_prec 80)]. Qed.
Lemma d_A02_34u : close ctol (2330035404855731 / 2251799813685248) (volts_A02 (60 / 1)).
Proof. apply (A02_q_volts_mid 60 1 2330035404855731 2251799813685248); [vm_compute; reflexivity | unfold fr, close, ctol, A02_lo, A02_hi, A02_c, A02_e; interval with (i_prec 80)]. Qed.
Lemma d_A02_42u : close ctol (357539307115111 / 140737488355328) (volts_x A02_c A02_e A02_lo A02_hi NInf).
Proof. apply (corr_volts_ninf _ _ _ _ _ A02_admissible _ ctol_ok); unfold fr, close, ctol, A02_lo, A02_hi, A02_c, A02_e; interval with (i_prec 80). Qed.
Lemma d_A02_50u : close ctol (178769653393847 / 70368744177664) (volts_A02 (1583296745580737 / 70368744177664)).
Proof. apply (A02_q_volts_mid 1583296745580737 70368744177664 178769653393847 70368744177664); [vm_compute; reflexivity | unfold fr, close, ctol, A02_lo, A02_hi, A02_c, A02_e; interval with (i_prec 80)]. Qed.
Lemma d_A02_58u : close ctol (8308476880671015 / 18014398509481984) (volts_A02 (3439115733843889 / 17592186044416)).
Proof. apply (A02_q_volts_hi 3439115733843889 17592186044416 8308476880671015 18014398509481984); [vm_compute; reflexivity | unfold fr, close, ctol, A02_lo, A02_hi, A02_c, A02_e; interval with (i_prec 80)]. Qed.
Lemma d_A02_71u : close ctol (6702663538363903 / 9007199254740992) (volts_A02 (86 / 1)).
Proof. apply (A02_q_volts_mid 86 1 6702663538363903 9007199254740992); [vm_compute; reflexivity | unfold fr, close, ctol, A02_lo, A02_hi, A02_c, A02_e; interval with (i_prec 80)]. Qed.
Lemma d_A02_84u : close ctol (2657911355101463 / 4503599627370496) (volts_A02 (1948756016563839 / 17592186044416)).
Proof. apply (A02_q_volts_mid 1948756016563839 17592186044416 2657911355101463 4503599627370496); [vm_compute; reflexivity | unfold fr, close, ctol, A02_lo, A02_hi, A02_c, A02_e; interval with (i_prec 80)]. Qed.
Lemma d_A02_96r : rio_reads A02_c A02_e A02_lo A02_hi floor_volts ctol (Build_rio (Fin (4549025665298725 / 9007199254740992)) (Fin (5029 / 1024)) (Fin (115 / 32)) (Fin (15063 / 1024)) (Fin (13459 / 1024)) false true true ((Fin (39 / 64)) :: (Fin (313 / 1024)) :: (Fin (1871 / 1024)) :: (Fin (9647 / 1024)) :: (Fin (4579 / 1024)) :: (Fin (5853 / 512)) :: nil)) (2310114805181011 / 17592186044416).
Proof. apply (A02_rio_fin _ (4549025665298725 / 9007199254740992)); [reflexivity | apply (A02_q_mid 4549025665298725 9007199254740992 2310114805181011 17592186044416); [vm_compute; reflexivity | unfold fr, close, ctol, A02_c, A02_e; interval with (i_prec 80)]]. Qed.
Lemma d_A02_109u : close ctol (5995119832117399 / 4503599627370496) (volts_A02 (400839414438017 / 8796093022208)).
Proof. apply (A02_q_volts_mid 400839414438017 8796093022208 5995119832117399 4503599627370496); [vm_compute; reflexivity | unfold fr, close, ctol, A02_lo, A02_hi, A02_c, A02_e; interval with (i_prec 80)]. Qed.
Lemma d_A02_122u : close ctol (5630250857118097 / 4503599627370496) (volts_A02 (1717154548608173 / 35184372088832)).
Proof. apply (A02_q_volts_mid 1717154548608173 35184372088832 5630250857118097 4503599627370496); [vm_compute; reflexivity | unfold fr, close, ctol, A02_lo, A02_hi, A02_c, A02_e; interval with (i_prec 80)]. Qed.
Lemma d_A02_135u : close ctol (2332520158259365 / 4503599627370496) (volts_A02 (4494903159522723 / 35184372088832)).
Proof. apply (A02_q_volts_mid 4494903159522723 35184372088832 2332520158259365 4503599627370496); [vm_compute; reflexivity | unfold fr, close, ctol, A02_lo, A02_hi, A02_c, A02_e; interval with (i_prec 80)]. Qed.
Lemma d_A02_148u : close ctol (8308476880671015 / 18014398509481984) (volts_A02 (615509043665325 / 2199023255552)).
Proof. apply (A02_q_volts_hi 615509043665325 2199023255552 8308476880671015 18014398509481984); [vm_compute; reflexivity | unfold fr, close, ctol, A02_lo, A02_hi, A02_c, A02_e; interval with (i_prec 80)]. Qed.
Lemma d_A02_160r : rio_reads A02_c A02_e A02_lo A02_hi floor_volts ctol (Build_rio (Fin (4549564042309983 / 2251799813685248)) (Fin (363 / 256)) (Fin (3119 / 1024)) (Fin (5733 / 1024)) (Fin (12217 / 1024)) false false true ((Fin (51 / 512)) :: (Fin (361 / 256)) :: (Fin (2015 / 1024)) :: (Fin (23495 / 128)) :: (Fin (1507 / 256)) :: (Fin ((-5599) / 512)) :: nil)) (2033236606442587 / 70368744177664).
Proof. apply (A02_rio_fin _ (4549564042309983 / 2251799813685248)); [reflexivity | apply (A02_q_mid 4549564042309983 2251799813685248 2033236606442587 70368744177664); [vm_compute; reflexivity | unfold fr, close, ctol, A02_c, A02_e; interval with (i_prec 80)]]. Qed.
Lemma d_A02_173u : close ctol (3113173333554333 / 2251799813685248) (volts_A02 (6153793420040153 / 140737488355328)).
Proof. apply (A02_q_volts_mid 6153793420040153 140737488355328 3113173333554333 2251799813685248); [vm_compute; reflexivity | unfold fr, close, ctol, A02_lo, A02_hi, A02_c, A02_e; interval with (i_prec 80)]. Qed.
Lemma d_A02_186u : close ctol (7702246029096255 / 9007199254740992) (volts_A02 (162481630517293 / 2199023255552)).
Proof. apply (A02_q_volts_mid 162481630517293 2199023255552 7702246029096255 9007199254740992); [vm_compute; reflexivity | unfold fr, close, ctol, A02_lo, A02_hi, A02_c, A02_e; interval with (i_prec 80)]. Qed.
Lemma d_A02_199u : close ctol (357539307115111 / 140737488355328) (volts_A02 ((-207474732100977) / 281474976710656)).
Proof. apply (A02_q_volts_lo (-207474732100977) 281474976710656 357539307115111 140737488355328); [vm_compute; reflexivity | unfold fr, close, ctol, A02_lo, A02_hi, A02_c, A02_e; interval with (i_prec 80)]. Qed.
Lemma d_A02_212u : close ctol (5013903312258455 / 9007199254740992) (volts_A02 (8308991043793959 / 70368744177664)).
Proof. apply (A02_q_volts_mid 8308991043793959 70368744177664 5013903312258455 9007199254740992); [vm_compute; reflexivity | unfold fr, close, ctol, A02_lo, A02_hi, A02_c, A02_e; interval with (i_prec 80)]. Qed.
Lemma d_A02_224r : rio_reads A02_c A02_e A02_lo A02_hi floor_volts ctol (Build_rio (Fin (3783511258776815 / 4503599627370496)) PInf (Fin (2711 / 1024)) (Fin (2913 / 512)) (Fin (1589 / 128)) false true false ((Fin (1549 / 1024)) :: (Fin (13 / 8)) :: (Fin (941 / 1024)) :: (Fin (193351 / 1024)) :: (Fin (4273 / 512)) :: (Fin (7131 / 512)) :: nil)) (5300957285498969 / 70368744177664).
Proof. apply (A02_rio_fin _ (3783511258776815 / 4503599627370496)); [reflexivity | apply (A02_q_mid 3783511258776815 4503599627370496 5300957285498969 70368744177664); [vm_compute; reflexivity | unfold fr, close, ctol, A02_c, A02_e; interval with (i_prec 80)]]. Qed.
Lemma d_A02_237u : close ctol (8308476880671015 / 18014398509481984) (volts_A02 (332343539976117 / 1099511627776)).
Proof. apply (A02_q_volts_hi 332343539976117 1099511627776 8308476880671015 18014398509481984); [vm_compute; reflexivity | unfold fr, close, ctol, A02_lo, A02_hi, A02_c, A02_e; interval with (i_prec 80)]. Qed.
Lemma d_A02_250u : close ctol (8308476880671015 / 18014398509481984) (volts_A02 (95278893573091 / 549755813888)).
Proof. apply (A02_q_volts_hi 95278893573091 549755813888 8308476880671015 18014398509481984); [vm_compute; reflexivity | unfold fr, close, ctol, A02_lo, A02_hi, A02_c, A02_e; interval with (i_prec 80)]. Qed.
Lemma d_A02_263u : close ctol (8308476880671015 / 18014398509481984) (volts_A02 (1532758911482463 / 4398046511104)).
Proof. apply (A02_q_volts_hi 1532758911482463 4398046511104 8308476880671015 18014398509481984); [vm_compute; reflexivity | unfold fr, close, ctol, A02_lo, A02_hi, A02_c, A02_e; interval with (i_prec 80)]. Qed.
Lemma d_A02_276u : close ctol (3158904807908817 / 4503599627370496) (volts_A02 (6455379486170655 / 70368744177664)).
Proof. apply (A02_q_volts_mid 6455379486170655 70368744177664 3158904807908817 4503599627370496); [vm_compute; reflexivity | unfold fr, close, ctol, A02_lo, A02_hi, A02_c, A02_e; interval with (i_prec 80)]. Qed.
Lemma d_A02_288r : rio_reads A02_c A02_e A02_lo A02_hi floor_volts ctol (Build_rio (Fin (1061576404116599 / 1125899906842624)) (Fin (565 / 128)) (Fin (789 / 256)) (Fin (6219 / 1024)) (Fin (5902958103587057 / 590295810358705651712)) true true true ((Fin (23 / 128)) :: (Fin (769 / 1024)) :: (Fin (573 / 1024)) :: (Fin (121829 / 1024)) :: (Fin (2651 / 512)) :: (Fin ((-3463) / 256)) :: nil)) (2336670090453667 / 35184372088832).
Proof. apply (A02_rio_fin _ (1061576404116599 / 1125899906842624)); [reflexivity | apply (A02_q_mid 1061576404116599 1125899906842624 2336670090453667 35184372088832); [vm_compute; reflexivity | unfold fr, close, ctol, A02_c, A02_e; interval with (i_prec 80)]]. Qed.
Lemma d_A02_301u : close ctol (8154854836638949 / 9007199254740992) (volts_A02 (19082441512893 / 274877906944)).
Proof. apply (A02_q_volts_mid 19082441512893 274877906944 8154854836638949 9007199254740992); [vm_compute; reflexivity | unfold fr, close, ctol, A02_lo, A02_hi, A02_c, A02_e; interval with (i_prec 80)]. Qed.
Lemma d_A02_314u : close ctol (2316826380972937 / 4503599627370496) (volts_A02 (2264081187475875 / 17592186044416)).
Proof. apply (A02_q_volts_mid 2264081187475875 17592186044416 2316826380972937 4503599627370496); [vm_compute; reflexivity | unfold fr, close, ctol, A02_lo, A02_hi, A02_c, A02_e; interval with (i_prec 80)]. Qed.
Lemma d_A02_327u : close ctol (6558701272569245 / 9007199254740992) (volts_A02 (3098456082964169 / 35184372088832)).
Proof. apply (A02_q_volts_mid 3098456082964169 35184372088832 6558701272569245 9007199254740992); [vm_compute; reflexivity | unfold fr, close, ctol, A02_lo, A02_hi, A02_c, A02_e; interval with (i_prec 80)]. Qed.
Lemma d_A02_340u : close ctol (3861158167951263 / 4503599627370496) (volts_A02 (648082180494933 / 8796093022208)).
Proof. apply (A02_q_volts_mid 648082180494933 8796093022208 3861158167951263 4503599627370496); [vm_compute; reflexivity | unfold fr, close, ctol, A02_lo, A02_hi, A02_c, A02_e; interval with (i_prec 80)]. Qed.
Lemma d_A02_352r : rio_reads A02_c A02_e A02_lo A02_hi floor_volts ctol (Build_rio (Fin (5389635046164761 / 9007199254740992)) (Fin (669 / 128)) (Fin (863 / 256)) (Fin (6 / 1)) (Fin (11471 / 1024)) true false false ((Fin (119 / 64)) :: (Fin (881 / 512)) :: (Fin (189 / 64)) :: (Fin (41359 / 1024)) :: (Fin (4111 / 1024)) :: (Fin (32069 / 512)) :: nil)) (1919630417079317 / 17592186044416).
Proof. apply (A02_rio_fin _ (5389635046164761 / 9007199254740992)); [reflexivity | apply (A02_q_mid 5389635046164761 9007199254740992 1919630417079317 17592186044416); [vm_compute; reflexivity | unfold fr, close, ctol, A02_c, A02_e; interval with (i_prec 80)]]. Qed.
Lemma d_A02_365u : close ctol (2550649402715885 / 2251799813685248) (volts_A02 (3824972219371587 / 70368744177664)).
Proof. apply (A02_q_volts_mid 3824972219371587 70368744177664 2550649402715885 2251799813685248); [vm_compute; reflexivity | unfold fr, close, ctol, A02_lo, A02_hi, A02_c, A02_e; interval with (i_prec 80)]. Qed.
Lemma d_A02_378u : close ctol (6422803016438387 / 9007199254740992) (volts_A02 (6340232257287477 / 70368744177664)).
Proof. apply (A02_q_volts_mid 6340232257287477 70368744177664 6422803016438387 9007199254740992); [vm_compute; reflexivity | unfold fr, close, ctol, A02_lo, A02_hi, A02_c, A02_e; interval with (i_prec 80)]. Qed.
Lemma d_A02_391u : close ctol (3006810503382503 / 4503599627370496) (volts_A02 (851596514374387 / 8796093022208)).
Proof. apply (A02_q_volts_mid 851596514374387 8796093022208 3006810503382503 4503599627370496); [vm_compute; reflexivity | unfold fr, close, ctol, A02_lo, A02_hi, A02_c, A02_e; interval with (i_prec 80)]. Qed.
Lemma d_A02_404u : close ctol (5738075732631321 / 4503599627370496) (volts_A02 (1681949334218021 / 35184372088832)).
Proof. apply (A02_q_volts_mid 1681949334218021 35184372088832 5738075732631321 4503599627370496); [vm_compute; reflexivity | unfold fr, close, ctol, A02_lo, A02_hi, A02_c, A02_e; interval with (i_prec 80)]. Qed.
Lemma d_A02_416r : rio_reads A02_c A02_e A02_lo A02_hi floor_volts ctol (Build_rio (Fin (357539307115111 / 140737488355328)) (Fin (5317 / 1024)) (Fin (12619 / 1024)) (Fin ((-1) / 1)) (Fin (0 / 1)) true false true ((Fin (519 / 256)) :: (Fin (1665 / 1024)) :: (Fin (1929 / 1024)) :: (Fin (4751 / 64)) :: (Fin (8547 / 1024)) :: (Fin ((-2123) / 128)) :: nil)) (45 / 2).
Proof. apply (A02_rio_fin _ (357539307115111 / 140737488355328)); [reflexivity | apply (A02_q_lo 357539307115111 140737488355328 45 2); [vm_compute; reflexivity | unfold fr, ctol, A02_lo, A02_c, A02_e; interval with (i_prec 80)]]. Qed.
Lemma d_A02_429u : close ctol (360472289885005 / 562949953421312) (volts_A02 (891348066167233 / 8796093022208)).
Proof. apply (A02_q_volts_mid 891348066167233 8796093022208 360472289885005 562949953421312); [vm_compute; reflexivity | unfold fr, close, ctol, A02_lo, A02_hi, A02_c, A02_e; interval with (i_prec 80)]. Qed.
Lemma d_A02_442u : close ctol (2475407706571853 / 2251799813685248) (volts_A02 (1976053454897295 / 35184372088832)).
Proof. apply (A02_q_volts_mid 1976053454897295 35184372088832 2475407706571853 2251799813685248); [vm_compute; reflexivity | unfold fr, close, ctol, A02_lo, A02_hi, A02_c, A02_e; interval with (i_prec 80)]. Qed.
Lemma d_A02_455u : close ctol (8071368069853373 / 9007199254740992) (volts_A02 (308769333534765 / 4398046511104)).
Proof. apply (A02_q_volts_mid 308769333534765 4398046511104 8071368069853373 9007199254740992); [vm_compute; reflexivity | unfold fr, close, ctol, A02_lo, A02_hi, A02_c, A02_e; interval with (i_prec 80)]. Qed.
Lemma d_A02_468u : close ctol (5606639639729965 / 2251799813685248) (volts_A02 (23 / 1)).
Proof. apply (A02_q_volts_mid 23 1 5606639639729965 2251799813685248); [vm_compute; reflexivity | unfold fr, close, ctol, A02_lo, A02_hi, A02_c, A02_e; interval with (i_prec 80)]. Qed.
Lemma d_A02_480r : rio_reads A02_c A02_e A02_lo A02_hi floor_volts ctol (Build_rio (Fin (757622408496375 / 562949953421312)) (Fin (4471 / 1024)) (Fin (3715469692580659 / 1125899906842624)) (Fin (6 / 1)) (Fin (6299 / 1024)) false true true ((Fin (685 / 512)) :: (Fin (657 / 512)) :: (Fin (1259 / 512)) :: (Fin (193749 / 1024)) :: (Fin (3295 / 1024)) :: (Fin ((-14507) / 1024)) :: nil)) (1584342041456305 / 35184372088832).
Proof. apply (A02_rio_fin _ (757622408496375 / 562949953421312)); [reflexivity | apply (A02_q_mid 757622408496375 562949953421312 1584342041456305 35184372088832); [vm_compute; reflexivity | unfold fr, close, ctol, A02_c, A02_e; interval with (i_prec 80)]]. Qed.
Lemma d_A02_493u : close ctol (3214514330604665 / 4503599627370496) (volts_A02 (6333528050076271 / 70368744177664)).
Proof. apply (A02_q_volts_mid 6333528050076271 70368744177664 3214514330604665 4503599627370496); [vm_compute; reflexivity | unfold fr, close, ctol, A02_lo, A02_hi, A02_c, A02_e; interval with (i_prec 80)]. Qed.
Lemma d_A02_506u : close ctol (1421030855371665 / 2251799813685248) (volts_A02 (3622579261343553 / 35184372088832)).
Proof. apply (A02_q_volts_mid 3622579261343553 35184372088832 1421030855371665 2251799813685248); [vm_compute; reflexivity | unfold fr, close, ctol, A02_lo, A02_hi, A02_c, A02_e; interval with (i_prec 80)]. Qed.
Lemma d_A02_519u : close ctol (8308476880671015 / 18014398509481984) (volts_A02 (6688013260038631 / 549755813888)).
Proof. apply (A02_q_volts_hi 6688013260038631 549755813888 8308476880671015 18014398509481984); [vm_compute; reflexivity | unfold fr, close, ctol, A02_lo, A02_hi, A02_c, A02_e; interval with (i_prec 80)]. Qed.
Lemma d_A02_532u : close ctol (357539307115111 / 140737488355328) (volts_A02 ((-1290165269311363) / 281474976710656)).
Proof. apply (A02_q_volts_lo (-1290165269311363) 281474976710656 357539307115111 140737488355328); [vm_compute; reflexivity | unfold fr, close, ctol, A02_lo, A02_hi, A02_c, A02_e; interval with (i_prec 80)]. Qed.
Lemma d_A02_544r : rio_reads A02_c A02_e A02_lo A02_hi floor_volts ctol (Build_rio (Fin (4826553738042711 / 9007199254740992)) (Fin (15259 / 1024)) (Fin (1767 / 512)) (Fin (1637 / 256)) (Fin (10775 / 1024)) false true false ((Fin (867 / 512)) :: (Fin (499 / 512)) :: (Fin (1203 / 512)) :: (Fin (45589 / 256)) :: (Fin (5221 / 1024)) :: (Fin (19941 / 512)) :: nil)) (8661810340251097 / 70368744177664).
Proof. apply (A02_rio_fin _ (4826553738042711 / 9007199254740992)); [reflexivity | apply (A02_q_mid 4826553738042711 9007199254740992 8661810340251097 70368744177664); [vm_compute; reflexivity | unfold fr, close, ctol, A02_c, A02_e; interval with (i_prec 80)]]. Qed.
Lemma d_A02_557u : close ctol (20409742678687 / 8796093022208) (volts_A02 (6992142814913097 / 281474976710656)).
Proof. apply (A02_q_volts_mid 6992142814913097 281474976710656 20409742678687 8796093022208); [vm_compute; reflexivity | unfold fr, close, ctol, A02_lo, A02_hi, A02_c, A02_e; interval with (i_prec 80)]. Qed.
Lemma d_A02_570u : close ctol (2901323778795273 / 2251799813685248) (volts_A02 (1661521172120967 / 35184372088832)).
Proof. apply (A02_q_volts_mid 1661521172120967 35184372088832 2901323778795273 2251799813685248); [vm_compute; reflexivity | unfold fr, close, ctol, A02_lo, A02_hi, A02_c, A02_e; interval with (i_prec 80)]. Qed.
Lemma d_A02_583u : close ctol (357539307115111 / 140737488355328) (volts_A02 (1672546643088323 / 140737488355328)).
Proof. apply (A02_q_volts_lo 1672546643088323 140737488355328 357539307115111 140737488355328); [vm_compute; reflexivity | unfold fr, close, ctol, A02_lo, A02_hi, A02_c, A02_e; interval with (i_prec 80)]. Qed.
Lemma d_A02_596u : close ctol (8308476880671015 / 18014398509481984) (volts_A02 (178 / 1)).
Proof. apply (A02_q_volts_hi 178 1 8308476880671015 18014398509481984); [vm_compute; reflexivity | unfold fr, close, ctol, A02_lo, A02_hi, A02_c, A02_e; interval with (i_prec 80)]. Qed.
Lemma d_A02_608r : rio_reads A02_c A02_e A02_lo A02_hi floor_volts ctol (Build_rio (Fin (5722863563616743 / 4503599627370496)) (Fin (1 / 202402253307310618352495346718917307049556649764142118356901358027430339567995346891960383701437124495187077864316811911389808737385793476867013399940738509921517424276566361364466907742093216341239767678472745068562007483424692698618103355649159556340810056512358769552333414615230502532186327508646006263307707741093494784)) (Fin (351 / 128)) (Fin (685 / 128)) (Fin (4989 / 512)) true true false ((Fin (1225 / 512)) :: (Fin (1431 / 1024)) :: (Fin (997 / 512)) :: (Fin (17955 / 512)) :: (Fin (1761 / 256)) :: (Fin ((-3939) / 1024)) :: nil)) (6747328420787639 / 140737488355328).
Proof. apply (A02_rio_fin _ (5722863563616743 / 4503599627370496)); [reflexivity | apply (A02_q_mid 5722863563616743 4503599627370496 6747328420787639 140737488355328); [vm_compute; reflexivity | unfold fr, close, ctol, A02_c, A02_e; interval with (i_prec 80)]]. Qed.
Lemma d_A02_621u : close ctol (1843377401706893 / 2251799813685248) (volts_A02 (2726529220104211 / 35184372088832)).
Proof. apply (A02_q_volts_mid 2726529220104211 35184372088832 1843377401706893 2251799813685248); [vm_compute; reflexivity | unfold fr, close, ctol, A02_lo, A02_hi, A02_c, A02_e; interval with (i_prec 80)]. Qed.
Lemma d_A02_634u : close ctol (8308476880671015 / 18014398509481984) (volts_A02 (282 / 1)).
Proof. apply (A02_q_volts_hi 282 1 8308476880671015 18014398509481984); [vm_compute; reflexivity | unfold fr, close, ctol, A02_lo, A02_hi, A02_c, A02_e; interval with (i_prec 80)]. Qed.
Lemma d_A02_647u : close ctol (8308476880671015 / 18014398509481984) (volts_A02 (1091444085234987 / 4398046511104)).
Proof. apply (A02_q_volts_hi 1091444085234987 4398046511104 8308476880671015 18014398509481984); [vm_compute; reflexivity | unfold fr, close, ctol, A02_lo, A02_hi, A02_c, A02_e; interval with (i_prec 80)]. Qed.
Lemma d_A02_660u : close ctol (5376659751656007 / 2251799813685248) (volts_A02 (6776901996686193 / 281474976710656)).
Proof. apply (A02_q_volts_mid 6776901996686193 281474976710656 5376659751656007 2251799813685248); [vm_compute; reflexivity | unfold fr, close, ctol, A02_lo, A02_hi, A02_c, A02_e; interval with (i_prec 80)]. Qed.
Lemma r_A21_431 : rio_reads A21_c A21_e A21_lo A21_hi floor_volts ctol (Build_rio (Fin (20475 / 4096)) (Fin (2758454771764429 / 562949953421312)) (Fin (3715469692580659 / 1125899906842624)) (Fin (6 / 1)) (Fin (12 / 1)) true true true ((Fin (0 / 1)) :: (Fin (0 / 1)) :: (Fin (0 / 1)) :: (Fin (0 / 1)) :: (Fin (27 / 4)) :: (Fin (45 / 1)) :: nil)) (10 / 1).
Proof. apply (A21_rio_fin _ (20475 / 4096)); [reflexivity | apply (A21_q_lo 20475 4096 10 1); [vm_compute; reflexivity | unfold fr, ctol, A21_lo, A21_c, A21_e; interval with (i_prec 80)]]. Qed.
Lemma r_A21_464 : rio_reads A21_c A21_e A21_lo A21_hi floor_volts ctol (Build_rio (Fin (3651887551365849 / 9007199254740992)) (Fin (5 / 1)) (Fin (3715469692580659 / 1125899906842624)) (Fin (13 / 2)) (Fin (12 / 1)) true true true ((Fin (0 / 1)) :: (Fin (0 / 1)) :: (Fin (0 / 1)) :: (Fin (0 / 1)) :: (Fin (27 / 4)) :: (Fin (45 / 1)) :: nil)) (80 / 1).
Proof. apply (A21_rio_fin _ (3651887551365849 / 9007199254740992)); [reflexivity | apply (A21_q_hi 3651887551365849 9007199254740992 80 1); [vm_compute; reflexivity | unfold fr, ctol, A21_hi, A21_c, A21_e; interval with (i_prec 80)]]. Qed.
Lemma r_A21_480 : rio_reads A21_c A21_e A21_lo A21_hi floor_volts ctol (Build_rio (Fin (1665 / 4096)) (Fin (5 / 1)) (Fin (3715469692580659 / 1125899906842624)) (Fin (6 / 1)) (Fin (12 / 1)) true true true ((Fin (0 / 1)) :: (Fin (0 / 1)) :: (Fin (0 / 1)) :: (Fin (0 / 1)) :: (Fin (0 / 1)) :: (Fin (45 / 1)) :: nil)) (701452893086153 / 8796093022208).
Proof. apply (A21_rio_fin _ (1665 / 4096)); [reflexivity | apply (A21_q_mid 1665 4096 701452893086153 8796093022208); [vm_compute; reflexivity | unfold fr, close, ctol, A21_c, A21_e; interval with (i_prec 80)]]. Qed.
Lemma r_A21_496 : rio_reads A21_c A21_e A21_lo A21_hi floor_volts ctol (Build_rio (Fin (15 / 128)) (Fin (3459 / 256)) (Fin (3715469692580659 / 1125899906842624)) (Fin (3243 / 1024)) (Fin (12917 / 1024)) true true false ((Fin (89 / 64)) :: (Fin (73 / 128)) :: (Fin (619 / 512)) :: (Fin (935 / 8)) :: (Fin (6771 / 1024)) :: (Fin (5091 / 64)) :: nil)) (80 / 1).
Proof. apply (A21_rio_fin _ (15 / 128)); [reflexivity | apply (A21_q_hi 15 128 80 1); [vm_compute; reflexivity | unfold fr, ctol, A21_hi, A21_c, A21_e; interval with (i_prec 80)]]. Qed.
Lemma r_A21_512 : rio_reads A21_c A21_e A21_lo A21_hi floor_volts ctol (Build_rio (Fin (55 / 128)) (Fin (2419 / 512)) (Fin (571 / 128)) (Fin (6 / 1)) (Fin (12 / 1)) true true true ((Fin (1085 / 512)) :: (Fin (1713 / 1024)) :: (Fin (247 / 128)) :: (Fin (51679 / 1024)) :: (Fin (8281 / 1024)) :: (Fin (7553 / 256)) :: nil)) (5242564986063375 / 70368744177664).
Proof. apply (A21_rio_fin _ (55 / 128)); [reflexivity | apply (A21_q_mid 55 128 5242564986063375 70368744177664); [vm_compute; reflexivity | unfold fr, close, ctol, A21_c, A21_e; interval with (i_prec 80)]]. Qed.
Lemma r_A21_528 : rio_reads A21_c A21_e A21_lo A21_hi floor_volts ctol (Build_rio (Fin (95 / 128)) NInf (Fin (2803 / 1024)) (Fin (5503 / 1024)) (Fin (12 / 1)) true false true ((Fin (1709 / 1024)) :: (Fin (333 / 256)) :: (Fin (215 / 128)) :: (Fin (57219 / 512)) :: (Fin (3285 / 512)) :: (Fin (1129 / 32)) :: nil)) (2682497586270161 / 70368744177664).
Proof. apply (A21_rio_fin _ (95 / 128)); [reflexivity | apply (A21_q_mid 95 128 2682497586270161 70368744177664); [vm_compute; reflexivity | unfold fr, close, ctol, A21_c, A21_e; interval with (i_prec 80)]]. Qed.
Lemma r_A21_544 : rio_reads A21_c A21_e A21_lo A21_hi floor_volts ctol (Build_rio (Fin (135 / 128)) (Fin (3789 / 256)) (Fin (841 / 256)) (Fin (6 / 1)) (Fin (10887 / 1024)) true true true ((Fin (377 / 512)) :: (Fin (161 / 1024)) :: (Fin (933 / 512)) :: (Fin (12641 / 1024)) :: (Fin (8741 / 1024)) :: (Fin (36141 / 1024)) :: nil)) (6974278263404721 / 281474976710656).
Proof. apply (A21_rio_fin _ (135 / 128)); [reflexivity | apply (A21_q_mid 135 128 6974278263404721 281474976710656); [vm_compute; reflexivity | unfold fr, close, ctol, A21_c, A21_e; interval with (i_prec 80)]]. Qed.
Lemma r_A21_560 : rio_reads A21_c A21_e A21_lo A21_hi floor_volts ctol (Build_rio (Fin (175 / 128)) (Fin (1081 / 256)) (Fin (2881 / 1024)) (Fin (5523 / 1024)) (Fin (10043 / 1024)) true true false ((Fin (165 / 64)) :: (Fin (1009 / 512)) :: (Fin (1357 / 512)) :: (Fin (101369 / 1024)) :: (Fin (2585 / 512)) :: (Fin ((-14665) / 1024)) :: nil)) (1268422193523665 / 70368744177664).
Proof. apply (A21_rio_fin _ (175 / 128)); [reflexivity | apply (A21_q_mid 175 128 1268422193523665 70368744177664); [vm_compute; reflexivity | unfold fr, close, ctol, A21_c, A21_e; interval with (i_prec 80)]]. Qed.
Lemma r_A21_576 : rio_reads A21_c A21_e A21_lo A21_hi floor_volts ctol (Build_rio (Fin (215 / 128)) (Fin (2559 / 512)) (Fin (5811 / 1024)) (Fin (10937 / 1024)) (Fin (1187 / 128)) true true true ((Fin (1603 / 1024)) :: (Fin (77 / 512)) :: (Fin (2175 / 1024)) :: (Fin (146161 / 1024)) :: (Fin (4793 / 1024)) :: (Fin ((-2285) / 256)) :: nil)) (3942020871854627 / 281474976710656).
Proof. apply (A21_rio_fin _ (215 / 128)); [reflexivity | apply (A21_q_mid 215 128 3942020871854627 281474976710656); [vm_compute; reflexivity | unfold fr, close, ctol, A21_c, A21_e; interval with (i_prec 80)]]. Qed.
Lemma r_A21_592 : rio_reads A21_c A21_e A21_lo A21_hi floor_volts ctol (Build_rio (Fin (255 / 128)) (Fin (4353 / 1024)) (Fin (3421 / 1024)) (Fin (6 / 1)) (Fin (11681 / 1024)) true false true ((Fin (145 / 256)) :: (Fin (237 / 512)) :: (Fin (183 / 512)) :: (Fin (154117 / 1024)) :: (Fin (551 / 64)) :: (Fin (25147 / 256)) :: nil)) (3197939255086217 / 281474976710656).
Proof. apply (A21_rio_fin _ (255 / 128)); [reflexivity | apply (A21_q_mid 255 128 3197939255086217 281474976710656); [vm_compute; reflexivity | unfold fr, close, ctol, A21_c, A21_e; interval with (i_prec 80)]]. Qed.
Lemma r_A21_608 : rio_reads A21_c A21_e A21_lo A21_hi floor_volts ctol (Build_rio (Fin (295 / 128)) (Fin (2417 / 512)) (Fin (1775 / 512)) (Fin (5335 / 1024)) (Fin (6051 / 512)) false true true ((Fin (385 / 256)) :: (Fin (877 / 512)) :: (Fin (513 / 256)) :: (Fin (182715 / 1024)) :: (Fin (2267 / 256)) :: (Fin (23961 / 256)) :: nil)) (10 / 1).
Proof. apply (A21_rio_fin _ (295 / 128)); [reflexivity | apply (A21_q_lo 295 128 10 1); [vm_compute; reflexivity | unfold fr, ctol, A21_lo, A21_c, A21_e; interval with (i_prec 80)]]. Qed.
Lemma r_A21_624 : rio_reads A21_c A21_e A21_lo A21_hi floor_volts ctol (Build_rio (Fin (335 / 128)) (Fin (2123 / 512)) (Fin (13433 / 1024)) (Fin (1 / 1)) (Fin (11589 / 1024)) false true true ((Fin (2107 / 1024)) :: (Fin (487 / 1024)) :: (Fin (2119 / 1024)) :: (Fin (12933 / 256)) :: (Fin (137 / 32)) :: (Fin ((-12385) / 1024)) :: nil)) (10 / 1).
Proof. apply (A21_rio_fin _ (335 / 128)); [reflexivity | apply (A21_q_lo 335 128 10 1); [vm_compute; reflexivity | unfold fr, ctol, A21_lo, A21_c, A21_e; interval with (i_prec 80)]]. Qed.
Lemma r_A21_640 : rio_reads A21_c A21_e A21_lo A21_hi floor_volts ctol (Build_rio (Fin (375 / 128)) (Fin (2805 / 512)) (Fin (1363 / 512)) (Fin (1445 / 256)) (Fin (10019 / 1024)) true false false ((Fin (661 / 1024)) :: (Fin (1233 / 1024)) :: (Fin (903 / 1024)) :: (Fin (76213 / 512)) :: (Fin (7019 / 1024)) :: (Fin (3657 / 1024)) :: nil)) (10 / 1).
Proof. apply (A21_rio_fin _ (375 / 128)); [reflexivity | apply (A21_q_lo 375 128 10 1); [vm_compute; reflexivity | unfold fr, ctol, A21_lo, A21_c, A21_e; interval with (i_prec 80)]]. Qed.
Lemma r_A21_656 : rio_reads A21_c A21_e A21_lo A21_hi floor_volts ctol (Build_rio (Fin (415 / 128)) (Fin (5261 / 1024)) (Fin (5411 / 512)) (Fin ((-12) / 1)) (Fin (207 / 16)) true false true ((Fin (2939 / 1024)) :: (Fin (679 / 1024)) :: (Fin (1989 / 1024)) :: (Fin (165265 / 1024)) :: (Fin (3689 / 1024)) :: (Fin (65269 / 1024)) :: nil)) (10 / 1).
Proof. apply (A21_rio_fin _ (415 / 128)); [reflexivity | apply (A21_q_lo 415 128 10 1); [vm_compute; reflexivity | unfold fr, ctol, A21_lo, A21_c, A21_e; interval with (i_prec 80)]]. Qed.
Lemma r_A21_672 : rio_reads A21_c A21_e A21_lo A21_hi floor_volts ctol (Build_rio (Fin (455 / 128)) (Fin (1203 / 256)) (Fin (3443 / 256)) (Fin (6 / 1)) (Fin (4481 / 1024)) true true false ((Fin (2227 / 1024)) :: (Fin (421 / 512)) :: (Fin (1367 / 1024)) :: (Fin (187933 / 1024)) :: (Fin (3073 / 512)) :: (Fin (43729 / 1024)) :: nil)) (10 / 1).
Proof. apply (A21_rio_fin _ (455 / 128)); [reflexivity | apply (A21_q_lo 455 128 10 1); [vm_compute; reflexivity | unfold fr, ctol, A21_lo, A21_c, A21_e; interval with (i_prec 80)]]. Qed.
Lemma r_A21_688 : rio_reads A21_c A21_e A21_lo A21_hi floor_volts ctol (Build_rio (Fin (495 / 128)) (Fin (13205 / 1024)) (Fin (3401 / 1024)) (Fin (5903 / 1024)) (Fin (383 / 1024)) true true true ((Fin (2805 / 1024)) :: (Fin (303 / 512)) :: (Fin (1037 / 1024)) :: (Fin (61645 / 512)) :: (Fin (2183 / 512)) :: (Fin (3241 / 512)) :: nil)) (10 / 1).
Proof. apply (A21_rio_fin _ (495 / 128)); [reflexivity | apply (A21_q_lo 495 128 10 1); [vm_compute; reflexivity | unfold fr, ctol, A21_lo, A21_c, A21_e; interval with (i_prec 80)]]. Qed.
Lemma r_A21_704 : rio_reads A21_c A21_e A21_lo A21_hi floor_volts ctol (Build_rio (Fin (535 / 128)) (Fin (2597 / 512)) (Fin (3593 / 1024)) (Fin (473 / 32)) (Fin (119 / 16)) true true true ((Fin (1345 / 1024)) :: (Fin (23 / 256)) :: (Fin (331 / 512)) :: (Fin (12207 / 1024)) :: (Fin (6073 / 1024)) :: (Fin (84269 / 1024)) :: nil)) (10 / 1).
Proof. apply (A21_rio_fin _ (535 / 128)); [reflexivity | apply (A21_q_lo 535 128 10 1); [vm_compute; reflexivity | unfold fr, ctol, A21_lo, A21_c, A21_e; interval with (i_prec 80)]]. Qed.
Lemma r_A21_720 : rio_reads A21_c A21_e A21_lo A21_hi floor_volts ctol (Build_rio (Fin (575 / 128)) (Fin (1 / 1)) (Fin ((-1) / 1)) (Fin (6 / 1)) (Fin (383 / 32)) true true true ((Fin (1919 / 1024)) :: (Fin (141 / 512)) :: (Fin (299 / 256)) :: (Fin (5099 / 512)) :: (Fin (2749 / 512)) :: (Fin ((-803) / 512)) :: nil)) (10 / 1).
Proof. apply (A21_rio_fin _ (575 / 128)); [reflexivity | apply (A21_q_lo 575 128 10 1); [vm_compute; reflexivity | unfold fr, ctol, A21_lo, A21_c, A21_e; interval with (i_prec 80)]]. Qed.
Lemma r_A21_736 : rio_reads A21_c A21_e A21_lo A21_hi floor_volts ctol (Build_rio (Fin (615 / 128)) (Fin (4935 / 1024)) (Fin (3715469692580659 / 1125899906842624)) (Fin (5265 / 1024)) (Fin (12623 / 1024)) true true true ((Fin (2639 / 1024)) :: (Fin (2045 / 1024)) :: (Fin (89 / 32)) :: (Fin (10429 / 64)) :: (Fin (2245 / 512)) :: (Fin (64849 / 1024)) :: nil)) (10 / 1).
Proof. apply (A21_rio_fin _ (615 / 128)); [reflexivity | apply (A21_q_lo 615 128 10 1); [vm_compute; reflexivity | unfold fr, ctol, A21_lo, A21_c, A21_e; interval with (i_prec 80)]]. Qed.
Lemma r_A21_752 : rio_reads A21_c A21_e A21_lo A21_hi floor_volts ctol (Build_rio (Fin (1202532849377385 / 4503599627370496)) (Fin (1033 / 256)) NInf (Fin (3191 / 512)) PInf true true true ((Fin (499 / 256)) :: (Fin (273 / 256)) :: (Fin (1055 / 512)) :: (Fin (54879 / 1024)) :: (Fin (8615 / 1024)) :: (Fin (19093 / 1024)) :: nil)) (80 / 1).
Proof. apply (A21_rio_fin _ (1202532849377385 / 4503599627370496)); [reflexivity | apply (A21_q_hi 1202532849377385 4503599627370496 80 1); [vm_compute; reflexivity | unfold fr, ctol, A21_hi, A21_c, A21_e; interval with (i_prec 80)]]. Qed.
Lemma r_A21_768 : rio_reads A21_c A21_e A21_lo A21_hi floor_volts ctol (Build_rio (Fin (1781769404236917 / 1125899906842624)) (Fin (5 / 1)) (Fin (421 / 128)) (Fin (10607 / 1024)) (Fin (12181 / 1024)) true true true ((Fin (135 / 256)) :: (Fin (359 / 256)) :: (Fin (483 / 1024)) :: (Fin (93885 / 512)) :: (Fin (7587 / 1024)) :: (Fin (93753 / 1024)) :: nil)) (4240761487401343 / 281474976710656).
Proof. apply (A21_rio_fin _ (1781769404236917 / 1125899906842624)); [reflexivity | apply (A21_q_mid 1781769404236917 1125899906842624 4240761487401343 281474976710656); [vm_compute; reflexivity | unfold fr, close, ctol, A21_c, A21_e; interval with (i_prec 80)]]. Qed.
Lemma r_A21_784 : rio_reads A21_c A21_e A21_lo A21_hi floor_volts ctol (Build_rio (Fin (3705958626451383 / 1125899906842624)) (Fin (651 / 128)) (Fin (2985 / 1024)) (Fin (3169 / 512)) (Fin (2487 / 256)) false true false ((Fin (143 / 128)) :: (Fin (95 / 512)) :: (Fin (333 / 256)) :: (Fin (80737 / 512)) :: (Fin (9117 / 1024)) :: (Fin (102311 / 1024)) :: nil)) (10 / 1).
Proof. apply (A21_rio_fin _ (3705958626451383 / 1125899906842624)); [reflexivity | apply (A21_q_lo 3705958626451383 1125899906842624 10 1); [vm_compute; reflexivity | unfold fr, ctol, A21_lo, A21_c, A21_e; interval with (i_prec 80)]]. Qed.
Lemma r_A21_800 : rio_reads A21_c A21_e A21_lo A21_hi floor_volts ctol (Build_rio (Fin (26639683468245 / 9007199254740992)) (Fin (1669 / 256)) (Fin (1589 / 512)) (Fin (5241 / 1024)) (Fin (0 / 1)) false true false ((Fin (709 / 512)) :: (Fin (1149 / 1024)) :: (Fin (1699 / 1024)) :: (Fin (145111 / 1024)) :: (Fin (2109 / 512)) :: (Fin (22921 / 1024)) :: nil)) (80 / 1).
Proof. apply (A21_rio_fin _ (26639683468245 / 9007199254740992)); [reflexivity | apply (A21_q_hi 26639683468245 9007199254740992 80 1); [vm_compute; reflexivity | unfold fr, ctol, A21_hi, A21_c, A21_e; interval with (i_prec 80)]]. Qed.
Lemma r_A21_817 : rio_reads A21_c A21_e A21_lo A21_hi floor_volts ctol (Build_rio (Fin (23579742499837 / 281474976710656)) (Fin (5 / 1)) (Fin (751 / 256)) (Fin (5351 / 1024)) (Fin (6309 / 512)) true true true ((Fin (387 / 512)) :: (Fin (19 / 16)) :: (Fin (741 / 256)) :: (Fin (513 / 4)) :: (Fin (1881 / 256)) :: (Fin (33 / 1024)) :: nil)) (80 / 1).
Proof. apply (A21_rio_fin _ (23579742499837 / 281474976710656)); [reflexivity | apply (A21_q_hi 23579742499837 281474976710656 80 1); [vm_compute; reflexivity | unfold fr, ctol, A21_hi, A21_c, A21_e; interval with (i_prec 80)]]. Qed.
Lemma r_A21_841 : rio_reads A21_c A21_e A21_lo A21_hi floor_volts ctol (Build_rio (Fin (3644411233945191 / 4611686018427387904)) (Fin (1791 / 128)) (Fin (3609 / 1024)) (Fin (1685 / 256)) (Fin (1311 / 128)) false true false ((Fin (303 / 1024)) :: (Fin (51 / 512)) :: (Fin (753 / 1024)) :: (Fin (94891 / 1024)) :: (Fin (5491 / 1024)) :: (Fin (8843 / 512)) :: nil)) (80 / 1).
Proof. apply (A21_rio_fin _ (3644411233945191 / 4611686018427387904)); [reflexivity | apply (A21_q_hi 3644411233945191 4611686018427387904 80 1); [vm_compute; reflexivity | unfold fr, ctol, A21_hi, A21_c, A21_e; interval with (i_prec 80)]]. Qed.
Lemma d_A21_672r : rio_reads A21_c A21_e A21_lo A21_hi floor_volts ctol (Build_rio (Fin (7303775102731699 / 18014398509481984)) (Fin (5 / 1)) (Fin (3715469692580659 / 1125899906842624)) (Fin (6 / 1)) (Fin (12 / 1)) true true true ((Fin (0 / 1)) :: (Fin (0 / 1)) :: (Fin (0 / 1)) :: (Fin (0 / 1)) :: (Fin (27 / 4)) :: (Fin (45 / 1)) :: nil)) (80 / 1).
Proof. apply (A21_rio_fin _ (7303775102731699 / 18014398509481984)); [reflexivity | apply (A21_q_hi 7303775102731699 18014398509481984 80 1); [vm_compute; reflexivity | unfold fr, ctol, A21_hi, A21_c, A21_e; interval with (i_prec 80)]]. Qed.
Lemma d_A21_680r : rio_reads A21_c A21_e A21_lo A21_hi floor_volts ctol (Build_rio (Fin (7303775102731699 / 18014398509481984)) (Fin (0 / 1)) (Fin (3715469692580659 / 1125899906842624)) (Fin (6 / 1)) (Fin (12 / 1)) true true true ((Fin (0 / 1)) :: (Fin (0 / 1)) :: (Fin (0 / 1)) :: (Fin (0 / 1)) :: (Fin (27 / 4)) :: (Fin (45 / 1)) :: nil)) (80 / 1).
Proof. apply (A21_rio_fin _ (7303775102731699 / 18014398509481984)); [reflexivity | apply (A21_q_hi 7303775102731699 18014398509481984 80 1); [vm_compute; reflexivity | unfold fr, ctol, A21_hi, A21_c, A21_e; interval with (i_prec 80)]]. Qed.
Lemma d_A21_688r : rio_reads A21_c A21_e A21_lo A21_hi floor_volts ctol (Build_rio (Fin (2489100355631953 / 1125899906842624)) PInf (Fin (3715469692580659 / 1125899906842624)) (Fin (6 / 1)) (Fin (12 / 1)) true true true ((Fin (0 / 1)) :: (Fin (0 / 1)) :: (Fin (0 / 1)) :: (Fin (0 / 1)) :: (Fin (27 / 4)) :: (Fin (45 / 1)) :: nil)) (10 / 1).
Proof. apply (A21_rio_fin _ (2489100355631953 / 1125899906842624)); [reflexivity | apply (A21_q_lo 2489100355631953 1125899906842624 10 1); [vm_compute; reflexivity | unfold fr, ctol, A21_lo, A21_c, A21_e; interval with (i_prec 80)]]. Qed.
Lemma d_A21_696r : rio_reads A21_c A21_e A21_lo A21_hi floor_volts ctol (Build_rio (Fin (2489100355631953 / 1125899906842624)) (Fin (5 / 1)) (Fin (3715469692580659 / 1125899906842624)) (Fin (6 / 1)) (Fin ((-1) / 1)) true true true ((Fin (0 / 1)) :: (Fin (0 / 1)) :: (Fin (0 / 1)) :: (Fin (0 / 1)) :: (Fin (27 / 4)) :: (Fin (45 / 1)) :: nil)) (10 / 1).
Proof. apply (A21_rio_fin _ (2489100355631953 / 1125899906842624)); [reflexivity | apply (A21_q_lo 2489100355631953 1125899906842624 10 1); [vm_compute; reflexivity | unfold fr, ctol, A21_lo, A21_c, A21_e; interval with (i_prec 80)]]. Qed.
Lemma d_A21_704r : rio_reads A21_c A21_e A21_lo A21_hi floor_volts ctol (Build_rio (Fin (7303775102731699 / 18014398509481984)) (Fin (5 / 1)) (Fin ((-1) / 1)) (Fin (6 / 1)) (Fin (12 / 1)) true true true ((Fin (0 / 1)) :: (Fin (0 / 1)) :: (Fin (0 / 1)) :: (Fin (0 / 1)) :: (Fin (27 / 4)) :: (Fin (45 / 1)) :: nil)) (80 / 1).
Proof. apply (A21_rio_fin _ (7303775102731699 / 18014398509481984)); [reflexivity | apply (A21_q_hi 7303775102731699 18014398509481984 80 1); [vm_compute; reflexivity | unfold fr, ctol, A21_hi, A21_c, A21_e; interval with (i_prec 80)]]. Qed.
Lemma d_A21_712r : rio_reads A21_c A21_e A21_lo A21_hi floor_volts ctol (Build_rio (Fin (2489100355631953 / 1125899906842624)) (Fin (5 / 1)) (Fin (3715469692580659 / 1125899906842624)) (Fin (6 / 1)) (Fin (12 / 1)) false true true ((Fin (0 / 1)) :: (Fin (0 / 1)) :: (Fin (0 / 1)) :: (Fin (0 / 1)) :: (Fin (27 / 4)) :: (Fin (45 / 1)) :: nil)) (10 / 1).
Proof. apply (A21_rio_fin _ (2489100355631953 / 1125899906842624)); [reflexivity | apply (A21_q_lo 2489100355631953 1125899906842624 10 1); [vm_compute; reflexivity | unfold fr, ctol, A21_lo, A21_c, A21_e; interval with (i_prec 80)]]. Qed.
Lemma d_A21_720r : rio_reads A21_c A21_e A21_lo A21_hi floor_volts ctol (Build_rio (Fin (7303775102731699 / 18014398509481984)) (Fin (5 / 1)) (Fin (3715469692580659 / 1125899906842624)) (Fin (6 / 1)) (Fin (12 / 1)) true true true ((Fin (0 / 1)) :: (Fin (0 / 1)) :: (Fin (0 / 1)) :: (Fin (40 / 1)) :: (Fin (27 / 4)) :: (Fin (45 / 1)) :: nil)) (80 / 1).
Proof. apply (A21_rio_fin _ (7303775102731699 / 18014398509481984)); [reflexivity | apply (A21_q_hi 7303775102731699 18014398509481984 80 1); [vm_compute; reflexivity | unfold fr, ctol, A21_hi, A21_c, A21_e; interval with (i_prec 80)]]. Qed.
Lemma d_A21_731u : close ctol (5407698855532687 / 9007199254740992) (volts_A21 (434863348010461 / 8796093022208)).
Proof. apply (A21_q_volts_mid 434863348010461 8796093022208 5407698855532687 9007199254740992); [vm_compute; reflexivity | unfold fr, close, ctol, A21_lo, A21_hi, A21_c, A21_e; interval with (i_prec 80)]. Qed.
Lemma d_A21_744u : close ctol (8949663992025193 / 9007199254740992) (volts_A21 (7503451077521231 / 281474976710656)).
Proof. apply (A21_q_volts_mid 7503451077521231 281474976710656 8949663992025193 9007199254740992); [vm_compute; reflexivity | unfold fr, close, ctol, A21_lo, A21_hi, A21_c, A21_e; interval with (i_prec 80)]. Qed.
Lemma d_A21_756r : rio_reads A21_c A21_e A21_lo A21_hi floor_volts ctol (Build_rio (Fin (2489100355631953 / 1125899906842624)) (Fin (5902958103587057 / 590295810358705651712)) (Fin (2849 / 1024)) (Fin (5527 / 512)) (Fin (11649 / 1024)) false true true ((Fin (2957 / 1024)) :: (Fin (39 / 32)) :: (Fin (201 / 1024)) :: (Fin (73673 / 512)) :: (Fin (3987 / 1024)) :: (Fin ((-19215) / 1024)) :: nil)) (10 / 1).
Proof. apply (A21_rio_fin _ (2489100355631953 / 1125899906842624)); [reflexivity | apply (A21_q_lo 2489100355631953 1125899906842624 10 1); [vm_compute; reflexivity | unfold fr, ctol, A21_lo, A21_c, A21_e; interval with (i_prec 80)]]. Qed.
Lemma d_A21_769u : close ctol (7796978070113995 / 18014398509481984) (volts_A21 (5196096771146241 / 70368744177664)).
Proof. apply (A21_q_volts_mid 5196096771146241 70368744177664 7796978070113995 18014398509481984); [vm_compute; reflexivity | unfold fr, close, ctol, A21_lo, A21_hi, A21_c, A21_e; interval with (i_prec 80)]. Qed.
Lemma d_A21_782u : close ctol (2618473626038971 / 2251799813685248) (volts_A21 (6187617503941977 / 281474976710656)).
Proof. apply (A21_q_volts_mid 6187617503941977 281474976710656 2618473626038971 2251799813685248); [vm_compute; reflexivity | unfold fr, close, ctol, A21_lo, A21_hi, A21_c, A21_e; interval with (i_prec 80)]. Qed.
Lemma d_A21_795u : close ctol (4713626631329417 / 4503599627370496) (volts_A21 (3520058548575201 / 140737488355328)).
Proof. apply (A21_q_volts_mid 3520058548575201 140737488355328 4713626631329417 4503599627370496); [vm_compute; reflexivity | unfold fr, close, ctol, A21_lo, A21_hi, A21_c, A21_e; interval with (i_prec 80)]. Qed.
Lemma d_A21_808u : close ctol (2145148576251387 / 1125899906842624) (volts_A21 (12 / 1)).
Proof. apply (A21_q_volts_mid 12 1 2145148576251387 1125899906842624); [vm_compute; reflexivity | unfold fr, close, ctol, A21_lo, A21_hi, A21_c, A21_e; interval with (i_prec 80)]. Qed.
Lemma d_A21_820r : rio_reads A21_c A21_e A21_lo A21_hi floor_volts ctol (Build_rio (Fin (2558975202771669 / 4503599627370496)) (Fin (909 / 128)) (Fin (1713 / 512)) (Fin (0 / 1)) (Fin (100000000000000001097906362944045541740492309677311846336810682903157585404911491537163328978494688899061249669721172515611590283743140088328307009198146046031271664502933027185697489699588559043338384466165001178426897626212945177628091195786707458122783970171784415105291802893207873272974885715430223118336 / 1)) true true true ((Fin (2541 / 1024)) :: (Fin (487 / 512)) :: (Fin (2857 / 1024)) :: (Fin (72211 / 512)) :: (Fin (1673 / 256)) :: (Fin (14379 / 256)) :: nil)) (7443793648303347 / 140737488355328).
Proof. apply (A21_rio_fin _ (2558975202771669 / 4503599627370496)); [reflexivity | apply (A21_q_mid 2558975202771669 4503599627370496 7443793648303347 140737488355328); [vm_compute; reflexivity | unfold fr, close, ctol, A21_c, A21_e; interval with (i_prec 80)]]. Qed.
Lemma d_A21_833u : close ctol (2489100355631953 / 1125899906842624) (volts_A21 (3250530590406925 / 1125899906842624)).
Proof. apply (A21_q_volts_lo 3250530590406925 1125899906842624 2489100355631953 1125899906842624); [vm_compute; reflexivity | unfold fr, close, ctol, A21_lo, A21_hi, A21_c, A21_e; interval with (i_prec 80)]. Qed.
Lemma d_A21_846u : close ctol (8019593805186959 / 18014398509481984) (volts_A21 (627477410186297 / 8796093022208)).
Proof. apply (A21_q_volts_mid 627477410186297 8796093022208 8019593805186959 18014398509481984); [vm_compute; reflexivity | unfold fr, close, ctol, A21_lo, A21_hi, A21_c, A21_e; interval with (i_prec 80)]. Qed.
Lemma d_A21_859u : close ctol (4167987306582079 / 2251799813685248) (volts_A21 (1749809662630103 / 140737488355328)).
Proof. apply (A21_q_volts_mid 1749809662630103 140737488355328 4167987306582079 2251799813685248); [vm_compute; reflexivity | unfold fr, close, ctol, A21_lo, A21_hi, A21_c, A21_e; interval with (i_prec 80)]. Qed.
Lemma d_A21_872u : close ctol (2869131057770665 / 4503599627370496) (volts_A21 (6469658578338843 / 140737488355328)).
Proof. apply (A21_q_volts_mid 6469658578338843 140737488355328 2869131057770665 4503599627370496); [vm_compute; reflexivity | unfold fr, close, ctol, A21_lo, A21_hi, A21_c, A21_e; interval with (i_prec 80)]. Qed.
Lemma d_A21_884r : rio_reads A21_c A21_e A21_lo A21_hi floor_volts ctol (Build_rio (Fin (3616733623635505 / 4503599627370496)) (Fin (5329 / 1024)) (Fin (7315 / 512)) (Fin (6 / 1)) (Fin (629 / 1024)) true false true ((Fin (1209 / 1024)) :: (Fin (135 / 1024)) :: (Fin (141 / 256)) :: (Fin (145421 / 1024)) :: (Fin (9003 / 1024)) :: (Fin (43157 / 1024)) :: nil)) (2435326994198665 / 70368744177664).
Proof. apply (A21_rio_fin _ (3616733623635505 / 4503599627370496)); [reflexivity | apply (A21_q_mid 3616733623635505 4503599627370496 2435326994198665 70368744177664); [vm_compute; reflexivity | unfold fr, close, ctol, A21_c, A21_e; interval with (i_prec 80)]]. Qed.
Lemma d_A21_897u : close ctol (2489100355631953 / 1125899906842624) (volts_A21 (3174973253048301 / 562949953421312)).
Proof. apply (A21_q_volts_lo 3174973253048301 562949953421312 2489100355631953 1125899906842624); [vm_compute; reflexivity | unfold fr, close, ctol, A21_lo, A21_hi, A21_c, A21_e; interval with (i_prec 80)]. Qed.
Lemma d_A21_910u : close ctol (325374329405239 / 562949953421312) (volts_A21 (7289757873780063 / 140737488355328)).
Proof. apply (A21_q_volts_mid 7289757873780063 140737488355328 325374329405239 562949953421312); [vm_compute; reflexivity | unfold fr, close, ctol, A21_lo, A21_hi, A21_c, A21_e; interval with (i_prec 80)]. Qed.
Lemma d_A21_923u : close ctol (8949969942879837 / 9007199254740992) (volts_A21 (3751568303499561 / 140737488355328)).
Proof. apply (A21_q_volts_mid 3751568303499561 140737488355328 8949969942879837 9007199254740992); [vm_compute; reflexivity | unfold fr, close, ctol, A21_lo, A21_hi, A21_c, A21_e; interval with (i_prec 80)]. Qed.
Lemma d_A21_936u : close ctol (8967246323234431 / 4503599627370496) (volts_A21 (6400048594787809 / 562949953421312)).
Proof. apply (A21_q_volts_mid 6400048594787809 562949953421312 8967246323234431 4503599627370496); [vm_compute; reflexivity | unfold fr, close, ctol, A21_lo, A21_hi, A21_c, A21_e; interval with (i_prec 80)]. Qed.
Lemma d_A21_948r : rio_reads A21_c A21_e A21_lo A21_hi floor_volts ctol (Build_rio (Fin (7303775102731699 / 18014398509481984)) (Fin (5 / 1)) (Fin (3715469692580659 / 1125899906842624)) (Fin (827 / 128)) (Fin (10953 / 1024)) true true true ((Fin (1003 / 512)) :: (Fin (517 / 1024)) :: (Fin (203 / 512)) :: (Fin (161785 / 1024)) :: (Fin (1697 / 512)) :: (Fin ((-2517) / 256)) :: nil)) (80 / 1).
Proof. apply (A21_rio_fin _ (7303775102731699 / 18014398509481984)); [reflexivity | apply (A21_q_hi 7303775102731699 18014398509481984 80 1); [vm_compute; reflexivity | unfold fr, ctol, A21_hi, A21_c, A21_e; interval with (i_prec 80)]]. Qed.
Lemma d_A21_961u : close ctol (1015597381174331 / 2251799813685248) (volts_A21 (2470130639508957 / 35184372088832)).
Proof. apply (A21_q_volts_mid 2470130639508957 35184372088832 1015597381174331 2251799813685248); [vm_compute; reflexivity | unfold fr, close, ctol, A21_lo, A21_hi, A21_c, A21_e; interval with (i_prec 80)]. Qed.
Lemma d_A21_974u : close ctol (8959588631567633 / 18014398509481984) (volts_A21 (8764027101885467 / 140737488355328)).
Proof. apply (A21_q_volts_mid 8764027101885467 140737488355328 8959588631567633 18014398509481984); [vm_compute; reflexivity | unfold fr, close, ctol, A21_lo, A21_hi, A21_c, A21_e; interval with (i_prec 80)]. Qed.
Lemma d_A21_987u : close ctol (70365769430417 / 35184372088832) (volts_A21 (1591397923444039 / 140737488355328)).
Proof. apply (A21_q_volts_mid 1591397923444039 140737488355328 70365769430417 35184372088832); [vm_compute; reflexivity | unfold fr, close, ctol, A21_lo, A21_hi, A21_c, A21_e; interval with (i_prec 80)]. Qed.
Lemma d_A21_1000u : close ctol (5492999812292631 / 9007199254740992) (volts_A21 (6825579994405661 / 140737488355328)).
Proof. apply (A21_q_volts_mid 6825579994405661 140737488355328 5492999812292631 9007199254740992); [vm_compute; reflexivity | unfold fr, close, ctol, A21_lo, A21_hi, A21_c, A21_e; interval with (i_prec 80)]. Qed.
Lemma d_A21_1012r : rio_reads A21_c A21_e A21_lo A21_hi floor_volts ctol (Build_rio (Fin (1826433419533659 / 2251799813685248)) (Fin (2211 / 512)) (Fin (1767 / 512)) (Fin (5255 / 1024)) (Fin (14549 / 1024)) false true true ((Fin (3067 / 1024)) :: (Fin (1847 / 1024)) :: (Fin (731 / 512)) :: (Fin (98289 / 1024)) :: (Fin (8063 / 1024)) :: (Fin (10119 / 512)) :: nil)) (2405826209688825 / 70368744177664).
Proof. apply (A21_rio_fin _ (1826433419533659 / 2251799813685248)); [reflexivity | apply (A21_q_mid 1826433419533659 2251799813685248 2405826209688825 70368744177664); [vm_compute; reflexivity | unfold fr, close, ctol, A21_c, A21_e; interval with (i_prec 80)]]. Qed.
Lemma d_A21_1025u : close ctol (4487633788875901 / 9007199254740992) (volts_A21 (4372630417906679 / 70368744177664)).
Proof. apply (A21_q_volts_mid 4372630417906679 70368744177664 4487633788875901 9007199254740992); [vm_compute; reflexivity | unfold fr, close, ctol, A21_lo, A21_hi, A21_c, A21_e; interval with (i_prec 80)]. Qed.
Lemma d_A21_1038u : close ctol (8020701004048553 / 9007199254740992) (volts_A21 (1072807514414707 / 35184372088832)).
Proof. apply (A21_q_volts_mid 1072807514414707 35184372088832 8020701004048553 9007199254740992); [vm_compute; reflexivity | unfold fr, close, ctol, A21_lo, A21_hi, A21_c, A21_e; interval with (i_prec 80)]. Qed.
Lemma d_A21_1051u : close ctol (2489100355631953 / 1125899906842624) (volts_A21 (116424777782257 / 562949953421312)).
Proof. apply (A21_q_volts_lo 116424777782257 562949953421312 2489100355631953 1125899906842624); [vm_compute; reflexivity | unfold fr, close, ctol, A21_lo, A21_hi, A21_c, A21_e; interval with (i_prec 80)]. Qed.
Lemma d_A21_1064u : close ctol (1547073711056801 / 2251799813685248) (volts_A21 (2948832281692279 / 70368744177664)).
Proof. apply (A21_q_volts_mid 2948832281692279 70368744177664 1547073711056801 2251799813685248); [vm_compute; reflexivity | unfold fr, close, ctol, A21_lo, A21_hi, A21_c, A21_e; interval with (i_prec 80)]. Qed.
Lemma d_A21_1076r : rio_reads A21_c A21_e A21_lo A21_hi floor_volts ctol (Build_rio (Fin (7942371589414837 / 9007199254740992)) (Fin (2181 / 512)) (Fin (879 / 256)) (Fin (6371 / 1024)) (Fin (669 / 512)) false true true ((Fin (2349 / 1024)) :: (Fin (517 / 1024)) :: (Fin (1267 / 1024)) :: (Fin (25689 / 1024)) :: (Fin (8493 / 1024)) :: (Fin ((-16185) / 1024)) :: nil)) (8686346693082697 / 281474976710656).
Proof. apply (A21_rio_fin _ (7942371589414837 / 9007199254740992)); [reflexivity | apply (A21_q_mid 7942371589414837 9007199254740992 8686346693082697 281474976710656); [vm_compute; reflexivity | unfold fr, close, ctol, A21_c, A21_e; interval with (i_prec 80)]]. Qed.
Lemma d_A21_1089u : close ctol (4542384510539565 / 4503599627370496) (volts_A21 (7366874606948521 / 281474976710656)).
Proof. apply (A21_q_volts_mid 7366874606948521 281474976710656 4542384510539565 4503599627370496); [vm_compute; reflexivity | unfold fr, close, ctol, A21_lo, A21_hi, A21_c, A21_e; interval with (i_prec 80)]. Qed.
Lemma d_A21_1102u : close ctol (3950346924750487 / 9007199254740992) (volts_A21 (1278148523739645 / 17592186044416)).
Proof. apply (A21_q_volts_mid 1278148523739645 17592186044416 3950346924750487 9007199254740992); [vm_compute; reflexivity | unfold fr, close, ctol, A21_lo, A21_hi, A21_c, A21_e; interval with (i_prec 80)]. Qed.
Lemma d_A21_1115u : close ctol (2489100355631953 / 1125899906842624) (volts_A21 (4588100510728091 / 562949953421312)).
Proof. apply (A21_q_volts_lo 4588100510728091 562949953421312 2489100355631953 1125899906842624); [vm_compute; reflexivity | unfold fr, close, ctol, A21_lo, A21_hi, A21_c, A21_e; interval with (i_prec 80)]. Qed.
Lemma d_A21_1128u : close ctol (3562490354689995 / 4503599627370496) (volts_A21 (2480866004526197 / 70368744177664)).
Proof. apply (A21_q_volts_mid 2480866004526197 70368744177664 3562490354689995 4503599627370496); [vm_compute; reflexivity | unfold fr, close, ctol, A21_lo, A21_hi, A21_c, A21_e; interval with (i_prec 80)]. Qed.
Lemma d_A21_1140r : rio_reads A21_c A21_e A21_lo A21_hi floor_volts ctol (Build_rio (Fin (7549547448360301 / 9007199254740992)) (Fin (11123 / 1024)) (Fin (1503 / 512)) (Fin (1463 / 256)) (Fin (0 / 1)) false true false ((Fin (2529 / 1024)) :: (Fin (35 / 32)) :: (Fin (385 / 256)) :: (Fin (24743 / 512)) :: (Fin (1421 / 256)) :: (Fin ((-2221) / 256)) :: nil)) (4621841676390325 / 140737488355328).
Proof. apply (A21_rio_fin _ (7549547448360301 / 9007199254740992)); [reflexivity | apply (A21_q_mid 7549547448360301 9007199254740992 4621841676390325 140737488355328); [vm_compute; reflexivity | unfold fr, close, ctol, A21_c, A21_e; interval with (i_prec 80)]]. Qed.
Lemma d_A21_1153u : close ctol (2489100355631953 / 1125899906842624) (volts_A21 (1512801218331235 / 281474976710656)).
Proof. apply (A21_q_volts_lo 1512801218331235 281474976710656 2489100355631953 1125899906842624); [vm_compute; reflexivity | unfold fr, close, ctol, A21_lo, A21_hi, A21_c, A21_e; interval with (i_prec 80)]. Qed.
Lemma d_A21_1166u : close ctol (5848446940997275 / 4503599627370496) (volts_A21 (1351019511808585 / 70368744177664)).
Proof. apply (A21_q_volts_mid 1351019511808585 70368744177664 5848446940997275 4503599627370496); [vm_compute; reflexivity | unfold fr, close, ctol, A21_lo, A21_hi, A21_c, A21_e; interval with (i_prec 80)]. Qed.
Lemma d_A21_1179u : close ctol (7925321923765717 / 18014398509481984) (volts_A21 (2546561448433681 / 35184372088832)).
Proof. apply (A21_q_volts_mid 2546561448433681 35184372088832 7925321923765717 18014398509481984); [vm_compute; reflexivity | unfold fr, close, ctol, A21_lo, A21_hi, A21_c, A21_e; interval with (i_prec 80)]. Qed.
Lemma d_A21_1192u : close ctol (8581961904105575 / 18014398509481984) (volts_A21 (4619571997793085 / 70368744177664)).
Proof. apply (A21_q_volts_mid 4619571997793085 70368744177664 8581961904105575 18014398509481984); [vm_compute; reflexivity | unfold fr, close, ctol, A21_lo, A21_hi, A21_c, A21_e; interval with (i_prec 80)]. Qed.
Lemma d_A21_1204r : rio_reads A21_c A21_e A21_lo A21_hi floor_volts ctol (Build_rio (Fin (2489100355631953 / 1125899906842624)) (Fin (1 / 1)) (Fin (2955 / 1024)) (Fin (5241 / 512)) (Fin (12 / 1)) true true true ((Fin (607 / 1024)) :: (Fin (1917 / 1024)) :: (Fin (885 / 512)) :: (Fin (52725 / 512)) :: (Fin (1999 / 256)) :: (Fin ((-827) / 128)) :: nil)) (10 / 1).
Proof. apply (A21_rio_fin _ (2489100355631953 / 1125899906842624)); [reflexivity | apply (A21_q_lo 2489100355631953 1125899906842624 10 1); [vm_compute; reflexivity | unfold fr, ctol, A21_lo, A21_c, A21_e; interval with (i_prec 80)]]. Qed.
Lemma d_A21_1217u : close ctol (6727976291226499 / 9007199254740992) (volts_A21 (332690032758281 / 8796093022208)).
Proof. apply (A21_q_volts_mid 332690032758281 8796093022208 6727976291226499 9007199254740992); [vm_compute; reflexivity | unfold fr, close, ctol, A21_lo, A21_hi, A21_c, A21_e; interval with (i_prec 80)]. Qed.
Lemma d_A21_1230u : close ctol (2107206135836223 / 1125899906842624) (volts_A21 (863103707452779 / 70368744177664)).
Proof. apply (A21_q_volts_mid 863103707452779 70368744177664 2107206135836223 1125899906842624); [vm_compute; reflexivity | unfold fr, close, ctol, A21_lo, A21_hi, A21_c, A21_e; interval with (i_prec 80)]. Qed.
Lemma d_A21_1243u : close ctol (1903547186271215 / 2251799813685248) (volts_A21 (4573782733827459 / 140737488355328)).
Proof. apply (A21_q_volts_mid 4573782733827459 140737488355328 1903547186271215 2251799813685248); [vm_compute; reflexivity | unfold fr, close, ctol, A21_lo, A21_hi, A21_c, A21_e; interval with (i_prec 80)]. Qed.
Lemma d_A21_1256u : close ctol (6768237939885709 / 9007199254740992) (volts_A21 (1321061426917439 / 35184372088832)).
Proof. apply (A21_q_volts_mid 1321061426917439 35184372088832 6768237939885709 9007199254740992); [vm_compute; reflexivity | unfold fr, close, ctol, A21_lo, A21_hi, A21_c, A21_e; interval with (i_prec 80)]. Qed.
Lemma d_A21_1268r : rio_reads A21_c A21_e A21_lo A21_hi floor_volts ctol (Build_rio (Fin (1266327660032407 / 2251799813685248)) (Fin (137 / 32)) (Fin (2779 / 1024)) (Fin (6 / 1)) (Fin (13421 / 1024)) true true true ((Fin (1389 / 512)) :: (Fin (105 / 128)) :: (Fin (185 / 1024)) :: (Fin (23333 / 128)) :: (Fin (3803 / 512)) :: (Fin (74425 / 1024)) :: nil)) (1884686241608835 / 35184372088832).
Proof. apply (A21_rio_fin _ (1266327660032407 / 2251799813685248)); [reflexivity | apply (A21_q_mid 1266327660032407 2251799813685248 1884686241608835 35184372088832); [vm_compute; reflexivity | unfold fr, close, ctol, A21_c, A21_e; interval with (i_prec 80)]]. Qed.
Lemma d_A21_1281u : close ctol (2489100355631953 / 1125899906842624) (volts_A21 (3029958368567157 / 562949953421312)).
Proof. apply (A21_q_volts_lo 3029958368567157 562949953421312 2489100355631953 1125899906842624); [vm_compute; reflexivity | unfold fr, close, ctol, A21_lo, A21_hi, A21_c, A21_e; interval with (i_prec 80)]. Qed.
Lemma d_A21_1294u : close ctol (7303775102731699 / 18014398509481984) (volts_A21 (2608696511033375 / 17592186044416)).
Proof. apply (A21_q_volts_hi 2608696511033375 17592186044416 7303775102731699 18014398509481984); [vm_compute; reflexivity | unfold fr, close, ctol, A21_lo, A21_hi, A21_c, A21_e; interval with (i_prec 80)]. Qed.
Lemma d_A21_1307u : close ctol (2489100355631953 / 1125899906842624) (volts_A21 (660964963532321 / 281474976710656)).
Proof. apply (A21_q_volts_lo 660964963532321 281474976710656 2489100355631953 1125899906842624); [vm_compute; reflexivity | unfold fr, close, ctol, A21_lo, A21_hi, A21_c, A21_e; interval with (i_prec 80)]. Qed.
Lemma d_A21_1320u : close ctol (6179343192451399 / 9007199254740992) (volts_A21 (2954070365781561 / 70368744177664)).
Proof. apply (A21_q_volts_mid 2954070365781561 70368744177664 6179343192451399 9007199254740992); [vm_compute; reflexivity | unfold fr, close, ctol, A21_lo, A21_hi, A21_c, A21_e; interval with (i_prec 80)]. Qed.
Lemma d_A21_1332r : rio_reads A21_c A21_e A21_lo A21_hi floor_volts ctol (Build_rio (Fin (3703779492641775 / 9007199254740992)) (Fin (15155 / 1024)) PInf (Fin (2615 / 512)) (Fin (12901 / 1024)) true false false ((Fin (1061 / 512)) :: (Fin (1931 / 1024)) :: (Fin (1431 / 512)) :: (Fin (9021 / 64)) :: (Fin (2065 / 512)) :: (Fin (15967 / 256)) :: nil)) (5532955724574417 / 70368744177664).
Proof. apply (A21_rio_fin _ (3703779492641775 / 9007199254740992)); [reflexivity | apply (A21_q_mid 3703779492641775 9007199254740992 5532955724574417 70368744177664); [vm_compute; reflexivity | unfold fr, close, ctol, A21_c, A21_e; interval with (i_prec 80)]]. Qed.
Lemma r_A41_878 : rio_reads A41_c A41_e A41_lo A41_hi floor_volts ctol (Build_rio (Fin (11 / 2)) (Fin (5 / 1)) (Fin (3715469692580659 / 1125899906842624)) (Fin (6 / 1)) (Fin (7 / 1)) true true true ((Fin (0 / 1)) :: (Fin (0 / 1)) :: (Fin (0 / 1)) :: (Fin (0 / 1)) :: (Fin (27 / 4)) :: (Fin (45 / 1)) :: nil)) (9 / 2).
Proof. apply (A41_rio_fin _ (11 / 2)); [reflexivity | apply (A41_q_lo 11 2 9 2); [vm_compute; reflexivity | unfold fr, ctol, A41_lo, A41_c, A41_e; interval with (i_prec 80)]]. Qed.
Lemma r_A41_896 : rio_reads A41_c A41_e A41_lo A41_hi floor_volts ctol (Build_rio (Fin (6546965765033533 / 2251799813685248)) (Fin (5 / 1)) (Fin (3715469692580659 / 1125899906842624)) (Fin (0 / 1)) (Fin (12 / 1)) true true true ((Fin (0 / 1)) :: (Fin (0 / 1)) :: (Fin (0 / 1)) :: (Fin (0 / 1)) :: (Fin (27 / 4)) :: (Fin (45 / 1)) :: nil)) (9 / 2).
Proof. apply (A41_rio_fin _ (6546965765033533 / 2251799813685248)); [reflexivity | apply (A41_q_lo 6546965765033533 2251799813685248 9 2); [vm_compute; reflexivity | unfold fr, ctol, A41_lo, A41_c, A41_e; interval with (i_prec 80)]]. Qed.
Lemma r_A41_912 : rio_reads A41_c A41_e A41_lo A41_hi floor_volts ctol (Build_rio (Fin (745 / 256)) (Fin (5 / 1)) (Fin (3715469692580659 / 1125899906842624)) (Fin (6 / 1)) (Fin (12 / 1)) true true true ((Fin (0 / 1)) :: (Fin (0 / 1)) :: (Fin (0 / 1)) :: (Fin (0 / 1)) :: (Fin (27 / 4)) :: (Fin (0 / 1)) :: nil)) (9 / 2).
Proof. apply (A41_rio_fin _ (745 / 256)); [reflexivity | apply (A41_q_lo 745 256 9 2); [vm_compute; reflexivity | unfold fr, ctol, A41_lo, A41_c, A41_e; interval with (i_prec 80)]]. Qed.
Lemma r_A41_928 : rio_reads A41_c A41_e A41_lo A41_hi floor_volts ctol (Build_rio (Fin (35 / 128)) NInf (Fin (1841 / 512)) (Fin (6 / 1)) (Fin (12 / 1)) true true false ((Fin (451 / 512)) :: (Fin (597 / 512)) :: (Fin (2323 / 1024)) :: (Fin (1253 / 64)) :: (Fin (3595 / 1024)) :: (Fin (44153 / 1024)) :: nil)) (35 / 1).
Proof. apply (A41_rio_fin _ (35 / 128)); [reflexivity | apply (A41_q_hi 35 128 35 1); [vm_compute; reflexivity | unfold fr, ctol, A41_hi, A41_c, A41_e; interval with (i_prec 80)]]. Qed.
Lemma r_A41_944 : rio_reads A41_c A41_e A41_lo A41_hi floor_volts ctol (Build_rio (Fin (75 / 128)) (Fin (4143 / 1024)) (Fin (3143 / 1024)) (Fin (6345 / 1024)) (Fin (12 / 1)) false true true ((Fin (2789 / 1024)) :: (Fin (355 / 512)) :: (Fin (1421 / 512)) :: (Fin (78435 / 512)) :: (Fin (6079 / 1024)) :: (Fin (39993 / 1024)) :: nil)) (3055186377736653 / 140737488355328).
Proof. apply (A41_rio_fin _ (75 / 128)); [reflexivity | apply (A41_q_mid 75 128 3055186377736653 140737488355328); [vm_compute; reflexivity | unfold fr, close, ctol, A41_c, A41_e; interval with (i_prec 80)]]. Qed.
Lemma r_A41_960 : rio_reads A41_c A41_e A41_lo A41_hi floor_volts ctol (Build_rio (Fin (115 / 128)) (Fin (100000000000000001097906362944045541740492309677311846336810682903157585404911491537163328978494688899061249669721172515611590283743140088328307009198146046031271664502933027185697489699588559043338384466165001178426897626212945177628091195786707458122783970171784415105291802893207873272974885715430223118336 / 1)) (Fin (1457 / 512)) (Fin (339 / 512)) (Fin (11131 / 1024)) true true true ((Fin (679 / 512)) :: (Fin (9 / 16)) :: (Fin (2733 / 1024)) :: (Fin (63151 / 1024)) :: (Fin (887 / 128)) :: (Fin (95531 / 1024)) :: nil)) (8030236336016657 / 562949953421312).
Proof. apply (A41_rio_fin _ (115 / 128)); [reflexivity | apply (A41_q_mid 115 128 8030236336016657 562949953421312); [vm_compute; reflexivity | unfold fr, close, ctol, A41_c, A41_e; interval with (i_prec 80)]]. Qed.
Lemma r_A41_976 : rio_reads A41_c A41_e A41_lo A41_hi floor_volts ctol (Build_rio (Fin (155 / 128)) (Fin (100000000000000001097906362944045541740492309677311846336810682903157585404911491537163328978494688899061249669721172515611590283743140088328307009198146046031271664502933027185697489699588559043338384466165001178426897626212945177628091195786707458122783970171784415105291802893207873272974885715430223118336 / 1)) (Fin (6619 / 512)) (Fin (1 / 202402253307310618352495346718917307049556649764142118356901358027430339567995346891960383701437124495187077864316811911389808737385793476867013399940738509921517424276566361364466907742093216341239767678472745068562007483424692698618103355649159556340810056512358769552333414615230502532186327508646006263307707741093494784)) (Fin ((-1) / 1)) true true true ((Fin (1945 / 1024)) :: (Fin (21 / 256)) :: (Fin (295 / 128)) :: (Fin (4301 / 256)) :: (Fin (4575 / 512)) :: (Fin ((-4735) / 512)) :: nil)) (2994649710533587 / 281474976710656).
Proof. apply (A41_rio_fin _ (155 / 128)); [reflexivity | apply (A41_q_mid 155 128 2994649710533587 281474976710656); [vm_compute; reflexivity | unfold fr, close, ctol, A41_c, A41_e; interval with (i_prec 80)]]. Qed.
Lemma r_A41_992 : rio_reads A41_c A41_e A41_lo A41_hi floor_volts ctol (Build_rio (Fin (195 / 128)) (Fin (5 / 1)) (Fin (3749 / 1024)) (Fin (619 / 128)) (Fin (3523 / 512)) true true true ((Fin (2241 / 1024)) :: (Fin (207 / 256)) :: (Fin (729 / 1024)) :: (Fin (65973 / 512)) :: (Fin (4323 / 1024)) :: (Fin (95737 / 1024)) :: nil)) (597499981612949 / 70368744177664).
Proof. apply (A41_rio_fin _ (195 / 128)); [reflexivity | apply (A41_q_mid 195 128 597499981612949 70368744177664); [vm_compute; reflexivity | unfold fr, close, ctol, A41_c, A41_e; interval with (i_prec 80)]]. Qed.
Lemma r_A41_1008 : rio_reads A41_c A41_e A41_lo A41_hi floor_volts ctol (Build_rio (Fin (235 / 128)) (Fin (649 / 128)) (Fin (3715469692580659 / 1125899906842624)) (Fin (1441 / 256)) (Fin (11577 / 1024)) true true true ((Fin (171 / 128)) :: (Fin (1529 / 1024)) :: (Fin (255 / 128)) :: (Fin (53579 / 1024)) :: (Fin (3847 / 1024)) :: (Fin (3717 / 64)) :: nil)) (3979429522501529 / 562949953421312).
Proof. apply (A41_rio_fin _ (235 / 128)); [reflexivity | apply (A41_q_mid 235 128 3979429522501529 562949953421312); [vm_compute; reflexivity | unfold fr, close, ctol, A41_c, A41_e; interval with (i_prec 80)]]. Qed.
Lemma r_A41_1024 : rio_reads A41_c A41_e A41_lo A41_hi floor_volts ctol (Build_rio (Fin (275 / 128)) (Fin (5269 / 1024)) (Fin (3715469692580659 / 1125899906842624)) (Fin (5902958103587057 / 590295810358705651712)) (Fin (12863 / 1024)) true true false ((Fin (1047 / 512)) :: (Fin (345 / 1024)) :: (Fin (1267 / 1024)) :: (Fin (12031 / 512)) :: (Fin (7563 / 1024)) :: (Fin (10855 / 1024)) :: nil)) (6820048179514695 / 1125899906842624).
Proof. apply (A41_rio_fin _ (275 / 128)); [reflexivity | apply (A41_q_mid 275 128 6820048179514695 1125899906842624); [vm_compute; reflexivity | unfold fr, close, ctol, A41_c, A41_e; interval with (i_prec 80)]]. Qed.
Lemma r_A41_1040 : rio_reads A41_c A41_e A41_lo A41_hi floor_volts ctol (Build_rio (Fin (315 / 128)) (Fin (887 / 1024)) (Fin (3405 / 1024)) (Fin (11853 / 1024)) (Fin (12263 / 1024)) true true true ((Fin (1767 / 1024)) :: (Fin (1271 / 1024)) :: (Fin (1455 / 512)) :: (Fin (15539 / 256)) :: (Fin (337 / 64)) :: (Fin (94209 / 1024)) :: nil)) (373016128622239 / 70368744177664).
Proof. apply (A41_rio_fin _ (315 / 128)); [reflexivity | apply (A41_q_mid 315 128 373016128622239 70368744177664); [vm_compute; reflexivity | unfold fr, close, ctol, A41_c, A41_e; interval with (i_prec 80)]]. Qed.
Lemma r_A41_1056 : rio_reads A41_c A41_e A41_lo A41_hi floor_volts ctol (Build_rio (Fin (355 / 128)) (Fin (7391 / 512)) PInf (Fin (100000000000000001097906362944045541740492309677311846336810682903157585404911491537163328978494688899061249669721172515611590283743140088328307009198146046031271664502933027185697489699588559043338384466165001178426897626212945177628091195786707458122783970171784415105291802893207873272974885715430223118336 / 1)) (Fin (11025 / 1024)) true true true ((Fin (1009 / 1024)) :: (Fin (997 / 1024)) :: (Fin (1305 / 512)) :: (Fin (200803 / 1024)) :: (Fin (3821 / 1024)) :: (Fin ((-2941) / 512)) :: nil)) (5306932295830739 / 1125899906842624).
Proof. apply (A41_rio_fin _ (355 / 128)); [reflexivity | apply (A41_q_mid 355 128 5306932295830739 1125899906842624); [vm_compute; reflexivity | unfold fr, close, ctol, A41_c, A41_e; interval with (i_prec 80)]]. Qed.
Lemma r_A41_1072 : rio_reads A41_c A41_e A41_lo A41_hi floor_volts ctol (Build_rio (Fin (795 / 256)) (Fin (1171 / 256)) (Fin (2971 / 1024)) (Fin (6 / 1)) (Fin (5902958103587057 / 590295810358705651712)) true false true ((Fin (791 / 512)) :: (Fin (1505 / 1024)) :: (Fin (1187 / 512)) :: (Fin (26757 / 512)) :: (Fin (1723 / 512)) :: (Fin (17003 / 512)) :: nil)) (9 / 2).
Proof. apply (A41_rio_fin _ (795 / 256)); [reflexivity | apply (A41_q_lo 795 256 9 2); [vm_compute; reflexivity | unfold fr, ctol, A41_lo, A41_c, A41_e; interval with (i_prec 80)]]. Qed.
Lemma r_A41_1088 : rio_reads A41_c A41_e A41_lo A41_hi floor_volts ctol (Build_rio (Fin (875 / 256)) (Fin (477 / 64)) (Fin (3287 / 1024)) (Fin (699 / 128)) (Fin (12 / 1)) false true true ((Fin (3039 / 1024)) :: (Fin (39 / 128)) :: (Fin (1301 / 512)) :: (Fin (35869 / 256)) :: (Fin (7031 / 1024)) :: (Fin (4787 / 1024)) :: nil)) (9 / 2).
Proof. apply (A41_rio_fin _ (875 / 256)); [reflexivity | apply (A41_q_lo 875 256 9 2); [vm_compute; reflexivity | unfold fr, ctol, A41_lo, A41_c, A41_e; interval with (i_prec 80)]]. Qed.
Lemma r_A41_1104 : rio_reads A41_c A41_e A41_lo A41_hi floor_volts ctol (Build_rio (Fin (955 / 256)) (Fin (1 / 202402253307310618352495346718917307049556649764142118356901358027430339567995346891960383701437124495187077864316811911389808737385793476867013399940738509921517424276566361364466907742093216341239767678472745068562007483424692698618103355649159556340810056512358769552333414615230502532186327508646006263307707741093494784)) (Fin ((-1) / 1)) (Fin (6 / 1)) (Fin (3079 / 256)) true true true ((Fin (741 / 512)) :: (Fin (1017 / 512)) :: (Fin (447 / 256)) :: (Fin (95119 / 512)) :: (Fin (3139 / 1024)) :: (Fin (18037 / 1024)) :: nil)) (9 / 2).
Proof. apply (A41_rio_fin _ (955 / 256)); [reflexivity | apply (A41_q_lo 955 256 9 2); [vm_compute; reflexivity | unfold fr, ctol, A41_lo, A41_c, A41_e; interval with (i_prec 80)]]. Qed.
Lemma r_A41_1120 : rio_reads A41_c A41_e A41_lo A41_hi floor_volts ctol (Build_rio (Fin (1035 / 256)) (Fin (579 / 128)) (Fin (713 / 256)) (Fin (2373 / 1024)) (Fin (5841 / 512)) true false true ((Fin (599 / 512)) :: (Fin (877 / 512)) :: (Fin (1203 / 1024)) :: (Fin (10037 / 1024)) :: (Fin (1005 / 256)) :: (Fin (10249 / 1024)) :: nil)) (9 / 2).
Proof. apply (A41_rio_fin _ (1035 / 256)); [reflexivity | apply (A41_q_lo 1035 256 9 2); [vm_compute; reflexivity | unfold fr, ctol, A41_lo, A41_c, A41_e; interval with (i_prec 80)]]. Qed.
Lemma r_A41_1136 : rio_reads A41_c A41_e A41_lo A41_hi floor_volts ctol (Build_rio (Fin (1115 / 256)) (Fin (11627 / 1024)) (Fin ((-12) / 1)) (Fin (6179 / 1024)) NInf true false true ((Fin (905 / 512)) :: (Fin (649 / 512)) :: (Fin (1487 / 512)) :: (Fin (128759 / 1024)) :: (Fin (2301 / 512)) :: (Fin (6113 / 1024)) :: nil)) (9 / 2).
Proof. apply (A41_rio_fin _ (1115 / 256)); [reflexivity | apply (A41_q_lo 1115 256 9 2); [vm_compute; reflexivity | unfold fr, ctol, A41_lo, A41_c, A41_e; interval with (i_prec 80)]]. Qed.
Lemma r_A41_1152 : rio_reads A41_c A41_e A41_lo A41_hi floor_volts ctol (Build_rio (Fin (1195 / 256)) (Fin (15177 / 1024)) (Fin (10879 / 1024)) (Fin (6011 / 1024)) (Fin (5235 / 512)) true true false ((Fin (2891 / 1024)) :: (Fin (139 / 256)) :: (Fin (69 / 256)) :: (Fin (38327 / 1024)) :: (Fin (2111 / 512)) :: (Fin (13537 / 1024)) :: nil)) (9 / 2).
Proof. apply (A41_rio_fin _ (1195 / 256)); [reflexivity | apply (A41_q_lo 1195 256 9 2); [vm_compute; reflexivity | unfold fr, ctol, A41_lo, A41_c, A41_e; interval with (i_prec 80)]]. Qed.
Lemma r_A41_1168 : rio_reads A41_c A41_e A41_lo A41_hi floor_volts ctol (Build_rio (Fin (1275 / 256)) (Fin (4197 / 1024)) (Fin (3219 / 1024)) (Fin (2651 / 512)) (Fin (12721 / 1024)) true true false ((Fin (701 / 256)) :: (Fin (1389 / 1024)) :: (Fin (605 / 256)) :: (Fin (40847 / 1024)) :: (Fin (8401 / 1024)) :: (Fin (17593 / 1024)) :: nil)) (9 / 2).
Proof. apply (A41_rio_fin _ (1275 / 256)); [reflexivity | apply (A41_q_lo 1275 256 9 2); [vm_compute; reflexivity | unfold fr, ctol, A41_lo, A41_c, A41_e; interval with (i_prec 80)]]. Qed.
Lemma r_A41_1184 : rio_reads A41_c A41_e A41_lo A41_hi floor_volts ctol (Build_rio (Fin (232055242718775 / 4503599627370496)) (Fin (83 / 16)) (Fin (2937 / 1024)) (Fin (5257 / 1024)) (Fin (10791 / 1024)) true true false ((Fin (1771 / 1024)) :: (Fin (427 / 512)) :: (Fin (2687 / 1024)) :: (Fin (111991 / 1024)) :: (Fin (6697 / 1024)) :: (Fin ((-13599) / 1024)) :: nil)) (35 / 1).
Proof. apply (A41_rio_fin _ (232055242718775 / 4503599627370496)); [reflexivity | apply (A41_q_hi 232055242718775 4503599627370496 35 1); [vm_compute; reflexivity | unfold fr, ctol, A41_hi, A41_c, A41_e; interval with (i_prec 80)]]. Qed.
Lemma r_A41_1200 : rio_reads A41_c A41_e A41_lo A41_hi floor_volts ctol (Build_rio (Fin (2632107313303165 / 4503599627370496)) (Fin (5131 / 512)) (Fin (735 / 256)) (Fin (0 / 1)) (Fin (11353 / 1024)) true true false ((Fin (15 / 512)) :: (Fin (121 / 256)) :: (Fin (245 / 128)) :: (Fin (176821 / 1024)) :: (Fin (6999 / 1024)) :: (Fin (11241 / 256)) :: nil)) (6125699514705931 / 281474976710656).
Proof. apply (A41_rio_fin _ (2632107313303165 / 4503599627370496)); [reflexivity | apply (A41_q_mid 2632107313303165 4503599627370496 6125699514705931 281474976710656); [vm_compute; reflexivity | unfold fr, close, ctol, A41_c, A41_e; interval with (i_prec 80)]]. Qed.
Lemma r_A41_1216 : rio_reads A41_c A41_e A41_lo A41_hi floor_volts ctol (Build_rio (Fin (150449396589281 / 35184372088832)) (Fin (5547 / 1024)) (Fin (1807 / 512)) (Fin (6 / 1)) (Fin (10271 / 1024)) true true true ((Fin (75 / 64)) :: (Fin (1861 / 1024)) :: (Fin (47 / 256)) :: (Fin (18543 / 1024)) :: (Fin (2047 / 256)) :: (Fin (39363 / 512)) :: nil)) (9 / 2).
Proof. apply (A41_rio_fin _ (150449396589281 / 35184372088832)); [reflexivity | apply (A41_q_lo 150449396589281 35184372088832 9 2); [vm_compute; reflexivity | unfold fr, ctol, A41_lo, A41_c, A41_e; interval with (i_prec 80)]]. Qed.
Lemma r_A41_1233 : rio_reads A41_c A41_e A41_lo A41_hi floor_volts ctol (Build_rio (Fin (8506905728330035 / 590295810358705651712)) (Fin (5 / 1)) (Fin (3715469692580659 / 1125899906842624)) (Fin (0 / 1)) (Fin (11399 / 1024)) false true true ((Fin (1795 / 1024)) :: (Fin (353 / 512)) :: (Fin (1089 / 1024)) :: (Fin (58787 / 512)) :: (Fin (5155 / 1024)) :: (Fin (14903 / 1024)) :: nil)) (35 / 1).
Proof. apply (A41_rio_fin _ (8506905728330035 / 590295810358705651712)); [reflexivity | apply (A41_q_hi 8506905728330035 590295810358705651712 35 1); [vm_compute; reflexivity | unfold fr, ctol, A41_hi, A41_c, A41_e; interval with (i_prec 80)]]. Qed.
Lemma r_A41_1256 : rio_reads A41_c A41_e A41_lo A41_hi floor_volts ctol (Build_rio (Fin (6346362102016335 / 288230376151711744)) (Fin (5 / 1)) (Fin (1385 / 512)) NInf (Fin (0 / 1)) false true false ((Fin (53 / 1024)) :: (Fin (655 / 1024)) :: (Fin (47 / 16)) :: (Fin (44427 / 256)) :: (Fin (803 / 256)) :: (Fin ((-2161) / 1024)) :: nil)) (35 / 1).
Proof. apply (A41_rio_fin _ (6346362102016335 / 288230376151711744)); [reflexivity | apply (A41_q_hi 6346362102016335 288230376151711744 35 1); [vm_compute; reflexivity | unfold fr, ctol, A41_hi, A41_c, A41_e; interval with (i_prec 80)]]. Qed.
Lemma d_A41_1336u : close ctol (6491044311201869 / 18014398509481984) (volts_A41 (200 / 1)).
Proof. apply (A41_q_volts_hi 200 1 6491044311201869 18014398509481984); [vm_compute; reflexivity | unfold fr, close, ctol, A41_lo, A41_hi, A41_c, A41_e; interval with (i_prec 80)]. Qed.
Lemma d_A41_1344u : close ctol (6491044311201869 / 18014398509481984) (volts_A41 (145 / 1)).
Proof. apply (A41_q_volts_hi 145 1 6491044311201869 18014398509481984); [vm_compute; reflexivity | unfold fr, close, ctol, A41_lo, A41_hi, A41_c, A41_e; interval with (i_prec 80)]. Qed.
Lemma d_A41_1352u : close ctol (1636741441258383 / 562949953421312) (volts_A41 (0 / 1)).
Proof. apply (A41_q_volts_lo 0 1 1636741441258383 562949953421312); [vm_compute; reflexivity | unfold fr, close, ctol, A41_lo, A41_hi, A41_c, A41_e; interval with (i_prec 80)]. Qed.
Lemma d_A41_1360u : close ctol (1636741441258383 / 562949953421312) (volts_A41 (2 / 1)).
Proof. apply (A41_q_volts_lo 2 1 1636741441258383 562949953421312); [vm_compute; reflexivity | unfold fr, close, ctol, A41_lo, A41_hi, A41_c, A41_e; interval with (i_prec 80)]. Qed.
Lemma d_A41_1368u : close ctol (6491044311201869 / 18014398509481984) (volts_A41 (200 / 1)).
Proof. apply (A41_q_volts_hi 200 1 6491044311201869 18014398509481984); [vm_compute; reflexivity | unfold fr, close, ctol, A41_lo, A41_hi, A41_c, A41_e; interval with (i_prec 80)]. Qed.
Lemma d_A41_1376u : close ctol (6491044311201869 / 18014398509481984) (volts_A41 (35 / 1)).
Proof. apply (A41_q_volts_hi 35 1 6491044311201869 18014398509481984); [vm_compute; reflexivity | unfold fr, close, ctol, A41_lo, A41_hi, A41_c, A41_e; interval with (i_prec 80)]. Qed.
Lemma d_A41_1384u : close ctol (6491044311201869 / 18014398509481984) (volts_A41 (1231453024340573 / 35184372088832)).
Proof. apply (A41_q_volts_hi 1231453024340573 35184372088832 6491044311201869 18014398509481984); [vm_compute; reflexivity | unfold fr, close, ctol, A41_lo, A41_hi, A41_c, A41_e; interval with (i_prec 80)]. Qed.
Lemma d_A41_1393u : close ctol (1404204789523203 / 1125899906842624) (volts_A41 (1454562989013769 / 140737488355328)).
Proof. apply (A41_q_volts_mid 1454562989013769 140737488355328 1404204789523203 1125899906842624); [vm_compute; reflexivity | unfold fr, close, ctol, A41_lo, A41_hi, A41_c, A41_e; interval with (i_prec 80)]. Qed.
Lemma d_A41_1406u : close ctol (4392369895362537 / 4503599627370496) (volts_A41 (7408060632095687 / 562949953421312)).
Proof. apply (A41_q_volts_mid 7408060632095687 562949953421312 4392369895362537 4503599627370496); [vm_compute; reflexivity | unfold fr, close, ctol, A41_lo, A41_hi, A41_c, A41_e; interval with (i_prec 80)]. Qed.
Lemma d_A41_1419u : close ctol (2451452645378555 / 4503599627370496) (volts_A41 (821111805911741 / 35184372088832)).
Proof. apply (A41_q_volts_mid 821111805911741 35184372088832 2451452645378555 4503599627370496); [vm_compute; reflexivity | unfold fr, close, ctol, A41_lo, A41_hi, A41_c, A41_e; interval with (i_prec 80)]. Qed.
Lemma d_A41_1432u : close ctol (6491044311201869 / 18014398509481984) (volts_A41 (1947928072423963 / 35184372088832)).
Proof. apply (A41_q_volts_hi 1947928072423963 35184372088832 6491044311201869 18014398509481984); [vm_compute; reflexivity | unfold fr, close, ctol, A41_lo, A41_hi, A41_c, A41_e; interval with (i_prec 80)]. Qed.
Lemma d_A41_1444r : rio_reads A41_c A41_e A41_lo A41_hi floor_volts ctol (Build_rio (Fin (6251012344559929 / 9007199254740992)) (Fin (4499 / 1024)) (Fin (2065 / 512)) (Fin (2767 / 512)) PInf true true true ((Fin (1843 / 1024)) :: (Fin (1019 / 1024)) :: (Fin (1935 / 1024)) :: (Fin (56147 / 512)) :: (Fin (8887 / 1024)) :: (Fin ((-7683) / 1024)) :: nil)) (1293576699434455 / 70368744177664).
Proof. apply (A41_rio_fin _ (6251012344559929 / 9007199254740992)); [reflexivity | apply (A41_q_mid 6251012344559929 9007199254740992 1293576699434455 70368744177664); [vm_compute; reflexivity | unfold fr, close, ctol, A41_c, A41_e; interval with (i_prec 80)]]. Qed.
Lemma d_A41_1457u : close ctol (1636741441258383 / 562949953421312) (volts_A41 ((-5332799153009439) / 4503599627370496)).
Proof. apply (A41_q_volts_lo (-5332799153009439) 4503599627370496 1636741441258383 562949953421312); [vm_compute; reflexivity | unfold fr, close, ctol, A41_lo, A41_hi, A41_c, A41_e; interval with (i_prec 80)]. Qed.
Lemma d_A41_1470u : close ctol (6491044311201869 / 18014398509481984) (volts_A41 (6611364963631993 / 140737488355328)).
Proof. apply (A41_q_volts_hi 6611364963631993 140737488355328 6491044311201869 18014398509481984); [vm_compute; reflexivity | unfold fr, close, ctol, A41_lo, A41_hi, A41_c, A41_e; interval with (i_prec 80)]. Qed.
Lemma d_A41_1483u : close ctol (6420690662169249 / 4503599627370496) (volts_A41 (2550901152344571 / 281474976710656)).
Proof. apply (A41_q_volts_mid 2550901152344571 281474976710656 6420690662169249 4503599627370496); [vm_compute; reflexivity | unfold fr, close, ctol, A41_lo, A41_hi, A41_c, A41_e; interval with (i_prec 80)]. Qed.
Lemma d_A41_1496u : close ctol (3449115091530623 / 4503599627370496) (volts_A41 (1174242826445871 / 70368744177664)).
Proof. apply (A41_q_volts_mid 1174242826445871 70368744177664 3449115091530623 4503599627370496); [vm_compute; reflexivity | unfold fr, close, ctol, A41_lo, A41_hi, A41_c, A41_e; interval with (i_prec 80)]. Qed.
Lemma d_A41_1508r : rio_reads A41_c A41_e A41_lo A41_hi floor_volts ctol (Build_rio (Fin (5111417640338625 / 9007199254740992)) (Fin (5 / 1)) (Fin (3715469692580659 / 1125899906842624)) (Fin (6 / 1)) (Fin (12 / 1)) true true true ((Fin (0 / 1)) :: (Fin (0 / 1)) :: (Fin (0 / 1)) :: (Fin (0 / 1)) :: (Fin (27 / 4)) :: (Fin (45 / 1)) :: nil)) (788193373715823 / 35184372088832).
Proof. apply (A41_rio_fin _ (5111417640338625 / 9007199254740992)); [reflexivity | apply (A41_q_mid 5111417640338625 9007199254740992 788193373715823 35184372088832); [vm_compute; reflexivity | unfold fr, close, ctol, A41_c, A41_e; interval with (i_prec 80)]]. Qed.
Lemma d_A41_1521u : close ctol (6491044311201869 / 18014398509481984) (volts_A41 (7350242645512635 / 70368744177664)).
Proof. apply (A41_q_volts_hi 7350242645512635 70368744177664 6491044311201869 18014398509481984); [vm_compute; reflexivity | unfold fr, close, ctol, A41_lo, A41_hi, A41_c, A41_e; interval with (i_prec 80)]. Qed.
Lemma d_A41_1534u : close ctol (3450256780017083 / 9007199254740992) (volts_A41 (2319255426939369 / 70368744177664)).
Proof. apply (A41_q_volts_mid 2319255426939369 70368744177664 3450256780017083 9007199254740992); [vm_compute; reflexivity | unfold fr, close, ctol, A41_lo, A41_hi, A41_c, A41_e; interval with (i_prec 80)]. Qed.
Lemma d_A41_1547u : close ctol (297822115021859 / 562949953421312) (volts_A41 (24 / 1)).
Proof. apply (A41_q_volts_mid 24 1 297822115021859 562949953421312); [vm_compute; reflexivity | unfold fr, close, ctol, A41_lo, A41_hi, A41_c, A41_e; interval with (i_prec 80)]. Qed.
Lemma d_A41_1560u : close ctol (6801877498112909 / 9007199254740992) (volts_A41 (4762327596050399 / 281474976710656)).
Proof. apply (A41_q_volts_mid 4762327596050399 281474976710656 6801877498112909 9007199254740992); [vm_compute; reflexivity | unfold fr, close, ctol, A41_lo, A41_hi, A41_c, A41_e; interval with (i_prec 80)]. Qed.
Lemma d_A41_1572r : rio_reads A41_c A41_e A41_lo A41_hi floor_volts ctol (Build_rio (Fin (8310382171899771 / 4503599627370496)) (Fin (5 / 1)) (Fin (13603 / 1024)) (Fin (6 / 1)) (Fin (11567 / 1024)) true true true ((Fin (2679 / 1024)) :: (Fin (19 / 256)) :: (Fin (609 / 256)) :: (Fin (46913 / 256)) :: (Fin (3951 / 1024)) :: (Fin (52593 / 1024)) :: nil)) (3959645144195733 / 562949953421312).
Proof. apply (A41_rio_fin _ (8310382171899771 / 4503599627370496)); [reflexivity | apply (A41_q_mid 8310382171899771 4503599627370496 3959645144195733 562949953421312); [vm_compute; reflexivity | unfold fr, close, ctol, A41_c, A41_e; interval with (i_prec 80)]]. Qed.
Lemma d_A41_1585u : close ctol (6491044311201869 / 18014398509481984) (volts_A41 (56 / 1)).
Proof. apply (A41_q_volts_hi 56 1 6491044311201869 18014398509481984); [vm_compute; reflexivity | unfold fr, close, ctol, A41_lo, A41_hi, A41_c, A41_e; interval with (i_prec 80)]. Qed.
Lemma d_A41_1598u : close ctol (2417155720089147 / 4503599627370496) (volts_A41 (832556053275609 / 35184372088832)).
Proof. apply (A41_q_volts_mid 832556053275609 35184372088832 2417155720089147 4503599627370496); [vm_compute; reflexivity | unfold fr, close, ctol, A41_lo, A41_hi, A41_c, A41_e; interval with (i_prec 80)]. Qed.
Lemma d_A41_1611u : close ctol (7540418664169459 / 18014398509481984) (volts_A41 (4251501907635021 / 140737488355328)).
Proof. apply (A41_q_volts_mid 4251501907635021 140737488355328 7540418664169459 18014398509481984); [vm_compute; reflexivity | unfold fr, close, ctol, A41_lo, A41_hi, A41_c, A41_e; interval with (i_prec 80)]. Qed.
Lemma d_A41_1624u : close ctol (3012039077992667 / 1125899906842624) (volts_A41 (5498263363765507 / 1125899906842624)).
Proof. apply (A41_q_volts_mid 5498263363765507 1125899906842624 3012039077992667 1125899906842624); [vm_compute; reflexivity | unfold fr, close, ctol, A41_lo, A41_hi, A41_c, A41_e; interval with (i_prec 80)]. Qed.
Lemma d_A41_1636r : rio_reads A41_c A41_e A41_lo A41_hi floor_volts ctol (Build_rio (Fin (1636741441258383 / 562949953421312)) (Fin (1103 / 1024)) (Fin (3305 / 1024)) (Fin (1357 / 256)) (Fin (5907 / 512)) true false false ((Fin (417 / 1024)) :: (Fin (405 / 1024)) :: (Fin (2955 / 1024)) :: (Fin (33 / 256)) :: (Fin (4015 / 512)) :: (Fin (33705 / 1024)) :: nil)) (9 / 2).
Proof. apply (A41_rio_fin _ (1636741441258383 / 562949953421312)); [reflexivity | apply (A41_q_lo 1636741441258383 562949953421312 9 2); [vm_compute; reflexivity | unfold fr, ctol, A41_lo, A41_c, A41_e; interval with (i_prec 80)]]. Qed.
Lemma d_A41_1649u : close ctol (8981654140195229 / 4503599627370496) (volts_A41 (3668720932076907 / 562949953421312)).
Proof. apply (A41_q_volts_mid 3668720932076907 562949953421312 8981654140195229 4503599627370496); [vm_compute; reflexivity | unfold fr, close, ctol, A41_lo, A41_hi, A41_c, A41_e; interval with (i_prec 80)]. Qed.
Lemma d_A41_1662u : close ctol (1659992494310421 / 4503599627370496) (volts_A41 (1204313887751467 / 35184372088832)).
Proof. apply (A41_q_volts_mid 1204313887751467 35184372088832 1659992494310421 4503599627370496); [vm_compute; reflexivity | unfold fr, close, ctol, A41_lo, A41_hi, A41_c, A41_e; interval with (i_prec 80)]. Qed.
Lemma d_A41_1675u : close ctol (7682070388804181 / 18014398509481984) (volts_A41 (1043618627453593 / 35184372088832)).
Proof. apply (A41_q_volts_mid 1043618627453593 35184372088832 7682070388804181 18014398509481984); [vm_compute; reflexivity | unfold fr, close, ctol, A41_lo, A41_hi, A41_c, A41_e; interval with (i_prec 80)]. Qed.
Lemma d_A41_1688u : close ctol (675922910322757 / 562949953421312) (volts_A41 (3019780372069893 / 281474976710656)).
Proof. apply (A41_q_volts_mid 3019780372069893 281474976710656 675922910322757 562949953421312); [vm_compute; reflexivity | unfold fr, close, ctol, A41_lo, A41_hi, A41_c, A41_e; interval with (i_prec 80)]. Qed.
Lemma d_A41_1700r : rio_reads A41_c A41_e A41_lo A41_hi floor_volts ctol (Build_rio (Fin (6905834491969469 / 18014398509481984)) (Fin (5 / 1)) (Fin (3715469692580659 / 1125899906842624)) (Fin (6 / 1)) (Fin (12 / 1)) true true true ((Fin (0 / 1)) :: (Fin (0 / 1)) :: (Fin (0 / 1)) :: (Fin (0 / 1)) :: (Fin (27 / 4)) :: (Fin (45 / 1)) :: nil)) (4634999768306229 / 140737488355328).
Proof. apply (A41_rio_fin _ (6905834491969469 / 18014398509481984)); [reflexivity | apply (A41_q_mid 6905834491969469 18014398509481984 4634999768306229 140737488355328); [vm_compute; reflexivity | unfold fr, close, ctol, A41_c, A41_e; interval with (i_prec 80)]]. Qed.
Lemma d_A41_1713u : close ctol (8985396465184165 / 18014398509481984) (volts_A41 (7157653734464399 / 281474976710656)).
Proof. apply (A41_q_volts_mid 7157653734464399 281474976710656 8985396465184165 18014398509481984); [vm_compute; reflexivity | unfold fr, close, ctol, A41_lo, A41_hi, A41_c, A41_e; interval with (i_prec 80)]. Qed.
Lemma d_A41_1726u : close ctol (7328054057985425 / 18014398509481984) (volts_A41 (2186255013191339 / 70368744177664)).
Proof. apply (A41_q_volts_mid 2186255013191339 70368744177664 7328054057985425 18014398509481984); [vm_compute; reflexivity | unfold fr, close, ctol, A41_lo, A41_hi, A41_c, A41_e; interval with (i_prec 80)]. Qed.
Lemma d_A41_1739u : close ctol (5831823269605663 / 4503599627370496) (volts_A41 (5607454211355159 / 562949953421312)).
Proof. apply (A41_q_volts_mid 5607454211355159 562949953421312 5831823269605663 4503599627370496); [vm_compute; reflexivity | unfold fr, close, ctol, A41_lo, A41_hi, A41_c, A41_e; interval with (i_prec 80)]. Qed.
Lemma d_A41_1752u : close ctol (3686534428826225 / 4503599627370496) (volts_A41 (4399629708002679 / 281474976710656)).
Proof. apply (A41_q_volts_mid 4399629708002679 281474976710656 3686534428826225 4503599627370496); [vm_compute; reflexivity | unfold fr, close, ctol, A41_lo, A41_hi, A41_c, A41_e; interval with (i_prec 80)]. Qed.
Lemma d_A41_1764r : rio_reads A41_c A41_e A41_lo A41_hi floor_volts ctol (Build_rio (Fin (5991164161488157 / 2251799813685248)) (Fin (2291 / 512)) (Fin (2863 / 1024)) (Fin (6421 / 1024)) (Fin (5971 / 512)) false true true ((Fin (205 / 128)) :: (Fin (169 / 256)) :: (Fin (1273 / 1024)) :: (Fin (11701 / 512)) :: (Fin (4119 / 1024)) :: (Fin (17047 / 256)) :: nil)) (5527936421890607 / 1125899906842624).
Proof. apply (A41_rio_fin _ (5991164161488157 / 2251799813685248)); [reflexivity | apply (A41_q_mid 5991164161488157 2251799813685248 5527936421890607 1125899906842624); [vm_compute; reflexivity | unfold fr, close, ctol, A41_c, A41_e; interval with (i_prec 80)]]. Qed.
Lemma d_A41_1777u : close ctol (510588801182307 / 1125899906842624) (volts_A41 (1964848097941383 / 70368744177664)).
Proof. apply (A41_q_volts_mid 1964848097941383 70368744177664 510588801182307 1125899906842624); [vm_compute; reflexivity | unfold fr, close, ctol, A41_lo, A41_hi, A41_c, A41_e; interval with (i_prec 80)]. Qed.
Lemma d_A41_1790u : close ctol (228427196778741 / 562949953421312) (volts_A41 (8766626140640595 / 281474976710656)).
Proof. apply (A41_q_volts_mid 8766626140640595 281474976710656 228427196778741 562949953421312); [vm_compute; reflexivity | unfold fr, close, ctol, A41_lo, A41_hi, A41_c, A41_e; interval with (i_prec 80)]. Qed.
Lemma d_A41_1803u : close ctol (7709210360005835 / 18014398509481984) (volts_A41 (8320073279846365 / 281474976710656)).
Proof. apply (A41_q_volts_mid 8320073279846365 281474976710656 7709210360005835 18014398509481984); [vm_compute; reflexivity | unfold fr, close, ctol, A41_lo, A41_hi, A41_c, A41_e; interval with (i_prec 80)]. Qed.
Lemma d_A41_1816u : close ctol (1500169032507779 / 2251799813685248) (volts_A41 (2693146297895285 / 140737488355328)).
Proof. apply (A41_q_volts_mid 2693146297895285 140737488355328 1500169032507779 2251799813685248); [vm_compute; reflexivity | unfold fr, close, ctol, A41_lo, A41_hi, A41_c, A41_e; interval with (i_prec 80)]. Qed.
Lemma d_A41_1828r : rio_reads A41_c A41_e A41_lo A41_hi floor_volts ctol (Build_rio (Fin (6054632755445445 / 4503599627370496)) (Fin (1 / 1)) (Fin (3715469692580659 / 1125899906842624)) (Fin (2791 / 512)) (Fin (5431 / 512)) true true true ((Fin (2697 / 1024)) :: (Fin (365 / 1024)) :: (Fin (393 / 512)) :: (Fin (171963 / 1024)) :: (Fin (3809 / 1024)) :: (Fin (12255 / 128)) :: nil)) (1351166539420849 / 140737488355328).
Proof. apply (A41_rio_fin _ (6054632755445445 / 4503599627370496)); [reflexivity | apply (A41_q_mid 6054632755445445 4503599627370496 1351166539420849 140737488355328); [vm_compute; reflexivity | unfold fr, close, ctol, A41_c, A41_e; interval with (i_prec 80)]]. Qed.
Lemma d_A41_1841u : close ctol (8428211177249145 / 18014398509481984) (volts_A41 (3811125167164735 / 140737488355328)).
Proof. apply (A41_q_volts_mid 3811125167164735 140737488355328 8428211177249145 18014398509481984); [vm_compute; reflexivity | unfold fr, close, ctol, A41_lo, A41_hi, A41_c, A41_e; interval with (i_prec 80)]. Qed.
Lemma d_A41_1854u : close ctol (4975158946562825 / 9007199254740992) (volts_A41 (6475162146342033 / 281474976710656)).
Proof. apply (A41_q_volts_mid 6475162146342033 281474976710656 4975158946562825 9007199254740992); [vm_compute; reflexivity | unfold fr, close, ctol, A41_lo, A41_hi, A41_c, A41_e; interval with (i_prec 80)]. Qed.
Lemma d_A41_1867u : close ctol (6491044311201869 / 18014398509481984) (volts_A41 (2509466479465151 / 35184372088832)).
Proof. apply (A41_q_volts_hi 2509466479465151 35184372088832 6491044311201869 18014398509481984); [vm_compute; reflexivity | unfold fr, close, ctol, A41_lo, A41_hi, A41_c, A41_e; interval with (i_prec 80)]. Qed.
Lemma d_A41_1880u : close ctol (2946180723389199 / 2251799813685248) (volts_A41 (1387712998282801 / 140737488355328)).
Proof. apply (A41_q_volts_mid 1387712998282801 140737488355328 2946180723389199 2251799813685248); [vm_compute; reflexivity | unfold fr, close, ctol, A41_lo, A41_hi, A41_c, A41_e; interval with (i_prec 80)]. Qed.
Lemma d_A41_1892r : rio_reads A41_c A41_e A41_lo A41_hi floor_volts ctol (Build_rio (Fin (2510681890336213 / 4503599627370496)) (Fin (5 / 1)) (Fin (3715469692580659 / 1125899906842624)) (Fin (6 / 1)) (Fin (12 / 1)) true true true ((Fin (0 / 1)) :: (Fin (0 / 1)) :: (Fin (0 / 1)) :: (Fin (0 / 1)) :: (Fin (27 / 4)) :: (Fin (45 / 1)) :: nil)) (1604155964913153 / 70368744177664).
Proof. apply (A41_rio_fin _ (2510681890336213 / 4503599627370496)); [reflexivity | apply (A41_q_mid 2510681890336213 4503599627370496 1604155964913153 70368744177664); [vm_compute; reflexivity | unfold fr, close, ctol, A41_c, A41_e; interval with (i_prec 80)]]. Qed.
Lemma d_A41_1905u : close ctol (3902782602159087 / 4503599627370496) (volts_A41 (16250091144037 / 1099511627776)).
Proof. apply (A41_q_volts_mid 16250091144037 1099511627776 3902782602159087 4503599627370496); [vm_compute; reflexivity | unfold fr, close, ctol, A41_lo, A41_hi, A41_c, A41_e; interval with (i_prec 80)]. Qed.
Lemma d_A41_1918u : close ctol (4798314221508141 / 4503599627370496) (volts_A41 (6791886346304267 / 562949953421312)).
Proof. apply (A41_q_volts_mid 6791886346304267 562949953421312 4798314221508141 4503599627370496); [vm_compute; reflexivity | unfold fr, close, ctol, A41_lo, A41_hi, A41_c, A41_e; interval with (i_prec 80)]. Qed.
Lemma d_A41_1931u : close ctol (1270717269182177 / 2251799813685248) (volts_A41 (1585084459815097 / 70368744177664)).
Proof. apply (A41_q_volts_mid 1585084459815097 70368744177664 1270717269182177 2251799813685248); [vm_compute; reflexivity | unfold fr, close, ctol, A41_lo, A41_hi, A41_c, A41_e; interval with (i_prec 80)]. Qed.
Lemma d_A41_1944u : close ctol (3555493372303691 / 9007199254740992) (volts_A41 (32 / 1)).
Proof. apply (A41_q_volts_mid 32 1 3555493372303691 9007199254740992); [vm_compute; reflexivity | unfold fr, close, ctol, A41_lo, A41_hi, A41_c, A41_e; interval with (i_prec 80)]. Qed.
Lemma d_A41_1956r : rio_reads A41_c A41_e A41_lo A41_hi floor_volts ctol (Build_rio (Fin (1237933215214511 / 2251799813685248)) (Fin ((-1) / 1)) (Fin (3715469692580659 / 1125899906842624)) (Fin (6323 / 1024)) (Fin (2155 / 512)) true false true ((Fin (561 / 256)) :: (Fin (101 / 512)) :: (Fin (1905 / 1024)) :: (Fin (9361 / 256)) :: (Fin (8399 / 1024)) :: (Fin (101419 / 1024)) :: nil)) (6505255006769725 / 281474976710656).
Proof. apply (A41_rio_fin _ (1237933215214511 / 2251799813685248)); [reflexivity | apply (A41_q_mid 1237933215214511 2251799813685248 6505255006769725 281474976710656); [vm_compute; reflexivity | unfold fr, close, ctol, A41_c, A41_e; interval with (i_prec 80)]]. Qed.
Lemma d_A41_1969u : close ctol (2579501339651643 / 4503599627370496) (volts_A41 (6248405552910335 / 281474976710656)).
Proof. apply (A41_q_volts_mid 6248405552910335 281474976710656 2579501339651643 4503599627370496); [vm_compute; reflexivity | unfold fr, close, ctol, A41_lo, A41_hi, A41_c, A41_e; interval with (i_prec 80)]. Qed.
Lemma d_A41_1982u : close ctol (6152867516778977 / 4503599627370496) (volts_A41 (2659941830306693 / 281474976710656)).
Proof. apply (A41_q_volts_mid 2659941830306693 281474976710656 6152867516778977 4503599627370496); [vm_compute; reflexivity | unfold fr, close, ctol, A41_lo, A41_hi, A41_c, A41_e; interval with (i_prec 80)]. Qed.
Lemma d_A41_1995u : close ctol (6491044311201869 / 18014398509481984) (volts_A41 (2415864317870359 / 35184372088832)).
Proof. apply (A41_q_volts_hi 2415864317870359 35184372088832 6491044311201869 18014398509481984); [vm_compute; reflexivity | unfold fr, close, ctol, A41_lo, A41_hi, A41_c, A41_e; interval with (i_prec 80)]. Qed.
Lemma r_A02_21 : rio_reads A02_c A02_e A02_lo A02_hi floor_volts ctol (Build_rio (Fin (1 / 44942328371557897693232629769725618340449424473557664318357520289433168951375240783177119330601884005280028469967848339414697442203604155623211857659868531094441973356216371319075554900311523529863270738021251442209537670585615720368478277635206809290837627671146574559986811484619929076208839082406056034304)) (Fin (5 / 1)) (Fin (3715469692580659 / 1125899906842624)) (Fin (6 / 1)) (Fin (3715469692580659 / 281474976710656)) true true true ((Fin (0 / 1)) :: (Fin (0 / 1)) :: (Fin (0 / 1)) :: (Fin (0 / 1)) :: (Fin (27 / 4)) :: (Fin (45 / 1)) :: nil)) (145 / 1).
Proof. apply (A02_rio_fin _ (1 / 44942328371557897693232629769725618340449424473557664318357520289433168951375240783177119330601884005280028469967848339414697442203604155623211857659868531094441973356216371319075554900311523529863270738021251442209537670585615720368478277635206809290837627671146574559986811484619929076208839082406056034304)); [reflexivity | apply (A02_q_floor 1 44942328371557897693232629769725618340449424473557664318357520289433168951375240783177119330601884005280028469967848339414697442203604155623211857659868531094441973356216371319075554900311523529863270738021251442209537670585615720368478277635206809290837627671146574559986811484619929076208839082406056034304 145 1); vm_compute; reflexivity]. Qed.
Lemma r_A02_417 : rio_reads A02_c A02_e A02_lo A02_hi floor_volts ctol (Build_rio (Fin (3774636959342321 / 590295810358705651712)) (Fin (4691 / 1024)) (Fin (1439 / 512)) (Fin (2643 / 512)) (Fin (4547 / 512)) true true false ((Fin (1285 / 1024)) :: (Fin (27 / 512)) :: (Fin (603 / 512)) :: (Fin (142537 / 1024)) :: (Fin (943 / 128)) :: (Fin (75475 / 1024)) :: nil)) (145 / 1).
Proof. apply (A02_rio_fin _ (3774636959342321 / 590295810358705651712)); [reflexivity | apply (A02_q_floor 3774636959342321 590295810358705651712 145 1); vm_compute; reflexivity]. Qed.
Lemma d_A02_7c : close ctol (45 / 2) (clamp A02_lo A02_hi (5 / 1)).
Proof. apply (A02_q_clamp_lo 5 1 45 2); vm_compute; reflexivity. Qed.
Lemma d_A02_13g : get_distance (set_distance A02_c A02_e A02_lo A02_hi sim_init (45 / 2)) = (45 / 2).
Proof. cbn [get_distance set_distance sim_distance]. first [reflexivity | lra]. Qed.
Lemma d_A02_20c : close ctol (45 / 2) (clamp A02_lo A02_hi (0 / 1)).
Proof. apply (A02_q_clamp_lo 0 1 45 2); vm_compute; reflexivity. Qed.
Lemma d_A02_26g : get_distance (set_distance A02_c A02_e A02_lo A02_hi sim_init (6032057205060441 / 6032057205060440848842124543157735677050252251748505781796615064961622344493727293370973578138265743708225425014400837164813540499979063179105919597766951022193355091707896034850684039059079180396788349106095584290087446076413771468940477241550670753145517602931224392424029547429993824129889235158145614364972941312)) = (6032057205060441 / 6032057205060440848842124543157735677050252251748505781796615064961622344493727293370973578138265743708225425014400837164813540499979063179105919597766951022193355091707896034850684039059079180396788349106095584290087446076413771468940477241550670753145517602931224392424029547429993824129889235158145614364972941312).
Proof. cbn [get_distance set_distance sim_distance]. first [reflexivity | lra]. Qed.
Lemma d_A02_34g : get_distance (set_distance A02_c A02_e A02_lo A02_hi sim_init (60 / 1)) = (60 / 1).
Proof. cbn [get_distance set_distance sim_distance]. first [reflexivity | lra]. Qed.
Lemma d_A02_43g : get_distance (set_distance A02_c A02_e A02_lo A02_hi sim_init (45 / 2)) = (45 / 2).
Proof. cbn [get_distance set_distance sim_distance]. first [reflexivity | lra]. Qed.
Lemma d_A02_51g : get_distance (set_distance A02_c A02_e A02_lo A02_hi sim_init (2550866973889453 / 17592186044416)) = (2550866973889453 / 17592186044416).
Proof. cbn [get_distance set_distance sim_distance]. first [reflexivity | lra]. Qed.
Lemma d_A02_59g : get_distance (set_distance A02_c A02_e A02_lo A02_hi sim_init (1692855302603187 / 70368744177664)) = (1692855302603187 / 70368744177664).
Proof. cbn [get_distance set_distance sim_distance]. first [reflexivity | lra]. Qed.
Lemma d_A02_67g : get_distance (set_distance A02_c A02_e A02_lo A02_hi sim_init (2763422973435803 / 35184372088832)) = (2763422973435803 / 35184372088832).
Proof. cbn [get_distance set_distance sim_distance]. first [reflexivity | lra]. Qed.
Lemma d_A02_75g : get_distance (set_distance A02_c A02_e A02_lo A02_hi sim_init (7789783253675929 / 70368744177664)) = (7789783253675929 / 70368744177664).
Proof. cbn [get_distance set_distance sim_distance]. first [reflexivity | lra]. Qed.
Lemma d_A02_83g : get_distance (set_distance A02_c A02_e A02_lo A02_hi sim_init (854717701109513 / 8796093022208)) = (854717701109513 / 8796093022208).
Proof. cbn [get_distance set_distance sim_distance]. first [reflexivity | lra]. Qed.
Lemma d_A02_91g : get_distance (set_distance A02_c A02_e A02_lo A02_hi sim_init (7233145099993251 / 70368744177664)) = (7233145099993251 / 70368744177664).
Proof. cbn [get_distance set_distance sim_distance]. first [reflexivity | lra]. Qed.
Lemma d_A02_99g : get_distance (set_distance A02_c A02_e A02_lo A02_hi sim_init (8412124522946963 / 140737488355328)) = (8412124522946963 / 140737488355328).
Proof. cbn [get_distance set_distance sim_distance]. first [reflexivity | lra]. Qed.
Lemma d_A02_107g : get_distance (set_distance A02_c A02_e A02_lo A02_hi sim_init (781163209153013 / 17592186044416)) = (781163209153013 / 17592186044416).
Proof. cbn [get_distance set_distance sim_distance]. first [reflexivity | lra]. Qed.
Lemma d_A02_115g : get_distance (set_distance A02_c A02_e A02_lo A02_hi sim_init (1237258212908569 / 35184372088832)) = (1237258212908569 / 35184372088832).
Proof. cbn [get_distance set_distance sim_distance]. first [reflexivity | lra]. Qed.
Lemma d_A02_123g : get_distance (set_distance A02_c A02_e A02_lo A02_hi sim_init (4341797823383681 / 35184372088832)) = (4341797823383681 / 35184372088832).
Proof. cbn [get_distance set_distance sim_distance]. first [reflexivity | lra]. Qed.
Lemma d_A02_131g : get_distance (set_distance A02_c A02_e A02_lo A02_hi sim_init ((-4726071738620065) / 562949953421312)) = ((-4726071738620065) / 562949953421312).
Proof. cbn [get_distance set_distance sim_distance]. first [reflexivity | lra]. Qed.
Lemma d_A02_139g : get_distance (set_distance A02_c A02_e A02_lo A02_hi sim_init ((-2465078156307385) / 281474976710656)) = ((-2465078156307385) / 281474976710656).
Proof. cbn [get_distance set_distance sim_distance]. first [reflexivity | lra]. Qed.
Lemma d_A02_147g : get_distance (set_distance A02_c A02_e A02_lo A02_hi sim_init (2045944063894417 / 35184372088832)) = (2045944063894417 / 35184372088832).
Proof. cbn [get_distance set_distance sim_distance]. first [reflexivity | lra]. Qed.
Lemma d_A02_155g : get_distance (set_distance A02_c A02_e A02_lo A02_hi sim_init (131 / 1)) = (131 / 1).
Proof. cbn [get_distance set_distance sim_distance]. first [reflexivity | lra]. Qed.
Lemma d_A02_163g : get_distance (set_distance A02_c A02_e A02_lo A02_hi sim_init (7901245207894161 / 70368744177664)) = (7901245207894161 / 70368744177664).
Proof. cbn [get_distance set_distance sim_distance]. first [reflexivity | lra]. Qed.
Lemma d_A02_171g : get_distance (set_distance A02_c A02_e A02_lo A02_hi sim_init (3728802459665411 / 35184372088832)) = (3728802459665411 / 35184372088832).
Proof. cbn [get_distance set_distance sim_distance]. first [reflexivity | lra]. Qed.
Lemma d_A02_179g : get_distance (set_distance A02_c A02_e A02_lo A02_hi sim_init (2608829631977791 / 35184372088832)) = (2608829631977791 / 35184372088832).
Proof. cbn [get_distance set_distance sim_distance]. first [reflexivity | lra]. Qed.
Lemma d_A02_187g : get_distance (set_distance A02_c A02_e A02_lo A02_hi sim_init (94 / 1)) = (94 / 1).
Proof. cbn [get_distance set_distance sim_distance]. first [reflexivity | lra]. Qed.
Lemma d_A02_195g : get_distance (set_distance A02_c A02_e A02_lo A02_hi sim_init (4100836303716957 / 4503599627370496)) = (4100836303716957 / 4503599627370496).
Proof. cbn [get_distance set_distance sim_distance]. first [reflexivity | lra]. Qed.
Lemma d_A02_203g : get_distance (set_distance A02_c A02_e A02_lo A02_hi sim_init (1844785692831629 / 70368744177664)) = (1844785692831629 / 70368744177664).
Proof. cbn [get_distance set_distance sim_distance]. first [reflexivity | lra]. Qed.
Lemma d_A02_211g : get_distance (set_distance A02_c A02_e A02_lo A02_hi sim_init (8421024807779105 / 281474976710656)) = (8421024807779105 / 281474976710656).
Proof. cbn [get_distance set_distance sim_distance]. first [reflexivity | lra]. Qed.
Lemma d_A02_219g : get_distance (set_distance A02_c A02_e A02_lo A02_hi sim_init (2871671317184579 / 8796093022208)) = (2871671317184579 / 8796093022208).
Proof. cbn [get_distance set_distance sim_distance]. first [reflexivity | lra]. Qed.
Lemma d_A02_227g : get_distance (set_distance A02_c A02_e A02_lo A02_hi sim_init (619499948828787 / 8796093022208)) = (619499948828787 / 8796093022208).
Proof. cbn [get_distance set_distance sim_distance]. first [reflexivity | lra]. Qed.
Lemma d_A02_235g : get_distance (set_distance A02_c A02_e A02_lo A02_hi sim_init (1097284755558557 / 140737488355328)) = (1097284755558557 / 140737488355328).
Proof. cbn [get_distance set_distance sim_distance]. first [reflexivity | lra]. Qed.
Lemma d_A02_243g : get_distance (set_distance A02_c A02_e A02_lo A02_hi sim_init (2430191399129999 / 17592186044416)) = (2430191399129999 / 17592186044416).
Proof. cbn [get_distance set_distance sim_distance]. first [reflexivity | lra]. Qed.
Lemma d_A02_251g : get_distance (set_distance A02_c A02_e A02_lo A02_hi sim_init (1494776786027563 / 17592186044416)) = (1494776786027563 / 17592186044416).
Proof. cbn [get_distance set_distance sim_distance]. first [reflexivity | lra]. Qed.
Lemma d_A02_259g : get_distance (set_distance A02_c A02_e A02_lo A02_hi sim_init (1143778172638919 / 8796093022208)) = (1143778172638919 / 8796093022208).
Proof. cbn [get_distance set_distance sim_distance]. first [reflexivity | lra]. Qed.
Lemma d_A02_267g : get_distance (set_distance A02_c A02_e A02_lo A02_hi sim_init (4278300073581939 / 70368744177664)) = (4278300073581939 / 70368744177664).
Proof. cbn [get_distance set_distance sim_distance]. first [reflexivity | lra]. Qed.
Lemma d_A02_275g : get_distance (set_distance A02_c A02_e A02_lo A02_hi sim_init (49595841247295 / 549755813888)) = (49595841247295 / 549755813888).
Proof. cbn [get_distance set_distance sim_distance]. first [reflexivity | lra]. Qed.
Lemma d_A02_283g : get_distance (set_distance A02_c A02_e A02_lo A02_hi sim_init (156483978417331 / 35184372088832)) = (156483978417331 / 35184372088832).
Proof. cbn [get_distance set_distance sim_distance]. first [reflexivity | lra]. Qed.
Lemma d_A02_291g : get_distance (set_distance A02_c A02_e A02_lo A02_hi sim_init (1804087086087303 / 70368744177664)) = (1804087086087303 / 70368744177664).
Proof. cbn [get_distance set_distance sim_distance]. first [reflexivity | lra]. Qed.
Lemma d_A02_299g : get_distance (set_distance A02_c A02_e A02_lo A02_hi sim_init (158357612345963 / 281474976710656)) = (158357612345963 / 281474976710656).
Proof. cbn [get_distance set_distance sim_distance]. first [reflexivity | lra]. Qed.
Lemma d_A02_307g : get_distance (set_distance A02_c A02_e A02_lo A02_hi sim_init (303685182492353 / 4398046511104)) = (303685182492353 / 4398046511104).
Proof. cbn [get_distance set_distance sim_distance]. first [reflexivity | lra]. Qed.
Lemma d_A02_315g : get_distance (set_distance A02_c A02_e A02_lo A02_hi sim_init (3606281560372379 / 35184372088832)) = (3606281560372379 / 35184372088832).
Proof. cbn [get_distance set_distance sim_distance]. first [reflexivity | lra]. Qed.
Lemma d_A02_323g : get_distance (set_distance A02_c A02_e A02_lo A02_hi sim_init (5740333426474291 / 140737488355328)) = (5740333426474291 / 140737488355328).
Proof. cbn [get_distance set_distance sim_distance]. first [reflexivity | lra]. Qed.
Lemma d_A02_331g : get_distance (set_distance A02_c A02_e A02_lo A02_hi sim_init (5266682129888517 / 70368744177664)) = (5266682129888517 / 70368744177664).
Proof. cbn [get_distance set_distance sim_distance]. first [reflexivity | lra]. Qed.
Lemma d_A02_339g : get_distance (set_distance A02_c A02_e A02_lo A02_hi sim_init (2827182756359769 / 1125899906842624)) = (2827182756359769 / 1125899906842624).
Proof. cbn [get_distance set_distance sim_distance]. first [reflexivity | lra]. Qed.
Lemma d_A02_347g : get_distance (set_distance A02_c A02_e A02_lo A02_hi sim_init (4947657357558445 / 35184372088832)) = (4947657357558445 / 35184372088832).
Proof. cbn [get_distance set_distance sim_distance]. first [reflexivity | lra]. Qed.
Lemma d_A02_355g : get_distance (set_distance A02_c A02_e A02_lo A02_hi sim_init (1249748764467055 / 8796093022208)) = (1249748764467055 / 8796093022208).
Proof. cbn [get_distance set_distance sim_distance]. first [reflexivity | lra]. Qed.
Lemma d_A02_363g : get_distance (set_distance A02_c A02_e A02_lo A02_hi sim_init (7072252984567281 / 70368744177664)) = (7072252984567281 / 70368744177664).
Proof. cbn [get_distance set_distance sim_distance]. first [reflexivity | lra]. Qed.
Lemma d_A02_371g : get_distance (set_distance A02_c A02_e A02_lo A02_hi sim_init (7619917187050265 / 35184372088832)) = (7619917187050265 / 35184372088832).
Proof. cbn [get_distance set_distance sim_distance]. first [reflexivity | lra]. Qed.
Lemma d_A02_379g : get_distance (set_distance A02_c A02_e A02_lo A02_hi sim_init (8493746937057987 / 140737488355328)) = (8493746937057987 / 140737488355328).
Proof. cbn [get_distance set_distance sim_distance]. first [reflexivity | lra]. Qed.
Lemma d_A02_387g : get_distance (set_distance A02_c A02_e A02_lo A02_hi sim_init (3321167751978323 / 35184372088832)) = (3321167751978323 / 35184372088832).
Proof. cbn [get_distance set_distance sim_distance]. first [reflexivity | lra]. Qed.
Lemma d_A02_395g : get_distance (set_distance A02_c A02_e A02_lo A02_hi sim_init (3185410966288285 / 35184372088832)) = (3185410966288285 / 35184372088832).
Proof. cbn [get_distance set_distance sim_distance]. first [reflexivity | lra]. Qed.
Lemma d_A02_403g : get_distance (set_distance A02_c A02_e A02_lo A02_hi sim_init ((-363004080033757) / 281474976710656)) = ((-363004080033757) / 281474976710656).
Proof. cbn [get_distance set_distance sim_distance]. first [reflexivity | lra]. Qed.
Lemma d_A02_411g : get_distance (set_distance A02_c A02_e A02_lo A02_hi sim_init (2044422395551269 / 8796093022208)) = (2044422395551269 / 8796093022208).
Proof. cbn [get_distance set_distance sim_distance]. first [reflexivity | lra]. Qed.
Lemma d_A02_419g : get_distance (set_distance A02_c A02_e A02_lo A02_hi sim_init (6851127752539707 / 70368744177664)) = (6851127752539707 / 70368744177664).
Proof. cbn [get_distance set_distance sim_distance]. first [reflexivity | lra]. Qed.
Lemma d_A02_427g : get_distance (set_distance A02_c A02_e A02_lo A02_hi sim_init (3915505640364969 / 281474976710656)) = (3915505640364969 / 281474976710656).
Proof. cbn [get_distance set_distance sim_distance]. first [reflexivity | lra]. Qed.
Lemma d_A02_435g : get_distance (set_distance A02_c A02_e A02_lo A02_hi sim_init (622276436311455 / 4398046511104)) = (622276436311455 / 4398046511104).
Proof. cbn [get_distance set_distance sim_distance]. first [reflexivity | lra]. Qed.
Lemma d_A02_443g : get_distance (set_distance A02_c A02_e A02_lo A02_hi sim_init (3238543545161275 / 70368744177664)) = (3238543545161275 / 70368744177664).
Proof. cbn [get_distance set_distance sim_distance]. first [reflexivity | lra]. Qed.
Lemma d_A02_451g : get_distance (set_distance A02_c A02_e A02_lo A02_hi sim_init (22 / 1)) = (22 / 1).
Proof. cbn [get_distance set_distance sim_distance]. first [reflexivity | lra]. Qed.
Lemma d_A02_459g : get_distance (set_distance A02_c A02_e A02_lo A02_hi sim_init (35342615492317 / 274877906944)) = (35342615492317 / 274877906944).
Proof. cbn [get_distance set_distance sim_distance]. first [reflexivity | lra]. Qed.
Lemma d_A02_467g : get_distance (set_distance A02_c A02_e A02_lo A02_hi sim_init (810032857302009 / 8796093022208)) = (810032857302009 / 8796093022208).
Proof. cbn [get_distance set_distance sim_distance]. first [reflexivity | lra]. Qed.
Lemma d_A02_475g : get_distance (set_distance A02_c A02_e A02_lo A02_hi sim_init (4307586029041443 / 17592186044416)) = (4307586029041443 / 17592186044416).
Proof. cbn [get_distance set_distance sim_distance]. first [reflexivity | lra]. Qed.
Lemma d_A02_483g : get_distance (set_distance A02_c A02_e A02_lo A02_hi sim_init (6432722934190625 / 70368744177664)) = (6432722934190625 / 70368744177664).
Proof. cbn [get_distance set_distance sim_distance]. first [reflexivity | lra]. Qed.
Lemma d_A02_491g : get_distance (set_distance A02_c A02_e A02_lo A02_hi sim_init (10 / 1)) = (10 / 1).
Proof. cbn [get_distance set_distance sim_distance]. first [reflexivity | lra]. Qed.
Lemma d_A02_499g : get_distance (set_distance A02_c A02_e A02_lo A02_hi sim_init (9829241378567 / 68719476736)) = (9829241378567 / 68719476736).
Proof. cbn [get_distance set_distance sim_distance]. first [reflexivity | lra]. Qed.
Lemma d_A02_507g : get_distance (set_distance A02_c A02_e A02_lo A02_hi sim_init (632358456848261 / 4398046511104)) = (632358456848261 / 4398046511104).
Proof. cbn [get_distance set_distance sim_distance]. first [reflexivity | lra]. Qed.
Lemma d_A02_515g : get_distance (set_distance A02_c A02_e A02_lo A02_hi sim_init (450620349956881 / 18014398509481984)) = (450620349956881 / 18014398509481984).
Proof. cbn [get_distance set_distance sim_distance]. first [reflexivity | lra]. Qed.
Lemma d_A02_523g : get_distance (set_distance A02_c A02_e A02_lo A02_hi sim_init (2551787736074399 / 35184372088832)) = (2551787736074399 / 35184372088832).
Proof. cbn [get_distance set_distance sim_distance]. first [reflexivity | lra]. Qed.
Lemma d_A02_531g : get_distance (set_distance A02_c A02_e A02_lo A02_hi sim_init (375919954989799 / 17592186044416)) = (375919954989799 / 17592186044416).
Proof. cbn [get_distance set_distance sim_distance]. first [reflexivity | lra]. Qed.
Lemma d_A02_539g : get_distance (set_distance A02_c A02_e A02_lo A02_hi sim_init (5023564809941987 / 35184372088832)) = (5023564809941987 / 35184372088832).
Proof. cbn [get_distance set_distance sim_distance]. first [reflexivity | lra]. Qed.
Lemma d_A02_547g : get_distance (set_distance A02_c A02_e A02_lo A02_hi sim_init (499151888340139 / 4398046511104)) = (499151888340139 / 4398046511104).
Proof. cbn [get_distance set_distance sim_distance]. first [reflexivity | lra]. Qed.
Lemma d_A02_555g : get_distance (set_distance A02_c A02_e A02_lo A02_hi sim_init (3520600501952647 / 35184372088832)) = (3520600501952647 / 35184372088832).
Proof. cbn [get_distance set_distance sim_distance]. first [reflexivity | lra]. Qed.
Lemma d_A02_563g : get_distance (set_distance A02_c A02_e A02_lo A02_hi sim_init (7950934013350539 / 70368744177664)) = (7950934013350539 / 70368744177664).
Proof. cbn [get_distance set_distance sim_distance]. first [reflexivity | lra]. Qed.
Lemma d_A02_571g : get_distance (set_distance A02_c A02_e A02_lo A02_hi sim_init (4339949620652935 / 35184372088832)) = (4339949620652935 / 35184372088832).
Proof. cbn [get_distance set_distance sim_distance]. first [reflexivity | lra]. Qed.
Lemma d_A02_579g : get_distance (set_distance A02_c A02_e A02_lo A02_hi sim_init (1446552492392707 / 17592186044416)) = (1446552492392707 / 17592186044416).
Proof. cbn [get_distance set_distance sim_distance]. first [reflexivity | lra]. Qed.
Lemma d_A02_587g : get_distance (set_distance A02_c A02_e A02_lo A02_hi sim_init (2726964806874531 / 35184372088832)) = (2726964806874531 / 35184372088832).
Proof. cbn [get_distance set_distance sim_distance]. first [reflexivity | lra]. Qed.
Lemma d_A02_595g : get_distance (set_distance A02_c A02_e A02_lo A02_hi sim_init (2842771412867743 / 35184372088832)) = (2842771412867743 / 35184372088832).
Proof. cbn [get_distance set_distance sim_distance]. first [reflexivity | lra]. Qed.
Lemma d_A02_603g : get_distance (set_distance A02_c A02_e A02_lo A02_hi sim_init (4344643539432295 / 17592186044416)) = (4344643539432295 / 17592186044416).
Proof. cbn [get_distance set_distance sim_distance]. first [reflexivity | lra]. Qed.
Lemma d_A02_611g : get_distance (set_distance A02_c A02_e A02_lo A02_hi sim_init (1440487661035033 / 17592186044416)) = (1440487661035033 / 17592186044416).
Proof. cbn [get_distance set_distance sim_distance]. first [reflexivity | lra]. Qed.
Lemma d_A02_619g : get_distance (set_distance A02_c A02_e A02_lo A02_hi sim_init (845114249968077 / 17592186044416)) = (845114249968077 / 17592186044416).
Proof. cbn [get_distance set_distance sim_distance]. first [reflexivity | lra]. Qed.
Lemma d_A02_627g : get_distance (set_distance A02_c A02_e A02_lo A02_hi sim_init (4854231494668753 / 70368744177664)) = (4854231494668753 / 70368744177664).
Proof. cbn [get_distance set_distance sim_distance]. first [reflexivity | lra]. Qed.
Lemma d_A02_635g : get_distance (set_distance A02_c A02_e A02_lo A02_hi sim_init (5847459889423187 / 35184372088832)) = (5847459889423187 / 35184372088832).
Proof. cbn [get_distance set_distance sim_distance]. first [reflexivity | lra]. Qed.
Lemma d_A02_643g : get_distance (set_distance A02_c A02_e A02_lo A02_hi sim_init (6705875635727285 / 70368744177664)) = (6705875635727285 / 70368744177664).
Proof. cbn [get_distance set_distance sim_distance]. first [reflexivity | lra]. Qed.
Lemma d_A02_651g : get_distance (set_distance A02_c A02_e A02_lo A02_hi sim_init (4821684743611955 / 35184372088832)) = (4821684743611955 / 35184372088832).
Proof. cbn [get_distance set_distance sim_distance]. first [reflexivity | lra]. Qed.
Lemma d_A02_659g : get_distance (set_distance A02_c A02_e A02_lo A02_hi sim_init ((-6986936022188019) / 1125899906842624)) = ((-6986936022188019) / 1125899906842624).
Proof. cbn [get_distance set_distance sim_distance]. first [reflexivity | lra]. Qed.
Lemma r_A21_423 : rio_reads A21_c A21_e A21_lo A21_hi floor_volts ctol (Build_rio (Fin ((-1) / 1)) (Fin (0 / 1)) (Fin (0 / 1)) (Fin (0 / 1)) (Fin (2476979795053773 / 562949953421312)) false false false ((Fin (0 / 1)) :: (Fin (0 / 1)) :: (Fin (0 / 1)) :: (Fin (0 / 1)) :: (Fin (27 / 4)) :: (Fin (45 / 1)) :: nil)) (10 / 1).
Proof. apply (A21_rio_fin _ ((-1) / 1)); [reflexivity | apply (A21_q_floor (-1) 1 10 1); vm_compute; reflexivity]. Qed.
Lemma r_A21_461 : rio_distance_opt A21_c A21_e A21_lo A21_hi floor_volts (Build_rio PInf (Fin (5 / 1)) (Fin ((-1) / 1)) (Fin (6 / 1)) (Fin (12 / 1)) true true true ((Fin (0 / 1)) :: (Fin (0 / 1)) :: (Fin (0 / 1)) :: (Fin (0 / 1)) :: (Fin (27 / 4)) :: (Fin (45 / 1)) :: nil)) = Some (10 / 1).
Proof. apply (A21_rio_x _ PInf); [reflexivity | apply (corr_v_pinf _ _ _ _ _ A21_admissible); unfold A21_lo; lra]. Qed.
Lemma d_A21_669g : get_distance (set_distance A21_c A21_e A21_lo A21_hi sim_init (10 / 1)) = (10 / 1).
Proof. cbn [get_distance set_distance sim_distance]. first [reflexivity | lra]. Qed.
Lemma d_A21_677g : get_distance (set_distance A21_c A21_e A21_lo A21_hi sim_init (25 / 1)) = (25 / 1).
Proof. cbn [get_distance set_distance sim_distance]. first [reflexivity | lra]. Qed.
Lemma d_A21_685g : get_distance (set_distance A21_c A21_e A21_lo A21_hi sim_init (0 / 1)) = (0 / 1).
Proof. cbn [get_distance set_distance sim_distance]. first [reflexivity | lra]. Qed.
Lemma d_A21_693g : get_distance (set_distance A21_c A21_e A21_lo A21_hi sim_init (1 / 1)) = (1 / 1).
Proof. cbn [get_distance set_distance sim_distance]. first [reflexivity | lra]. Qed.
Lemma d_A21_701g : get_distance (set_distance A21_c A21_e A21_lo A21_hi sim_init (100 / 1)) = (100 / 1).
Proof. cbn [get_distance set_distance sim_distance]. first [reflexivity | lra]. Qed.
Lemma d_A21_710g : get_distance (set_distance A21_c A21_e A21_lo A21_hi sim_init (80 / 1)) = (80 / 1).
Proof. cbn [get_distance set_distance sim_distance]. first [reflexivity | lra]. Qed.
Lemma d_A21_718g : get_distance (set_distance A21_c A21_e A21_lo A21_hi sim_init (1407374884960655 / 17592186044416)) = (1407374884960655 / 17592186044416).
Proof. cbn [get_distance set_distance sim_distance]. first [reflexivity | lra]. Qed.
Lemma d_A21_726g : get_distance (set_distance A21_c A21_e A21_lo A21_hi sim_init (1186423855655219 / 17592186044416)) = (1186423855655219 / 17592186044416).
Proof. cbn [get_distance set_distance sim_distance]. first [reflexivity | lra]. Qed.
Lemma d_A21_734g : get_distance (set_distance A21_c A21_e A21_lo A21_hi sim_init (1981548267479935 / 35184372088832)) = (1981548267479935 / 35184372088832).
Proof. cbn [get_distance set_distance sim_distance]. first [reflexivity | lra]. Qed.
Lemma d_A21_742g : get_distance (set_distance A21_c A21_e A21_lo A21_hi sim_init (1249305319436711 / 17592186044416)) = (1249305319436711 / 17592186044416).
Proof. cbn [get_distance set_distance sim_distance]. first [reflexivity | lra]. Qed.
Lemma d_A21_750g : get_distance (set_distance A21_c A21_e A21_lo A21_hi sim_init (3864705040770761 / 70368744177664)) = (3864705040770761 / 70368744177664).
Proof. cbn [get_distance set_distance sim_distance]. first [reflexivity | lra]. Qed.
Lemma d_A21_758g : get_distance (set_distance A21_c A21_e A21_lo A21_hi sim_init (3517018335535397 / 70368744177664)) = (3517018335535397 / 70368744177664).
Proof. cbn [get_distance set_distance sim_distance]. first [reflexivity | lra]. Qed.
Lemma d_A21_766g : get_distance (set_distance A21_c A21_e A21_lo A21_hi sim_init (575606293107967 / 17592186044416)) = (575606293107967 / 17592186044416).
Proof. cbn [get_distance set_distance sim_distance]. first [reflexivity | lra]. Qed.
Lemma d_A21_774g : get_distance (set_distance A21_c A21_e A21_lo A21_hi sim_init (166998962029129 / 1099511627776)) = (166998962029129 / 1099511627776).
Proof. cbn [get_distance set_distance sim_distance]. first [reflexivity | lra]. Qed.
Lemma d_A21_782g : get_distance (set_distance A21_c A21_e A21_lo A21_hi sim_init (6187617503941977 / 281474976710656)) = (6187617503941977 / 281474976710656).
Proof. cbn [get_distance set_distance sim_distance]. first [reflexivity | lra]. Qed.
Lemma d_A21_790g : get_distance (set_distance A21_c A21_e A21_lo A21_hi sim_init (2294768577787947 / 140737488355328)) = (2294768577787947 / 140737488355328).
Proof. cbn [get_distance set_distance sim_distance]. first [reflexivity | lra]. Qed.
Lemma d_A21_798g : get_distance (set_distance A21_c A21_e A21_lo A21_hi sim_init (6527312601412363 / 35184372088832)) = (6527312601412363 / 35184372088832).
Proof. cbn [get_distance set_distance sim_distance]. first [reflexivity | lra]. Qed.
Lemma d_A21_806g : get_distance (set_distance A21_c A21_e A21_lo A21_hi sim_init (4909639544171229 / 562949953421312)) = (4909639544171229 / 562949953421312).
Proof. cbn [get_distance set_distance sim_distance]. first [reflexivity | lra]. Qed.
Lemma d_A21_814g : get_distance (set_distance A21_c A21_e A21_lo A21_hi sim_init (282880218092751 / 4398046511104)) = (282880218092751 / 4398046511104).
Proof. cbn [get_distance set_distance sim_distance]. first [reflexivity | lra]. Qed.
Lemma d_A21_822g : get_distance (set_distance A21_c A21_e A21_lo A21_hi sim_init (8893247632774757 / 140737488355328)) = (8893247632774757 / 140737488355328).
Proof. cbn [get_distance set_distance sim_distance]. first [reflexivity | lra]. Qed.
Lemma d_A21_830g : get_distance (set_distance A21_c A21_e A21_lo A21_hi sim_init (8716264298455349 / 281474976710656)) = (8716264298455349 / 281474976710656).
Proof. cbn [get_distance set_distance sim_distance]. first [reflexivity | lra]. Qed.
Lemma d_A21_838g : get_distance (set_distance A21_c A21_e A21_lo A21_hi sim_init (4204957760468415 / 70368744177664)) = (4204957760468415 / 70368744177664).
Proof. cbn [get_distance set_distance sim_distance]. first [reflexivity | lra]. Qed.
Lemma d_A21_846g : get_distance (set_distance A21_c A21_e A21_lo A21_hi sim_init (627477410186297 / 8796093022208)) = (627477410186297 / 8796093022208).
Proof. cbn [get_distance set_distance sim_distance]. first [reflexivity | lra]. Qed.
Lemma d_A21_854g : get_distance (set_distance A21_c A21_e A21_lo A21_hi sim_init (1733844490552761 / 140737488355328)) = (1733844490552761 / 140737488355328).
Proof. cbn [get_distance set_distance sim_distance]. first [reflexivity | lra]. Qed.
Lemma d_A21_862g : get_distance (set_distance A21_c A21_e A21_lo A21_hi sim_init (506855730014181 / 35184372088832)) = (506855730014181 / 35184372088832).
Proof. cbn [get_distance set_distance sim_distance]. first [reflexivity | lra]. Qed.
Lemma d_A21_870g : get_distance (set_distance A21_c A21_e A21_lo A21_hi sim_init (2021192823298797 / 35184372088832)) = (2021192823298797 / 35184372088832).
Proof. cbn [get_distance set_distance sim_distance]. first [reflexivity | lra]. Qed.
Lemma d_A21_878g : get_distance (set_distance A21_c A21_e A21_lo A21_hi sim_init (2376108344733009 / 35184372088832)) = (2376108344733009 / 35184372088832).
Proof. cbn [get_distance set_distance sim_distance]. first [reflexivity | lra]. Qed.
Lemma d_A21_886g : get_distance (set_distance A21_c A21_e A21_lo A21_hi sim_init (3799516649978275 / 140737488355328)) = (3799516649978275 / 140737488355328).
Proof. cbn [get_distance set_distance sim_distance]. first [reflexivity | lra]. Qed.
Lemma d_A21_894g : get_distance (set_distance A21_c A21_e A21_lo A21_hi sim_init (511842204460235 / 8796093022208)) = (511842204460235 / 8796093022208).
Proof. cbn [get_distance set_distance sim_distance]. first [reflexivity | lra]. Qed.
Lemma d_A21_902g : get_distance (set_distance A21_c A21_e A21_lo A21_hi sim_init (153 / 1)) = (153 / 1).
Proof. cbn [get_distance set_distance sim_distance]. first [reflexivity | lra]. Qed.
Lemma d_A21_910g : get_distance (set_distance A21_c A21_e A21_lo A21_hi sim_init (7289757873780063 / 140737488355328)) = (7289757873780063 / 140737488355328).
Proof. cbn [get_distance set_distance sim_distance]. first [reflexivity | lra]. Qed.
Lemma d_A21_918g : get_distance (set_distance A21_c A21_e A21_lo A21_hi sim_init (3637767869436039 / 70368744177664)) = (3637767869436039 / 70368744177664).
Proof. cbn [get_distance set_distance sim_distance]. first [reflexivity | lra]. Qed.
Lemma d_A21_926g : get_distance (set_distance A21_c A21_e A21_lo A21_hi sim_init (1237457804574133 / 17592186044416)) = (1237457804574133 / 17592186044416).
Proof. cbn [get_distance set_distance sim_distance]. first [reflexivity | lra]. Qed.
Lemma d_A21_934g : get_distance (set_distance A21_c A21_e A21_lo A21_hi sim_init (3813525380023147 / 70368744177664)) = (3813525380023147 / 70368744177664).
Proof. cbn [get_distance set_distance sim_distance]. first [reflexivity | lra]. Qed.
Lemma d_A21_942g : get_distance (set_distance A21_c A21_e A21_lo A21_hi sim_init (3167332848583941 / 1125899906842624)) = (3167332848583941 / 1125899906842624).
Proof. cbn [get_distance set_distance sim_distance]. first [reflexivity | lra]. Qed.
Lemma d_A21_950g : get_distance (set_distance A21_c A21_e A21_lo A21_hi sim_init (3385146696883685 / 140737488355328)) = (3385146696883685 / 140737488355328).
Proof. cbn [get_distance set_distance sim_distance]. first [reflexivity | lra]. Qed.
Lemma d_A21_958g : get_distance (set_distance A21_c A21_e A21_lo A21_hi sim_init (847234646740707 / 35184372088832)) = (847234646740707 / 35184372088832).
Proof. cbn [get_distance set_distance sim_distance]. first [reflexivity | lra]. Qed.
Lemma d_A21_966g : get_distance (set_distance A21_c A21_e A21_lo A21_hi sim_init (111490669866675 / 2199023255552)) = (111490669866675 / 2199023255552).
Proof. cbn [get_distance set_distance sim_distance]. first [reflexivity | lra]. Qed.
Lemma d_A21_974g : get_distance (set_distance A21_c A21_e A21_lo A21_hi sim_init (8764027101885467 / 140737488355328)) = (8764027101885467 / 140737488355328).
Proof. cbn [get_distance set_distance sim_distance]. first [reflexivity | lra]. Qed.
Lemma d_A21_982g : get_distance (set_distance A21_c A21_e A21_lo A21_hi sim_init (870885865605885 / 4398046511104)) = (870885865605885 / 4398046511104).
Proof. cbn [get_distance set_distance sim_distance]. first [reflexivity | lra]. Qed.
Lemma d_A21_990g : get_distance (set_distance A21_c A21_e A21_lo A21_hi sim_init (6968732096897909 / 140737488355328)) = (6968732096897909 / 140737488355328).
Proof. cbn [get_distance set_distance sim_distance]. first [reflexivity | lra]. Qed.
Lemma d_A21_998g : get_distance (set_distance A21_c A21_e A21_lo A21_hi sim_init (2547227986317173 / 35184372088832)) = (2547227986317173 / 35184372088832).
Proof. cbn [get_distance set_distance sim_distance]. first [reflexivity | lra]. Qed.
Lemma d_A21_1006g : get_distance (set_distance A21_c A21_e A21_lo A21_hi sim_init (1803815734301897 / 8796093022208)) = (1803815734301897 / 8796093022208).
Proof. cbn [get_distance set_distance sim_distance]. first [reflexivity | lra]. Qed.
Lemma d_A21_1014g : get_distance (set_distance A21_c A21_e A21_lo A21_hi sim_init (588279549854865 / 8796093022208)) = (588279549854865 / 8796093022208).
Proof. cbn [get_distance set_distance sim_distance]. first [reflexivity | lra]. Qed.
Lemma d_A21_1022g : get_distance (set_distance A21_c A21_e A21_lo A21_hi sim_init (5439888942177601 / 140737488355328)) = (5439888942177601 / 140737488355328).
Proof. cbn [get_distance set_distance sim_distance]. first [reflexivity | lra]. Qed.
Lemma d_A21_1030g : get_distance (set_distance A21_c A21_e A21_lo A21_hi sim_init (580824098356285 / 8796093022208)) = (580824098356285 / 8796093022208).
Proof. cbn [get_distance set_distance sim_distance]. first [reflexivity | lra]. Qed.
Lemma d_A21_1038g : get_distance (set_distance A21_c A21_e A21_lo A21_hi sim_init (1072807514414707 / 35184372088832)) = (1072807514414707 / 35184372088832).
Proof. cbn [get_distance set_distance sim_distance]. first [reflexivity | lra]. Qed.
Lemma d_A21_1046g : get_distance (set_distance A21_c A21_e A21_lo A21_hi sim_init (688411076412759 / 72057594037927936)) = (688411076412759 / 72057594037927936).
Proof. cbn [get_distance set_distance sim_distance]. first [reflexivity | lra]. Qed.
Lemma d_A21_1054g : get_distance (set_distance A21_c A21_e A21_lo A21_hi sim_init (6990931337308661 / 140737488355328)) = (6990931337308661 / 140737488355328).
Proof. cbn [get_distance set_distance sim_distance]. first [reflexivity | lra]. Qed.
Lemma d_A21_1062g : get_distance (set_distance A21_c A21_e A21_lo A21_hi sim_init (3010429679159253 / 281474976710656)) = (3010429679159253 / 281474976710656).
Proof. cbn [get_distance set_distance sim_distance]. first [reflexivity | lra]. Qed.
Lemma d_A21_1070g : get_distance (set_distance A21_c A21_e A21_lo A21_hi sim_init (2300747322350519 / 35184372088832)) = (2300747322350519 / 35184372088832).
Proof. cbn [get_distance set_distance sim_distance]. first [reflexivity | lra]. Qed.
Lemma d_A21_1078g : get_distance (set_distance A21_c A21_e A21_lo A21_hi sim_init (1886009873598355 / 70368744177664)) = (1886009873598355 / 70368744177664).
Proof. cbn [get_distance set_distance sim_distance]. first [reflexivity | lra]. Qed.
Lemma d_A21_1086g : get_distance (set_distance A21_c A21_e A21_lo A21_hi sim_init (2427880223777011 / 17592186044416)) = (2427880223777011 / 17592186044416).
Proof. cbn [get_distance set_distance sim_distance]. first [reflexivity | lra]. Qed.
Lemma d_A21_1094g : get_distance (set_distance A21_c A21_e A21_lo A21_hi sim_init (3323782947712311 / 70368744177664)) = (3323782947712311 / 70368744177664).
Proof. cbn [get_distance set_distance sim_distance]. first [reflexivity | lra]. Qed.
Lemma d_A21_1102g : get_distance (set_distance A21_c A21_e A21_lo A21_hi sim_init (1278148523739645 / 17592186044416)) = (1278148523739645 / 17592186044416).
Proof. cbn [get_distance set_distance sim_distance]. first [reflexivity | lra]. Qed.
Lemma d_A21_1110g : get_distance (set_distance A21_c A21_e A21_lo A21_hi sim_init (1828092138171553 / 8796093022208)) = (1828092138171553 / 8796093022208).
Proof. cbn [get_distance set_distance sim_distance]. first [reflexivity | lra]. Qed.
Lemma d_A21_1118g : get_distance (set_distance A21_c A21_e A21_lo A21_hi sim_init (6165127141938329 / 70368744177664)) = (6165127141938329 / 70368744177664).
Proof. cbn [get_distance set_distance sim_distance]. first [reflexivity | lra]. Qed.
Lemma d_A21_1126g : get_distance (set_distance A21_c A21_e A21_lo A21_hi sim_init (366234803073845 / 8796093022208)) = (366234803073845 / 8796093022208).
Proof. cbn [get_distance set_distance sim_distance]. first [reflexivity | lra]. Qed.
Lemma d_A21_1134g : get_distance (set_distance A21_c A21_e A21_lo A21_hi sim_init (4940062777018487 / 70368744177664)) = (4940062777018487 / 70368744177664).
Proof. cbn [get_distance set_distance sim_distance]. first [reflexivity | lra]. Qed.
Lemma d_A21_1142g : get_distance (set_distance A21_c A21_e A21_lo A21_hi sim_init (1600852118560709 / 35184372088832)) = (1600852118560709 / 35184372088832).
Proof. cbn [get_distance set_distance sim_distance]. first [reflexivity | lra]. Qed.
Lemma d_A21_1150g : get_distance (set_distance A21_c A21_e A21_lo A21_hi sim_init (3429817471237177 / 140737488355328)) = (3429817471237177 / 140737488355328).
Proof. cbn [get_distance set_distance sim_distance]. first [reflexivity | lra]. Qed.
Lemma d_A21_1158g : get_distance (set_distance A21_c A21_e A21_lo A21_hi sim_init (4557978193980125 / 140737488355328)) = (4557978193980125 / 140737488355328).
Proof. cbn [get_distance set_distance sim_distance]. first [reflexivity | lra]. Qed.
Lemma d_A21_1166g : get_distance (set_distance A21_c A21_e A21_lo A21_hi sim_init (1351019511808585 / 70368744177664)) = (1351019511808585 / 70368744177664).
Proof. cbn [get_distance set_distance sim_distance]. first [reflexivity | lra]. Qed.
Lemma d_A21_1174g : get_distance (set_distance A21_c A21_e A21_lo A21_hi sim_init (301052834088225 / 8796093022208)) = (301052834088225 / 8796093022208).
Proof. cbn [get_distance set_distance sim_distance]. first [reflexivity | lra]. Qed.
Lemma d_A21_1182g : get_distance (set_distance A21_c A21_e A21_lo A21_hi sim_init (7752341212513539 / 281474976710656)) = (7752341212513539 / 281474976710656).
Proof. cbn [get_distance set_distance sim_distance]. first [reflexivity | lra]. Qed.
Lemma d_A21_1190g : get_distance (set_distance A21_c A21_e A21_lo A21_hi sim_init (337115514292921 / 8796093022208)) = (337115514292921 / 8796093022208).
Proof. cbn [get_distance set_distance sim_distance]. first [reflexivity | lra]. Qed.
Lemma d_A21_1198g : get_distance (set_distance A21_c A21_e A21_lo A21_hi sim_init (4 / 1)) = (4 / 1).
Proof. cbn [get_distance set_distance sim_distance]. first [reflexivity | lra]. Qed.
Lemma d_A21_1206g : get_distance (set_distance A21_c A21_e A21_lo A21_hi sim_init ((-2354630459495559) / 562949953421312)) = ((-2354630459495559) / 562949953421312).
Proof. cbn [get_distance set_distance sim_distance]. first [reflexivity | lra]. Qed.
Lemma d_A21_1214g : get_distance (set_distance A21_c A21_e A21_lo A21_hi sim_init (6871839039503575 / 70368744177664)) = (6871839039503575 / 70368744177664).
Proof. cbn [get_distance set_distance sim_distance]. first [reflexivity | lra]. Qed.
Lemma d_A21_1222g : get_distance (set_distance A21_c A21_e A21_lo A21_hi sim_init (2681313927632733 / 281474976710656)) = (2681313927632733 / 281474976710656).
Proof. cbn [get_distance set_distance sim_distance]. first [reflexivity | lra]. Qed.
Lemma d_A21_1230g : get_distance (set_distance A21_c A21_e A21_lo A21_hi sim_init (863103707452779 / 70368744177664)) = (863103707452779 / 70368744177664).
Proof. cbn [get_distance set_distance sim_distance]. first [reflexivity | lra]. Qed.
Lemma d_A21_1238g : get_distance (set_distance A21_c A21_e A21_lo A21_hi sim_init (7943481931052857 / 140737488355328)) = (7943481931052857 / 140737488355328).
Proof. cbn [get_distance set_distance sim_distance]. first [reflexivity | lra]. Qed.
Lemma d_A21_1246g : get_distance (set_distance A21_c A21_e A21_lo A21_hi sim_init (2124310990180273 / 70368744177664)) = (2124310990180273 / 70368744177664).
Proof. cbn [get_distance set_distance sim_distance]. first [reflexivity | lra]. Qed.
Lemma d_A21_1254g : get_distance (set_distance A21_c A21_e A21_lo A21_hi sim_init (7395725728057707 / 281474976710656)) = (7395725728057707 / 281474976710656).
Proof. cbn [get_distance set_distance sim_distance]. first [reflexivity | lra]. Qed.
Lemma d_A21_1262g : get_distance (set_distance A21_c A21_e A21_lo A21_hi sim_init (2348978324119895 / 70368744177664)) = (2348978324119895 / 70368744177664).
Proof. cbn [get_distance set_distance sim_distance]. first [reflexivity | lra]. Qed.
Lemma d_A21_1270g : get_distance (set_distance A21_c A21_e A21_lo A21_hi sim_init (3919773064716233 / 17592186044416)) = (3919773064716233 / 17592186044416).
Proof. cbn [get_distance set_distance sim_distance]. first [reflexivity | lra]. Qed.
Lemma d_A21_1278g : get_distance (set_distance A21_c A21_e A21_lo A21_hi sim_init (7722961802051641 / 140737488355328)) = (7722961802051641 / 140737488355328).
Proof. cbn [get_distance set_distance sim_distance]. first [reflexivity | lra]. Qed.
Lemma d_A21_1286g : get_distance (set_distance A21_c A21_e A21_lo A21_hi sim_init (8039637752914439 / 140737488355328)) = (8039637752914439 / 140737488355328).
Proof. cbn [get_distance set_distance sim_distance]. first [reflexivity | lra]. Qed.
Lemma d_A21_1294g : get_distance (set_distance A21_c A21_e A21_lo A21_hi sim_init (2608696511033375 / 17592186044416)) = (2608696511033375 / 17592186044416).
Proof. cbn [get_distance set_distance sim_distance]. first [reflexivity | lra]. Qed.
Lemma d_A21_1302g : get_distance (set_distance A21_c A21_e A21_lo A21_hi sim_init (1801470416888669 / 70368744177664)) = (1801470416888669 / 70368744177664).
Proof. cbn [get_distance set_distance sim_distance]. first [reflexivity | lra]. Qed.
Lemma d_A21_1310g : get_distance (set_distance A21_c A21_e A21_lo A21_hi sim_init (3989133695597941 / 140737488355328)) = (3989133695597941 / 140737488355328).
Proof. cbn [get_distance set_distance sim_distance]. first [reflexivity | lra]. Qed.
Lemma d_A21_1318g : get_distance (set_distance A21_c A21_e A21_lo A21_hi sim_init (7257299078691115 / 562949953421312)) = (7257299078691115 / 562949953421312).
Proof. cbn [get_distance set_distance sim_distance]. first [reflexivity | lra]. Qed.
Lemma d_A21_1326g : get_distance (set_distance A21_c A21_e A21_lo A21_hi sim_init (1255621424205853 / 1125899906842624)) = (1255621424205853 / 1125899906842624).
Proof. cbn [get_distance set_distance sim_distance]. first [reflexivity | lra]. Qed.
Lemma r_A41_858 : rio_reads A41_c A41_e A41_lo A41_hi floor_volts ctol (Build_rio (Fin ((-1) / 202402253307310618352495346718917307049556649764142118356901358027430339567995346891960383701437124495187077864316811911389808737385793476867013399940738509921517424276566361364466907742093216341239767678472745068562007483424692698618103355649159556340810056512358769552333414615230502532186327508646006263307707741093494784)) (Fin (1 / 1)) (Fin (1 / 1)) (Fin (1 / 1)) (Fin (1 / 1)) true true true ((Fin (0 / 1)) :: (Fin (0 / 1)) :: (Fin (0 / 1)) :: (Fin (0 / 1)) :: (Fin (1 / 1)) :: (Fin (45 / 1)) :: nil)) (5876659090025575 / 562949953421312).
Proof. apply (A41_rio_fin _ ((-1) / 202402253307310618352495346718917307049556649764142118356901358027430339567995346891960383701437124495187077864316811911389808737385793476867013399940738509921517424276566361364466907742093216341239767678472745068562007483424692698618103355649159556340810056512358769552333414615230502532186327508646006263307707741093494784)); [reflexivity | apply (A41_q_floor (-1) 202402253307310618352495346718917307049556649764142118356901358027430339567995346891960383701437124495187077864316811911389808737385793476867013399940738509921517424276566361364466907742093216341239767678472745068562007483424692698618103355649159556340810056512358769552333414615230502532186327508646006263307707741093494784 5876659090025575 562949953421312); vm_compute; reflexivity]. Qed.
Lemma r_A41_1232 : rio_reads A41_c A41_e A41_lo A41_hi floor_volts ctol (Build_rio (Fin (4009907055599645 / 1180591620717411303424)) (Fin (4267 / 1024)) (Fin (3715469692580659 / 1125899906842624)) (Fin (1 / 1)) (Fin (2507 / 256)) true true true ((Fin (2339 / 1024)) :: (Fin (457 / 512)) :: (Fin (1411 / 512)) :: (Fin (67393 / 512)) :: (Fin (1943 / 512)) :: (Fin (12105 / 1024)) :: nil)) (35 / 1).
Proof. apply (A41_rio_fin _ (4009907055599645 / 1180591620717411303424)); [reflexivity | apply (A41_q_floor 4009907055599645 1180591620717411303424 35 1); vm_compute; reflexivity]. Qed.
Lemma d_A41_1335g : get_distance (set_distance A41_c A41_e A41_lo A41_hi sim_init (10 / 1)) = (10 / 1).
Proof. cbn [get_distance set_distance sim_distance]. first [reflexivity | lra]. Qed.
Lemma d_A41_1343g : get_distance (set_distance A41_c A41_e A41_lo A41_hi sim_init (25 / 1)) = (25 / 1).
Proof. cbn [get_distance set_distance sim_distance]. first [reflexivity | lra]. Qed.
Lemma d_A41_1351g : get_distance (set_distance A41_c A41_e A41_lo A41_hi sim_init (0 / 1)) = (0 / 1).
Proof. cbn [get_distance set_distance sim_distance]. first [reflexivity | lra]. Qed.
Lemma d_A41_1359g : get_distance (set_distance A41_c A41_e A41_lo A41_hi sim_init (1 / 1)) = (1 / 1).
Proof. cbn [get_distance set_distance sim_distance]. first [reflexivity | lra]. Qed.
Lemma d_A41_1367g : get_distance (set_distance A41_c A41_e A41_lo A41_hi sim_init (100 / 1)) = (100 / 1).
Proof. cbn [get_distance set_distance sim_distance]. first [reflexivity | lra]. Qed.
Lemma d_A41_1376g : get_distance (set_distance A41_c A41_e A41_lo A41_hi sim_init (35 / 1)) = (35 / 1).
Proof. cbn [get_distance set_distance sim_distance]. first [reflexivity | lra]. Qed.
Lemma d_A41_1384g : get_distance (set_distance A41_c A41_e A41_lo A41_hi sim_init (1231453024340573 / 35184372088832)) = (1231453024340573 / 35184372088832).
Proof. cbn [get_distance set_distance sim_distance]. first [reflexivity | lra]. Qed.
Lemma d_A41_1392g : get_distance (set_distance A41_c A41_e A41_lo A41_hi sim_init (5871916994782295 / 281474976710656)) = (5871916994782295 / 281474976710656).
Proof. cbn [get_distance set_distance sim_distance]. first [reflexivity | lra]. Qed.
Lemma d_A41_1400g : get_distance (set_distance A41_c A41_e A41_lo A41_hi sim_init (3808686616710511 / 281474976710656)) = (3808686616710511 / 281474976710656).
Proof. cbn [get_distance set_distance sim_distance]. first [reflexivity | lra]. Qed.
Lemma d_A41_1408g : get_distance (set_distance A41_c A41_e A41_lo A41_hi sim_init (2363227707027783 / 70368744177664)) = (2363227707027783 / 70368744177664).
Proof. cbn [get_distance set_distance sim_distance]. first [reflexivity | lra]. Qed.
Lemma d_A41_1416g : get_distance (set_distance A41_c A41_e A41_lo A41_hi sim_init (531819533436457 / 70368744177664)) = (531819533436457 / 70368744177664).
Proof. cbn [get_distance set_distance sim_distance]. first [reflexivity | lra]. Qed.
Lemma d_A41_1424g : get_distance (set_distance A41_c A41_e A41_lo A41_hi sim_init (7581022413876561 / 281474976710656)) = (7581022413876561 / 281474976710656).
Proof. cbn [get_distance set_distance sim_distance]. first [reflexivity | lra]. Qed.
Lemma d_A41_1432g : get_distance (set_distance A41_c A41_e A41_lo A41_hi sim_init (1947928072423963 / 35184372088832)) = (1947928072423963 / 35184372088832).
Proof. cbn [get_distance set_distance sim_distance]. first [reflexivity | lra]. Qed.
Lemma d_A41_1440g : get_distance (set_distance A41_c A41_e A41_lo A41_hi sim_init (8665487696717757 / 562949953421312)) = (8665487696717757 / 562949953421312).
Proof. cbn [get_distance set_distance sim_distance]. first [reflexivity | lra]. Qed.
Lemma d_A41_1448g : get_distance (set_distance A41_c A41_e A41_lo A41_hi sim_init (2281134046455155 / 70368744177664)) = (2281134046455155 / 70368744177664).
Proof. cbn [get_distance set_distance sim_distance]. first [reflexivity | lra]. Qed.
Lemma d_A41_1456g : get_distance (set_distance A41_c A41_e A41_lo A41_hi sim_init (7795417140698615 / 562949953421312)) = (7795417140698615 / 562949953421312).
Proof. cbn [get_distance set_distance sim_distance]. first [reflexivity | lra]. Qed.
Lemma d_A41_1464g : get_distance (set_distance A41_c A41_e A41_lo A41_hi sim_init (889548136478237 / 70368744177664)) = (889548136478237 / 70368744177664).
Proof. cbn [get_distance set_distance sim_distance]. first [reflexivity | lra]. Qed.
Lemma d_A41_1472g : get_distance (set_distance A41_c A41_e A41_lo A41_hi sim_init (1499778471042943 / 70368744177664)) = (1499778471042943 / 70368744177664).
Proof. cbn [get_distance set_distance sim_distance]. first [reflexivity | lra]. Qed.
Lemma d_A41_1480g : get_distance (set_distance A41_c A41_e A41_lo A41_hi sim_init (2622522519613479 / 140737488355328)) = (2622522519613479 / 140737488355328).
Proof. cbn [get_distance set_distance sim_distance]. first [reflexivity | lra]. Qed.
Lemma d_A41_1488g : get_distance (set_distance A41_c A41_e A41_lo A41_hi sim_init ((-3350060896262553) / 2251799813685248)) = ((-3350060896262553) / 2251799813685248).
Proof. cbn [get_distance set_distance sim_distance]. first [reflexivity | lra]. Qed.
Lemma d_A41_1496g : get_distance (set_distance A41_c A41_e A41_lo A41_hi sim_init (1174242826445871 / 70368744177664)) = (1174242826445871 / 70368744177664).
Proof. cbn [get_distance set_distance sim_distance]. first [reflexivity | lra]. Qed.
Lemma d_A41_1504g : get_distance (set_distance A41_c A41_e A41_lo A41_hi sim_init (5127226069948305 / 1125899906842624)) = (5127226069948305 / 1125899906842624).
Proof. cbn [get_distance set_distance sim_distance]. first [reflexivity | lra]. Qed.
Lemma d_A41_1512g : get_distance (set_distance A41_c A41_e A41_lo A41_hi sim_init (1104545388868597 / 34359738368)) = (1104545388868597 / 34359738368).
Proof. cbn [get_distance set_distance sim_distance]. first [reflexivity | lra]. Qed.
Lemma d_A41_1520g : get_distance (set_distance A41_c A41_e A41_lo A41_hi sim_init (6313433767125435 / 18014398509481984)) = (6313433767125435 / 18014398509481984).
Proof. cbn [get_distance set_distance sim_distance]. first [reflexivity | lra]. Qed.
Lemma d_A41_1528g : get_distance (set_distance A41_c A41_e A41_lo A41_hi sim_init (8841584628567999 / 562949953421312)) = (8841584628567999 / 562949953421312).
Proof. cbn [get_distance set_distance sim_distance]. first [reflexivity | lra]. Qed.
Lemma d_A41_1536g : get_distance (set_distance A41_c A41_e A41_lo A41_hi sim_init (140040227994295 / 4398046511104)) = (140040227994295 / 4398046511104).
Proof. cbn [get_distance set_distance sim_distance]. first [reflexivity | lra]. Qed.
Lemma d_A41_1544g : get_distance (set_distance A41_c A41_e A41_lo A41_hi sim_init (1449460993556745 / 1125899906842624)) = (1449460993556745 / 1125899906842624).
Proof. cbn [get_distance set_distance sim_distance]. first [reflexivity | lra]. Qed.
Lemma d_A41_1552g : get_distance (set_distance A41_c A41_e A41_lo A41_hi sim_init (1722210395014285 / 281474976710656)) = (1722210395014285 / 281474976710656).
Proof. cbn [get_distance set_distance sim_distance]. first [reflexivity | lra]. Qed.
Lemma d_A41_1560g : get_distance (set_distance A41_c A41_e A41_lo A41_hi sim_init (4762327596050399 / 281474976710656)) = (4762327596050399 / 281474976710656).
Proof. cbn [get_distance set_distance sim_distance]. first [reflexivity | lra]. Qed.
Lemma d_A41_1568g : get_distance (set_distance A41_c A41_e A41_lo A41_hi sim_init (2818870751120815 / 140737488355328)) = (2818870751120815 / 140737488355328).
Proof. cbn [get_distance set_distance sim_distance]. first [reflexivity | lra]. Qed.
Lemma d_A41_1576g : get_distance (set_distance A41_c A41_e A41_lo A41_hi sim_init (2809213783049059 / 1125899906842624)) = (2809213783049059 / 1125899906842624).
Proof. cbn [get_distance set_distance sim_distance]. first [reflexivity | lra]. Qed.
Lemma d_A41_1584g : get_distance (set_distance A41_c A41_e A41_lo A41_hi sim_init (4740764987714675 / 562949953421312)) = (4740764987714675 / 562949953421312).
Proof. cbn [get_distance set_distance sim_distance]. first [reflexivity | lra]. Qed.
Lemma d_A41_1592g : get_distance (set_distance A41_c A41_e A41_lo A41_hi sim_init (589699908627533 / 70368744177664)) = (589699908627533 / 70368744177664).
Proof. cbn [get_distance set_distance sim_distance]. first [reflexivity | lra]. Qed.
Lemma d_A41_1600g : get_distance (set_distance A41_c A41_e A41_lo A41_hi sim_init (3405084986456759 / 281474976710656)) = (3405084986456759 / 281474976710656).
Proof. cbn [get_distance set_distance sim_distance]. first [reflexivity | lra]. Qed.
Lemma d_A41_1608g : get_distance (set_distance A41_c A41_e A41_lo A41_hi sim_init (2195882394115927 / 70368744177664)) = (2195882394115927 / 70368744177664).
Proof. cbn [get_distance set_distance sim_distance]. first [reflexivity | lra]. Qed.
Lemma d_A41_1616g : get_distance (set_distance A41_c A41_e A41_lo A41_hi sim_init (2268455743566697 / 70368744177664)) = (2268455743566697 / 70368744177664).
Proof. cbn [get_distance set_distance sim_distance]. first [reflexivity | lra]. Qed.
Lemma d_A41_1624g : get_distance (set_distance A41_c A41_e A41_lo A41_hi sim_init (5498263363765507 / 1125899906842624)) = (5498263363765507 / 1125899906842624).
Proof. cbn [get_distance set_distance sim_distance]. first [reflexivity | lra]. Qed.
Lemma d_A41_1632g : get_distance (set_distance A41_c A41_e A41_lo A41_hi sim_init (52 / 1)) = (52 / 1).
Proof. cbn [get_distance set_distance sim_distance]. first [reflexivity | lra]. Qed.
Lemma d_A41_1640g : get_distance (set_distance A41_c A41_e A41_lo A41_hi sim_init (1184723308163149 / 35184372088832)) = (1184723308163149 / 35184372088832).
Proof. cbn [get_distance set_distance sim_distance]. first [reflexivity | lra]. Qed.
Lemma d_A41_1648g : get_distance (set_distance A41_c A41_e A41_lo A41_hi sim_init (2824459849716789 / 281474976710656)) = (2824459849716789 / 281474976710656).
Proof. cbn [get_distance set_distance sim_distance]. first [reflexivity | lra]. Qed.
Lemma d_A41_1656g : get_distance (set_distance A41_c A41_e A41_lo A41_hi sim_init (3795848045272599 / 140737488355328)) = (3795848045272599 / 140737488355328).
Proof. cbn [get_distance set_distance sim_distance]. first [reflexivity | lra]. Qed.
Lemma d_A41_1664g : get_distance (set_distance A41_c A41_e A41_lo A41_hi sim_init (6696326056215985 / 562949953421312)) = (6696326056215985 / 562949953421312).
Proof. cbn [get_distance set_distance sim_distance]. first [reflexivity | lra]. Qed.
Lemma d_A41_1672g : get_distance (set_distance A41_c A41_e A41_lo A41_hi sim_init (2983427552102713 / 281474976710656)) = (2983427552102713 / 281474976710656).
Proof. cbn [get_distance set_distance sim_distance]. first [reflexivity | lra]. Qed.
Lemma d_A41_1680g : get_distance (set_distance A41_c A41_e A41_lo A41_hi sim_init (2389624742554381 / 70368744177664)) = (2389624742554381 / 70368744177664).
Proof. cbn [get_distance set_distance sim_distance]. first [reflexivity | lra]. Qed.
Lemma d_A41_1688g : get_distance (set_distance A41_c A41_e A41_lo A41_hi sim_init (3019780372069893 / 281474976710656)) = (3019780372069893 / 281474976710656).
Proof. cbn [get_distance set_distance sim_distance]. first [reflexivity | lra]. Qed.
Lemma d_A41_1696g : get_distance (set_distance A41_c A41_e A41_lo A41_hi sim_init (6340199007490353 / 281474976710656)) = (6340199007490353 / 281474976710656).
Proof. cbn [get_distance set_distance sim_distance]. first [reflexivity | lra]. Qed.
Lemma d_A41_1704g : get_distance (set_distance A41_c A41_e A41_lo A41_hi sim_init (2405703549267585 / 140737488355328)) = (2405703549267585 / 140737488355328).
Proof. cbn [get_distance set_distance sim_distance]. first [reflexivity | lra]. Qed.
Lemma d_A41_1712g : get_distance (set_distance A41_c A41_e A41_lo A41_hi sim_init (3394344506493731 / 140737488355328)) = (3394344506493731 / 140737488355328).
Proof. cbn [get_distance set_distance sim_distance]. first [reflexivity | lra]. Qed.
Lemma d_A41_1720g : get_distance (set_distance A41_c A41_e A41_lo A41_hi sim_init (2807881333325867 / 281474976710656)) = (2807881333325867 / 281474976710656).
Proof. cbn [get_distance set_distance sim_distance]. first [reflexivity | lra]. Qed.
Lemma d_A41_1728g : get_distance (set_distance A41_c A41_e A41_lo A41_hi sim_init (1626174766226661 / 70368744177664)) = (1626174766226661 / 70368744177664).
Proof. cbn [get_distance set_distance sim_distance]. first [reflexivity | lra]. Qed.
Lemma d_A41_1736g : get_distance (set_distance A41_c A41_e A41_lo A41_hi sim_init (6562546571766299 / 281474976710656)) = (6562546571766299 / 281474976710656).
Proof. cbn [get_distance set_distance sim_distance]. first [reflexivity | lra]. Qed.
Lemma d_A41_1744g : get_distance (set_distance A41_c A41_e A41_lo A41_hi sim_init (7338070047892547 / 281474976710656)) = (7338070047892547 / 281474976710656).
Proof. cbn [get_distance set_distance sim_distance]. first [reflexivity | lra]. Qed.
Lemma d_A41_1752g : get_distance (set_distance A41_c A41_e A41_lo A41_hi sim_init (4399629708002679 / 281474976710656)) = (4399629708002679 / 281474976710656).
Proof. cbn [get_distance set_distance sim_distance]. first [reflexivity | lra]. Qed.
Lemma d_A41_1760g : get_distance (set_distance A41_c A41_e A41_lo A41_hi sim_init (6152930063260305 / 1125899906842624)) = (6152930063260305 / 1125899906842624).
Proof. cbn [get_distance set_distance sim_distance]. first [reflexivity | lra]. Qed.
Lemma d_A41_1768g : get_distance (set_distance A41_c A41_e A41_lo A41_hi sim_init (3481921090062211 / 281474976710656)) = (3481921090062211 / 281474976710656).
Proof. cbn [get_distance set_distance sim_distance]. first [reflexivity | lra]. Qed.
Lemma d_A41_1776g : get_distance (set_distance A41_c A41_e A41_lo A41_hi sim_init (2055914005240769 / 70368744177664)) = (2055914005240769 / 70368744177664).
Proof. cbn [get_distance set_distance sim_distance]. first [reflexivity | lra]. Qed.
Lemma d_A41_1784g : get_distance (set_distance A41_c A41_e A41_lo A41_hi sim_init (6323146557078453 / 562949953421312)) = (6323146557078453 / 562949953421312).
Proof. cbn [get_distance set_distance sim_distance]. first [reflexivity | lra]. Qed.
Lemma d_A41_1792g : get_distance (set_distance A41_c A41_e A41_lo A41_hi sim_init (2875810409092751 / 35184372088832)) = (2875810409092751 / 35184372088832).
Proof. cbn [get_distance set_distance sim_distance]. first [reflexivity | lra]. Qed.
Lemma d_A41_1800g : get_distance (set_distance A41_c A41_e A41_lo A41_hi sim_init (5021691546807357 / 281474976710656)) = (5021691546807357 / 281474976710656).
Proof. cbn [get_distance set_distance sim_distance]. first [reflexivity | lra]. Qed.
Lemma d_A41_1808g : get_distance (set_distance A41_c A41_e A41_lo A41_hi sim_init (2403572523510355 / 1125899906842624)) = (2403572523510355 / 1125899906842624).
Proof. cbn [get_distance set_distance sim_distance]. first [reflexivity | lra]. Qed.
Lemma d_A41_1816g : get_distance (set_distance A41_c A41_e A41_lo A41_hi sim_init (2693146297895285 / 140737488355328)) = (2693146297895285 / 140737488355328).
Proof. cbn [get_distance set_distance sim_distance]. first [reflexivity | lra]. Qed.
Lemma d_A41_1824g : get_distance (set_distance A41_c A41_e A41_lo A41_hi sim_init (5841361334899841 / 4503599627370496)) = (5841361334899841 / 4503599627370496).
Proof. cbn [get_distance set_distance sim_distance]. first [reflexivity | lra]. Qed.
Lemma d_A41_1832g : get_distance (set_distance A41_c A41_e A41_lo A41_hi sim_init (169521890092335 / 17592186044416)) = (169521890092335 / 17592186044416).
Proof. cbn [get_distance set_distance sim_distance]. first [reflexivity | lra]. Qed.
Lemma d_A41_1840g : get_distance (set_distance A41_c A41_e A41_lo A41_hi sim_init (2657953224531405 / 140737488355328)) = (2657953224531405 / 140737488355328).
Proof. cbn [get_distance set_distance sim_distance]. first [reflexivity | lra]. Qed.
Lemma d_A41_1848g : get_distance (set_distance A41_c A41_e A41_lo A41_hi sim_init (1199440929748817 / 35184372088832)) = (1199440929748817 / 35184372088832).
Proof. cbn [get_distance set_distance sim_distance]. first [reflexivity | lra]. Qed.
Lemma d_A41_1856g : get_distance (set_distance A41_c A41_e A41_lo A41_hi sim_init (7347858463462511 / 281474976710656)) = (7347858463462511 / 281474976710656).
Proof. cbn [get_distance set_distance sim_distance]. first [reflexivity | lra]. Qed.
Lemma d_A41_1864g : get_distance (set_distance A41_c A41_e A41_lo A41_hi sim_init (6403508506053375 / 281474976710656)) = (6403508506053375 / 281474976710656).
Proof. cbn [get_distance set_distance sim_distance]. first [reflexivity | lra]. Qed.
Lemma d_A41_1872g : get_distance (set_distance A41_c A41_e A41_lo A41_hi sim_init (4374997610523721 / 140737488355328)) = (4374997610523721 / 140737488355328).
Proof. cbn [get_distance set_distance sim_distance]. first [reflexivity | lra]. Qed.
Lemma d_A41_1880g : get_distance (set_distance A41_c A41_e A41_lo A41_hi sim_init (1387712998282801 / 140737488355328)) = (1387712998282801 / 140737488355328).
Proof. cbn [get_distance set_distance sim_distance]. first [reflexivity | lra]. Qed.
Lemma d_A41_1888g : get_distance (set_distance A41_c A41_e A41_lo A41_hi sim_init (907257547172651 / 70368744177664)) = (907257547172651 / 70368744177664).
Proof. cbn [get_distance set_distance sim_distance]. first [reflexivity | lra]. Qed.
Lemma d_A41_1896g : get_distance (set_distance A41_c A41_e A41_lo A41_hi sim_init (251842016699703 / 70368744177664)) = (251842016699703 / 70368744177664).
Proof. cbn [get_distance set_distance sim_distance]. first [reflexivity | lra]. Qed.
Lemma d_A41_1904g : get_distance (set_distance A41_c A41_e A41_lo A41_hi sim_init (5557871072679875 / 8796093022208)) = (5557871072679875 / 8796093022208).
Proof. cbn [get_distance set_distance sim_distance]. first [reflexivity | lra]. Qed.
Lemma d_A41_1912g : get_distance (set_distance A41_c A41_e A41_lo A41_hi sim_init (1990321781877951 / 70368744177664)) = (1990321781877951 / 70368744177664).
Proof. cbn [get_distance set_distance sim_distance]. first [reflexivity | lra]. Qed.
Lemma d_A41_1920g : get_distance (set_distance A41_c A41_e A41_lo A41_hi sim_init (38 / 1)) = (38 / 1).
Proof. cbn [get_distance set_distance sim_distance]. first [reflexivity | lra]. Qed.
Lemma d_A41_1928g : get_distance (set_distance A41_c A41_e A41_lo A41_hi sim_init (3025971678746443 / 70368744177664)) = (3025971678746443 / 70368744177664).
Proof. cbn [get_distance set_distance sim_distance]. first [reflexivity | lra]. Qed.
Lemma d_A41_1936g : get_distance (set_distance A41_c A41_e A41_lo A41_hi sim_init (4333777576250869 / 281474976710656)) = (4333777576250869 / 281474976710656).
Proof. cbn [get_distance set_distance sim_distance]. first [reflexivity | lra]. Qed.
Lemma d_A41_1944g : get_distance (set_distance A41_c A41_e A41_lo A41_hi sim_init (32 / 1)) = (32 / 1).
Proof. cbn [get_distance set_distance sim_distance]. first [reflexivity | lra]. Qed.
Lemma d_A41_1952g : get_distance (set_distance A41_c A41_e A41_lo A41_hi sim_init (2856057852881257 / 140737488355328)) = (2856057852881257 / 140737488355328).
Proof. cbn [get_distance set_distance sim_distance]. first [reflexivity | lra]. Qed.
Lemma d_A41_1960g : get_distance (set_distance A41_c A41_e A41_lo A41_hi sim_init (4767832411808173 / 281474976710656)) = (4767832411808173 / 281474976710656).
Proof. cbn [get_distance set_distance sim_distance]. first [reflexivity | lra]. Qed.
Lemma d_A41_1968g : get_distance (set_distance A41_c A41_e A41_lo A41_hi sim_init (344102487300935 / 17592186044416)) = (344102487300935 / 17592186044416).
Proof. cbn [get_distance set_distance sim_distance]. first [reflexivity | lra]. Qed.
Lemma d_A41_1976g : get_distance (set_distance A41_c A41_e A41_lo A41_hi sim_init (8358309825755605 / 562949953421312)) = (8358309825755605 / 562949953421312).
Proof. cbn [get_distance set_distance sim_distance]. first [reflexivity | lra]. Qed.
Lemma d_A41_1984g : get_distance (set_distance A41_c A41_e A41_lo A41_hi sim_init (4034120305713297 / 281474976710656)) = (4034120305713297 / 281474976710656).
Proof. cbn [get_distance set_distance sim_distance]. first [reflexivity | lra]. Qed.
Lemma d_A41_1992g : get_distance (set_distance A41_c A41_e A41_lo A41_hi sim_init (4624937218999733 / 140737488355328)) = (4624937218999733 / 140737488355328).
Proof. cbn [get_distance set_distance sim_distance]. first [reflexivity | lra]. Qed.
Check d_A41_1992g.
